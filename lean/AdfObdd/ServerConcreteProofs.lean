import AdfObdd.ServerConcrete
import AdfObdd.ServerSuccess
import AdfObdd.ServerVars
import AdfObdd.ServerRoundTrip
import AdfObdd.ServerReach
import AdfObdd.CompleteVectors
/-! # C16 — the SERVICE (not just the library) returns the definitional answers

`SrvC.libEnv o` is the server model's environment instantiated with the concrete library models
(`ServerConcrete.lean`, the very definition the driver executes against the real server). This file
composes, for that instance,

* the success path of the tasks (`ServerSuccess.lean`: what a `.write` event stores, where, and that
  `GET` returns it),
* `SrvA.stored_answers_*` (`ServerAnswers.lean`: the library model's answers are the definitional ones),
* the graph facts (`ServerGraph.lean`, `ServerVars.lean`),

into statements about what a user of the service retrieves. -/
namespace ServerAdf
open ServerM

/-- unparseable / panicking code: the parse model reports the error of `conditions` -/
theorem parseNaive_of_conditions_error (key code : String) (e : Err) (h : conditions code = .error e) :
    parseNaive key code = .error e := by
  unfold conditions at h
  unfold parseNaive
  cases hp : parseText code with
  | none => rw [hp] at h; simpa using h
  | some p =>
    rw [hp] at h
    simp only at h ⊢
    cases hr : resolve p with
    | error e' => rw [hr] at h; simpa using h
    | ok l => rw [hr] at h; cases h

/-- accepted code: the parse model succeeds, with the names of `conditions` and the graph of what it stores -/
theorem parseNaive_of_conditions_ok (key code : String) (x : List String × List Fm) (h : conditions code = .ok x) :
    ∃ a, parseNaive key code = .ok (a, [⟨a.ac, graphOf a.names a.nodes a.ac⟩]) ∧ a.names = x.1 := by
  unfold conditions at h
  unfold parseNaive
  cases hp : parseText code with
  | none => rw [hp] at h; cases h
  | some p =>
    rw [hp] at h
    simp only at h ⊢
    cases hr : resolve p with
    | error e' => rw [hr] at h; cases h
    | ok l =>
      rw [hr] at h
      simp only [Except.ok.injEq] at h
      exact ⟨_, rfl, by rw [← h]⟩

end ServerAdf

namespace SrvC
open ServerM ServerAdf

/-! ### the instance, unfolded -/

theorem libEnv_parse_naive (o : Oracle) (code : String) :
    (libEnv o).parse .naive code = parseNaive (parseKey .naive code) code := rfl

theorem libEnv_solve (o : Oracle) (a : SAdf) (s : Strategy) : (libEnv o).solve a s = solveAdf a s := rfl

/-- hybrid parsing: the outcome class is the code's (`parseOutcome`), the stored table is the one
adopted from the implementation for this code (validated at run time by `storedAdfOK`), the
parse-only graph is computed by the model's graph builder from it -/
theorem libEnv_parse_hybrid (o : Oracle) (code : String) (a : SAdf) (r : SRes)
    (h : (libEnv o).parse .hybrid code = .ok (a, r)) :
    (∃ x, conditions code = .ok x) ∧ lookupS (parseKey .hybrid code) o.hyb = some a ∧
      r = [⟨a.ac, graphOf a.names a.nodes a.ac⟩] := by
  have h' : (match parseOutcome code with
      | .error e => (.error e : Except Err (SAdf × SRes))
      | .ok _ =>
        match lookupS (parseKey .hybrid code) o.hyb with
        | some a => .ok (a, [⟨a.ac, graphOf a.names a.nodes a.ac⟩])
        | none => .error .panic) = .ok (a, r) := h
  unfold parseOutcome at h'
  cases hc : conditions code with
  | error e => rw [hc] at h'; cases h'
  | ok x =>
    rw [hc] at h'
    simp only at h'
    cases hl : lookupS (parseKey .hybrid code) o.hyb with
    | none => rw [hl] at h'; cases h'
    | some a' =>
      rw [hl] at h'
      simp only [Except.ok.injEq, Prod.mk.injEq] at h'
      obtain ⟨rfl, rfl⟩ := h'
      exact ⟨⟨x, rfl⟩, rfl, rfl⟩

theorem libEnv_parse_error_iff (o : Oracle) (code : String) (e : Err) (h : conditions code = .error e)
    (p : Parsing) : (libEnv o).parse p code = .error e := by
  cases p with
  | naive => exact parseNaive_of_conditions_error _ code e h
  | hybrid =>
    show (match parseOutcome code with
      | .error e => (.error e : Except Err (SAdf × SRes))
      | .ok _ => _) = .error e
    unfold parseOutcome; rw [h]

theorem libEnv_parse_hybrid_ok (o : Oracle) (code : String) (x : List String × List Fm) (a : SAdf)
    (hacc : conditions code = .ok x) (hl : lookupS (parseKey .hybrid code) o.hyb = some a) :
    (libEnv o).parse .hybrid code = .ok (a, [⟨a.ac, graphOf a.names a.nodes a.ac⟩]) := by
  show (match parseOutcome code with
      | .error e => (.error e : Except Err (SAdf × SRes))
      | .ok _ =>
        match lookupS (parseKey .hybrid code) o.hyb with
        | some a => .ok (a, [⟨a.ac, graphOf a.names a.nodes a.ac⟩])
        | none => .error .panic) = _
  unfold parseOutcome; rw [hacc]; simp only; rw [hl]

/-- the bound-parametric transparent solve model at the bound 10^6 IS the model the service runs -/
theorem solveAdfF_bound (a : SAdf) (s : Strategy) : SrvA.solveAdfF 1000000 a s = solveAdf a s := by
  cases s <;> rfl

/-! ### the parse task of the service -/

/-- **parse task, naive parsing, accepted text**: when the parse task for a code that the parser
accepts (`conditions code = .ok (names, fms)`: the statement names and, per statement, the condition
that counts) completes, the addressed document holds exactly the `SimplifiedAdf` `a` of the library's
`from_parser` result and its parse-only graph; `a` has the names of the text, a well-formed table
whose handles denote the conditions of the text, and satisfies the graph builder's assumptions -/
theorem parse_task_stores_framework (o : Oracle) (db : Db String SHash SAdf SRes) (j n : Nat)
    (t : TaskRec String SAdf) (code : String) (names : List String) (fms : List Fm)
    (ht : nthOf j n db.tasks = some t) (hin : t.input = .parse code .naive)
    (hlive : t.blockingDone = true ∧ t.written = false)
    (hacc : conditions code = .ok (names, fms)) (hn : names.length ≤ VBOT)
    (p : Problem String SAdf SRes) (hp : db.problems.find? (isProb t.username t.name) = some p) :
    ∃ a : SAdf,
      (dbEv (libEnv o) db (.write j n)).problems.find? (isProb t.username t.name) =
        some { p with adf := .some a, parseOnly := .some [⟨a.ac, graphOf a.names a.nodes a.ac⟩] } ∧
      (libEnv o).parse .naive code = .ok (a, [⟨a.ac, graphOf a.names a.nodes a.ac⟩]) ∧
      a.names = names ∧ SrvA.Denotes a names.length fms ∧ GraphHyp a.names a.nodes a.ac := by
  obtain ⟨a, hpa, hnm⟩ := parseNaive_of_conditions_ok (parseKey .naive code) code _ hacc
  simp only at hnm
  have hn' : a.names.length ≤ VBOT := by rw [hnm]; exact hn
  obtain ⟨fms', hc', hd⟩ := SrvA.parseNaive_denotes _ code a _ hpa hn'
  rw [hacc] at hc'
  simp only [Except.ok.injEq, Prod.mk.injEq] at hc'
  obtain ⟨_, rfl⟩ := hc'
  refine ⟨a, parse_success_stored (libEnv o) db j n t code .naive a _ ht hin hlive hpa p hp, hpa, hnm, ?_,
    parseNaive_graphHyp _ code a _ hpa hn'⟩
  rw [← hnm]; exact hd

/-- **parse task, hybrid parsing**: the stored framework is the table adopted for this code; that it
denotes the conditions of the text (`SrvA.Denotes`) is what the run-time check `storedAdfOK` of the
adopted table establishes — it is a hypothesis of the theorems below, not proved here (there is no
executable model of biodivine's diagram construction) -/
theorem parse_task_stores_adopted (o : Oracle) (db : Db String SHash SAdf SRes) (j n : Nat)
    (t : TaskRec String SAdf) (code : String) (x : List String × List Fm) (a : SAdf)
    (ht : nthOf j n db.tasks = some t) (hin : t.input = .parse code .hybrid)
    (hlive : t.blockingDone = true ∧ t.written = false)
    (hacc : conditions code = .ok x) (hl : lookupS (parseKey .hybrid code) o.hyb = some a)
    (p : Problem String SAdf SRes) (hp : db.problems.find? (isProb t.username t.name) = some p) :
    (dbEv (libEnv o) db (.write j n)).problems.find? (isProb t.username t.name) =
      some { p with adf := .some a, parseOnly := .some [⟨a.ac, graphOf a.names a.nodes a.ac⟩] } :=
  parse_success_stored (libEnv o) db j n t code .hybrid a _ ht hin hlive (libEnv_parse_hybrid_ok o code x a hacc hl) p hp

/-! ### the solve task of the service -/

/-- **solve task**: when the solve task for strategy `s`, spawned with the stored framework `a`,
completes, the addressed document holds under `acs_per_strategy.<s>` exactly `solveAdf a s` — the
library model's answer for `a` (rebuild of the stored node list, strategy, graphs) — and if `a`
denotes conditions `fms` over `nn` statements this answer is, as a multiset of three-valued
interpretations, the specification's / the definitional one (`SrvA.PropAnswer`: the least fixpoint
of Γ; every fixpoint of Γ once; every stable model once). `hh`: the nogood search of `StableNogood`
halted within the model's bound of 10^6 iterations (`rfl` for the other five strategies) -/
theorem solve_task_stores_answer (o : Oracle) (db : Db String SHash SAdf SRes) (j n : Nat)
    (t : TaskRec String SAdf) (a : SAdf) (s : Strategy) (nn : Nat) (fms : List Fm)
    (ht : nthOf j n db.tasks = some t) (hin : t.input = .solve a s)
    (hlive : t.blockingDone = true ∧ t.written = false)
    (hd : SrvA.Denotes a nn fms) (hh : SrvA.strategyHalts 1000000 a s = true)
    (p : Problem String SAdf SRes) (hp : db.problems.find? (isProb t.username t.name) = some p) :
    ∃ res : SRes,
      (dbEv (libEnv o) db (.write j n)).problems.find? (isProb t.username t.name) =
        some { p with res := p.res.set s (.some res) } ∧
      (libEnv o).solve a s = .ok res ∧
      (SrvA.storedI3 res).Perm (Cli.specSection nn (CliF.tablesOf nn fms) (SrvA.secOf s)) ∧
      SrvA.PropAnswer nn (fms.map Fm.sem) s (SrvA.storedI3 res) := by
  obtain ⟨res, h1, h2⟩ := SrvA.stored_answers_exact_any_table 1000000 a nn fms s hd hh
  rw [solveAdfF_bound] at h1
  have ⟨_, R⟩ := SrvA.reps_of_atomsLt nn fms hd.atoms
  exact ⟨res, solve_success_stored (libEnv o) db j n t a s res ht hin hlive h1 p hp, h1, h2,
    SrvA.propAnswer_of_perm R (by simp [hd.flen]) s h2⟩

/-! ### what the user retrieves -/

/-- **the answer a user retrieves**: after the write of the solve task (strategy `s`, stored
framework `a` denoting `fms`), `GET /adf/{name}` by the owner returns 200 with the document's code
and parse-only result unchanged, the results of the other five strategies unchanged, and under `s`
an answer `res` that is exactly the definitional one for `fms` -/
theorem served_answer (o : Oracle) (st : State String SHash SAdf SRes) (j n jar : Nat)
    (t : TaskRec String SAdf) (a : SAdf) (s : Strategy) (nn : Nat) (fms : List Fm)
    (ht : nthOf j n st.db.tasks = some t) (hin : t.input = .solve a s)
    (hlive : t.blockingDone = true ∧ t.written = false)
    (hd : SrvA.Denotes a nn fms) (hh : SrvA.strategyHalts 1000000 a s = true)
    (p : Problem String SAdf SRes) (hp : st.db.problems.find? (isProb t.username t.name) = some p)
    (hs : st.sess jar = some t.username) :
    ∃ (res : SRes) (i : Info String SRes),
      (step (libEnv o) (stepEv (libEnv o) st (.write j n)).1 ⟨jar, .get t.name⟩).2 = ⟨200, .keep, .problem i⟩ ∧
      i.name = p.name ∧ i.code = p.code ∧ i.parsing = p.parsing ∧ i.parseOnly = p.parseOnly ∧
      i.res.get s = .some res ∧ (∀ s', s' ≠ s → i.res.get s' = p.res.get s') ∧
      (libEnv o).solve a s = .ok res ∧
      SrvA.PropAnswer nn (fms.map Fm.sem) s (SrvA.storedI3 res) := by
  obtain ⟨res, hw, hsol, _, hprop⟩ := solve_task_stores_answer o st.db j n t a s nn fms ht hin hlive hd hh p hp
  have hs' : (stepEv (libEnv o) st (.write j n)).1.sess jar = some t.username := hs
  have hdb : (stepEv (libEnv o) st (.write j n)).1.db = dbEv (libEnv o) st.db (.write j n) := rfl
  obtain ⟨ts, hget, _⟩ := get_returns_stored (libEnv o) (stepEv (libEnv o) st (.write j n)).1 jar t.username t.name _ hs'
    (by rw [hdb]; exact hw)
  exact ⟨res, _, hget, rfl, rfl, rfl, rfl, Results.get_set_same _ _ _,
    fun s' h' => Results.get_set_other _ _ _ _ h', hsol, hprop⟩

/-- **… for the submitted code** (naive parsing): if the framework the solve task was spawned with
is what the service's parse function returns for `code` — which is what the parse task stored
(`parse_task_stores_framework`) and what the solve request read (`ServerM.solve_accepted`) — then the
answer retrieved for strategy `s` is the set of grounded / complete / stable models of the framework
DENOTED BY THE TEXT: `conditions code` gives its statement names and conditions `fms`, and
`SrvA.PropAnswer` holds for the Boolean functions `fms.map Fm.sem` -/
theorem served_answer_for_code (o : Oracle) (st : State String SHash SAdf SRes) (j n jar : Nat)
    (t : TaskRec String SAdf) (code : String) (a : SAdf) (r : SRes) (s : Strategy)
    (ht : nthOf j n st.db.tasks = some t) (hin : t.input = .solve a s)
    (hlive : t.blockingDone = true ∧ t.written = false)
    (hparse : (libEnv o).parse .naive code = .ok (a, r)) (hn : a.names.length ≤ VBOT)
    (hh : SrvA.strategyHalts 1000000 a s = true)
    (p : Problem String SAdf SRes) (hp : st.db.problems.find? (isProb t.username t.name) = some p)
    (hs : st.sess jar = some t.username) :
    ∃ (fms : List Fm) (res : SRes) (i : Info String SRes),
      conditions code = .ok (a.names, fms) ∧
      (step (libEnv o) (stepEv (libEnv o) st (.write j n)).1 ⟨jar, .get t.name⟩).2 = ⟨200, .keep, .problem i⟩ ∧
      i.res.get s = .some res ∧ (∀ s', s' ≠ s → i.res.get s' = p.res.get s') ∧
      SrvA.PropAnswer a.names.length (fms.map Fm.sem) s (SrvA.storedI3 res) := by
  obtain ⟨fms, hc, hd⟩ := SrvA.parseNaive_denotes _ code a r hparse hn
  obtain ⟨res, i, h1, _, _, _, _, h6, h7, _, h9⟩ := served_answer o st j n jar t a s _ fms ht hin hlive hd hh p hp hs
  exact ⟨fms, res, i, hc, h1, h6, h7, h9⟩

/-- the fuel hypothesis can be met: for every stored framework that denotes conditions, from some
bound on the search halts (all strategies); what is NOT proved is that 10^6, the bound the
executable model uses in place of the real code's unbounded loop, is such a bound for the instance
at hand — for an instance where it is not, the model would store a truncated answer and the
correspondence run would report the difference -/
theorem strategyHalts_eventually (a : SAdf) (nn : Nat) (fms : List Fm) (s : Strategy) (hd : SrvA.Denotes a nn fms) :
    ∃ F0, ∀ fuel, F0 ≤ fuel → SrvA.strategyHalts fuel a s = true := by
  obtain ⟨F0, h⟩ := SrvA.stored_answers_exact_every_large_bound a nn fms s hd
  exact ⟨F0, fun f hf => (h f hf).1⟩

theorem strategyHalts_five (fuel : Nat) (a : SAdf) (s : Strategy) (h : s ≠ .stableNogood) :
    SrvA.strategyHalts fuel a s = true := SrvA.strategyHalts_of_ne fuel a s h

/-! ### the returned graphs: "restricted by the shown model" -/

/-- walking a graph that satisfies the builder's assumptions from the root of statement `i` evaluates
the diagram of the `i`-th shown handle (`C16.graph_walk` without the root-label part) -/
theorem walk_root {names : List String} {ns : Array Node} {v : List Nat} (H : GraphHyp names ns v)
    (i : Nat) (hi : i < v.length) (σ : Asg) (fuel : Nat) (hf : v.getD i 0 < fuel) :
    walk (graphOf names ns v) names σ fuel (v.getD i 0) = some (eval ⟨ns, {}, {}, {}⟩ (v.getD i 0) σ) := by
  have hmem : v.getD i 0 ∈ v := by
    have : v.getD i 0 = v[i] := by simp [List.getD, hi]
    rw [this]; exact List.getElem_mem hi
  rw [walk_eval H σ fuel _ hf (GraphM.Reachable.root _ hmem)]
  unfold eval
  rw [Tab.evalF_fuel ⟨ns, {}, {}, {}⟩ H.wf _ fuel σ hf]

/-- **the graph stored for `Ground` shows the conditions restricted by the shown model**: for a
stored framework `a` (distinct names, one per statement) that denotes `fms`, the solve task for
`Ground` stores ONE vector `v` with the graph of the rebuilt store's table after the computation;
that graph satisfies the builder's assumptions (so `graph_reachable`, `graph_edges`, `graph_walk`
apply: exactly the reachable nodes, the table's edges, root labels); the shown model
`g = v.map storeIsConst` (handle 1 ↦ true, 0 ↦ false, anything else undecided) is the grounded
interpretation (least fixpoint of Γ); and walking from the root of statement `i` under `σ` evaluates
statement `i`'s condition under `σ` OVERRIDDEN BY THE DECIDED PART OF `g` -/
theorem ground_graph_restricted (a : SAdf) (nn : Nat) (fms : List Fm) (hd : SrvA.Denotes a nn fms)
    (hnd : a.names.Nodup) (hlen : a.names.length = nn) :
    ∃ (v : List Nat) (ns : Array Node) (g : I3),
      solveAdf a .ground = .ok [⟨v, graphOf a.names ns v⟩] ∧ GraphHyp a.names ns v ∧ v.length = nn ∧
      g = v.map storeIsConst ∧ IsLfp (fms.map Fm.sem) g ∧
      ∀ (i : Nat) (f : Fm), fms[i]? = some f → ∀ (σ : Asg) (fuel : Nat), v.getD i 0 < fuel →
        walk (graphOf a.names ns v) a.names σ fuel (v.getD i 0) = some (f.sem (over σ 0 g)) := by
  have ⟨wr, hv, hden⟩ := SrvA.rebuilt_facts hd
  have ⟨hdet, _⟩ := SrvA.reps_of_atomsLt nn fms hd.atoms
  have hl : (fms.map Fm.sem).length = nn := by simp [hd.flen]
  have hacl : a.ac.length = nn := hd.len
  have ⟨w1, _, v1, l1, g, hg, hp⟩ := CliF.grounded_is_pre (rebuild a.nodes) a.ac.length a.ac wr rfl hv
  rw [hden] at hg hp
  have hg' : IsLfp (a.ac.map (eval (rebuild a.nodes)))
      ((groundedLoop StoreRA (a.ac.length + 1) (rebuild a.nodes) a.ac).2.map storeIsConst) :=
    grounded_native (a.ac.length + 1) (rebuild a.nodes) a.ac wr hv (by omega)
  rw [hden] at hg'
  have hgeq : g = (groundedLoop StoreRA (a.ac.length + 1) (rebuild a.nodes) a.ac).2.map storeIsConst :=
    StableExact.lfp_unique _ _ _ hg hg'
  generalize hr : groundedLoop StoreRA (a.ac.length + 1) (rebuild a.nodes) a.ac = r at w1 v1 l1 hp hg' hgeq
  have hevn : ∀ t σ, eval ⟨r.1.nodes, {}, {}, {}⟩ t σ = eval r.1 t σ := fun t σ => SrvA.eval_nodes rfl t σ
  have hdetP := (CliF.Same.pre hl hdet hg).det
  have H : GraphHyp a.names r.1.nodes r.2 := by
    apply graphHyp_of_detBy w1.table hnd v1
    intro t ht
    have : eval ⟨r.1.nodes, {}, {}, {}⟩ t = eval r.1 t := funext (hevn t)
    rw [this, hlen]
    apply hdetP
    rw [← hp]
    exact List.mem_map_of_mem ht
  refine ⟨r.2, r.1.nodes, g, ?_, H, by rw [l1, hacl], hgeq, hg, ?_⟩
  · show (Except.ok _ : Except Err SRes) = _
    simp only [hr, List.map_cons, List.map_nil]
  · intro i f hf σ fuel hfu
    have hi : i < r.2.length := by
      rw [l1, hacl, ← hd.flen]; exact (List.getElem?_eq_some_iff.mp hf).1
    rw [walk_root H i hi σ fuel hfu, hevn]
    have hgi : (r.2.map (eval r.1))[i]? = some (eval r.1 (r.2.getD i 0)) := by
      simp [List.getD, hi]
    rw [hp, pre_get _ g i f.sem (by simp [hf])] at hgi
    simp only [Option.some.injEq] at hgi
    rw [← hgi]

/-- **the graphs stored for the four stable strategies show the constants of the model**: every
stored vector `x.ac` of a stable strategy is two-valued (handles 0 / 1 only), its graph satisfies
the builder's assumptions for the table of the store after the search, and walking from the root of
statement `i` yields the truth value the model gives statement `i` — which, the model being a fixpoint
of Γ (`SrvA.PropAnswer`), is the value of statement `i`'s condition restricted by the shown model -/
theorem stable_graph_restricted (a : SAdf) (nn : Nat) (fms : List Fm) (s : Strategy) (hd : SrvA.Denotes a nn fms)
    (hnd : a.names.Nodup) (hs : s ≠ .ground ∧ s ≠ .complete) (hh : SrvA.strategyHalts 1000000 a s = true) :
    ∃ (res : SRes) (ns : Array Node), solveAdf a s = .ok res ∧
      ∀ x ∈ res, x.graph = graphOf a.names ns x.ac ∧ GraphHyp a.names ns x.ac ∧
        x.ac.length = nn ∧ Gam (fms.map Fm.sem) (x.ac.map storeIsConst) = x.ac.map storeIsConst ∧
        ∀ (i : Nat) (_ : i < x.ac.length) (σ : Asg) (fuel : Nat), x.ac.getD i 0 < fuel →
          ∃ b, storeIsConst (x.ac.getD i 0) = some b ∧
            walk x.graph a.names σ fuel (x.ac.getD i 0) = some b := by
  have ⟨wr, hv, hden⟩ := SrvA.rebuilt_facts hd
  have ⟨hdet, R⟩ := SrvA.reps_of_atomsLt nn fms hd.atoms
  have hD : (fms.map Fm.sem).length = nn := by simp [hd.flen]
  have hacl : a.ac.length = nn := hd.len
  subst hacl
  have ⟨w1, _, pm⟩ := CliF.section_exact R hD (CliF.Same.refl hD hdet) 1000000 .simple (SrvA.secOf s) (rebuild a.nodes)
    a.ac wr rfl hv hden hh
  have hprop := SrvA.propAnswer_of_perm R hD s pm
  rw [← solveAdfF_bound]
  generalize hr : CliF.runSectionF 1000000 .simple (SrvA.secOf s) (rebuild a.nodes) a.ac.length a.ac = r at w1 pm hprop
  refine ⟨r.2.map (fun ac => ⟨ac, graphOf a.names r.1.nodes ac⟩), r.1.nodes, ?_, ?_⟩
  · show (Except.ok _ : Except Err SRes) = _
    simp only [hr]
  · intro x hx
    obtain ⟨v, hvm, rfl⟩ := List.mem_map.mp hx
    have hfacts : (v.map storeIsConst).length = a.ac.length ∧ TotalI (v.map storeIsConst) ∧
        Gam (fms.map Fm.sem) (v.map storeIsConst) = v.map storeIsConst := by
      have hmem : v.map storeIsConst ∈ r.2.map (fun v => v.map storeIsConst) := List.mem_map_of_mem hvm
      cases s with
      | ground => exact absurd rfl hs.1
      | complete => exact absurd rfl hs.2
      | stable => have := (hprop.2 _).mp hmem; exact ⟨this.1, this.2.1, this.2.2.1⟩
      | stableCountingA => have := (hprop.2 _).mp hmem; exact ⟨this.1, this.2.1, this.2.2.1⟩
      | stableCountingB => have := (hprop.2 _).mp hmem; exact ⟨this.1, this.2.1, this.2.2.1⟩
      | stableNogood => have := (hprop.2 _).mp hmem; exact ⟨this.1, this.2.1, this.2.2.1⟩
    have htot := hfacts.2.1
    have hconst : ∀ t ∈ v, t = 0 ∨ t = 1 := by
      intro t ht
      obtain ⟨i, hi, rfl⟩ := List.getElem_of_mem ht
      have := htot i (by simpa using hi)
      simp only [List.getElem?_map, List.getElem?_eq_getElem hi, Option.map_some] at this
      unfold storeIsConst at this
      by_cases h0 : v[i] = 0
      · exact Or.inl h0
      · by_cases h1 : v[i] = 1
        · exact Or.inr h1
        · simp [h0, h1] at this
    have hsz := w1.len
    have H : GraphHyp a.names r.1.nodes v := by
      apply graphHyp_of_detBy w1.table hnd
      · intro t ht; rcases hconst t ht with rfl | rfl <;> omega
      · intro t ht σ τ _
        rcases hconst t ht with rfl | rfl
        · rw [eval_zero, eval_zero]
        · rw [eval_one, eval_one]
    refine ⟨rfl, H, by simpa using hfacts.1, hfacts.2.2, ?_⟩
    intro i hi σ fuel hfu
    have hmem : v.getD i 0 ∈ v := by
      have : v.getD i 0 = v[i] := by simp [List.getD, hi]
      rw [this]; exact List.getElem_mem hi
    rw [walk_root H i hi σ fuel hfu]
    rcases hconst _ hmem with h0 | h1
    · rw [h0]; exact ⟨false, rfl, by rw [eval_zero]⟩
    · rw [h1]; exact ⟨true, rfl, by rw [eval_one]⟩

/-- **the graphs under every assignment that extends the shown model** (`Ground`): walking from the
root of statement `i` under an assignment `σ` that agrees with the decided part of the shown
interpretation yields the value of statement `i`'s condition AS WRITTEN under `σ` -/
theorem ground_graph_under_model (a : SAdf) (nn : Nat) (fms : List Fm) (hd : SrvA.Denotes a nn fms)
    (hnd : a.names.Nodup) (hlen : a.names.length = nn) :
    ∃ (v : List Nat) (ns : Array Node),
      solveAdf a .ground = .ok [⟨v, graphOf a.names ns v⟩] ∧ GraphHyp a.names ns v ∧
      ∀ (i : Nat) (f : Fm), fms[i]? = some f → ∀ (σ : Asg), Agree σ (v.map storeIsConst) →
        ∀ fuel, v.getD i 0 < fuel →
        walk (graphOf a.names ns v) a.names σ fuel (v.getD i 0) = some (f.sem σ) := by
  obtain ⟨v, ns, g, h1, h2, _, h4, _, h6⟩ := ground_graph_restricted a nn fms hd hnd hlen
  refine ⟨v, ns, h1, h2, fun i f hf σ hag fuel hfu => ?_⟩
  rw [h6 i f hf σ fuel hfu, h4, over_of_agree hag]

/-- … and for the four stable strategies: every stored model `x`, every statement `i`, every `σ`
extending the model -/
theorem stable_graph_under_model (a : SAdf) (nn : Nat) (fms : List Fm) (s : Strategy) (hd : SrvA.Denotes a nn fms)
    (hnd : a.names.Nodup) (hs : s ≠ .ground ∧ s ≠ .complete) (hh : SrvA.strategyHalts 1000000 a s = true) :
    ∃ (res : SRes) (ns : Array Node), solveAdf a s = .ok res ∧
      ∀ x ∈ res, x.graph = graphOf a.names ns x.ac ∧ GraphHyp a.names ns x.ac ∧
        ∀ (i : Nat) (f : Fm), fms[i]? = some f → ∀ (σ : Asg), Agree σ (x.ac.map storeIsConst) →
          ∀ fuel, x.ac.getD i 0 < fuel → walk x.graph a.names σ fuel (x.ac.getD i 0) = some (f.sem σ) := by
  obtain ⟨res, ns, h1, h2⟩ := stable_graph_restricted a nn fms s hd hnd hs hh
  refine ⟨res, ns, h1, fun x hx => ?_⟩
  obtain ⟨e1, e2, e3, e4, e5⟩ := h2 x hx
  refine ⟨e1, e2, fun i f hf σ hag fuel hfu => ?_⟩
  have hi : i < x.ac.length := by rw [e3, ← hd.flen]; exact (List.getElem?_eq_some_iff.mp hf).1
  obtain ⟨b, hb, hw⟩ := e5 i hi σ fuel hfu
  rw [hw]
  have hvi : (x.ac.map storeIsConst)[i]? = some (some b) := by
    simp [List.getD, hi] at hb
    simp [hi, hb]
  have hG := Gam_get (fms.map Fm.sem) (x.ac.map storeIsConst) i f.sem (by simp [hf])
  rw [e4, hvi] at hG
  simp only [Option.some.injEq] at hG
  have := constOf_some.mp hG.symm σ
  rw [over_of_agree hag] at this
  rw [this]

/-- … and for `Complete`: every stored complete interpretation `x`. Its decided entries are the
constants, its undecided entries keep the handle of the GROUNDED residual (the condition restricted
by the grounded interpretation, which every complete interpretation extends) — so again, under every
`σ` extending the shown interpretation, walking from the root of statement `i` yields the value of
statement `i`'s condition under `σ` -/
theorem complete_graph_under_model (a : SAdf) (nn : Nat) (fms : List Fm) (hd : SrvA.Denotes a nn fms)
    (hnd : a.names.Nodup) (hlen : a.names.length = nn) :
    ∃ (res : SRes) (ns : Array Node), solveAdf a .complete = .ok res ∧
      ∀ x ∈ res, x.graph = graphOf a.names ns x.ac ∧ GraphHyp a.names ns x.ac ∧
        ∀ (i : Nat) (f : Fm), fms[i]? = some f → ∀ (σ : Asg), Agree σ (x.ac.map storeIsConst) →
          ∀ fuel, x.ac.getD i 0 < fuel → walk x.graph a.names σ fuel (x.ac.getD i 0) = some (f.sem σ) := by
  have ⟨wr, hv, hden⟩ := SrvA.rebuilt_facts hd
  have ⟨hdet, _⟩ := SrvA.reps_of_atomsLt nn fms hd.atoms
  have hl : (fms.map Fm.sem).length = nn := by simp [hd.flen]
  have hacl : a.ac.length = nn := hd.len
  subst hacl
  have ⟨w1, _, v1, l1, gg, hg, hp⟩ := CliF.grounded_is_pre (rebuild a.nodes) a.ac.length a.ac wr rfl hv
  rw [hden] at hg hp
  have hg' : IsLfp (a.ac.map (eval (rebuild a.nodes)))
      ((groundedLoop StoreRA (a.ac.length + 1) (rebuild a.nodes) a.ac).2.map storeIsConst) :=
    grounded_native (a.ac.length + 1) (rebuild a.nodes) a.ac wr hv (by omega)
  rw [hden] at hg'
  have ⟨wF, eF, href⟩ := CompleteExact.completeAll_vectors (rebuild a.nodes) a.ac.length a.ac wr rfl hv
  have hex := (CompleteExact.completeAll_exact (rebuild a.nodes) a.ac.length a.ac wr rfl hv).2.1
  rw [hden] at hex
  generalize hgl : groundedLoop StoreRA (a.ac.length + 1) (rebuild a.nodes) a.ac = g at w1 v1 l1 hp hg' eF href
  generalize hcl : completeAll (rebuild a.nodes) a.ac.length a.ac = r at wF eF href hex
  have hdetP := (CliF.Same.pre hl hdet hg).det
  refine ⟨r.2.2.map (fun v => ⟨v, graphOf a.names r.1.nodes v⟩), r.1.nodes, ?_, ?_⟩
  · show (Except.ok _ : Except Err SRes) = _
    simp only [hcl]
  · intro x hx
    obtain ⟨v, hvm, rfl⟩ := List.mem_map.mp hx
    obtain ⟨hrl, hre⟩ := href v hvm
    have hvl : v.length = a.ac.length := by rw [hrl, l1]
    have hsz := wF.len
    -- every entry is a constant or the grounded vector's entry
    have hent : ∀ i, i < v.length → v.getD i 0 < 2 ∨ v.getD i 0 = g.2.getD i 0 := by
      intro i hi
      have := hre i (by rw [← hrl]; exact hi)
      split at this
      · rename_i h2; left; rw [this]; exact h2
      · rcases this with h | h
        · exact Or.inr h
        · exact Or.inl h
    have hgv : ∀ i, i < g.2.length → g.2.getD i 0 < g.1.nodes.size ∧
        ∀ σ, eval r.1 (g.2.getD i 0) σ = eval g.1 (g.2.getD i 0) σ := by
      intro i hi
      have e : g.2.getD i 0 = g.2[i] := by simp [List.getD, hi]
      have hlt : g.2.getD i 0 < g.1.nodes.size := by rw [e]; exact v1 _ (List.getElem_mem hi)
      exact ⟨hlt, fun σ => eval_ext w1 eF _ σ hlt⟩
    have hevn : ∀ t σ, eval ⟨r.1.nodes, {}, {}, {}⟩ t σ = eval r.1 t σ := fun t σ => SrvA.eval_nodes rfl t σ
    have hpre : ∀ i (f : Fm), fms[i]? = some f → ∀ σ, eval g.1 (g.2.getD i 0) σ = f.sem (over σ 0 gg) := by
      intro i f hf σ
      have hi : i < g.2.length := by rw [l1, ← hd.flen]; exact (List.getElem?_eq_some_iff.mp hf).1
      have hgi : (g.2.map (eval g.1))[i]? = some (eval g.1 (g.2.getD i 0)) := by simp [List.getD, hi]
      rw [hp, pre_get _ gg i f.sem (by simp [hf])] at hgi
      simp only [Option.some.injEq] at hgi
      rw [← hgi]
    have H : GraphHyp a.names r.1.nodes v := by
      apply graphHyp_of_detBy wF.table hnd
      · intro t ht
        obtain ⟨i, hi, rfl⟩ := List.getElem_of_mem ht
        have e : v.getD i 0 = v[i] := by simp [List.getD, hi]
        rcases hent i hi with h | h
        · rw [← e]; omega
        · rw [← e, h]
          have := (hgv i (by rw [← hrl]; exact hi)).1
          exact Nat.lt_of_lt_of_le this eF.1
      · intro t ht
        obtain ⟨i, hi, rfl⟩ := List.getElem_of_mem ht
        have e : v.getD i 0 = v[i] := by simp [List.getD, hi]
        rw [hlen]
        rcases hent i hi with h | h
        · intro σ τ _
          have : v[i] = 0 ∨ v[i] = 1 := by omega
          rcases this with h0 | h1
          · rw [h0, eval_zero, eval_zero]
          · rw [h1, eval_one, eval_one]
        · have hig : i < g.2.length := by rw [← hrl]; exact hi
          have hfun : eval ⟨r.1.nodes, {}, {}, {}⟩ v[i] = eval g.1 (g.2.getD i 0) := by
            funext σ; rw [hevn, ← e, h, (hgv i hig).2 σ]
          rw [hfun]
          apply hdetP
          rw [← hp]
          have e2 : g.2.getD i 0 = g.2[i] := by simp [List.getD, hig]
          rw [e2]
          exact List.mem_map_of_mem (List.getElem_mem hig)
    refine ⟨rfl, H, ?_⟩
    intro i f hf σ hag fuel hfu
    have hi : i < v.length := by rw [hvl, ← hd.flen]; exact (List.getElem?_eq_some_iff.mp hf).1
    have hfix : Gam (fms.map Fm.sem) (v.map storeIsConst) = v.map storeIsConst :=
      ((hex _).mp (List.mem_map_of_mem hvm)).2
    show walk (graphOf a.names r.1.nodes v) a.names σ fuel (v.getD i 0) = _
    rw [walk_root H i hi σ fuel hfu, hevn]
    rcases hent i hi with h | h
    · -- a decided entry: the model is a fixpoint of Γ
      have h01 : v.getD i 0 = 0 ∨ v.getD i 0 = 1 := by omega
      have hconst : ∃ b, storeIsConst (v.getD i 0) = some b ∧ ∀ τ, eval r.1 (v.getD i 0) τ = b := by
        rcases h01 with h0 | h1
        · rw [h0]; exact ⟨false, rfl, fun τ => eval_zero _ τ⟩
        · rw [h1]; exact ⟨true, rfl, fun τ => eval_one _ τ⟩
      obtain ⟨b, hb, hev⟩ := hconst
      rw [hev σ]
      have hvi : (v.map storeIsConst)[i]? = some (some b) := by
        simp [List.getD, hi] at hb
        simp [hi, hb]
      have hG := Gam_get (fms.map Fm.sem) (v.map storeIsConst) i f.sem (by simp [hf])
      rw [hfix, hvi] at hG
      simp only [Option.some.injEq] at hG
      have := constOf_some.mp hG.symm σ
      rw [over_of_agree hag] at this
      rw [this]
    · -- an entry kept from the grounded vector: the grounded residual, and σ extends the grounded interpretation
      have hig : i < g.2.length := by rw [← hrl]; exact hi
      rw [h, (hgv i hig).2 σ, hpre i f hf σ]
      have hle : Le3 gg (v.map storeIsConst) := hg.2 _ hfix
      have hag' : Agree σ gg := fun k b hk => hag k b (hle k b hk)
      rw [over_of_agree hag']

/-! ### every reachable state of a deletion-free history -/

/-- **reachable_served_answer** (any parsing strategy; `hb`: the framework the service's parse function
yields for the document's code denotes some conditions `fms` — for naive parsing a theorem, see the
next one; for hybrid parsing what the run-time check of the adopted table establishes — and the
nogood search halts within the bound on it).
In EVERY state the service reaches from the empty server by ANY history without the three
document-removing / renaming requests (requests of any users and jars in any order — repeated solves,
other solves before and after, repeated gets — interleaved with the task events): if the document
`GET /adf/{name}` shows to its owner carries a result `res` under strategy `s`, then `res` is exactly
the definitional answer (`SrvA.PropAnswer`) for the conditions `fms` of the document's own code. -/
theorem reachable_served_answer (o : Oracle) (es : List (Event String)) (hk : ∀ e ∈ es, e.keeps = true)
    (jar : Nat) (u name : String) (p : Problem String SAdf SRes) (s : Strategy) (res : SRes)
    (hs : (runAll (libEnv o) {} es).1.sess jar = some u)
    (hf : (runAll (libEnv o) {} es).1.db.problems.find? (isProb u name) = some p)
    (hres : p.res.get s = .some res)
    (hb : ∀ a r, (libEnv o).parse p.parsing p.code = .ok (a, r) →
      ∃ nn fms, SrvA.Denotes a nn fms ∧ SrvA.strategyHalts 1000000 a s = true) :
    ∃ (i : Info String SRes) (a : SAdf) (r : SRes) (nn : Nat) (fms : List Fm),
      (step (libEnv o) (runAll (libEnv o) {} es).1 ⟨jar, .get name⟩).2 = ⟨200, .keep, .problem i⟩ ∧
      i.code = p.code ∧ i.res.get s = .some res ∧
      (libEnv o).parse p.parsing p.code = .ok (a, r) ∧ SrvA.Denotes a nn fms ∧
      SrvA.PropAnswer nn (fms.map Fm.sem) s (SrvA.storedI3 res) := by
  obtain ⟨ts, hget, _⟩ := get_returns_stored (libEnv o) _ jar u name p hs hf
  obtain ⟨a, r, hpar, hsol⟩ :=
    (reachable_results_belong_to_the_code (libEnv o) es hk p (List.mem_of_find?_eq_some hf)).2 s res hres
  obtain ⟨nn, fms, hd, hh⟩ := hb a r hpar
  obtain ⟨res', h1, h2⟩ := SrvA.stored_answers_exact_any_table 1000000 a nn fms s hd hh
  rw [solveAdfF_bound] at h1
  have hsol' : solveAdf a s = .ok res := hsol
  rw [h1] at hsol'
  cases hsol'
  have ⟨_, R⟩ := SrvA.reps_of_atomsLt nn fms hd.atoms
  exact ⟨_, a, r, nn, fms, hget, rfl, hres, hpar, hd, SrvA.propAnswer_of_perm R (by simp [hd.flen]) s h2⟩

/-- **reachable_served_answer_naive**: the same for documents submitted with naive parsing, from the
TEXT: the answer shown under `s` is the set of grounded / complete / stable models of the framework
the document's code denotes (`conditions`). `hb`: fewer than 2^64 − 2 statements, and the halting
hypothesis of `StableNogood`'s search on the parse result (`rfl` for the other strategies) -/
theorem reachable_served_answer_naive (o : Oracle) (es : List (Event String)) (hk : ∀ e ∈ es, e.keeps = true)
    (jar : Nat) (u name : String) (p : Problem String SAdf SRes) (s : Strategy) (res : SRes)
    (hs : (runAll (libEnv o) {} es).1.sess jar = some u)
    (hf : (runAll (libEnv o) {} es).1.db.problems.find? (isProb u name) = some p)
    (hnaive : p.parsing = .naive) (hres : p.res.get s = .some res)
    (hb : ∀ a r, (libEnv o).parse .naive p.code = .ok (a, r) →
      a.names.length ≤ VBOT ∧ SrvA.strategyHalts 1000000 a s = true) :
    ∃ (i : Info String SRes) (names : List String) (fms : List Fm),
      (step (libEnv o) (runAll (libEnv o) {} es).1 ⟨jar, .get name⟩).2 = ⟨200, .keep, .problem i⟩ ∧
      i.code = p.code ∧ i.res.get s = .some res ∧
      conditions p.code = .ok (names, fms) ∧
      SrvA.PropAnswer names.length (fms.map Fm.sem) s (SrvA.storedI3 res) := by
  have hb' : ∀ a r, (libEnv o).parse p.parsing p.code = .ok (a, r) →
      ∃ nn fms, SrvA.Denotes a nn fms ∧ SrvA.strategyHalts 1000000 a s = true := by
    intro a r h
    rw [hnaive] at h
    obtain ⟨fms, _, hd⟩ := SrvA.parseNaive_denotes _ p.code a r h (hb a r h).1
    exact ⟨_, fms, hd, (hb a r h).2⟩
  obtain ⟨i, a, r, nn, fms, h1, h2, h3, h4, _, _⟩ := reachable_served_answer o es hk jar u name p s res hs hf hres hb'
  rw [hnaive] at h4
  obtain ⟨fms', hc, hd'⟩ := SrvA.parseNaive_denotes _ p.code a r h4 (hb a r h4).1
  obtain ⟨res', e1, e2⟩ := SrvA.stored_answers_exact_any_table 1000000 a _ fms' s hd' (hb a r h4).2
  rw [solveAdfF_bound] at e1
  have hsol := (reachable_results_belong_to_the_code (libEnv o) es hk p (List.mem_of_find?_eq_some hf)).2 s res hres
  obtain ⟨a2, r2, hp2, hs2⟩ := hsol
  rw [hnaive, h4] at hp2
  simp only [Except.ok.injEq, Prod.mk.injEq] at hp2
  obtain ⟨rfl, _⟩ := hp2
  have hs2' : solveAdf a s = .ok res := hs2
  rw [e1] at hs2'
  cases hs2'
  have ⟨_, R⟩ := SrvA.reps_of_atomsLt _ fms' hd'.atoms
  exact ⟨i, a.names, fms', h1, h2, h3, hc, SrvA.propAnswer_of_perm R (by simp [hd'.flen]) s e2⟩

end SrvC
