import AdfObdd.NgHalt
/-! # The nogood-learning search over an arbitrary vector type (safety half)

The abstract machine of `NgSearch.lean` generalised so that the concrete model `SM.ngIter` is a
*lock-step* image of it:

* the current interpretation is a value of an arbitrary type `V` observed through `dec : V → PA`
  (instance: the list of the Boolean functions denoted by the handle vector — two vectors of
  functions are equal iff the handle vectors are, by canonicity, so the machine's test
  "`gam cur ≠ cur`" *is* the code's `update_fp` and no stuttering is left);
* the store of nogoods is an arbitrary type `Sto` with `add` and a membership view `Mem`
  (instance: the size-indexed buckets);
* every law is relativised to shape predicates `Ok` (vectors), `OkG` (nogoods), `OkS` (stores)
  carried by the invariant (instance: width `n`, `NgInv n`, and the uniform semantic invariant
  "every target model extending the decided part evaluates every entry to its own value");
* the heuristic is an oracle indexed by the iteration number (`clock`). -/
namespace NGen

structure GParams (V Sto : Type) where
  dec : V → PA
  Ok : V → Prop
  OkG : PA → Prop
  OkS : Sto → Prop
  Mem : Sto → PA → Prop
  add : Sto → PA → Sto
  gam : V → V
  setV : V → Nat → Bool → V
  updV : V → PA → V
  acIncons : PA → Bool
  isTarget : PA → Bool
  twoVal : PA → Bool
  heu : Nat → V → Option (Nat × Bool)
  closure : Sto → PA → Closure

structure Entry (V : Type) where
  choice : Option (V × Nat × Bool)     -- ghost: vector before the choice, and the choice
  ng : PA

structure St (V Sto : Type) where
  cur : V
  store : Sto
  stack : List (Entry V)
  backtrack : Bool
  choice : Bool
  out : List PA

variable {V Sto : Type}

/-- pop entries (learning each as a nogood) down to and including the first choice entry -/
def popLoop (P : GParams V Sto) : List (Entry V) → Sto → V → (List (Entry V) × Sto × V)
  | [], store, cur => ([], store, cur)
  | e :: rest, store, cur =>
    match e.choice with
    | some (h, _, _) => (rest, P.add store e.ng, h)
    | none => popLoop P rest (P.add store e.ng) cur

inductive Res (V Sto : Type) where
  | cont (s : St V Sto) | done (s : St V Sto)

/-- 1. choice (`k` = iteration number) -/
def step1 (P : GParams V Sto) (k : Nat) (s : St V Sto) : St V Sto :=
  if s.choice then
    match P.heu k s.cur with
    | some (v, b) =>
      { s with choice := false, cur := P.setV s.cur v b,
               stack := { choice := some (s.cur, v, b), ng := P.dec (P.setV s.cur v b) } :: s.stack }
    | none => { s with choice := false, backtrack := true }
  else s

/-- 3. backtrack -/
def step3 (P : GParams V Sto) (s1 : St V Sto) : St V Sto :=
  if s1.backtrack then
    let r := popLoop P s1.stack s1.store s1.cur
    { s1 with backtrack := false, stack := r.1, store := r.2.1, cur := r.2.2 }
  else s1

open Classical in
/-- 6./7. propagation step and classification of the resulting interpretation -/
noncomputable def stepFinal (P : GParams V Sto) (s3 : St V Sto) (updNg : Bool) : St V Sto :=
  if P.acIncons (P.dec s3.cur) then { s3 with backtrack := true } else
  let cur' := P.gam s3.cur
  let s4 := { s3 with cur := cur' }
  if cur' ≠ s3.cur then s4
  else if updNg then s4
  else if !P.twoVal (P.dec s4.cur) then { s4 with choice := true }
  else if P.isTarget (P.dec s4.cur) then
    { s4 with stack := { choice := none, ng := P.dec s4.cur } :: s4.stack, out := s4.out ++ [P.dec s4.cur],
              backtrack := true }
  else
    { s4 with stack := { choice := none, ng := P.dec s4.cur } :: s4.stack, backtrack := true }

/-- 4.–7. -/
noncomputable def stepTail (P : GParams V Sto) (s2 : St V Sto) : St V Sto :=
  match P.closure s2.store (P.dec s2.cur) with
  | Closure.inconsistent => { s2 with backtrack := true }
  | Closure.update r =>
    stepFinal P { s2 with cur := P.updV s2.cur r, stack := { choice := none, ng := r } :: s2.stack } true
  | Closure.noUpdate => stepFinal P s2 false

noncomputable def iter (P : GParams V Sto) (k : Nat) (s : St V Sto) : Res V Sto :=
  let s1 := step1 P k s
  if s1.backtrack = true ∧ s1.stack = [] then Res.done s1
  else Res.cont (stepTail P (step3 P s1))

/-- run with fuel from iteration number `k`; `none` = fuel exhausted -/
noncomputable def run (P : GParams V Sto) : Nat → Nat → St V Sto → Option (St V Sto)
  | _, 0, _ => none
  | k, f+1, s => match iter P k s with
    | Res.done s' => some s'
    | Res.cont s' => run P (k+1) f s'

/-! ### invariants -/

inductive Chain (P : GParams V Sto) (U : Asg → Prop) : PA → List (Entry V) → Prop
  | nil (cur : PA) : Chain P U cur []
  | plain (cur C : PA) (rest : List (Entry V)) :
      (∀ σ, U σ → Matches C σ → Matches cur σ) → Chain P U C rest → Chain P U cur (⟨none, C⟩ :: rest)
  | choice (cur : PA) (H : V) (v : Nat) (b : Bool) (rest : List (Entry V)) :
      (∀ σ, U σ → Matches (setAt (P.dec H) v b) σ → Matches cur σ) → pget (P.dec H) v = none →
      Chain P U (P.dec H) rest →
      Chain P U cur (⟨some (H, v, b), setAt (P.dec H) v b⟩ :: rest)

def Cover (P : GParams V Sto) (U : Asg → Prop) (cur : PA) (stack : List (Entry V)) : Prop :=
  ∀ σ, U σ → Matches cur σ ∨
    ∃ e ∈ stack, ∃ H v b, e.choice = some (H, v, b) ∧ Matches (P.dec H) σ ∧ σ v = !b

def Avoids (P : GParams V Sto) (store : Sto) (σ : Asg) : Prop := ∀ g, P.Mem store g → ¬ Matches g σ

structure GSound (T : Asg → Prop) (P : GParams V Sto) : Prop where
  ok_gam : ∀ X, P.Ok X → P.Ok (P.gam X)
  ok_set : ∀ k X v b, P.Ok X → P.heu k X = some (v, b) → P.Ok (P.setV X v b)
  ok_upd : ∀ st X R, P.OkS st → P.Ok X → P.closure st (P.dec X) = Closure.update R → P.Ok (P.updV X R)
  dec_set : ∀ k X v b, P.Ok X → P.heu k X = some (v, b) → P.dec (P.setV X v b) = setAt (P.dec X) v b
  dec_upd : ∀ st X R, P.OkS st → P.Ok X → P.closure st (P.dec X) = Closure.update R → P.dec (P.updV X R) = R
  okg : ∀ X, P.Ok X → P.OkG (P.dec X)
  oks_add : ∀ st g, P.OkS st → P.OkG g → P.OkS (P.add st g)
  mem_add : ∀ st g x, P.OkS st → P.OkG g → (P.Mem (P.add st g) x ↔ (x = g ∨ P.Mem st x))
  gam_sound : ∀ X σ, P.Ok X → T σ → Matches (P.dec X) σ → Matches (P.dec (P.gam X)) σ
  ac_sound : ∀ X, P.Ok X → P.acIncons (P.dec X) = true → ∀ σ, T σ → ¬ Matches (P.dec X) σ
  leaf_pos : ∀ X, P.Ok X → P.twoVal (P.dec X) = true → P.acIncons (P.dec X) = false →
      P.isTarget (P.dec X) = true → ∀ σ, Matches (P.dec X) σ → T σ
  leaf_neg : ∀ X, P.Ok X → P.twoVal (P.dec X) = true → P.acIncons (P.dec X) = false →
      P.isTarget (P.dec X) = false → ∀ σ, Matches (P.dec X) σ → ¬ T σ
  heu_valid : ∀ k X v b, P.Ok X → P.heu k X = some (v, b) → pget (P.dec X) v = none
  heu_total : ∀ k X, P.Ok X → P.twoVal (P.dec X) = false → (P.heu k X).isSome = true
  cl_upd : ∀ st A R, P.OkS st → P.OkG A → P.closure st A = Closure.update R →
      ∀ σ, Matches A σ → Avoids P st σ → Matches R σ
  cl_inc : ∀ st A, P.OkS st → P.OkG A → P.closure st A = Closure.inconsistent →
      ∀ σ, Matches A σ → ¬ Avoids P st σ
  cl_no : ∀ st A, P.OkS st → P.OkG A → P.closure st A = Closure.noUpdate → ∀ g, P.Mem st g → g ≠ A

def OkStack (P : GParams V Sto) (stack : List (Entry V)) : Prop :=
  ∀ e ∈ stack, P.OkG e.ng ∧ ∀ H v b, e.choice = some (H, v, b) → P.Ok H

structure SInv (T : Asg → Prop) (P : GParams V Sto) (s : St V Sto) : Prop where
  chain : Chain P (Unrep T s.out) (P.dec s.cur) s.stack
  cover : Cover P (Unrep T s.out) (P.dec s.cur) s.stack
  storeOK : ∀ σ, Unrep T s.out σ → Avoids P s.store σ
  dead : s.backtrack = true → ∀ σ, Unrep T s.out σ → ¬ Matches (P.dec s.cur) σ
  outT : ∀ o ∈ s.out, ∀ σ, Matches o σ → T σ
  outNodup : s.out.Nodup
  outTV : ∀ o ∈ s.out, P.twoVal o = true ∧ P.OkG o
  outStored : ∀ o ∈ s.out, P.Mem s.store o ∨ (s.backtrack = true ∧ ∃ e rest, s.stack = e :: rest ∧ e.ng = o)
  choiceOK : s.choice = true → P.twoVal (P.dec s.cur) = false ∧ s.backtrack = false
  okc : P.Ok s.cur
  oks : P.OkS s.store
  okstk : OkStack P s.stack

theorem Chain.mono {P : GParams V Sto} {U U' : Asg → Prop} (h : ∀ σ, U' σ → U σ) {cur : PA}
    {st : List (Entry V)} (c : Chain P U cur st) : Chain P U' cur st := by
  induction c with
  | nil cur => exact Chain.nil cur
  | plain cur C rest f _ ih => exact Chain.plain cur C rest (fun σ u m => f σ (h σ u) m) ih
  | choice cur H v b rest f hn _ ih => exact Chain.choice cur H v b rest (fun σ u m => f σ (h σ u) m) hn ih

/-- extending the current interpretation by forced values keeps the chain -/
theorem Chain.extend {P : GParams V Sto} {U : Asg → Prop} {cur cur' : PA} {st : List (Entry V)}
    (c : Chain P U cur st) (h : ∀ σ, U σ → Matches cur σ → Matches cur' σ) : Chain P U cur' st := by
  cases c with
  | nil => exact Chain.nil cur'
  | plain _ C rest f r => exact Chain.plain cur' C rest (fun σ u m => h σ u (f σ u m)) r
  | choice _ H v b rest f hn r => exact Chain.choice cur' H v b rest (fun σ u m => h σ u (f σ u m)) hn r

variable {T : Asg → Prop} {P : GParams V Sto}

theorem inv_step1 (hP : GSound T P) (k : Nat) {s : St V Sto} (h : SInv T P s) : SInv T P (step1 P k s) := by
  unfold step1
  by_cases hc : s.choice = true
  · rw [if_pos hc]
    have ⟨htv, hbt⟩ := h.choiceOK hc
    have hs := hP.heu_total k s.cur h.okc htv
    cases hh : P.heu k s.cur with
    | none => rw [hh] at hs; cases hs
    | some vb =>
      obtain ⟨v, b⟩ := vb
      simp only
      have hn := hP.heu_valid k s.cur v b h.okc hh
      have hd := hP.dec_set k s.cur v b h.okc hh
      have hok := hP.ok_set k s.cur v b h.okc hh
      refine ⟨?_, ?_, h.storeOK, ?_, h.outT, h.outNodup, h.outTV, ?_, ?_, hok, h.oks, ?_⟩
      · rw [hd]
        exact Chain.choice _ s.cur v b s.stack (fun _ _ m => m) hn h.chain
      · intro σ u
        rw [hd]
        rcases h.cover σ u with hm | ⟨e, he, H, v', b', hc', hm, hv⟩
        · by_cases hv : σ v = b
          · left; exact matches_setAt hm hv
          · right
            refine ⟨_, List.mem_cons_self .., s.cur, v, b, rfl, hm, ?_⟩
            cases hσ : σ v <;> cases b <;> simp_all
        · right; exact ⟨e, List.mem_cons_of_mem _ he, H, v', b', hc', hm, hv⟩
      · intro hb; simp only at hb; rw [hbt] at hb; cases hb
      · intro o ho
        rcases h.outStored o ho with h1 | ⟨h1, _⟩
        · left; exact h1
        · rw [hbt] at h1; cases h1
      · intro hcc; simp at hcc
      · intro e he
        rcases List.mem_cons.mp he with rfl | he
        · refine ⟨hP.okg _ hok, ?_⟩
          intro H v' b' hc'
          simp only [Option.some.injEq, Prod.mk.injEq] at hc'
          rw [← hc'.1]; exact h.okc
        · exact h.okstk e he
  · rw [if_neg hc]; exact h

/-- invariant of the pop loop: `X` plays the role of the current interpretation for the part
of the stack that is still there; it is dead, so every popped entry is a sound nogood -/
theorem popLoop_spec (hP : GSound T P) {U : Asg → Prop} : ∀ (stack : List (Entry V)) (store : Sto) (X : PA) (cur : V),
    Chain P U X stack → (∀ σ, U σ → ¬ Matches X σ) → (∀ σ, U σ → Avoids P store σ) →
    (∀ σ, U σ → ¬ Matches (P.dec cur) σ) → P.OkS store → OkStack P stack → P.Ok cur →
    let r := popLoop P stack store cur
    (∀ σ, U σ → Avoids P r.2.1 σ) ∧ (∀ g, P.Mem store g → P.Mem r.2.1 g) ∧
    (∀ e rest, stack = e :: rest → P.Mem r.2.1 e.ng) ∧
    Chain P U (P.dec r.2.2) r.1 ∧
    (∀ σ, U σ → (∃ e ∈ stack, ∃ H v b, e.choice = some (H, v, b) ∧ Matches (P.dec H) σ ∧ σ v = !b) →
        Matches (P.dec r.2.2) σ ∨ ∃ e ∈ r.1, ∃ H v b, e.choice = some (H, v, b) ∧ Matches (P.dec H) σ ∧ σ v = !b) ∧
    P.OkS r.2.1 ∧ OkStack P r.1 ∧ P.Ok r.2.2 := by
  intro stack
  induction stack with
  | nil =>
    intro store X cur _ _ hst hcur hoks _ hokc
    simp only [popLoop]
    refine ⟨hst, fun g hg => hg, (fun e rest he => by cases he), Chain.nil _, ?_, hoks, (fun e he => by cases he), hokc⟩
    intro σ _ ⟨e, he, _⟩; cases he
  | cons e rest ih =>
    intro store X cur hch hX hst hcur hoks hokstk hokc
    have hoke := hokstk e (List.mem_cons_self ..)
    have hokrest : OkStack P rest := fun x hx => hokstk x (List.mem_cons_of_mem _ hx)
    cases hch with
    | plain _ C _ f r =>
      simp only [popLoop]
      have hC : ∀ σ, U σ → ¬ Matches C σ := fun σ u m => hX σ u (f σ u m)
      have hmem := hP.mem_add store C
      have hst' : ∀ σ, U σ → Avoids P (P.add store C) σ := by
        intro σ u g hg
        rcases (hmem g hoks hoke.1).mp hg with rfl | hg
        · exact hC σ u
        · exact hst σ u g hg
      have ⟨a, b, c, d, e', f', g', h'⟩ := ih (P.add store C) C cur r hC hst' hcur
        (hP.oks_add _ _ hoks hoke.1) hokrest hokc
      refine ⟨a, fun g hg => b g ((hmem g hoks hoke.1).mpr (Or.inr hg)), ?_, d, ?_, f', g', h'⟩
      · intro x rest' hx
        cases hx
        exact b _ ((hmem _ hoks hoke.1).mpr (Or.inl rfl))
      · intro σ u ⟨x, hx, H, v, b', hc', hm, hv⟩
        rcases List.mem_cons.mp hx with rfl | hx
        · cases hc'
        · exact e' σ u ⟨x, hx, H, v, b', hc', hm, hv⟩
    | choice _ H v b _ f hn r =>
      simp only [popLoop]
      have hC : ∀ σ, U σ → ¬ Matches (setAt (P.dec H) v b) σ := fun σ u m => hX σ u (f σ u m)
      have hmem := hP.mem_add store (setAt (P.dec H) v b)
      refine ⟨?_, fun g hg => (hmem g hoks hoke.1).mpr (Or.inr hg), ?_, r, ?_, hP.oks_add _ _ hoks hoke.1,
        hokrest, hoke.2 H v b rfl⟩
      · intro σ u g hg
        rcases (hmem g hoks hoke.1).mp hg with rfl | hg
        · exact hC σ u
        · exact hst σ u g hg
      · intro x rest' hx
        cases hx
        exact (hmem _ hoks hoke.1).mpr (Or.inl rfl)
      · intro σ _ ⟨x, hx, H', v', b', hc', hm, hv⟩
        rcases List.mem_cons.mp hx with rfl | hx
        · simp only [Option.some.injEq, Prod.mk.injEq] at hc'
          obtain ⟨rfl, rfl, rfl⟩ := hc'
          exact Or.inl hm
        · exact Or.inr ⟨x, hx, H', v', b', hc', hm, hv⟩

theorem step1_choice (k : Nat) (s : St V Sto) : (step1 P k s).choice = false := by
  unfold step1
  by_cases hc : s.choice = true
  · rw [if_pos hc]; cases P.heu k s.cur with
    | none => rfl
    | some vb => rfl
  · rw [if_neg hc]; simpa using hc

theorem inv_step3 (hP : GSound T P) {s1 : St V Sto} (h : SInv T P s1) (hc : s1.choice = false) :
    SInv T P (step3 P s1) ∧ (step3 P s1).backtrack = false ∧ (step3 P s1).choice = false := by
  unfold step3
  by_cases hb : s1.backtrack = true
  · rw [if_pos hb]
    have ⟨a, b, c, d, e, f, g, i⟩ := popLoop_spec hP (U := Unrep T s1.out) s1.stack s1.store (P.dec s1.cur) s1.cur
      h.chain (h.dead hb) h.storeOK (h.dead hb) h.oks h.okstk h.okc
    refine ⟨⟨d, ?_, a, ?_, h.outT, h.outNodup, h.outTV, ?_, ?_, i, f, g⟩, rfl, hc⟩
    · intro σ u
      rcases h.cover σ u with hm | hl
      · exact absurd hm (h.dead hb σ u)
      · exact e σ u hl
    · intro hbb; cases hbb
    · intro o ho
      rcases h.outStored o ho with h1 | ⟨_, x, rest, hst, hx⟩
      · left; exact b o h1
      · left; rw [← hx]; exact c x rest hst
    · intro hcc; simp only at hcc; rw [hc] at hcc; cases hcc
  · rw [if_neg hb]
    exact ⟨h, by simpa using hb, hc⟩

theorem unrep_snoc_sub {out : List PA} {A : PA} : ∀ σ, Unrep T (out ++ [A]) σ → Unrep T out σ :=
  fun _ u => ⟨u.1, fun o ho => u.2 o (List.mem_append_left _ ho)⟩

theorem inv_final (hP : GSound T P) {s3 : St V Sto} (h : SInv T P s3) (hb : s3.backtrack = false)
    (hc : s3.choice = false) (updNg : Bool) (hno : updNg = false → ∀ g, P.Mem s3.store g → g ≠ P.dec s3.cur) :
    SInv T P (stepFinal P s3 updNg) := by
  have stored : ∀ o ∈ s3.out, P.Mem s3.store o := by
    intro o ho
    rcases h.outStored o ho with h1 | ⟨h1, _⟩
    · exact h1
    · rw [hb] at h1; cases h1
  unfold stepFinal
  by_cases hac : P.acIncons (P.dec s3.cur) = true
  · rw [if_pos hac]
    refine ⟨h.chain, h.cover, h.storeOK, ?_, h.outT, h.outNodup, h.outTV, fun o ho => Or.inl (stored o ho), ?_, h.okc, h.oks, h.okstk⟩
    · intro _ σ u; exact hP.ac_sound _ h.okc hac σ u.1
    · intro hcc; simp only at hcc; rw [hc] at hcc; cases hcc
  · rw [if_neg hac]
    have hac' : P.acIncons (P.dec s3.cur) = false := by simpa using hac
    have forced : ∀ σ, Unrep T s3.out σ → Matches (P.dec s3.cur) σ → Matches (P.dec (P.gam s3.cur)) σ :=
      fun σ u m => hP.gam_sound _ σ h.okc u.1 m
    have base : SInv T P { s3 with cur := P.gam s3.cur } := by
      refine ⟨h.chain.extend forced, ?_, h.storeOK, ?_, h.outT, h.outNodup, h.outTV, fun o ho => Or.inl (stored o ho), ?_,
        hP.ok_gam _ h.okc, h.oks, h.okstk⟩
      · intro σ u
        rcases h.cover σ u with hm | hl
        · exact Or.inl (forced σ u hm)
        · exact Or.inr hl
      · intro hbb; simp only at hbb; rw [hb] at hbb; cases hbb
      · intro hcc; simp only at hcc; rw [hc] at hcc; cases hcc
    simp only
    by_cases hfp : P.gam s3.cur ≠ s3.cur
    · rw [if_pos hfp]; exact base
    · rw [if_neg hfp]
      have heq : P.gam s3.cur = s3.cur := by simpa using hfp
      by_cases hun : updNg = true
      · rw [if_pos hun]; exact base
      · rw [if_neg hun]
        have hun' : updNg = false := by simpa using hun
        by_cases htv : (!P.twoVal (P.dec (P.gam s3.cur))) = true
        · rw [if_pos htv]
          refine ⟨base.chain, base.cover, base.storeOK, ?_, base.outT, base.outNodup, base.outTV, base.outStored, ?_,
            base.okc, base.oks, base.okstk⟩
          · intro hbb; simp only at hbb; rw [hb] at hbb; cases hbb
          · intro _; exact ⟨by simpa using htv, hb⟩
        · rw [if_neg htv]
          have htv' : P.twoVal (P.dec s3.cur) = true := by rw [heq] at htv; simpa using htv
          have hokg : P.OkG (P.dec s3.cur) := hP.okg _ h.okc
          by_cases hit : P.isTarget (P.dec (P.gam s3.cur)) = true
          · rw [if_pos hit]
            rw [heq] at hit ⊢
            have sub : ∀ σ, Unrep T (s3.out ++ [P.dec s3.cur]) σ → Unrep T s3.out σ := unrep_snoc_sub
            refine ⟨?_, ?_, ?_, ?_, ?_, ?_, ?_, ?_, ?_, h.okc, h.oks, ?_⟩
            · exact Chain.plain _ _ _ (fun _ _ m => m) (h.chain.mono sub)
            · intro σ u
              rcases h.cover σ (sub σ u) with hm | ⟨e, he, hl⟩
              · exact Or.inl hm
              · exact Or.inr ⟨e, List.mem_cons_of_mem _ he, hl⟩
            · intro σ u; exact h.storeOK σ (sub σ u)
            · intro _ σ u; exact u.2 _ (List.mem_append_right _ (List.mem_singleton.mpr rfl))
            · intro o ho σ m
              rcases List.mem_append.mp ho with ho | ho
              · exact h.outT o ho σ m
              · rw [List.mem_singleton.mp ho] at m
                exact hP.leaf_pos _ h.okc htv' hac' hit σ m
            · rw [List.nodup_append]
              refine ⟨h.outNodup, by simp, ?_⟩
              intro a ha b hb' hab
              rw [List.mem_singleton.mp hb'] at hab
              subst hab
              exact hno hun' _ (stored _ ha) rfl
            · intro o ho
              rcases List.mem_append.mp ho with ho | ho
              · exact h.outTV o ho
              · rw [List.mem_singleton.mp ho]; exact ⟨htv', hokg⟩
            · intro o ho
              rcases List.mem_append.mp ho with ho | ho
              · left; exact stored o ho
              · right; rw [List.mem_singleton.mp ho]; exact ⟨rfl, _, _, rfl, rfl⟩
            · intro hcc; simp only at hcc; rw [hc] at hcc; cases hcc
            · intro e he
              rcases List.mem_cons.mp he with rfl | he
              · exact ⟨hokg, fun _ _ _ hx => by cases hx⟩
              · exact h.okstk e he
          · rw [if_neg hit]
            rw [heq] at hit ⊢
            have hit' : P.isTarget (P.dec s3.cur) = false := by simpa using hit
            refine ⟨?_, ?_, h.storeOK, ?_, h.outT, h.outNodup, h.outTV, fun o ho => Or.inl (stored o ho), ?_, h.okc, h.oks, ?_⟩
            · exact Chain.plain _ _ _ (fun _ _ m => m) h.chain
            · intro σ u
              rcases h.cover σ u with hm | ⟨e, he, hl⟩
              · exact Or.inl hm
              · exact Or.inr ⟨e, List.mem_cons_of_mem _ he, hl⟩
            · intro _ σ u m; exact hP.leaf_neg _ h.okc htv' hac' hit' σ m u.1
            · intro hcc; simp only at hcc; rw [hc] at hcc; cases hcc
            · intro e he
              rcases List.mem_cons.mp he with rfl | he
              · exact ⟨hokg, fun _ _ _ hx => by cases hx⟩
              · exact h.okstk e he

theorem inv_tail (hP : GSound T P) {s2 : St V Sto} (h : SInv T P s2) (hb : s2.backtrack = false)
    (hc : s2.choice = false) : SInv T P (stepTail P s2) := by
  have stored : ∀ o ∈ s2.out, P.Mem s2.store o := by
    intro o ho
    rcases h.outStored o ho with h1 | ⟨h1, _⟩
    · exact h1
    · rw [hb] at h1; cases h1
  have hokg : P.OkG (P.dec s2.cur) := hP.okg _ h.okc
  unfold stepTail
  cases hcl : P.closure s2.store (P.dec s2.cur) with
  | inconsistent =>
    simp only
    refine ⟨h.chain, h.cover, h.storeOK, ?_, h.outT, h.outNodup, h.outTV, fun o ho => Or.inl (stored o ho), ?_, h.okc, h.oks, h.okstk⟩
    · intro _ σ u m; exact hP.cl_inc _ _ h.oks hokg hcl σ m (h.storeOK σ u)
    · intro hcc; simp only at hcc; rw [hc] at hcc; cases hcc
  | update r =>
    simp only
    have forced : ∀ σ, Unrep T s2.out σ → Matches (P.dec s2.cur) σ → Matches r σ :=
      fun σ u m => hP.cl_upd _ _ r h.oks hokg hcl σ m (h.storeOK σ u)
    have hd := hP.dec_upd _ _ r h.oks h.okc hcl
    have hok := hP.ok_upd _ _ r h.oks h.okc hcl
    have base : SInv T P { s2 with cur := P.updV s2.cur r, stack := { choice := none, ng := r } :: s2.stack } := by
      refine ⟨?_, ?_, h.storeOK, ?_, h.outT, h.outNodup, h.outTV, fun o ho => Or.inl (stored o ho), ?_, hok, h.oks, ?_⟩
      · simp only [hd]
        exact Chain.plain _ _ _ (fun _ _ m => m) (h.chain.extend forced)
      · intro σ u
        simp only [hd]
        rcases h.cover σ u with hm | ⟨e, he, hl⟩
        · exact Or.inl (forced σ u hm)
        · exact Or.inr ⟨e, List.mem_cons_of_mem _ he, hl⟩
      · intro hbb; simp only at hbb; rw [hb] at hbb; cases hbb
      · intro hcc; simp only at hcc; rw [hc] at hcc; cases hcc
      · intro e he
        rcases List.mem_cons.mp he with rfl | he
        · refine ⟨?_, fun _ _ _ hx => by cases hx⟩
          simp only; rw [← hd]; exact hP.okg _ hok
        · exact h.okstk e he
    exact inv_final hP base hb hc true (fun hh => by cases hh)
  | noUpdate =>
    simp only
    exact inv_final hP h hb hc false (fun _ g hg => hP.cl_no _ _ h.oks hokg hcl g hg)

/-- the invariant is preserved by every iteration that does not halt -/
theorem iter_inv (hP : GSound T P) (k : Nat) {s s' : St V Sto} (h : SInv T P s) (hi : iter P k s = Res.cont s') :
    SInv T P s' := by
  unfold iter at hi
  simp only at hi
  by_cases hd : (step1 P k s).backtrack = true ∧ (step1 P k s).stack = []
  · rw [if_pos hd] at hi; cases hi
  · rw [if_neg hd] at hi
    cases hi
    have h1 := inv_step1 hP k h
    have ⟨h3, hb, hc⟩ := inv_step3 hP h1 (step1_choice k s)
    exact inv_tail hP h3 hb hc

/-- when the loop halts, every target model has been emitted, each output is a target model,
and no output occurs twice -/
theorem iter_done (hP : GSound T P) (k : Nat) {s s' : St V Sto} (h : SInv T P s) (hi : iter P k s = Res.done s') :
    (∀ σ, T σ → ∃ o ∈ s'.out, Matches o σ) ∧ (∀ o ∈ s'.out, ∀ σ, Matches o σ → T σ) ∧ s'.out.Nodup ∧
    (∀ o ∈ s'.out, P.twoVal o = true ∧ P.OkG o) := by
  unfold iter at hi
  simp only at hi
  by_cases hd : (step1 P k s).backtrack = true ∧ (step1 P k s).stack = []
  · rw [if_pos hd] at hi; cases hi
    have h1 := inv_step1 hP k h
    refine ⟨?_, h1.outT, h1.outNodup, h1.outTV⟩
    intro σ hT
    false_or_by_contra
    rename_i hne
    have u : Unrep T (step1 P k s).out σ := ⟨hT, fun o ho m => hne ⟨o, ho, m⟩⟩
    rcases h1.cover σ u with hm | ⟨e, he, _⟩
    · exact h1.dead hd.1 σ u hm
    · rw [hd.2] at he; cases he
  · rw [if_neg hd] at hi; cases hi

/-- safety: if the search halts (with any fuel), it has emitted exactly the target models, each
once. Holds for every heuristic oracle that proposes undecided statements. -/
theorem run_exact (hP : GSound T P) : ∀ (fuel k : Nat) (s s' : St V Sto), SInv T P s → run P k fuel s = some s' →
    (∀ σ, T σ → ∃ o ∈ s'.out, Matches o σ) ∧ (∀ o ∈ s'.out, ∀ σ, Matches o σ → T σ) ∧ s'.out.Nodup ∧
    (∀ o ∈ s'.out, P.twoVal o = true ∧ P.OkG o) := by
  intro fuel
  induction fuel with
  | zero => intro k s s' _ hr; cases hr
  | succ f ih =>
    intro k s s' h hr
    unfold run at hr
    cases hi : iter P k s with
    | done s1 => rw [hi] at hr; cases hr; exact iter_done hP k h hi
    | cont s1 => rw [hi] at hr; exact ih (k+1) s1 s' (iter_inv hP k h hi) hr

/-- the initial state (current vector `g`, empty stack and outputs, any well-shaped store without
members) satisfies the invariant as soon as every target model extends the decided part of `g` -/
theorem inv_init (g : V) (st : Sto) (hg : ∀ σ, T σ → Matches (P.dec g) σ) (hok : P.Ok g) (hoks : P.OkS st)
    (hemp : ∀ x, ¬ P.Mem st x) :
    SInv T P { cur := g, store := st, stack := [], backtrack := false, choice := false, out := [] } := by
  refine ⟨Chain.nil _, fun σ u => Or.inl (hg σ u.1), (fun _ _ g' hx => absurd hx (hemp g')), (fun hb => by cases hb),
    (fun _ ho => by cases ho), List.nodup_nil, (fun _ ho => by cases ho), (fun _ ho => by cases ho), (fun hc => by cases hc), hok, hoks,
    (fun _ he => by cases he)⟩

end NGen
#print axioms NGen.run_exact
#print axioms NGen.inv_init
