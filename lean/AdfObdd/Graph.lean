
namespace GraphM
/-! prototype 33: the node set computed by `DoubleLabeledGraph::from_adf_and_ac` (iterated
    expansion of the roots by lo/hi children) is exactly the set of nodes reachable from the roots -/

structure GNode where
  lo : Nat
  hi : Nat

def children (ns : List GNode) (i : Nat) : List Nat :=
  match ns[i]? with | some n => [n.lo, n.hi] | none => []

inductive Reachable (ns : List GNode) (roots : List Nat) : Nat → Prop
  | root (r : Nat) : r ∈ roots → Reachable ns roots r
  | step (i c : Nat) : Reachable ns roots i → c ∈ children ns i → Reachable ns roots c

/-- the `while !new_node_indices.is_empty()` loop; `none` = fuel exhausted -/
def expand (ns : List GNode) : Nat → List Nat → List Nat → Option (List Nat)
  | 0, _, _ => none
  | fuel+1, seen, new =>
    if new.isEmpty then some seen else
    let seen' := seen ++ new
    let new' := (seen'.flatMap (children ns)).filter (fun c => !seen'.contains c)
    expand ns fuel seen' new'

def Closed (ns : List GNode) (seen : List Nat) : Prop := ∀ i ∈ seen, ∀ c ∈ children ns i, c ∈ seen

/-- C16 core: when the loop ends, the node set is exactly the reachable set -/
theorem expand_spec (ns : List GNode) (roots : List Nat) : ∀ (fuel : Nat) (seen new res : List Nat),
    (∀ x ∈ seen, Reachable ns roots x) → (∀ x ∈ new, Reachable ns roots x) →
    (∀ r ∈ roots, r ∈ seen ∨ r ∈ new) →
    (∀ i ∈ seen, ∀ c ∈ children ns i, c ∈ seen ∨ c ∈ new) →
    expand ns fuel seen new = some res → ∀ x, x ∈ res ↔ Reachable ns roots x := by
  intro fuel
  induction fuel with
  | zero => intro _ _ _ _ _ _ _ h; cases h
  | succ f ih =>
    intro seen new res hs hn hr hc h
    unfold expand at h
    by_cases he : new.isEmpty = true
    · rw [if_pos he] at h
      cases h
      have hnil : new = [] := by simpa using he
      subst hnil
      intro x
      constructor
      · exact hs x
      · intro hx
        induction hx with
        | root r hr' => rcases hr r hr' with h | h; exact h; cases h
        | step i c _ hci ihx => rcases hc i ihx c hci with h | h; exact h; cases h
    · rw [if_neg he] at h
      apply ih (seen ++ new) _ res _ _ _ _ h
      · intro x hx
        rcases List.mem_append.mp hx with h' | h'
        · exact hs x h'
        · exact hn x h'
      · intro x hx
        rw [List.mem_filter, List.mem_flatMap] at hx
        obtain ⟨⟨i, hi, hci⟩, _⟩ := hx
        have hri : Reachable ns roots i := by
          rcases List.mem_append.mp hi with h' | h'
          · exact hs i h'
          · exact hn i h'
        exact Reachable.step i x hri hci
      · intro r hr'
        left
        rcases hr r hr' with h' | h'
        · exact List.mem_append_left _ h'
        · exact List.mem_append_right _ h'
      · intro i hi c hci
        by_cases hin : c ∈ seen ++ new
        · left; exact hin
        · right
          rw [List.mem_filter, List.mem_flatMap]
          exact ⟨⟨i, hi, hci⟩, by simpa using hin⟩

theorem graph_nodes_exact (ns : List GNode) (roots : List Nat) (fuel : Nat) (res : List Nat)
    (h : expand ns fuel [] roots = some res) : ∀ x, x ∈ res ↔ Reachable ns roots x :=
  expand_spec ns roots fuel [] roots res (fun _ h => by cases h) (fun x hx => Reachable.root x hx)
    (fun r hr => Or.inr hr) (fun _ h => by cases h) h
#print axioms graph_nodes_exact

end GraphM
