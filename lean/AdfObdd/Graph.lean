
namespace GraphM
/-! prototype 33: the node set computed by `DoubleLabeledGraph::from_adf_and_ac` (iterated
    expansion of the roots by lo/hi children) is exactly the set of nodes reachable from the roots -/

structure GNode where
  lo : Nat
  hi : Nat

def children (ns : List GNode) (i : Nat) : List Nat :=
  match ns[i]? with | some n => [n.lo, n.hi] | none => []

inductive Reachable (ns : List GNode) (roots : List Nat) : Nat → Prop
  | root (r : Nat) : r ∈ roots → Reachable ns roots r
  | step (i c : Nat) : Reachable ns roots i → c ∈ children ns i → Reachable ns roots c

/-- the `while !new_node_indices.is_empty()` loop; `none` = fuel exhausted -/
def expand (ns : List GNode) : Nat → List Nat → List Nat → Option (List Nat)
  | 0, _, _ => none
  | fuel+1, seen, new =>
    if new.isEmpty then some seen else
    let seen' := seen ++ new
    let new' := (seen'.flatMap (children ns)).filter (fun c => !seen'.contains c)
    expand ns fuel seen' new'

def Closed (ns : List GNode) (seen : List Nat) : Prop := ∀ i ∈ seen, ∀ c ∈ children ns i, c ∈ seen

/-- C16 core: when the loop ends, the node set is exactly the reachable set -/
theorem expand_spec (ns : List GNode) (roots : List Nat) : ∀ (fuel : Nat) (seen new res : List Nat),
    (∀ x ∈ seen, Reachable ns roots x) → (∀ x ∈ new, Reachable ns roots x) →
    (∀ r ∈ roots, r ∈ seen ∨ r ∈ new) →
    (∀ i ∈ seen, ∀ c ∈ children ns i, c ∈ seen ∨ c ∈ new) →
    expand ns fuel seen new = some res → ∀ x, x ∈ res ↔ Reachable ns roots x := by
  intro fuel
  induction fuel with
  | zero => intro _ _ _ _ _ _ _ h; cases h
  | succ f ih =>
    intro seen new res hs hn hr hc h
    unfold expand at h
    by_cases he : new.isEmpty = true
    · rw [if_pos he] at h
      cases h
      have hnil : new = [] := by simpa using he
      subst hnil
      intro x
      constructor
      · exact hs x
      · intro hx
        induction hx with
        | root r hr' => rcases hr r hr' with h | h; exact h; cases h
        | step i c _ hci ihx => rcases hc i ihx c hci with h | h; exact h; cases h
    · rw [if_neg he] at h
      apply ih (seen ++ new) _ res _ _ _ _ h
      · intro x hx
        rcases List.mem_append.mp hx with h' | h'
        · exact hs x h'
        · exact hn x h'
      · intro x hx
        rw [List.mem_filter, List.mem_flatMap] at hx
        obtain ⟨⟨i, hi, hci⟩, _⟩ := hx
        have hri : Reachable ns roots i := by
          rcases List.mem_append.mp hi with h' | h'
          · exact hs i h'
          · exact hn i h'
        exact Reachable.step i x hri hci
      · intro r hr'
        left
        rcases hr r hr' with h' | h'
        · exact List.mem_append_left _ h'
        · exact List.mem_append_right _ h'
      · intro i hi c hci
        by_cases hin : c ∈ seen ++ new
        · left; exact hin
        · right
          rw [List.mem_filter, List.mem_flatMap]
          exact ⟨⟨i, hi, hci⟩, by simpa using hin⟩

theorem graph_nodes_exact (ns : List GNode) (roots : List Nat) (fuel : Nat) (res : List Nat)
    (h : expand ns fuel [] roots = some res) : ∀ x, x ∈ res ↔ Reachable ns roots x :=
  expand_spec ns roots fuel [] roots res (fun _ h => by cases h) (fun x hx => Reachable.root x hx)
    (fun r hr => Or.inr hr) (fun _ h => by cases h) h
#print axioms graph_nodes_exact

end GraphM

namespace GraphM
/-! extension (C16): the expansion loop with the `HashSet`s made explicit as duplicate-free lists,
    and its termination: the loop ends within `table size + 2` rounds, because every round but the
    last adds at least one new node index below the table size -/

/-- duplicate-free list with the same members -/
def dedupN : List Nat → List Nat
  | [] => []
  | x :: xs => if (dedupN xs).contains x then dedupN xs else x :: dedupN xs

theorem mem_dedupN : ∀ (l : List Nat) (x : Nat), x ∈ dedupN l ↔ x ∈ l := by
  intro l
  induction l with
  | nil => intro x; simp [dedupN]
  | cons y ys ih =>
    intro x
    unfold dedupN
    by_cases h : (dedupN ys).contains y = true
    · rw [if_pos h]
      have hy : y ∈ ys := (ih y).mp (by simpa using h)
      constructor
      · intro hx; exact List.mem_cons_of_mem _ ((ih x).mp hx)
      · intro hx
        rcases List.mem_cons.mp hx with hx | hx
        · subst hx; exact (ih x).mpr hy
        · exact (ih x).mpr hx
    · rw [if_neg h]
      simp only [List.mem_cons, ih x]

theorem nodup_dedupN : ∀ l : List Nat, (dedupN l).Nodup := by
  intro l
  induction l with
  | nil => simp [dedupN]
  | cons y ys ih =>
    unfold dedupN
    by_cases h : (dedupN ys).contains y = true
    · rw [if_pos h]; exact ih
    · rw [if_neg h]
      exact List.nodup_cons.mpr ⟨by simpa using h, ih⟩

/-- the `while !new_node_indices.is_empty()` loop on sets; `none` = fuel exhausted -/
def expandD (ns : List GNode) : Nat → List Nat → List Nat → Option (List Nat)
  | 0, _, _ => none
  | fuel+1, seen, new =>
    if new.isEmpty then some seen else
    let seen' := seen ++ new
    let new' := dedupN ((seen'.flatMap (children ns)).filter (fun c => !seen'.contains c))
    expandD ns fuel seen' new'

/-- when the loop ends, the node set is exactly the reachable set -/
theorem expandD_spec (ns : List GNode) (roots : List Nat) : ∀ (fuel : Nat) (seen new res : List Nat),
    (∀ x ∈ seen, Reachable ns roots x) → (∀ x ∈ new, Reachable ns roots x) →
    (∀ r ∈ roots, r ∈ seen ∨ r ∈ new) →
    (∀ i ∈ seen, ∀ c ∈ children ns i, c ∈ seen ∨ c ∈ new) →
    expandD ns fuel seen new = some res → ∀ x, x ∈ res ↔ Reachable ns roots x := by
  intro fuel
  induction fuel with
  | zero => intro _ _ _ _ _ _ _ h; cases h
  | succ f ih =>
    intro seen new res hs hn hr hc h
    unfold expandD at h
    by_cases he : new.isEmpty = true
    · rw [if_pos he] at h
      cases h
      have hnil : new = [] := by simpa using he
      subst hnil
      intro x
      constructor
      · exact hs x
      · intro hx
        induction hx with
        | root r hr' => rcases hr r hr' with h | h; exact h; cases h
        | step i c _ hci ihx => rcases hc i ihx c hci with h | h; exact h; cases h
    · rw [if_neg he] at h
      apply ih (seen ++ new) _ res _ _ _ _ h
      · intro x hx
        rcases List.mem_append.mp hx with h' | h'
        · exact hs x h'
        · exact hn x h'
      · intro x hx
        rw [mem_dedupN, List.mem_filter, List.mem_flatMap] at hx
        obtain ⟨⟨i, hi, hci⟩, _⟩ := hx
        have hri : Reachable ns roots i := by
          rcases List.mem_append.mp hi with h' | h'
          · exact hs i h'
          · exact hn i h'
        exact Reachable.step i x hri hci
      · intro r hr'
        left
        rcases hr r hr' with h' | h'
        · exact List.mem_append_left _ h'
        · exact List.mem_append_right _ h'
      · intro i hi c hci
        by_cases hin : c ∈ seen ++ new
        · left; exact hin
        · right
          rw [mem_dedupN, List.mem_filter, List.mem_flatMap]
          exact ⟨⟨i, hi, hci⟩, by simpa using hin⟩

/-- pigeonhole: a duplicate-free list of numbers below `n` has at most `n` elements -/
theorem length_le_of_nodup_lt : ∀ (n : Nat) (l : List Nat), l.Nodup → (∀ x ∈ l, x < n) → l.length ≤ n := by
  intro n
  induction n with
  | zero =>
    intro l _ h
    cases l with
    | nil => simp
    | cons x xs => exact absurd (h x (List.mem_cons_self ..)) (Nat.not_lt_zero _)
  | succ n ih =>
    intro l hnd h
    have hlen : ∀ (l : List Nat), l.Nodup → l.length ≤ (l.filter (fun x => x != n)).length + 1 := by
      intro l
      induction l with
      | nil => intro _; simp
      | cons x xs ihx =>
        intro hnd
        have hnd' := List.nodup_cons.mp hnd
        by_cases hx : x = n
        · have hall : xs.filter (fun y => y != n) = xs := by
            apply List.filter_eq_self.mpr
            intro y hy
            have : y ≠ n := by intro hyn; subst hyn; subst hx; exact hnd'.1 hy
            simpa using this
          simp [List.filter_cons, hx, hall]
        · have := ihx hnd'.2
          simp only [List.filter_cons, bne_iff_ne, ne_eq, hx, not_false_eq_true, if_true, List.length_cons]
          omega
    have hf : (l.filter (fun x => x != n)).length ≤ n := by
      apply ih
      · exact List.Pairwise.filter _ hnd
      · intro x hx
        rw [List.mem_filter] at hx
        have h1 := h x hx.1
        have h2 : x ≠ n := by simpa using hx.2
        omega
    have := hlen l hnd
    omega

/-- every index stored in the table and every root is below the table size -/
def InRange (ns : List GNode) (roots : List Nat) : Prop :=
  (∀ r ∈ roots, r < ns.length) ∧ (∀ (i : Nat) (n : GNode), ns[i]? = some n → n.lo < ns.length ∧ n.hi < ns.length)

theorem children_lt (ns : List GNode) (hr : ∀ (i : Nat) (n : GNode), ns[i]? = some n → n.lo < ns.length ∧ n.hi < ns.length)
    (i c : Nat) (hc : c ∈ children ns i) : c < ns.length := by
  unfold children at hc
  cases hn : ns[i]? with
  | none => rw [hn] at hc; cases hc
  | some n =>
    rw [hn] at hc
    simp only [List.mem_cons, List.not_mem_nil, or_false] at hc
    rcases hc with h | h
    · rw [h]; exact (hr i n hn).1
    · rw [h]; exact (hr i n hn).2

/-- the fuel bound: the loop provably ends -/
theorem expandD_terminates (ns : List GNode)
    (hr : ∀ (i : Nat) (n : GNode), ns[i]? = some n → n.lo < ns.length ∧ n.hi < ns.length) :
    ∀ (fuel : Nat) (seen new : List Nat), (seen ++ new).Nodup → (∀ x ∈ seen ++ new, x < ns.length) →
      ns.length - seen.length < fuel → ∃ res, expandD ns fuel seen new = some res := by
  intro fuel
  induction fuel with
  | zero => intro _ _ _ _ h; exact absurd h (Nat.not_lt_zero _)
  | succ f ih =>
    intro seen new hnd hlt hfuel
    unfold expandD
    by_cases he : new.isEmpty = true
    · rw [if_pos he]; exact ⟨seen, rfl⟩
    · rw [if_neg he]
      have hne : new ≠ [] := by simpa using he
      have hlen : (seen ++ new).length ≤ ns.length := length_le_of_nodup_lt _ _ hnd hlt
      have hpos : 0 < new.length := List.length_pos_iff.mpr hne
      apply ih
      · rw [List.nodup_append]
        refine ⟨hnd, nodup_dedupN _, ?_⟩
        intro a ha b hb
        rw [mem_dedupN, List.mem_filter] at hb
        intro hab
        subst hab
        have : ¬ a ∈ seen ++ new := by simpa using hb.2
        exact this ha
      · intro x hx
        rcases List.mem_append.mp hx with h | h
        · exact hlt x h
        · rw [mem_dedupN, List.mem_filter, List.mem_flatMap] at h
          obtain ⟨⟨i, _, hci⟩, _⟩ := h
          exact children_lt ns hr i x hci
      · rw [List.length_append] at hlen ⊢
        omega

/-- **the node-set loop ends and computes exactly the reachable set** -/
theorem expandD_total (ns : List GNode) (roots : List Nat) (h : InRange ns roots) :
    ∃ res, expandD ns (ns.length + 2) [] (dedupN roots) = some res ∧ ∀ x, x ∈ res ↔ Reachable ns roots x := by
  obtain ⟨res, hres⟩ := expandD_terminates ns h.2 (ns.length + 2) [] (dedupN roots)
    (by simpa using nodup_dedupN roots)
    (by intro x hx; simp only [List.nil_append, mem_dedupN] at hx; exact h.1 x hx)
    (by simp)
  refine ⟨res, hres, ?_⟩
  exact expandD_spec ns roots _ [] (dedupN roots) res (fun _ h => by cases h)
    (fun x hx => Reachable.root x ((mem_dedupN roots x).mp hx))
    (fun r hr => Or.inr ((mem_dedupN roots r).mpr hr)) (fun _ h => by cases h) hres

end GraphM
