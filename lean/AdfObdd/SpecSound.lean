import AdfObdd.Spec.Adf
import AdfObdd.TTSpec
import AdfObdd.Stable
import AdfObdd.PreGround2
/-! The executable specification of the ADF semantics (`Spec/Adf.lean`, the test oracle the
    driver runs) coincides with the `Prop`-level definitions the theorems are stated in
    (`Gam`, `IsLfp`, `TotalI`, `redu` of `Lfp.lean` / `Stable.lean`).

    Setting: the acceptance conditions `D : List BoolFn` are given to the oracle as truth tables
    `tts : List Nat` over `n` variables; `Reps n tts D` says that the two lists have the same
    length, that table `i` represents function `i` (`TT.Rep`) and that every function looks at the
    variables `< n` only (`TT.DetBy`). Under that hypothesis

    * `Spec.gamma n tts w = Gam D w` for every `w` (no length condition needed),
    * `Spec.completeAll` lists exactly the fixpoints of length `n`, each once,
    * `Spec.grounded` is the least fixpoint (`D.length = n`),
    * `Spec.models2` lists exactly the total fixpoints of length `n`, each once,
    * `Spec.reduct` represents `redu`, and `Spec.stableAll` lists exactly the stable models,
      each once.

    (This file imports `TTSpec`, hence `Mathlib.Tactic.Ring` transitively; the driver does not
    import it.) -/
namespace SpecSound
open TT (Rep DetBy bitsAsg numOf)

/-- the tables `tts` represent the conditions `D` over `n` variables, position by position, and
every condition depends on the variables `< n` only -/
structure Reps (n : Nat) (tts : List Nat) (D : List BoolFn) : Prop where
  len : tts.length = D.length
  rep : ∀ (i tt : Nat) (f : BoolFn), tts[i]? = some tt → D[i]? = some f → Rep n tt f
  det : ∀ (i : Nat) (f : BoolFn), D[i]? = some f → DetBy n f

theorem Reps.nil (n : Nat) : Reps n [] [] :=
  ⟨rfl, fun i tt f h _ => by simp at h, fun i f h => by simp at h⟩

theorem Reps.cons {n tt : Nat} {f : BoolFn} {tts : List Nat} {D : List BoolFn}
    (hr : Rep n tt f) (hd : DetBy n f) (h : Reps n tts D) : Reps n (tt :: tts) (f :: D) := by
  refine ⟨by simp [h.len], ?_, ?_⟩
  · intro i tt' f' ht hf
    cases i with
    | zero =>
      simp only [List.getElem?_cons_zero, Option.some.injEq] at ht hf
      subst ht; subst hf; exact hr
    | succ i =>
      simp only [List.getElem?_cons_succ] at ht hf
      exact h.rep i tt' f' ht hf
  · intro i f' hf
    cases i with
    | zero =>
      simp only [List.getElem?_cons_zero, Option.some.injEq] at hf
      subst hf; exact hd
    | succ i =>
      simp only [List.getElem?_cons_succ] at hf
      exact h.det i f' hf

/-- every list of conditions over the variables `< n` has its list of tables -/
theorem reps_ofFn (n : Nat) (D : List BoolFn) (hd : ∀ f, f ∈ D → DetBy n f) :
    Reps n (D.map (fun f => TT.ofFn n (fun a => f (bitsAsg a)))) D := by
  refine ⟨by simp, ?_, ?_⟩
  · intro i tt f ht hf
    simp only [List.getElem?_map, hf, Option.map_some, Option.some.injEq] at ht
    subst ht
    exact TT.rep_ofFn n f
  · intro i f hf
    exact hd f (List.mem_of_getElem? hf)

/-! ### `completions` -/

theorem getD_eq_some (w : I3) (i : Nat) (b : Bool) :
    w.getD i none = some b ↔ w[i]? = some (some b) := by
  rw [List.getD_eq_getElem?_getD]
  cases h : w[i]? with
  | none => simp
  | some x => simp

/-- the completions of `w` are the masks below `2^n` that agree with the decided part of `w` -/
theorem mem_completions (n : Nat) (w : I3) (a : Nat) :
    a ∈ Spec.completions n w ↔
      a < 2 ^ n ∧ ∀ i, i < n → ∀ b, w[i]? = some (some b) → a.testBit i = b := by
  unfold Spec.completions
  rw [List.mem_filter, List.mem_range, List.all_eq_true]
  apply and_congr_right
  intro _
  constructor
  · intro h i hi b hb
    have := h i (List.mem_range.mpr hi)
    rw [(getD_eq_some w i b).mpr hb] at this
    simpa using this
  · intro h i hi
    have hi' := List.mem_range.mp hi
    cases hg : w.getD i none with
    | none => rfl
    | some b =>
      have := h i hi' b ((getD_eq_some w i b).mp hg)
      simp [this]

/-- the table is constantly `b` on the completions of `w` iff the function is constantly `b` on
the assignments overridden by `w` -/
theorem all_completions_iff {n tt : Nat} {f : BoolFn} (hr : Rep n tt f) (hd : DetBy n f)
    (w : I3) (b : Bool) :
    (∀ a, a ∈ Spec.completions n w → tt.testBit a = b) ↔ ∀ σ, f (over σ 0 w) = b := by
  constructor
  · intro h σ
    have ha : numOf n (over σ 0 w) ∈ Spec.completions n w := by
      rw [mem_completions]
      refine ⟨TT.numOf_lt _ _, ?_⟩
      intro i hi c hc
      rw [TT.numOf_testBit]
      simp [hi, agree_over σ w i c hc]
    have := h _ ha
    rw [hr] at this
    simp only [TT.numOf_lt, decide_true, Bool.true_and] at this
    rw [← this]
    apply hd
    intro x hx
    exact (TT.bitsAsg_numOf n _ x hx).symm
  · intro h a ha
    rw [mem_completions] at ha
    rw [hr a]
    simp only [ha.1, decide_true, Bool.true_and]
    rw [← h (bitsAsg a)]
    apply hd
    intro x hx
    rw [over_apply]
    simp only [Nat.zero_le, if_true, Nat.sub_zero]
    cases hx' : w[x]? with
    | none => rfl
    | some o =>
      cases o with
      | none => rfl
      | some c => exact ha.2 x hx c hx'

/-! ### Γ -/

theorem gamma_entry {n tt : Nat} {f : BoolFn} (hr : Rep n tt f) (hd : DetBy n f) (w : I3) :
    (if (Spec.completions n w).all (fun a => tt.testBit a) then some true
     else if (Spec.completions n w).all (fun a => !tt.testBit a) then some false else none)
      = constOf (fun σ => f (over σ 0 w)) := by
  have hT : ((Spec.completions n w).all (fun a => tt.testBit a) = true) ↔
      ∀ σ, f (over σ 0 w) = true := by
    rw [List.all_eq_true]; exact all_completions_iff hr hd w true
  have hF : ((Spec.completions n w).all (fun a => !tt.testBit a) = true) ↔
      ∀ σ, f (over σ 0 w) = false := by
    rw [List.all_eq_true, ← all_completions_iff hr hd w false]
    simp
  unfold constOf
  by_cases h1 : ∀ σ, f (over σ 0 w) = true
  · rw [if_pos (hT.mpr h1), if_pos h1]
  · rw [if_neg (fun h => h1 (hT.mp h)), if_neg h1]
    by_cases h2 : ∀ σ, f (over σ 0 w) = false
    · rw [if_pos (hF.mpr h2), if_pos h2]
    · rw [if_neg (fun h => h2 (hF.mp h)), if_neg h2]

/-! ### all three-valued interpretations of length `n` -/

theorem mem_allI3 : ∀ (n : Nat) (w : I3), w ∈ Spec.allI3 n ↔ w.length = n
  | 0, w => by simp [Spec.allI3]
  | n+1, w => by
    simp only [Spec.allI3, List.mem_flatMap, List.mem_cons, List.not_mem_nil, or_false]
    constructor
    · rintro ⟨w', hw', h | h | h⟩ <;> (subst h; simp [(mem_allI3 n w').mp hw'])
    · intro hl
      rcases List.eq_nil_or_concat w with h | ⟨w', x, h⟩
      · subst h; simp at hl
      · subst h
        rw [List.concat_eq_append] at *
        have hl' : w'.length = n := by simpa using hl
        refine ⟨w', (mem_allI3 n w').mpr hl', ?_⟩
        cases x with
        | none => left; rfl
        | some b =>
          cases b with
          | true => right; left; rfl
          | false => right; right; rfl

theorem nodup_allI3 : ∀ n, (Spec.allI3 n).Nodup
  | 0 => by simp [Spec.allI3]
  | n+1 => by
    unfold Spec.allI3 List.Nodup
    rw [List.pairwise_flatMap]
    refine ⟨?_, ?_⟩
    · intro w _
      simp
    · apply List.Pairwise.imp _ (nodup_allI3 n)
      intro a b hab x hx y hy hxy
      apply hab
      simp only [List.mem_cons, List.not_mem_nil, or_false] at hx hy
      subst hxy
      rcases hx with h | h | h <;> rcases hy with h' | h' | h' <;>
        exact (List.append_inj' (h.symm.trans h') rfl).1

/-! ### least fixpoint by iteration -/

theorem Le3_bot (n : Nat) (w : I3) : Le3 (List.replicate n none) w := by
  intro i b h
  rw [List.getElem?_replicate] at h
  split at h <;> simp at h

theorem lfp_unique {D : List BoolFn} {w w' : I3} (h : IsLfp D w) (h' : IsLfp D w') : w = w' := by
  apply Le3_antisymm
  · have a := congrArg List.length h.1
    have b := congrArg List.length h'.1
    rw [Gam_length] at a b; omega
  · exact h.2 w' h'.1
  · exact h'.2 w h.1

/-! ### total interpretations -/

theorem isTotal_iff (w : I3) : Spec.isTotal w = true ↔ TotalI w := by
  unfold Spec.isTotal TotalI
  rw [List.all_eq_true]
  constructor
  · intro h i hi
    have := h w[i] (List.getElem_mem hi)
    cases hx : w[i] with
    | none => rw [hx] at this; cases this
    | some b => exact ⟨b, by rw [List.getElem?_eq_getElem hi, hx]⟩
  · intro h x hx
    obtain ⟨i, hi, rfl⟩ := List.getElem_of_mem hx
    obtain ⟨b, hb⟩ := h i hi
    rw [List.getElem?_eq_getElem hi] at hb
    simp only [Option.some.injEq] at hb
    rw [hb]; rfl

/-! ### the reduct -/

theorem foldl_clear_testBit (P : Nat → Bool) : ∀ (l : List Nat) (a j : Nat),
    (l.foldl (fun acc i => if P i then (if acc.testBit i then acc - (1 <<< i) else acc) else acc) a).testBit j
      = (if j ∈ l ∧ P j = true then false else a.testBit j) := by
  intro l
  induction l with
  | nil => intro a j; simp
  | cons x l ih =>
    intro a j
    rw [List.foldl_cons, ih]
    have hstep : (if P x then (if a.testBit x then a - (1 <<< x) else a) else a).testBit j =
        (if j = x ∧ P x = true then false else a.testBit j) := by
      by_cases hp : P x = true
      · rw [if_pos hp]
        have := TT.forceBit_testBit a x false j
        unfold TT.forceBit at this
        simp only [Bool.false_eq_true, if_false] at this
        rw [this]
        by_cases hj : j = x <;> simp [hj, hp]
      · rw [if_neg hp]; simp [hp]
    rw [hstep]
    by_cases hj : j = x
    · subst hj; by_cases hp : P j = true <;> simp [hp]
    · by_cases hm : j ∈ l <;> by_cases hp : P j = true <;> simp [hj, hm, hp]

/-- the index `Spec.reduct` reads: `a` with the bits of `v`'s false statements cleared -/
def clr (n : Nat) (v : I3) (a : Nat) : Nat :=
  (List.range n).foldl (fun acc i =>
    if v.getD i none == some false then (if acc.testBit i then acc - (1 <<< i) else acc) else acc) a

theorem reduct_eq (n : Nat) (tts : List Nat) (v : I3) :
    Spec.reduct n tts v = tts.map (fun tt => TT.ofFn n (fun a => tt.testBit (clr n v a))) := rfl

theorem clr_testBit (n : Nat) (v : I3) (a j : Nat) :
    (clr n v a).testBit j = (if j < n ∧ v[j]? = some (some false) then false else a.testBit j) := by
  unfold clr
  rw [foldl_clear_testBit (fun i => v.getD i none == some false)]
  simp only [List.mem_range, beq_iff_eq, getD_eq_some]

theorem clr_lt {n : Nat} (v : I3) {a : Nat} (ha : a < 2 ^ n) : clr n v a < 2 ^ n := by
  apply Nat.lt_pow_two_of_testBit
  intro i hi
  rw [clr_testBit, if_neg (by omega)]
  exact Nat.testBit_lt_two_pow (Nat.lt_of_lt_of_le ha (Nat.pow_le_pow_right (by decide) hi))

theorem over_falsePart (σ : Asg) (v : I3) (x : Nat) :
    over σ 0 (falsePart v) x = (if v[x]? = some (some false) then false else σ x) := by
  rw [over_apply]
  simp only [Nat.zero_le, if_true, Nat.sub_zero, falsePart_get]
  cases hv : v[x]? with
  | none => simp
  | some o =>
    cases o with
    | none => simp
    | some b => cases b <;> simp

theorem rep_reduct_entry {n tt : Nat} {f : BoolFn} (hr : Rep n tt f) (hd : DetBy n f) (v : I3) :
    Rep n (TT.ofFn n (fun a => tt.testBit (clr n v a))) (fun σ => f (over σ 0 (falsePart v))) := by
  intro a
  rw [TT.ofFn_testBit]
  by_cases ha : a < 2 ^ n
  · simp only [ha, decide_true, Bool.true_and]
    rw [hr (clr n v a)]
    simp only [clr_lt v ha, decide_true, Bool.true_and]
    apply hd
    intro x hx
    rw [over_falsePart]
    simp only [bitsAsg, clr_testBit, hx, true_and]
  · simp [ha]

theorem detBy_redu {n : Nat} {f : BoolFn} (hd : DetBy n f) (v : I3) :
    DetBy n (fun σ => f (over σ 0 (falsePart v))) := by
  intro σ σ' hag
  apply hd
  intro x hx
  rw [over_falsePart, over_falsePart, hag x hx]

/-- `Spec.reduct` represents the reduct `redu` -/
theorem reps_reduct {n : Nat} {tts : List Nat} {D : List BoolFn} (h : Reps n tts D) (v : I3) :
    Reps n (Spec.reduct n tts v) (redu D v) := by
  refine ⟨by simp [Spec.reduct, redu, h.len], ?_, ?_⟩
  · intro i tt f ht hf
    rw [reduct_eq] at ht
    simp only [List.getElem?_map] at ht
    simp only [redu, List.getElem?_map] at hf
    cases ht0 : tts[i]? with
    | none => simp [ht0] at ht
    | some tt0 =>
      cases hf0 : D[i]? with
      | none => simp [hf0] at hf
      | some f0 =>
        simp only [ht0, hf0, Option.map_some, Option.some.injEq] at ht hf
        subst ht; subst hf
        exact rep_reduct_entry (h.rep i tt0 f0 ht0 hf0) (h.det i f0 hf0) v
  · intro i f hf
    simp only [redu, List.getElem?_map] at hf
    cases hf0 : D[i]? with
    | none => simp [hf0] at hf
    | some f0 =>
      simp only [hf0, Option.map_some, Option.some.injEq] at hf
      subst hf
      exact detBy_redu (h.det i f0 hf0) v

/-! ### headline theorems -/

variable {n : Nat} {tts : List Nat} {D : List BoolFn}

/-- 1. the executable consequence operator is Γ (for every `w`, of any length) -/
theorem gamma_eq_Gam (h : Reps n tts D) (w : I3) : Spec.gamma n tts w = Gam D w := by
  apply List.ext_getElem?
  intro i
  simp only [Spec.gamma, Gam, List.getElem?_map]
  cases ht : tts[i]? with
  | none =>
    have : D[i]? = none := by
      rw [List.getElem?_eq_none_iff] at ht ⊢
      rw [← h.len]; exact ht
    simp [this]
  | some tt =>
    have hi : i < D.length := by
      rw [← h.len]
      rcases Nat.lt_or_ge i tts.length with h' | h'
      · exact h'
      · simp [List.getElem?_eq_none h'] at ht
    have hf : D[i]? = some D[i] := List.getElem?_eq_getElem hi
    rw [hf]
    simp only [Option.map_some]
    congr 1
    exact gamma_entry (h.rep i tt _ ht hf) (h.det i _ hf) w

/-- 2. `Spec.completeAll` lists exactly the complete interpretations … -/
theorem completeAll_spec (h : Reps n tts D) (w : I3) :
    w ∈ Spec.completeAll n tts ↔ w.length = n ∧ Gam D w = w := by
  unfold Spec.completeAll Spec.isComplete
  rw [List.mem_filter, mem_allI3, beq_iff_eq, gamma_eq_Gam h]

/-- … each once -/
theorem completeAll_nodup (n : Nat) (tts : List Nat) : (Spec.completeAll n tts).Nodup :=
  List.Pairwise.filter _ (nodup_allI3 n)

/-- Kleene iteration from a post-fixpoint below every fixpoint, with enough fuel -/
theorem groundedFrom_spec (h : Reps n tts D) (hn : D.length = n) : ∀ (fuel : Nat) (w : I3),
    w.length = n → Le3 w (Gam D w) → (∀ w', Gam D w' = w' → Le3 w w') → n - countSome w < fuel →
    IsLfp D (Spec.groundedFrom n tts fuel w) := by
  intro fuel
  induction fuel with
  | zero => intro w _ _ _ hf; omega
  | succ fuel ih =>
    intro w hl hle hleast hf
    simp only [Spec.groundedFrom, gamma_eq_Gam h]
    by_cases e : Gam D w = w
    · rw [if_pos (beq_iff_eq.mpr e)]
      exact ⟨e, hleast⟩
    · rw [if_neg (fun hc => e (beq_iff_eq.mp hc))]
      have hlen : w.length = (Gam D w).length := by rw [Gam_length, hn, hl]
      apply ih (Gam D w) (by rw [Gam_length, hn]) (Gam_mono D hle)
      · intro w' hw'
        have := Gam_mono D (hleast w' hw')
        rwa [hw'] at this
      · have h1 := countSome_mono w (Gam D w) hlen hle
        have h2 : countSome (Gam D w) ≠ countSome w :=
          fun hc => e (eq_of_le_count w (Gam D w) hlen hle hc)
        have h3 := countSome_le_length (Gam D w)
        rw [Gam_length, hn] at h3
        omega

/-- 3. `Spec.grounded` is the least fixpoint of Γ -/
theorem grounded_spec (h : Reps n tts D) (hn : D.length = n) : IsLfp D (Spec.grounded n tts) := by
  unfold Spec.grounded
  apply groundedFrom_spec h hn
  · simp
  · exact Le3_bot n _
  · intro w' _; exact Le3_bot n _
  · omega

theorem grounded_length (h : Reps n tts D) (hn : D.length = n) : (Spec.grounded n tts).length = n := by
  have := congrArg List.length (grounded_spec h hn).1
  rw [Gam_length] at this; omega

/-- 4a. `Spec.models2` lists exactly the two-valued models … -/
theorem models2_spec (h : Reps n tts D) (v : I3) :
    v ∈ Spec.models2 n tts ↔ v.length = n ∧ TotalI v ∧ Gam D v = v := by
  unfold Spec.models2
  rw [List.mem_filter, completeAll_spec h, isTotal_iff]
  constructor
  · rintro ⟨⟨a, b⟩, c⟩; exact ⟨a, c, b⟩
  · rintro ⟨a, c, b⟩; exact ⟨⟨a, b⟩, c⟩

/-- … each once -/
theorem models2_nodup (n : Nat) (tts : List Nat) : (Spec.models2 n tts).Nodup :=
  List.Pairwise.filter _ (completeAll_nodup n tts)

/-- 4b. `Spec.stableAll` lists exactly the stable models … -/
theorem stable_spec (h : Reps n tts D) (v : I3) :
    v ∈ Spec.stableAll n tts ↔ v.length = n ∧ TotalI v ∧ Gam D v = v ∧
      ∀ w : I3, IsLfp (redu D v) w → ∀ i : Nat, v[i]? = some (some true) → w[i]? = some (some true) := by
  unfold Spec.stableAll
  rw [List.mem_filter, models2_spec h]
  have key : ∀ (hl : v.length = n) (hfx : Gam D v = v),
      IsLfp (redu D v) (Spec.grounded n (Spec.reduct n tts v)) := by
    intro hl hfx
    have hn : D.length = n := by rw [← Gam_length D v, hfx, hl]
    exact grounded_spec (reps_reduct h v) (by simp [redu, hn])
  constructor
  · rintro ⟨⟨hl, ht, hfx⟩, hs⟩
    refine ⟨hl, ht, hfx, ?_⟩
    intro w hw i hi
    rw [lfp_unique hw (key hl hfx)]
    simp only [Spec.isStable, Bool.and_eq_true, List.all_eq_true, List.mem_range, Bool.or_eq_true,
      bne_iff_ne, beq_iff_eq] at hs
    have hin : i < n := by
      rw [← hl]
      rcases Nat.lt_or_ge i v.length with h' | h'
      · exact h'
      · simp [List.getElem?_eq_none h'] at hi
    rcases hs.2 i hin with h1 | h1
    · exact absurd ((getD_eq_some v i true).mpr hi) h1
    · exact (getD_eq_some _ i true).mp h1
  · rintro ⟨hl, ht, hfx, hall⟩
    refine ⟨⟨hl, ht, hfx⟩, ?_⟩
    simp only [Spec.isStable, Bool.and_eq_true, List.all_eq_true, List.mem_range, Bool.or_eq_true,
      bne_iff_ne, beq_iff_eq]
    refine ⟨⟨(isTotal_iff v).mpr ht, ?_⟩, ?_⟩
    · unfold Spec.isComplete
      rw [beq_iff_eq, gamma_eq_Gam h]; exact hfx
    · intro i _
      by_cases hv : v.getD i none = some true
      · right
        exact (getD_eq_some _ i true).mpr (hall _ (key hl hfx) i ((getD_eq_some v i true).mp hv))
      · left; exact hv

/-- … each once -/
theorem stableAll_nodup (n : Nat) (tts : List Nat) : (Spec.stableAll n tts).Nodup :=
  List.Pairwise.filter _ (models2_nodup n tts)

/-! ### non-vacuity: mutual support `a ↔ b`, i.e. `ac(a) = b`, `ac(b) = a` -/

def exD : List BoolFn := [fun σ => σ 1, fun σ => σ 0]
def exT : List Nat := [TT.var 2 1, TT.var 2 0]

theorem exReps : Reps 2 exT exD :=
  Reps.cons (TT.rep_var 2 1) (fun _ _ h => h 1 (by decide))
    (Reps.cons (TT.rep_var 2 0) (fun _ _ h => h 0 (by decide)) (Reps.nil 2))

/-- Γ on `[T, u]`: the executable value, and hence the value of `Gam` -/
example : Gam exD [some true, none] = [none, some true] := by
  rw [← gamma_eq_Gam exReps]; decide

/-- three complete interpretations; in particular `[T, T]` is a fixpoint of `Gam`, `[T, F]` is not -/
example : Spec.completeAll 2 exT = [[none, none], [some true, some true], [some false, some false]] := by
  decide
example : Gam exD [some true, some true] = [some true, some true] :=
  ((completeAll_spec exReps _).mp (by decide)).2
example : Gam exD [some true, some false] ≠ [some true, some false] :=
  fun hc => absurd ((completeAll_spec exReps _).mpr ⟨rfl, hc⟩) (by decide)

/-- the grounded interpretation is `[u, u]`, and that is the least fixpoint of `Gam` -/
example : IsLfp exD [none, none] := by
  have := grounded_spec exReps rfl
  rwa [show Spec.grounded 2 exT = [none, none] by decide] at this

/-- two two-valued models, one of them stable -/
example : Spec.models2 2 exT = [[some true, some true], [some false, some false]] := by decide
example : Spec.stableAll 2 exT = [[some false, some false]] := by decide
/-- `[F, F]` meets the `Prop`-level stability condition, `[T, T]` (a two-valued model) does not -/
example : ∀ w : I3, IsLfp (redu exD [some false, some false]) w →
    ∀ i : Nat, [some false, some false][i]? = some (some true) → w[i]? = some (some true) :=
  ((stable_spec exReps _).mp (by decide)).2.2.2
example : ¬ ∀ w : I3, IsLfp (redu exD [some true, some true]) w →
    ∀ i : Nat, [some true, some true][i]? = some (some true) → w[i]? = some (some true) := by
  intro hall
  have : [some true, some true] ∈ Spec.stableAll 2 exT :=
    (stable_spec exReps _).mpr ⟨rfl, (isTotal_iff _).mp (by decide),
      ((completeAll_spec exReps _).mp (by decide)).2, hall⟩
  revert this
  decide

end SpecSound

#print axioms SpecSound.gamma_eq_Gam
#print axioms SpecSound.completeAll_spec
#print axioms SpecSound.completeAll_nodup
#print axioms SpecSound.grounded_spec
#print axioms SpecSound.models2_spec
#print axioms SpecSound.models2_nodup
#print axioms SpecSound.reps_reduct
#print axioms SpecSound.stable_spec
#print axioms SpecSound.stableAll_nodup
