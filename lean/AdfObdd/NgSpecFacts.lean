import AdfObdd.NgStore
import AdfObdd.Spec.Ng
/-! what the executable specification `NgSpec` (brute force over all total assignments) means
    in terms of `Matches` / `AvoidsL` / `PSub` — the vocabulary of the C18 theorems -/
namespace NgSpec

/-- a value list as a total assignment (variables beyond the list are `false`) -/
def asg (t : List Bool) : Asg := fun i => t.getD i false

/-- the first `n` values of a total assignment -/
def cut (n : Nat) (σ : Asg) : List Bool := (List.range n).map σ

theorem totals_length : ∀ (n : Nat) (t : List Bool), t ∈ totals n → t.length = n := by
  intro n
  induction n with
  | zero => intro t h; simp [totals] at h; subst h; rfl
  | succ n ih =>
    intro t h
    simp only [totals, List.mem_flatMap] at h
    obtain ⟨t', ht', h⟩ := h
    have := ih t' ht'
    simp only [List.mem_cons, List.not_mem_nil, or_false] at h
    rcases h with rfl | rfl <;> simp [this]

theorem totals_complete : ∀ (n : Nat) (t : List Bool), t.length = n → t ∈ totals n := by
  intro n
  induction n with
  | zero =>
    intro t h
    have : t = [] := List.eq_nil_of_length_eq_zero h
    subst this; simp [totals]
  | succ n ih =>
    intro t h
    cases t with
    | nil => simp at h
    | cons b t =>
      simp only [totals, List.mem_flatMap]
      refine ⟨t, ih t (by simpa using h), ?_⟩
      cases b <;> simp

theorem matchesT_iff (g : PA) (t : List Bool) : matchesT g t = true ↔ Matches g (asg t) := by
  unfold matchesT Matches asg
  rw [List.all_eq_true]
  constructor
  · intro h i b hi
    have := h i (List.mem_range.mpr (pget_lt hi))
    simp only [hi] at this
    simpa using this
  · intro h i _
    cases hg : pget g i with
    | none => rfl
    | some b =>
      have := h i b hg
      simp only [beq_iff_eq]; exact this

theorem asg_cut {n : Nat} (σ : Asg) {i : Nat} (hi : i < n) : asg (cut n σ) i = σ i := by
  unfold asg cut
  simp [hi]

/-- on vectors of width at most `n` only the first `n` values of an assignment matter -/
theorem matches_cut {n : Nat} {g : PA} (hg : g.length ≤ n) (σ : Asg) :
    Matches g (asg (cut n σ)) ↔ Matches g σ := by
  constructor
  · intro h i b hi
    have hlt : i < n := Nat.lt_of_lt_of_le (pget_lt hi) hg
    rw [← asg_cut σ hlt]; exact h i b hi
  · intro h i b hi
    have hlt : i < n := Nat.lt_of_lt_of_le (pget_lt hi) hg
    rw [asg_cut σ hlt]; exact h i b hi

theorem cut_mem_totals (n : Nat) (σ : Asg) : cut n σ ∈ totals n :=
  totals_complete n _ (by simp [cut])

theorem excludedT_iff (gs : List PA) (t : List Bool) : excludedT gs t = true ↔ ExcludedBy gs (asg t) := by
  unfold excludedT ExcludedBy
  rw [List.any_eq_true]
  constructor
  · rintro ⟨g, hg, hm⟩; exact ⟨g, hg, (matchesT_iff g t).mp hm⟩
  · rintro ⟨g, hg, hm⟩; exact ⟨g, hg, (matchesT_iff g t).mpr hm⟩

theorem subPA_iff (g A : PA) : subPA g A = true ↔ PSub g A := violating_iff g A

theorem direct_iff (gs : List PA) (A : PA) : direct gs A = true ↔ ∃ g ∈ gs, PSub g A := by
  unfold direct
  rw [List.any_eq_true]
  constructor
  · rintro ⟨g, hg, h⟩; exact ⟨g, hg, (subPA_iff g A).mp h⟩
  · rintro ⟨g, hg, h⟩; exact ⟨g, hg, (subPA_iff g A).mpr h⟩

theorem mem_exts {n : Nat} {gs : List PA} {A : PA} {t : List Bool} :
    t ∈ exts n gs A ↔ t ∈ totals n ∧ Matches A (asg t) ∧ AvoidsL gs (asg t) := by
  unfold exts
  rw [List.mem_filter, Bool.and_eq_true, matchesT_iff, avoidsL_iff, ← excludedT_iff]
  simp

/-- the enumeration is exhaustive: an avoiding total extension exists among the `2^n` value lists
iff one exists at all -/
theorem exts_of_asg {n : Nat} {gs : List PA} {A : PA} (hgs : ∀ g ∈ gs, g.length ≤ n) (hA : A.length ≤ n)
    (σ : Asg) (hm : Matches A σ) (ha : AvoidsL gs σ) : cut n σ ∈ exts n gs A := by
  rw [mem_exts]
  refine ⟨cut_mem_totals n σ, (matches_cut hA σ).mpr hm, ?_⟩
  intro g hg hmg
  exact ha g hg ((matches_cut (hgs g hg) σ).mp hmg)

theorem exts_empty_iff {n : Nat} {gs : List PA} {A : PA} (hgs : ∀ g ∈ gs, g.length ≤ n) (hA : A.length ≤ n) :
    (exts n gs A).isEmpty = true ↔ ∀ σ, Matches A σ → ¬ AvoidsL gs σ := by
  rw [List.isEmpty_iff]
  constructor
  · intro h σ hm ha
    have := exts_of_asg hgs hA σ hm ha
    rw [h] at this; cases this
  · intro h
    cases he : exts n gs A with
    | nil => rfl
    | cons t ts =>
      have ht : t ∈ exts n gs A := by rw [he]; exact List.mem_cons_self ..
      have ⟨_, h1, h2⟩ := mem_exts.mp ht
      exact absurd h2 (h _ h1)

theorem forcedBy_iff {n : Nat} {gs : List PA} {A r : PA} (hgs : ∀ g ∈ gs, g.length ≤ n) (hA : A.length ≤ n)
    (hr : r.length ≤ n) :
    forcedBy n gs A r = true ↔ ∀ σ, Matches A σ → AvoidsL gs σ → Matches r σ := by
  unfold forcedBy
  rw [List.all_eq_true]
  constructor
  · intro h σ hm ha
    have := h _ (exts_of_asg hgs hA σ hm ha)
    exact (matches_cut hr σ).mp ((matchesT_iff r _).mp this)
  · intro h t ht
    have ⟨_, h1, h2⟩ := mem_exts.mp ht
    exact (matchesT_iff r t).mpr (h _ h1 h2)

theorem clause_nil (ok : Bool) (name : String) : clause ok name = [] ↔ ok = true := by
  unfold clause; cases ok <;> simp

/-- **meaning of the `conclusions` check** -/
theorem conclViolations_none {n : Nat} {gs : List PA} {A : PA} (hgs : ∀ g ∈ gs, g.length ≤ n) (hA : A.length ≤ n) :
    conclViolations n gs A none = [] ↔ ∀ σ, Matches A σ → ¬ AvoidsL gs σ := by
  unfold conclViolations
  rw [clause_nil, exts_empty_iff hgs hA]

theorem conclViolations_some {n : Nat} {gs : List PA} {A r : PA} (hgs : ∀ g ∈ gs, g.length ≤ n)
    (hA : A.length ≤ n) (hr : r.length ≤ n) :
    conclViolations n gs A (some r) = [] ↔
      (¬ ∃ g ∈ gs, PSub g A) ∧ (r.length = A.length ∧ PSub A r) ∧
      ∀ σ, Matches A σ → AvoidsL gs σ → Matches r σ := by
  unfold conclViolations
  rw [List.append_eq_nil_iff, List.append_eq_nil_iff, clause_nil, clause_nil, clause_nil,
    forcedBy_iff hgs hA hr, Bool.and_eq_true, subPA_iff, ← direct_iff]
  simp [and_assoc]

/-- **meaning of the `conclusion_closure` check** -/
theorem closureViolations_inconsistent {n : Nat} {gs : List PA} {A : PA} (hgs : ∀ g ∈ gs, g.length ≤ n)
    (hA : A.length ≤ n) :
    closureViolations n gs A .inconsistent = [] ↔
      (∀ σ, Matches A σ → ¬ AvoidsL gs σ) ∧ flipOK n gs A .inconsistent = true := by
  unfold closureViolations
  rw [List.append_eq_nil_iff, clause_nil, clause_nil, exts_empty_iff hgs hA]

theorem closureViolations_noUpdate {n : Nat} {gs : List PA} {A : PA} :
    closureViolations n gs A .noUpdate = [] ↔ (¬ ∃ g ∈ gs, PSub g A) ∧ flipOK n gs A .noUpdate = true := by
  unfold closureViolations
  rw [List.append_eq_nil_iff, clause_nil, clause_nil, ← direct_iff]
  simp

theorem closureViolations_update {n : Nat} {gs : List PA} {A r : PA} (hgs : ∀ g ∈ gs, g.length ≤ n)
    (hA : A.length ≤ n) (hr : r.length ≤ n) :
    closureViolations n gs A (.update r) = [] ↔
      (¬ ∃ g ∈ gs, PSub g A) ∧ (r.length = A.length ∧ PSub A r) ∧ size A < size r ∧
      (∀ σ, Matches A σ → AvoidsL gs σ → Matches r σ) ∧ (¬ ∃ g ∈ gs, PSub g r) ∧
      flipOK n gs A (.update r) = true := by
  unfold closureViolations
  rw [List.append_eq_nil_iff, List.append_eq_nil_iff, List.append_eq_nil_iff, List.append_eq_nil_iff,
    List.append_eq_nil_iff, clause_nil, clause_nil, clause_nil, clause_nil, clause_nil, clause_nil,
    forcedBy_iff hgs hA hr, Bool.and_eq_true, subPA_iff, ← direct_iff, ← direct_iff]
  simp [and_assoc]

theorem closedBy_iff (g A : PA) : closedBy g A = true ↔ Closed g A := by
  have : closedBy g A = mismatch g A := rfl
  rw [this, mismatch_true_iff]
  unfold Closed
  constructor
  · rintro ⟨i, a, b, ha, hb, hne⟩
    refine ⟨i, a, ha, ?_⟩
    rw [hb]; cases a <;> cases b <;> simp_all
  · rintro ⟨i, c, hg, hA⟩
    exact ⟨i, c, !c, hg, hA, by cases c <;> simp⟩

/-- **meaning of the unit-flip clause**: an answer the specification mandates is mandated by the
law `cl_flip` — its premise `FlipPre` holds for the literal found -/
theorem flipDue_sound {n : Nat} {gs : List PA} {A R : PA} (hgs : ∀ g ∈ gs, g.length = n) (hA : A.length = n)
    (h : flipDue n gs A = some R) : ∃ v b, FlipPre n gs A v b ∧ R = setAt A v (!b) := by
  unfold flipDue at h
  obtain ⟨⟨v, b⟩, hmem, hf⟩ := List.exists_of_findSome?_eq_some h
  simp only at hf
  split at hf
  · rename_i hc
    simp only [Bool.and_eq_true] at hc
    obtain ⟨⟨h1, h2⟩, h3⟩ := hc
    refine ⟨v, b, ⟨hA, ?_, by simpa using h1, hgs, List.contains_iff_mem.mp h2, ?_⟩, (Option.some.inj hf).symm⟩
    · simp only [List.mem_flatMap, List.mem_range] at hmem
      obtain ⟨w, hw, hin⟩ := hmem
      simp only [List.mem_cons, Prod.mk.injEq, List.not_mem_nil, or_false] at hin
      rcases hin with ⟨rfl, _⟩ | ⟨rfl, _⟩ <;> exact hw
    · intro g hg
      rw [List.all_eq_true] at h3
      have := h3 g hg
      rw [Bool.or_eq_true] at this
      rcases this with hcl | hsub
      · exact Or.inl ((closedBy_iff g A).mp hcl)
      · exact Or.inr ((subPA_iff _ g).mp hsub)
  · cases hf

/-- **meaning of the store check**: the stored nogoods exclude exactly the total assignments the
added ones exclude -/
theorem storeViolations_nil {n : Nat} {gs stored : List PA} (hgs : ∀ g ∈ gs, g.length ≤ n)
    (hst : ∀ g ∈ stored, g.length ≤ n) :
    storeViolations n gs stored = [] ↔ ∀ σ, ExcludedBy stored σ ↔ ExcludedBy gs σ := by
  have hcut : ∀ (l : List PA), (∀ g ∈ l, g.length ≤ n) → ∀ σ, ExcludedBy l (asg (cut n σ)) ↔ ExcludedBy l σ := by
    intro l hl σ
    constructor
    · rintro ⟨g, hg, hm⟩; exact ⟨g, hg, (matches_cut (hl g hg) σ).mp hm⟩
    · rintro ⟨g, hg, hm⟩; exact ⟨g, hg, (matches_cut (hl g hg) σ).mpr hm⟩
  unfold storeViolations
  constructor
  · intro h σ
    cases hf : (totals n).find? (fun t => excludedT stored t != excludedT gs t) with
    | some t => rw [hf] at h; simp at h
    | none =>
      rw [List.find?_eq_none] at hf
      have := hf _ (cut_mem_totals n σ)
      have heq : excludedT stored (cut n σ) = excludedT gs (cut n σ) := by simpa using this
      rw [← hcut stored hst σ, ← hcut gs hgs σ, ← excludedT_iff, ← excludedT_iff, heq]
  · intro h
    have : (totals n).find? (fun t => excludedT stored t != excludedT gs t) = none := by
      rw [List.find?_eq_none]
      intro t _
      have := h (asg t)
      rw [← excludedT_iff, ← excludedT_iff] at this
      have heq : excludedT stored t = excludedT gs t := by rw [Bool.eq_iff_iff]; exact this
      simp [heq]
    rw [this]

end NgSpec

namespace NgSpec

/-- the model's answer in the vocabulary of the specification -/
def ofClosure : Closure → ClosureAns
  | .update r => .update r
  | .noUpdate => .noUpdate
  | .inconsistent => .inconsistent

theorem excludedBy_flatten (bs : List (List PA)) (σ : Asg) : ExcludedBy bs.flatten σ ↔ Excluded bs σ := by
  unfold ExcludedBy Excluded
  constructor
  · rintro ⟨g, hg, hm⟩
    obtain ⟨b, hb, hgb⟩ := List.mem_flatten.mp hg
    exact ⟨g, stored_iff_mem.mpr ⟨b, hb, hgb⟩, hm⟩
  · rintro ⟨g, hs, hm⟩
    obtain ⟨b, hb, hgb⟩ := stored_iff_mem.mp hs
    exact ⟨g, List.mem_flatten.mpr ⟨b, hb, hgb⟩, hm⟩

end NgSpec
