import AdfObdd.StoreIte
import AdfObdd.Lfp
/-! prototype 13: the state-passing grounded loop on any restriction algebra, the Store
    instance, and C01 for the native back-end -/

/-! ### the loop, generic -/
section
variable {S T : Type} (A : RA S T)

def countConst (v : List T) : Nat := countSome (asg3 A v)

def groundedLoop : Nat → S → List T → S × List T
  | 0, s, v => (s, v)
  | f+1, s, v =>
    let r := roundAux A s v v
    if countConst A r.2 = countConst A v then r else groundedLoop f r.1 r.2

theorem groundedLoop_sem : ∀ (fuel : Nat) (s : S) (v : List T), A.Inv s → AllValid A s v →
    A.Inv (groundedLoop A fuel s v).1 ∧ A.Le s (groundedLoop A fuel s v).1 ∧
    AllValid A (groundedLoop A fuel s v).1 (groundedLoop A fuel s v).2 ∧
    (groundedLoop A fuel s v).2.map (A.den (groundedLoop A fuel s v).1) = semLoop fuel (v.map (A.den s)) := by
  intro fuel
  induction fuel with
  | zero => intro s v hi hv; exact ⟨hi, A.le_refl s, hv, rfl⟩
  | succ f ih =>
    intro s v hi hv
    have ⟨i1, l1, v1, d1⟩ := round_sem A s v hi hv
    unfold groundedLoop semLoop
    simp only
    have c1 : countConst A (roundAux A s v v).2 = countSome ((semRound (v.map (A.den s))).map constOf) := by
      unfold countConst; rw [asg3_eq A i1 v1, d1]
    have c2 : countConst A v = countSome ((v.map (A.den s)).map constOf) := by
      unfold countConst; rw [asg3_eq A hi hv]
    by_cases hc : countConst A (roundAux A s v v).2 = countConst A v
    · rw [if_pos hc, if_pos (by rw [← c1, ← c2]; exact hc)]
      exact ⟨i1, l1, v1, d1⟩
    · rw [if_neg hc, if_neg (by rw [← c1, ← c2]; exact hc)]
      have ⟨i2, l2, v2, d2⟩ := ih _ _ i1 v1
      exact ⟨i2, A.le_trans l1 l2, v2, by rw [d2, d1]⟩

/-- C01, generic: the decided part of the result is a fixpoint of Γ below every fixpoint -/
theorem grounded_correct (fuel : Nat) (s : S) (ac : List T) (hi : A.Inv s) (hv : AllValid A s ac)
    (hf : ac.length < fuel) :
    let D := ac.map (A.den s)
    let w := asg3 A (groundedLoop A fuel s ac).2
    Gam D w = w ∧ ∀ w', Gam D w' = w' → Le3 w w' := by
  intro D w
  have ⟨i1, _, v1, d1⟩ := groundedLoop_sem A fuel s ac hi hv
  have hw : w = cv (semLoop fuel D) := by
    show asg3 A _ = _
    rw [asg3_eq A i1 v1, d1]
  rw [hw]
  exact grounded_sem D fuel (by simpa [D] using hf)
end

/-! ### the Store instance -/

def storeIsConst (t : Nat) : Option Bool := if t = 0 then some false else if t = 1 then some true else none

def StoreRA : RA Store Nat where
  Inv := WF
  Valid := fun s t => t < s.nodes.size
  den := eval
  Le := Ext
  le_refl := Ext.refl
  le_trans := Ext.trans
  valid_mono := fun l h => Nat.lt_of_lt_of_le h l.1
  den_mono := fun hi l hv => by funext σ; exact eval_ext hi l _ σ hv
  restrict := fun s t v b => restrictF (t+1) s t v b
  restrict_spec := fun v b hi hv => by
    have ⟨a, b', c, _, e⟩ := restrictF_spec _ _ _ v b hi hv (Nat.lt_succ_self _)
    exact ⟨a, b', c, funext e⟩
  isConst := storeIsConst
  isConst_spec := fun {s t} b hi hv => by
    unfold storeIsConst
    constructor
    · intro h
      by_cases h0 : t = 0
      · subst h0; simp at h; subst h; intro σ; exact eval_zero s σ
      · rw [if_neg h0] at h
        by_cases h1 : t = 1
        · subst h1; simp at h; subst h; intro σ; exact eval_one s σ
        · rw [if_neg h1] at h; cases h
    · intro h
      cases b with
      | false =>
        have : t = 0 := (canonical s hi t 0 hv (by have := hi.len; omega)).mp
          (fun σ => by rw [h σ, eval_zero])
        subst this; simp
      | true =>
        have : t = 1 := (canonical s hi t 1 hv (by have := hi.len; omega)).mp
          (fun σ => by rw [h σ, eval_one])
        subst this; simp

/-- C01 for the native back-end: `grounded_internal` on the real store model -/
theorem grounded_native (fuel : Nat) (s : Store) (ac : List Nat) (w : WF s)
    (hv : ∀ t ∈ ac, t < s.nodes.size) (hf : ac.length < fuel) :
    let D := ac.map (eval s)
    let g := (groundedLoop StoreRA fuel s ac).2.map storeIsConst
    Gam D g = g ∧ ∀ w', Gam D w' = w' → Le3 g w' :=
  grounded_correct StoreRA fuel s ac w hv hf
#print axioms grounded_native
