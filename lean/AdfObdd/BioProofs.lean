import AdfObdd.BioModel
import AdfObdd.StableExact
import AdfObdd.TTSpec
import AdfObdd.Props.C20
import AdfObdd.Spec.Adf
/-! # The biodivine back-end's own algorithms are exact, for every lawful library

`Bio.Lawful` (BioModel.lean) is the assumption about `biodivine_lib_bdd`; everything else is proved:

* `restrict_den`: the library's `restrict` by the decided entries of a vector is the cofactor by that
  vector (the LAW `Lawful.restrict_spec` instantiated for the three variable lists of the file);
  `restrictSE_den`: the shadowed `BddRestrict::restrict` of the file (select, then project; dead code)
  denotes the same cofactor - DERIVED from the laws of `select` and `exists`, kept as a lemma;
* `groundedInternal_lfp`, `groundedLoopB_fuel`: `grounded_internal` computes the least fixpoint of Γ
  and its unbounded `loop` reaches the `break` within `length + 1` rounds;
* `completeTest_iff`, `stableTest_iff`: the filter of `complete` is "fixpoint of Γ", the filter of
  `stable` / `stable_bdd_representation` is the definition of a stable model;
* `repFn_iff_model`, `stmRewriting_den`, `rewFn_of_model`, `rewritings_same_function`: the
  satisfying valuations of `stable_representation()` are exactly the two-valued models; the
  rewriting prepared at construction is implied by "is a model" when no statement has two
  conditions, and is the same function when every statement has exactly one;
* `bioComplete_exact`, `bioStable_exact`, `stableFilter_of_candidates`, `bioStableRep_exact`,
  `nativeStableRep_exact`: the enumerations are exact and duplicate free;
* `ttLawful`: the computable truth-table library satisfies the assumption (`fnLawful`, the ideal
  one, is in BioModel.lean).

Reused: `grounded_sem` (Lfp), `stable_check_iff` (Stable), `lift_spec`, `refinement_inj`
(CompleteExact), `lift_completion`, `fold_filter`, `sstep_spec`, `verdict_iff` (StableExact), the
iterator theorems of C20, the table lemmas of TTSpec. -/
open IterFull CompleteExact

namespace Bio

/-! ## select, then project = cofactor -/

theorem all_congr_mem {α : Type} {p q : α → Bool} : ∀ (l : List α), (∀ x ∈ l, p x = q x) → l.all p = l.all q := by
  intro l
  induction l with
  | nil => intro _; rfl
  | cons a l ih =>
    intro h
    rw [List.all_cons, List.all_cons, h a (List.mem_cons_self ..),
      ih (fun x hx => h x (List.mem_cons_of_mem _ hx))]

theorem ex1_sel_cons (f : BoolFn) (v : Nat) (b : Bool) (l : List (Nat × Bool))
    (hv : ∀ p ∈ l, p.1 ≠ v) :
    ex1 (sel f ((v, b) :: l)) v = sel (fun σ => f (upd σ v b)) l := by
  funext σ
  have key : ∀ c, l.all (fun p => upd σ v c p.1 == p.2) = l.all (fun p => σ p.1 == p.2) := by
    intro c
    apply all_congr_mem
    intro p hp
    simp [upd, hv p hp]
  have e : ∀ c, upd σ v c v = c := by intro c; simp [upd]
  simp only [ex1, sel, List.all_cons, key, e]
  cases b <;> simp

theorem exL_sel : ∀ (l : List (Nat × Bool)) (f : BoolFn), (l.map (·.1)).Nodup →
    exL (sel f l) (l.map (·.1)) = fun σ => f (updL σ l) := by
  intro l
  induction l with
  | nil => intro f _; funext σ; simp [exL, sel, updL]
  | cons p l ih =>
    intro f hnd
    obtain ⟨v, b⟩ := p
    have hnd' : v ∉ l.map (·.1) ∧ (l.map (·.1)).Nodup := by simpa using hnd
    have hv : ∀ p ∈ l, p.1 ≠ v := by
      intro p hp he
      exact hnd'.1 (List.mem_map.mpr ⟨p, hp, he⟩)
    have := ih (fun σ => f (upd σ v b)) hnd'.2
    simp only [List.map_cons, exL, List.foldl_cons] at *
    rw [ex1_sel_cons f v b l hv, this]
    rfl

/-- the decided entries of a three-valued vector as a variable list, positions from `k` -/
def vlOf : Nat → I3 → List (Nat × Bool)
  | _, [] => []
  | k, none :: w => vlOf (k+1) w
  | k, some b :: w => (k, b) :: vlOf (k+1) w

theorem updL_vlOf : ∀ (w : I3) (k : Nat) (σ : Asg), updL σ (vlOf k w) = over σ k w := by
  intro w
  induction w with
  | nil => intro k σ; rfl
  | cons a w ih =>
    intro k σ
    cases a with
    | none => simp only [vlOf, over]; exact ih (k+1) σ
    | some b =>
      simp only [vlOf, over, updL]
      rw [ih (k+1) σ, over_upd w σ k (k+1) b (by omega)]

theorem vlOf_range : ∀ (w : I3) (k : Nat) (p : Nat × Bool), p ∈ vlOf k w → k ≤ p.1 ∧ p.1 < k + w.length := by
  intro w
  induction w with
  | nil => intro k p h; simp [vlOf] at h
  | cons a w ih =>
    intro k p h
    cases a with
    | none =>
      have := ih (k+1) p (by simpa [vlOf] using h)
      simp only [List.length_cons]; omega
    | some b =>
      simp only [vlOf, List.mem_cons] at h
      rcases h with h | h
      · subst h; simp only [List.length_cons]; omega
      · have := ih (k+1) p h
        simp only [List.length_cons]; omega

theorem vlOf_nodup : ∀ (w : I3) (k : Nat), ((vlOf k w).map (·.1)).Nodup := by
  intro w
  induction w with
  | nil => intro k; simp [vlOf]
  | cons a w ih =>
    intro k
    cases a with
    | none => simpa [vlOf] using ih (k+1)
    | some b =>
      simp only [vlOf, List.map_cons, List.nodup_cons]
      refine ⟨?_, ih (k+1)⟩
      intro h
      obtain ⟨p, hp, he⟩ := List.mem_map.mp h
      have := (vlOf_range w (k+1) p hp).1
      omega

/-- the generic shape of the three variable-list constructions of the file -/
theorem zipIdx_filter_map {α : Type} (g : α → Option Bool) : ∀ (l : List α) (k : Nat),
    ((l.zipIdx k).filter (fun p => (g p.1).isSome)).map (fun p => (p.2, (g p.1).getD false)) =
      vlOf k (l.map g) := by
  intro l
  induction l with
  | nil => intro k; rfl
  | cons a l ih =>
    intro k
    rw [List.zipIdx_cons, List.map_cons]
    cases hg : g a with
    | none => simp [hg, vlOf, ih]
    | some b => simp [hg, vlOf, ih]

section lib
variable {T : Type} {L : Lib T} {nv : Nat} (W : Lawful L nv)

theorem isTV_eq (t : T) : L.isTV t = (L.isConst t).isSome := by
  unfold Lib.isTV Lib.isConst
  cases L.isTrue t <;> cases L.isFalse t <;> rfl

theorem isConst_eq (t : T) (hv : W.Valid t) : L.isConst t = constOf (W.den t) := by
  unfold Lib.isConst
  by_cases h1 : L.isTrue t = true
  · rw [if_pos h1]; exact (constOf_some.mpr ((W.isTrue_spec t hv).mp h1)).symm
  · rw [if_neg h1]
    by_cases h2 : L.isFalse t = true
    · rw [if_pos h2]; exact (constOf_some.mpr ((W.isFalse_spec t hv).mp h2)).symm
    · rw [if_neg h2]
      cases hc : constOf (W.den t) with
      | none => rfl
      | some b =>
        cases b with
        | true => exact absurd ((W.isTrue_spec t hv).mpr (constOf_some.mp hc)) h1
        | false => exact absurd ((W.isFalse_spec t hv).mpr (constOf_some.mp hc)) h2

theorem map_isConst (v : List T) (hv : ∀ x ∈ v, W.Valid x) :
    v.map L.isConst = (v.map W.den).map constOf := by
  rw [List.map_map]
  apply List.map_congr_left
  intro x hx; exact isConst_eq W x (hv x hx)

theorem toTerm_info (t : T) : storeIsConst (toTerm L t) = L.isConst t := by
  unfold toTerm Lib.isConst
  cases L.isTrue t <;> cases L.isFalse t <;> rfl

theorem cmpInfo_eq (x : Nat) (t : T) : cmpInfo L x t = (storeIsConst x == L.isConst t) := by
  unfold cmpInfo Lib.isTV Lib.isConst storeIsConst isTV
  by_cases h0 : x = 0
  · subst h0; cases L.isTrue t <;> cases L.isFalse t <;> rfl
  · by_cases h1 : x = 1
    · subst h1; cases L.isTrue t <;> cases L.isFalse t <;> rfl
    · have h2 : ¬ x < 2 := by omega
      cases L.isTrue t <;> cases L.isFalse t <;> simp [h0, h1, h2]

theorem varList_eq (cur : List T) : varList L cur = vlOf 0 (cur.map L.isConst) := by
  rw [← zipIdx_filter_map L.isConst cur 0]
  unfold varList
  have e1 : (fun p : T × Nat => L.isTV p.1) = (fun p => (L.isConst p.1).isSome) := by
    funext p; exact isTV_eq p.1
  rw [e1]
  apply List.map_congr_left
  intro p hp
  have := (List.mem_filter.mp hp).2
  unfold Lib.isConst at *
  cases h1 : L.isTrue p.1 <;> cases h2 : L.isFalse p.1 <;> simp_all

theorem varListTerm_eq (c : List Nat) : varListTerm c = vlOf 0 (c.map storeIsConst) := by
  rw [← zipIdx_filter_map storeIsConst c 0]
  unfold varListTerm
  have e1 : (fun p : Nat × Nat => isTV p.1) = (fun p => (storeIsConst p.1).isSome) := by
    funext p
    unfold isTV storeIsConst
    by_cases h0 : p.1 = 0
    · simp [h0]
    · by_cases h1 : p.1 = 1
      · simp [h1]
      · have : ¬ p.1 < 2 := by omega
        simp [h0, h1, this]
  rw [e1]
  apply List.map_congr_left
  intro p hp
  have := (List.mem_filter.mp hp).2
  unfold storeIsConst at *
  by_cases h0 : p.1 = 0
  · simp [h0]
  · by_cases h1 : p.1 = 1
    · simp [h1]
    · simp [h0, h1] at this

theorem falseList_eq (c : List Nat) : falseList c = vlOf 0 (falsePart (c.map storeIsConst)) := by
  unfold falsePart
  rw [List.map_map, ← zipIdx_filter_map _ c 0]
  unfold falseList
  have e1 : (fun p : Nat × Nat => isTV p.1 && !(p.1 == 1)) =
      (fun p => (((fun x => if x = some false then some false else none) ∘ storeIsConst) p.1).isSome) := by
    funext p
    simp only [Function.comp, isTV, storeIsConst]
    by_cases h0 : p.1 = 0
    · simp [h0]
    · by_cases h1 : p.1 = 1
      · simp [h1]
      · have : ¬ p.1 < 2 := by omega
        simp [h0, h1, this]
  rw [e1]
  apply List.map_congr_left
  intro p hp
  have := (List.mem_filter.mp hp).2
  simp only [Function.comp, storeIsConst] at *
  by_cases h0 : p.1 = 0
  · simp [h0]
  · by_cases h1 : p.1 = 1
    · simp [h1] at this
    · simp [h0, h1] at this

/-- the shadowed `impl BddRestrict` (select, then project; never executed) by the decided entries of
`w` is the cofactor - derived from the laws of `select` and `exists` -/
theorem restrictSE_den (t : T) (w : I3) (k : Nat) (hv : W.Valid t) (hk : k + w.length ≤ nv) :
    W.Valid (restrictSE L t (vlOf k w)) ∧
    W.den (restrictSE L t (vlOf k w)) = fun σ => W.den t (over σ k w) := by
  have hlt : ∀ p ∈ vlOf k w, p.1 < nv := fun p hp => by
    have := (vlOf_range w k p hp).2; omega
  have ⟨v1, d1⟩ := W.select_spec t (vlOf k w) hv hlt
  have ⟨v2, d2⟩ := W.exist_spec (L.select t (vlOf k w)) ((vlOf k w).map (·.1)) v1
    (fun v hv' => by
      obtain ⟨p, hp, he⟩ := List.mem_map.mp hv'
      rw [← he]; exact hlt p hp)
  refine ⟨v2, ?_⟩
  unfold restrictSE
  rw [d2, d1, exL_sel _ _ (vlOf_nodup w k)]
  funext σ
  rw [updL_vlOf]

/-- `ac.restrict(..)` (the library's inherent `restrict`, law `restrict_spec`) by the decided entries
of `w` is the cofactor -/
theorem restrict_den (t : T) (w : I3) (k : Nat) (hv : W.Valid t) (hk : k + w.length ≤ nv) :
    W.Valid (restrict L t (vlOf k w)) ∧
    W.den (restrict L t (vlOf k w)) = fun σ => W.den t (over σ k w) := by
  have hlt : ∀ p ∈ vlOf k w, p.1 < nv := fun p hp => by
    have := (vlOf_range w k p hp).2; omega
  have ⟨v1, d1⟩ := W.restrict_spec t (vlOf k w) hv hlt (vlOf_nodup w k)
  refine ⟨v1, ?_⟩
  unfold restrict
  rw [d1]
  funext σ
  rw [updL_vlOf]

/-- the executed operation and the shadowed composition denote the same function (for every lawful
library; on a function-canonical representation the diagrams then coincide) -/
theorem restrict_restrictSE_den (t : T) (w : I3) (k : Nat) (hv : W.Valid t) (hk : k + w.length ≤ nv) :
    W.den (restrict L t (vlOf k w)) = W.den (restrictSE L t (vlOf k w)) := by
  rw [(restrict_den W t w k hv hk).2, (restrictSE_den W t w k hv hk).2]

/-! ## `grounded_internal` -/

theorem countSome_cons' (a : Option Bool) (w : I3) :
    countSome (a :: w) = (if a.isSome then 1 else 0) + countSome w := countSome_cons a w

/-- one round: valid results, the denotations of `semRound`, and the flag says whether the
number of decided entries has grown -/
theorem roundGo_spec (cur : List T) (hl : cur.length ≤ nv) :
    ∀ (xs : List T), (∀ x ∈ xs, W.Valid x) →
    (∀ y ∈ (roundGo L (varList L cur) xs).1, W.Valid y) ∧
    (roundGo L (varList L cur) xs).1.map W.den =
      xs.map (fun x σ => W.den x (over σ 0 (cur.map L.isConst))) ∧
    countSome (xs.map L.isConst) ≤ countSome ((roundGo L (varList L cur) xs).1.map L.isConst) ∧
    ((roundGo L (varList L cur) xs).2 = false ↔
      countSome ((roundGo L (varList L cur) xs).1.map L.isConst) = countSome (xs.map L.isConst)) := by
  intro xs
  induction xs with
  | nil => intro _; simp [roundGo]
  | cons x xs ih =>
    intro hx
    have hxv : W.Valid x := hx x (List.mem_cons_self ..)
    have ⟨i1, i2, i3, i4⟩ := ih (fun y hy => hx y (List.mem_cons_of_mem _ hy))
    unfold roundGo
    by_cases ht : L.isTV x = true
    · simp only [ht, if_true]
      refine ⟨?_, ?_, ?_, ?_⟩
      · intro y hy
        rcases List.mem_cons.mp hy with h | h
        · subst h; exact hxv
        · exact i1 y h
      · simp only [List.map_cons, i2]
        congr 1
        rw [isTV_eq, Option.isSome_iff_exists] at ht
        obtain ⟨b, hb⟩ := ht
        rw [isConst_eq W x hxv] at hb
        have := constOf_some.mp hb
        funext σ; rw [this, this]
      · simp only [List.map_cons, countSome_cons']; omega
      · simp only [List.map_cons, countSome_cons']
        rw [i4]; omega
    · simp only [ht, Bool.false_eq_true, if_false]
      have hl' : 0 + (cur.map L.isConst).length ≤ nv := by simpa using hl
      have ⟨rv, rd⟩ := restrict_den W x (cur.map L.isConst) 0 hxv hl'
      rw [← varList_eq] at rv rd
      have hxn : L.isConst x = none := by
        rw [isTV_eq] at ht
        cases h : L.isConst x with
        | none => rfl
        | some b => rw [h] at ht; simp at ht
      refine ⟨?_, ?_, ?_, ?_⟩
      · intro y hy
        rcases List.mem_cons.mp hy with h | h
        · subst h; exact rv
        · exact i1 y h
      · simp only [List.map_cons, i2, rd]
      · simp only [List.map_cons, countSome_cons', hxn]
        simp only [Option.isSome_none, Bool.false_eq_true, if_false]; omega
      · simp only [List.map_cons, countSome_cons', hxn, isTV_eq]
        simp only [Option.isSome_none, Bool.false_eq_true, if_false, Bool.or_eq_false_iff]
        cases hy : (L.isConst (restrict L x (varList L cur))).isSome
        · simp only [Bool.false_eq_true, if_false, true_and]
          rw [i4]; omega
        · simp only [if_true]
          constructor
          · intro h; cases h.1
          · intro h; omega

theorem bioRound_length (v : List T) : (bioRound L v).1.length = v.length := by
  unfold bioRound
  generalize varList L v = vl
  induction v with
  | nil => rfl
  | cons x xs ih =>
    unfold roundGo
    by_cases ht : L.isTV x = true
    · simp [ht, ih]
    · simp [ht, ih]

theorem bioRound_sem (v : List T) (hv : ∀ x ∈ v, W.Valid x) (hl : v.length ≤ nv) :
    (∀ y ∈ (bioRound L v).1, W.Valid y) ∧
    (bioRound L v).1.map W.den = semRound (v.map W.den) ∧
    ((bioRound L v).2 = false ↔
      countSome ((semRound (v.map W.den)).map constOf) = countSome ((v.map W.den).map constOf)) := by
  have ⟨a, b, _, d⟩ := roundGo_spec W v hl v hv
  refine ⟨a, ?_, ?_⟩
  · show (roundGo L (varList L v) v).1.map W.den = _
    rw [b, semRound, List.map_map, map_isConst W v hv]
    rfl
  · show (roundGo L (varList L v) v).2 = false ↔ _
    rw [d, map_isConst W _ a, map_isConst W v hv, b]
    have : semRound (v.map W.den) = v.map (fun x σ => W.den x (over σ 0 (v.map L.isConst))) := by
      rw [semRound, List.map_map, map_isConst W v hv]; rfl
    rw [this]

theorem groundedLoopB_sem : ∀ (fuel : Nat) (v : List T), (∀ x ∈ v, W.Valid x) → v.length ≤ nv →
    (∀ y ∈ groundedLoopB L fuel v, W.Valid y) ∧ (groundedLoopB L fuel v).length = v.length ∧
    (groundedLoopB L fuel v).map W.den = semLoop fuel (v.map W.den) := by
  intro fuel
  induction fuel with
  | zero => intro v hv _; exact ⟨hv, rfl, rfl⟩
  | succ f ih =>
    intro v hv hl
    have ⟨a, b, c⟩ := bioRound_sem W v hv hl
    have hlen := bioRound_length (L := L) v
    unfold groundedLoopB semLoop
    simp only
    by_cases hf : (bioRound L v).2 = true
    · have hne : ¬ countSome ((semRound (v.map W.den)).map constOf) = countSome ((v.map W.den).map constOf) := by
        intro h; rw [← c, hf] at h; cases h
      rw [if_pos hf, if_neg hne]
      have ⟨a2, b2, c2⟩ := ih _ a (by omega)
      exact ⟨a2, by omega, by rw [c2, b]⟩
    · have hf' : (bioRound L v).2 = false := by simpa using hf
      rw [if_neg hf, if_pos (c.mp hf')]
      exact ⟨a, hlen, b⟩

/-- the information values of the result of `grounded_internal` are the least fixpoint of Γ -/
theorem groundedInternal_lfp (ac : List T) (hv : ∀ x ∈ ac, W.Valid x) (hl : ac.length ≤ nv) :
    (∀ y ∈ groundedInternal L ac, W.Valid y) ∧ (groundedInternal L ac).length = ac.length ∧
    IsLfp (ac.map W.den) ((groundedInternal L ac).map L.isConst) := by
  have ⟨a, b, c⟩ := groundedLoopB_sem W (ac.length + 1) ac hv hl
  refine ⟨a, b, ?_⟩
  unfold groundedInternal
  rw [map_isConst W _ a, c]
  have := grounded_sem (ac.map W.den) (ac.length + 1) (by simp)
  exact this

/-! the bound on the number of rounds is no restriction: every larger bound gives the same vector,
i.e. the unbounded `loop` of the Rust code reaches its `break` within `length + 1` rounds -/

def nonTV (L : Lib T) (v : List T) : Nat := (v.filter (fun x => !L.isTV x)).length

theorem roundGo_nonTV (vl : List (Nat × Bool)) : ∀ (xs : List T),
    nonTV L (roundGo L vl xs).1 ≤ nonTV L xs ∧
    ((roundGo L vl xs).2 = true → nonTV L (roundGo L vl xs).1 < nonTV L xs) := by
  intro xs
  induction xs with
  | nil => simp [roundGo, nonTV]
  | cons x xs ih =>
    unfold roundGo
    by_cases ht : L.isTV x = true
    · simp only [ht, if_true, nonTV, List.filter_cons, Bool.not_true, Bool.false_eq_true, if_false]
      exact ih
    · have ht' : L.isTV x = false := by simpa using ht
      simp only [ht', Bool.false_eq_true, if_false, nonTV, List.filter_cons, Bool.not_false, if_true,
        List.length_cons]
      unfold nonTV at ih
      cases hy : L.isTV (restrict L x vl)
      · simp only [Bool.not_false, if_true, List.length_cons, Bool.false_or]
        exact ⟨by omega, fun h => by have := ih.2 h; omega⟩
      · simp only [Bool.not_true, Bool.false_eq_true, if_false, Bool.true_or, forall_const]
        exact ⟨by omega, by omega⟩

theorem groundedLoopB_step (f : Nat) (v : List T) :
    groundedLoopB L (f+1) v =
      if (bioRound L v).2 = true then groundedLoopB L f (bioRound L v).1 else (bioRound L v).1 := rfl

theorem groundedLoopB_succ : ∀ (f : Nat) (v : List T), nonTV L v < f →
    groundedLoopB L (f+1) v = groundedLoopB L f v := by
  intro f
  induction f with
  | zero => intro v h; omega
  | succ f ih =>
    intro v h
    have hr := roundGo_nonTV (L := L) (varList L v) v
    rw [groundedLoopB_step (f+1) v, groundedLoopB_step f v]
    by_cases hf : (bioRound L v).2 = true
    · rw [if_pos hf, if_pos hf]
      apply ih
      have := hr.2 hf
      unfold bioRound; omega
    · rw [if_neg hf, if_neg hf]

/-- fuel irrelevance of `grounded_internal`'s model -/
theorem groundedLoopB_fuel (v : List T) (fuel : Nat) (hf : v.length < fuel) :
    groundedLoopB L fuel v = groundedInternal L v := by
  unfold groundedInternal
  have hn : nonTV L v ≤ v.length := List.length_filter_le _ _
  obtain ⟨d, rfl⟩ : ∃ d, fuel = v.length + 1 + d := ⟨fuel - (v.length + 1), by omega⟩
  induction d with
  | zero => rfl
  | succ d ih =>
    rw [show v.length + 1 + (d + 1) = (v.length + 1 + d) + 1 by omega,
      groundedLoopB_succ _ v (by omega)]
    exact ih (by omega)


/-! ## the two filters -/

/-- the filter of `Adf::complete` accepts a vector of the right length iff its information values
are a fixpoint of Γ -/
theorem completeTest_iff (ac : List T) (c : List Nat) (hv : ∀ x ∈ ac, W.Valid x) (hn : ac.length ≤ nv)
    (hl : c.length = ac.length) :
    completeTest L ac c = true ↔ Gam (ac.map W.den) (c.map storeIsConst) = c.map storeIsConst := by
  have hk : 0 + (c.map storeIsConst).length ≤ nv := by simp; omega
  have entry : ∀ i a, ac[i]? = some a →
      (cmpInfo L (c.getD i 2) (restrict L a (varListTerm c)) = true ↔
        (Gam (ac.map W.den) (c.map storeIsConst))[i]? = (c.map storeIsConst)[i]?) := by
    intro i a hi
    have hav : W.Valid a := hv a (List.mem_of_getElem? hi)
    have ⟨rv, rd⟩ := restrict_den W a (c.map storeIsConst) 0 hav hk
    rw [← varListTerm_eq] at rv rd
    have hil : i < c.length := by
      rw [hl]
      rcases Nat.lt_or_ge i ac.length with h | h
      · exact h
      · rw [List.getElem?_eq_none h] at hi; cases hi
    rw [cmpInfo_eq, isConst_eq W _ rv, rd, Gam_get _ _ i (W.den a) (by simp [hi])]
    rw [List.getElem?_map, List.getElem?_eq_getElem hil, Option.map_some]
    have : c.getD i 2 = c[i] := by simp [List.getD, List.getElem?_eq_getElem hil]
    rw [this]
    simp only [beq_iff_eq, Option.some.injEq]
    exact eq_comm
  unfold completeTest
  rw [List.all_eq_true]
  constructor
  · intro h
    apply List.ext_getElem?
    intro i
    by_cases hi : i < ac.length
    · have hi' : ac[i]? = some ac[i] := List.getElem?_eq_getElem hi
      exact (entry i _ hi').mp (h (ac[i], i) (List.mem_zipIdx_iff_getElem?.mpr hi'))
    · rw [List.getElem?_eq_none (by simp [Gam]; omega), List.getElem?_eq_none (by simp; omega)]
  · intro h p hp
    obtain ⟨a, i⟩ := p
    have hi : ac[i]? = some a := List.mem_zipIdx_iff_getElem?.mp hp
    exact (entry i a hi).mpr (by rw [h])

theorem zip_all_cmp : ∀ (l1 : List Nat) (l2 : List T), l1.length = l2.length →
    ((l1.zip l2).all (fun p => cmpInfo L p.1 p.2) = true ↔ l1.map storeIsConst = l2.map L.isConst) := by
  intro l1
  induction l1 with
  | nil => intro l2 h; cases l2 with | nil => simp | cons _ _ => simp at h
  | cons a l1 ih =>
    intro l2 h
    cases l2 with
    | nil => simp at h
    | cons b l2 =>
      have := ih l2 (by simpa using h)
      rw [List.zip_cons_cons, List.all_cons, Bool.and_eq_true, this, List.map_cons, List.map_cons,
        List.cons.injEq, cmpInfo_eq]
      simp

/-- the reduct: restricting every condition by the candidate's false statements -/
theorem reduct_den (ac : List T) (c : List Nat) (hv : ∀ x ∈ ac, W.Valid x) (hn : ac.length ≤ nv)
    (hl : c.length = ac.length) :
    (∀ x ∈ ac.map (fun a => restrict L a (falseList c)), W.Valid x) ∧
    (ac.map (fun a => restrict L a (falseList c))).map W.den =
      redu (ac.map W.den) (c.map storeIsConst) := by
  have hk : 0 + (falsePart (c.map storeIsConst)).length ≤ nv := by simp [falsePart]; omega
  constructor
  · intro x hx
    obtain ⟨a, ha, rfl⟩ := List.mem_map.mp hx
    have := (restrict_den W a _ 0 (hv a ha) hk).1
    rwa [← falseList_eq] at this
  · simp only [redu, List.map_map]
    apply List.map_congr_left
    intro a ha
    have := (restrict_den W a _ 0 (hv a ha) hk).2
    rw [← falseList_eq] at this
    exact this

/-- the filter of `Adf::stable` / `stable_bdd_representation` decides the definition of a stable
model on every total candidate of the right length -/
theorem stableTest_iff (ac : List T) (c : List Nat) (hv : ∀ x ∈ ac, W.Valid x) (hn : ac.length ≤ nv)
    (hl : c.length = ac.length) (ht : ∀ i, i < c.length → c.getD i 0 < 2) :
    stableTest L ac c = true ↔ StableExact.StableI (ac.map W.den) (c.map storeIsConst) := by
  have ⟨rv, rd⟩ := reduct_den W ac c hv hn hl
  generalize hred : ac.map (fun a => restrict L a (falseList c)) = red at rv rd
  have hrl : red.length = ac.length := by rw [← hred]; simp
  have ⟨_, gl, glfp⟩ := groundedInternal_lfp W red rv (by omega)
  rw [rd] at glfp
  have e : stableTest L ac c = (c.zip (groundedInternal L red)).all (fun p => cmpInfo L p.1 p.2) := by
    unfold stableTest; rw [hred]
  rw [e, zip_all_cmp c _ (by omega)]
  have htot := StableExact.total_of_lt2 c ht
  have hchk := stable_check_iff (ac.map W.den) (c.map storeIsConst)
    ((groundedInternal L red).map L.isConst) (by simp [hl]) htot glfp
  constructor
  · intro he
    have ⟨hm, _⟩ := hchk.mp he.symm
    refine ⟨htot, hm, ?_⟩
    intro w hw' i hi
    rw [StableExact.lfp_unique _ _ _ hw' glfp, ← he]; exact hi
  · intro ⟨_, hm, htr⟩
    exact (hchk.mpr ⟨hm, htr _ glfp⟩).symm

end lib

/-! ## enumerate-and-filter, generically in the filter -/

theorem lfp_len {D : List BoolFn} {g : I3} (h : IsLfp D g) : g.length = D.length := by
  have := congrArg List.length h.1
  rw [Gam_length] at this; omega

/-- three-valued iterator over a vector whose information values are the least fixpoint, filtered
by "fixpoint of Γ": no duplicate, exactly the fixpoints of Γ, the vector itself first -/
theorem complete_answers (D : List BoolFn) (g : List Nat) (hg : IsLfp D (g.map storeIsConst))
    (p : List Nat → Bool)
    (hp : ∀ c, isRefinement c g → (p c = true ↔ Gam D (c.map storeIsConst) = c.map storeIsConst)) :
    (((threeValAll g).filter p).map (fun v => v.map storeIsConst)).Nodup ∧
    (∀ w : I3, w ∈ ((threeValAll g).filter p).map (fun v => v.map storeIsConst) ↔
      (w.length = D.length ∧ Gam D w = w)) ∧
    ((threeValAll g).filter p).head? = some g := by
  have hglen : g.length = D.length := by simpa using lfp_len hg
  have hnd3 : (threeValAll g).Nodup := C20.three_nodup g
  have hex : ∀ v, v ∈ threeValAll g ↔ isRefinement v g := fun v => C20.three_exact g v
  refine ⟨?_, ?_, ?_⟩
  · apply nodup_map_on
    · exact List.Nodup.sublist List.filter_sublist hnd3
    · intro a ha b hb he
      exact refinement_inj g a b ((hex a).mp (List.mem_filter.mp ha).1)
        ((hex b).mp (List.mem_filter.mp hb).1) he
  · intro w
    rw [List.mem_map]
    constructor
    · rintro ⟨v, hv', rfl⟩
      have ⟨m, c⟩ := List.mem_filter.mp hv'
      refine ⟨?_, (hp v ((hex v).mp m)).mp c⟩
      rw [List.length_map, ((hex v).mp m).1, hglen]
    · rintro ⟨hl, hfix⟩
      have ⟨hrf, hmap⟩ := lift_spec w g (by omega) (hg.2 w hfix)
      refine ⟨lift w g, List.mem_filter.mpr ⟨(hex _).mpr hrf, ?_⟩, hmap⟩
      rw [hp _ hrf, hmap]; exact hfix
  · obtain ⟨tl, htl⟩ : ∃ tl, threeValAll g = g :: tl := by
      rw [threeValAll_eq_enum3]; exact enum3_head (und g) g
    have hgr : isRefinement g g := (hex g).mp (by rw [htl]; exact List.mem_cons_self ..)
    have : p g = true := (hp g hgr).mpr hg.1
    rw [htl, List.filter_cons, if_pos this]; rfl

/-- two-valued iterator over such a vector, filtered by the definition of a stable model -/
theorem stable_answers (D : List BoolFn) (g : List Nat) (hg : IsLfp D (g.map storeIsConst))
    (p : List Nat → Bool)
    (hp : ∀ c, isCompletion c g → (p c = true ↔ StableExact.StableI D (c.map storeIsConst))) :
    (((twoValAll g).filter p).map (fun v => v.map storeIsConst)).Nodup ∧
    ∀ v : I3, v ∈ ((twoValAll g).filter p).map (fun v => v.map storeIsConst) ↔
      (v.length = D.length ∧ StableExact.StableI D v) := by
  have hglen : g.length = D.length := by simpa using lfp_len hg
  have hex : ∀ v, v ∈ twoValAll g ↔ isCompletion v g := fun v => C20.two_exact g v
  have hnd2 : (twoValAll g).Nodup := C20.two_nodup g
  constructor
  · apply nodup_map_on
    · exact List.Nodup.sublist List.filter_sublist hnd2
    · intro a ha b hb he
      exact refinement_inj g a b
        (StableExact.completion_refinement ((hex a).mp (List.mem_filter.mp ha).1))
        (StableExact.completion_refinement ((hex b).mp (List.mem_filter.mp hb).1)) he
  · intro v
    rw [List.mem_map]
    constructor
    · rintro ⟨c, hc, rfl⟩
      have ⟨m, pc⟩ := List.mem_filter.mp hc
      exact ⟨by rw [List.length_map, ((hex c).mp m).1, hglen], (hp c ((hex c).mp m)).mp pc⟩
    · rintro ⟨hl, hst⟩
      have ⟨hc, hm⟩ := StableExact.lift_completion v g (by omega) hst.1 (hg.2 v hst.2.1)
      refine ⟨lift v g, List.mem_filter.mpr ⟨(hex _).mpr hc, ?_⟩, hm⟩
      rw [hp _ hc, hm]; exact hst

/-! ## candidates from a single formula -/

/-- the assumed behaviour of `sat_valuations`, for the function `R` of the formula: every
satisfying valuation of the `n` declared variables, each exactly once, in any order -/
def SatEnum (R : BoolFn) (n : Nat) (vals : List (List Bool)) : Prop :=
  vals.Nodup ∧ ∀ val : List Bool, val ∈ vals ↔ (val.length = n ∧ R (asgOf val) = true)

/-- `σ` is a two-valued model of the conditions `D` -/
def ModelOf (D : List BoolFn) (σ : Asg) : Prop := ∀ (i : Nat) (f : BoolFn), D[i]? = some f → f σ = σ i

theorem toTerms_info (val : List Bool) : (toTerms val).map storeIsConst = val.map some := by
  unfold toTerms
  rw [List.map_map]
  apply List.map_congr_left
  intro b _
  cases b <;> rfl

theorem toTerms_total (val : List Bool) : ∀ i, i < (toTerms val).length → (toTerms val).getD i 0 < 2 := by
  intro i hi
  have hi' : i < val.length := by simpa [toTerms] using hi
  have : (toTerms val).getD i 0 = if val[i] then 1 else 0 := by
    simp [toTerms, List.getD, List.getElem?_map, List.getElem?_eq_getElem hi']
  rw [this]; split <;> omega

theorem map_some_inj : ∀ (a b : List Bool), a.map some = b.map some → a = b := by
  intro a
  induction a with
  | nil => intro b h; cases b with | nil => rfl | cons _ _ => simp at h
  | cons x a ih =>
    intro b h
    cases b with
    | nil => simp at h
    | cons y b =>
      simp only [List.map_cons, List.cons.injEq, Option.some.injEq] at h
      rw [h.1, ih b h.2]

/-- a total interpretation is the image of its valuation -/
theorem total_val (v : I3) (ht : TotalI v) : (v.map (fun o => o.getD false)).map some = v := by
  rw [List.map_map]
  conv => rhs; rw [← List.map_id v]
  apply List.map_congr_left
  intro o ho
  obtain ⟨i, hi, rfl⟩ := List.getElem_of_mem ho
  obtain ⟨b, hb⟩ := ht i hi
  rw [List.getElem?_eq_getElem hi] at hb
  have hb' : v[i] = some b := by simpa using hb
  rw [hb']; rfl

/-- a total fixpoint of Γ is a two-valued model -/
theorem model_of_total_fix (D : List BoolFn) (v : I3) (hl : v.length = D.length) (ht : TotalI v)
    (hfix : Gam D v = v) : ModelOf D (asgOf (v.map (fun o => o.getD false))) := by
  have hag : Agree (asgOf (v.map (fun o => o.getD false))) v := by
    intro j c hj
    simp [asgOf, List.getD, List.getElem?_map, hj]
  intro i f hf
  have hi : i < v.length := by
    rw [hl]
    rcases Nat.lt_or_ge i D.length with h | h
    · exact h
    · rw [List.getElem?_eq_none h] at hf; cases hf
  obtain ⟨b, hb⟩ := ht i hi
  have h1 := Gam_get D v i f hf
  rw [hfix, hb] at h1
  have h2 : constOf (fun σ => f (over σ 0 v)) = some b := by
    simp only [Option.some.injEq] at h1; exact h1.symm
  have h3 := constOf_some.mp h2 (asgOf (v.map (fun o => o.getD false)))
  rw [over_of_agree hag] at h3
  rw [h3, hag i b hb]

/-- filtering the candidates of a formula that is implied by "is a two-valued model" with a test
that decides stability: exactly the stable models, each once -/
theorem rep_answers (D : List BoolFn) (n : Nat) (hD : D.length = n) (R : BoolFn)
    (hR : ∀ σ, ModelOf D σ → R σ = true) (vals : List (List Bool)) (hs : SatEnum R n vals)
    (p : List Nat → Bool)
    (hp : ∀ c : List Nat, c.length = n → (∀ i, i < c.length → c.getD i 0 < 2) →
      (p c = true ↔ StableExact.StableI D (c.map storeIsConst))) :
    ((((vals.map toTerms).filter p)).map (fun v => v.map storeIsConst)).Nodup ∧
    ∀ v : I3, v ∈ ((vals.map toTerms).filter p).map (fun v => v.map storeIsConst) ↔
      (v.length = n ∧ StableExact.StableI D v) := by
  have hinj : ∀ a b : List Bool, (toTerms a).map storeIsConst = (toTerms b).map storeIsConst → a = b := by
    intro a b h
    rw [toTerms_info, toTerms_info] at h
    exact map_some_inj a b h
  constructor
  · apply nodup_map_on
    · apply List.Nodup.sublist List.filter_sublist
      apply nodup_map_on _ _ hs.1
      intro a _ b _ h
      exact hinj a b (by rw [h])
    · intro a ha b hb he
      obtain ⟨x, _, rfl⟩ := List.mem_map.mp (List.mem_filter.mp ha).1
      obtain ⟨y, _, rfl⟩ := List.mem_map.mp (List.mem_filter.mp hb).1
      rw [hinj x y he]
  · intro v
    rw [List.mem_map]
    constructor
    · rintro ⟨c, hc, rfl⟩
      have ⟨m, pc⟩ := List.mem_filter.mp hc
      obtain ⟨val, hval, rfl⟩ := List.mem_map.mp m
      have hlen : (toTerms val).length = n := by
        have := ((hs.2 val).mp hval).1
        simpa [toTerms] using this
      exact ⟨by rw [List.length_map, hlen], (hp _ hlen (toTerms_total val)).mp pc⟩
    · rintro ⟨hl, hst⟩
      have hval := total_val v hst.1
      have hmem : v.map (fun o => o.getD false) ∈ vals := by
        rw [hs.2]
        exact ⟨by simpa using hl, hR _ (model_of_total_fix D v (by omega) hst.1 hst.2.1)⟩
      have hinfo : (toTerms (v.map (fun o => o.getD false))).map storeIsConst = v := by
        rw [toTerms_info, hval]
      have hlen : (toTerms (v.map (fun o => o.getD false))).length = n := by
        simpa [toTerms] using hl
      refine ⟨toTerms (v.map (fun o => o.getD false)),
        List.mem_filter.mpr ⟨List.mem_map.mpr ⟨_, hmem, rfl⟩, ?_⟩, hinfo⟩
      rw [hp _ hlen (toTerms_total _), hinfo]; exact hst


/-! ## the two single-formula rewritings -/
section rewriting
variable {T : Type} {L : Lib T} {nv : Nat} (W : Lawful L nv)

/-- the function of `stable_representation`: every condition has the value of its statement -/
def repFn (ac : List T) : BoolFn := fun σ => ac.zipIdx.all (fun p => W.den p.1 σ == σ p.2)

theorem stableRep_fold : ∀ (l : List T) (k : Nat) (acc : T), W.Valid acc → (∀ x ∈ l, W.Valid x) →
    k + l.length ≤ nv →
    W.Valid ((l.zipIdx k).foldl (fun acc p => L.and acc (L.iff p.1 (L.evalExpr (.var p.2)))) acc) ∧
    W.den ((l.zipIdx k).foldl (fun acc p => L.and acc (L.iff p.1 (L.evalExpr (.var p.2)))) acc) =
      fun σ => W.den acc σ && (l.zipIdx k).all (fun p => W.den p.1 σ == σ p.2) := by
  intro l
  induction l with
  | nil => intro k acc ha _ _; exact ⟨ha, by funext σ; simp⟩
  | cons x l ih =>
    intro k acc ha hx hk
    simp only [List.length_cons] at hk
    have ⟨vv, vd⟩ := W.evalExpr_spec (.var k) (by simp [BExpr.closed]; omega)
    have ⟨iv, id'⟩ := W.iff_spec x _ (hx x (List.mem_cons_self ..)) vv
    have ⟨av, ad⟩ := W.and_spec acc _ ha iv
    have ⟨r1, r2⟩ := ih (k+1) _ av (fun y hy => hx y (List.mem_cons_of_mem _ hy)) (by omega)
    rw [List.zipIdx_cons, List.foldl_cons]
    refine ⟨r1, ?_⟩
    rw [r2, ad, id', vd]
    funext σ
    simp only [BExpr.sem, List.all_cons, Bool.and_assoc]

theorem stableRepresentation_den (ac : List T) (hv : ∀ x ∈ ac, W.Valid x) (hn : ac.length ≤ nv) :
    W.Valid (stableRepresentation L ac) ∧ W.den (stableRepresentation L ac) = repFn W ac := by
  have ⟨tv, td⟩ := W.evalExpr_spec (.const true) rfl
  have ⟨a, b⟩ := stableRep_fold W ac 0 _ tv hv (by omega)
  refine ⟨a, ?_⟩
  unfold stableRepresentation repFn
  rw [b, td]
  funext σ
  simp [BExpr.sem]

/-- the satisfying assignments of `stable_representation` are exactly the two-valued models -/
theorem repFn_iff_model (ac : List T) (σ : Asg) : repFn W ac σ = true ↔ ModelOf (ac.map W.den) σ := by
  unfold repFn ModelOf
  rw [List.all_eq_true]
  constructor
  · intro h i f hf
    rw [List.getElem?_map] at hf
    cases ha : ac[i]? with
    | none => rw [ha] at hf; cases hf
    | some a =>
      rw [ha] at hf
      simp only [Option.map_some, Option.some.injEq] at hf
      subst hf
      have := h (a, i) (List.mem_zipIdx_iff_getElem?.mpr ha)
      simpa using this
  · intro h p hp
    have ha : ac[p.2]? = some p.1 := List.mem_zipIdx_iff_getElem?.mp hp
    have := h p.2 (W.den p.1) (by simp [ha])
    simp [this]

/-- the expression of `stm_rewriting`, semantically -/
theorem rewriteExpr_fold : ∀ (l : List (Nat × BExpr)) (acc : BExpr),
    (l.foldl (fun acc p => BExpr.and acc (.iff (.var p.1) p.2)) acc).sem =
      (fun σ => acc.sem σ && l.all (fun p => σ p.1 == p.2.sem σ)) ∧
    (acc.closed nv = true → (∀ p ∈ l, p.1 < nv ∧ p.2.closed nv = true) →
      (l.foldl (fun acc p => BExpr.and acc (.iff (.var p.1) p.2)) acc).closed nv = true) := by
  intro l
  induction l with
  | nil => intro acc; exact ⟨by funext σ; simp, fun h _ => h⟩
  | cons q l ih =>
    intro acc
    have ⟨i1, i2⟩ := ih (BExpr.and acc (.iff (.var q.1) q.2))
    rw [List.foldl_cons]
    refine ⟨?_, ?_⟩
    · rw [i1]; funext σ; simp only [BExpr.sem, List.all_cons, Bool.and_assoc]
    · intro ha hl
      apply i2
      · have := hl q (List.mem_cons_self ..)
        simp [BExpr.closed, ha, this.1, this.2]
      · intro p hp; exact hl p (List.mem_cons_of_mem _ hp)

/-- the function of the rewriting prepared at construction: one equivalence per condition of the file -/
def rewFn (order : List Nat) (fs : List BExpr) : BoolFn :=
  fun σ => (order.zip fs).all (fun p => σ p.1 == p.2.sem σ)

theorem stmRewriting_den (order : List Nat) (fs : List BExpr) (ho : ∀ o ∈ order, o < nv)
    (hf : ∀ φ ∈ fs, φ.closed nv = true) :
    W.Valid (stmRewriting L order fs) ∧ W.den (stmRewriting L order fs) = rewFn order fs := by
  have ⟨s1, s2⟩ := rewriteExpr_fold (nv := nv) (order.zip fs) (.const true)
  have hc : (rewriteExpr order fs).closed nv = true := by
    apply s2 rfl
    intro p hp
    exact ⟨ho _ (List.of_mem_zip hp).1, hf _ (List.of_mem_zip hp).2⟩
  have ⟨a, b⟩ := W.evalExpr_spec _ hc
  refine ⟨a, ?_⟩
  unfold stmRewriting rewFn
  rw [b]
  unfold rewriteExpr
  rw [s1]
  funext σ; simp [BExpr.sem]

/-! `from_parser` -/

theorem foldl_set_spec (e : BExpr → T) : ∀ (l : List (Nat × BExpr)) (acc : List T),
    (l.foldl (fun ac p => ac.set p.1 (e p.2)) acc).length = acc.length ∧
    (∀ (P : T → Prop), (∀ x ∈ acc, P x) → (∀ p ∈ l, P (e p.2)) →
      ∀ x ∈ l.foldl (fun ac p => ac.set p.1 (e p.2)) acc, P x) ∧
    (∀ j, j ∉ l.map (·.1) → (l.foldl (fun ac p => ac.set p.1 (e p.2)) acc)[j]? = acc[j]?) ∧
    ((l.map (·.1)).Nodup → ∀ p ∈ l, p.1 < acc.length →
      (l.foldl (fun ac p => ac.set p.1 (e p.2)) acc)[p.1]? = some (e p.2)) := by
  intro l
  induction l with
  | nil => intro acc; exact ⟨rfl, fun _ h _ => h, fun _ _ => rfl, fun _ p hp => by cases hp⟩
  | cons q l ih =>
    intro acc
    have ⟨i1, i2, i3, i4⟩ := ih (acc.set q.1 (e q.2))
    rw [List.foldl_cons]
    refine ⟨by rw [i1]; simp, ?_, ?_, ?_⟩
    · intro P ha hl
      apply i2 P
      · intro x hx
        rcases List.mem_or_eq_of_mem_set hx with h | h
        · exact ha x h
        · rw [h]; exact hl q (List.mem_cons_self ..)
      · intro p hp; exact hl p (List.mem_cons_of_mem _ hp)
    · intro j hj
      simp only [List.map_cons, List.mem_cons, not_or] at hj
      rw [i3 j hj.2, List.getElem?_set_ne (fun h => hj.1 h.symm)]
    · intro hnd p hp hlt
      simp only [List.map_cons, List.nodup_cons] at hnd
      rcases List.mem_cons.mp hp with h | h
      · subst h
        rw [i3 _ hnd.1, List.getElem?_set_self hlt]
      · exact i4 hnd.2 p h (by simpa using hlt)

/-- `from_parser`: `n` valid conditions; when no statement has two conditions in the file, the
condition of statement `o` is the one written for it -/
theorem acOf_spec (n : Nat) (order : List Nat) (fs : List BExpr) (hf : ∀ φ ∈ fs, φ.closed nv = true) :
    (acOf L n order fs).length = n ∧ (∀ x ∈ acOf L n order fs, W.Valid x) ∧
    (order.Nodup → order.length = fs.length → ∀ p ∈ order.zip fs, p.1 < n →
      (acOf L n order fs)[p.1]? = some (L.evalExpr p.2)) := by
  have ⟨a, b, _, d⟩ := foldl_set_spec L.evalExpr (order.zip fs) (List.replicate n L.mkFalse)
  refine ⟨by unfold acOf; rw [a]; simp, ?_, ?_⟩
  · apply b W.Valid
    · intro x hx; rw [(List.mem_replicate.mp hx).2]; exact W.mkFalse_spec.1
    · intro p hp; exact (W.evalExpr_spec _ (hf _ (List.of_mem_zip hp).2)).1
  · intro hnd hl p hp hlt
    apply d _ p hp (by simpa using hlt)
    rw [List.map_fst_zip (by omega)]; exact hnd

/-- no statement has two conditions ⇒ every two-valued model satisfies the prepared rewriting -/
theorem rewFn_of_model (n : Nat) (order : List Nat) (fs : List BExpr)
    (hf : ∀ φ ∈ fs, φ.closed nv = true) (ho : ∀ o ∈ order, o < n) (hnd : order.Nodup)
    (hl : order.length = fs.length) (σ : Asg)
    (hm : ModelOf ((acOf L n order fs).map W.den) σ) : rewFn order fs σ = true := by
  unfold rewFn
  rw [List.all_eq_true]
  intro p hp
  have hget := (acOf_spec W n order fs hf).2.2 hnd hl p hp (ho _ (List.of_mem_zip hp).1)
  have := hm p.1 (W.den (L.evalExpr p.2)) (by simp [hget])
  rw [(W.evalExpr_spec _ (hf _ (List.of_mem_zip hp).2)).2] at this
  simp [this]

/-- every statement has EXACTLY one condition in the file -/
def ExactlyOne (n : Nat) (order : List Nat) : Prop :=
  order.Nodup ∧ (∀ o ∈ order, o < n) ∧ ∀ j, j < n → j ∈ order

/-- … then the rewriting prepared at construction (`stm_rewriting`, over the parser's formulas in
file order) and `stable_representation()` (folded over `ac`) are the same Boolean function -/
theorem rewritings_same_function (n : Nat) (order : List Nat) (fs : List BExpr) (hn : n ≤ nv)
    (hf : ∀ φ ∈ fs, φ.closed nv = true) (h1 : ExactlyOne n order) (hl : order.length = fs.length) :
    W.den (stmRewriting L order fs) = W.den (stableRepresentation L (acOf L n order fs)) := by
  have ⟨alen, aval, aget⟩ := acOf_spec W n order fs hf
  rw [(stmRewriting_den W order fs (fun o ho => by have := h1.2.1 o ho; omega) hf).2,
    (stableRepresentation_den W _ aval (by omega)).2]
  funext σ
  rw [Bool.eq_iff_iff, repFn_iff_model]
  constructor
  · intro h i f hfi
    rw [List.getElem?_map] at hfi
    have hi : i < n := by
      rcases Nat.lt_or_ge i n with h' | h'
      · exact h'
      · rw [List.getElem?_eq_none (by omega)] at hfi; cases hfi
    obtain ⟨k, hk, rfl⟩ := List.getElem_of_mem (h1.2.2 i hi)
    have hk' : k < fs.length := by omega
    have hp : (order[k], fs[k]) ∈ order.zip fs := by
      rw [List.mem_iff_getElem?]
      exact ⟨k, by simp [List.getElem?_zip_eq_some, List.getElem?_eq_getElem hk, List.getElem?_eq_getElem hk']⟩
    rw [aget h1.1 hl _ hp hi] at hfi
    simp only [Option.map_some, Option.some.injEq] at hfi
    subst hfi
    rw [(W.evalExpr_spec _ (hf _ (List.getElem_mem hk'))).2]
    have := (List.all_eq_true.mp h) _ hp
    simp only [beq_iff_eq] at this
    exact this.symm
  · exact rewFn_of_model W n order fs hf h1.2.1 h1.1 hl σ

end rewriting

/-! ## the native variant: candidates from the library, filter on the own store -/

theorem nativeStableRep_filter (s : Store) (n : Nat) (ac : List Nat) (hw : WF s) (hn : ac.length = n)
    (hv : ∀ t ∈ ac, t < s.nodes.size) (cands : List (List Nat))
    (hc : ∀ c ∈ cands, c.length = n ∧ ∀ i, i < c.length → c.getD i 0 < 2) :
    (WF (nativeStableRep s n ac cands).1 ∧ Ext s (nativeStableRep s n ac cands).1) ∧
    (nativeStableRep s n ac cands).2 = cands.filter (StableExact.verdict (ac.map (eval s))) := by
  have key := StableExact.fold_filter (fun t => WF t ∧ Ext s t) (StableExact.verdict (ac.map (eval s)))
    (StableExact.sstep n ac) cands
    (fun acc c hc' hi => StableExact.sstep_spec s n ac hw hn hv acc c (hc c hc').1 (hc c hc').2 hi)
    (s, []) ⟨hw, Ext.refl _⟩
  have e : nativeStableRep s n ac cands = cands.foldl (StableExact.sstep n ac) (s, []) := rfl
  rw [e]
  exact ⟨key.1, by simpa using key.2⟩

/-! ## the theorems about the back-end -/
section main
variable {T : Type} {L : Lib T} {n : Nat} (W : Lawful L n)

/-- `Adf::grounded` of the biodivine back-end: the least fixpoint of Γ -/
theorem bioGrounded_lfp (ac : List T) (hv : ∀ x ∈ ac, W.Valid x) (hn : ac.length = n) :
    (bioGrounded L ac).length = n ∧ IsLfp (ac.map W.den) ((bioGrounded L ac).map storeIsConst) := by
  have ⟨_, b, c⟩ := groundedInternal_lfp W ac hv (by omega)
  have e : (bioGrounded L ac).map storeIsConst = (groundedInternal L ac).map L.isConst := by
    unfold bioGrounded
    rw [List.map_map]
    apply List.map_congr_left
    intro t _; exact toTerm_info t
  rw [e]
  exact ⟨by unfold bioGrounded; simp [b, hn], c⟩

/-- `Adf::complete` of the biodivine back-end -/
theorem bioComplete_exact (ac : List T) (hv : ∀ x ∈ ac, W.Valid x) (hn : ac.length = n) :
    ((bioComplete L ac).map (fun v => v.map storeIsConst)).Nodup ∧
    (∀ w : I3, w ∈ (bioComplete L ac).map (fun v => v.map storeIsConst) ↔
      (w.length = n ∧ Gam (ac.map W.den) w = w)) ∧
    (bioComplete L ac).head? = some (bioGrounded L ac) ∧
    IsLfp (ac.map W.den) ((bioGrounded L ac).map storeIsConst) := by
  have ⟨gl, glfp⟩ := bioGrounded_lfp W ac hv hn
  have := complete_answers (ac.map W.den) (bioGrounded L ac) glfp (completeTest L ac)
    (fun c hc => completeTest_iff W ac c hv (by omega) (by rw [hc.1, gl, hn]))
  simp only [List.length_map, hn] at this
  exact ⟨this.1, this.2.1, this.2.2, glfp⟩

/-- `Adf::stable` of the biodivine back-end -/
theorem bioStable_exact (ac : List T) (hv : ∀ x ∈ ac, W.Valid x) (hn : ac.length = n) :
    ((bioStable L ac).map (fun v => v.map storeIsConst)).Nodup ∧
    ∀ v : I3, v ∈ (bioStable L ac).map (fun v => v.map storeIsConst) ↔
      (v.length = n ∧ StableExact.StableI (ac.map W.den) v) := by
  have ⟨gl, glfp⟩ := bioGrounded_lfp W ac hv hn
  have := stable_answers (ac.map W.den) (bioGrounded L ac) glfp (stableTest L ac)
    (fun c hc => stableTest_iff W ac c hv (by omega) (by rw [hc.1, gl, hn])
      (StableExact.completion_total hc))
  simp only [List.length_map, hn] at this
  exact this

/-- the filter of `stable_bdd_representation` over ANY candidate list that enumerates, each once,
the satisfying valuations of a function implied by "is a two-valued model" -/
theorem stableFilter_of_candidates (ac : List T) (hv : ∀ x ∈ ac, W.Valid x) (hn : ac.length = n)
    (R : BoolFn) (hR : ∀ σ, ModelOf (ac.map W.den) σ → R σ = true)
    (vals : List (List Bool)) (hs : SatEnum R n vals) :
    ((((vals.map toTerms).filter (stableTest L ac))).map (fun v => v.map storeIsConst)).Nodup ∧
    ∀ v : I3, v ∈ ((vals.map toTerms).filter (stableTest L ac)).map (fun v => v.map storeIsConst) ↔
      (v.length = n ∧ StableExact.StableI (ac.map W.den) v) :=
  rep_answers (ac.map W.den) n (by simp [hn]) R hR vals hs (stableTest L ac)
    (fun c hc ht => stableTest_iff W ac c hv (by omega) (by omega) ht)

/-- a usable rewriting: a diagram of the variable set whose function is implied by "is a model" -/
def GoodRewrite (ac : List T) : Option T → Prop
  | none => True
  | some r => W.Valid r ∧ ∀ σ, ModelOf (ac.map W.den) σ → W.den r σ = true

/-- the candidates of `stable_model_candidates` satisfy the hypothesis of `stableFilter_of_candidates` -/
theorem candidates_enum (rw : Option T) (ac : List T) (hv : ∀ x ∈ ac, W.Valid x) (hn : ac.length = n)
    (hg : GoodRewrite W ac rw) :
    ∃ (R : BoolFn) (vals : List (List Bool)), (∀ σ, ModelOf (ac.map W.den) σ → R σ = true) ∧
      SatEnum R n vals ∧ stableModelCandidates L rw ac = vals.map toTerms := by
  cases rw with
  | none =>
    have ⟨a, b⟩ := stableRepresentation_den W ac hv (by omega)
    refine ⟨repFn W ac, L.satVals (stableRepresentation L ac),
      fun σ h => (repFn_iff_model W ac σ).mpr h, ?_, rfl⟩
    have := W.sat_spec _ a
    rw [b] at this
    exact this
  | some r =>
    exact ⟨W.den r, L.satVals r, hg.2, W.sat_spec r hg.1, rfl⟩

/-- `Adf::stable_bdd_representation` of the biodivine back-end, with or without prepared rewriting -/
theorem bioStableRep_exact (rw : Option T) (ac : List T) (hv : ∀ x ∈ ac, W.Valid x) (hn : ac.length = n)
    (hg : GoodRewrite W ac rw) :
    ((bioStableRep L rw ac).map (fun v => v.map storeIsConst)).Nodup ∧
    ∀ v : I3, v ∈ (bioStableRep L rw ac).map (fun v => v.map storeIsConst) ↔
      (v.length = n ∧ StableExact.StableI (ac.map W.den) v) := by
  obtain ⟨R, vals, hR, hs, he⟩ := candidates_enum W rw ac hv hn hg
  unfold bioStableRep
  rw [he]
  exact stableFilter_of_candidates W ac hv hn R hR vals hs

/-- the rewriting prepared by `from_parser_with_stm_rewrite` is usable whenever no statement has
two conditions in the file -/
theorem stmRewriting_good (order : List Nat) (fs : List BExpr) (hf : ∀ φ ∈ fs, φ.closed n = true)
    (ho : ∀ o ∈ order, o < n) (hnd : order.Nodup) (hl : order.length = fs.length) :
    GoodRewrite W (acOf L n order fs) (some (stmRewriting L order fs)) := by
  have ⟨a, b⟩ := stmRewriting_den W order fs ho hf
  refine ⟨a, ?_⟩
  intro σ hm
  rw [b]
  exact rewFn_of_model W n order fs hf ho hnd hl σ hm

/-- `Adf::stable_bdd_representation(&biodivine)` of the native back-end -/
theorem nativeStableRep_exact (s : Store) (ac : List Nat) (hw : WF s) (hn : ac.length = n)
    (hvs : ∀ t ∈ ac, t < s.nodes.size) (rw : Option T) (acB : List T) (hv : ∀ x ∈ acB, W.Valid x)
    (hnB : acB.length = n) (hsame : acB.map W.den = ac.map (eval s)) (hg : GoodRewrite W acB rw) :
    let r := nativeStableRep s n ac (stableModelCandidates L rw acB)
    (WF r.1 ∧ Ext s r.1) ∧
    (r.2.map (fun v => v.map storeIsConst)).Nodup ∧
    ∀ v : I3, v ∈ r.2.map (fun v => v.map storeIsConst) ↔
      (v.length = n ∧ StableExact.StableI (ac.map (eval s)) v) := by
  intro r
  obtain ⟨R, vals, hR, hs, he⟩ := candidates_enum W rw acB hv hnB hg
  have hc : ∀ c ∈ stableModelCandidates L rw acB, c.length = n ∧ ∀ i, i < c.length → c.getD i 0 < 2 := by
    intro c hc
    rw [he] at hc
    obtain ⟨val, hval, rfl⟩ := List.mem_map.mp hc
    exact ⟨by have := ((hs.2 val).mp hval).1; simpa [toTerms] using this, toTerms_total val⟩
  have ⟨a, b⟩ := nativeStableRep_filter s n ac hw hn hvs _ hc
  refine ⟨a, ?_⟩
  show ((nativeStableRep s n ac (stableModelCandidates L rw acB)).2.map _).Nodup ∧ _
  rw [b, he]
  rw [hsame] at hR
  exact rep_answers (ac.map (eval s)) n (by simp [hn]) R hR vals hs _
    (fun c _ _ => StableExact.verdict_iff _ c)

/-- no stable model ⇒ every variant answers with the empty list -/
theorem nil_of_none {α : Type} (out : List α) (f : α → I3) (P : I3 → Prop)
    (h : ∀ v, v ∈ out.map f ↔ P v) (hnone : ∀ v, ¬ P v) : out = [] := by
  cases out with
  | nil => rfl
  | cons a l => exact absurd ((h (f a)).mp (by simp)) (hnone _)

end main
end Bio

/-! ## the truth-table library is lawful -/
namespace Bio
open TT (Rep DetBy bitsAsg numOf)

/-- the function of a table: its bit at the code of the assignment -/
def ttDen (nv t : Nat) : BoolFn := fun σ => t.testBit (numOf nv σ)
/-- a table over `nv` variables: no bit at or above `2^nv` -/
def ttValid (nv t : Nat) : Prop := ∀ a, 2 ^ nv ≤ a → t.testBit a = false

theorem ttValid_of_lt {nv t : Nat} (h : t < 2 ^ (2 ^ nv)) : ttValid nv t := by
  intro a ha
  exact Nat.testBit_lt_two_pow (Nat.lt_of_lt_of_le h (Nat.pow_le_pow_right (by decide) ha))

theorem numOf_bitsAsg {nv a : Nat} (ha : a < 2 ^ nv) : numOf nv (bitsAsg a) = a := by
  apply Nat.eq_of_testBit_eq
  intro x
  rw [TT.numOf_testBit]
  by_cases hx : x < nv
  · simp [hx, bitsAsg]
  · have : a.testBit x = false :=
      Nat.testBit_lt_two_pow (Nat.lt_of_lt_of_le ha (Nat.pow_le_pow_right (by decide) (by omega)))
    simp [hx, this]

theorem numOf_congr {nv : Nat} {σ σ' : Asg} (h : ∀ x, x < nv → σ x = σ' x) : numOf nv σ = numOf nv σ' := by
  apply Nat.eq_of_testBit_eq
  intro x
  rw [TT.numOf_testBit, TT.numOf_testBit]
  by_cases hx : x < nv
  · simp [hx, h x hx]
  · simp [hx]

theorem ttDen_det (nv t : Nat) : DetBy nv (ttDen nv t) := fun σ σ' h => by
  unfold ttDen; rw [numOf_congr h]

theorem rep_ttDen {nv t : Nat} (hv : ttValid nv t) : Rep nv t (ttDen nv t) := by
  intro a
  by_cases ha : a < 2 ^ nv
  · simp [ha, ttDen, numOf_bitsAsg ha]
  · simp [ha, hv a (by omega)]

theorem valid_of_rep {nv t : Nat} {f : BoolFn} (h : Rep nv t f) : ttValid nv t := by
  intro a ha
  rw [h a]
  have : ¬ a < 2 ^ nv := by omega
  simp [this]

theorem den_of_rep {nv t : Nat} {f : BoolFn} (h : Rep nv t f) (hd : DetBy nv f) : ttDen nv t = f := by
  funext σ
  unfold ttDen
  rw [h (numOf nv σ)]
  simp only [TT.numOf_lt, decide_true, Bool.true_and]
  exact hd _ _ (fun x hx => TT.bitsAsg_numOf nv σ x hx)

theorem tt_of_rep {nv t : Nat} {f : BoolFn} (h : Rep nv t f) (hd : DetBy nv f) :
    ttValid nv t ∧ ttDen nv t = f := ⟨valid_of_rep h, den_of_rep h hd⟩

theorem det_bin {nv : Nat} {f g : BoolFn} (op : Bool → Bool → Bool) (hf : DetBy nv f) (hg : DetBy nv g) :
    DetBy nv (fun σ => op (f σ) (g σ)) := fun σ σ' h => by
  show op (f σ) (g σ) = op (f σ') (g σ')
  rw [hf σ σ' h, hg σ σ' h]

theorem ttEval_spec (nv : Nat) : ∀ e : BExpr, e.closed nv = true →
    Rep nv (ttEval nv e) e.sem ∧ DetBy nv e.sem := by
  intro e
  induction e with
  | const b => intro _; exact ⟨TT.rep_const nv b, fun _ _ _ => rfl⟩
  | var i =>
    intro h
    have hi : i < nv := by simpa [BExpr.closed] using h
    exact ⟨TT.rep_var nv i, fun σ σ' h' => h' i hi⟩
  | not a ih =>
    intro h
    have ⟨r, d⟩ := ih (by simpa [BExpr.closed] using h)
    exact ⟨TT.rep_not r, fun σ σ' h' => by show (!a.sem σ) = !a.sem σ'; rw [d σ σ' h']⟩
  | and a b iha ihb =>
    intro h
    have h' : a.closed nv = true ∧ b.closed nv = true := by simpa [BExpr.closed] using h
    have ⟨ra, da⟩ := iha h'.1
    have ⟨rb, db⟩ := ihb h'.2
    exact ⟨TT.rep_and ra rb, det_bin (· && ·) da db⟩
  | or a b iha ihb =>
    intro h
    have h' : a.closed nv = true ∧ b.closed nv = true := by simpa [BExpr.closed] using h
    have ⟨ra, da⟩ := iha h'.1
    have ⟨rb, db⟩ := ihb h'.2
    exact ⟨TT.rep_or ra rb, det_bin (· || ·) da db⟩
  | xor a b iha ihb =>
    intro h
    have h' : a.closed nv = true ∧ b.closed nv = true := by simpa [BExpr.closed] using h
    have ⟨ra, da⟩ := iha h'.1
    have ⟨rb, db⟩ := ihb h'.2
    exact ⟨TT.rep_xor ra rb, det_bin (· != ·) da db⟩
  | imp a b iha ihb =>
    intro h
    have h' : a.closed nv = true ∧ b.closed nv = true := by simpa [BExpr.closed] using h
    have ⟨ra, da⟩ := iha h'.1
    have ⟨rb, db⟩ := ihb h'.2
    exact ⟨TT.rep_imp ra rb, det_bin (fun x y => !x || y) da db⟩
  | iff a b iha ihb =>
    intro h
    have h' : a.closed nv = true ∧ b.closed nv = true := by simpa [BExpr.closed] using h
    have ⟨ra, da⟩ := iha h'.1
    have ⟨rb, db⟩ := ihb h'.2
    exact ⟨TT.rep_iff ra rb, det_bin (· == ·) da db⟩

theorem tt_isTrue (nv t : Nat) (hv : ttValid nv t) :
    ((t == TT.mask nv) = true ↔ ∀ σ, ttDen nv t σ = true) := by
  rw [beq_iff_eq]
  constructor
  · intro h σ
    unfold ttDen
    rw [h, TT.mask_testBit]
    simp [TT.numOf_lt]
  · intro h
    apply Nat.eq_of_testBit_eq
    intro a
    rw [TT.mask_testBit]
    by_cases ha : a < 2 ^ nv
    · have := h (bitsAsg a)
      unfold ttDen at this
      rw [numOf_bitsAsg ha] at this
      simp [ha, this]
    · simp [ha, hv a (by omega)]

theorem tt_isFalse (nv t : Nat) (hv : ttValid nv t) :
    ((t == 0) = true ↔ ∀ σ, ttDen nv t σ = false) := by
  rw [beq_iff_eq]
  constructor
  · intro h σ
    unfold ttDen
    rw [h, Nat.zero_testBit]
  · intro h
    apply Nat.eq_of_testBit_eq
    intro a
    rw [Nat.zero_testBit]
    by_cases ha : a < 2 ^ nv
    · have := h (bitsAsg a)
      unfold ttDen at this
      rw [numOf_bitsAsg ha] at this
      exact this
    · exact hv a (by omega)

theorem tt_select_step (nv t : Nat) (p : Nat × Bool) (hv : ttValid nv t) (hp : p.1 < nv) :
    ttValid nv (TT.and t (if p.2 then TT.var nv p.1 else TT.not nv (TT.var nv p.1))) ∧
    ttDen nv (TT.and t (if p.2 then TT.var nv p.1 else TT.not nv (TT.var nv p.1))) =
      fun σ => ttDen nv t σ && (σ p.1 == p.2) := by
  have hlit : Rep nv (if p.2 then TT.var nv p.1 else TT.not nv (TT.var nv p.1)) (fun σ => σ p.1 == p.2) := by
    cases hb : p.2 with
    | true =>
      have : (fun σ : Asg => σ p.1 == true) = (fun σ => σ p.1) := by funext σ; simp
      rw [this]; exact TT.rep_var nv p.1
    | false =>
      have : (fun σ : Asg => σ p.1 == false) = (fun σ => !σ p.1) := by funext σ; simp
      rw [this]; exact TT.rep_not (TT.rep_var nv p.1)
  apply tt_of_rep (TT.rep_and (rep_ttDen hv) hlit)
  exact det_bin (· && ·) (ttDen_det nv t) (fun σ σ' h => by
    show (σ p.1 == p.2) = (σ' p.1 == p.2)
    rw [h p.1 hp])

theorem tt_select (nv : Nat) : ∀ (l : List (Nat × Bool)) (t : Nat), ttValid nv t → (∀ p ∈ l, p.1 < nv) →
    ttValid nv ((ttLib nv).select t l) ∧ ttDen nv ((ttLib nv).select t l) = sel (ttDen nv t) l := by
  intro l
  induction l with
  | nil => intro t hv _; exact ⟨hv, by funext σ; simp [ttLib, sel]⟩
  | cons p l ih =>
    intro t hv hl
    have ⟨sv, sd⟩ := tt_select_step nv t p hv (hl p (List.mem_cons_self ..))
    have ⟨a, b⟩ := ih _ sv (fun q hq => hl q (List.mem_cons_of_mem _ hq))
    simp only [ttLib, List.foldl_cons] at a b ⊢
    refine ⟨a, ?_⟩
    rw [b, sd]
    funext σ
    simp only [sel, List.all_cons, Bool.and_assoc]

theorem tt_exist_step (nv t v : Nat) (hv : ttValid nv t) (hlt : v < nv) :
    ttValid nv (TT.or (TT.restrict nv t v false) (TT.restrict nv t v true)) ∧
    ttDen nv (TT.or (TT.restrict nv t v false) (TT.restrict nv t v true)) = ex1 (ttDen nv t) v := by
  have r := TT.rep_or (TT.rep_restrict (rep_ttDen hv) v false hlt) (TT.rep_restrict (rep_ttDen hv) v true hlt)
  apply tt_of_rep r
  have hu : ∀ (c : Bool) (σ σ' : Asg), (∀ x, x < nv → σ x = σ' x) → ∀ x, x < nv → upd σ v c x = upd σ' v c x := by
    intro c σ σ' h x hx
    simp only [upd]; split
    · rfl
    · exact h x hx
  exact det_bin (· || ·) (fun σ σ' h => ttDen_det nv t _ _ (hu false σ σ' h))
    (fun σ σ' h => ttDen_det nv t _ _ (hu true σ σ' h))

theorem tt_exist (nv : Nat) : ∀ (vs : List Nat) (t : Nat), ttValid nv t → (∀ v ∈ vs, v < nv) →
    ttValid nv ((ttLib nv).exist t vs) ∧ ttDen nv ((ttLib nv).exist t vs) = exL (ttDen nv t) vs := by
  intro vs
  induction vs with
  | nil => intro t hv _; exact ⟨hv, rfl⟩
  | cons v vs ih =>
    intro t hv hl
    have ⟨sv, sd⟩ := tt_exist_step nv t v hv (hl v (List.mem_cons_self ..))
    have ⟨a, b⟩ := ih _ sv (fun q hq => hl q (List.mem_cons_of_mem _ hq))
    simp only [ttLib, List.foldl_cons, exL] at a b ⊢
    refine ⟨a, ?_⟩
    rw [b, sd]

theorem tt_restrict (nv : Nat) : ∀ (l : List (Nat × Bool)) (t : Nat), ttValid nv t → (∀ p ∈ l, p.1 < nv) →
    ttValid nv ((ttLib nv).restrict t l) ∧
    ttDen nv ((ttLib nv).restrict t l) = fun σ => ttDen nv t (updL σ l) := by
  intro l
  induction l with
  | nil => intro t hv _; exact ⟨hv, rfl⟩
  | cons p l ih =>
    intro t hv hl
    have hp : p.1 < nv := hl p (List.mem_cons_self ..)
    have hu : ∀ (σ σ' : Asg), (∀ x, x < nv → σ x = σ' x) → ∀ x, x < nv → upd σ p.1 p.2 x = upd σ' p.1 p.2 x := by
      intro σ σ' h x hx
      simp only [upd]; split
      · rfl
      · exact h x hx
    have ⟨sv, sd⟩ := tt_of_rep (TT.rep_restrict (rep_ttDen hv) p.1 p.2 hp)
      (fun σ σ' h => ttDen_det nv t _ _ (hu σ σ' h))
    have ⟨a, b⟩ := ih _ sv (fun q hq => hl q (List.mem_cons_of_mem _ hq))
    simp only [ttLib, List.foldl_cons] at a b ⊢
    refine ⟨a, ?_⟩
    rw [b, sd]
    rfl

theorem asgOf_bitsList (nv a x : Nat) (hx : x < nv) : asgOf (bitsList nv a) x = a.testBit x := by
  simp [asgOf, bitsList, List.getD, hx]

theorem numOf_bitsList {nv a : Nat} (ha : a < 2 ^ nv) : numOf nv (asgOf (bitsList nv a)) = a := by
  rw [numOf_congr (σ' := bitsAsg a) (fun x hx => asgOf_bitsList nv a x hx)]
  exact numOf_bitsAsg ha

theorem tt_sat (nv t : Nat) :
    ((ttLib nv).satVals t).Nodup ∧
    ∀ val : List Bool, val ∈ (ttLib nv).satVals t ↔ (val.length = nv ∧ ttDen nv t (asgOf val) = true) := by
  have hmem : ∀ a, a ∈ (List.range (2 ^ nv)).filter (fun a => t.testBit a) ↔ (a < 2 ^ nv ∧ t.testBit a = true) := by
    intro a; simp [List.mem_filter]
  constructor
  · apply nodup_map_on
    · exact List.Nodup.sublist List.filter_sublist List.nodup_range
    · intro a ha b hb he
      rw [← numOf_bitsList ((hmem a).mp ha).1, ← numOf_bitsList ((hmem b).mp hb).1, he]
  · intro val
    show val ∈ List.map _ _ ↔ _
    rw [List.mem_map]
    constructor
    · rintro ⟨a, ha, rfl⟩
      have ⟨h1, h2⟩ := (hmem a).mp ha
      refine ⟨by simp [bitsList], ?_⟩
      unfold ttDen
      rw [numOf_bitsList h1]; exact h2
    · rintro ⟨hl, hd⟩
      refine ⟨numOf nv (asgOf val), (hmem _).mpr ⟨TT.numOf_lt nv _, hd⟩, ?_⟩
      apply List.ext_getElem
      · simp [bitsList, hl]
      · intro i h1 h2
        have hi : i < nv := by simpa [bitsList] using h1
        simp [bitsList, TT.numOf_testBit, hi, asgOf, List.getD, List.getElem?_eq_getElem h2]

/-- the truth-table library satisfies every assumption made about the external library -/
def ttLawful (nv : Nat) : Lawful (ttLib nv) nv where
  Valid := ttValid nv
  den := ttDen nv
  evalExpr_spec := fun e he => by
    have ⟨r, d⟩ := ttEval_spec nv e he
    exact tt_of_rep r d
  mkFalse_spec := ⟨fun a _ => Nat.zero_testBit a, by funext σ; exact Nat.zero_testBit _⟩
  isTrue_spec := fun t hv => tt_isTrue nv t hv
  isFalse_spec := fun t hv => tt_isFalse nv t hv
  select_spec := fun t l hv hl => tt_select nv l t hv hl
  exist_spec := fun t vs hv hl => tt_exist nv vs t hv hl
  restrict_spec := fun t l hv hl _ => tt_restrict nv l t hv hl
  and_spec := fun a b ha hb =>
    tt_of_rep (TT.rep_and (rep_ttDen ha) (rep_ttDen hb)) (det_bin (· && ·) (ttDen_det nv a) (ttDen_det nv b))
  iff_spec := fun a b ha hb =>
    tt_of_rep (TT.rep_iff (rep_ttDen ha) (rep_ttDen hb)) (det_bin (· == ·) (ttDen_det nv a) (ttDen_det nv b))
  sat_spec := fun t _ => tt_sat nv t

/-- on the truth-table library (one table per function) the executed `restrict` (cofactor fold) and
the shadowed composition `select`-then-`exists` are THE SAME TABLE for every variable list the
back-end builds: what the model driver prints did not change when the model was switched from the
composition to the library's operation -/
theorem tt_restrict_eq_SE (nv t : Nat) (w : I3) (k : Nat) (hv : ttValid nv t) (hk : k + w.length ≤ nv) :
    restrict (ttLib nv) t (vlOf k w) = restrictSE (ttLib nv) t (vlOf k w) := by
  have a := restrict_den (ttLawful nv) t w k hv hk
  have b := restrictSE_den (ttLawful nv) t w k hv hk
  exact TT.rep_unique (rep_ttDen a.1) (rep_ttDen b.1)
    (fun x _ => (congrFun a.2 _).trans (congrFun b.2 _).symm)

end Bio

#print axioms Bio.bioComplete_exact
#print axioms Bio.bioStable_exact
#print axioms Bio.bioStableRep_exact
#print axioms Bio.nativeStableRep_exact
#print axioms Bio.rewritings_same_function
#print axioms Bio.ttLawful

/-! evaluation checks (not proofs): `Bio.runTT` against the brute-force specification `Spec/Adf.lean`
(proved equal to the Prop-level semantics in SpecSound.lean) -/
namespace Bio
/-- same answers as the specification: grounded vector, complete set (grounded first, no
duplicate), stable set for the enumerate-and-check and the rewriting variant -/
def agreesWithSpec (n : Nat) (tts : List Nat) : Bool :=
  let co := (runTT "complete" n tts).getD []
  let sb := (runTT "stable" n tts).getD []
  let rw := (runTT "stablerew" n tts).getD []
  runTT "grounded" n tts == some [Spec.grounded n tts] &&
  Spec.showSet co == Spec.showSet (Spec.completeAll n tts) &&
  co.length == (Spec.completeAll n tts).length && co.head? == some (Spec.grounded n tts) &&
  Spec.showSet sb == Spec.showSet (Spec.stableAll n tts) && sb.length == (Spec.stableAll n tts).length &&
  Spec.showSet rw == Spec.showSet (Spec.stableAll n tts) && rw.length == (Spec.stableAll n tts).length

#guard agreesWithSpec 2 [3, 5]
#guard agreesWithSpec 3 [51, 85, 34]
#guard agreesWithSpec 3 [TT.const 3 true, TT.var 3 0, TT.and (TT.var 3 2) (TT.var 3 1)]
#guard agreesWithSpec 3 [TT.or (TT.var 3 1) (TT.not 3 (TT.var 3 2)), TT.var 3 1, TT.iff 3 (TT.var 3 0) (TT.var 3 1)]
#guard (List.range 256).all (fun k => agreesWithSpec 2 [k % 16, k / 16])
#guard runTT "stable" 2 [3, 5] == some [[some false, some true], [some true, some false]]
#guard runTT "nonsense" 2 [3, 5] == none
end Bio
