
namespace IsolationM
/-! prototype 32: ownership isolation of the web service's problem store, at the level of the
    database commands the handlers issue (every command carries the session's user name) -/

structure Problem where
  name : Nat
  owner : Nat
  content : Nat
deriving DecidableEq, Repr

/-- the commands of `server/src/adf.rs` and `server/src/user.rs` on the `adf-problems`
collection; the first argument is always the user name taken from the identity cookie -/
inductive Cmd where
  | findOne (u name : Nat)                 -- find_one {name, username}
  | findAll (u : Nat)                      -- find {username}
  | insert (u name content : Nat)          -- insert_one (after the existence check)
  | update (u name content : Nat)          -- update_one {name, username} $set …
  | deleteOne (u name : Nat)               -- delete_one {name, username}
  | deleteAll (u : Nat)                    -- delete_many {username}
  | rename (u u' : Nat)                    -- update_many {username: u} $set {username: u'}

def Cmd.user : Cmd → Nat
  | .findOne u _ => u | .findAll u => u | .insert u _ _ => u | .update u _ _ => u
  | .deleteOne u _ => u | .deleteAll u => u | .rename u _ => u

/-- first match only, like `update_one` / `delete_one` -/
def updFirst (p : Problem → Bool) (f : Problem → Problem) : List Problem → List Problem
  | [] => []
  | x :: xs => if p x then f x :: xs else x :: updFirst p f xs

def delFirst (p : Problem → Bool) : List Problem → List Problem
  | [] => []
  | x :: xs => if p x then xs else x :: delFirst p xs

def exec (db : List Problem) : Cmd → List Problem × List Problem
  | .findOne u n => (db, (db.find? (fun p => p.name == n && p.owner == u)).toList)
  | .findAll u => (db, db.filter (fun p => p.owner == u))
  | .insert u n c => (db ++ [⟨n, u, c⟩], [])
  | .update u n c => (updFirst (fun p => p.name == n && p.owner == u) (fun p => { p with content := c }) db, [])
  | .deleteOne u n => (delFirst (fun p => p.name == n && p.owner == u) db, [])
  | .deleteAll u => (db.filter (fun p => !(p.owner == u)), [])
  | .rename u u' => (db.map (fun p => if p.owner == u then { p with owner := u' } else p), [])

def ownedBy (v : Nat) (db : List Problem) : List Problem := db.filter (fun p => p.owner == v)

/-- a response only ever contains problems of the session's user -/
theorem resp_owned (db : List Problem) (c : Cmd) : ∀ p ∈ (exec db c).2, p.owner = c.user := by
  intro p hp
  cases c with
  | findOne u n =>
    simp only [exec, Option.mem_toList] at hp
    have := List.find?_some hp
    simp only [Bool.and_eq_true, beq_iff_eq] at this
    exact this.2
  | findAll u =>
    simp only [exec, List.mem_filter, beq_iff_eq] at hp
    exact hp.2
  | insert _ _ _ => simp [exec] at hp
  | update _ _ _ => simp [exec] at hp
  | deleteOne _ _ => simp [exec] at hp
  | deleteAll _ => simp [exec] at hp
  | rename _ _ => simp [exec] at hp

theorem ownedBy_updFirst (v : Nat) (q : Problem → Bool) (f : Problem → Problem) (u : Nat)
    (hq : ∀ p, q p = true → p.owner = u) (hf : ∀ p, (f p).owner = p.owner) (hv : v ≠ u) :
    ∀ db, ownedBy v (updFirst q f db) = ownedBy v db := by
  intro db
  induction db with
  | nil => rfl
  | cons x xs ih =>
    unfold updFirst
    by_cases h : q x = true
    · rw [if_pos h]
      have hx := hq x h
      have h1 : ((f x).owner == v) = false := by rw [hf x, hx]; simpa using (Ne.symm hv)
      have h2 : (x.owner == v) = false := by rw [hx]; simpa using (Ne.symm hv)
      simp [ownedBy, List.filter_cons, h1, h2]
    · rw [if_neg h]
      simp only [ownedBy, List.filter_cons] at ih ⊢
      rw [ih]

theorem ownedBy_delFirst (v : Nat) (q : Problem → Bool) (u : Nat)
    (hq : ∀ p, q p = true → p.owner = u) (hv : v ≠ u) :
    ∀ db, ownedBy v (delFirst q db) = ownedBy v db := by
  intro db
  induction db with
  | nil => rfl
  | cons x xs ih =>
    unfold delFirst
    by_cases h : q x = true
    · rw [if_pos h]
      have h2 : (x.owner == v) = false := by rw [hq x h]; simpa using (Ne.symm hv)
      simp [ownedBy, List.filter_cons, h2]
    · rw [if_neg h]
      simp only [ownedBy, List.filter_cons] at ih ⊢
      rw [ih]

/-- C17 core: a command issued for user `u` leaves the problems of every other user `v`
exactly as they were (for a rename, `v` must also differ from the new name — account names are
unique, which the handler checks before renaming) -/
theorem others_untouched (db : List Problem) (c : Cmd) (v : Nat) (hv : v ≠ c.user)
    (hr : ∀ u u', c = Cmd.rename u u' → v ≠ u') :
    ownedBy v (exec db c).1 = ownedBy v db := by
  cases c with
  | findOne _ _ => rfl
  | findAll _ => rfl
  | insert u n cnt =>
    have hv : v ≠ u := hv
    have : ((⟨n, u, cnt⟩ : Problem).owner == v) = false := by simpa using (Ne.symm hv)
    simp [exec, ownedBy, List.filter_append, this]
  | update u n cnt =>
    have hv : v ≠ u := hv
    exact ownedBy_updFirst v (fun p => p.name == n && p.owner == u) (fun p => { p with content := cnt }) u
      (fun p h => by simp only [Bool.and_eq_true, beq_iff_eq] at h; exact h.2) (fun p => rfl) hv db
  | deleteOne u n =>
    have hv : v ≠ u := hv
    exact ownedBy_delFirst v (fun p => p.name == n && p.owner == u) u
      (fun p h => by simp only [Bool.and_eq_true, beq_iff_eq] at h; exact h.2) hv db
  | deleteAll u =>
    have hv : v ≠ u := hv
    simp only [exec, ownedBy, List.filter_filter]
    apply List.filter_congr
    intro p _
    by_cases h : p.owner = v
    · have : (p.owner == u) = false := by rw [h]; simpa using hv
      simp [h, hv]
    · have : (p.owner == v) = false := by simpa using h
      simp [this]
  | rename u u' =>
    have hv : v ≠ u := hv
    have hv' : v ≠ u' := hr u u' rfl
    simp only [exec, ownedBy]
    induction db with
    | nil => rfl
    | cons x xs ih =>
      simp only [List.map_cons, List.filter_cons]
      by_cases hx : x.owner = u
      · have h1 : (x.owner == u) = true := by simpa using hx
        have h2 : (x.owner == v) = false := by rw [hx]; simpa using (Ne.symm hv)
        have h3 : (u' == v) = false := by simpa using (Ne.symm hv')
        simp only [h1, if_true, h2, h3]
        exact ih
      · have h1 : (x.owner == u) = false := by simpa using hx
        simp only [h1, Bool.false_eq_true, if_false]
        rw [ih]

/-- lifted to every sequence of commands by other users — hence to every interleaving -/
theorem others_untouched_run (v : Nat) : ∀ (cs : List Cmd) (db : List Problem),
    (∀ c ∈ cs, v ≠ c.user ∧ ∀ u u', c = Cmd.rename u u' → v ≠ u') →
    ownedBy v (cs.foldl (fun d c => (exec d c).1) db) = ownedBy v db := by
  intro cs
  induction cs with
  | nil => intro db _; rfl
  | cons c cs ih =>
    intro db h
    simp only [List.foldl_cons]
    rw [ih _ (fun c' hc' => h c' (List.mem_cons_of_mem _ hc'))]
    exact others_untouched db c v (h c (List.mem_cons_self ..)).1 (h c (List.mem_cons_self ..)).2
#print axioms others_untouched_run
#print axioms resp_owned

end IsolationM
