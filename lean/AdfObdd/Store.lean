import Std.Data.HashMap
import AdfObdd.Base
/-! prototype 6: the efficient store (Array + HashMap + memo tables) with the same specs -/

structure Node where
  var : Nat
  lo : Nat
  hi : Nat
deriving DecidableEq, Hashable, Repr

def VBOT : Nat := 18446744073709551614
def VTOP : Nat := 18446744073709551615

structure Store where
  nodes : Array Node
  uniq : Std.HashMap Node Nat
  resC : Std.HashMap (Nat × Nat × Bool) Nat
  iteC : Std.HashMap (Nat × Nat × Nat) Nat

def Store.init : Store :=
  { nodes := #[⟨VBOT, 0, 0⟩, ⟨VTOP, 1, 1⟩], uniq := {}, resC := {}, iteC := {} }

def evalF (ns : Array Node) : Nat → Nat → Asg → Bool
  | 0, _, _ => false
  | fuel+1, t, σ =>
    if t = 0 then false else if t = 1 then true else
    match ns[t]? with
    | none => false
    | some n => if σ n.var then evalF ns fuel n.hi σ else evalF ns fuel n.lo σ

def eval (s : Store) (t : Nat) (σ : Asg) : Bool := evalF s.nodes (t+1) t σ
def topVar (s : Store) (t : Nat) : Nat := match s.nodes[t]? with | some n => n.var | none => VTOP

def mkNode (s : Store) (v lo hi : Nat) : Store × Nat :=
  if lo = hi then (s, lo) else
  match s.uniq[(⟨v, lo, hi⟩ : Node)]? with
  | some t => (s, t)
  | none => ({ s with nodes := s.nodes.push ⟨v, lo, hi⟩, uniq := s.uniq.insert ⟨v, lo, hi⟩ s.nodes.size },
             s.nodes.size)

/-- `mkNode` written so that the compiled code updates a uniquely referenced store in place (the
store is taken apart first, nothing else refers to its tables while they are updated); proved equal
and substituted by the compiler (`@[csimp]`) — theorems keep speaking about `mkNode` -/
def mkNodeL (s : Store) (v lo hi : Nat) : Store × Nat :=
  if lo = hi then (s, lo) else
  match s.uniq[(⟨v, lo, hi⟩ : Node)]? with
  | some t => (s, t)
  | none =>
    match s with
    | ⟨nodes, uniq, resC, iteC⟩ =>
      let k := nodes.size
      (⟨nodes.push ⟨v, lo, hi⟩, uniq.insert ⟨v, lo, hi⟩ k, resC, iteC⟩, k)

@[csimp] theorem mkNode_eq_mkNodeL : @mkNode = @mkNodeL := by
  funext s v lo hi
  unfold mkNode mkNodeL
  split
  · rfl
  · split <;> rfl

def minVar (s : Store) (i t e : Nat) : Nat := min (topVar s i) (min (topVar s t) (topVar s e))

/-- the structural invariant on a bare node table (what a dumped table can be checked for) -/
structure TableWF (ns : Array Node) : Prop where
  len : 2 ≤ ns.size
  bot : ns[0]? = some ⟨VBOT, 0, 0⟩
  top : ns[1]? = some ⟨VTOP, 1, 1⟩
  inner : ∀ i n, 2 ≤ i → ns[i]? = some n →
      n.var < VBOT ∧ n.lo < i ∧ n.hi < i ∧ n.lo ≠ n.hi ∧
      (∀ m, ns[n.lo]? = some m → n.var < m.var) ∧ (∀ m, ns[n.hi]? = some m → n.var < m.var)
  nodup : ∀ i j n, 2 ≤ i → 2 ≤ j → ns[i]? = some n → ns[j]? = some n → i = j

structure WF (s : Store) : Prop where
  len : 2 ≤ s.nodes.size
  bot : s.nodes[0]? = some ⟨VBOT, 0, 0⟩
  top : s.nodes[1]? = some ⟨VTOP, 1, 1⟩
  inner : ∀ i n, 2 ≤ i → s.nodes[i]? = some n →
      n.var < VBOT ∧ n.lo < i ∧ n.hi < i ∧ n.lo ≠ n.hi ∧
      (∀ m, s.nodes[n.lo]? = some m → n.var < m.var) ∧ (∀ m, s.nodes[n.hi]? = some m → n.var < m.var)
  uniqOK : ∀ n t, s.uniq[n]? = some t ↔ (2 ≤ t ∧ s.nodes[t]? = some n)
  resOK : ∀ t v b r, s.resC[(t, v, b)]? = some r →
      t < s.nodes.size ∧ r < s.nodes.size ∧ topVar s t ≤ topVar s r ∧ ∀ σ, eval s r σ = eval s t (upd σ v b)
  iteOK : ∀ i t e r, s.iteC[(i, t, e)]? = some r →
      i < s.nodes.size ∧ t < s.nodes.size ∧ e < s.nodes.size ∧ r < s.nodes.size ∧
      minVar s i t e ≤ topVar s r ∧
      ∀ σ, eval s r σ = if eval s i σ then eval s t σ else eval s e σ

/-- no duplicates follows from the unique table being exact -/
theorem WF.nodup {s : Store} (w : WF s) : ∀ i j n, 2 ≤ i → 2 ≤ j →
    s.nodes[i]? = some n → s.nodes[j]? = some n → i = j := by
  intro i j n hi hj h1 h2
  have a := (w.uniqOK n i).mpr ⟨hi, h1⟩
  have b := (w.uniqOK n j).mpr ⟨hj, h2⟩
  rw [a] at b; cases b; rfl

theorem WF.table {s : Store} (w : WF s) : TableWF s.nodes :=
  ⟨w.len, w.bot, w.top, w.inner, w.nodup⟩

def Ext (s s' : Store) : Prop :=
  s.nodes.size ≤ s'.nodes.size ∧ ∀ (i : Nat) (n : Node), s.nodes[i]? = some n → s'.nodes[i]? = some n

theorem get_of_lt {ns : Array Node} {i : Nat} (h : i < ns.size) : ∃ m, ns[i]? = some m :=
  ⟨ns[i], Array.getElem?_eq_getElem h⟩
theorem lt_of_get {ns : Array Node} {i : Nat} {n : Node} (h : ns[i]? = some n) : i < ns.size := by
  rcases Nat.lt_or_ge i ns.size with h' | h'
  · exact h'
  · simp [Array.getElem?_eq_none h'] at h

theorem evalF_ext {s s' : Store} (w : WF s) (he : Ext s s') :
    ∀ (fuel t : Nat) (σ : Asg), t < s.nodes.size → evalF s'.nodes fuel t σ = evalF s.nodes fuel t σ := by
  intro fuel
  induction fuel with
  | zero => intros; rfl
  | succ f ih =>
    intro t σ ht
    unfold evalF
    by_cases h0 : t = 0
    · simp [h0]
    by_cases h1 : t = 1
    · simp [h1]
    simp only [h0, h1, if_false]
    obtain ⟨n, hn⟩ := get_of_lt ht
    rw [he.2 t n hn, hn]
    have ⟨_, hlo, hhi, _, _, _⟩ := w.inner t n (by omega) hn
    simp only
    rw [ih n.hi σ (by omega), ih n.lo σ (by omega)]

theorem eval_ext {s s' : Store} (w : WF s) (he : Ext s s') (t : Nat) (σ : Asg)
    (ht : t < s.nodes.size) : eval s' t σ = eval s t σ := evalF_ext w he (t+1) t σ ht

theorem topVar_ext {s s' : Store} (he : Ext s s') (t : Nat) (ht : t < s.nodes.size) :
    topVar s' t = topVar s t := by
  obtain ⟨n, hn⟩ := get_of_lt ht
  simp [topVar, he.2 t n hn, hn]

/-- pushing a fresh ordered reduced node and recording it in the unique table keeps `WF`
(memo tables untouched: their facts are about old handles, which evaluate as before) -/
theorem WF_push (s : Store) (w : WF s) (v lo hi : Nat)
    (hlo : lo < s.nodes.size) (hhi : hi < s.nodes.size) (hv : v < VBOT) (hne : lo ≠ hi)
    (hvlo : v < topVar s lo) (hvhi : v < topVar s hi) (hfresh : s.uniq[(⟨v, lo, hi⟩ : Node)]? = none) :
    let s' : Store := { s with nodes := s.nodes.push ⟨v, lo, hi⟩, uniq := s.uniq.insert ⟨v, lo, hi⟩ s.nodes.size }
    WF s' ∧ Ext s s' := by
  intro s'
  have hl := w.len
  have hext : Ext s s' := by
    refine ⟨by simp [s'], ?_⟩
    intro i n hn
    have := lt_of_get hn
    simp only [s', Array.getElem?_push]
    rw [if_neg (by omega)]; exact hn
  have getlt : ∀ i, i < s.nodes.size → s'.nodes[i]? = s.nodes[i]? := by
    intro i hi
    simp only [s', Array.getElem?_push]; rw [if_neg (by omega)]
  have getcases : ∀ i n, s'.nodes[i]? = some n →
      (i < s.nodes.size ∧ s.nodes[i]? = some n) ∨ (i = s.nodes.size ∧ n = ⟨v, lo, hi⟩) := by
    intro i n hn
    simp only [s', Array.getElem?_push] at hn
    by_cases h : i = s.nodes.size
    · right; rw [if_pos h] at hn; cases hn; exact ⟨h, rfl⟩
    · left; rw [if_neg h] at hn; exact ⟨lt_of_get hn, hn⟩
  have evalold : ∀ t σ, t < s.nodes.size → eval s' t σ = eval s t σ :=
    fun t σ ht => eval_ext w hext t σ ht
  refine ⟨?_, hext⟩
  constructor
  · simp [s']; omega
  · rw [getlt 0 (by omega)]; exact w.bot
  · rw [getlt 1 (by omega)]; exact w.top
  · intro i n hi2 hn
    rcases getcases i n hn with ⟨hlt, hn'⟩ | ⟨heq, hx⟩
    · have ⟨a, b, c, d, e, f⟩ := w.inner i n hi2 hn'
      refine ⟨a, b, c, d, ?_, ?_⟩
      · intro m hm; rw [getlt _ (by omega)] at hm; exact e m hm
      · intro m hm; rw [getlt _ (by omega)] at hm; exact f m hm
    · subst hx; subst heq
      refine ⟨hv, hlo, hhi, hne, ?_, ?_⟩
      · intro m hm; rw [getlt _ hlo] at hm; simpa [topVar, hm] using hvlo
      · intro m hm; rw [getlt _ hhi] at hm; simpa [topVar, hm] using hvhi
  · intro n t
    simp only [s', Std.HashMap.getElem?_insert]
    by_cases hk : (⟨v, lo, hi⟩ : Node) = n
    · subst hk
      simp only [beq_self_eq_true, if_true, Option.some.injEq]
      constructor
      · intro h; subst h; exact ⟨hl, by simp⟩
      · intro ⟨ht2, hget⟩
        rcases getcases t _ hget with ⟨hlt, hn'⟩ | ⟨heq, _⟩
        · have := (w.uniqOK _ t).mpr ⟨ht2, hn'⟩; rw [hfresh] at this; cases this
        · exact heq.symm
    · have : ((⟨v, lo, hi⟩ : Node) == n) = false := by simpa using hk
      simp only [this, Bool.false_eq_true, if_false]
      constructor
      · intro h
        have ⟨a, b⟩ := (w.uniqOK n t).mp h
        exact ⟨a, by rw [getlt t (lt_of_get b)]; exact b⟩
      · intro ⟨ht2, hget⟩
        rcases getcases t _ hget with ⟨hlt, hn'⟩ | ⟨_, hx⟩
        · exact (w.uniqOK n t).mpr ⟨ht2, hn'⟩
        · exact absurd hx.symm hk
  · intro t v' b r h
    have ⟨a, b', c, d⟩ := w.resOK t v' b r h
    refine ⟨by have := hext.1; omega, by have := hext.1; omega, ?_, ?_⟩
    · rw [topVar_ext hext t a, topVar_ext hext r b']; exact c
    · intro σ; rw [evalold r σ b', evalold t _ a]; exact d σ
  · intro i t e r h
    have ⟨a, b, c, d, g, f⟩ := w.iteOK i t e r h
    have := hext.1
    refine ⟨by omega, by omega, by omega, by omega, ?_, ?_⟩
    · simp only [minVar]
      rw [topVar_ext hext i a, topVar_ext hext t b, topVar_ext hext e c, topVar_ext hext r d]; exact g
    · intro σ; rw [evalold r σ d, evalold i σ a, evalold t σ b, evalold e σ c]; exact f σ
