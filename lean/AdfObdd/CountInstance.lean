import AdfObdd.CountModel
import AdfObdd.Stable
/-! Facts about the concrete steps of the counting-guided search (`CountModel.lean`): handle-level
    lemmas, the store-threading maps (`applyVec`, `mapRestrict`, `mapFalse`), the cube loops, the
    selection. Used by `CountInstanceProofs.lean` to discharge the laws `GK.CSound`. -/
namespace CI

/-- decided part of a vector of handles -/
def d3 (v : List Nat) : I3 := v.map storeIsConst

theorem d3_get (v : List Nat) (i : Nat) : (d3 v)[i]? = (v[i]?).map storeIsConst := by simp [d3]
theorem d3_length (v : List Nat) : (d3 v).length = v.length := by simp [d3]

theorem sic_zero : storeIsConst 0 = some false := rfl
theorem sic_one : storeIsConst 1 = some true := rfl

theorem sic_some {t : Nat} {b : Bool} : storeIsConst t = some b ↔ t = (if b then 1 else 0) := by
  unfold storeIsConst
  by_cases h0 : t = 0
  · subst h0; cases b <;> simp
  · by_cases h1 : t = 1
    · subst h1; cases b <;> simp
    · rw [if_neg h0, if_neg h1]; cases b <;> simp [h0, h1]

theorem sic_none {t : Nat} : storeIsConst t = none ↔ isTV t = false := by
  unfold storeIsConst isTV
  by_cases h0 : t = 0
  · subst h0; simp
  · by_cases h1 : t = 1
    · subst h1; simp
    · rw [if_neg h0, if_neg h1]; simp; omega

theorem isTV_iff {t : Nat} : isTV t = true ↔ ∃ b, storeIsConst t = some b := by
  cases h : storeIsConst t with
  | none => have := sic_none.mp h; simp [this]
  | some b =>
    have : isTV t ≠ false := fun h' => by rw [sic_none.mpr h'] at h; cases h
    simp; cases hh : isTV t
    · exact absurd hh this
    · rfl

theorem sic_inj {a b : Nat} {x : Bool} (ha : storeIsConst a = some x) (hb : storeIsConst b = some x) : a = b := by
  rw [sic_some.mp ha, sic_some.mp hb]

theorem sic_lt {t : Nat} {b : Bool} (h : storeIsConst t = some b) : t < 2 := by
  rw [sic_some.mp h]; cases b <;> simp

theorem sameInfo_iff {a b : Nat} : sameInfo a b = true ↔ storeIsConst a = storeIsConst b := by
  unfold sameInfo; simp

/-- evaluation of a constant handle -/
theorem eval_const {s : Store} {t : Nat} {b : Bool} (h : storeIsConst t = some b) (σ : Asg) : eval s t σ = b := by
  rw [sic_some.mp h]; cases b
  · exact eval_zero s σ
  · exact eval_one s σ

/-- canonicity: a valid handle denoting a constant function is the constant handle -/
theorem const_of_eval {s : Store} (w : WF s) {t : Nat} (ht : t < s.nodes.size) {b : Bool}
    (h : ∀ σ, eval s t σ = b) : storeIsConst t = some b :=
  (StoreRA.isConst_spec (s := s) (t := t) b w ht).mpr h

/-! ### regions -/

/-- total assignments extending the decided part `w` that are `false` outside the statements -/
def RegI (n : Nat) (w : I3) (σ : Asg) : Prop := Agree σ w ∧ ∀ x, n ≤ x → σ x = false

theorem Le3.refl (w : I3) : Le3 w w := fun _ _ h => h
theorem Le3.trans {a b c : I3} (h1 : Le3 a b) (h2 : Le3 b c) : Le3 a c := fun i b hi => h2 i b (h1 i b hi)

theorem RegI.mono {n : Nat} {w w' : I3} {σ : Asg} (h : RegI n w' σ) (l : Le3 w w') : RegI n w σ :=
  ⟨h.1.mono l, h.2⟩

/-- strict growth of the number of decided positions -/
theorem countSome_lt {w w' : I3} (hl : w.length = w'.length) (l : Le3 w w') {i : Nat} {b : Bool}
    (h1 : w[i]? = some none) (h2 : w'[i]? = some (some b)) : countSome w < countSome w' := by
  have hm := countSome_mono w w' hl l
  rcases Nat.lt_or_ge (countSome w) (countSome w') with h | h
  · exact h
  · have := eq_of_le_count w w' hl l (by omega)
    rw [this, h1] at h2; cases h2

theorem countSome_lt_length {w : I3} {i : Nat} (h : w[i]? = some none) : countSome w < w.length := by
  induction w generalizing i with
  | nil => simp at h
  | cons a w ih =>
    rw [countSome_cons]
    cases i with
    | zero => simp at h; subst h; simp; have := countSome_le_length w; omega
    | succ i =>
      have := ih (i := i) (by simpa using h)
      cases a <;> simp <;> omega

/-! ### store-threading maps -/

/-- the common shape of `applyVec`, `mapRestrict`, `mapFalse` -/
def mapS (f : Store → Nat → Store × Nat) : Store → List Nat → Store × List Nat
  | s, [] => (s, [])
  | s, t :: ts => let r := f s t; let m := mapS f r.1 ts; (m.1, r.2 :: m.2)

/-- `f` computes the handle of `fun σ => eval s t (φ σ)` -/
def Computes (f : Store → Nat → Store × Nat) (φ : Asg → Asg) : Prop :=
  ∀ s t, WF s → t < s.nodes.size →
    WF (f s t).1 ∧ Ext s (f s t).1 ∧ (f s t).2 < (f s t).1.nodes.size ∧
    ∀ σ, eval (f s t).1 (f s t).2 σ = eval s t (φ σ)

theorem mapS_spec {f : Store → Nat → Store × Nat} {φ : Asg → Asg} (hf : Computes f φ) :
    ∀ (xs : List Nat) (s : Store), WF s → (∀ t ∈ xs, t < s.nodes.size) →
    WF (mapS f s xs).1 ∧ Ext s (mapS f s xs).1 ∧ (mapS f s xs).2.length = xs.length ∧
    ∀ (j t : Nat), xs[j]? = some t → ∃ t', (mapS f s xs).2[j]? = some t' ∧ t' < (mapS f s xs).1.nodes.size ∧
      ∀ σ, eval (mapS f s xs).1 t' σ = eval s t (φ σ) := by
  intro xs
  induction xs with
  | nil => intro s w _; exact ⟨w, Ext.refl s, rfl, fun j t h => by simp at h⟩
  | cons x xs ih =>
    intro s w hv
    have hx : x < s.nodes.size := hv x (List.mem_cons_self ..)
    have ⟨w1, e1, v1, d1⟩ := hf s x w hx
    have hv' : ∀ t ∈ xs, t < (f s x).1.nodes.size := fun t ht =>
      Nat.lt_of_lt_of_le (hv t (List.mem_cons_of_mem _ ht)) e1.1
    have ⟨w2, e2, l2, d2⟩ := ih (f s x).1 w1 hv'
    simp only [mapS]
    refine ⟨w2, Ext.trans e1 e2, by simp [l2], ?_⟩
    intro j t hj
    cases j with
    | zero =>
      simp only [List.getElem?_cons_zero, Option.some.injEq] at hj
      subst hj
      refine ⟨(f s x).2, by simp, Nat.lt_of_lt_of_le v1 e2.1, ?_⟩
      intro σ; rw [eval_ext w1 e2 _ σ v1, d1]
    | succ j =>
      simp only [List.getElem?_cons_succ] at hj
      obtain ⟨t', h1, h2, h3⟩ := d2 j t hj
      refine ⟨t', by simpa using h1, h2, ?_⟩
      intro σ
      rw [h3, eval_ext w e1 t _ (hv t (List.mem_cons_of_mem _ (List.mem_of_getElem? hj)))]

theorem applyVec_eq (interp : List Nat) : ∀ (xs : List Nat) (s : Store),
    applyVec s interp xs = mapS (fun s t => restrictBy StoreRA s t 0 interp) s xs := by
  intro xs; induction xs with
  | nil => intro s; rfl
  | cons x xs ih => intro s; simp only [applyVec, mapS, ih]

theorem mapRestrict_eq (v : Nat) (b : Bool) : ∀ (xs : List Nat) (s : Store),
    mapRestrict s v b xs = mapS (fun s t => restrictF (t+1) s t v b) s xs := by
  intro xs; induction xs with
  | nil => intro s; rfl
  | cons x xs ih => intro s; simp only [mapRestrict, mapS, ih]

theorem mapFalse_eq (cand : List Nat) : ∀ (xs : List Nat) (s : Store),
    mapFalse s cand xs = mapS (fun s t => restrictFalse s t 0 cand) s xs := by
  intro xs; induction xs with
  | nil => intro s; rfl
  | cons x xs ih => intro s; simp only [mapFalse, mapS, ih]

theorem computes_restrictBy (interp : List Nat) :
    Computes (fun s t => restrictBy StoreRA s t 0 interp) (fun σ => over σ 0 (d3 interp)) := by
  intro s t w ht
  have ⟨a, b, c, d⟩ := restrictBy_spec StoreRA interp 0 s t w ht
  exact ⟨a, b, c, fun σ => congrFun d σ⟩

theorem computes_restrictF (v : Nat) (b : Bool) :
    Computes (fun s t => restrictF (t+1) s t v b) (fun σ => upd σ v b) := by
  intro s t w ht
  have ⟨a, b', c, _, e⟩ := restrictF_spec (t+1) s t v b w ht (Nat.lt_succ_self _)
  exact ⟨a, b', c, e⟩

theorem restrictFalse_spec : ∀ (cs : List Nat) (k : Nat) (s : Store) (t : Nat), WF s → t < s.nodes.size →
    WF (restrictFalse s t k cs).1 ∧ Ext s (restrictFalse s t k cs).1 ∧
    (restrictFalse s t k cs).2 < (restrictFalse s t k cs).1.nodes.size ∧
    ∀ σ, eval (restrictFalse s t k cs).1 (restrictFalse s t k cs).2 σ = eval s t (over σ k (falsePart (d3 cs))) := by
  intro cs
  induction cs with
  | nil => intro k s t w ht; exact ⟨w, Ext.refl s, ht, fun σ => rfl⟩
  | cons c cs ih =>
    intro k s t w ht
    unfold restrictFalse
    by_cases hc : c = 0
    · subst hc
      simp only [beq_self_eq_true, if_true]
      have ⟨w1, e1, v1, _, d1⟩ := restrictF_spec (t+1) s t k false w ht (Nat.lt_succ_self _)
      have ⟨w2, e2, v2, d2⟩ := ih (k+1) _ _ w1 v1
      refine ⟨w2, Ext.trans e1 e2, v2, ?_⟩
      intro σ
      rw [d2, d1]
      simp only [d3, falsePart, List.map_cons, sic_zero, if_true, over]
      rw [over_upd _ σ k (k+1) false (by omega)]
    · have hb : (c == 0) = false := by simpa using hc
      simp only [hb, Bool.false_eq_true, if_false]
      have ⟨w2, e2, v2, d2⟩ := ih (k+1) s t w ht
      refine ⟨w2, e2, v2, ?_⟩
      intro σ
      rw [d2]
      have : (if storeIsConst c = some false then some false else none : Option Bool) = none := by
        rw [if_neg]; intro h; exact hc (by simpa using sic_some.mp h)
      simp only [d3, falsePart, List.map_cons, this, over]

theorem computes_restrictFalse (cand : List Nat) :
    Computes (fun s t => restrictFalse s t 0 cand) (fun σ => over σ 0 (falsePart (d3 cand))) :=
  fun s t w ht => restrictFalse_spec cand 0 s t w ht

/-! ### the cube loops -/

theorem getD_ne_iff {l : List Nat} {i d x : Nat} (hd : d ≠ x) : l.getD i d = x ↔ l[i]? = some x := by
  rw [List.getD_eq_getElem?_getD]
  cases h : l[i]? with
  | none => simp [hd]
  | some y => simp

theorem negLoop_some (wb : List Nat) : ∀ (vs ni ni' : List Nat), negLoop wb vs ni = some ni' →
    ni'.length = ni.length ∧
    (∀ j, j ∉ vs → ni'[j]? = ni[j]?) ∧
    (∀ j, j ∈ vs → (j < ni.length → ni'[j]? = some 0) ∧ ni[j]? ≠ some 1 ∧ wb[j]? ≠ some 1) := by
  intro vs
  induction vs with
  | nil =>
    intro ni ni' h
    simp only [negLoop, Option.some.injEq] at h
    subst h
    exact ⟨rfl, fun _ _ => rfl, fun j hj => by cases hj⟩
  | cons v vs ih =>
    intro ni ni' h
    unfold negLoop at h
    by_cases hc : (ni.getD v 0 == 1 || wb.getD v 2 == 1) = true
    · rw [if_pos hc] at h; cases h
    · rw [if_neg hc] at h
      simp only [Bool.or_eq_true, beq_iff_eq, not_or] at hc
      have hc1 : ni[v]? ≠ some 1 := fun e => hc.1 ((getD_ne_iff (by decide)).mpr e)
      have hc2 : wb[v]? ≠ some 1 := fun e => hc.2 ((getD_ne_iff (by decide)).mpr e)
      have ⟨l1, a1, b1⟩ := ih _ _ h
      refine ⟨by rw [l1, List.length_set], ?_, ?_⟩
      · intro j hj
        have hjv : j ≠ v := fun e => hj (e ▸ List.mem_cons_self ..)
        have hjvs : j ∉ vs := fun e => hj (List.mem_cons_of_mem _ e)
        rw [a1 j hjvs, List.getElem?_set_ne (Ne.symm hjv)]
      · intro j hj
        by_cases hjvs : j ∈ vs
        · have ⟨x1, x2, x3⟩ := b1 j hjvs
          refine ⟨fun hl => x1 (by rw [List.length_set]; exact hl), ?_, x3⟩
          by_cases hjv : j = v
          · subst hjv; exact hc1
          · rw [List.getElem?_set_ne (Ne.symm hjv)] at x2; exact x2
        · have hjv : j = v := by
            rcases List.mem_cons.mp hj with e | e
            · exact e
            · exact absurd e hjvs
          subst hjv
          refine ⟨fun hl => ?_, hc1, hc2⟩
          rw [a1 j hjvs, List.getElem?_set_self hl]

theorem posLoop_some (wb : List Nat) : ∀ (vs ni ni' : List Nat), posLoop wb vs ni = some ni' →
    ni'.length = ni.length ∧
    (∀ j, j ∉ vs → ni'[j]? = ni[j]?) ∧
    (∀ j, j ∈ vs → j < ni.length ∧ ni'[j]? = some 1 ∧ ni[j]? ≠ some 0 ∧ wb[j]? ≠ some 0) := by
  intro vs
  induction vs with
  | nil =>
    intro ni ni' h
    simp only [posLoop, Option.some.injEq] at h
    subst h
    exact ⟨rfl, fun _ _ => rfl, fun j hj => by cases hj⟩
  | cons v vs ih =>
    intro ni ni' h
    unfold posLoop at h
    by_cases hc : ((isTV (ni.getD v 0) && ni.getD v 0 != 1) || wb.getD v 2 == 0) = true
    · rw [if_pos hc] at h; cases h
    · rw [if_neg hc] at h
      simp only [Bool.or_eq_true, Bool.and_eq_true, beq_iff_eq, not_or, bne_iff_ne] at hc
      have hc2 : wb[v]? ≠ some 0 := fun e => hc.2 ((getD_ne_iff (by decide)).mpr e)
      have hg : ni.getD v 0 ≠ 0 := by
        intro e; apply hc.1; rw [e]; exact ⟨rfl, by decide⟩
      have hlt : v < ni.length := by
        rcases Nat.lt_or_ge v ni.length with h' | h'
        · exact h'
        · exfalso; apply hg; rw [List.getD_eq_getElem?_getD, List.getElem?_eq_none h']; rfl
      have hc1 : ni[v]? ≠ some 0 := by
        intro e; apply hg; rw [List.getD_eq_getElem?_getD, e]; rfl
      have ⟨l1, a1, b1⟩ := ih _ _ h
      refine ⟨by rw [l1, List.length_set], ?_, ?_⟩
      · intro j hj
        have hjv : j ≠ v := fun e => hj (e ▸ List.mem_cons_self ..)
        have hjvs : j ∉ vs := fun e => hj (List.mem_cons_of_mem _ e)
        rw [a1 j hjvs, List.getElem?_set_ne (Ne.symm hjv)]
      · intro j hj
        by_cases hjvs : j ∈ vs
        · have ⟨x0, x1, x2, x3⟩ := b1 j hjvs
          refine ⟨by rw [List.length_set] at x0; exact x0, x1, ?_, x3⟩
          by_cases hjv : j = v
          · subst hjv; exact hc1
          · rw [List.getElem?_set_ne (Ne.symm hjv)] at x2; exact x2
        · have hjv : j = v := by
            rcases List.mem_cons.mp hj with e | e
            · exact e
            · exact absurd e hjvs
          subst hjv
          refine ⟨hlt, ?_, hc1, hc2⟩
          rw [a1 j hjvs, List.getElem?_set_self hlt]

theorem negLoop_none (wb : List Nat) : ∀ (vs ni : List Nat), negLoop wb vs ni = none →
    ∃ x ∈ vs, ni[x]? = some 1 ∨ wb[x]? = some 1 := by
  intro vs
  induction vs with
  | nil => intro ni h; simp [negLoop] at h
  | cons v vs ih =>
    intro ni h
    unfold negLoop at h
    by_cases hc : (ni.getD v 0 == 1 || wb.getD v 2 == 1) = true
    · simp only [Bool.or_eq_true, beq_iff_eq] at hc
      refine ⟨v, List.mem_cons_self .., ?_⟩
      rcases hc with e | e
      · exact Or.inl ((getD_ne_iff (by decide)).mp e)
      · exact Or.inr ((getD_ne_iff (by decide)).mp e)
    · rw [if_neg hc] at h
      obtain ⟨x, hx, hh⟩ := ih _ h
      refine ⟨x, List.mem_cons_of_mem _ hx, ?_⟩
      rcases hh with e | e
      · left
        by_cases hxv : x = v
        · subst hxv
          rcases Nat.lt_or_ge x ni.length with hl | hl
          · rw [List.getElem?_set_self hl] at e; cases e
          · rw [List.getElem?_eq_none (by rw [List.length_set]; exact hl)] at e; cases e
        · rw [List.getElem?_set_ne (Ne.symm hxv)] at e; exact e
      · exact Or.inr e

theorem posLoop_none (wb : List Nat) : ∀ (vs ni : List Nat), posLoop wb vs ni = none →
    ∃ x ∈ vs, ni.length ≤ x ∨ ni[x]? = some 0 ∨ wb[x]? = some 0 := by
  intro vs
  induction vs with
  | nil => intro ni h; simp [posLoop] at h
  | cons v vs ih =>
    intro ni h
    unfold posLoop at h
    by_cases hc : ((isTV (ni.getD v 0) && ni.getD v 0 != 1) || wb.getD v 2 == 0) = true
    · simp only [Bool.or_eq_true, Bool.and_eq_true, beq_iff_eq, bne_iff_ne] at hc
      refine ⟨v, List.mem_cons_self .., ?_⟩
      rcases hc with ⟨e1, e2⟩ | e
      · have h0 : ni.getD v 0 = 0 := by
          unfold isTV at e1; simp only [decide_eq_true_eq] at e1; omega
        rcases Nat.lt_or_ge v ni.length with hl | hl
        · right; left
          rw [List.getD_eq_getElem?_getD, List.getElem?_eq_getElem hl] at h0
          rw [List.getElem?_eq_getElem hl]; simpa using h0
        · exact Or.inl hl
      · exact Or.inr (Or.inr ((getD_ne_iff (by decide)).mp e))
    · rw [if_neg hc] at h
      obtain ⟨x, hx, hh⟩ := ih _ h
      refine ⟨x, List.mem_cons_of_mem _ hx, ?_⟩
      rcases hh with e | e | e
      · left; rw [List.length_set] at e; exact e
      · right; left
        by_cases hxv : x = v
        · subst hxv
          rcases Nat.lt_or_ge x ni.length with hl | hl
          · rw [List.getElem?_set_self hl] at e; cases e
          · rw [List.getElem?_eq_none (by rw [List.length_set]; exact hl)] at e; cases e
        · rw [List.getElem?_set_ne (Ne.symm hxv)] at e; exact e
      · exact Or.inr (Or.inr e)

/-- what an accepted cube does to the vector -/
theorem applyCube_some {interp wb : List Nat} {cu : PCube} {ni : List Nat}
    (h : applyCube interp wb cu = some ni) :
    ni.length = interp.length ∧
    (∀ j, j ∉ cu.1 → j ∉ cu.2 → ni[j]? = interp[j]?) ∧
    (∀ j, j ∈ cu.1 → (j < interp.length → ni[j]? = some 0) ∧ interp[j]? ≠ some 1) ∧
    (∀ j, j ∈ cu.2 → ni[j]? = some 1 ∧ interp[j]? ≠ some 0) := by
  unfold applyCube at h
  cases hn : negLoop wb cu.1 interp with
  | none => rw [hn] at h; cases h
  | some ni1 =>
    rw [hn] at h
    simp only at h
    have ⟨l1, a1, b1⟩ := negLoop_some wb _ _ _ hn
    have ⟨l2, a2, b2⟩ := posLoop_some wb _ _ _ h
    refine ⟨by rw [l2, l1], ?_, ?_, ?_⟩
    · intro j h1 h2; rw [a2 j h2, a1 j h1]
    · intro j hj
      have ⟨x1, x2, _⟩ := b1 j hj
      refine ⟨fun hl => ?_, x2⟩
      have hj2 : j ∉ cu.2 := by
        intro hp
        have ⟨_, _, y2, _⟩ := b2 j hp
        exact y2 (x1 hl)
      rw [a2 j hj2]; exact x1 hl
    · intro j hj
      have ⟨y0, y1, y2, _⟩ := b2 j hj
      refine ⟨y1, ?_⟩
      by_cases hj1 : j ∈ cu.1
      · exact absurd ((b1 j hj1).1 (by rw [← l1]; exact y0)) y2
      · rw [← a1 j hj1]; exact y2

/-- every entry of the new vector is the old entry or a constant -/
theorem applyCube_prov {interp wb : List Nat} {cu : PCube} {ni : List Nat}
    (h : applyCube interp wb cu = some ni) (j t : Nat) (hj : ni[j]? = some t) :
    interp[j]? = some t ∨ t = 0 ∨ t = 1 := by
  have ⟨l, a, b, c⟩ := applyCube_some h
  have hjl : j < interp.length := by
    rw [← l]
    rcases Nat.lt_or_ge j ni.length with h' | h'
    · exact h'
    · rw [List.getElem?_eq_none h'] at hj; cases hj
  by_cases h1 : j ∈ cu.1
  · have := (b j h1).1 hjl; rw [this] at hj; cases hj; exact Or.inr (Or.inl rfl)
  · by_cases h2 : j ∈ cu.2
    · have := (c j h2).1; rw [this] at hj; cases hj; exact Or.inr (Or.inr rfl)
    · rw [a j h1 h2] at hj; exact Or.inl hj

/-- decided positions keep their value -/
theorem applyCube_le {interp wb : List Nat} {cu : PCube} {ni : List Nat}
    (h : applyCube interp wb cu = some ni) : ∀ (j t : Nat), interp[j]? = some t → isTV t = true → ni[j]? = some t := by
  intro j t hj ht
  have ⟨l, a, b, c⟩ := applyCube_some h
  have hjl : j < interp.length := by
    rcases Nat.lt_or_ge j interp.length with h' | h'
    · exact h'
    · rw [List.getElem?_eq_none h'] at hj; cases hj
  have ht2 : t = 0 ∨ t = 1 := by unfold isTV at ht; simp only [decide_eq_true_eq] at ht; omega
  by_cases h1 : j ∈ cu.1
  · have ⟨x1, x2⟩ := b j h1
    rcases ht2 with e | e
    · subst e; exact x1 hjl
    · subst e; exact absurd hj x2
  · by_cases h2 : j ∈ cu.2
    · have ⟨x1, x2⟩ := c j h2
      rcases ht2 with e | e
      · subst e; exact absurd hj x2
      · subst e; exact x1
    · rw [a j h1 h2]; exact hj

/-- the cube's literals are decided in the new vector (negative ones if in range) -/
theorem applyCube_lits {interp wb : List Nat} {cu : PCube} {ni : List Nat}
    (h : applyCube interp wb cu = some ni) :
    (∀ j ∈ cu.1, j < interp.length → ni[j]? = some 0) ∧ (∀ j ∈ cu.2, ni[j]? = some 1) :=
  ⟨fun j hj hl => ((applyCube_some h).2.2.1 j hj).1 hl, fun j hj => ((applyCube_some h).2.2.2 j hj).1⟩

/-- new decided positions are cube literals -/
theorem applyCube_new {interp wb : List Nat} {cu : PCube} {ni : List Nat}
    (h : applyCube interp wb cu = some ni) (j t : Nat) (hj : ni[j]? = some t) :
    interp[j]? = some t ∨ (t = 0 ∧ j ∈ cu.1) ∨ (t = 1 ∧ j ∈ cu.2) := by
  have ⟨l, a, b, c⟩ := applyCube_some h
  have hjl : j < interp.length := by
    rw [← l]
    rcases Nat.lt_or_ge j ni.length with h' | h'
    · exact h'
    · rw [List.getElem?_eq_none h'] at hj; cases hj
  by_cases h1 : j ∈ cu.1
  · have := (b j h1).1 hjl; rw [this] at hj; cases hj; exact Or.inr (Or.inl ⟨rfl, h1⟩)
  · by_cases h2 : j ∈ cu.2
    · have := (c j h2).1; rw [this] at hj; cases hj; exact Or.inr (Or.inr ⟨rfl, h2⟩)
    · rw [a j h1 h2] at hj; exact Or.inl hj

/-- `will_be[i]` constant ⇒ the vector holds the same constant -/
def WB (interp wb : List Nat) : Prop := ∀ (j t : Nat), wb[j]? = some t → isTV t = true → interp[j]? = some t

/-- a rejected cube contains no assignment of the region -/
theorem applyCube_none {n : Nat} {interp wb : List Nat} {cu : PCube} (hl : interp.length = n)
    (hwb : WB interp wb) (h : applyCube interp wb cu = none) (σ : Asg)
    (hr : RegI n (d3 interp) σ) (hc : InPC cu σ) : False := by
  have val : ∀ (x t : Nat) (b : Bool), interp[x]? = some t → storeIsConst t = some b → σ x = b := by
    intro x t b hx hb
    exact hr.1 x b (by rw [d3_get, hx]; simp [hb])
  unfold applyCube at h
  cases hn : negLoop wb cu.1 interp with
  | none =>
    obtain ⟨x, hx, hh⟩ := negLoop_none wb _ _ hn
    have hi : interp[x]? = some 1 := by
      rcases hh with e | e
      · exact e
      · exact hwb x 1 e rfl
    have := val x 1 true hi rfl
    rw [hc.1 x hx] at this; cases this
  | some ni1 =>
    rw [hn] at h
    simp only at h
    have ⟨l1, a1, b1⟩ := negLoop_some wb _ _ _ hn
    obtain ⟨x, hx, hh⟩ := posLoop_none wb _ _ h
    have hσ := hc.2 x hx
    have hi0 : interp[x]? = some 0 → False := by
      intro hi
      have := val x 0 false hi rfl
      rw [hσ] at this; cases this
    rcases hh with e | e | e
    · have := hr.2 x (by omega)
      rw [hσ] at this; cases this
    · by_cases hxn : x ∈ cu.1
      · have := hc.1 x hxn
        rw [hσ] at this; cases this
      · rw [a1 x hxn] at e; exact hi0 e
    · exact hi0 (hwb x 0 e rfl)

/-! ### the selection -/

theorem minBy_mem (cmp : (Nat × Nat) → (Nat × Nat) → Ordering) : ∀ (l : List (Nat × Nat)) (x : Nat × Nat),
    minBy cmp l = some x → x ∈ l := by
  intro l x h
  cases l with
  | nil => simp [minBy] at h
  | cons y ys =>
    simp only [minBy, Option.some.injEq] at h
    subst h
    have : ∀ (ys : List (Nat × Nat)) (y : Nat × Nat),
        ys.foldl (fun m z => if cmp m z == .gt then z else m) y ∈ y :: ys := by
      intro ys
      induction ys with
      | nil => intro y; simp
      | cons z zs ih =>
        intro y
        simp only [List.foldl_cons]
        by_cases hc : (cmp y z == .gt) = true
        · rw [if_pos hc]
          have := ih z
          rcases List.mem_cons.mp this with e | e
          · rw [e]; simp
          · exact List.mem_cons_of_mem _ (List.mem_cons_of_mem _ e)
        · rw [if_neg hc]
          have := ih y
          rcases List.mem_cons.mp this with e | e
          · rw [e]; simp
          · exact List.mem_cons_of_mem _ (List.mem_cons_of_mem _ e)
    exact this ys y

theorem minBy_none (cmp : (Nat × Nat) → (Nat × Nat) → Ordering) (l : List (Nat × Nat))
    (h : minBy cmp l = none) : l = [] := by
  cases l with
  | nil => rfl
  | cons y ys => simp [minBy] at h

theorem candidates_mem {c : CState} {i t : Nat} :
    (i, t) ∈ candidates c ↔ c.1[i]? = some t ∧ isTV t = false ∧ isTV (c.2.getD i 2) = false := by
  unfold candidates
  simp only [List.mem_map, List.mem_filter, Prod.exists, Prod.mk.injEq, Bool.not_eq_true', Bool.or_eq_false_iff,
    List.mem_zipIdx_iff_getElem?]
  constructor
  · rintro ⟨a, b, ⟨h1, h2, h3⟩, rfl, rfl⟩; exact ⟨h1, h2, h3⟩
  · intro ⟨h1, h2, h3⟩; exact ⟨t, i, ⟨h1, h2, h3⟩, rfl, rfl⟩

theorem pick_some {ac : List Nat} {useA u : Bool} {s : Store} {c : CState} {idx : Nat}
    (h : (countParams ac useA u).pick s c = some idx) :
    ∃ a, c.1[idx]? = some a ∧ isTV a = false ∧ isTV (c.2.getD idx 2) = false := by
  simp only [countParams, Option.map_eq_some_iff] at h
  obtain ⟨⟨i, t⟩, hm, rfl⟩ := h
  have := minBy_mem _ _ _ hm
  exact ⟨t, candidates_mem.mp this⟩

theorem pick_none {ac : List Nat} {useA u : Bool} {s : Store} {c : CState}
    (h : (countParams ac useA u).pick s c = none) (i t : Nat) (hi : c.1[i]? = some t) :
    isTV t = true ∨ isTV (c.2.getD i 2) = true := by
  simp only [countParams, Option.map_eq_none_iff] at h
  have hnil := minBy_none _ _ h
  cases h1 : isTV t with
  | true => exact Or.inl rfl
  | false =>
    cases h2 : isTV (c.2.getD i 2) with
    | true => exact Or.inr rfl
    | false =>
      have : (i, t) ∈ candidates c := candidates_mem.mpr ⟨hi, h1, h2⟩
      rw [hnil] at this; cases this

end CI
