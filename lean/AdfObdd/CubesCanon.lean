import AdfObdd.Cubes
/-! # Canonicity ACROSS node tables, and the canonical cube list

Two well-formed node tables (e.g. the table of an object after an arbitrary call history and the table of the
freshly built object).  Handles that denote the same Boolean function are roots of ISOMORPHIC reduced ordered
diagrams: both are constants (and then equal), or both are inner nodes with the same variable whose low / high
children denote the same functions again (`iso_step`).  Consequently everything computed by structural recursion
over the diagram reading only variables and the constants is a function of the DENOTATION; here: the list of
path cubes `cubesF` (`Bdd::interpretations`), same literals in the same order (`cubesF_den`). -/
namespace CubesCanon

/-- an inner node's function really depends on the node's variable -/
theorem inner_depends (s : Store) (w : WF s) (t : Nat) (n : Node) (ht : 2 ≤ t) (hn : s.nodes[t]? = some n) :
    ¬ ∀ σ, eval s t (upd σ n.var false) = eval s t (upd σ n.var true) := by
  intro h
  have ⟨_, hlo, hhi, hne, _, _⟩ := w.inner t n ht hn
  have hlen := lt_of_get hn
  apply hne
  apply (canonical s w n.lo n.hi (by omega) (by omega)).mp
  intro σ
  rw [eval_lo s w t n ht hn, eval_hi s w t n ht hn, h]

/-- a constant handle denotes a constant -/
theorem eval_lt2 (s : Store) (t : Nat) (h : t < 2) (σ : Asg) : eval s t σ = decide (t = 1) := by
  rcases (by omega : t = 0 ∨ t = 1) with rfl | rfl
  · rw [eval_zero]; rfl
  · rw [eval_one]; rfl

/-- a constant and an inner node never denote the same function -/
theorem const_ne_inner (s s' : Store) (w' : WF s') (a b : Nat) (ha : a < 2) (hb : 2 ≤ b) (hbs : b < s'.nodes.size)
    (e : eval s a = eval s' b) : False := by
  obtain ⟨n, hn⟩ := get_of_lt hbs
  apply inner_depends s' w' b n hb hn
  intro σ
  rw [← e, eval_lt2 s a ha, eval_lt2 s a ha]

/-- **one step of the isomorphism**: handles of two well-formed tables that denote the same function are both
constants and equal, or both inner nodes with the same variable and children that denote the same functions -/
theorem iso_step (s s' : Store) (w : WF s) (w' : WF s') (a b : Nat) (ha : a < s.nodes.size) (hb : b < s'.nodes.size)
    (e : eval s a = eval s' b) :
    (a < 2 ∧ b < 2 ∧ a = b) ∨
    (2 ≤ a ∧ 2 ≤ b ∧ ∃ na nb, s.nodes[a]? = some na ∧ s'.nodes[b]? = some nb ∧ na.var = nb.var ∧
      eval s na.lo = eval s' nb.lo ∧ eval s na.hi = eval s' nb.hi) := by
  by_cases ha2 : a < 2
  · by_cases hb2 : b < 2
    · left
      refine ⟨ha2, hb2, ?_⟩
      have h0 := congrFun e (fun _ => false)
      rw [eval_lt2 s a ha2, eval_lt2 s' b hb2] at h0
      have : (a = 1) ↔ (b = 1) := by simpa using h0
      omega
    · exact (const_ne_inner s s' w' a b ha2 (by omega) hb e).elim
  · by_cases hb2 : b < 2
    · exact (const_ne_inner s' s w b a hb2 (by omega) ha e.symm).elim
    · right
      obtain ⟨na, hna⟩ := get_of_lt ha
      obtain ⟨nb, hnb⟩ := get_of_lt hb
      have hv : na.var = nb.var := by
        rcases Nat.lt_trichotomy na.var nb.var with hv | hv | hv
        · exfalso
          apply inner_depends s w a na (by omega) hna
          intro σ
          rw [e]
          apply eval_indep s' w' b nb hnb
          intro x hx; simp only [upd]; split <;> first | omega | rfl
        · exact hv
        · exfalso
          apply inner_depends s' w' b nb (by omega) hnb
          intro σ
          rw [← e]
          apply eval_indep s w a na hna
          intro x hx; simp only [upd]; split <;> first | omega | rfl
      refine ⟨by omega, by omega, na, nb, hna, hnb, hv, ?_, ?_⟩
      · funext σ
        rw [eval_lo s w a na (by omega) hna, eval_lo s' w' b nb (by omega) hnb, hv, e]
      · funext σ
        rw [eval_hi s w a na (by omega) hna, eval_hi s' w' b nb (by omega) hnb, hv, e]

/-- **the canonical cube list** (general accumulators and fuels): on two well-formed tables, handles denoting the
same function have the same list of path cubes - same literals, same order -/
theorem cubesF_den_aux (s s' : Store) (w : WF s) (w' : WF s') (goal : Bool) (gv : Nat) :
    ∀ (fuel fuel' t t' : Nat) (neg pos : List Nat), t < s.nodes.size → t' < s'.nodes.size → t < fuel → t' < fuel' →
      eval s t = eval s' t' →
      cubesF s fuel t goal gv neg pos = cubesF s' fuel' t' goal gv neg pos := by
  intro fuel
  induction fuel with
  | zero => intro _ t _ _ _ _ _ h; omega
  | succ f ih =>
    intro fuel' t t' neg pos ht ht' hf hf' e
    cases fuel' with
    | zero => omega
    | succ f' =>
      rcases iso_step s s' w w' t t' ht ht' e with ⟨h1, h2, _⟩ | ⟨h1, h2, na, nb, hna, hnb, hv, elo, ehi⟩
      · unfold cubesF; rw [if_pos h1, if_pos h2]
      · have ⟨_, hlo, hhi, _, _, _⟩ := w.inner t na h1 hna
        have ⟨_, hlo', hhi', _, _, _⟩ := w'.inner t' nb h2 hnb
        -- children: constants coincide, inner children have equal lists
        have hiC : (na.hi < 2 ↔ nb.hi < 2) ∧ (na.hi < 2 → na.hi = nb.hi) := by
          rcases iso_step s s' w w' na.hi nb.hi (by omega) (by omega) ehi with ⟨a, b, c⟩ | ⟨a, b, _⟩
          · exact ⟨⟨fun _ => b, fun _ => a⟩, fun _ => c⟩
          · exact ⟨⟨fun x => by omega, fun x => by omega⟩, fun x => by omega⟩
        have loC : (na.lo < 2 ↔ nb.lo < 2) ∧ (na.lo < 2 → na.lo = nb.lo) := by
          rcases iso_step s s' w w' na.lo nb.lo (by omega) (by omega) elo with ⟨a, b, c⟩ | ⟨a, b, _⟩
          · exact ⟨⟨fun _ => b, fun _ => a⟩, fun _ => c⟩
          · exact ⟨⟨fun x => by omega, fun x => by omega⟩, fun x => by omega⟩
        have rhi := ih f' na.hi nb.hi neg (pos ++ [na.var]) (by omega) (by omega) (by omega) (by omega) ehi
        have rlo := ih f' na.lo nb.lo (neg ++ [na.var]) pos (by omega) (by omega) (by omega) (by omega) elo
        unfold cubesF
        rw [if_neg (by omega), if_neg (by omega)]
        simp only [hna, hnb]
        rw [← hv]
        congr 1
        · by_cases hc : gv ≠ na.var ∨ goal = true
          · rw [if_pos hc, if_pos hc]
            by_cases hl : na.hi < 2
            · rw [if_pos hl, if_pos (hiC.1.mp hl), ← hiC.2 hl]
            · rw [if_neg hl, if_neg (fun x => hl (hiC.1.mpr x)), rhi]
          · rw [if_neg hc, if_neg hc]
        · by_cases hc : gv ≠ na.var ∨ goal = false
          · rw [if_pos hc, if_pos hc]
            by_cases hl : na.lo < 2
            · rw [if_pos hl, if_pos (loC.1.mp hl), ← loC.2 hl]
            · rw [if_neg hl, if_neg (fun x => hl (loC.1.mpr x)), rlo]
          · rw [if_neg hc, if_neg hc]

/-- **canonical-cube-list theorem**: `Bdd::interpretations` of a handle, as the search calls it, is a function of
the handle's DENOTATION -/
theorem cubesF_den (s s' : Store) (w : WF s) (w' : WF s') (t t' : Nat) (ht : t < s.nodes.size) (ht' : t' < s'.nodes.size)
    (e : eval s t = eval s' t') (goal : Bool) (gv : Nat) (neg pos : List Nat) :
    cubesF s (t + 1) t goal gv neg pos = cubesF s' (t' + 1) t' goal gv neg pos :=
  cubesF_den_aux s s' w w' goal gv (t + 1) (t' + 1) t t' neg pos ht ht' (Nat.lt_succ_self _) (Nat.lt_succ_self _) e

end CubesCanon

#print axioms CubesCanon.iso_step
#print axioms CubesCanon.cubesF_den
