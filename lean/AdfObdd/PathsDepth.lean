import AdfObdd.CountsDef
/-! C13, path and depth clauses: the unfolding of a diagram into its list of root-to-leaf paths
    (`pathsList`), the relation "is a root-to-leaf path" (`IsPath`), and the facts that
    * `pathsList` enumerates exactly the root-to-leaf paths, each once;
    * `pathsF` (the path component of `modelcount_naive`) counts the paths that end in ⊥ / ⊤;
    * the depth component of `countF` is the length of a longest path.
    No Mathlib in the import closure. -/

/-- a path: the decisions taken (variable, branch) from the root, and the terminal reached -/
abbrev DPath := List (Nat × Bool) × Bool

/-- all root-to-leaf paths of the unfolding of the diagram rooted at `t` (lo subtree first) -/
def pathsList (s : Store) : Nat → Nat → List DPath
  | 0, _ => []
  | fuel+1, t =>
    if t = 1 then [([], true)] else if t = 0 then [([], false)] else
    match s.nodes[t]? with
    | none => []
    | some n =>
      (pathsList s fuel n.lo).map (fun p => ((n.var, false) :: p.1, p.2)) ++
      (pathsList s fuel n.hi).map (fun p => ((n.var, true) :: p.1, p.2))

/-- `IsPath s t p b`: following the decisions `p` from handle `t` ends in the terminal `b` -/
inductive IsPath (s : Store) : Nat → List (Nat × Bool) → Bool → Prop
  | bot : IsPath s 0 [] false
  | top : IsPath s 1 [] true
  | lo {t : Nat} {n : Node} {p : List (Nat × Bool)} {b : Bool} :
      2 ≤ t → s.nodes[t]? = some n → IsPath s n.lo p b → IsPath s t ((n.var, false) :: p) b
  | hi {t : Nat} {n : Node} {p : List (Nat × Bool)} {b : Bool} :
      2 ≤ t → s.nodes[t]? = some n → IsPath s n.hi p b → IsPath s t ((n.var, true) :: p) b

/-- an assignment follows a path -/
def Follows (σ : Asg) (p : List (Nat × Bool)) : Prop := ∀ d ∈ p, σ d.1 = d.2

/-! ### unfolding equations -/

theorem pathsList_one (s : Store) (f : Nat) : pathsList s (f+1) 1 = [([], true)] := by
  simp [pathsList]
theorem pathsList_zero (s : Store) (f : Nat) : pathsList s (f+1) 0 = [([], false)] := by
  simp [pathsList]
theorem pathsList_node (s : Store) (f t : Nat) (n : Node) (ht : 2 ≤ t) (hn : s.nodes[t]? = some n) :
    pathsList s (f+1) t =
      (pathsList s f n.lo).map (fun p => ((n.var, false) :: p.1, p.2)) ++
      (pathsList s f n.hi).map (fun p => ((n.var, true) :: p.1, p.2)) := by
  conv => lhs; unfold pathsList
  rw [if_neg (by omega), if_neg (by omega)]; simp only [hn]

theorem pathsF_one (s : Store) (f : Nat) : pathsF s (f+1) 1 = (0, 1) := by simp [pathsF]
theorem pathsF_zero (s : Store) (f : Nat) : pathsF s (f+1) 0 = (1, 0) := by simp [pathsF]
theorem pathsF_node (s : Store) (f t : Nat) (n : Node) (ht : 2 ≤ t) (hn : s.nodes[t]? = some n) :
    pathsF s (f+1) t = ((pathsF s f n.lo).1 + (pathsF s f n.hi).1, (pathsF s f n.lo).2 + (pathsF s f n.hi).2) := by
  conv => lhs; unfold pathsF
  rw [if_neg (by omega), if_neg (by omega)]; simp only [hn]

theorem countF_one (s : Store) (f : Nat) : countF s (f+1) 1 = (0, 1, 0) := by simp [countF]
theorem countF_zero (s : Store) (f : Nat) : countF s (f+1) 0 = (1, 0, 0) := by simp [countF]
theorem countF_node (s : Store) (f t : Nat) (n : Node) (ht : 2 ≤ t) (hn : s.nodes[t]? = some n) :
    countF s (f+1) t =
      ((countF s f n.lo).1 * 2 ^ (max (countF s f n.lo).2.2 (countF s f n.hi).2.2 - (countF s f n.lo).2.2) +
         (countF s f n.hi).1 * 2 ^ (max (countF s f n.lo).2.2 (countF s f n.hi).2.2 - (countF s f n.hi).2.2),
       (countF s f n.lo).2.1 * 2 ^ (max (countF s f n.lo).2.2 (countF s f n.hi).2.2 - (countF s f n.lo).2.2) +
         (countF s f n.hi).2.1 * 2 ^ (max (countF s f n.lo).2.2 (countF s f n.hi).2.2 - (countF s f n.hi).2.2),
       max (countF s f n.lo).2.2 (countF s f n.hi).2.2 + 1) := by
  conv => lhs; unfold countF
  rw [if_neg (by omega), if_neg (by omega)]; simp only [hn]

/-! ### fuel irrelevance (structural invariant of the bare table suffices) -/

theorem pathsList_fuel (s : Store) (h : TableWF s.nodes) :
    ∀ (t fuel : Nat), t < fuel → pathsList s fuel t = pathsList s (t+1) t := by
  intro t
  induction t using Nat.strongRecOn with
  | _ t ih =>
    intro fuel hlt
    cases fuel with
    | zero => omega
    | succ f =>
      by_cases h1 : t = 1
      · subst h1; rw [pathsList_one, pathsList_one]
      by_cases h0 : t = 0
      · subst h0; rw [pathsList_zero, pathsList_zero]
      cases hn : s.nodes[t]? with
      | none => unfold pathsList; simp [h0, h1, hn]
      | some n =>
        have ⟨_, hlo, hhi, _, _, _⟩ := h.inner t n (by omega) hn
        rw [pathsList_node s f t n (by omega) hn, pathsList_node s t t n (by omega) hn,
            ih n.lo hlo f (by omega), ih n.hi hhi f (by omega),
            ih n.lo hlo t (by omega), ih n.hi hhi t (by omega)]

theorem pathsF_fuel (s : Store) (h : TableWF s.nodes) :
    ∀ (t fuel : Nat), t < fuel → pathsF s fuel t = pathsF s (t+1) t := by
  intro t
  induction t using Nat.strongRecOn with
  | _ t ih =>
    intro fuel hlt
    cases fuel with
    | zero => omega
    | succ f =>
      by_cases h1 : t = 1
      · subst h1; rw [pathsF_one, pathsF_one]
      by_cases h0 : t = 0
      · subst h0; rw [pathsF_zero, pathsF_zero]
      cases hn : s.nodes[t]? with
      | none => unfold pathsF; simp [h0, h1, hn]
      | some n =>
        have ⟨_, hlo, hhi, _, _, _⟩ := h.inner t n (by omega) hn
        rw [pathsF_node s f t n (by omega) hn, pathsF_node s t t n (by omega) hn,
            ih n.lo hlo f (by omega), ih n.hi hhi f (by omega),
            ih n.lo hlo t (by omega), ih n.hi hhi t (by omega)]

theorem countF_fuel (s : Store) (h : TableWF s.nodes) :
    ∀ (t fuel : Nat), t < fuel → countF s fuel t = countF s (t+1) t := by
  intro t
  induction t using Nat.strongRecOn with
  | _ t ih =>
    intro fuel hlt
    cases fuel with
    | zero => omega
    | succ f =>
      by_cases h1 : t = 1
      · subst h1; rw [countF_one, countF_one]
      by_cases h0 : t = 0
      · subst h0; rw [countF_zero, countF_zero]
      cases hn : s.nodes[t]? with
      | none => unfold countF; simp [h0, h1, hn]
      | some n =>
        have ⟨_, hlo, hhi, _, _, _⟩ := h.inner t n (by omega) hn
        rw [countF_node s f t n (by omega) hn, countF_node s t t n (by omega) hn,
            ih n.lo hlo f (by omega), ih n.hi hhi f (by omega),
            ih n.lo hlo t (by omega), ih n.hi hhi t (by omega)]

theorem depsF_fuel (s : Store) (h : TableWF s.nodes) :
    ∀ (t fuel : Nat), t < fuel → depsF s fuel t = depsF s (t+1) t := by
  intro t
  induction t using Nat.strongRecOn with
  | _ t ih =>
    intro fuel hlt
    cases fuel with
    | zero => omega
    | succ f =>
      by_cases h2 : t < 2
      · unfold depsF; simp [h2]
      cases hn : s.nodes[t]? with
      | none => unfold depsF; simp [h2, hn]
      | some n =>
        have ⟨_, hlo, hhi, _, _, _⟩ := h.inner t n (by omega) hn
        conv => lhs; unfold depsF
        conv => rhs; unfold depsF
        simp only [h2, if_false, hn]
        rw [ih n.lo hlo f (by omega), ih n.hi hhi f (by omega),
            ih n.lo hlo t (by omega), ih n.hi hhi t (by omega)]

/-! ### `pathsList` enumerates exactly the paths -/

theorem pathsList_sound (s : Store) : ∀ (fuel t : Nat) (p : DPath),
    p ∈ pathsList s fuel t → IsPath s t p.1 p.2 := by
  intro fuel
  induction fuel with
  | zero => intro t p h; simp [pathsList] at h
  | succ f ih =>
    intro t p hp
    by_cases h1 : t = 1
    · subst h1; rw [pathsList_one] at hp
      have := List.mem_singleton.mp hp; subst this; exact IsPath.top
    by_cases h0 : t = 0
    · subst h0; rw [pathsList_zero] at hp
      have := List.mem_singleton.mp hp; subst this; exact IsPath.bot
    cases hn : s.nodes[t]? with
    | none => unfold pathsList at hp; simp [h0, h1, hn] at hp
    | some n =>
      rw [pathsList_node s f t n (by omega) hn] at hp
      rcases List.mem_append.mp hp with hp | hp
      · obtain ⟨q, hq, rfl⟩ := List.mem_map.mp hp
        exact IsPath.lo (by omega) hn (ih n.lo q hq)
      · obtain ⟨q, hq, rfl⟩ := List.mem_map.mp hp
        exact IsPath.hi (by omega) hn (ih n.hi q hq)

theorem pathsList_complete (s : Store) (h : TableWF s.nodes) : ∀ (t : Nat) (p : List (Nat × Bool)) (b : Bool),
    IsPath s t p b → (p, b) ∈ pathsList s (t+1) t := by
  intro t p b hp
  induction hp with
  | bot => rw [pathsList_zero]; exact List.mem_singleton.mpr rfl
  | top => rw [pathsList_one]; exact List.mem_singleton.mpr rfl
  | @lo t n p b ht hn _ ih =>
    have ⟨_, hlo, _, _, _, _⟩ := h.inner t n ht hn
    rw [pathsList_node s t t n ht hn, pathsList_fuel s h n.lo t hlo]
    exact List.mem_append_left _ (List.mem_map.mpr ⟨(p, b), ih, rfl⟩)
  | @hi t n p b ht hn _ ih =>
    have ⟨_, _, hhi, _, _, _⟩ := h.inner t n ht hn
    rw [pathsList_node s t t n ht hn, pathsList_fuel s h n.hi t hhi]
    exact List.mem_append_right _ (List.mem_map.mpr ⟨(p, b), ih, rfl⟩)

/-- membership in the enumeration ⇔ being a root-to-leaf path -/
theorem mem_pathsList_iff (s : Store) (h : TableWF s.nodes) (t : Nat) (p : DPath) :
    p ∈ pathsList s (t+1) t ↔ IsPath s t p.1 p.2 :=
  ⟨pathsList_sound s (t+1) t p, fun hp => pathsList_complete s h t p.1 p.2 hp⟩

/-- no path is listed twice -/
theorem pathsList_nodup (s : Store) : ∀ (fuel t : Nat), (pathsList s fuel t).Nodup := by
  intro fuel
  induction fuel with
  | zero => intro t; simp [pathsList]
  | succ f ih =>
    intro t
    by_cases h1 : t = 1
    · subst h1; rw [pathsList_one]; simp
    by_cases h0 : t = 0
    · subst h0; rw [pathsList_zero]; simp
    cases hn : s.nodes[t]? with
    | none => unfold pathsList; simp [h0, h1, hn]
    | some n =>
      rw [pathsList_node s f t n (by omega) hn]
      have inj : ∀ (c : Bool) (a b : DPath),
          (((n.var, c) :: a.1, a.2) : DPath) = ((n.var, c) :: b.1, b.2) → a = b := by
        intro c a b hab
        cases a; cases b; simp_all
      refine List.nodup_append.mpr ⟨?_, ?_, ?_⟩
      · exact List.pairwise_map.mpr ((ih n.lo).imp (fun hne hab => hne (inj false _ _ hab)))
      · exact List.pairwise_map.mpr ((ih n.hi).imp (fun hne hab => hne (inj true _ _ hab)))
      · intro a ha b hb hab
        obtain ⟨q, _, rfl⟩ := List.mem_map.mp ha
        obtain ⟨r, _, rfl⟩ := List.mem_map.mp hb
        simp at hab

/-- an assignment that follows a path is evaluated to the terminal of that path -/
theorem path_eval (s : Store) (h : TableWF s.nodes) (t : Nat) (p : List (Nat × Bool)) (b : Bool)
    (hp : IsPath s t p b) (σ : Asg) (hσ : Follows σ p) : eval s t σ = b := by
  induction hp with
  | bot => exact eval_zero s σ
  | top => exact eval_one s σ
  | @lo t n p b ht hn _ ih =>
    rw [Tab.eval_node s h t n ht hn, hσ (n.var, false) (List.mem_cons_self ..)]
    simp only [Bool.false_eq_true, if_false]
    exact ih (fun d hd => hσ d (List.mem_cons_of_mem _ hd))
  | @hi t n p b ht hn _ ih =>
    rw [Tab.eval_node s h t n ht hn, hσ (n.var, true) (List.mem_cons_self ..)]
    simp only [if_true]
    exact ih (fun d hd => hσ d (List.mem_cons_of_mem _ hd))

/-! ### path counts -/

theorem countP_map_snd (l : List DPath) (d : Nat × Bool) (q : Bool → Bool) :
    (l.map (fun p => ((d :: p.1, p.2) : DPath))).countP (fun p => q p.2) = l.countP (fun p => q p.2) := by
  induction l with
  | nil => rfl
  | cons a l ih => simp only [List.map_cons, List.countP_cons, ih]

/-- `pathsF` counts the enumerated paths that end in ⊥ (first component) and in ⊤ (second) -/
theorem pathsF_counts (s : Store) : ∀ (fuel t : Nat),
    pathsF s fuel t = ((pathsList s fuel t).countP (fun p => !p.2), (pathsList s fuel t).countP (fun p => p.2)) := by
  intro fuel
  induction fuel with
  | zero => intro t; simp [pathsF, pathsList]
  | succ f ih =>
    intro t
    by_cases h1 : t = 1
    · subst h1; rw [pathsF_one, pathsList_one]; simp
    by_cases h0 : t = 0
    · subst h0; rw [pathsF_zero, pathsList_zero]; simp
    cases hn : s.nodes[t]? with
    | none => unfold pathsF pathsList; simp [h0, h1, hn]
    | some n =>
      rw [pathsF_node s f t n (by omega) hn, pathsList_node s f t n (by omega) hn, ih n.lo, ih n.hi]
      simp only [List.countP_append]
      rw [countP_map_snd _ _ (fun b => !b), countP_map_snd _ _ (fun b => !b),
          countP_map_snd _ _ (fun b => b), countP_map_snd _ _ (fun b => b)]

/-! ### depth -/

/-- every path is at most as long as the depth component -/
theorem depth_upper (s : Store) (h : TableWF s.nodes) : ∀ (fuel t : Nat), t < fuel →
    ∀ p ∈ pathsList s fuel t, p.1.length ≤ (countF s fuel t).2.2 := by
  intro fuel
  induction fuel with
  | zero => intro t h; omega
  | succ f ih =>
    intro t hf p hp
    by_cases h1 : t = 1
    · subst h1; rw [pathsList_one] at hp
      have := List.mem_singleton.mp hp; subst this; simp
    by_cases h0 : t = 0
    · subst h0; rw [pathsList_zero] at hp
      have := List.mem_singleton.mp hp; subst this; simp
    cases hn : s.nodes[t]? with
    | none => unfold pathsList at hp; simp [h0, h1, hn] at hp
    | some n =>
      have ⟨_, hlo, hhi, _, _, _⟩ := h.inner t n (by omega) hn
      rw [pathsList_node s f t n (by omega) hn] at hp
      rw [countF_node s f t n (by omega) hn]
      simp only
      rcases List.mem_append.mp hp with hp | hp
      · obtain ⟨q, hq, rfl⟩ := List.mem_map.mp hp
        have := ih n.lo (by omega) q hq
        simp only [List.length_cons]; omega
      · obtain ⟨q, hq, rfl⟩ := List.mem_map.mp hp
        have := ih n.hi (by omega) q hq
        simp only [List.length_cons]; omega

/-- some path is exactly as long as the depth component -/
theorem depth_attained (s : Store) (h : TableWF s.nodes) : ∀ (fuel t : Nat), t < fuel → t < s.nodes.size →
    ∃ p ∈ pathsList s fuel t, p.1.length = (countF s fuel t).2.2 := by
  intro fuel
  induction fuel with
  | zero => intro t h; omega
  | succ f ih =>
    intro t hf ht
    by_cases h1 : t = 1
    · subst h1; rw [pathsList_one, countF_one]; exact ⟨([], true), List.mem_singleton.mpr rfl, rfl⟩
    by_cases h0 : t = 0
    · subst h0; rw [pathsList_zero, countF_zero]; exact ⟨([], false), List.mem_singleton.mpr rfl, rfl⟩
    obtain ⟨n, hn⟩ := get_of_lt ht
    have ⟨_, hlo, hhi, _, _, _⟩ := h.inner t n (by omega) hn
    rw [pathsList_node s f t n (by omega) hn, countF_node s f t n (by omega) hn]
    simp only
    obtain ⟨pl, hpl, el⟩ := ih n.lo (by omega) (by omega)
    obtain ⟨ph, hph, eh⟩ := ih n.hi (by omega) (by omega)
    rcases Nat.le_total (countF s f n.hi).2.2 (countF s f n.lo).2.2 with hle | hle
    · refine ⟨((n.var, false) :: pl.1, pl.2), List.mem_append_left _ (List.mem_map.mpr ⟨pl, hpl, rfl⟩), ?_⟩
      simp only [List.length_cons]; omega
    · refine ⟨((n.var, true) :: ph.1, ph.2), List.mem_append_right _ (List.mem_map.mpr ⟨ph, hph, rfl⟩), ?_⟩
      simp only [List.length_cons]; omega

#print axioms mem_pathsList_iff
#print axioms pathsList_nodup
#print axioms pathsF_counts
#print axioms depth_upper
#print axioms depth_attained
