import AdfObdd.SearchModel
import AdfObdd.CliModel
import AdfObdd.OpsModel
import AdfObdd.CountsDef
import AdfObdd.Deps
import AdfObdd.AdfPipeline
/-! # Call histories on ONE `Adf` object (C11)

`lib/src/adf.rs`: an `Adf` owns one `Bdd` (node table + unique table + memo tables) and the vector
`ac` of condition handles. Every public semantics method takes `&mut self`, clones `ac`, works on the
shared `Bdd` and returns term vectors; the diagram-level queries and the formula builders of
`self.bdd` (public field) work on the same `Bdd`. A user may therefore call, in any order and any
number of times on the same object:

* `grounded`, `complete`, `stable`, `stable_with_prefilter`,
* `stable_count_optimisation_heu_a` / `_heu_b`,
* `stable_nogood(heu)` / `two_val_nogood(heu)` with the built-in heuristics `Simple`,
  `MinModMinPathsMaxVarImp`, `MinModMaxVarImpMinPaths` or a custom function (`Heuristic::Custom`,
  model: the scripted heuristic `SM.Heu.script`); `Heuristic::Rand` draws from `Adf.rng`, which is
  not modelled step by step (the driver does not run it either: `Drv.parseHeu "Rand:…" = some none`),
* `bdd.models / paths / max_depth / var_dependencies` of a condition,
* any sequence of `bdd.variable / constant / not / and / or / imp / iff / xor / restrict`
  ("extra formulas").

`runCall` runs exactly the definitions the driver runs for the corresponding protocol lines
(`Drv.runSem`, the `ng` line, `counts` / `facets`, and `runOps` of the diagram family), threading
the store the way `Drv.adfStep` does with `setStore`. -/

inductive Query where
  | models   -- `Bdd::models(t, memo)`: (counter-models, models) over the node's own depth
  | paths    -- `Bdd::paths`
  | depth    -- `Bdd::max_depth`
  | deps     -- `Bdd::var_dependencies`
deriving Repr, DecidableEq

inductive Call where
  | grounded
  | complete
  | stable
  | stablePre
  /-- `stable_count_optimisation_heu_a` (`true`) / `_heu_b` (`false`) -/
  | count (useA : Bool)
  /-- `stable_nogood` (`stable = true`) / `two_val_nogood` (`stable = false`); `fuel` bounds the
  number of loop iterations of the model (the protocol line uses 200000) -/
  | ng (h : SM.Heu) (fuel : Nat) (stable : Bool)
  /-- a query on the diagram of the condition of statement `i` -/
  | query (i : Nat) (q : Query)
  /-- extra formulas: a list of diagram operations; operand positions refer to
  `0 :: 1 :: ac` (⊥, ⊤, the conditions) followed by the results of the earlier operations of the
  SAME call -/
  | ops (l : List Op)

inductive Answer where
  | vec (v : List Nat)
  | vecs (vs : List (List Nat))
  /-- emitted vectors in order and the interpretations shown to the heuristic in order -/
  | ng (vs : List (List Nat)) (trace : List (List Nat))
  | fuelExhausted
  | nums (l : List Nat)
  | handles (l : List Nat)
  | rejected
deriving DecidableEq

/-- one `Adf` object: the shared store, the number of statements, the conditions, and every handle
handed out so far by `grounded` and by extra formulas -/
structure AdfState where
  s : Store
  n : Nat
  ac : List Nat
  issued : List Nat := []

instance (len : Nat) (op : Op) : Decidable (op.valid len) := by
  cases op <;> (unfold Op.valid; infer_instance)

instance opsValidDec : ∀ (ops : List Op) (len : Nat), Decidable (opsValid ops len)
  | [], _ => isTrue trivial
  | op :: ops, len =>
    match (inferInstance : Decidable (op.valid len)), opsValidDec ops (len + 1) with
    | isTrue a, isTrue b => isTrue ⟨a, b⟩
    | isFalse a, _ => isFalse (fun h => a h.1)
    | _, isFalse b => isFalse (fun h => b h.2)

/-- the history of the diagram family an extra-formula call starts from -/
def AdfState.base (st : AdfState) : List Nat := 0 :: 1 :: st.ac

def runQuery (s : Store) (t : Nat) : Query → List Nat
  | .models => let c := countF s (t + 1) t; [c.1, c.2.1]
  | .paths => let p := paths s t; [p.1, p.2]
  | .depth => [(countF s (t + 1) t).2.2]
  | .deps => depsOf s t

/-- one public call on the object: new state and the answer. Requests the protocol rejects before
calling (statement index / operand position out of range) leave the object alone. -/
def runCall (st : AdfState) : Call → AdfState × Answer
  | .grounded =>
    let g := groundedLoop StoreRA (st.n + 1) st.s st.ac
    ({ st with s := g.1, issued := st.issued ++ g.2 }, .vec g.2)
  | .complete => let r := completeAll st.s st.n st.ac; ({ st with s := r.1 }, .vecs r.2.2)
  | .stable => let r := stableAll st.s st.n st.ac; ({ st with s := r.1 }, .vecs r.2)
  | .stablePre => let r := Cli.stablePre st.s st.n st.ac; ({ st with s := r.1 }, .vecs r.2)
  | .count useA => let r := countAll st.s st.n st.ac useA; ({ st with s := r.1 }, .vecs r.2)
  | .ng h fuel stable =>
    let r := SM.ngSearch h fuel st.s st.n st.ac stable
    ({ st with s := r.1 }, if r.2.2.2 then .ng r.2.1 r.2.2.1 else .fuelExhausted)
  | .query i q =>
    if i < st.ac.length then (st, .nums (runQuery st.s (st.ac.getD i 0) q)) else (st, .rejected)
  | .ops l =>
    if opsValid l st.base.length then
      let r := runOps l st.s st.base
      let hs := r.2.drop st.base.length
      ({ st with s := r.1, issued := st.issued ++ hs }, .handles hs)
    else (st, .rejected)

/-- a call history on one object: final state and the answers in call order -/
def runCalls : AdfState → List Call → AdfState × List Answer
  | st, [] => (st, [])
  | st, c :: cs => let r := runCall st c; let rs := runCalls r.1 cs; (rs.1, r.2 :: rs.2)

/-- the answer of call `c` issued after the history `h` -/
def answerAfter (st : AdfState) (h : List Call) (c : Call) : Answer := (runCall (runCalls st h).1 c).2

/-- the freshly built object (`Adf::from_parser` on written conditions, model `buildNative`) -/
def freshAdf (fms : List Fm) : AdfState :=
  { s := (buildNative fms.length fms).1, n := fms.length, ac := (buildNative fms.length fms).2 }
