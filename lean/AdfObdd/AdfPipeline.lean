import AdfObdd.Compile
import AdfObdd.Grounded
/-! `Adf::from_parser` on the store model: create every statement's variable, then compile the
    acceptance conditions in order; end-to-end correctness of the compiled framework. -/

/-- `Adf::from_parser`: all variables first, then every condition in order -/
def buildVars (n : Nat) (s : Store) : Store := (List.range n).foldl (fun s v => (mkNode s v 0 1).1) s

def compileAll : List Fm → Store → List Nat → Store × List Nat
  | [], s, acc => (s, acc)
  | f :: fs, s, acc => let r := compile s f; compileAll fs r.1 (acc ++ [r.2])

def buildNative (n : Nat) (fms : List Fm) : Store × List Nat := compileAll fms (buildVars n Store.init) []

theorem WF_init' : WF Store.init := by
  constructor
  · simp [Store.init]
  · simp [Store.init]
  · simp [Store.init]
  · intro i n hi hn
    have : i < 2 := by have := lt_of_get hn; simpa [Store.init] using this
    omega
  · intro n t
    constructor
    · intro h; simp [Store.init] at h
    · intro ⟨h2, hn⟩
      have : t < 2 := by have := lt_of_get hn; simpa [Store.init] using this
      omega
  · intro t v b r h; simp [Store.init] at h
  · intro i t e r h; simp [Store.init] at h

theorem buildVars_wf : ∀ (l : List Nat) (s : Store), WF s → (∀ v ∈ l, v < VBOT) →
    WF (l.foldl (fun s v => (mkNode s v 0 1).1) s) ∧ Ext s (l.foldl (fun s v => (mkNode s v 0 1).1) s) := by
  intro l
  induction l with
  | nil => intro s w _; exact ⟨w, Ext.refl _⟩
  | cons v l ih =>
    intro s w hv
    have g := compile_correct (.atom v) s w (hv v (by simp))
    have ⟨a, b⟩ := ih (mkNode s v 0 1).1 g.wf (fun x hx => hv x (by simp [hx]))
    exact ⟨a, g.ext.trans b⟩

/-- the handles collected so far stay valid and keep their functions while compilation goes on -/
structure AccOK (s : Store) (acc : List Nat) (fs : List Fm) : Prop where
  len : acc.length = fs.length
  ok : ∀ (i t : Nat) (f : Fm), acc[i]? = some t → fs[i]? = some f → t < s.nodes.size ∧ ∀ σ, eval s t σ = f.sem σ

theorem compileAll_correct : ∀ (fms : List Fm) (s : Store) (acc : List Nat) (done : List Fm),
    WF s → AccOK s acc done → (∀ f ∈ fms, f.atomsOK) →
    WF (compileAll fms s acc).1 ∧ Ext s (compileAll fms s acc).1 ∧
    AccOK (compileAll fms s acc).1 (compileAll fms s acc).2 (done ++ fms) := by
  intro fms
  induction fms with
  | nil => intro s acc done w h _; simpa [compileAll] using ⟨w, Ext.refl _, h⟩
  | cons f fms ih =>
    intro s acc done w h hv
    have g := compile_correct f s w (hv f (by simp))
    have h' : AccOK (compile s f).1 (acc ++ [(compile s f).2]) (done ++ [f]) := by
      refine ⟨by simp [h.len], ?_⟩
      intro i t f' ht hf
      by_cases hi : i < acc.length
      · rw [List.getElem?_append_left hi] at ht
        rw [List.getElem?_append_left (h.len ▸ hi)] at hf
        have ⟨a, b⟩ := h.ok i t f' ht hf
        exact ⟨Nat.lt_of_lt_of_le a g.ext.1, fun σ => by rw [eval_ext w g.ext _ σ a]; exact b σ⟩
      · have hle : acc.length ≤ i := by omega
        rw [List.getElem?_append_right hle] at ht
        rw [List.getElem?_append_right (h.len ▸ hle)] at hf
        have hi0 : i - acc.length = 0 := by
          cases hk : i - acc.length with
          | zero => rfl
          | succ k => rw [hk] at ht; simp at ht
        rw [hi0] at ht
        rw [← h.len, hi0] at hf
        simp at ht hf
        subst ht; subst hf
        exact ⟨g.lt, g.ev⟩
    have ⟨a, b, c⟩ := ih (compile s f).1 (acc ++ [(compile s f).2]) (done ++ [f]) g.wf h' (fun x hx => hv x (by simp [hx]))
    refine ⟨a, g.ext.trans b, ?_⟩
    simpa [compileAll, List.append_assoc] using c

/-- **C09, native pipeline, whole framework**: every stored handle is valid in a well-formed store
and denotes exactly the Boolean function of its statement's acceptance condition -/
theorem buildNative_correct (n : Nat) (fms : List Fm) (hn : n ≤ VBOT) (hv : ∀ f ∈ fms, f.atomsOK) :
    WF (buildNative n fms).1 ∧ (buildNative n fms).2.length = fms.length ∧
    ∀ (i t : Nat) (f : Fm), (buildNative n fms).2[i]? = some t → fms[i]? = some f →
      t < (buildNative n fms).1.nodes.size ∧ ∀ σ, eval (buildNative n fms).1 t σ = f.sem σ := by
  have ⟨w0, _⟩ := buildVars_wf (List.range n) Store.init WF_init' (by
    intro v hv; simp at hv; omega)
  have h0 : AccOK (buildVars n Store.init) [] [] := ⟨rfl, by intro i t f h; simp at h⟩
  have ⟨a, _, c⟩ := compileAll_correct fms (buildVars n Store.init) [] [] w0 h0 hv
  have clen : (compileAll fms (buildVars n Store.init) []).2.length = fms.length := by simpa using c.len
  refine ⟨a, clen, ?_⟩
  intro i t f ht hf
  exact c.ok i t f ht (by simpa using hf)

theorem map_eval_eq_sem (s : Store) (acs : List Nat) (fms : List Fm) (hl : acs.length = fms.length)
    (h : ∀ (i t : Nat) (f : Fm), acs[i]? = some t → fms[i]? = some f → ∀ σ, eval s t σ = f.sem σ) :
    acs.map (eval s) = fms.map Fm.sem := by
  apply List.ext_getElem?
  intro i
  simp only [List.getElem?_map]
  cases ha : acs[i]? with
  | none =>
    have : fms[i]? = none := by
      rw [List.getElem?_eq_none_iff] at ha ⊢; omega
    simp [this]
  | some t =>
    have hi : i < fms.length := by
      have := (List.getElem?_eq_some_iff.mp ha).1; omega
    have hf : fms[i]? = some fms[i] := List.getElem?_eq_getElem hi
    rw [hf]
    simp only [Option.map_some, Option.some.injEq]
    funext σ
    exact h i t _ ha hf σ

/-- **C01, native back-end, end to end from the parsed formulas**: the decided part of the
vector computed by `from_parser` + `grounded` is the least fixpoint of the consequence operator of
the written acceptance conditions -/
theorem grounded_native_end_to_end (n : Nat) (fms : List Fm) (hn : n ≤ VBOT) (hv : ∀ f ∈ fms, f.atomsOK)
    (fuel : Nat) (hf : fms.length < fuel) :
    let b := buildNative n fms
    let D := fms.map Fm.sem
    let g := (groundedLoop StoreRA fuel b.1 b.2).2.map storeIsConst
    Gam D g = g ∧ ∀ w', Gam D w' = w' → Le3 g w' := by
  intro b D g
  have ⟨w, hl, h⟩ := buildNative_correct n fms hn hv
  have hl' : b.2.length = fms.length := hl
  have hvalid : ∀ t ∈ b.2, t < b.1.nodes.size := by
    intro t ht
    obtain ⟨i, hi, rfl⟩ := List.getElem_of_mem ht
    have hi' : i < fms.length := by omega
    exact (h i _ _ (List.getElem?_eq_getElem hi) (List.getElem?_eq_getElem hi')).1
  have e : b.2.map (eval b.1) = D :=
    map_eval_eq_sem b.1 b.2 fms hl (fun i t f a c => (h i t f a c).2)
  have := grounded_native fuel b.1 b.2 w hvalid (by omega)
  simp only [e] at this
  exact this
