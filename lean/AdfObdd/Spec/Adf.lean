import AdfObdd.Spec.TT
/-! Executable specification of the ADF semantics, directly from the definitions: the
    three-valued consequence operator Γ by enumeration of completions, least fixpoint, complete
    interpretations, two-valued models, reduct and stable models. Acceptance conditions are truth
    tables over the `n` statements (`TT`), nothing here knows about diagrams or search. -/
namespace Spec

abbrev I3 := List (Option Bool)

/-- all total assignments (bit masks below `2^n`) extending the three-valued interpretation -/
def completions (n : Nat) (w : I3) : List Nat :=
  (List.range (2 ^ n)).filter (fun a =>
    (List.range n).all (fun i => match w.getD i none with | some b => a.testBit i == b | none => true))

/-- the consequence operator -/
def gamma (n : Nat) (tts : List Nat) (w : I3) : I3 :=
  let cs := completions n w
  tts.map (fun tt => if cs.all (fun a => tt.testBit a) then some true
                     else if cs.all (fun a => !tt.testBit a) then some false else none)

def le3 (a b : I3) : Bool :=
  (a.zip b).all (fun (x, y) => match x with | none => true | some v => y == some v)

def allI3 : Nat → List I3
  | 0 => [[]]
  | n+1 => (allI3 n).flatMap (fun w => [w ++ [none], w ++ [some true], w ++ [some false]])

def isComplete (n : Nat) (tts : List Nat) (w : I3) : Bool := gamma n tts w == w

def completeAll (n : Nat) (tts : List Nat) : List I3 := (allI3 n).filter (isComplete n tts)

/-- least fixpoint by Kleene iteration from the all-undecided interpretation -/
def groundedFrom (n : Nat) (tts : List Nat) : Nat → I3 → I3
  | 0, w => w
  | fuel+1, w => let w' := gamma n tts w; if w' == w then w else groundedFrom n tts fuel w'

def grounded (n : Nat) (tts : List Nat) : I3 := groundedFrom n tts (n + 1) (List.replicate n none)

def isTotal (w : I3) : Bool := w.all Option.isSome

def models2 (n : Nat) (tts : List Nat) : List I3 := (completeAll n tts).filter isTotal

/-- the reduct: every condition with `v`'s false statements replaced by falsum -/
def reduct (n : Nat) (tts : List Nat) (v : I3) : List Nat :=
  tts.map (fun tt => TT.ofFn n (fun a =>
    tt.testBit ((List.range n).foldl (fun acc i =>
      if v.getD i none == some false then (if acc.testBit i then acc - (1 <<< i) else acc) else acc) a)))

def isStable (n : Nat) (tts : List Nat) (v : I3) : Bool :=
  isTotal v && isComplete n tts v &&
  (let g := grounded n (reduct n tts v)
   (List.range n).all (fun i => v.getD i none != some true || g.getD i none == some true))

def stableAll (n : Nat) (tts : List Nat) : List I3 := (models2 n tts).filter (isStable n tts)

/-- canonical rendering -/
def showI3 (w : I3) : String :=
  String.ofList (w.map (fun x => match x with | some true => 'T' | some false => 'F' | none => 'u'))

def insertSorted (x : String) : List String → List String
  | [] => [x]
  | y :: ys => if x ≤ y then x :: y :: ys else y :: insertSorted x ys
def sortStrings (xs : List String) : List String := xs.foldr insertSorted []

def showSet (ws : List I3) : String :=
  let xs := sortStrings (ws.map showI3)
  if xs.isEmpty then "-" else " ".intercalate xs

end Spec
