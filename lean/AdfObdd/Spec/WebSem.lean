import AdfObdd.Compile
/-! Brute-force specification of the ADF semantics over `Fm.sem`, used by the web-service checks
    (C16) to judge the answers the server stores: consequence operator by enumeration of all
    completions, least fixpoint, complete interpretations, reduct, stable models.  Nothing here
    knows about diagrams, handles or search.  Core only. -/
namespace WebSem

abbrev I3 := List (Option Bool)

/-- the total assignment given by the bits of `a` -/
def asgOf (a : Nat) : Asg := fun v => a.testBit v

/-- all total assignments over `n` statements (as bit masks) that extend `w` -/
def completions (n : Nat) (w : I3) : List Nat :=
  (List.range (2 ^ n)).filter (fun a =>
    (List.range n).all (fun i => match w.getD i none with | some b => a.testBit i == b | none => true))

/-- three-valued value of a condition under `w` -/
def val3 (n : Nat) (f : Fm) (w : I3) : Option Bool :=
  let cs := completions n w
  if cs.all (fun a => f.sem (asgOf a)) then some true
  else if cs.all (fun a => !f.sem (asgOf a)) then some false else none

/-- the consequence operator Γ -/
def gamma (fs : List Fm) (w : I3) : I3 := fs.map (fun f => val3 fs.length f w)

def iter (fs : List Fm) : Nat → I3 → I3
  | 0, w => w
  | k+1, w => iter fs k (gamma fs w)

/-- the grounded interpretation: `n` rounds from the all-undecided interpretation suffice -/
def grounded (fs : List Fm) : I3 := iter fs (fs.length + 1) (List.replicate fs.length none)

def allI3 : Nat → List I3
  | 0 => [[]]
  | n+1 => (allI3 n).flatMap (fun w => [w ++ [none], w ++ [some true], w ++ [some false]])

def complete (fs : List Fm) : List I3 := (allI3 fs.length).filter (fun w => gamma fs w == w)

def isTotal (w : I3) : Bool := w.all Option.isSome

/-- replace the statements `v` makes false by falsum -/
def reductFm (v : I3) : Fm → Fm
  | .top => .top | .bot => .bot
  | .atom x => if v.getD x none == some false then .bot else .atom x
  | .not f => .not (reductFm v f)
  | .and a b => .and (reductFm v a) (reductFm v b) | .or a b => .or (reductFm v a) (reductFm v b)
  | .imp a b => .imp (reductFm v a) (reductFm v b) | .xor a b => .xor (reductFm v a) (reductFm v b)
  | .iff a b => .iff (reductFm v a) (reductFm v b)

/-- stable models: two-valued models that equal the grounded interpretation of their reduct -/
def stable (fs : List Fm) : List I3 :=
  ((complete fs).filter isTotal).filter (fun v => grounded (fs.map (reductFm v)) == v)

def showI3 (w : I3) : String :=
  String.ofList (w.map (fun x => match x with | some true => 'T' | some false => 'F' | none => 'u'))

end WebSem
