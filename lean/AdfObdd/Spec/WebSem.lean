import AdfObdd.Compile
/-! Brute-force specification of the ADF semantics over `Fm.sem`, used by the web-service checks
    (C16) to judge the answers the server stores: consequence operator by enumeration of all
    completions, least fixpoint, complete interpretations, reduct, stable models.  Nothing here
    knows about diagrams, handles or search.  Core only. -/
namespace WebSem

abbrev I3 := List (Option Bool)

/-- the total assignment given by the bits of `a` -/
def asgOf (a : Nat) : Asg := fun v => a.testBit v

/-- all total assignments over `n` statements (as bit masks) that extend `w`: one mask per choice of
values for the undecided statements (generated directly, `2^u` masks for `u` undecided statements) -/
def completions (n : Nat) (w : I3) : List Nat :=
  (List.range n).foldl (fun acc i =>
    match w.getD i none with
    | some true => acc.map (· + 2 ^ i)
    | some false => acc
    | none => acc ++ acc.map (· + 2 ^ i)) [0]

/-- three-valued value of a condition over a set of completions -/
def valOver (cs : List Nat) (f : Fm) : Option Bool :=
  if cs.all (fun a => f.sem (asgOf a)) then some true
  else if cs.all (fun a => !f.sem (asgOf a)) then some false else none

/-- three-valued value of a condition under `w` -/
def val3 (n : Nat) (f : Fm) (w : I3) : Option Bool := valOver (completions n w) f

/-- the consequence operator Γ (the completions of `w` are enumerated once) -/
def gamma (fs : List Fm) (w : I3) : I3 :=
  let cs := completions fs.length w
  fs.map (valOver cs)

def iter (fs : List Fm) : Nat → I3 → I3
  | 0, w => w
  | k+1, w => iter fs k (gamma fs w)

/-- the grounded interpretation: `n` rounds from the all-undecided interpretation suffice -/
def grounded (fs : List Fm) : I3 := iter fs (fs.length + 1) (List.replicate fs.length none)

def allI3 : Nat → List I3
  | 0 => [[]]
  | n+1 => (allI3 n).flatMap (fun w => [w ++ [none], w ++ [some true], w ++ [some false]])

def complete (fs : List Fm) : List I3 := (allI3 fs.length).filter (fun w => gamma fs w == w)

def isTotal (w : I3) : Bool := w.all Option.isSome

/-- replace the statements `v` makes false by falsum -/
def reductFm (v : I3) : Fm → Fm
  | .top => .top | .bot => .bot
  | .atom x => if v.getD x none == some false then .bot else .atom x
  | .not f => .not (reductFm v f)
  | .and a b => .and (reductFm v a) (reductFm v b) | .or a b => .or (reductFm v a) (reductFm v b)
  | .imp a b => .imp (reductFm v a) (reductFm v b) | .xor a b => .xor (reductFm v a) (reductFm v b)
  | .iff a b => .iff (reductFm v a) (reductFm v b)

/-- stable models: two-valued models that equal the grounded interpretation of their reduct -/
def stable (fs : List Fm) : List I3 :=
  ((complete fs).filter isTotal).filter (fun v => grounded (fs.map (reductFm v)) == v)

/-! For wide frameworks (more than `smallN` statements) the enumeration of all `3^n` interpretations is
    replaced by the enumeration of the extensions of the grounded interpretation: every fixpoint of Γ
    extends the least fixpoint, so nothing is lost.  Small frameworks keep the plain enumeration; the
    two coincide there (checked on instances below). -/

def smallN : Nat := 7

/-- all interpretations that keep the decided values of `g` -/
def extensions : I3 → List I3
  | [] => [[]]
  | some b :: r => (extensions r).map (fun w => some b :: w)
  | none :: r => (extensions r).flatMap (fun w => [none :: w, some true :: w, some false :: w])

def completeAbove (fs : List Fm) : List I3 := (extensions (grounded fs)).filter (fun w => gamma fs w == w)

def stableAbove (fs : List Fm) : List I3 :=
  ((completeAbove fs).filter isTotal).filter (fun v => grounded (fs.map (reductFm v)) == v)

def completeOf (fs : List Fm) : List I3 := if fs.length ≤ smallN then complete fs else completeAbove fs
def stableOf (fs : List Fm) : List I3 := if fs.length ≤ smallN then stable fs else stableAbove fs

def showI3 (w : I3) : String :=
  String.ofList (w.map (fun x => match x with | some true => 'T' | some false => 'F' | none => 'u'))

/-- the pre-study instance `ac(a,c). ac(b,and(b,a)). ac(c,c).`: both enumerations agree -/
example : (completeAbove [.atom 2, .and (.atom 1) (.atom 0), .atom 2]).length = (complete [.atom 2, .and (.atom 1) (.atom 0), .atom 2]).length := by
  decide
example : stableAbove [.not (.atom 1), .not (.atom 0)] = [[some false, some true], [some true, some false]] := by decide

end WebSem
