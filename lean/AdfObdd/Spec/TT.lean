/-! Executable specification at the level of Boolean functions: truth tables over `nv`
    variables as bit masks (`bit a` of the table = value under the assignment whose bit `v` is
    the value of variable `v`). Nothing here knows about diagrams. -/
namespace TT

def size (nv : Nat) : Nat := 2 ^ nv
def mask (nv : Nat) : Nat := 2 ^ (2 ^ nv) - 1

def ofFn (nv : Nat) (f : Nat → Bool) : Nat :=
  (List.range (size nv)).foldl (fun acc a => if f a then acc ||| (1 <<< a) else acc) 0

def var (nv v : Nat) : Nat := ofFn nv (fun a => a.testBit v)
def const (nv : Nat) (b : Bool) : Nat := if b then mask nv else 0
def not (nv t : Nat) : Nat := mask nv ^^^ t
def and (a b : Nat) : Nat := a &&& b
def or (a b : Nat) : Nat := a ||| b
def imp (nv a b : Nat) : Nat := not nv a ||| b
def iff (nv a b : Nat) : Nat := not nv (a ^^^ b)
def xor (a b : Nat) : Nat := a ^^^ b
def ite (nv i t e : Nat) : Nat := (i &&& t) ||| (not nv i &&& e)

/-- cofactor -/
def restrict (nv t v : Nat) (b : Bool) : Nat :=
  ofFn nv (fun a => t.testBit (if b then a ||| (1 <<< v) else (if a.testBit v then a - (1 <<< v) else a)))

def sat (nv t : Nat) : Nat := ((List.range (size nv)).filter (fun a => t.testBit a)).length
def unsat (nv t : Nat) : Nat := size nv - sat nv t

def essential (nv t v : Nat) : Bool := decide (v < nv) && restrict nv t v true != restrict nv t v false
def deps (nv t : Nat) : List Nat := (List.range nv).filter (essential nv t)

/-- depth of the reduced ordered diagram of the function under the order 0 < 1 < … -/
def depthFrom (nv : Nat) : Nat → Nat → Nat → Nat
  | 0, _, _ => 0
  | fuel+1, k, t =>
    if k ≥ nv then 0 else
    let c0 := restrict nv t k false
    let c1 := restrict nv t k true
    if c0 == c1 then depthFrom nv fuel (k+1) t
    else 1 + max (depthFrom nv fuel (k+1) c0) (depthFrom nv fuel (k+1) c1)
def depth (nv t : Nat) : Nat := depthFrom nv (nv+1) 0 t

/-- numbers of root-to-⊥ and root-to-⊤ paths of the reduced ordered diagram of the function -/
def pathsFrom (nv : Nat) : Nat → Nat → Nat → Nat × Nat
  | 0, _, t => if t == 0 then (1, 0) else (0, 1)
  | fuel+1, k, t =>
    if k ≥ nv then (if t == 0 then (1, 0) else (0, 1)) else
    let c0 := restrict nv t k false
    let c1 := restrict nv t k true
    if c0 == c1 then pathsFrom nv fuel (k+1) t
    else
      let l := pathsFrom nv fuel (k+1) c0
      let h := pathsFrom nv fuel (k+1) c1
      (l.1 + h.1, l.2 + h.2)
def paths (nv t : Nat) : Nat × Nat := pathsFrom nv (nv+1) 0 t

/-- membership of assignment `a` in a path cube (negative, positive) -/
def inCube (c : List Nat × List Nat) (a : Nat) : Bool :=
  c.1.all (fun v => !a.testBit v) && c.2.all (fun v => a.testBit v)

/-- the cube clause of C13, decided by enumeration of all assignments -/
def cubesOK (nv t : Nat) (goal : Bool) (gv : Nat) (cubes : List (List Nat × List Nat)) : Bool :=
  if t == 0 || t == mask nv then cubes.isEmpty else
  (List.range (size nv)).all (fun a =>
    let k := (cubes.filter (fun c => inCube c a)).length
    let fa := t.testBit a
    decide (k ≤ 1) && (k == 0 || fa == goal) && (a.testBit gv != goal || fa != goal || k == 1))

/-- partition of positions induced by equal keys, in canonical rendering -/
def classes (keys : List Nat) : List (List Nat) :=
  let step := fun (acc : List (Nat × List Nat)) (ik : Nat × Nat) =>
    if acc.any (fun g => g.1 == ik.2) then
      acc.map (fun g => if g.1 == ik.2 then (g.1, g.2 ++ [ik.1]) else g)
    else acc ++ [(ik.2, [ik.1])]
  ((keys.zipIdx.map (fun (k, i) => (i, k))).foldl step []).map (·.2)

end TT
