import AdfObdd.NoGood
/-! Executable specification of the nogood store (C18). It knows nothing about buckets, modes
    or propagation: only the number `n` of variables and the flat list `gs` of nogoods that were
    ADDED, and it enumerates all `2^n` total assignments. An answer of the implementation is
    judged against it:

    * `conclViolations`  — an answer of `NoGoodStore::conclusions`,
    * `closureViolations` — an answer of `conclusion_closure`,
    * `storeViolations`  — the dumped contents of the store after an `add_ng`.

    `[]` means "no clause violated". `NgSpecFacts.lean` and `Props/C18.lean` (`spec_*_meaning`, `model_passes_spec`) prove that these checks mean what the
    property says (`Matches` / `AvoidsL` over all total assignments) and that the answers of the
    proved model always pass them. -/
namespace NgSpec

/-- all total assignments over `n` variables (as value lists of length `n`) -/
def totals : Nat → List (List Bool)
  | 0 => [[]]
  | n+1 => (totals n).flatMap (fun t => [false :: t, true :: t])

/-- the total assignment `t` agrees with every literal of `g` -/
def matchesT (g : PA) (t : List Bool) : Bool :=
  (List.range g.length).all (fun i => match pget g i with | none => true | some v => t.getD i false == v)

/-- some added nogood is matched by `t` -/
def excludedT (gs : List PA) (t : List Bool) : Bool := gs.any (fun g => matchesT g t)

/-- the total extensions of the interpretation `A` that avoid all added nogoods -/
def exts (n : Nat) (gs : List PA) (A : PA) : List (List Bool) :=
  (totals n).filter (fun t => matchesT A t && !excludedT gs t)

/-- every literal of `g` is a literal of `A` -/
def subPA (g A : PA) : Bool :=
  (List.range g.length).all (fun i => match pget g i with | none => true | some v => pget A i == some v)

/-- the interpretation itself matches an added nogood -/
def direct (gs : List PA) (A : PA) : Bool := gs.any (fun g => subPA g A)

/-- every avoiding total extension of `A` agrees with `r` -/
def forcedBy (n : Nat) (gs : List PA) (A r : PA) : Bool := (exts n gs A).all (fun t => matchesT r t)

def clause (ok : Bool) (name : String) : List String := if ok then [] else [name]

/-- judgement of an answer of `conclusions` (`none` = conflict) -/
def conclViolations (n : Nat) (gs : List PA) (A : PA) : Option PA → List String
  | none => clause (exts n gs A).isEmpty "spurious-conflict"
  | some r =>
    clause (!direct gs A) "missed-direct-conflict" ++
    clause (r.length == A.length && subPA A r) "not-an-extension" ++
    clause (forcedBy n gs A r) "unforced-literal"

inductive ClosureAns where
  | update (r : PA) | noUpdate | inconsistent
deriving DecidableEq

/-- some literal of `g` is complemented in `A` -/
def closedBy (g A : PA) : Bool :=
  (List.range g.length).any (fun i => match pget g i, pget A i with
    | some c, some d => c != d
    | _, _ => false)

/-- the unit-flip law the nogood search's termination rests on (`cl_flip`, DESIGN.md §7 C05): if
for an undecided `v` the nogood `A ∪ {v=b}` was added and every added nogood either has a literal
complemented in `A` or contains `A ∪ {v=b}`, the closure must answer `Update (A ∪ {v=¬b})`.
Returns that mandated answer, if the premise holds for some `(v, b)`. -/
def flipDue (n : Nat) (gs : List PA) (A : PA) : Option PA :=
  ((List.range n).flatMap (fun v => [(v, false), (v, true)])).findSome? (fun (v, b) =>
    if (pget A v).isNone && gs.contains (setAt A v b) &&
       gs.all (fun g => closedBy g A || subPA (setAt A v b) g)
    then some (setAt A v (!b)) else none)

/-- the answer respects the unit-flip law -/
def flipOK (n : Nat) (gs : List PA) (A : PA) (ans : ClosureAns) : Bool :=
  match flipDue n gs A with
  | none => true
  | some R => ans == .update R

/-- judgement of an answer of `conclusion_closure` -/
def closureViolations (n : Nat) (gs : List PA) (A : PA) : ClosureAns → List String
  | .inconsistent =>
    clause (exts n gs A).isEmpty "spurious-inconsistent" ++
    clause (flipOK n gs A .inconsistent) "missed-unit-flip"
  | .noUpdate =>
    clause (!direct gs A) "missed-direct-conflict" ++
    clause (flipOK n gs A .noUpdate) "missed-unit-flip"
  | .update r =>
    clause (!direct gs A) "missed-direct-conflict" ++
    clause (r.length == A.length && subPA A r) "not-an-extension" ++
    clause (decide (size A < size r)) "update-without-progress" ++
    clause (forcedBy n gs A r) "unforced-literal" ++
    clause (!direct gs r) "result-matches-a-nogood" ++
    clause (flipOK n gs A (.update r)) "missed-unit-flip"

def showT (t : List Bool) : String := String.ofList (t.map (fun b => if b then 'T' else 'F'))

/-- judgement of the stored nogoods (flattened dump): they exclude exactly what the added ones exclude -/
def storeViolations (n : Nat) (gs : List PA) (stored : List PA) : List String :=
  match (totals n).find? (fun t => excludedT stored t != excludedT gs t) with
  | none => []
  | some t => [(if excludedT gs t then "forgotten:" else "invented:") ++ showT t]

end NgSpec
