import AdfObdd.Spec.Ng
/-! Executable specification of the nogood store for WIDE stores (C18, more than 10 variables),
    where enumerating all `2^n` total assignments (`Spec/Ng.lean`) is out of reach.

    The only new ingredient is `avoidingExt n gs A`: a backtracking SEARCH for a total assignment
    (value list of length `n`) that extends the partial interpretation `A` and matches no nogood of
    `gs`. It branches only on variables occurring in a nogood that is not yet closed (= has a
    literal complemented in the current interpretation), always on a nogood with the fewest
    undecided literals, so its cost depends on the number and size of the nogoods (histories have
    at most 12), not on `n`.

    * `conclViolationsW`, `closureViolationsW` — the checks of `Spec/Ng.lean`, clause by clause and
      with the same clause names, with "no avoiding total extension" / "forced" decided by the search;
    * `storeViolationsW` — for every nogood of one set an extension avoiding the OTHER set is
      searched: `forgotten:<witness>` (matches an added nogood, no stored one) /
      `invented:<witness>` (matches a stored nogood, no added one).

    `NgWideFacts.lean` proves the search sound and complete and the W-checks equal to the
    brute-force ones; `Props/C18.lean` (`wide_*`) restates this at property level. -/
namespace NgSpec

/-- the literals of `g` on positions undecided in `A`, counted from `i` (both vectors are walked
together: linear in the width) -/
def openLitsFrom : Nat → PA → PA → List (Nat × Bool)
  | _, [], _ => []
  | i, x :: g, [] =>
    match x with
    | some c => (i, c) :: openLitsFrom (i + 1) g []
    | none => openLitsFrom (i + 1) g []
  | i, x :: g, a :: A =>
    match x, a with
    | some c, none => (i, c) :: openLitsFrom (i + 1) g A
    | _, _ => openLitsFrom (i + 1) g A

/-- the literals of `g` on positions undecided in `A` -/
def openLits (g A : PA) : List (Nat × Bool) := openLitsFrom 0 g A

/-- some literal of `g` is complemented in `A` (`closedBy` of `Spec/Ng.lean`, linear in the width) -/
def closedL : PA → PA → Bool
  | [], _ => false
  | _ :: _, [] => false
  | x :: g, a :: A =>
    match x, a with
    | some c, some d => c != d || closedL g A
    | _, _ => closedL g A

/-- a nogood of `gs` without a literal complemented in `A`, one with the fewest undecided literals -/
def pickOpen : List PA → PA → Option PA
  | [], _ => none
  | g :: gs, A =>
    if closedL g A then pickOpen gs A else
    match pickOpen gs A with
    | none => some g
    | some h => if (openLits g A).length ≤ (openLits h A).length then some g else some h

/-- the search: an extension of `A` in which every nogood of `gs` has a complemented literal.
Every round decides one more variable, so fuel `n + 1` is never exhausted on vectors of width `n`
(`searchExt_complete`). -/
def searchExt (gs : List PA) : Nat → PA → Option PA
  | 0, _ => none
  | fuel+1, A =>
    match pickOpen gs A with
    | none => some A
    | some g =>
      match openLits g A with
      | [] => none                                  -- `g ⊆ A`: every extension of `A` matches `g`
      | (v, c) :: _ =>
        match searchExt gs fuel (setAt A v (!c)) with
        | some R => some R
        | none => searchExt gs fuel (setAt A v c)

/-- the undecided positions are filled with `false` -/
def fillT (n : Nat) (R : PA) : List Bool := (List.range n).map (fun i => (pget R i).getD false)

/-- a total assignment over `n` variables that extends `A` and matches no nogood of `gs`, if there is one -/
def avoidingExt (n : Nat) (gs : List PA) (A : PA) : Option (List Bool) :=
  (searchExt gs (n + 1) A).map (fillT n)

/-- every avoiding total extension of `A` agrees with `r`: a literal of `r` that `A` does not
contain cannot be complemented (`A` decides it otherwise: there must be no avoiding extension at all) -/
def forcedByW (n : Nat) (gs : List PA) (A r : PA) : Bool :=
  (List.range r.length).all (fun i =>
    match pget r i with
    | none => true
    | some v =>
      match pget A i with
      | some w => w == v || (avoidingExt n gs A).isNone
      | none => (avoidingExt n gs (setAt A i (!v))).isNone)

/-- judgement of an answer of `conclusions` (`none` = conflict) -/
def conclViolationsW (n : Nat) (gs : List PA) (A : PA) : Option PA → List String
  | none => clause (avoidingExt n gs A).isNone "spurious-conflict"
  | some r =>
    clause (!direct gs A) "missed-direct-conflict" ++
    clause (r.length == A.length && subPA A r) "not-an-extension" ++
    clause (forcedByW n gs A r) "unforced-literal"

/-- judgement of an answer of `conclusion_closure` -/
def closureViolationsW (n : Nat) (gs : List PA) (A : PA) : ClosureAns → List String
  | .inconsistent =>
    clause (avoidingExt n gs A).isNone "spurious-inconsistent" ++
    clause (flipOK n gs A .inconsistent) "missed-unit-flip"
  | .noUpdate =>
    clause (!direct gs A) "missed-direct-conflict" ++
    clause (flipOK n gs A .noUpdate) "missed-unit-flip"
  | .update r =>
    clause (!direct gs A) "missed-direct-conflict" ++
    clause (r.length == A.length && subPA A r) "not-an-extension" ++
    clause (decide (size A < size r)) "update-without-progress" ++
    clause (forcedByW n gs A r) "unforced-literal" ++
    clause (!direct gs r) "result-matches-a-nogood" ++
    clause (flipOK n gs A (.update r)) "missed-unit-flip"

/-- a total assignment matching a nogood of `these` and none of `those` -/
def escaping (n : Nat) (these those : List PA) : Option (List Bool) :=
  these.findSome? (fun g => avoidingExt n those g)

/-- judgement of the stored nogoods (flattened dump): they exclude exactly what the added ones exclude -/
def storeViolationsW (n : Nat) (gs : List PA) (stored : List PA) : List String :=
  match escaping n gs stored with
  | some t => ["forgotten:" ++ showT t]
  | none =>
    match escaping n stored gs with
    | some t => ["invented:" ++ showT t]
    | none => []

end NgSpec
