import AdfObdd.ServerModel
/-! Command-granular concurrent semantics of `adf-bdd-server`.

    The handlers of `server/src/user.rs` and `server/src/adf.rs` are `async fn`s: every MongoDB call
    (`find_one`, `insert_one`, `replace_one`, `update_many`, `delete_one`, `delete_many`, `find`,
    `update_one`) is followed by an `.await`, actix runs several workers, and the background tasks
    write later still.  So concurrent requests interleave at the granularity of ONE DATABASE COMMAND.

    * The commands are `ServerM.Cmd` (here under the name `DbCmd`), one constructor per call site
      shape, with the filter / document exactly as in the Rust (see the comments at `ServerM.Cmd`);
      their meaning `ServerM.exec` is the stub's: equality filters, first match for
      `find_one`/`update_one`/`replace_one`/`delete_one`, `$set`, and the unique index on
      `users.username` (`uInsert` answers `false`, `uReplace` answers `none` for a duplicate key —
      the Rust turns both into `500` with the driver's error text, `Msg.dbError`).
    * The handler of every request kind is the small-step program `ServerM.handler` (a free-monad
      `Prog`: next command + continuation on its result), in the order of the Rust.
    * NEW here: the pool of requests in flight.  `Act.arrive` accepts a request (the `Identity`
      extractor decodes the session cookie THEN; that identity stays with the request), `Act.cmd i`
      lets the `i`-th request in flight execute its NEXT command atomically, `Act.deliver i` delivers
      its response (the cookie change reaches the client's jar only then), `finish/write/timeout`
      are the background-task events of `ServerM.dbEv`.  Every command executed is appended to the
      command log together with its source — the log is what the check's concurrent monitors see.
    * `seqSchedule` is the schedule in which every request runs to completion without interleaving;
      `ServerCmdProofs.atomic_is_sequential` shows that it yields exactly the atomic model
      (`ServerM.runAll`).

    Core Lean only. -/
namespace ServerCmd
open ServerM

/-- the database commands the handlers issue (= `ServerM.Cmd`; one command is atomic) -/
abbrev DbCmd (T H A R : Type) := ServerM.Cmd T H A R

/-- who issued a logged command: a request in flight (jar, identity decoded from its cookie at
arrival, the request) or the continuation of a background task (spawning jar, the user name the
task carries) -/
inductive Src (T : Type) where
  | request (jar : Nat) (id : Option T) (req : Req T)
  | task (jar : Nat) (username : T)
deriving DecidableEq, Repr

/-- a log entry: the source, the command, and the problem documents the database returned to it
(the stub's log has the same three items) -/
structure Entry (T H A R : Type) where
  src : Src T
  cmd : DbCmd T H A R
  returned : List (Problem T A R) := []

/-- a request in flight: program counter + local variables = the remaining program -/
structure Flight (T H A R : Type) where
  jar : Nat
  id : Option T
  req : Req T
  prog : P T H A R

/-- server state, the clients' cookie jars, the requests in flight, the command log (oldest first)
and the responses delivered so far (oldest first, tagged with the jar) -/
structure CState (T H A R : Type) where
  db : Db T H A R := {}
  sess : Nat → Option T := fun _ => none
  pool : List (Flight T H A R) := []
  log : List (Entry T H A R) := []
  out : List (Nat × Resp T R) := []

/-- what the scheduler can do next -/
inductive Act (T : Type) where
  | arrive (rq : Request T)
  | cmd (i : Nat)
  | deliver (i : Nat)
  | finish (jar n : Nat)
  | write (jar n : Nat)
  | timeout (jar n : Nat)
deriving DecidableEq, Repr

section
variable {T H A R : Type} [DecidableEq T]

/-- the user name a command on the `adf-problems` collection carries (filter, or the inserted
document) — the item the check's isolation monitor extracts from the command log -/
def probUser : DbCmd T H A R → Option T
  | .pFindOne u _ => some u
  | .pFindAll u => some u
  | .pInsert p => some p.username
  | .pSet u _ _ => some u
  | .pDeleteOne u _ => some u
  | .pDeleteAll u => some u
  | .pRename u _ => some u
  | _ => none

/-- the problem documents a command's result hands to the handler -/
def foundBy : (c : DbCmd T H A R) → c.Res → List (Problem T A R)
  | .pFindOne _ _, r => r.toList
  | .pFindAll _, r => r
  | _, _ => []

/-- the log entries of an atomic run of a program (commands as in `ServerM.run`, with what they returned) -/
def runLog (src : Src T) : P T H A R → Db T H A R → List (Entry T H A R)
  | .ret _, _ => []
  | .cmd c k, db =>
    let r := exec db c
    ⟨src, c, foundBy c r.2⟩ :: runLog src (k r.2) r.1

/-- the document a command hands to the `users` collection -/
def userDoc : DbCmd T H A R → Option (User T H)
  | .uInsert u => some u
  | .uReplace _ u => some u
  | _ => none

/-- the `update_one` a task event issues (none if the event is not enabled) -/
def taskEntries (E : Env T H A R) (db : Db T H A R) : Event T → List (Entry T H A R)
  | .write j n =>
    match nthOf j n db.tasks with
    | none => []
    | some t =>
      if t.blockingDone && !t.written then [⟨.task j t.username, .pSet t.username t.name (taskWrite E t.input), []⟩] else []
  | .timeout j n =>
    match nthOf j n db.tasks with
    | none => []
    | some t =>
      if !t.blockingDone && !t.written then [⟨.task j t.username, .pSet t.username t.name (timeoutWrite t.input), []⟩] else []
  | _ => []

/-- one scheduler step (an action that is not enabled does nothing) -/
def stepC (E : Env T H A R) (s : CState T H A R) : Act T → CState T H A R
  | .arrive rq =>
    { s with pool := s.pool ++ [⟨rq.jar, s.sess rq.jar, rq.req, handler E rq.jar (s.sess rq.jar) rq.req⟩] }
  | .cmd i =>
    match s.pool[i]? with
    | none => s
    | some f =>
      match f.prog with
      | .ret _ => s
      | .cmd c k =>
        let r := exec s.db c
        { s with db := r.1, pool := s.pool.set i ⟨f.jar, f.id, f.req, k r.2⟩,
                 log := s.log ++ [⟨.request f.jar f.id f.req, c, foundBy c r.2⟩] }
  | .deliver i =>
    match s.pool[i]? with
    | none => s
    | some f =>
      match f.prog with
      | .cmd _ _ => s
      | .ret r =>
        { s with pool := s.pool.eraseIdx i,
                 sess := fun j => if j = f.jar then applyCookie (s.sess f.jar) r.cookie else s.sess j,
                 out := s.out ++ [(f.jar, r)] }
  | .finish j n => { s with db := dbEv E s.db (.finish j n) }
  | .write j n => { s with db := dbEv E s.db (.write j n), log := s.log ++ taskEntries E s.db (.write j n) }
  | .timeout j n => { s with db := dbEv E s.db (.timeout j n), log := s.log ++ taskEntries E s.db (.timeout j n) }

/-- a whole schedule -/
def runC (E : Env T H A R) : CState T H A R → List (Act T) → CState T H A R
  | s, [] => s
  | s, a :: as => runC E (stepC E s a) as

/-- the schedule that lets request `rq` run to completion as the `k`-th request in flight: arrive,
all its commands (as many as its atomic run issues), deliver -/
def seqRequest (E : Env T H A R) (st : State T H A R) (k : Nat) (rq : Request T) : List (Act T) :=
  [.arrive rq] ++ List.replicate (stepT E st rq).2.2.length (.cmd k) ++ [.deliver k]

/-- the sequential schedule of a history of the atomic model: no interleaving at all -/
def seqSchedule (E : Env T H A R) : State T H A R → List (Event T) → List (Act T)
  | _, [] => []
  | st, .req rq :: es => seqRequest E st 0 rq ++ seqSchedule E (stepEv E st (.req rq)).1 es
  | st, .finish j n :: es => .finish j n :: seqSchedule E (stepEv E st (.finish j n)).1 es
  | st, .write j n :: es => .write j n :: seqSchedule E (stepEv E st (.write j n)).1 es
  | st, .timeout j n :: es => .timeout j n :: seqSchedule E (stepEv E st (.timeout j n)).1 es

/-- the command log of the atomic model -/
def atomicLog (E : Env T H A R) : State T H A R → List (Event T) → List (Entry T H A R)
  | _, [] => []
  | st, .req rq :: es =>
    runLog (.request rq.jar (st.sess rq.jar) rq.req) (handler E rq.jar (st.sess rq.jar) rq.req) st.db ++
      atomicLog E (stepEv E st (.req rq)).1 es
  | st, e :: es => taskEntries E st.db e ++ atomicLog E (stepEv E st e).1 es

/-- number of documents with key `(username, name)` in the problem collection -/
def keyCount (u n : T) (db : Db T H A R) : Nat := (db.problems.filter (isProb u n)).length

/-- problem names are unique per user -/
def ProbUnique (db : Db T H A R) : Prop := ∀ u n, keyCount u n db ≤ 1

end
end ServerCmd
