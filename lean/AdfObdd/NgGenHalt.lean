import AdfObdd.NgGen
/-! # The generic nogood-learning search halts (liveness half)

Port of `NgHalt.lean` to the machine of `NgGen.lean`. New with respect to the prototype: the
propagation step may change the vector without changing its decided part (the code compares
handle vectors); by `gam_idem` the step after such an iteration leaves the vector alone, so an
iteration that neither decides anything nor classifies is followed by one that does (`tail_two`). -/
namespace NGen

variable {V Sto : Type}

/-- liveness laws of the parameters; `mu` measures how much is decided, `n` bounds it -/
structure GLive (P : GParams V Sto) (n : Nat) (mu : PA → Nat) : Prop where
  ok_gam : ∀ X, P.Ok X → P.Ok (P.gam X)
  ok_set : ∀ k X v b, P.Ok X → P.heu k X = some (v, b) → P.Ok (P.setV X v b)
  ok_upd : ∀ st X R, P.OkS st → P.Ok X → P.closure st (P.dec X) = Closure.update R → P.Ok (P.updV X R)
  dec_set : ∀ k X v b, P.Ok X → P.heu k X = some (v, b) → P.dec (P.setV X v b) = setAt (P.dec X) v b
  dec_upd : ∀ st X R, P.OkS st → P.Ok X → P.closure st (P.dec X) = Closure.update R → P.dec (P.updV X R) = R
  okg : ∀ X, P.Ok X → P.OkG (P.dec X)
  oks_add : ∀ st g, P.OkS st → P.OkG g → P.OkS (P.add st g)
  mem_add : ∀ st g x, P.OkS st → P.OkG g → (P.Mem (P.add st g) x ↔ (x = g ∨ P.Mem st x))
  heu_valid : ∀ k X v b, P.Ok X → P.heu k X = some (v, b) →
      pget (P.dec X) v = none ∧ mu (P.dec X) < mu (setAt (P.dec X) v b)
  heu_total : ∀ k X, P.Ok X → P.twoVal (P.dec X) = false → (P.heu k X).isSome = true ∧ mu (P.dec X) < n
  gam_sub : ∀ X, P.Ok X → PSub (P.dec X) (P.dec (P.gam X))
  gam_grow : ∀ X, P.Ok X → P.dec (P.gam X) ≠ P.dec X → mu (P.dec X) < mu (P.dec (P.gam X))
  /-- a propagation step that decides nothing new is idempotent (canonicity, in the instance) -/
  gam_idem : ∀ X, P.Ok X → P.dec (P.gam X) = P.dec X → P.gam (P.gam X) = P.gam X
  upd_sub : ∀ st A R, P.OkS st → P.OkG A → P.closure st A = Closure.update R → PSub A R ∧ mu A < mu R
  mu_le : ∀ A, P.OkG A → mu A ≤ n
  /-- the structure-lemma consequence for the closure -/
  cl_flip : ∀ st H v b, P.OkS st → P.OkG H → P.OkG (setAt H v b) → pget H v = none → P.Mem st (setAt H v b) →
      (∀ g, P.Mem st g → Closed g H ∨ PSub (setAt H v b) g) →
      ∃ R, P.closure st H = Closure.update R ∧ pget R v = some (!b)
  cl_direct : ∀ st A, P.OkS st → P.OkG A → (∃ g, P.Mem st g ∧ PSub g A) → P.closure st A = Closure.inconsistent

/-- apply `iter` j times starting at iteration number `k`, all of them continuing -/
noncomputable def iterN (P : GParams V Sto) : Nat → Nat → St V Sto → Option (St V Sto)
  | _, 0, s => some s
  | k, j+1, s => match iter P k s with
    | Res.cont s' => iterN P (k+1) j s'
    | Res.done _ => none

theorem iterN_add (P : GParams V Sto) : ∀ (a b k : Nat) (s s' s'' : St V Sto), iterN P k a s = some s' →
    iterN P (k + a) b s' = some s'' → iterN P k (a + b) s = some s'' := by
  intro a
  induction a with
  | zero => intro b k s s' s'' h1 h2; simp [iterN] at h1; subst h1; simpa using h2
  | succ a ih =>
    intro b k s s' s'' h1 h2
    have : a + 1 + b = (a + b) + 1 := by omega
    rw [this]
    unfold iterN at h1 ⊢
    cases hi : iter P k s with
    | done _ => rw [hi] at h1; cases h1
    | cont s1 =>
      rw [hi] at h1; simp only
      have e : k + (a + 1) = (k + 1) + a := by omega
      rw [e] at h2
      exact ih b (k+1) s1 s' s'' h1 h2

def Plain (P : GParams V Sto) (base top : PA) (extra : List (Entry V)) : Prop :=
  ∀ e ∈ extra, e.choice = none ∧ PSub base e.ng ∧ PSub e.ng top ∧ P.OkG e.ng

theorem Plain.top {P : GParams V Sto} {base top top' : PA} {l : List (Entry V)} (h : Plain P base top l)
    (hs : PSub top top') : Plain P base top' l :=
  fun e he => ⟨(h e he).1, (h e he).2.1, (h e he).2.2.1.trans hs, (h e he).2.2.2⟩

/-- what `stepTail` does to a state without pending choice or backtrack, when it classifies or
decides something -/
inductive TailOut3 (P : GParams V Sto) (mu : PA → Nat) (s s' : St V Sto) : Prop
  | dead (pl : List (Entry V)) : s'.backtrack = true → s'.choice = false → s'.stack = pl ++ s.stack →
      Plain P (P.dec s.cur) (P.dec s'.cur) pl → s'.store = s.store → PSub (P.dec s.cur) (P.dec s'.cur) →
      P.Ok s'.cur → TailOut3 P mu s s'
  | grown (pl : List (Entry V)) : s'.backtrack = false → s'.choice = false → s'.stack = pl ++ s.stack →
      Plain P (P.dec s.cur) (P.dec s'.cur) pl → s'.store = s.store → PSub (P.dec s.cur) (P.dec s'.cur) →
      mu (P.dec s.cur) < mu (P.dec s'.cur) →
      (∀ R, P.closure s.store (P.dec s.cur) = Closure.update R → PSub R (P.dec s'.cur)) →
      P.Ok s'.cur → TailOut3 P mu s s'
  | choose : s'.backtrack = false → s'.choice = true → s'.stack = s.stack → s'.store = s.store →
      P.dec s'.cur = P.dec s.cur → P.twoVal (P.dec s.cur) = false →
      P.closure s.store (P.dec s.cur) = Closure.noUpdate → P.Ok s'.cur → TailOut3 P mu s s'

/-- … or when only the vector changed (its decided part did not): then the new vector is settled -/
structure Stut (P : GParams V Sto) (s s' : St V Sto) : Prop where
  b1 : s'.backtrack = false
  b2 : s'.choice = false
  hst : s'.stack = s.stack
  hstore : s'.store = s.store
  hcur : P.dec s'.cur = P.dec s.cur
  hset : P.gam s'.cur = s'.cur
  hne : P.gam s.cur ≠ s.cur
  hok : P.Ok s'.cur

theorem TailOut3.transfer {P : GParams V Sto} {mu : PA → Nat} {s1 s s' : St V Sto} (h : TailOut3 P mu s1 s')
    (h1 : s1.stack = s.stack) (h2 : s1.store = s.store) (h3 : P.dec s1.cur = P.dec s.cur) : TailOut3 P mu s s' := by
  cases h with
  | dead pl a b c d e f g => exact TailOut3.dead pl a b (h1 ▸ c) (h3 ▸ d) (h2 ▸ e) (h3 ▸ f) g
  | grown pl a b c d e f g i j =>
    exact TailOut3.grown pl a b (h1 ▸ c) (h3 ▸ d) (h2 ▸ e) (h3 ▸ f) (h3 ▸ g)
      (by rw [← h2, ← h3]; exact i) j
  | choose a b c d e f g i =>
    exact TailOut3.choose a b (h1 ▸ c) (h2 ▸ d) (h3 ▸ e) (h3 ▸ f) (by rw [← h2, ← h3]; exact g) i

variable {P : GParams V Sto} {n : Nat} {mu : PA → Nat}

theorem final_out (hL : GLive P n mu) (s s3 : St V Sto) (updNg : Bool) (pl : List (Entry V))
    (hb : s3.backtrack = false) (hc : s3.choice = false) (hst : s3.stack = pl ++ s.stack)
    (hpl : Plain P (P.dec s.cur) (P.dec s3.cur) pl) (hstore : s3.store = s.store)
    (hsub : PSub (P.dec s.cur) (P.dec s3.cur)) (hok : P.Ok s3.cur)
    (hup : updNg = true → mu (P.dec s.cur) < mu (P.dec s3.cur))
    (hno : updNg = false → s3 = s ∧ pl = [] ∧ P.closure s.store (P.dec s.cur) = Closure.noUpdate)
    (hR : ∀ R, P.closure s.store (P.dec s.cur) = Closure.update R → PSub R (P.dec s3.cur)) :
    TailOut3 P mu s (stepFinal P s3 updNg) ∨ Stut P s (stepFinal P s3 updNg) := by
  unfold stepFinal
  by_cases hac : P.acIncons (P.dec s3.cur) = true
  · rw [if_pos hac]
    exact Or.inl (TailOut3.dead pl rfl hc hst hpl hstore hsub hok)
  · rw [if_neg hac]
    simp only
    have gs := hL.gam_sub s3.cur hok
    have hokg := hL.ok_gam s3.cur hok
    by_cases hfp : P.gam s3.cur ≠ s3.cur
    · rw [if_pos hfp]
      by_cases hdec : P.dec (P.gam s3.cur) = P.dec s3.cur
      · -- only the vector changed
        cases hu : updNg with
        | true =>
          left
          refine TailOut3.grown pl hb hc hst (hpl.top gs) hstore (hsub.trans gs) ?_ (fun R h => (hR R h).trans gs) hokg
          simp only; rw [hdec]; exact hup hu
        | false =>
          right
          obtain ⟨e1, e2, _⟩ := hno hu
          subst e1
          exact ⟨hb, hc, rfl, rfl, hdec, hL.gam_idem _ hok hdec, hfp, hokg⟩
      · left
        have hg := hL.gam_grow _ hok hdec
        refine TailOut3.grown pl hb hc hst (hpl.top gs) hstore (hsub.trans gs) ?_ (fun R h => (hR R h).trans gs) hokg
        cases hu : updNg with
        | true => have := hup hu; simp only; omega
        | false => have h' := (hno hu).1; simp only; rw [← h']; exact hg
    · rw [if_neg hfp]
      left
      have heq : P.gam s3.cur = s3.cur := by simpa using hfp
      by_cases hun : updNg = true
      · rw [if_pos hun]
        exact TailOut3.grown pl hb hc hst (hpl.top gs) hstore (hsub.trans gs) (by simp only; rw [heq]; exact hup hun)
          (fun R h => (hR R h).trans gs) hokg
      · rw [if_neg hun]
        have hun' : updNg = false := by simpa using hun
        have ⟨hs3, hpl0, hcl⟩ := hno hun'
        have hcur : P.dec s3.cur = P.dec s.cur := by rw [hs3]
        by_cases htv : (!P.twoVal (P.dec (P.gam s3.cur))) = true
        · rw [if_pos htv]
          refine TailOut3.choose hb rfl (by simp only; rw [hst, hpl0]; rfl) hstore (by simp only; rw [heq, hcur]) ?_ hcl hokg
          rw [heq, hcur] at htv; simpa using htv
        · rw [if_neg htv]
          have plain' : Plain P (P.dec s.cur) (P.dec (P.gam s3.cur)) ({ choice := none, ng := P.dec (P.gam s3.cur) } :: pl) := by
            intro e he
            rcases List.mem_cons.mp he with rfl | he
            · exact ⟨rfl, hsub.trans gs, PSub.refl _, hL.okg _ hokg⟩
            · exact (hpl.top gs) e he
          by_cases hit : P.isTarget (P.dec (P.gam s3.cur)) = true
          · rw [if_pos hit]
            exact TailOut3.dead _ rfl hc (by simp only; rw [hst]; rfl) plain' hstore (hsub.trans gs) hokg
          · rw [if_neg hit]
            exact TailOut3.dead _ rfl hc (by simp only; rw [hst]; rfl) plain' hstore (hsub.trans gs) hokg

theorem tail_out (hL : GLive P n mu) (s : St V Sto) (hb : s.backtrack = false) (hc : s.choice = false)
    (hok : P.Ok s.cur) (hoks : P.OkS s.store) :
    TailOut3 P mu s (stepTail P s) ∨ Stut P s (stepTail P s) := by
  unfold stepTail
  have hokg := hL.okg _ hok
  cases hcl : P.closure s.store (P.dec s.cur) with
  | inconsistent =>
    simp only
    exact Or.inl (TailOut3.dead [] rfl hc rfl (fun _ h => by cases h) rfl (PSub.refl _) hok)
  | update r =>
    simp only
    have ⟨hs, hm⟩ := hL.upd_sub _ _ r hoks hokg hcl
    have hd := hL.dec_upd _ _ r hoks hok hcl
    have hok' := hL.ok_upd _ _ r hoks hok hcl
    have hokr : P.OkG r := by rw [← hd]; exact hL.okg _ hok'
    exact final_out hL s _ true [{ choice := none, ng := r }] hb hc rfl
      (fun e he => by rw [List.mem_singleton.mp he]; simp only [hd]; exact ⟨trivial, hs, PSub.refl _, hokr⟩) rfl
      (by simp only [hd]; exact hs) hok' (fun _ => by simp only [hd]; exact hm) (fun h => by cases h)
      (fun R h => by rw [hcl] at h; cases h; simp only [hd]; exact PSub.refl _)
  | noUpdate =>
    simp only
    exact final_out hL s s false [] hb hc rfl (fun _ h => by cases h) rfl (PSub.refl _) hok
      (fun h => by cases h) (fun _ => ⟨rfl, rfl, hcl⟩) (fun R h => by rw [hcl] at h; cases h)

/-! ### unfolding one iteration by kind of state -/

theorem iter_N (k : Nat) (s : St V Sto) (hb : s.backtrack = false) (hc : s.choice = false) :
    iter P k s = Res.cont (stepTail P s) := by
  have h1 : step1 P k s = s := by unfold step1; rw [if_neg (by simp [hc])]
  unfold iter; simp only [h1]
  rw [if_neg (by simp [hb])]
  have h3 : step3 P s = s := by unfold step3; rw [if_neg (by simp [hb])]
  rw [h3]

theorem iter_B (k : Nat) (s : St V Sto) (hb : s.backtrack = true) (hc : s.choice = false) (hs : s.stack ≠ []) :
    iter P k s = Res.cont (stepTail P (step3 P s)) := by
  have h1 : step1 P k s = s := by unfold step1; rw [if_neg (by simp [hc])]
  unfold iter; simp only [h1]
  rw [if_neg (by simp [hs])]

def afterChoice (P : GParams V Sto) (s : St V Sto) (v : Nat) (b : Bool) : St V Sto :=
  { s with choice := false, cur := P.setV s.cur v b,
           stack := { choice := some (s.cur, v, b), ng := P.dec (P.setV s.cur v b) } :: s.stack }

theorem iter_C (k : Nat) (s : St V Sto) (hb : s.backtrack = false) (hc : s.choice = true) (v : Nat) (b : Bool)
    (hh : P.heu k s.cur = some (v, b)) :
    iter P k s = Res.cont (stepTail P (afterChoice P s v b)) := by
  have h1 : step1 P k s = afterChoice P s v b := by
    unfold step1 afterChoice; rw [if_pos hc, hh]
  unfold iter; simp only [h1]
  have hb' : (afterChoice P s v b).backtrack = false := hb
  rw [if_neg (by simp [hb'])]
  have h3 : step3 P (afterChoice P s v b) = afterChoice P s v b := by
    unfold step3; rw [if_neg (by simp [hb'])]
  rw [h3]

/-- popping plain entries down to a choice entry -/
theorem popLoop_to_choice (hL : GLive P n mu) : ∀ (extra : List (Entry V)) (H : V) (v : Nat) (b : Bool) (C : PA)
    (rest : List (Entry V)) (store : Sto) (cur : V), (∀ e ∈ extra, e.choice = none ∧ P.OkG e.ng) → P.OkG C →
    P.OkS store →
    (popLoop P (extra ++ { choice := some (H, v, b), ng := C } :: rest) store cur).1 = rest ∧
    (popLoop P (extra ++ { choice := some (H, v, b), ng := C } :: rest) store cur).2.2 = H ∧
    P.OkS (popLoop P (extra ++ { choice := some (H, v, b), ng := C } :: rest) store cur).2.1 ∧
    (∀ g, P.Mem (popLoop P (extra ++ { choice := some (H, v, b), ng := C } :: rest) store cur).2.1 g ↔
        (g = C ∨ (∃ e ∈ extra, e.ng = g) ∨ P.Mem store g)) := by
  intro extra
  induction extra with
  | nil =>
    intro H v b C rest store cur _ hC hS
    simp only [List.nil_append, popLoop]
    refine ⟨trivial, trivial, hL.oks_add _ _ hS hC, ?_⟩
    intro g
    rw [hL.mem_add store C g hS hC]
    simp
  | cons e extra ih =>
    intro H v b C rest store cur hp hC hS
    have he : e.choice = none := (hp e (List.mem_cons_self ..)).1
    have heg : P.OkG e.ng := (hp e (List.mem_cons_self ..)).2
    have ⟨a, b', c0, c⟩ := ih H v b C rest (P.add store e.ng) cur (fun x hx => hp x (List.mem_cons_of_mem _ hx)) hC
      (hL.oks_add _ _ hS heg)
    simp only [List.cons_append, popLoop, he]
    refine ⟨a, b', c0, ?_⟩
    intro g
    rw [c g, hL.mem_add store e.ng g hS heg]
    simp only [List.mem_cons]
    constructor
    · rintro (h | ⟨x, hx, h⟩ | h | h)
      · exact Or.inl h
      · exact Or.inr (Or.inl ⟨x, Or.inr hx, h⟩)
      · exact Or.inr (Or.inl ⟨e, Or.inl rfl, h.symm⟩)
      · exact Or.inr (Or.inr h)
    · rintro (h | ⟨x, hx | hx, h⟩ | h)
      · exact Or.inl h
      · subst hx; exact Or.inr (Or.inr (Or.inl h.symm))
      · exact Or.inr (Or.inl ⟨x, hx, h⟩)
      · exact Or.inr (Or.inr (Or.inr h))

structure LInv (P : GParams V Sto) (s : St V Sto) : Prop where
  nb : s.backtrack = false
  w : ∀ g, P.Mem s.store g → Closed g (P.dec s.cur)
  ch : s.choice = true → P.twoVal (P.dec s.cur) = false
  okc : P.Ok s.cur
  oks : P.OkS s.store

/-- from `s` (at iteration number `k`) the loop reaches, without halting, a state that asks for
backtracking and whose stack is the given one plus plain entries above `base` -/
def ReachB (P : GParams V Sto) (k : Nat) (s : St V Sto) (base : PA) (stk : List (Entry V)) (st0 : Sto) : Prop :=
  ∃ j s', iterN P k j s = some s' ∧ s'.backtrack = true ∧ s'.choice = false ∧
    (∃ extra, s'.stack = extra ++ stk ∧ Plain P base (P.dec s'.cur) extra) ∧
    (∀ g, P.Mem s'.store g → P.Mem st0 g ∨ PSub base g) ∧ PSub base (P.dec s'.cur) ∧
    P.OkS s'.store ∧ P.Ok s'.cur

theorem Plain.weaken {base base' top : PA} {l : List (Entry V)} (h : Plain P base' top l) (hs : PSub base base') :
    Plain P base top l := fun e he => ⟨(h e he).1, hs.trans (h e he).2.1, (h e he).2.2.1, (h e he).2.2.2⟩

theorem ReachB.weaken {k : Nat} {s : St V Sto} {base base' : PA} {stk stk' : List (Entry V)} {st0 st0' : Sto}
    (h : ReachB P k s base' stk' st0') (pl : List (Entry V)) (hstk : stk' = pl ++ stk) (hpl : Plain P base base' pl)
    (hb : PSub base base') (hst : ∀ g, P.Mem st0' g → P.Mem st0 g ∨ PSub base g) : ReachB P k s base stk st0 := by
  obtain ⟨j, s', hk, b1, b2, ⟨extra, he, hp⟩, hs, hc, ho1, ho2⟩ := h
  refine ⟨j, s', hk, b1, b2, ⟨extra ++ pl, by rw [he, hstk, List.append_assoc], ?_⟩, ?_, hb.trans hc, ho1, ho2⟩
  · intro e he'
    rcases List.mem_append.mp he' with h1 | h1
    · exact (hp.weaken hb) e h1
    · exact (hpl.top hc) e h1
  · intro g hg
    rcases hs g hg with h1 | h1
    · exact hst g h1
    · exact Or.inr (hb.trans h1)

theorem ReachB.step {k : Nat} {s s1 : St V Sto} {base : PA} {stk : List (Entry V)} {st0 : Sto}
    (hi : iter P k s = Res.cont s1) (h : ReachB P (k+1) s1 base stk st0) : ReachB P k s base stk st0 := by
  obtain ⟨j, s', hk, rest⟩ := h
  refine ⟨j + 1, s', ?_, rest⟩
  unfold iterN; rw [hi]; exact hk

theorem after_tail (k : Nat) (s s'' : St V Sto) (to : TailOut3 P mu s s'') (hw : ∀ g, P.Mem s.store g → Closed g (P.dec s.cur))
    (hoks : P.OkS s.store)
    (hG : ∀ k t, LInv P t → t.choice = false → mu (P.dec s.cur) < mu (P.dec t.cur) →
      ReachB P k t (P.dec t.cur) t.stack t.store)
    (hC : ∀ k t, LInv P t → t.choice = true → P.dec t.cur = P.dec s.cur → ReachB P k t (P.dec t.cur) t.stack t.store) :
    ReachB P k s'' (P.dec s.cur) s.stack s.store := by
  cases to with
  | dead pl b1 b2 hst hpl hstore hsub hok =>
    exact ⟨0, s'', rfl, b1, b2, ⟨pl, hst, hpl⟩, fun g hg => Or.inl (hstore ▸ hg), hsub, hstore ▸ hoks, hok⟩
  | grown pl b1 b2 hst hpl hstore hsub hmu _ hok =>
    have li : LInv P s'' :=
      ⟨b1, fun g hg => (hw g (hstore ▸ hg)).mono hsub, fun h => (by rw [b2] at h; cases h), hok, hstore ▸ hoks⟩
    exact (hG k s'' li b2 hmu).weaken pl hst hpl hsub (fun g hg => Or.inl (hstore ▸ hg))
  | choose b1 b2 hst hstore hcur htv _ hok =>
    have li : LInv P s'' :=
      ⟨b1, fun g hg => by rw [hcur]; exact hw g (hstore ▸ hg), fun _ => by rw [hcur]; exact htv, hok, hstore ▸ hoks⟩
    exact (hC k s'' li b2 hcur).weaken [] (by rw [hst]; rfl) (fun _ h => by cases h) (by rw [hcur]; exact PSub.refl _)
      (fun g hg => Or.inl (hstore ▸ hg))

/-- one or two iterations after which the tail has classified or decided something: `s0` is the
state after the head of an iteration (choice / restore); the statement is about what follows
`stepTail P s0` -/
theorem tail_two (hL : GLive P n mu) (s0 : St V Sto) (hb : s0.backtrack = false) (hc : s0.choice = false)
    (hok : P.Ok s0.cur) (hoks : P.OkS s0.store) :
    TailOut3 P mu s0 (stepTail P s0) ∨
    ((∀ k, iter P k (stepTail P s0) = Res.cont (stepTail P (stepTail P s0))) ∧
      TailOut3 P mu s0 (stepTail P (stepTail P s0))) := by
  rcases tail_out hL s0 hb hc hok hoks with h | h
  · exact Or.inl h
  · right
    refine ⟨fun k => iter_N k _ h.b1 h.b2, ?_⟩
    rcases tail_out hL (stepTail P s0) h.b1 h.b2 h.hok (h.hstore ▸ hoks) with h2 | h2
    · exact h2.transfer h.hst h.hstore h.hcur
    · exact absurd h.hset h2.hne

/-- `after_tail` through a possible vector-only iteration -/
theorem after_tail2 (hL : GLive P n mu) (k : Nat) (s0 : St V Sto) (hb : s0.backtrack = false) (hc : s0.choice = false)
    (hok : P.Ok s0.cur) (hoks : P.OkS s0.store) (hw : ∀ g, P.Mem s0.store g → Closed g (P.dec s0.cur))
    (hG : ∀ k t, LInv P t → t.choice = false → mu (P.dec s0.cur) < mu (P.dec t.cur) →
      ReachB P k t (P.dec t.cur) t.stack t.store)
    (hC : ∀ k t, LInv P t → t.choice = true → P.dec t.cur = P.dec s0.cur → ReachB P k t (P.dec t.cur) t.stack t.store) :
    ReachB P k (stepTail P s0) (P.dec s0.cur) s0.stack s0.store := by
  rcases tail_two hL s0 hb hc hok hoks with h | ⟨hi, h⟩
  · exact after_tail k s0 _ h hw hoks hG hC
  · exact ReachB.step (hi k) (after_tail (k+1) s0 _ h hw hoks hG hC)

/-- the big-step lemma: exploring the subtree below any live state comes back -/
theorem bigstep (hL : GLive P n mu) : ∀ (d k : Nat) (s : St V Sto), LInv P s → n - mu (P.dec s.cur) ≤ d →
    ReachB P k s (P.dec s.cur) s.stack s.store := by
  intro d
  induction d using Nat.strongRecOn with
  | _ d ih =>
    -- states that are about to choose
    have Ccase : ∀ k s, LInv P s → s.choice = true → n - mu (P.dec s.cur) ≤ d →
        ReachB P k s (P.dec s.cur) s.stack s.store := by
      intro k s li hc hd
      have ⟨hsome, hlt⟩ := hL.heu_total k s.cur li.okc (li.ch hc)
      cases hh : P.heu k s.cur with
      | none => rw [hh] at hsome; cases hsome
      | some vb =>
        obtain ⟨v, b⟩ := vb
        have ⟨hn, hgrow⟩ := hL.heu_valid k s.cur v b li.okc hh
        have hdset := hL.dec_set k s.cur v b li.okc hh
        have hokset := hL.ok_set k s.cur v b li.okc hh
        have hd1 : 1 ≤ d := by omega
        have hiter := iter_C (P := P) k s li.nb hc v b hh
        have hs1b : (afterChoice P s v b).backtrack = false := li.nb
        have hs1c : (afterChoice P s v b).choice = false := rfl
        have hs1cur : P.dec (afterChoice P s v b).cur = setAt (P.dec s.cur) v b := hdset
        have hs1stack : (afterChoice P s v b).stack =
            { choice := some (s.cur, v, b), ng := setAt (P.dec s.cur) v b } :: s.stack := by
          unfold afterChoice; simp only; rw [hdset]
        have hs1store : (afterChoice P s v b).store = s.store := rfl
        have hw1 : ∀ g, P.Mem (afterChoice P s v b).store g → Closed g (P.dec (afterChoice P s v b).cur) :=
          fun g hg => by rw [hs1cur]; exact (li.w g hg).mono (psub_setAt b hn)
        have r1 := after_tail2 hL (k+1) (afterChoice P s v b) hs1b hs1c hokset li.oks hw1
          (fun k' t lt _ hm => ih (d-1) (by omega) k' t lt (by rw [hs1cur] at hm; omega))
          (fun k' t lt _ hcur => ih (d-1) (by omega) k' t lt (by rw [hcur, hs1cur]; omega))
        obtain ⟨j1, sB, hk1, bB, cB, ⟨extra, hstB, hplB⟩, hstoreB, hcurB, hoksB, hokB⟩ := r1
        rw [hs1stack] at hstB
        rw [hs1cur] at hplB hstoreB hcurB
        -- the backtracking iteration
        have hne : sB.stack ≠ [] := by rw [hstB]; simp
        have hokC : P.OkG (setAt (P.dec s.cur) v b) := by rw [← hdset]; exact hL.okg _ hokset
        have hpop := popLoop_to_choice hL extra s.cur v b (setAt (P.dec s.cur) v b) s.stack sB.store sB.cur
          (fun e he => ⟨(hplB e he).1, (hplB e he).2.2.2⟩) hokC hoksB
        rw [← hstB] at hpop
        obtain ⟨p1, p2, p3, p4⟩ := hpop
        have h3b : (step3 P sB).backtrack = false := by unfold step3; rw [if_pos bB]
        have h3c : (step3 P sB).choice = false := by unfold step3; rw [if_pos bB]; exact cB
        have h3stack : (step3 P sB).stack = s.stack := by unfold step3; rw [if_pos bB]; exact p1
        have h3cur : (step3 P sB).cur = s.cur := by unfold step3; rw [if_pos bB]; exact p2
        have h3oks : P.OkS (step3 P sB).store := by unfold step3; rw [if_pos bB]; exact p3
        have h3store : ∀ g, P.Mem (step3 P sB).store g ↔
            (g = setAt (P.dec s.cur) v b ∨ (∃ e ∈ extra, e.ng = g) ∨ P.Mem sB.store g) := by
          unfold step3; rw [if_pos bB]; exact p4
        -- classification of the stored nogoods w.r.t. the level being flipped
        have hclass : ∀ g, P.Mem (step3 P sB).store g → Closed g (P.dec s.cur) ∨ PSub (setAt (P.dec s.cur) v b) g := by
          intro g hg
          rcases (h3store g).mp hg with h | ⟨e, he, h⟩ | h
          · right; rw [h]; exact PSub.refl _
          · right; rw [← h]; exact (hplB e he).2.1
          · rcases hstoreB g h with h' | h'
            · left; exact li.w g h'
            · right; exact h'
        have hst0 : ∀ g, P.Mem (step3 P sB).store g → P.Mem s.store g ∨ PSub (P.dec s.cur) g := by
          intro g hg
          rcases (h3store g).mp hg with h | ⟨e, he, h⟩ | h
          · right; rw [h]; exact psub_setAt b hn
          · right; rw [← h]; exact (psub_setAt b hn).trans (hplB e he).2.1
          · rcases hstoreB g h with h' | h'
            · left; exact h'
            · right; exact (psub_setAt b hn).trans h'
        obtain ⟨R, hclR, hRv⟩ := hL.cl_flip (step3 P sB).store (P.dec s.cur) v b h3oks (hL.okg _ li.okc) hokC hn
          ((h3store _).mpr (Or.inl rfl)) hclass
        have h3ok : P.Ok (step3 P sB).cur := by rw [h3cur]; exact li.okc
        -- what follows the restore: one or two iterations
        have r2 : ∀ k', ReachB P k' (stepTail P (step3 P sB)) (P.dec s.cur) s.stack s.store := by
          intro k'
          have fin : ∀ k'' t, TailOut3 P mu (step3 P sB) t → ReachB P k'' t (P.dec s.cur) s.stack s.store := by
            intro k'' t to2
            cases to2 with
            | dead pl b1 b2 hst hpl hstore hsub hok =>
              refine ⟨0, _, rfl, b1, b2, ⟨pl, by rw [hst, h3stack], by rw [← h3cur]; exact hpl⟩, ?_,
                by rw [← h3cur]; exact hsub, hstore ▸ h3oks, hok⟩
              intro g hg; exact hst0 g (hstore ▸ hg)
            | grown pl b1 b2 hst hpl hstore hsub hmu hR hok =>
              have hRt := hR R (by rw [h3cur]; exact hclR)
              have li2 : LInv P t := by
                refine ⟨b1, ?_, fun h => (by rw [b2] at h; cases h), hok, hstore ▸ h3oks⟩
                intro g hg
                rcases hclass g (hstore ▸ hg) with h | h
                · exact h.mono (by rw [← h3cur]; exact hsub)
                · refine ⟨v, b, h v b (by rw [pget_setAt]; simp), hRt v _ hRv⟩
              have := ih (d-1) (by omega) k'' _ li2 (by rw [h3cur] at hmu; omega)
              exact this.weaken pl (by rw [hst, h3stack]) (by rw [← h3cur]; exact hpl)
                (by rw [← h3cur]; exact hsub) (fun g hg => hst0 g (hstore ▸ hg))
            | choose _ _ _ _ _ _ hno _ =>
              rw [h3cur, hclR] at hno; cases hno
          rcases tail_two hL (step3 P sB) h3b h3c h3ok h3oks with h | ⟨hi, h⟩
          · exact fin k' _ h
          · exact ReachB.step (hi k') (fin (k'+1) _ h)
        -- put the pieces together
        have hiterB := iter_B (P := P) (k + 1 + j1) sB bB cB hne
        have rB : ReachB P (k + 1 + j1) sB (P.dec s.cur) s.stack s.store := ReachB.step hiterB (r2 _)
        obtain ⟨j2, sF, hk2, rest⟩ := rB
        refine ⟨(j1 + j2) + 1, sF, ?_, rest⟩
        unfold iterN; rw [hiter]
        exact iterN_add P j1 j2 (k+1) _ sB sF hk1 hk2
    intro k s li hd
    by_cases hc : s.choice = true
    · exact Ccase k s li hc hd
    · have hc' : s.choice = false := by simpa using hc
      have hiter := iter_N (P := P) k s li.nb hc'
      apply ReachB.step hiter
      apply after_tail2 hL (k+1) s li.nb hc' li.okc li.oks li.w
      · intro k' t lt _ hm
        have := hL.mu_le (P.dec t.cur) (hL.okg _ lt.okc)
        exact ih (d-1) (by omega) k' t lt (by omega)
      · intro k' t lt htc hcur
        exact Ccase k' t lt htc (by rw [hcur]; exact hd)

/-! ### halting from the initial state -/

theorem run_of_iterN : ∀ (j f k : Nat) (s s' : St V Sto), iterN P k j s = some s' →
    run P k (j + f) s = run P (k + j) f s' := by
  intro j
  induction j with
  | zero => intro f k s s' h; simp [iterN] at h; subst h; simp
  | succ j ih =>
    intro f k s s' h
    have : j + 1 + f = (j + f) + 1 := by omega
    rw [this]
    unfold iterN at h
    rw [run]
    cases hi : iter P k s with
    | done _ => rw [hi] at h; cases h
    | cont s1 =>
      rw [hi] at h; simp only
      have e : k + (j + 1) = (k + 1) + j := by omega
      rw [e]; exact ih f (k+1) s1 s' h

theorem popLoop_plain (hL : GLive P n mu) : ∀ (extra : List (Entry V)) (store : Sto) (cur : V),
    (∀ e ∈ extra, e.choice = none ∧ P.OkG e.ng) → P.OkS store →
    (popLoop P extra store cur).1 = [] ∧ (popLoop P extra store cur).2.2 = cur ∧
    P.OkS (popLoop P extra store cur).2.1 ∧
    (∀ g, P.Mem store g → P.Mem (popLoop P extra store cur).2.1 g) ∧
    (∀ e ∈ extra, P.Mem (popLoop P extra store cur).2.1 e.ng) := by
  intro extra
  induction extra with
  | nil => intro store cur _ hS; simp only [popLoop]; exact ⟨trivial, trivial, hS, fun _ h => h, fun _ h => by cases h⟩
  | cons e extra ih =>
    intro store cur hp hS
    have he : e.choice = none := (hp e (List.mem_cons_self ..)).1
    have heg : P.OkG e.ng := (hp e (List.mem_cons_self ..)).2
    have ⟨a, b, c0, c1, c⟩ := ih (P.add store e.ng) cur (fun x hx => hp x (List.mem_cons_of_mem _ hx))
      (hL.oks_add _ _ hS heg)
    simp only [popLoop, he]
    refine ⟨a, b, c0, fun g hg => c1 g ((hL.mem_add store e.ng g hS heg).mpr (Or.inr hg)), ?_⟩
    intro x hx
    rcases List.mem_cons.mp hx with rfl | hx
    · exact c1 _ ((hL.mem_add store x.ng x.ng hS heg).mpr (Or.inl rfl))
    · exact c x hx

/-- liveness: from the initial state the loop halts, for every heuristic oracle satisfying the
`GLive` laws -/
theorem halts (hL : GLive P n mu) (g : V) (st : Sto) (hok : P.Ok g) (hoks : P.OkS st) (hemp : ∀ x, ¬ P.Mem st x) (k : Nat) :
    ∃ fuel s', run P k fuel { cur := g, store := st, stack := [], backtrack := false, choice := false, out := [] } = some s' := by
  have li : LInv P { cur := g, store := st, stack := [], backtrack := false, choice := false, out := [] } :=
    ⟨rfl, (fun x h => absurd h (hemp x)), (fun h => (by cases h)), hok, hoks⟩
  obtain ⟨j, sB, hk, bB, cB, ⟨extra, hst, hpl⟩, _, _, hoksB, hokB⟩ := bigstep hL (n - mu (P.dec g)) k _ li (Nat.le_refl _)
  simp only [List.append_nil] at hst
  have hdoneAt : ∀ k' (t : St V Sto), t.backtrack = true → t.choice = false → t.stack = [] → iter P k' t = Res.done t := by
    intro k' t tb tc ts
    have h1 : step1 P k' t = t := by unfold step1; rw [if_neg (by simp [tc])]
    unfold iter; simp only [h1]; rw [if_pos ⟨tb, ts⟩]
  cases hex : extra with
  | nil =>
    refine ⟨j + 1, sB, ?_⟩
    rw [run_of_iterN j 1 k _ sB hk]
    unfold run; rw [hdoneAt _ sB bB cB (by rw [hst, hex])]
  | cons e rest =>
    -- one more backtracking iteration empties the stack and finds the popped nogood violated
    have hne : sB.stack ≠ [] := by rw [hst, hex]; simp
    have hiterB := iter_B (P := P) (k + j) sB bB cB hne
    have ⟨p1, p2, p3, _, p5⟩ := popLoop_plain hL sB.stack sB.store sB.cur
      (by rw [hst]; exact fun x hx => ⟨(hpl x hx).1, (hpl x hx).2.2.2⟩) hoksB
    have hcl : P.closure (step3 P sB).store (P.dec (step3 P sB).cur) = Closure.inconsistent := by
      have e1 : (step3 P sB).store = (popLoop P sB.stack sB.store sB.cur).2.1 := by unfold step3; rw [if_pos bB]
      have e2 : (step3 P sB).cur = sB.cur := by unfold step3; rw [if_pos bB]; exact p2
      rw [e1, e2]
      apply hL.cl_direct _ _ p3 (hL.okg _ hokB)
      refine ⟨e.ng, p5 e (by rw [hst, hex]; exact List.mem_cons_self ..), ?_⟩
      exact (hpl e (by rw [hex]; exact List.mem_cons_self ..)).2.2.1
    have hfin : stepTail P (step3 P sB) = { step3 P sB with backtrack := true } := by
      unfold stepTail; rw [hcl]
    have hdone := hdoneAt (k + j + 1) { step3 P sB with backtrack := true } rfl
      (by unfold step3; rw [if_pos bB]; exact cB) (by unfold step3; rw [if_pos bB]; exact p1)
    refine ⟨j + 2, { step3 P sB with backtrack := true }, ?_⟩
    rw [run_of_iterN j 2 k _ sB hk]
    unfold run; rw [hiterB]; simp only
    unfold run; rw [hfin, hdone]

end NGen
#print axioms NGen.bigstep
#print axioms NGen.halts
