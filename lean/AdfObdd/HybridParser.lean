import AdfObdd.HybridEndToEnd
/-! # One written framework, both `from_parser`s

`Formula::to_boolean_expr` (`Fm.toBExpr`, constructor for constructor) and the biodivine object built from
a list of written conditions - one per statement, in declaration order, the shape `buildNative` (the
native `from_parser` model of C09) takes. `Bio.fromFormulas_spec`: its diagrams are valid and denote the
written formulas, hence the SAME functions as the native object's handles (`native_bio_same_functions`).
Also the list form of `buildNative_correct` shared by C02 / C03 (`buildNative_fns`). -/

/-- `Formula::to_boolean_expr` with the names resolved to statement numbers -/
def Fm.toBExpr : Fm → Bio.BExpr
  | .top => .const true
  | .bot => .const false
  | .atom v => .var v
  | .not f => .not f.toBExpr
  | .and a b => .and a.toBExpr b.toBExpr
  | .or a b => .or a.toBExpr b.toBExpr
  | .imp a b => .imp a.toBExpr b.toBExpr
  | .xor a b => .xor a.toBExpr b.toBExpr
  | .iff a b => .iff a.toBExpr b.toBExpr

theorem Fm.toBExpr_sem : ∀ f : Fm, f.toBExpr.sem = f.sem := by
  intro f
  induction f with
  | top => rfl
  | bot => rfl
  | atom v => rfl
  | not f ih => funext σ; simp only [Fm.toBExpr, Bio.BExpr.sem, Fm.sem, ih]
  | and a b iha ihb => funext σ; simp only [Fm.toBExpr, Bio.BExpr.sem, Fm.sem, iha, ihb]
  | or a b iha ihb => funext σ; simp only [Fm.toBExpr, Bio.BExpr.sem, Fm.sem, iha, ihb]
  | imp a b iha ihb => funext σ; simp only [Fm.toBExpr, Bio.BExpr.sem, Fm.sem, iha, ihb]
  | xor a b iha ihb => funext σ; simp only [Fm.toBExpr, Bio.BExpr.sem, Fm.sem, iha, ihb]
  | iff a b iha ihb => funext σ; simp only [Fm.toBExpr, Bio.BExpr.sem, Fm.sem, iha, ihb]

theorem Fm.toBExpr_closed {n : Nat} : ∀ f : Fm, NConc.atomsLt n f → f.toBExpr.closed n = true := by
  intro f
  induction f with
  | top => intro _; rfl
  | bot => intro _; rfl
  | atom v => intro h; have h' : v < n := h; simp [Fm.toBExpr, Bio.BExpr.closed, h']
  | not f ih => intro h; exact ih h
  | and a b iha ihb => intro h; simp only [Fm.toBExpr, Bio.BExpr.closed, iha h.1, ihb h.2, Bool.and_self]
  | or a b iha ihb => intro h; simp only [Fm.toBExpr, Bio.BExpr.closed, iha h.1, ihb h.2, Bool.and_self]
  | imp a b iha ihb => intro h; simp only [Fm.toBExpr, Bio.BExpr.closed, iha h.1, ihb h.2, Bool.and_self]
  | xor a b iha ihb => intro h; simp only [Fm.toBExpr, Bio.BExpr.closed, iha h.1, ihb h.2, Bool.and_self]
  | iff a b iha ihb => intro h; simp only [Fm.toBExpr, Bio.BExpr.closed, iha h.1, ihb h.2, Bool.and_self]

theorem sem_detBy {n : Nat} (f : Fm) (h : NConc.atomsLt n f) : TT.DetBy n f.sem :=
  fun σ τ e => NConc.sem_supp f h σ τ e

/-- the conditions' handles of the native `from_parser` on written formulas denote the formulas (list
form of `buildNative_correct`) -/
theorem buildNative_fns (fms : List Fm) (hn : fms.length ≤ VBOT) (hv : ∀ f ∈ fms, f.atomsOK) :
    WF (buildNative fms.length fms).1 ∧ (buildNative fms.length fms).2.length = fms.length ∧
    (∀ t ∈ (buildNative fms.length fms).2, t < (buildNative fms.length fms).1.nodes.size) ∧
    (buildNative fms.length fms).2.map (eval (buildNative fms.length fms).1) = fms.map Fm.sem := by
  obtain ⟨w, hl, hok⟩ := buildNative_correct fms.length fms hn hv
  refine ⟨w, hl, ?_, ?_⟩
  · intro t ht
    obtain ⟨i, hi, rfl⟩ := List.getElem_of_mem ht
    have hi' : i < fms.length := by rw [← hl]; exact hi
    exact (hok i _ fms[i] (List.getElem?_eq_getElem hi) (List.getElem?_eq_getElem hi')).1
  · apply List.ext_getElem
    · simp [hl]
    · intro i h1 h2
      simp only [List.getElem_map]
      have hi : i < (buildNative fms.length fms).2.length := by simpa using h1
      have hi' : i < fms.length := by simpa using h2
      funext σ
      exact (hok i _ fms[i] (List.getElem?_eq_getElem hi) (List.getElem?_eq_getElem hi')).2 σ

namespace Bio
section
variable {T : Type} (L : Lib T)

/-- `adfbiodivine::Adf::from_parser` on a file `s(x0). … ac(x0, φ0). …` with exactly one condition per
statement, written in declaration order (`formula_order = [0, …, n-1]`) -/
def fromFormulas (fms : List Fm) : List T :=
  acOf L fms.length (List.range fms.length) (fms.map Fm.toBExpr)

/-- … and the rewriting `from_parser_with_stm_rewrite` prepares for it -/
def rewritingOfFormulas (fms : List Fm) : T :=
  stmRewriting L (List.range fms.length) (fms.map Fm.toBExpr)

variable {L}

theorem fromFormulas_spec (fms : List Fm) (W : Lawful L fms.length)
    (hv : ∀ f ∈ fms, NConc.atomsLt fms.length f) :
    (fromFormulas L fms).length = fms.length ∧ (∀ x ∈ fromFormulas L fms, W.Valid x) ∧
    (fromFormulas L fms).map W.den = fms.map Fm.sem ∧
    (∀ x ∈ fromFormulas L fms, TT.DetBy fms.length (W.den x)) := by
  have hcl : ∀ φ ∈ fms.map Fm.toBExpr, φ.closed fms.length = true := by
    intro φ hφ
    obtain ⟨f, hf, rfl⟩ := List.mem_map.mp hφ
    exact Fm.toBExpr_closed f (hv f hf)
  have ⟨a, b, c⟩ := acOf_spec W fms.length (List.range fms.length) (fms.map Fm.toBExpr) hcl
  have hmap : (fromFormulas L fms).map W.den = fms.map Fm.sem := by
    apply List.ext_getElem
    · simp [fromFormulas, a]
    · intro i h1 h2
      have hi : i < fms.length := by simpa using h2
      have hp : (i, fms[i].toBExpr) ∈ (List.range fms.length).zip (fms.map Fm.toBExpr) := by
        rw [List.mem_iff_getElem?]
        exact ⟨i, by simp [List.getElem?_zip_eq_some, hi]⟩
      have hget := c List.nodup_range (by simp) _ hp hi
      have hget' : (fromFormulas L fms)[i]? = some (L.evalExpr fms[i].toBExpr) := hget
      have hlt : i < (fromFormulas L fms).length := by simpa using h1
      rw [List.getElem?_eq_getElem hlt] at hget'
      simp only [Option.some.injEq] at hget'
      simp only [List.getElem_map, hget']
      rw [(W.evalExpr_spec _ (Fm.toBExpr_closed _ (hv _ (List.getElem_mem hi)))).2, Fm.toBExpr_sem]
  refine ⟨a, b, hmap, ?_⟩
  intro x hx
  have : W.den x ∈ (fromFormulas L fms).map W.den := List.mem_map_of_mem hx
  rw [hmap] at this
  obtain ⟨f, hf, he⟩ := List.mem_map.mp this
  rw [← he]; exact sem_detBy f (hv f hf)

/-- **both back-ends instantiated from one written framework denote the same functions**, position by
position: the hypothesis `hsame` of `C03.native_rewriting_exact`, derived -/
theorem native_bio_same_functions (fms : List Fm) (W : Lawful L fms.length) (hn : fms.length ≤ VBOT)
    (hv : ∀ f ∈ fms, NConc.atomsLt fms.length f) :
    (fromFormulas L fms).map W.den =
      (buildNative fms.length fms).2.map (eval (buildNative fms.length fms).1) := by
  rw [(fromFormulas_spec fms W hv).2.2.1,
    (buildNative_fns fms hn (fun f hf => NConc.atomsOK_of_lt hn f (hv f hf))).2.2.2]

/-- the rewriting prepared from the written framework is usable (`GoodRewrite`) -/
theorem rewritingOfFormulas_good (fms : List Fm) (W : Lawful L fms.length)
    (hv : ∀ f ∈ fms, NConc.atomsLt fms.length f) :
    GoodRewrite W (fromFormulas L fms) (some (rewritingOfFormulas L fms)) := by
  have hcl : ∀ φ ∈ fms.map Fm.toBExpr, φ.closed fms.length = true := by
    intro φ hφ
    obtain ⟨f, hf, rfl⟩ := List.mem_map.mp hφ
    exact Fm.toBExpr_closed f (hv f hf)
  exact stmRewriting_good W (List.range fms.length) (fms.map Fm.toBExpr) hcl
    (fun o ho => by simpa using ho) List.nodup_range (by simp)

end
end Bio
