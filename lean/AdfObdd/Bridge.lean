import AdfObdd.StoreOps
/-! prototype 41: the biodivine bridge (`Adf::from_biodivine_vector`): replaying an ordered dump
    (two terminals first, children before parents) through `mkNode` into *any* well-formed store
    yields, for every dump index, a handle with the dump's function (C09, bridge pipeline) -/

/-- the function of dump entry `j` (relational, so that no fuel is needed) -/
inductive Den (d : List Node) : Nat → BoolFn → Prop
  | bot : Den d 0 (fun _ => false)
  | top : Den d 1 (fun _ => true)
  | inner (j : Nat) (n : Node) (fl fh : BoolFn) : 2 ≤ j → d[j]? = some n →
      Den d n.lo fl → Den d n.hi fh → Den d j (fun σ => if σ n.var then fh σ else fl σ)

/-- what the code assumes of a dump: children come first and carry larger variables -/
def DumpOK (d : List Node) : Prop :=
  ∀ (j : Nat) (n : Node), 2 ≤ j → d[j]? = some n → n.var < VBOT ∧ n.lo < j ∧ n.hi < j ∧
    (∀ m, 2 ≤ n.lo → d[n.lo]? = some m → n.var < m.var) ∧ (∀ m, 2 ≤ n.hi → d[n.hi]? = some m → n.var < m.var)

/-- the loop body for the entries from index 2 on; `m` is `term_vec` -/
def replayL : List Node → Store → List Nat → Store × List Nat
  | [], s, m => (s, m)
  | n :: rest, s, m =>
    let r := mkNode s n.var (m.getD n.lo 0) (m.getD n.hi 0)
    replayL rest r.1 (m ++ [r.2])

/-- the invariant of the loop after `m.length` dump entries -/
structure BInv (d : List Node) (s : Store) (m : List Nat) : Prop where
  wf : WF s
  two : 2 ≤ m.length
  h0 : m[0]? = some 0
  h1 : m[1]? = some 1
  valid : ∀ (j t : Nat), m[j]? = some t → t < s.nodes.size
  den : ∀ (j t : Nat) (f : BoolFn), m[j]? = some t → Den d j f → ∀ σ, eval s t σ = f σ
  ord : ∀ (j t : Nat) (n : Node), 2 ≤ j → m[j]? = some t → d[j]? = some n → n.var ≤ topVar s t

theorem topVar_zero {s : Store} (w : WF s) : topVar s 0 = VBOT := by simp [topVar, w.bot]
theorem topVar_one {s : Store} (w : WF s) : topVar s 1 = VTOP := by simp [topVar, w.top]

theorem getD_of_get {m : List Nat} {j t : Nat} (h : m[j]? = some t) : m.getD j 0 = t := by
  simp [List.getD, h]

theorem replay_step (d : List Node) (hd : DumpOK d) (s : Store) (m : List Nat) (n : Node)
    (inv : BInv d s m) (hn : d[m.length]? = some n) :
    BInv d (mkNode s n.var (m.getD n.lo 0) (m.getD n.hi 0)).1 (m ++ [(mkNode s n.var (m.getD n.lo 0) (m.getD n.hi 0)).2]) ∧
    Ext s (mkNode s n.var (m.getD n.lo 0) (m.getD n.hi 0)).1 := by
  have ⟨hv, hlo, hhi, hol, ohh⟩ := hd m.length n inv.two hn
  obtain ⟨tl, htl⟩ : ∃ t, m[n.lo]? = some t := ⟨m[n.lo], List.getElem?_eq_getElem hlo⟩
  obtain ⟨th, hth⟩ : ∃ t, m[n.hi]? = some t := ⟨m[n.hi], List.getElem?_eq_getElem hhi⟩
  rw [getD_of_get htl, getD_of_get hth]
  have w := inv.wf
  -- the ordering premises of `mkNode_spec`
  have ordOf : ∀ c tc, c < m.length → m[c]? = some tc →
      (∀ mm, 2 ≤ c → d[c]? = some mm → n.var < mm.var) → n.var < topVar s tc := by
    intro c tc hc htc hmm
    by_cases c0 : c = 0
    · subst c0; rw [inv.h0] at htc; cases htc; rw [topVar_zero w]; exact hv
    by_cases c1 : c = 1
    · subst c1; rw [inv.h1] at htc; cases htc; rw [topVar_one w]; unfold VTOP; unfold VBOT at hv; omega
    have c2 : 2 ≤ c := by omega
    -- the dump has an entry at `c` because the loop has processed it
    cases hdc : d[c]? with
    | none =>
      have hml : m.length < d.length := by
        rcases Nat.lt_or_ge m.length d.length with h | h
        · exact h
        · rw [List.getElem?_eq_none h] at hn; cases hn
      rw [List.getElem?_eq_none_iff] at hdc; omega
    | some mm =>
      exact Nat.lt_of_lt_of_le (hmm mm c2 hdc) (inv.ord c tc mm c2 htc hdc)
  have ⟨w', he, hvalid, htop, heval⟩ := mkNode_spec s w n.var tl th (inv.valid _ _ htl) (inv.valid _ _ hth) hv
    (ordOf n.lo tl hlo htl hol) (ordOf n.hi th hhi hth ohh)
  refine ⟨⟨w', by simp; omega, ?_, ?_, ?_, ?_, ?_⟩, he⟩
  · rw [List.getElem?_append_left (by have := inv.two; omega)]; exact inv.h0
  · rw [List.getElem?_append_left (by have := inv.two; omega)]; exact inv.h1
  · intro j t hj
    rcases Nat.lt_or_ge j m.length with hlt | hge
    · rw [List.getElem?_append_left hlt] at hj
      exact Nat.lt_of_lt_of_le (inv.valid j t hj) he.1
    · rw [List.getElem?_append_right hge] at hj
      have : j - m.length = 0 := by
        rcases Nat.eq_zero_or_pos (j - m.length) with h | h
        · exact h
        · rw [List.getElem?_eq_none (by simp; omega)] at hj; cases hj
      rw [this] at hj; simp only [List.getElem?_cons_zero, Option.some.injEq] at hj
      rw [← hj]; exact hvalid
  · intro j t f hj hden σ
    rcases Nat.lt_or_ge j m.length with hlt | hge
    · rw [List.getElem?_append_left hlt] at hj
      rw [eval_ext w he t σ (inv.valid j t hj)]
      exact inv.den j t f hj hden σ
    · rw [List.getElem?_append_right hge] at hj
      have hz : j - m.length = 0 := by
        rcases Nat.eq_zero_or_pos (j - m.length) with h | h
        · exact h
        · rw [List.getElem?_eq_none (by simp; omega)] at hj; cases hj
      rw [hz] at hj; simp only [List.getElem?_cons_zero, Option.some.injEq] at hj
      have hjm : j = m.length := by omega
      rw [← hj, heval]
      cases hden with
      | bot => have := inv.two; omega
      | top => have := inv.two; omega
      | inner _ n' fl fh h2 hn' dl dh =>
        rw [hjm, hn] at hn'; cases hn'
        rw [inv.den n.lo tl fl htl dl σ, inv.den n.hi th fh hth dh σ]
  · intro j t n' hj2 hj hdn
    rcases Nat.lt_or_ge j m.length with hlt | hge
    · rw [List.getElem?_append_left hlt] at hj
      rw [topVar_ext he t (inv.valid j t hj)]
      exact inv.ord j t n' hj2 hj hdn
    · rw [List.getElem?_append_right hge] at hj
      have hz : j - m.length = 0 := by
        rcases Nat.eq_zero_or_pos (j - m.length) with h | h
        · exact h
        · rw [List.getElem?_eq_none (by simp; omega)] at hj; cases hj
      rw [hz] at hj; simp only [List.getElem?_cons_zero, Option.some.injEq] at hj
      have hjm : j = m.length := by omega
      subst hjm
      rw [hn] at hdn; cases hdn
      rw [← hj]; exact htop

/-- the whole loop: after the remaining entries `rest = d.drop m.length` have been replayed the
invariant holds for all of `d` -/
theorem replayL_spec (d : List Node) (hd : DumpOK d) : ∀ (rest : List Node) (s : Store) (m : List Nat),
    BInv d s m → d = d.take m.length ++ rest → m.length ≤ d.length →
    BInv d (replayL rest s m).1 (replayL rest s m).2 ∧ Ext s (replayL rest s m).1 ∧
    (replayL rest s m).2.length = d.length := by
  intro rest
  induction rest with
  | nil =>
    intro s m inv hsplit hle
    simp only [replayL]
    refine ⟨inv, Ext.refl s, ?_⟩
    have := congrArg List.length hsplit
    simp at this; omega
  | cons n rest ih =>
    intro s m inv hsplit hle
    have hlen : m.length < d.length := by
      have := congrArg List.length hsplit
      simp at this; omega
    have hn : d[m.length]? = some n := by
      have h : d[m.length]? = (List.take m.length d ++ n :: rest)[m.length]? :=
        congrArg (fun l => l[m.length]?) hsplit
      rw [h, List.getElem?_append_right (by simp; omega)]
      simp [Nat.min_eq_left hle]
    have ⟨inv', he⟩ := replay_step d hd s m n inv hn
    simp only [replayL]
    have hsplit' : d = d.take (m ++ [(mkNode s n.var (m.getD n.lo 0) (m.getD n.hi 0)).2]).length ++ rest := by
      have : (m ++ [(mkNode s n.var (m.getD n.lo 0) (m.getD n.hi 0)).2]).length = m.length + 1 := by simp
      rw [this, List.take_add_one, hn]
      simp only [Option.toList_some, List.append_assoc, List.singleton_append]
      exact hsplit
    have ⟨a, b, c⟩ := ih _ _ inv' hsplit' (by simp; omega)
    exact ⟨a, Ext.trans he b, c⟩

/-- C09, bridge pipeline: in any well-formed store, replaying an ordered dump gives for every
dump index a valid handle with that entry's function; the store is only extended -/
theorem bridge_correct (d : List Node) (hd : DumpOK d) (hlen : 2 ≤ d.length) (s : Store) (w : WF s) :
    let r := replayL (d.drop 2) s [0, 1]
    WF r.1 ∧ Ext s r.1 ∧ r.2.length = d.length ∧
    ∀ (j t : Nat) (f : BoolFn), r.2[j]? = some t → Den d j f → t < r.1.nodes.size ∧ ∀ σ, eval r.1 t σ = f σ := by
  have inv0 : BInv d s [0, 1] := by
    refine ⟨w, by simp, rfl, rfl, ?_, ?_, ?_⟩
    · intro j t hj
      have := w.len
      match j, hj with
      | 0, hj => simp at hj; omega
      | 1, hj => simp at hj; omega
      | j+2, hj => simp at hj
    · intro j t f hj hden σ
      match j, hj, hden with
      | 0, hj, hden =>
        simp at hj; subst hj
        cases hden with
        | bot => exact eval_zero s σ
        | inner _ _ _ _ h2 => omega
      | 1, hj, hden =>
        simp at hj; subst hj
        cases hden with
        | top => exact eval_one s σ
        | inner _ _ _ _ h2 => omega
      | j+2, hj, _ => simp at hj
    · intro j t n h2 hj _
      match j, hj with
      | 0, _ => omega
      | 1, _ => omega
      | j+2, hj => simp at hj
  have ⟨a, b, c⟩ := replayL_spec d hd (d.drop 2) s [0, 1] inv0 (by simp) (by simpa using hlen)
  exact ⟨a.wf, b, c, fun j t f hj hden => ⟨a.valid j t hj, a.den j t f hj hden⟩⟩
#print axioms bridge_correct
