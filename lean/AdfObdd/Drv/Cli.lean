import AdfObdd.Drv.Adf
import AdfObdd.Drv.Parser
import AdfObdd.CliModes
import AdfObdd.CliWorld
import AdfObdd.CliCounter
import AdfObdd.CliIO
/-! `clirun` with the TEXT of the input file: the model's answer is `CliM.runText CliM.drvWorld`
    (`CliModes.lean`: the three arms of `bin/src/main.rs` as written, from the text to exit status and
    stdout) on the concrete world `CliM.drvWorld` (`CliWorld.lean`: tagged truth-table library,
    decision-tree dump, natural-lexical sort). `C15.driver_world_faithful` is `cli_text_faithful` for
    exactly this world.

    `clibadrun <mode> <text>` (the malformed text behind a `clibad` request): `CliM.runText` on it, answer
    `= exit=… printed=…` - this is what executes the REJECTION branches of `runText` against the binary.

    Request: `clirun <mode> <sort> <flags> <heu> <perm> <order> <labels> <text>`; answer
    `= exit=… wellformed=1 lines=… printed=…`: `lines` = every printed interpretation in ORIGINAL
    statement order (as before), `printed` = stdout line by line as the binary prints it (hex of the
    UTF-8 bytes of each line). With a rewriting flag both are compared as multisets (the order of the
    candidates is the external library's `sat_valuations` order), as before.

    The truth-table library is feasible up to `ttLimit` statements. Above it (`cliwide`: 65–130
    statements) the naive arm is still `CliM.runText drvWorld` (it does not use the library); the
    biodivine and hybrid arms run THE SAME FUNCTION `CliM.runText` on `CliM.storeWorld` - the world whose
    BDD library is the project's own verified store (`Bio.storeLib`, lawful: `CliMP.storeWorldOK`,
    `CliMP.storeWorld_dump`; `C15.store_world_faithful`). (Until review 2 these arms fell back to
    `Cli.run`, whose `.biodivine` arm is the native one.) -/
namespace Drv
open CliM

def ttLimit : Nat := 10

def parseSorting (w : String) : Sorting := if w == "lx" then .lx else if w == "an" then .an else .none

def hexOfLine (l : List Char) : String :=
  if l.isEmpty then "e" else
  String.ofList ((String.ofList l).toUTF8.toList.flatMap fun b => [Prs.hexNibble (b.toNat / 16), Prs.hexNibble (b.toNat % 16)])

def orDashC (xs : List String) : String := if xs.isEmpty then "-" else joinWith "," xs

/-- the `~` line (as `Drv.cliRun`): the prescribed sets -/
def cliSpecLine (a : AdfSt) (m : Cli.Mode) (f : Cli.Flags) : String :=
  let specLines := (Cli.sections m f).flatMap (sectionLines a)
  s!"exit=0 set={orDashC (Spec.sortStrings specLines)}"

/-- `clirun` on the text -/
def cliRunText (a : AdfSt) (mode sort flags heu : String) (perm order : List Nat) (labels : List (List Char))
    (text : List Char) : String × String :=
  let n := a.n
  let m := parseMode mode
  let f := parseFlags flags
  let h := match parseHeu heu with | some (some h) => h | _ => SM.Heu.simple
  let inv : Inv := ⟨m, f, parseSorting sort, h⟩
  let unordered := f.stmrew || f.stmrew2
  let canonSeq := fun (xs : List String) => if unordered then Spec.sortStrings xs else xs
  -- the text-level model, arm by arm, on a world `Wd`
  let viaText := fun {T : Type} (Wd : World T) =>
    let out := runText Wd 1000000 inv text
    -- the vectors behind the printed lines (the same functions `runText` is made of)
    let st := parsed Wd inv text
    let blocks := (st.bind (runParsed Wd 1000000 inv)).getD []
    let names := (st.map (·.namelist)).getD []
    -- original statement `i` is printed at the position of its label in the (sorted) name list
    let back := fun (v : List Nat) =>
      String.ofList (labels.map fun l => mark (v.getD (names.idxOf l) 2))
    let lines := blocks.flatMap fun b => b.2.map back
    (s!"exit={out.exit} wellformed=1 lines={orDashC (canonSeq lines)} printed={orDashC (canonSeq (out.stdout.map hexOfLine))}",
     cliSpecLine a m f)
  if n ≤ ttLimit || m == .naive then viaText drvWorld
  -- beyond truth-table size (biodivine / hybrid arm with more than `ttLimit` statements, `cliwide`): the
  -- same function `CliM.runText`, on the world whose library is the own store (`CliM.storeWorld`)
  else if !f.stmrew2 then viaText storeWorld
  else
    -- REMAINING FALLBACK: `--stmrew2` beyond truth-table size in the biodivine / hybrid arm.
    -- `stable_representation()` conjoins `ac_i <-> x_i` in statement order; on the store-based library
    -- this conjunction took 2-3 minutes for 128 statements (the verified `ite` is ~30 times slower than
    -- biodivine's `apply`; same diagrams), too slow for the check. These requests keep the older
    -- `Cli.run` on the framework rebuilt from the `adf`/`ac` lines (where `.biodivine` is the native
    -- arm and `--stmrew2` is `stableAll`), rendered with `CliM.render` under the names `labels[order[k]]`.
    let inv' := fun (i : Nat) => order.idxOf i
    let s0 := buildVars n Store.init
    let r := FromParser.placeCompile s0 (List.replicate n 0) (presentedItems a perm inv')
    let secs := Cli.run m f h r.1 n r.2
    let back := fun (v : List Nat) =>
      String.ofList ((List.range n).map (fun i => mark (v.getD (inv' i) 2)))
    let names := order.map fun i => labels.getD i []
    let lines := secs.flatMap (fun (_, vs) => vs.map back)
    let printed := secs.flatMap (fun (_, vs) => vs.map fun v => hexOfLine (render names v))
    (s!"exit=0 wellformed=1 lines={orDashC (canonSeq lines)} printed={orDashC (canonSeq printed)}", cliSpecLine a m f)

/-- the entries of `l` are exactly those of the map `m`: no key twice, as many as `m` has, each found -/
def sameAsMap {α β : Type} [BEq α] [Hashable α] [BEq β] (l : List (α × β)) (m : Std.HashMap α β) : Bool :=
  (Std.HashMap.ofList l).size == l.length && l.length == m.size && l.all fun kv => m[kv.1]? == some kv.2

/-- `cliexportfile <text> <json>`: the input TEXT of a `cliexport` request and the REAL file the binary wrote
for `--lib naive --export`. (i) `Json.parse` (the verified reader) on the file; (ii) the parsed state against
the object the text-level model's naive arm builds from the text (`CliM.parsedObj`): names, `mapping` as a
map, node list, `ac`, unique table as a map; (iii) `file`: the model run WITH `--export x` on an empty file
system (`CliM.runTextIO`), the two hash maps iterated in the orders found in the real file, must leave
exactly the real file's text under `x`, byte for byte; (iv) `import`: the model's `--import` arm on the
real file prints what the model's direct run prints (`--grd --com --stm`, as the harness compares the
binary's two runs). -/
def cliExportFile (text jtext : List Char) : String :=
  let b := fun (x : Bool) => if x then "1" else "0"
  let inv0 : Inv := ⟨.naive, {}, .none, .simple⟩
  let inv3 : Inv := ⟨.naive, { grd := true, com := true, stm := true }, .none, .simple⟩
  match Json.parse jtext, parsedObj drvWorld inv0 text with
  | none, _ => "parsed=0"
  | some _, none => "parsed=1 model-rejects-text"
  | some e, some o =>
    let r := runTextIO drvWorld 1000000 ⟨inv0, some ['x'], false⟩ ⟨e.mapping, e.cache⟩ text []
    let imp := runFileIO drvWorld 1000000 ⟨inv3, none, true⟩ ⟨[], []⟩ ['x'] [(['x'], jtext)]
    let direct := runText drvWorld 1000000 inv3 text
    s!"parsed=1 names={b (e.names == o.names.map String.ofList)} mapping={b (sameAsMap e.mapping o.mapping)} nodes={b (e.nodes == o.store.nodes.toList)} ac={b (e.ac == o.ac)} cache={b (sameAsMap e.cache o.store.uniq)} file={b (r.fs == [(['x'], jtext)] && r.out.exit == 0 && !r.refused)} import={b (imp.out == direct && direct.exit == 0 && imp.fs == [(['x'], jtext)])}"

def cliTextStep (a : AdfSt) (l : String) (ws : List String) : Option (List String) :=
  match ws with
  | ["clirun", mode, sort, flags, heu, perm, order, labels, text] =>
    match parseNatList perm ",", parseNatList order ",", (labels.splitOn ",").mapM Prs.unhexText, Prs.unhexText text with
    | some perm, some order, some labels, some text =>
      let r := cliRunText a mode sort flags heu perm order labels text
      some [l, s!"= {r.1}", s!"~ {r.2}"]
    | _, _, _, _ => some [l, "= bad-request"]
  -- `clibadrun <mode> <text>`: the malformed TEXT of a `clibad` request (emitted by the harness after the
  -- `~ rejected` line; flags are `--grd --com --stm`, no sorting): the answer is `CliM.runText` on that text,
  -- so the rejection branches of `runText` (`parsed … = none`, `runParsed … = none`) are EXECUTED against
  -- the binary instead of the constant answer of `clibad`. If the model's parser ACCEPTED such a text
  -- of a framework beyond truth-table size the library arms would not be runnable: then the answer
  -- says so (a difference from the binary either way, since the binary rejects).
  | ["clibadrun", mode, text] =>
    match Prs.unhexText text with
    | some text =>
      let inv : Inv := ⟨parseMode mode, { grd := true, com := true, stm := true }, .none, .simple⟩
      if (ParserM.parse text).isNone || a.n ≤ ttLimit || inv.mode == .naive then
        let out := runText drvWorld 1000000 inv text
        some [l, s!"= exit={out.exit} printed={orDashC (out.stdout.map hexOfLine)}"]
      else some [l, "= model-accepts-text-beyond-table-size"]
    | none => some [l, "= bad-request"]
  -- `clicounter <mode> <sort> <flags> <nai|mem|other|-> <zeromemo> <text>`: the model of `--counter`
  -- (`CliM.runTextC`; zeromemo = 1: features `adhoccounting` without `adhoccountmodels`, the default);
  -- not emitted by the harness generator yet (cross-checked against the binary by a script)
  -- `cliexportfile <text> <json>` (emitted by the harness after the `~` line of a `cliexport` request)
  | ["cliexportfile", text, json] =>
    match Prs.unhexText text, Prs.unhexText json with
    | some text, some jtext => some [l, s!"= {cliExportFile text jtext}"]
    | _, _ => some [l, "= bad-request"]
  | ["clicounter", mode, sort, flags, counter, zm, text] =>
    match Prs.unhexText text with
    | some text =>
      let c : Counter := if counter == "nai" then .nai else if counter == "mem" then .mem
        else if counter == "-" then .absent else .other
      let out := runTextC drvWorld (zm == "1") 1000000 ⟨parseMode mode, parseFlags flags, parseSorting sort, .simple⟩ c text
      some [l, s!"= exit={out.exit} printed={orDashC (out.stdout.map hexOfLine)}"]
    | none => some [l, "= bad-request"]
  | _ => none

end Drv
