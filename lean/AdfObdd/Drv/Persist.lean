import AdfObdd.Drv.Bdd
import AdfObdd.Drv.Iter
import AdfObdd.Persist
import AdfObdd.AdfModel
import AdfObdd.JsonModel
import AdfObdd.Drv.Parser
/-! protocol handler of the persistence family (C14).  One object (an `Adf`: ordering, diagram
    store, root handles) lives through a history of diagram operations and semantics computations;
    at any point it can be sent through one of the two round trips and then lives on.

    pnew NV [xHEX …]           fresh object (names s0…, or the given labels: `x` + hex of UTF-8), history #0 = ⊥, #1 = ⊤
    pop <op>                   = handle   ~ truth table   ~ twin=1
    pac #a …                   the root handles (acceptance conditions), one per statement
    psem grounded|complete|stable   = vectors   ~ twin=1
    pq #a                      = paths … models … depth … deps […]   ~ sat … (truth-table spec)   ~ twin=1
    pjson                      serde round trip + fix_import; the object is replaced by the result
    prebuild                   string DTO + Bdd::from(nodes) + Adf::from((ordering, bdd, ac))
    prebuildstream             the same from the node list WITHOUT the two constants (as streamed over a channel)
                               = T <node table> ac <handles> names <count>
                               ~ same-as-original nodes=1 ac=1 names=1 uniq=1 deps=1 cnt=1 memo-empty=1
    pjson text HEX             (emitted by the harness after `pjson`) the text serde_json really wrote for the
                               object; read with the verified reader `Json.parse`:
                               = state names … map … nodes … ac … cache …   (maps sorted by value)
                               ~ reprint=1 model=1   (`Json.print` of what was read, in the order read, is the
                               text byte for byte; the state read is the model's own state)
    pjson alt HEX              variations of that text (fields in another order, unknown fields, structs as arrays,
                               escaped keys; repeated/missing fields, leading zeros, trailing commas, …): the REAL
                               serde_json and `Json.parse` must agree:  = state …  |  = unreadable
    pjson lean K               the model's state printed by `Json.render (wsp K) (Json.toks …)` (K = 0: maps ascending
                               by value, no whitespace; otherwise descending with whitespace between the tokens);
                               the harness assembles the same text and reads it with the REAL serde_json + fix_import
                               = text HEX   = state …   = internal …   ~ same-as-original …   (the object lives on)
    pmemocheck NV EXC <table> uniq=… ite=… res=… cnt=… deps=…   ~ ok    (audit of the real tables)
    pfinish                    = <node table>   ~ <truth tables of all issued handles>

    `~ twin=1`: the never-exported twin of the implementation gave the same answer (the model has
    no twin to compare: by `C14.answers_equal` the answer is determined). -/
namespace Drv
open Persist

structure PersistSt where
  b : BddSt := {}
  ac : List Nat := []
  names : Nat := 0
  labels : List String := []

def sortedSet (xs : List Nat) : List Nat := sortDedup xs

/-- the model's view of the live object as a `PBdd` with healthy (on-demand) bookkeeping -/
def liveObject (s : Store) : PBdd :=
  { st := s,
    deps := (List.range s.nodes.size).toArray.map (fun t => depsOf s t),
    cnt := (List.range s.nodes.size).foldl (fun c t => c.insert t (cntOf s t)) {} }

/-- compare a round-tripped model object with the original, field by field, honestly -/
def sameAsOriginal (orig : PBdd) (r : PBdd) (acOk : Bool := true) (namesOk : Bool := true) : String :=
  let n := orig.st.nodes.size
  let nodes := decide (r.st.nodes = orig.st.nodes)
  let uniq := r.st.uniq.size == orig.st.uniq.size &&
    orig.st.nodes.toList.all (fun nd => r.st.uniq[nd]? == orig.st.uniq[nd]?)
  let deps := r.deps.size == n &&
    (List.range n).all (fun t => sortedSet (r.deps.getD t []) == sortedSet (orig.deps.getD t []))
  let cnt := r.cnt.size == n && (List.range n).all (fun t => r.cnt[t]? == orig.cnt[t]?)
  let memo := r.st.resC.isEmpty && r.st.iteC.isEmpty
  s!"nodes={boolBit nodes} ac={boolBit acOk} names={boolBit namesOk} uniq={boolBit uniq} deps={boolBit deps} cnt={boolBit cnt} memo-empty={boolBit memo}"

/-- public (`nodes ac names deps cnt`, property channel) vs internal (`uniq memo-empty`,
correspondence channel) fields of the same-as-original verdict -/
def splitVerdict (pub : Bool) (v : String) : String :=
  joinWith " " ((v.splitOn " ").filter (fun w => (w.startsWith "uniq=" || w.startsWith "memo-empty=") != pub))

/-! the text level (`Json`) -/

def hexText (l : List Char) : String :=
  String.ofList ((String.ofList l).toUTF8.toList.flatMap fun b => [Prs.hexNibble (b.toNat / 16), Prs.hexNibble (b.toNat % 16)])

def xLabel (s : String) : String := "x" ++ hexText s.toList

def unLabel (w : String) : Option String :=
  if w.startsWith "x" then (Prs.unhexText (w.drop 1).toString).map String.ofList else none

def orDashP (sep : String) (xs : List String) : String := if xs.isEmpty then "-" else joinWith sep xs

def sortByVal {α : Type} (xs : List (α × Nat)) : List (α × Nat) := xs.mergeSort (fun a b => decide (a.2 ≤ b.2))

/-- names, mapping (sorted by value), node table, ac, unique table (sorted by value) -/
def canonState (e : Json.TextAdf) : String :=
  let names := orDashP "," (e.names.map xLabel)
  let map := orDashP "," ((sortByVal e.mapping).map fun kv => s!"{xLabel kv.1}:{kv.2}")
  let cache := orDashP ";" ((sortByVal e.cache).map fun q => s!"{q.1.var},{q.1.lo},{q.1.hi}>{q.2}")
  s!"names {names} map {map} nodes {dumpTable e.nodes.toArray} ac {orDashP "," (e.ac.map toString)} cache {cache}"

/-- whitespace before token `i` in variant `k` -/
def wsp (k : Nat) (i : Nat) : List Char :=
  if k = 0 then [] else
  match i % 6 with
  | 0 => [' '] | 1 => [] | 2 => ['\n'] | 3 => ['\t', '\r', ' '] | 4 => [] | _ => [' ', ' ']

/-- the model's own persisted state; the two maps ascending by value (k = 0) or descending -/
def modelText (st : PersistSt) (k : Nat) : Json.TextAdf :=
  let ord := fun {α : Type} (xs : List (α × Nat)) => if k = 0 then sortByVal xs else (sortByVal xs).reverse
  { names := st.labels, mapping := ord st.labels.zipIdx, nodes := st.b.s.nodes.toList,
    cache := ord st.b.s.uniq.toList, ac := st.ac }

def persistStep (st : PersistSt) (l : String) (ws : List String) : Option (List String × PersistSt) :=
  match ws with
  | "pnew" :: nv :: lbs =>
    let nv := nv.toNat?.getD 0
    let labels := match lbs.mapM unLabel with
      | some g => if g.length = nv then g else (List.range nv).map (fun i => s!"s{i}")
      | none => (List.range nv).map (fun i => s!"s{i}")
    some ([l], { b := BddSt.fresh nv false, ac := [], names := nv, labels := labels })
  | "pop" :: opws =>
    match bddOp st.b opws with
    | some (op, tt) =>
      let r := stepOp st.b.s st.b.hist.toList op
      some ([l, s!"= {r.2}", s!"~ {tt}", "~ twin=1"],
            { st with b := { st.b with s := r.1, hist := st.b.hist.push r.2, tts := st.b.tts.push tt } })
    | none => some ([l, "= bad-request", "~ bad-request"],
                    { st with b := { st.b with hist := st.b.hist.push 0, tts := st.b.tts.push 0 } })
  | "pac" :: hs =>
    match hs.mapM st.b.h with
    | some ac => some ([l], { st with ac := ac })
    | none => some ([l, "= bad-request"], st)
  | ["psem", what] =>
    let n := st.ac.length
    let r : Option (Store × List (List Nat)) :=
      match what with
      | "grounded" => let g := groundedLoop StoreRA (n + 1) st.b.s st.ac; some (g.1, [g.2])
      | "complete" => let r := completeAll st.b.s n st.ac; some (r.1, r.2.2)
      | "stable" => let r := stableAll st.b.s n st.ac; some (r.1, r.2)
      | _ => none
    match r with
    | some (s, vs) => some ([l, "= " ++ showHVecs vs, "~ twin=1"], { st with b := { st.b with s := s } })
    | none => some ([l, "= bad-request", "~ bad-request"], st)
  | ["pq", w] =>
    match st.b.h w, st.b.tt w with
    | some t, some tt =>
      let p := paths st.b.s t
      let c := countF st.b.s (t + 1) t
      let deps := showDepsOf st.b.s t
      let sp := TT.paths st.b.nv tt
      some ([l, s!"= paths {p.1} {p.2} models {c.1} {c.2.1} depth {c.2.2} deps {deps}",
             s!"~ sat {TT.unsat st.b.nv tt} {TT.sat st.b.nv tt} paths {sp.1} {sp.2} depth {TT.depth st.b.nv tt} deps {showDeps (TT.deps st.b.nv tt)}",
             "~ twin=1"], st)
    | _, _ => some ([l, "= bad-request", "~ bad-request"], st)
  | ["pjson"] =>
    let orig := liveObject st.b.s
    let r := fixImport (importB (exportB orig))
    some ([l, s!"= T {dumpTable r.st.nodes} ac {showNats "," st.ac} names {st.names}",
           "= internal " ++ splitVerdict false (sameAsOriginal orig r),
           "~ same-as-original " ++ splitVerdict true (sameAsOriginal orig r)], { st with b := { st.b with s := r.st } })
  | ["pjson", "text", hx] =>
    match (Prs.unhexText hx).bind (fun t => (Json.parse t).map (fun e => (t, e))) with
    | some (t, e) =>
      let reprint := Json.print e == t
      let model := canonState e == canonState (modelText st 0)
      some ([l, s!"= state {canonState e}", s!"~ reprint={boolBit reprint} model={boolBit model}"], st)
    | none => some ([l, "= unreadable"], st)
  | ["pjson", "alt", hx] =>
    match (Prs.unhexText hx).bind Json.parse with
    | some e => some ([l, s!"= state {canonState e}"], st)
    | none => some ([l, "= unreadable"], st)
  | ["pjson", "lean", k] =>
    let k := k.toNat?.getD 0
    let m := modelText st k
    let text := Json.render (wsp k) 0 (Json.toks m)
    match Json.parse text with
    | some e =>
      let orig := liveObject st.b.s
      let r := fixImport (importB ⟨e.nodes.toArray, e.cache⟩)
      let namesOk := e.names == st.labels && sortByVal e.mapping == sortByVal st.labels.zipIdx
      let v := sameAsOriginal orig r (e.ac == st.ac) namesOk
      some ([l, "= text " ++ hexText text, s!"= state {canonState e}",
             "= internal " ++ splitVerdict false v, "~ same-as-original " ++ splitVerdict true v],
            { st with b := { st.b with s := r.st }, ac := e.ac })
    | none => some ([l, "= text " ++ hexText text, "= unreadable"], st)
  | ["prebuild"] =>
    let orig := liveObject st.b.s
    let r := rebuildP orig.st.nodes
    some ([l, s!"= T {dumpTable r.st.nodes} ac {showNats "," st.ac} names {st.names}",
           "= internal " ++ splitVerdict false (sameAsOriginal orig r),
           "~ same-as-original " ++ splitVerdict true (sameAsOriginal orig r)], { st with b := { st.b with s := r.st } })
  | ["prebuildstream"] =>
    -- the node list as a channel delivers it (without the two constants): `Bdd::from` replays it
    -- through `node` all the same
    let orig := liveObject st.b.s
    let r := rebuildPL (orig.st.nodes.toList.drop 2) PBdd.new
    some ([l, s!"= T {dumpTable r.st.nodes} ac {showNats "," st.ac} names {st.names}",
           "= internal " ++ splitVerdict false (sameAsOriginal orig r),
           "~ same-as-original " ++ splitVerdict true (sameAsOriginal orig r)], { st with b := { st.b with s := r.st } })
  | "pmemocheck" :: nv :: exc :: t :: rest =>
    match nv.toNat?, parseTable t with
    | some nv, some ns => some ([l, s!"= audit {MemoCheck.verdict nv (exc == "1") ns rest (fun _ => memoCheck nv (exc == "1") ns rest)}"], st)
    | _, _ => some ([l, "= bad-request"], st)
  | ["pfinish"] =>
    some ([l, s!"= {dumpTable st.b.s.nodes}", "~ " ++ showNats "," st.b.tts.toList], st)
  | _ => none

end Drv
