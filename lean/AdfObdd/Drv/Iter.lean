import AdfObdd.Drv.Common
import AdfObdd.IterFull
import Std.Data.HashSet
/-! protocol handler of the iterator family (C20):
    `it2 <handles>` / `it3 <handles>`  (space separated, possibly none)
    `= [v1]|[v2]|…`  what `twoValAll` / `threeValAll` (the proved odometer models) yield, in order
    `~ count=<n> nodup=<0|1> complete=<0|1> first=<vector or ->`  computed from the reference
    enumerations `enum2` / `enum3` and the predicates `isCompletion` / `isRefinement`, i.e. without
    any odometer. -/
namespace Drv
open IterFull Iter2M

def showHVec (v : List Nat) : String := "[" ++ showNats "," v ++ "]"
def showHVecs (vs : List (List Nat)) : String := if vs.isEmpty then "none" else joinWith "|" (vs.map showHVec)

/-- the property oracle on a list of yielded vectors: size, no duplicates, every element
satisfies the predicate; `first` only where the property speaks about it -/
def iterSpecLine (out : List (List Nat)) (expected : Nat) (ok : List Nat → Bool) (first : Bool) : String :=
  let nd := (out.foldl (fun (h : Std.HashSet (List Nat)) v => h.insert v) {}).size == out.length
  let comp := out.length == expected && out.all ok
  s!"count={out.length} nodup={boolBit nd} complete={boolBit comp} first={if first then (out.head?.map showHVec).getD "none" else "-"}"

def iterStep (l : String) (ws : List String) : Option (List String) :=
  match ws with
  | "it2" :: vs =>
    match vs.mapM (fun w => w.toNat?) with
    | some v =>
      let ref := enum2 (und v) (start2 v)
      some [l, "= " ++ showHVecs (twoValAll v),
            "~ " ++ iterSpecLine ref (2 ^ nUnd v) (fun w => decide (isCompletion w v)) false]
    | none => some [l, "= bad-request", "~ bad-request"]
  | "it3" :: vs =>
    match vs.mapM (fun w => w.toNat?) with
    | some v =>
      let ref := enum3 (und v) v
      some [l, "= " ++ showHVecs (threeValAll v),
            "~ " ++ iterSpecLine ref (3 ^ nUnd v) (fun w => decide (isRefinement w v)) true]
    | none => some [l, "= bad-request", "~ bad-request"]
  -- prefix of an enumeration with any number of undecided positions: N vectors (or all, if fewer
  -- exist), pairwise distinct, each a completion / refinement of the input, the three-valued one
  -- starting with the input itself
  | p :: n :: vs =>
    if p != "itp2" && p != "itp3" && p != "itc2" && p != "itc3" then none else
    match n.toNat?, vs.mapM (fun w => w.toNat?) with
    | some n, some v =>
      let total := (if p.endsWith "3" then 3 else 2) ^ nUnd v
      if p.startsWith "itp" then
        some [l, s!"~ prefix count={min n total} distinct=1 members=1 first-is-input=1"]
      else
        some [l, s!"~ remaining={total - min n total} hint-consistent=1"]
    | _, _ => some [l, "~ bad-request"]
  | _ => none

end Drv
