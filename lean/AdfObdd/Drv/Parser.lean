import AdfObdd.Drv.Common
import AdfObdd.Spec.TT
import AdfObdd.Parser6
/-! protocol handler of the parser family (C08).

    `parse <hex text>`                 `= …`  the algorithmic model: `ParserM.parse` (the nom grammar
                                              of `parser.rs` on `List Char`, with the side effects on
                                              the parser object) and `formula_order` / the diagram
                                              contents of `Adf::from_parser` derived from its state
    `parsecheck <hex text> <truth>`    `~ …`  the specification: the generator's ground truth
                                              (`error`, or the facts it wrote into the text) rendered
                                              through `namesOf` / `acsOf` / `indexOf` / `Fml.eval`,
                                              without running any parser

    Rendering as in `fam_parser.rs`. Texts are UTF-8; the model works on Unicode scalar values, which
    agrees with nom on `&str` (all tags are ASCII, `alphanumeric1`/`multispace0` test ASCII classes
    per `char`, and `"` never occurs inside a multi-byte sequence). -/
namespace Drv.Prs
open ParserM

def hexDigit (c : Char) : Option Nat :=
  if '0' ≤ c ∧ c ≤ '9' then some (c.toNat - '0'.toNat)
  else if 'a' ≤ c ∧ c ≤ 'f' then some (c.toNat - 'a'.toNat + 10)
  else none

def unhexBytes : List Char → Option (List UInt8)
  | [] => some []
  | [_] => none
  | a :: b :: r => do
    let x ← hexDigit a
    let y ← hexDigit b
    let t ← unhexBytes r
    pure (UInt8.ofNat (16 * x + y) :: t)

/-- hex of UTF-8 (`-` = empty) to the text; `none` if it is not hex or not UTF-8 -/
def unhexText (w : String) : Option (List Char) :=
  if w == "-" then some [] else do
    let bs ← unhexBytes w.toList
    let s ← String.fromUTF8? (ByteArray.mk bs.toArray)
    pure s.toList

def hexNibble (n : Nat) : Char := (Nat.toDigits 16 n).getD 0 '0'

def hexLabel (l : List Char) : String :=
  "L" ++ String.ofList ((String.ofList l).toUTF8.toList.flatMap fun b => [hexNibble (b.toNat / 16), hexNibble (b.toNat % 16)])

def showFml : Fml → String
  | .top => "T"
  | .bot => "F"
  | .atom l => hexLabel l
  | .not f => "not(" ++ showFml f ++ ")"
  | .and a b => "and(" ++ showFml a ++ "," ++ showFml b ++ ")"
  | .or a b => "or(" ++ showFml a ++ "," ++ showFml b ++ ")"
  | .imp a b => "imp(" ++ showFml a ++ "," ++ showFml b ++ ")"
  | .xor a b => "xor(" ++ showFml a ++ "," ++ showFml b ++ ")"
  | .iff a b => "iff(" ++ showFml a ++ "," ++ showFml b ++ ")"

def orDash (sep : String) (xs : List String) : String := if xs.isEmpty then "-" else joinWith sep xs

def ttMaxVars : Nat := 10

def hexNat (n : Nat) : String := String.ofList (Nat.toDigits 16 n)

/-- the common layout of an accepted result -/
def renderOk (names : List Label) (dict : List (Label × Nat)) (acs : List (Label × Fml))
    (order : Option (List Nat)) (tt : Option (Option (List Nat))) : String :=
  let n := orDash "," (names.map hexLabel)
  let d := orDash "," (dict.map fun (k, v) => s!"{hexLabel k}@{v}")
  let a := orDash ";" (acs.map fun (l, f) => hexLabel l ++ ":" ++ showFml f)
  let o := match order with
    | none => "panic"
    | some xs => orDash "," (xs.map toString)
  let t := match tt with
    | none => "skipped"
    | some none => "panic"
    | some (some xs) => orDash "," (xs.map hexNat)
  s!"ok names={n} dict={d} acs={a} order={o} tt={t}"

/-- sort dictionary entries by index (then by rendered key) -/
def sortDict (d : List (Label × Nat)) : List (Label × Nat) :=
  let le := fun (x y : Label × Nat) => x.2 < y.2 || (x.2 == y.2 && hexLabel x.1 ≤ hexLabel y.1)
  d.foldl (fun acc x => (acc.filter (fun y => le y x)) ++ [x] ++ (acc.filter (fun y => !le y x))) []

/-! #### algorithmic side: from the parser object, as `Adf::from_parser` proceeds -/

/-- `Adf::term` on truth tables: `none` = panic on a label that is not in the dictionary -/
def compileTT (nv : Nat) (dict : List (Label × Nat)) : Fml → Option Nat
  | .top => some (TT.const nv true)
  | .bot => some (TT.const nv false)
  | .atom l => (dictGet dict l).map (TT.var nv)
  | .not f => (compileTT nv dict f).map (TT.not nv)
  | .and a b => do pure (TT.and (← compileTT nv dict a) (← compileTT nv dict b))
  | .or a b => do pure (TT.or (← compileTT nv dict a) (← compileTT nv dict b))
  | .imp a b => do pure (TT.imp nv (← compileTT nv dict a) (← compileTT nv dict b))
  | .xor a b => do pure (TT.xor (← compileTT nv dict a) (← compileTT nv dict b))
  | .iff a b => do pure (TT.iff nv (← compileTT nv dict a) (← compileTT nv dict b))

/-- `Adf::from_parser`: `ac = vec![Term(0); n]`, then `ac[order[i]] = term(formula i)` in file order -/
def fromParserTT (st : PState) : Option (List Nat) := do
  let nv := st.dict.length
  let order ← st.formulaOrder
  let terms ← st.formulae.mapM (compileTT nv st.dict)
  let init := List.replicate nv 0
  pure ((order.zip terms).foldl (fun acc (p : Nat × Nat) => acc.set p.1 p.2) init)

def renderState (st : PState) : String :=
  let tt := if st.dict.length > ttMaxVars then none else some (fromParserTT st)
  renderOk st.namelist (sortDict st.dict) (st.formulaname.zip st.formulae) st.formulaOrder tt

/-! #### specification side: from the written facts -/

def atomsOf : Fml → List Label
  | .top => [] | .bot => []
  | .atom l => [l]
  | .not f => atomsOf f
  | .and a b => atomsOf a ++ atomsOf b | .or a b => atomsOf a ++ atomsOf b | .imp a b => atomsOf a ++ atomsOf b
  | .xor a b => atomsOf a ++ atomsOf b | .iff a b => atomsOf a ++ atomsOf b

/-- truth table of the Boolean function a formula denotes, by evaluating it under every assignment -/
def evalTT (names : List Label) (f : Fml) : Nat :=
  TT.ofFn names.length fun a => f.eval fun l => match indexOf names l with
    | some i => a.testBit i
    | none => false

/-- per declared statement the function of the last condition written for it (⊥ if there is none);
undefined if a condition is given for, or mentions, an undeclared label -/
def specTT (fs : List Fact) : Option (List Nat) :=
  let names := namesOf fs
  let acs := acsOf fs
  if acs.all (fun a => names.contains a.1 && (atomsOf a.2).all names.contains) then
    some (names.map fun l => match (acs.reverse.find? fun a => a.1 == l) with
      | some a => evalTT names a.2
      | none => 0)
  else none

def renderSpec (fs : List Fact) : String :=
  let names := namesOf fs
  let acs := acsOf fs
  let tt := if names.length > ttMaxVars then none else some (specTT fs)
  renderOk names (names.zipIdx) acs (acs.mapM fun a => indexOf names a.1) tt

/-! #### the generator's ground truth: `error` or `facts:s:L..;a:L..:<formula>;…` -/

def unhexLabel (cs : List Char) : Option Label :=
  match cs with
  | 'L' :: h => do
    let bs ← unhexBytes h
    let s ← String.fromUTF8? (ByteArray.mk bs.toArray)
    pure s.toList
  | _ => none

/-- prefix formulas of the rendering -/
def readFml : Nat → List Char → Option (Fml × List Char)
  | 0, _ => none
  | fuel+1, cs =>
    let bin := fun (mk : Fml → Fml → Fml) (r : List Char) => do
      let (a, r1) ← readFml fuel r
      match r1 with
      | ',' :: r2 =>
        let (b, r3) ← readFml fuel r2
        match r3 with
        | ')' :: r4 => pure (mk a b, r4)
        | _ => none
      | _ => none
    match cs with
    | 'T' :: r => some (Fml.top, r)
    | 'F' :: r => some (Fml.bot, r)
    | 'L' :: r =>
      let h := r.takeWhile fun c => (hexDigit c).isSome
      (unhexLabel ('L' :: h)).map fun l => (Fml.atom l, r.dropWhile fun c => (hexDigit c).isSome)
    | 'n' :: 'o' :: 't' :: '(' :: r => do
      let (a, r1) ← readFml fuel r
      match r1 with
      | ')' :: r2 => pure (Fml.not a, r2)
      | _ => none
    | 'a' :: 'n' :: 'd' :: '(' :: r => bin Fml.and r
    | 'o' :: 'r' :: '(' :: r => bin Fml.or r
    | 'i' :: 'm' :: 'p' :: '(' :: r => bin Fml.imp r
    | 'x' :: 'o' :: 'r' :: '(' :: r => bin Fml.xor r
    | 'i' :: 'f' :: 'f' :: '(' :: r => bin Fml.iff r
    | _ => none

def readFact (w : String) : Option Fact :=
  match w.splitOn ":" with
  | ["s", l] => (unhexLabel l.toList).map Fact.stmt
  | ["a", l, f] => do
    let l ← unhexLabel l.toList
    match readFml (f.length + 1) f.toList with
    | some (g, []) => pure (Fact.ac l g)
    | _ => none
  | _ => none

def readTruth (w : String) : Option (Option (List Fact)) :=
  if w == "error" then some none
  else if w.startsWith "facts:" then
    ((splitOnNE (w.drop 6).toString ";").mapM readFact).map some
  else none

end Drv.Prs

namespace Drv
open ParserM Drv.Prs

/-- returns the lines to print, or `none` if the request is not of this family (the family is
stateless: every request carries its whole text) -/
def parserStep (l : String) (ws : List String) : Option (List String) :=
  match ws with
  | ["parse", h] =>
    match unhexText h with
    | none => some [l, "= bad-request"]
    | some cs =>
      -- the model is a total function: it answers every text (second line: no panic expected)
      match parse cs with
      | some st => some [l, "= " ++ renderState st, "~ nopanic"]
      | none => some [l, "= error", "~ nopanic"]
  -- the text handed to one parser object in several calls, cut where a fact begins: the facts
  -- accumulate, the result is that of the whole text
  | "parsechunks" :: t :: hs =>
    match hs.mapM unhexText, readTruth t with
    | some css, some (some fs) =>
      let spec := if fs.isEmpty then "error" else renderSpec fs
      match parse css.flatten with
      | some st => some [l, "= " ++ renderState st, "~ " ++ spec]
      | none => some [l, "= error", "~ " ++ spec]
    | _, _ => some [l, "= bad-request"]
  | ["parsecheck", h, t] =>
    match unhexText h, readTruth t with
    | some _, some none => some [l, "~ error"]
    | some _, some (some fs) => some [l, "~ " ++ (if fs.isEmpty then "error" else renderSpec fs)]
    | _, _ => some [l, "~ bad-request"]
  | _ => none

end Drv
