import AdfObdd.Store
/-! helpers shared by the protocol handlers of the model driver -/
namespace Drv

def joinWith (sep : String) (xs : List String) : String := sep.intercalate xs
def showNats (sep : String) (xs : List Nat) : String := joinWith sep (xs.map toString)

def parseIdx (w : String) : Option Nat :=
  if w.startsWith "#" then (w.drop 1).toString.toNat? else none

def splitOnNE (s : String) (sep : String) : List String :=
  if s.isEmpty || s == "-" then [] else s.splitOn sep

def parseNatList (s : String) (sep : String) : Option (List Nat) :=
  (splitOnNE s sep).mapM (fun w => w.toNat?)

def parseNode (w : String) : Option Node :=
  match w.splitOn "," with
  | [a, b, c] => do pure ⟨← a.toNat?, ← b.toNat?, ← c.toNat?⟩
  | _ => none

def parseTable (w : String) : Option (Array Node) :=
  ((splitOnNE w ";").mapM parseNode).map List.toArray

def dumpTable (ns : Array Node) : String :=
  joinWith ";" (ns.toList.map (fun n => s!"{n.var},{n.lo},{n.hi}"))

def boolBit (b : Bool) : String := if b then "1" else "0"

/-- insertion sort + dedup for small lists of naturals -/
def sortDedup (xs : List Nat) : List Nat :=
  let ins := fun (acc : List Nat) (x : Nat) =>
    if acc.contains x then acc else (acc.filter (· < x)) ++ [x] ++ (acc.filter (· > x))
  xs.foldl ins []

end Drv
