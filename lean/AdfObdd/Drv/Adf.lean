import AdfObdd.Drv.Bdd
import AdfObdd.Spec.Adf
import AdfObdd.SearchModel
import AdfObdd.IsoCheck
import AdfObdd.Rebuild
import AdfObdd.AdfPipeline
import AdfObdd.CliModel
import AdfObdd.FromParser
import AdfObdd.BioModel
/-! protocol handler of the ADF family: native-store pipelines are run on the proved store model
    (`=` answers, handle for handle); every answer is also rendered canonically and compared with
    the brute-force specification `Spec` (`~` answers). -/
namespace Drv

structure AdfSt where
  n : Nat := 0
  fms : Array Fm := #[]
  pipes : List (String × Store × List Nat) := []

/-- prefix-token formulas -/
def parseFm : Nat → List String → Option (Fm × List String)
  | 0, _ => none
  | _, [] => none
  | fuel+1, w :: r =>
    match w with
    | "T" => some (.top, r)
    | "F" => some (.bot, r)
    | "not" => do let (a, r1) ← parseFm fuel r; pure (.not a, r1)
    | "and" => do let (a, r1) ← parseFm fuel r; let (b, r2) ← parseFm fuel r1; pure (.and a b, r2)
    | "or" => do let (a, r1) ← parseFm fuel r; let (b, r2) ← parseFm fuel r1; pure (.or a b, r2)
    | "imp" => do let (a, r1) ← parseFm fuel r; let (b, r2) ← parseFm fuel r1; pure (.imp a b, r2)
    | "xor" => do let (a, r1) ← parseFm fuel r; let (b, r2) ← parseFm fuel r1; pure (.xor a b, r2)
    | "iff" => do let (a, r1) ← parseFm fuel r; let (b, r2) ← parseFm fuel r1; pure (.iff a b, r2)
    | _ => if w.startsWith "a" then (w.drop 1).toString.toNat?.map (fun v => (.atom v, r)) else none

def ttOfFm (n : Nat) (f : Fm) : Nat := TT.ofFn n (fun a => f.sem (fun v => a.testBit v))

def AdfSt.tts (a : AdfSt) : List Nat := a.fms.toList.map (ttOfFm a.n)

def AdfSt.pipe (a : AdfSt) (p : String) : Option (Store × List Nat) := (a.pipes.find? (fun x => x.1 == p)).map (·.2)
def AdfSt.setPipe (a : AdfSt) (p : String) (s : Store) (ac : List Nat) : AdfSt :=
  { a with pipes := (p, s, ac) :: a.pipes.filter (fun x => x.1 != p) }
def AdfSt.setStore (a : AdfSt) (p : String) (s : Store) : AdfSt :=
  { a with pipes := a.pipes.map (fun x => if x.1 == p then (x.1, s, x.2.2) else x) }

def showVec (v : List Nat) : String := if v.isEmpty then "[]" else showNats " " v
def showVecs (vs : List (List Nat)) : String := if vs.isEmpty then "-" else joinWith " | " (vs.map showVec)
def tfu (v : List Nat) : String :=
  String.ofList (v.map (fun t => if t == 1 then 'T' else if t == 0 then 'F' else 'u'))
def showSeq (vs : List (List Nat)) : String := if vs.isEmpty then "-" else joinWith " " (vs.map tfu)
def showSetV (vs : List (List Nat)) : String :=
  let xs := Spec.sortStrings (vs.map tfu)
  if xs.isEmpty then "-" else joinWith " " xs

/-- `Adf::stable_with_prefilter` -/
def stablePreAll (s : Store) (n : Nat) (ac : List Nat) : Store × List (List Nat) :=
  let g := groundedLoop StoreRA (n + 1) s ac
  (twoValAll g.2).foldl (fun (acc : Store × List (List Nat)) cand =>
      let pre := completeCheck StoreRA acc.1 cand ac cand
      if pre.2 then
        let red := mapFalse pre.1 cand ac
        let grd := groundedLoop StoreRA (n + 1) red.1 red.2
        let ok := (cand.zip grd.2).all (fun (a, b) => sameInfo a b)
        (grd.1, if ok then acc.2 ++ [cand] else acc.2)
      else (pre.1, acc.2)) (g.1, [])

def parseHeu (w : String) : Option (Option SM.Heu) :=
  if w == "Simple" then some (some .simple)
  else if w == "MinModMinPathsMaxVarImp" then some (some .minPathsMaxVarImp)
  else if w == "MinModMaxVarImpMinPaths" then some (some .maxVarImpMinPaths)
  else if w.startsWith "Script:" then (w.drop 7).toString.toNat?.map (fun k => some (.script k))
  else if w.startsWith "Rand:" then some none
  else none

/-- semantics on a native-store pipeline: (new store, vectors in order) -/
def runSem (what : String) (s : Store) (n : Nat) (ac : List Nat) : Option (Store × List (List Nat)) :=
  match what with
  | "grounded" => let g := groundedLoop StoreRA (n + 1) s ac; some (g.1, [g.2])
  | "complete" => let r := completeAll s n ac; some (r.1, r.2.2)
  | "stable" => let r := stableAll s n ac; some (r.1, r.2)
  | "stablepre" => let r := stablePreAll s n ac; some (r.1, r.2)
  | "stmca" => let r := countAll s n ac true; some (r.1, r.2)
  | "stmcb" => let r := countAll s n ac false; some (r.1, r.2)
  | _ => none

def specAnswer (what : String) (n : Nat) (tts : List Nat) : String :=
  match what with
  | "grounded" => Spec.showI3 (Spec.grounded n tts)
  | "complete" => s!"first={Spec.showI3 (Spec.grounded n tts)} set={Spec.showSet (Spec.completeAll n tts)}"
  | "twoval" => Spec.showSet (Spec.models2 n tts)
  | _ => Spec.showSet (Spec.stableAll n tts)

/-- Beyond truth-table size (n > 7) the property oracle is the VERIFIED model itself, run on a
fresh native store: `groundedLoop`, `completeAll`, `stableAll` and `SM.ngSearch` are proved to return
exactly the definitional answers for every n (C01 `grounded_native_end_to_end`, C02 `complete_exact`,
C03 `stable_exact`, C05 `ng_search_exact`), so their answers, rendered as T/F/u, ARE the
specification's answers. Same format as `specAnswer`. -/
def modelAnswer (what : String) (n : Nat) (fms : List Fm) : String :=
  let nat := buildNative n fms
  match what with
  | "grounded" => tfu (groundedLoop StoreRA (n + 1) nat.1 nat.2).2
  | "complete" =>
    let r := completeAll nat.1 n nat.2
    s!"first={tfu r.2.1} set={showSetV r.2.2}"
  | "twoval" => showSetV (SM.ngSearch .simple 2000000 nat.1 n nat.2 false).2.1
  | _ =>
    -- `stableAll` enumerates all 2^k completions of the k statements the grounded interpretation
    -- leaves undecided; beyond k = 16 the (equally exact, C05) nogood search takes its place
    let g := groundedLoop StoreRA (n + 1) nat.1 nat.2
    if (g.2.filter (fun t => !isTV t)).length ≤ 16 then showSetV (stableAll nat.1 n nat.2).2
    else showSetV (SM.ngSearch .simple 2000000 nat.1 n nat.2 true).2.1

def renameFm (ren : Nat → Nat) : Fm → Fm
  | .top => .top | .bot => .bot
  | .atom v => .atom (ren v)
  | .not f => .not (renameFm ren f)
  | .and x y => .and (renameFm ren x) (renameFm ren y)
  | .or x y => .or (renameFm ren x) (renameFm ren y)
  | .imp x y => .imp (renameFm ren x) (renameFm ren y)
  | .xor x y => .xor (renameFm ren x) (renameFm ren y)
  | .iff x y => .iff (renameFm ren x) (renameFm ren y)

def showSetC (ws : List Spec.I3) : String :=
  let xs := Spec.sortStrings (ws.map Spec.showI3)
  if xs.isEmpty then "-" else joinWith "," xs

/-- the work list of `from_parser` (`FromParser.workList`) for one presentation: the entries `k ≥ n`
of `perm` are the conditions in file order; condition `k - n` belongs to the statement at variable
position `inv (k - n)` and is written over the renumbered atoms -/
def presentedItems (a : AdfSt) (perm : List Nat) (inv : Nat → Nat) : List (Nat × Fm) :=
  perm.filterMap (fun k =>
    if k < a.n then none else
    let j := k - a.n
    some (inv j, renameFm inv (a.fms.getD j Fm.bot)))

/-- one presentation: facts in `perm` order, statement `order[k]` at variable position `k` -/
def presented (a : AdfSt) (perm order : List Nat) : String × String :=
  let n := a.n
  let inv := fun (i : Nat) => (order.idxOf i)
  let s0 := buildVars n Store.init
  -- `from_parser` compiles the conditions in file order and stores each at its statement's position
  let r := FromParser.placeCompile s0 (List.replicate n 0) (presentedItems a perm inv)
  let g := groundedLoop StoreRA (n + 1) r.1 r.2
  let c := completeAll g.1 n r.2
  let st := stableAll c.1 n r.2
  let tv := SM.ngSearch .simple 200000 st.1 n r.2 false
  let eq := s!"{showVec r.2} ; {showVec g.2} ; {showVecs c.2.2} ; {showVecs st.2} ; {showVecs tv.2.1}"
  -- the oracle speaks about the ORIGINAL framework: brute force up to 7 statements, beyond that the
  -- verified model on the original (see `modelAnswer`)
  let setOf := fun (vs : List (List Nat)) =>
    let xs := Spec.sortStrings (vs.map tfu)
    if xs.isEmpty then "-" else joinWith "," xs
  let orig := if n ≤ 7 then (Store.init, []) else buildNative n a.fms.toList
  let tts := if n ≤ 7 then a.tts else []
  let gr := if n ≤ 7 then Spec.showI3 (Spec.grounded n tts) else tfu (groundedLoop StoreRA (n + 1) orig.1 orig.2).2
  let co := if n ≤ 7 then showSetC (Spec.completeAll n tts) else setOf (completeAll orig.1 n orig.2).2.2
  let sb := if n ≤ 7 then showSetC (Spec.stableAll n tts) else setOf (stableAll orig.1 n orig.2).2
  let m2 := if n ≤ 7 then showSetC (Spec.models2 n tts) else setOf (SM.ngSearch .simple 2000000 orig.1 n orig.2 false).2.1
  -- beyond 64 statements the harness does not run the single-formula rewriting variants (resource blow-up)
  let rw := if n > 64 then "wide" else sb
  (eq, s!"grounded={gr} complete={co} stable={sb} twoval={m2} biogrounded={gr} biocomplete={co} biostable={sb} biorew={rw} biorew2={rw} natrew={rw} hybpre={sb}")

def orderCheck (n : Nat) (sort : String) (perm : List Nat) (labels : List String) (order : List Nat) : String :=
  if order.length != n || !(List.range n).all (fun i => order.contains i) then "violated not-a-permutation"
  else if sort == "lx" && !((order.zip order.tail).all (fun (x, y) => labels.getD x "" < labels.getD y "")) then "violated bytewise-order"
  else "ok"

def parseFlags (w : String) : Cli.Flags :=
  let fs := if w == "-" then [] else w.splitOn "+"
  { grd := fs.contains "grd", com := fs.contains "com", twoval := fs.contains "twoval", stm := fs.contains "stm",
    stmca := fs.contains "stmca", stmcb := fs.contains "stmcb", stmpre := fs.contains "stmpre",
    stmrew := fs.contains "stmrew", stmrew2 := fs.contains "stmrew2", stmng := fs.contains "stmng" }

def parseMode (w : String) : Cli.Mode :=
  if w == "hybrid" then .hybrid else if w == "biodivine" then .biodivine else .naive

/-- the prescribed lines of one output section: brute-force specification up to 7 statements,
beyond that the verified model on the original framework (see `modelAnswer`) -/
def sectionLines (a : AdfSt) (sec : Cli.Section) : List String :=
  if a.n ≤ 7 then (Cli.specSection a.n a.tts sec).map Spec.showI3 else
  let orig := buildNative a.n a.fms.toList
  let vs : List (List Nat) := match sec with
    | .grd => [(groundedLoop StoreRA (a.n + 1) orig.1 orig.2).2]
    | .com => (completeAll orig.1 a.n orig.2).2.2
    | .twoval => (SM.ngSearch .simple 2000000 orig.1 a.n orig.2 false).2.1
    | _ => (stableAll orig.1 a.n orig.2).2
  vs.map tfu

/-- `clirun`: expected stdout of the binary, every line rendered in ORIGINAL statement order -/
def cliRun (a : AdfSt) (mode flags heu : String) (perm order : List Nat) : String × String :=
  let n := a.n
  let inv := fun (i : Nat) => order.idxOf i
  let s0 := buildVars n Store.init
  let r := FromParser.placeCompile s0 (List.replicate n 0) (presentedItems a perm inv)
  let h := match parseHeu heu with | some (some h) => h | _ => SM.Heu.simple
  let m := parseMode mode
  let f := parseFlags flags
  let secs := Cli.run m f h r.1 n r.2
  -- back to the original statement order
  let back := fun (v : List Nat) =>
    String.ofList ((List.range n).map (fun i => let t := v.getD (inv i) 2; if t == 1 then 'T' else if t == 0 then 'F' else 'u'))
  let lines := secs.flatMap (fun (_, vs) => vs.map back)
  -- with a rewriting flag the harness compares the whole output as a multiset
  let unordered := f.stmrew || f.stmrew2
  let seq := if unordered then Spec.sortStrings lines else lines
  let j := fun (xs : List String) => if xs.isEmpty then "-" else joinWith "," xs
  let specLines := (Cli.sections m f).flatMap (sectionLines a)
  (s!"exit=0 wellformed=1 lines={j seq}", s!"exit=0 set={j (Spec.sortStrings specLines)}")

/-- the parity framework of the `ngparity` request (the text the harness parses: `ac(s0,neg(s1))`,
`ac(s1,neg(s0))`, the chain `ac(s2,s0)`, `ac(s3,s2)`, …, and
`ac(s_last, xor(s0, xor(s2, … xor(s_chain, s_{chain+1}))))`) -/
def parityFms (chain : Nat) : List Fm :=
  let par := (List.range chain).foldl (fun (par : Fm) (k : Nat) =>
      let m := chain - k
      Fm.xor (.atom (if m == 1 then 0 else m)) par) (Fm.atom (chain + 1))
  [Fm.not (.atom 1), Fm.not (.atom 0)] ++
    (List.range chain).map (fun i => Fm.atom (if i == 0 then 0 else 1 + i)) ++ [par]

def adfStep (a : AdfSt) (l : String) (ws : List String) : Option (List String × AdfSt) :=
  match ws with
  | ["ngbig", k] =>
    -- k mutual attack pairs: exactly 2^k stable = two-valued models (known by construction)
    let m := 2 ^ (k.toNat?.getD 0)
    -- the bounded-channel variant runs on max (k-3) 1 pairs
    let mb := 2 ^ (Nat.max ((k.toNat?.getD 0) - 3) 1)
    some ([l, s!"~ count={m} distinct={m} channel={m} twoval={m} bounded={mb} bounded-distinct={mb}"], a)
  | ["ngparity", chain, heu, mode] =>
    -- s0: not s1, s1: not s0, chain s2: s0, s3: s2, ..., last: exclusive or of s0 and the chain.
    -- exactly two two-valued models, both stable (known by construction): s0 with the whole chain
    -- true (last = parity of chain+1 members), or s1 alone
    let c := chain.toNat?.getD 0
    let rep (ch : Char) : String := String.ofList (List.replicate c ch)
    let a1 := "TF" ++ rep 'T' ++ (if (c + 1) % 2 == 1 then "T" else "F")
    let a2 := "FT" ++ rep 'F' ++ "F"
    let byConstruction := s!"{a2} {a1}"
    -- the MODEL's answer: the nogood search with the requested heuristic and mode on the natively
    -- built framework (path counts near 2^c: feasible because the measures are memoised per node)
    let fms := parityFms c
    let nat := buildNative (c + 3) fms
    let h : SM.Heu := if heu == "Simple" then .simple
      else if heu == "MinModMinPathsMaxVarImp" then .minPathsMaxVarImp else .maxVarImpMinPaths
    let r := SM.ngSearch h 1000000 nat.1 (c + 3) nat.2 (mode != "twoval")
    let model := if r.2.2.2 then showSetV r.2.1 else "fuel-exhausted"
    if model == byConstruction then some ([l, s!"~ {model}"], a)
    else some ([l, s!"~ {model}", s!"# by-construction {byConstruction}"], a)
  | ["cli", _, _, _, _, _, _, _] => some ([l, "= ran"], a)
  | ["clirun", mode, _, flags, heu, perm, order, _] =>
    match parseNatList perm ",", parseNatList order "," with
    | some perm, some order =>
      let r := cliRun a mode flags heu perm order
      some ([l, s!"= {r.1}", s!"~ {r.2}"], a)
    | _, _ => some ([l, "= bad-request"], a)
  | ["clicount", _] =>
    -- counts are determined by the function and the variable order (canonical diagrams), so the
    -- natively compiled conditions give the numbers for the naive and the bridged object alike
    let b := buildNative a.n a.fms.toList
    let cs := b.2.map (fun t => let c := countF b.1 (t + 1) t; s!"{c.1},{c.2.1}")
    some ([l, "= exit=0 counts=" ++ (if cs.isEmpty then "-" else joinWith " " cs)], a)
  | ["clicheck", mode, flags, code, wf, lines] =>
    -- section by section, in the documented order: the k-th block of printed lines must be the
    -- specification's answer for the k-th section (as a multiset)
    let m := parseMode mode
    let f := parseFlags flags
    let blocks := (Cli.sections m f).map (fun sec => Spec.sortStrings (sectionLines a sec))
    let ls := splitOnNE lines ","
    let verdict := Id.run do
      if code != "0" then return "violated exit-status"
      if wf != "1" then return "violated line-format"
      if ls.length != (blocks.map List.length).sum then return s!"violated line-count {ls.length} {(blocks.map List.length).sum}"
      let mut rest := ls
      let mut k := 0
      for b in blocks do
        let here := rest.take b.length
        rest := rest.drop b.length
        if Spec.sortStrings here != b then return s!"violated section {k}"
        k := k + 1
      return "ok"
    some ([l, s!"~ {verdict}"], a)
  | ["clibad", _, _, _] => some ([l, "~ rejected"], a)
  | ["cliexport", _] => some ([l, "~ export ok"], a)
  | ["cliq", _] => some ([l, "~ exit=0 T(a&b)_T(c)"], a)
  -- a condition nested `depth` levels deep: `neg^d(a)` is `a` or `¬a`, so `a` stays undecided;
  -- `and(b, and(b, … a))` with the fact `b` is equivalent to `a`, so `a` stays undecided and `b` is true
  -- `wide`: x0 ← conjunction of all other statements, which are facts: everything is true
  | ["clideep", shape, d, _] =>
    some ([l, if shape == "neg" then "~ exit=0 u(a)"
              else if shape == "wide" then s!"~ exit=0 statements={d} all-true=1"
              else "~ exit=0 u(a)_T(b)"], a)
  | ["present", _, _, _, _] => some ([l, "= ok", "~ accepted"], a)
  -- ten statements `p_i ← p_i`: every one of the 2^10 total assignments is a two-valued model
  | ["clibig", _, "twoval"] => some ([l, "~ exit=0 lines=1024 distinct=1024 wellformed=1"], a)
  | ["presented", perm, order] =>
    match parseNatList perm ",", parseNatList order "," with
    | some perm, some order =>
      let r := presented a perm order
      some ([l, s!"= {r.1}", s!"~ {r.2}"], a)
    | _, _ => some ([l, "= bad-request"], a)
  | ["ordercheck", sort, perm, labels, order] =>
    match parseNatList perm ",", parseNatList order "," with
    | some perm, some order =>
      -- without sorting the order is the order of first declaration: how the code behaves, not
      -- something the property states - correspondence channel
      let decl := if sort == "none" && order != perm.filter (· < a.n) then "differs" else "ok"
      some ([l, s!"~ {orderCheck a.n sort perm (labels.splitOn ",") order}", s!"= declaration-order {decl}"], a)
    | _, _ => some ([l, "~ bad-request"], a)
  | ["completefirst", _] =>
    -- the first complete model is the grounded interpretation (C02 `complete_exact`: head = grounded)
    let g := if a.n ≤ 7 then specAnswer "grounded" a.n a.tts else modelAnswer "grounded" a.n a.fms.toList
    some ([l, s!"~ first={g}"], a)
  | ["detrepro", _, _, _] =>
    -- determinism: the same search twice on the used object and once on a twin lists the same
    -- interpretations in the same order (C11.answers_memo_independent for the used object,
    -- C11.ng_order_history_independent for the twin: the order does not depend on the node table)
    some ([l, "~ deterministic same-object=1 twin=1"], a)
  | ["randrepro", _, _, mode, _] =>
    -- StdRng is not modelled: the specification only says that a seeded random search is
    -- reproducible (same object twice, and a twin) and returns the prescribed set
    let spec := if a.n ≤ 7 then specAnswer (if mode == "stable" then "stable" else "twoval") a.n a.tts
                else modelAnswer (if mode == "stable" then "stable" else "twoval") a.n a.fms.toList
    some ([l, s!"~ reproducible same-object=1 twin=1 set={spec}"], a)
  | ["adf", n] =>
    let n := n.toNat?.getD 0
    some ([l], { n := n, fms := Array.replicate n Fm.bot, pipes := [] })
  | "ac" :: i :: toks =>
    match i.toNat?, parseFm (toks.length + 1) toks with
    | some i, some (f, _) => some ([l], { a with fms := a.fms.setIfInBounds i f })
    | _, _ => some ([l, "= bad-request"], a)
  | ["build", p] =>
    let base := if p.endsWith "fresh" then (p.dropEnd 5).toString else p
    if base == "native" then
      let r := buildNative a.n a.fms.toList
      let tts := if a.n > 7 then [] else a.tts
      let sp := if a.n > 7 then "large" else (if tts.isEmpty then "[]" else showNats " " tts)
      some ([l, s!"= {showVec r.2}", "~ " ++ sp], a.setPipe p r.1 r.2)
    else if base == "hybrid" || base == "hybridpre" || base == "bio" then some ([l, "= built"], a)
    else some ([l, "= bad-request"], a)
  | ["adopt", p, table, ac] =>
    match parseTable table, parseNatList ac "," with
    | some ns, some acs =>
      let base := if p.endsWith "fresh" then (p.dropEnd 5).toString else p
      let wf := wfCheckFast ns
      -- expected functions: the natively compiled conditions (pre-grounded: the grounded residuals)
      let nat := buildNative a.n a.fms.toList
      let exp := if base == "hybridpre" then groundedLoop StoreRA (a.n + 1) nat.1 nat.2 else nat
      let iso := decide (acs.length = exp.2.length) &&
        (acs.zip exp.2).all (fun (x, y) => (isoF ns exp.1.nodes (x + y + 2) {} x y).1)
      some ([l, s!"~ wf={wf} iso={iso}"], a.setPipe p (rebuild ns) acs)
    | _, _ => some ([l, "~ bad-request"], a)
  | "extraformula" :: p :: toks =>
    match a.pipe p, parseFm (toks.length + 1) toks with
    | some (s, _), some (f, _) =>
      let r := compile s f
      some ([l, s!"= {r.2}"], a.setStore p r.1)
    | _, _ => some ([l, "= bad-request"], a)
  | "memocheckn" :: n :: t :: rest =>
    match parseTable t, n.toNat? with
    | some ns, some n => some ([l, s!"= audit {MemoCheck.verdict n true ns rest (fun _ => memoCheck n true ns rest)}"], a)
    | _, _ => some ([l, "= bad-request"], a)
  | [what, p] =>
    if what == "adump" then
      match a.pipe p with
      | some (s, _) => some ([l, s!"= {dumpTable s.nodes}"], a)
      | none => some ([l, "= bad-request"], a)
    else if what == "facets" then
      -- `Adf::facet_count`: naive model counts and 2·|dependencies| when the count exceeds 2
      match a.pipe p with
      | some (s, ac) =>
        let cs := ac.map (fun t =>
          let c := countF s (t + 1) t
          let d := (depsSorted s t).length
          s!"{c.1},{c.2.1},{if c.1 > 2 then 2 * d else 0},{if c.2.1 > 2 then 2 * d else 0}")
        some ([l, "= " ++ (if cs.isEmpty then "-" else joinWith " " cs)], a)
      | none => some ([l, "= bad-request"], a)
    else if what == "counts" then
      match a.pipe p with
      | some (s, ac) =>
        let cs := ac.map (fun t => let c := countF s (t + 1) t; s!"{c.1},{c.2.1}")
        some ([l, "= " ++ (if cs.isEmpty then "-" else joinWith " " cs)], a)
      | none => some ([l, "= bad-request"], a)
    else if !(["grounded", "complete", "stable", "stablepre", "stablerew", "stablerew2", "stmca", "stmcb"].contains what) then none
    else
      let tts := if a.n ≤ 7 then a.tts else []
      let spec := if a.n ≤ 7 then specAnswer what a.n tts else modelAnswer what a.n a.fms.toList
      if p == "bio" || what == "stablerew" || what == "stablerew2" then
        let w := if what == "stablerew" || what == "stablerew2" then "stable" else what
        -- up to 7 statements: the model of the biodivine back-end's OWN algorithms (`BioModel`, proved
        -- exact in C02/C03) on the truth-table instance of the assumed library; the prepared
        -- rewriting (`stablerew2`) denotes the same function on well-formed frameworks
        let bio : Option (List (List Nat)) :=
          if a.n ≤ 7 && p == "bio" then
            (Bio.runTT (if what == "stablerew2" then "stablerew" else what) a.n tts).map
              (fun vs => vs.map (fun v => v.map (fun x => match x with | some true => 1 | some false => 0 | none => 2)))
          else none
        match bio with
        | some vs =>
          let eq := if w == what then showSeq vs else showSetV vs
          some ([l, s!"= {eq}", s!"~ {spec}"], a)
        | none =>
        -- larger frameworks and the native rewriting variant: the same algorithm on a scratch native store
        let nat := buildNative a.n a.fms.toList
        match runSem w nat.1 a.n nat.2 with
        | some (_, vs) =>
          let eq := if w == what then showSeq vs else showSetV vs
          some ([l, s!"= {eq}", s!"~ {spec}"], a)
        | none => some ([l, "= bad-request"], a)
      else
        match a.pipe p with
        | some (s, ac) =>
          match runSem what s a.n ac with
          | some (s', vs) => some ([l, s!"= {showVecs vs}", s!"~ {spec}"], a.setStore p s')
          | none => some ([l, "= bad-request"], a)
        | none => some ([l, "= bad-request"], a)
  | [ng, p, heu, mode] =>
    if ng != "ng" && ng != "ngch" then none else
    let stable := mode == "stable"
    let spec := if a.n ≤ 7 then specAnswer (if stable then "stable" else "twoval") a.n a.tts
                else modelAnswer (if stable then "stable" else "twoval") a.n a.fms.toList
    match a.pipe p, parseHeu heu with
    | some (s, ac), some (some h) =>
      let r := SM.ngSearch h 200000 s a.n ac stable
      -- only a custom (scripted) heuristic can log what it is shown
      let tr := match h with | .script _ => showVecs r.2.2.1 | _ => "-"
      let eq := if r.2.2.2 then s!"{showVecs r.2.1} # {tr}" else "fuel-exhausted"
      some ([l, s!"= {eq}", s!"~ {spec}"], a.setStore p r.1)
    | some _, some none =>
      -- Rand: not modelled step by step (the harness runs it on an object of its own)
      some ([l, "= -", s!"~ {spec}"], a)
    | _, _ => some ([l, "= bad-request"], a)
  | _ => none

end Drv
