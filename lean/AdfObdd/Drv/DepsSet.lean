import AdfObdd.Drv.Common
import AdfObdd.CountsDef
/-! The driver prints dependency SETS (`sortDedup (depsOf s t)`); `depsOf` lists a variable once per
path through it, so on a diagram with heavy sharing the list is exponentially long. `depsSorted` is
that composition as one function, compiled (`@[csimp]`) to the memoised dependency set (`Memo.setG`: a
strictly increasing list, one cache entry per node as `var_deps` of the code; cost independent of the
magnitude of the variable indices), proved equal on every table. -/
namespace Drv

/-- one insertion of `sortDedup` -/
def sdIns (acc : List Nat) (x : Nat) : List Nat :=
  if acc.contains x then acc else (acc.filter (· < x)) ++ [x] ++ (acc.filter (· > x))

theorem sortDedup_eq_foldl (xs : List Nat) : sortDedup xs = xs.foldl sdIns [] := rfl

theorem sdIns_spec (acc : List Nat) (x : Nat) (h : acc.Pairwise (· < ·)) :
    (sdIns acc x).Pairwise (· < ·) ∧ ∀ y, y ∈ sdIns acc x ↔ y = x ∨ y ∈ acc := by
  unfold sdIns
  by_cases hc : acc.contains x = true
  · rw [if_pos hc]
    have hx : x ∈ acc := List.contains_iff_mem.mp hc
    refine ⟨h, fun y => ⟨Or.inr, ?_⟩⟩
    rintro (rfl | h') <;> assumption
  · rw [if_neg hc]
    have hx : x ∉ acc := fun m => hc (List.contains_iff_mem.mpr m)
    constructor
    · rw [List.pairwise_append]
      refine ⟨?_, h.filter _, ?_⟩
      · rw [List.pairwise_append]
        refine ⟨h.filter _, List.pairwise_singleton _ _, ?_⟩
        intro a ha b hb
        simp only [List.mem_filter, decide_eq_true_eq] at ha
        simp only [List.mem_singleton] at hb
        omega
      · intro a ha b hb
        simp only [List.mem_append, List.mem_filter, decide_eq_true_eq, List.mem_singleton] at ha hb
        rcases ha with ha | ha <;> omega
    · intro y
      simp only [List.mem_append, List.mem_filter, decide_eq_true_eq, List.mem_singleton]
      constructor
      · rintro ((h' | h') | h')
        · exact Or.inr h'.1
        · exact Or.inl h'
        · exact Or.inr h'.1
      · rintro (h' | h')
        · exact Or.inl (Or.inr h')
        · have : y ≠ x := fun e => hx (e ▸ h')
          by_cases hlt : y < x
          · exact Or.inl (Or.inl ⟨h', hlt⟩)
          · exact Or.inr ⟨h', by omega⟩

theorem foldl_sdIns_spec : ∀ (xs acc : List Nat), acc.Pairwise (· < ·) →
    (xs.foldl sdIns acc).Pairwise (· < ·) ∧ ∀ y, y ∈ xs.foldl sdIns acc ↔ y ∈ acc ∨ y ∈ xs := by
  intro xs
  induction xs with
  | nil => intro acc h; exact ⟨h, fun y => by simp⟩
  | cons x xs ih =>
    intro acc h
    obtain ⟨hp, hm⟩ := sdIns_spec acc x h
    obtain ⟨hp', hm'⟩ := ih (sdIns acc x) hp
    refine ⟨hp', fun y => ?_⟩
    rw [List.foldl_cons, hm' y, hm y, List.mem_cons]
    constructor
    · rintro ((h' | h') | h')
      · exact Or.inr (Or.inl h')
      · exact Or.inl h'
      · exact Or.inr (Or.inr h')
    · rintro (h' | h' | h')
      · exact Or.inl (Or.inr h')
      · exact Or.inl (Or.inl h')
      · exact Or.inr h'

/-- strictly increasing lists with the same members are equal -/
theorem sorted_ext : ∀ (l1 l2 : List Nat), l1.Pairwise (· < ·) → l2.Pairwise (· < ·) →
    (∀ x, x ∈ l1 ↔ x ∈ l2) → l1 = l2 := by
  intro l1
  induction l1 with
  | nil =>
    intro l2 _ _ h
    cases l2 with
    | nil => rfl
    | cons b l2 => exact absurd ((h b).mpr List.mem_cons_self) (by simp)
  | cons a l1 ih =>
    intro l2 h1 h2 h
    cases l2 with
    | nil => exact absurd ((h a).mp List.mem_cons_self) (by simp)
    | cons b l2 =>
      rw [List.pairwise_cons] at h1 h2
      have hab : a = b := by
        have ha := (h a).mp List.mem_cons_self
        have hb := (h b).mpr List.mem_cons_self
        rcases List.mem_cons.mp ha with e | ha'
        · exact e
        · rcases List.mem_cons.mp hb with e | hb'
          · exact e.symm
          · have := h2.1 a ha'; have := h1.1 b hb'; omega
      subst hab
      congr 1
      apply ih l2 h1.2 h2.2
      intro x
      constructor
      · intro hx
        have := h1.1 x hx
        rcases List.mem_cons.mp ((h x).mp (List.mem_cons_of_mem _ hx)) with e | hx'
        · omega
        · exact hx'
      · intro hx
        have := h2.1 x hx
        rcases List.mem_cons.mp ((h x).mpr (List.mem_cons_of_mem _ hx)) with e | hx'
        · omega
        · exact hx'

/-- the sorted duplicate-free list of `xs` is THE strictly increasing list with the members of `xs` -/
theorem sortDedup_eq_of_sorted (xs l : List Nat) (hl : l.Pairwise (· < ·)) (h : ∀ v, v ∈ xs ↔ v ∈ l) :
    sortDedup xs = l := by
  rw [sortDedup_eq_foldl]
  obtain ⟨hp, hm⟩ := foldl_sdIns_spec xs [] List.Pairwise.nil
  apply sorted_ext _ _ hp hl
  intro x
  rw [hm x, ← h x]
  simp

/-- the dependency set of a diagram, increasing (`sortDedup ∘ depsOf`) -/
def depsSorted (s : Store) (t : Nat) : List Nat := sortDedup (depsOf s t)

/-- … computed with one cache entry per node (what the compiled driver runs) -/
def depsSortedM (s : Store) (t : Nat) : List Nat := Memo.setG.FM s (t+1) t

@[csimp] theorem depsSorted_eq_depsSortedM : @depsSorted = @depsSortedM := by
  funext s t
  rw [depsSorted, depsSortedM, Memo.FM_eq]
  exact sortDedup_eq_of_sorted _ _ (Memo.setF_sorted s (t+1) t) (fun v => Memo.mem_depsF s (t+1) t v)

end Drv
