import AdfObdd.Drv.Common
import AdfObdd.ServerModel
import AdfObdd.ServerAdf
import AdfObdd.ServerConcrete
/-! protocol handler of the web-service family (C16/C17): `http …` requests are answered with the
    status, cookie event and canonical body computed by `ServerM.step`; `taskdone` applies the
    background-task events; `dbcheck`, `isolation`, `alone`, `result`, `graphcheck` are the monitors
    (`~ …` answers), evaluated from the data in the request line and the model's state. -/
namespace Drv
open ServerM ServerAdf SrvC

/-! ### text utilities -/

def hex4 (n : Nat) : String :=
  String.ofList [hexDigit (n / 4096 % 16), hexDigit (n / 256 % 16), hexDigit (n / 16 % 16), hexDigit (n % 16)]

/-- JSON string literal as Python's `json.dumps` prints it (`ensure_ascii`) -/
def jsonStr (s : String) : String :=
  let esc := fun (c : Char) =>
    if c == '"' then "\\\"" else if c == '\\' then "\\\\" else if c == '\n' then "\\n"
    else if c == '\r' then "\\r" else if c == '\t' then "\\t"
    else if c.toNat < 32 || c.toNat > 126 then
      (if c.toNat < 65536 then "\\u" ++ hex4 c.toNat
       else let v := c.toNat - 65536; "\\u" ++ hex4 (55296 + v / 1024) ++ "\\u" ++ hex4 (56320 + v % 1024))
    else String.singleton c
  "\"" ++ String.join (s.toList.map esc) ++ "\""

def insertStr (x : String) : List String → List String
  | [] => [x]
  | y :: ys => if x ≤ y then x :: y :: ys else y :: insertStr x ys

def sortStrs (xs : List String) : List String := xs.foldr insertStr []

def fnv64 (s : String) : String :=
  let h := s.toUTF8.foldl (fun (h : UInt64) b => (h ^^^ b.toUInt64) * 0x100000001b3) 0xcbf29ce484222325
  let n := h.toNat
  String.ofList ((List.range 16).map (fun i => hexDigit (n / 16 ^ (15 - i) % 16)))

/-! ### names in protocol tokens and in URL paths

Names are opaque strings for the model. The harness writes them into the protocol in two encoded forms:
* inside monitor tokens (`dbcheck users=`, `isolation`, `logins`) as `tokEnc name`: every UTF-8 byte outside
  `A-Z a-z 0-9 - _ . ~` as `%HH` (the name `-` as `%2D`). The monitors only compare such tokens, and `tokEnc` is
  injective, so nothing is decoded there; `dumpText` prints the model's user names in the same form.
* inside the path of an `http` line as the text that went over the wire. actix-web 4.10 / actix-router 0.5.3
  (observed on the real server): the path ends at the first `?` or `#`; routing splits the still-encoded text at
  `/` (so `%2F` does not separate segments, a raw `/` does); the `{problem_name}` segment must be non-empty and is
  then percent-decoded completely (`%2F` becomes `/`, `%25` becomes `%`, `+` stays `+`, a `%` not followed by two
  hex digits stays as it is; see `segName` for the two passes); a request inside the scopes `/users`, `/adf` that matches no route is answered
  `404` with an empty body. -/

def hexVal (c : Char) : Option Nat :=
  let n := c.toNat
  if 48 ≤ n && n ≤ 57 then some (n - 48)
  else if 97 ≤ n && n ≤ 102 then some (n - 87)
  else if 65 ≤ n && n ≤ 70 then some (n - 55)
  else none

def hexUp (n : Nat) : Char := if n < 10 then Char.ofNat (48 + n) else Char.ofNat (55 + n)

def tokEnc (s : String) : String :=
  if s == "-" then "%2D" else
  String.join (s.toUTF8.toList.map (fun b =>
    let n := b.toNat
    if (48 ≤ n && n ≤ 57) || (65 ≤ n && n ≤ 90) || (97 ≤ n && n ≤ 122) || n == 45 || n == 95 || n == 46 || n == 126
    then String.singleton (Char.ofNat n) else String.ofList ['%', hexUp (n / 16), hexUp (n % 16)]))

/-- one decoding pass over a percent-encoded text, as bytes: a `%HH` escape becomes its byte unless `keep` holds
for the byte (then the escape stays as it is); a `%` not followed by two hex digits stays as it is.
`skip`: characters already consumed as the hex digits of an escape -/
def pctBytesAux (keep : Nat → Bool) : Nat → List Char → List UInt8
  | _, [] => []
  | skip + 1, _ :: rest => pctBytesAux keep skip rest
  | 0, c :: rest =>
    if c == '%' then
      match rest with
      | a :: b :: _ =>
        match hexVal a, hexVal b with
        | some x, some y =>
          if keep (16 * x + y) then UInt8.ofNat 37 :: pctBytesAux keep 0 rest
          else UInt8.ofNat (16 * x + y) :: pctBytesAux keep 2 rest
        | _, _ => UInt8.ofNat 37 :: pctBytesAux keep 0 rest
      | _ => UInt8.ofNat 37 :: pctBytesAux keep 0 rest
    else (String.singleton c).toUTF8.toList ++ pctBytesAux keep 0 rest

def pctPass (keep : Nat → Bool) (w : String) : Option String :=
  String.fromUTF8? ⟨(pctBytesAux keep 0 w.toList).toArray⟩

/-- the value of a `{name}` path parameter. Two passes, as in actix-router 0.5.3: the path is "requoted" before
routing (`Url::new`, `Quoter::new(b"", b"%/+")`: escapes are decoded except `%25`, `%2F`, `%2B`), the parameter is
decoded again, completely, by the `Path` deserializer (`FULL_QUOTER`). On a well-formed text this is ONE complete
decoding; on a malformed one it is not (`%%32F` becomes `%2F` and then `/`: observed on the real server).
`none`: the bytes are not UTF-8 (actix substitutes U+FFFD; the harness never sends that). -/
def segName (w : String) : Option String :=
  (pctPass (fun b => b == 37 || b == 47 || b == 43) w).bind (pctPass (fun _ => false))

def cutQuery (p : String) : String := String.ofList (p.toList.takeWhile (fun c => c != '?' && c != '#'))

/-! ### the instance of the model -/

/- `SHash`, `SState`, `SResp`, `Oracle`, `parseKey`, `stratName`, `solveKey`, `lookupS` and the
   instance `mkEnv` itself live in `AdfObdd/ServerConcrete.lean` (namespace `SrvC`), shared with the
   theorems of `Props/C16.lean`. -/

def stratKey : Strategy → String
  | .ground => "ground" | .complete => "complete" | .stable => "stable"
  | .stableCountingA => "stable_counting_a" | .stableCountingB => "stable_counting_b" | .stableNogood => "stable_nogood"
def allStrategies : List Strategy := [.ground, .complete, .stable, .stableCountingA, .stableCountingB, .stableNogood]
def parseStrategy (s : String) : Option Strategy := allStrategies.find? (fun x => stratName x == s)
/-! ### rendering -/

def errName : Err → String
  | .parseError => "parse" | .panic => "panic" | .timeout => "timeout"

def errText : Err → String
  | .parseError => "ADF could not be parsed, double check your input!"
  | .panic => "#panic"
  | .timeout => "deadline has elapsed"

def msgText : Msg String → String
  | .registered => "Registration successful!"
  | .nameTaken => "Username is already taken. Please pick another one!"
  | .needUserPw => "Username and Password need to be set!"
  | .invalidEmailPw => "Invalid email or password"
  | .invalidUserPw => "Invalid username or password"
  | .noUser u => s!"No user found with username {u}"
  | .loginOk => "Login successful!"
  | .notLoggedIn => "You are not logged in."
  | .tempNoLogout => "You are logged in as a temporary user so we won't log you out because you will not be able to login again. If you want to be able to login again, set a password. Otherwise your session will expire automatically at a certain point."
  | .logoutOk => "Logout successful!"
  | .needLoginInfo => "You need to login get your account information."
  | .userGone => "Logged in user does not exist anymore."
  | .accountNotUpdated => "Account could not be updated."
  | .accountNotDeleted => "Account could not be deleted."
  | .accountDeleted => "Account deleted."
  | .needCode => "Either a file or the code has to be provided."
  | .noGenName => "Could not generate new name."
  | .problemExists => "ADF Problem with that name already exists. Please pick another one!"
  | .parsingStarted => "Parsing started..."
  | .needLoginAdd => "You need to login to add an ADF problem."
  | .needLoginGet => "You need to login to get an ADF problem."
  | .problemNotFound n => s!"ADF problem with name {n} not found."
  | .notParsedYet => "The ADF problem has not been parsed yet."
  | .couldNotParse e => s!"The ADF problem could not be parsed. Update it and try again. Error: {errText e}"
  | .alreadySolved => "The ADF problem has already been solved with this strategy. You can just get the solution from the problem data directly."
  | .solvingStarted => "Solving started..."
  | .problemNotDeleted => "Adf Problem could not be deleted."
  | .problemDeleted => "Adf Problem deleted."
  | .badPayload => "#bad-payload"
  | .dbError => "#db-error"

def showAc (ac : List Nat) : String := showNats "," ac

def oweText (detail : Bool) : OWE SRes → String
  | .none => "None"
  | .error e => "Error:" ++ errName e
  | .some r => if detail then "Some:" ++ joinWith ";" (sortStrs (r.map (fun x => showAc x.ac))) else "Some"

def parsingName : Parsing → String
  | .naive => "Naive" | .hybrid => "Hybrid"

def taskText : Task → String
  | .parse => "Parse"
  | .solve s => "Solve:" ++ stratName s

def acsJson (detail : Bool) (po : OWE SRes) (r : Results SRes) : String :=
  "{\"complete\":" ++ jsonStr (oweText detail r.complete) ++ ",\"ground\":" ++ jsonStr (oweText detail r.ground)
  ++ ",\"parse_only\":" ++ jsonStr (oweText detail po) ++ ",\"stable\":" ++ jsonStr (oweText detail r.stable)
  ++ ",\"stable_counting_a\":" ++ jsonStr (oweText detail r.stableCountingA)
  ++ ",\"stable_counting_b\":" ++ jsonStr (oweText detail r.stableCountingB)
  ++ ",\"stable_nogood\":" ++ jsonStr (oweText detail r.stableNogood) ++ "}"

def infoJson (detail : Bool) (i : Info String SRes) : String :=
  "{\"acs_per_strategy\":" ++ acsJson detail i.parseOnly i.res ++ ",\"code\":" ++ jsonStr i.code
  ++ ",\"name\":" ++ jsonStr i.name ++ ",\"parsing_used\":" ++ jsonStr (parsingName i.parsing)
  ++ ",\"running_tasks\":[" ++ joinWith "," ((sortStrs (i.running.map taskText)).map jsonStr) ++ "]}"

def bodyText (detail : Bool) : Body String SRes → String
  | .msg m => msgText m
  | .userInfo u t => "{\"temp\":" ++ (if t then "true" else "false") ++ ",\"username\":" ++ jsonStr u ++ "}"
  | .problem i => infoJson detail i
  | .problems l => "[" ++ joinWith "," (sortStrs (l.map (infoJson detail))) ++ "]"

def cookieText : Cookie String → String
  | .keep => "-" | .login _ => "set" | .logout => "del"

def respText (detail : Bool) (r : SResp) : String :=
  s!"{r.status} {cookieText r.cookie} {bodyText detail r.body}"

def adfOweText (detail : Bool) : OWE SAdf → String
  | .none => "None"
  | .error e => "Error:" ++ errName e
  | .some a => if detail then "Some:" ++ adfText a else "Some"

def problemDumpJson (detail : Bool) (p : Problem String SAdf SRes) : String :=
  "{\"acs_per_strategy\":" ++ acsJson detail p.parseOnly p.res ++ ",\"adf\":" ++ jsonStr (adfOweText detail p.adf)
  ++ ",\"code\":" ++ jsonStr p.code ++ ",\"name\":" ++ jsonStr p.name
  ++ ",\"parsing_used\":" ++ jsonStr (parsingName p.parsing) ++ ",\"username\":" ++ jsonStr p.username ++ "}"

def dumpText (detail : Bool) (db : Db String SHash SAdf SRes) : String :=
  let us := db.users.map (fun u => tokEnc u.username ++ ":" ++ (if u.password.isSome then "argon2" else "null"))
  "users=" ++ (if us.isEmpty then "-" else joinWith "," us) ++ " problems=["
  ++ joinWith "," (db.problems.map (problemDumpJson detail)) ++ "]"

/-! ### requests -/

def parseFields (w : String) : Option (List (String × String)) :=
  if w == "-" || w == "+" then some [] else
  (w.splitOn ",").mapM (fun kv =>
    match kv.splitOn ":" with
    | [k, v] => (unhex v).map (fun s => (k, s))
    | _ => none)

def parseJar (w : String) : Option Nat := if w.startsWith "j" then (w.drop 1).toString.toNat? else none

/-- what actix's router makes of a request line -/
inductive Routed where
  | req (r : Req String)
  | notFound            -- inside the scope `/users` or `/adf`, no route: 404, empty body, no handler runs
  | bad                 -- not a request of this family (the harness never sends it)

/-- a handler with a `{problem_name}` parameter: the segment must be non-empty, its value is decoded -/
def withName (w : String) (k : String → Req String) : Routed :=
  if w.isEmpty then .notFound else
  match segName w with
  | some n => .req (k n)
  | none => .bad

/-- the request of a protocol line; `tu`, `pu`: the names the generator would propose next -/
def parseReq (method path : String) (fs : List (String × String)) (salt : Nat) (tu pu : String) : Routed :=
  let f := fun k => lookupS k fs
  let segs := ((cutQuery path).splitOn "/").drop 1
  match method, segs with
  | "POST", ["users", "register"] =>
    .req (match f "username", f "password", f "raw" with
      | some u, some p, none => .register u p salt
      | _, _, _ => .malformed)
  | "POST", ["users", "login"] =>
    .req (match f "username", f "password", f "raw" with
      | some u, some p, none => .login u p
      | _, _, _ => .malformed)
  | "DELETE", ["users", "logout"] => .req .logout
  | "GET", ["users", "info"] => .req .info
  | "PUT", ["users", "update"] =>
    .req (match f "username", f "password", f "raw" with
      | some u, some p, none => .update u p salt
      | _, _, _ => .malformed)
  | "DELETE", ["users", "delete"] => .req .deleteAccount
  | "POST", ["adf", "add"] =>
    .req (match f "name", f "parsing" with
      | some n, some "Naive" => .add n (f "code") (f "file") .naive tu pu
      | some n, some "Hybrid" => .add n (f "code") (f "file") .hybrid tu pu
      | _, _ => .malformed)
  | "PUT", ["adf", n, "solve"] =>
    withName n (fun n => match (f "strategy").bind parseStrategy with
      | some s => .solve n s
      | none => .malformed)
  | "GET", ["adf", ""] => .req .list
  | "GET", ["adf", n] => withName n .get
  | "DELETE", ["adf", n] => withName n .delete
  | _, "users" :: _ => .notFound
  | _, "adf" :: _ => .notFound
  | _, _ => .bad

/-! ### driver state -/

inductive HEvent where
  | req (rq : Request String)
  | nf (jar : Nat)                                -- a request no route matched (404 from the router)
  | fin (jar n : Nat)
  | done (jar n : Nat)

structure HttpSt where
  st : SState := {}
  detail : Bool := false
  mode : String := "seq"
  orc : Oracle := {}
  temps : Nat := 0
  gens : Nat := 0
  salt : Nat := 0
  events : List HEvent := []                      -- newest first
  resps : List (Nat × String) := []               -- (jar, rendered response), newest first
  used : List (Nat × String) := []                -- (jar, account name it used), for `alone`
  -- memo tables of the C16 monitors (per case): parsed code, specification answers, model results
  condC : List (String × Except Err (List String × List Fm)) := []
  specC : List (String × String) := []
  resC : List (String × Option SRes) := []

def HttpSt.env (h : HttpSt) : Env String SHash SAdf SRes := mkEnv h.detail h.orc

def HttpSt.fresh (mode : String) : HttpSt :=
  { detail := mode == "c16" || mode == "d9b", mode := mode }

/-- account names a request mentions -/
def reqNames : Req String → List String
  | .register u _ _ => [u] | .login u _ => [u] | .update u _ _ => [u] | _ => []

def applyEvent (E : Env String SHash SAdf SRes) (st : SState) : HEvent → SState × Option SResp
  | .req rq => let o := step E st rq; (o.1, some o.2)
  | .nf _ => (st, none)
  | .fin j n => ((stepEv E st (.finish j n)).1, none)
  | .done j n => ((stepEv E (stepEv E st (.finish j n)).1 (.write j n)).1, none)

/-- status, cookie event and (empty) body of the router's 404 -/
def notFoundText : String := "404 - "

/-- the responses jar `j` would get if only its own events happened -/
def aloneRun (h : HttpSt) (j : Nat) : List String :=
  let evs := h.events.reverse.filter (fun e => match e with
    | .req rq => rq.jar == j | .nf k => k == j | .fin k _ => k == j | .done k _ => k == j)
  let r := evs.foldl (fun (acc : SState × List String) e =>
    let o := applyEvent h.env acc.1 e
    (o.1, match e, o.2 with
      | .nf _, _ => acc.2 ++ [notFoundText]
      | _, some r => acc.2 ++ [respText h.detail r]
      | _, none => acc.2)) (({} : SState), [])
  r.2

def disjointNames (h : HttpSt) (j : Nat) : Bool :=
  let mine := (h.used.filter (fun x => x.1 == j)).map (·.2)
  let others := (h.used.filter (fun x => x.1 != j)).map (·.2)
  mine.all (fun n => !others.contains n)

/-! ### monitors on data carried by the request line -/

def checkUsersField (w : String) : Option String :=
  if w == "-" then none else
  let items := w.splitOn ","
  let names := items.map (fun it => (it.splitOn ":").headD "")
  match items.find? (fun it => match it.splitOn ":" with
      | [_, c] => !(c == "argon2" || c == "null")
      | _ => true) with
  | some bad => some s!"credential {bad}"
  | none => if names.eraseDups.length != names.length then some "duplicate-username" else none

def checkIsoItem (it : String) : Bool :=
  match it.splitOn "/" with
  | ["c", _kind, u, cands] => u != "-" && (cands.splitOn "+").contains u
  | ["r", actor, got, own] =>
    let g := if got == "-" then [] else got.splitOn ","
    let o := if own == "-" then [] else own.splitOn ","
    (actor != "-" || g.isEmpty) && g.all (fun x => o.contains x)
  | _ => false

/-- `login_iff` at run time: replay the credential events (successful register / update / delete, every
login attempt) and check that a login succeeded iff the password is the one most recently set -/
def checkLogins (items : List String) : Option String :=
  let set := fun (g : List (String × String)) (u p : String) => (u, p) :: g.filter (fun x => x.1 != u)
  let del := fun (g : List (String × String)) (u : String) => g.filter (fun x => x.1 != u)
  let r := items.foldl (fun (acc : List (String × String) × Option String) it =>
    match acc.2 with
    | some _ => acc
    | none =>
      match it.splitOn ":" with
      | ["R", u, p] => (set acc.1 u p, none)
      | ["U", old, u, p] => (set (del acc.1 old) u p, none)
      | ["D", u] => (del acc.1 u, none)
      | ["L", u, p, st] =>
        if (st == "200") == (lookupS u acc.1 == some p) then acc else (acc.1, some it)
      | _ => (acc.1, some it)) ([], none)
  r.2

def fieldOf (ws : List String) (k : String) : Option String :=
  (ws.find? (fun w => w.startsWith (k ++ "="))).map (fun w => (w.drop (k.length + 1)).toString)

def parseObs (w : String) : Option (Option Err) :=
  if w == "Some" then some none
  else if w == "Error:parse" then some (some .parseError)
  else if w == "Error:panic" then some (some .panic)
  else if w == "Error:timeout" then some (some .timeout)
  else none

def inputKey : TaskInput String SAdf → String
  | .parse code p => parseKey p code
  | .solve a s => solveKey a s

/-- the answer the algorithmic model gives for a stored ADF and an `acs_per_strategy` key -/
def resultOf (a : SAdf) (key : String) : Option SRes :=
  if key == "parse_only" then some [⟨a.ac, graphOf a.names a.nodes a.ac⟩]
  else match allStrategies.find? (fun s => stratKey s == key) with
    | some s => (match solveAdf a s with | .ok r => some r | .error _ => none)
    | none => none

/-- `parse_error_reported` at run time: an error is stored iff the code does not parse or its
compilation panics, and a stored ADF denotes the code -/
def parseSpec (code : String) (obs : Option String) (adf : Option SAdf) : String :=
  match parseOutcome code, obs, adf with
  | .error e, some o, _ => if o == "Error:" ++ errName e then "ok" else s!"violated expected Error:{errName e}"
  | .ok _, some "Some", some a => storedAdfOK' code a
  | .ok _, _, _ => "violated valid-code-not-stored"
  | _, none, _ => "bad-request"

def writeText (detail : Bool) : Write SAdf SRes → String
  | .parsed _ po => oweText detail po
  | .solved _ r => oweText detail r

/-- the four stable strategies share one specification answer -/
def specClass (key : String) : String :=
  if key == "parse_only" || key == "ground" || key == "complete" then key else "stable"

def HttpSt.cond (h : HttpSt) (cw code : String) : Except Err (List String × List Fm) × HttpSt :=
  match lookupS cw h.condC with
  | some c => (c, h)
  | none => let c := conditions code; (c, { h with condC := (cw, c) :: h.condC })

def HttpSt.spec (h : HttpSt) (cw code key : String) : String × HttpSt :=
  let k := cw ++ "|" ++ specClass key
  match lookupS k h.specC with
  | some r => (r, h)
  | none =>
    let (c, h1) := h.cond cw code
    let r := specAnswerC c key
    (r, { h1 with specC := (k, r) :: h1.specC })

def HttpSt.res (h : HttpSt) (tw : String) (a : SAdf) (key : String) : Option SRes × HttpSt :=
  let k := tw ++ "|" ++ key
  match lookupS k h.resC with
  | some r => (r, h)
  | none => let r := resultOf a key; (r, { h with resC := (k, r) :: h.resC })

/-- returns the lines to print and the new state, or `none` if the request is not of this family -/
def httpStep (h : HttpSt) (l : String) (ws : List String) : Option (List String × HttpSt) :=
  match ws with
  | "case" :: name :: rest =>
    if name.startsWith "web-" then
      let mode := ((rest.find? (fun w => w.startsWith "mode=")).map (fun w => (w.drop 5).toString)).getD "seq"
      some ([l], HttpSt.fresh mode)
    else none
  | ["http", jw, method, path, fw] =>
    match parseJar jw, parseFields fw with
    | some j, some fs =>
      let tu := s!"~t{h.temps + 1}"
      let pu := s!"~p{h.gens + 1}"
      match parseReq method path fs h.salt tu pu with
      | .bad => some ([l, "= bad-request"], h)
      | .notFound =>
        some ([l, "= " ++ notFoundText],
          { h with salt := h.salt + 1, events := .nf j :: h.events, resps := (j, notFoundText) :: h.resps })
      | .req rq =>
        let o := step h.env h.st ⟨j, rq⟩
        let txt := respText h.detail o.2
        let madeTemp := match o.2.cookie, rq with
          | .login u, .add .. => u == tu
          | _, _ => false
        let usedGen := match rq with
          | .add n .. => n == "" && o.2.status == 200
          | _ => false
        let used := (reqNames rq).map (fun n => (j, n)) ++ (if madeTemp then [(j, tu)] else [])
        some ([l, "= " ++ txt],
          { h with st := o.1, salt := h.salt + 1, temps := if madeTemp then h.temps + 1 else h.temps,
                   gens := if usedGen then h.gens + 1 else h.gens,
                   events := .req ⟨j, rq⟩ :: h.events, resps := (j, txt) :: h.resps, used := used ++ h.used })
    | _, _ => some ([l, "= bad-request"], h)
  | "taskfin" :: jw :: nw :: _ =>
    match parseJar jw, nw.toNat? with
    | some j, some n =>
      some ([l], { h with st := (stepEv h.env h.st (.finish j n)).1, events := .fin j n :: h.events })
    | _, _ => some ([l, "= bad-request"], h)
  | "taskdone" :: jw :: nw :: _task :: rest =>
    match parseJar jw, nw.toNat? with
    | some j, some n =>
      match nthOf j n h.st.db.tasks with
      | none => some ([l, "= no-such-task"], h)
      | some t =>
        -- opaque mode: adopt the observed outcome class; detail mode: adopt the hybrid table
        let orc := if h.detail then
            match fieldOf rest "adf", t.input with
            | some hw, .parse code .hybrid =>
              match parseAdfText (parseKey .hybrid code) hw with
              | some a => { h.orc with hyb := (parseKey .hybrid code, a) :: h.orc.hyb }
              | none => h.orc
            | _, _ => h.orc
          else
            match (fieldOf rest "obs").bind parseObs with
            | some c => { h.orc with cls := (inputKey t.input, c) :: h.orc.cls }
            | none => h.orc
        let h1 := { h with orc := orc }
        let exists_ := h1.st.db.problems.any (isProb t.username t.name)
        let w := taskWrite h1.env t.input
        let st' := (applyEvent h1.env h1.st (.done j n)).1
        let spec := if h.detail then
            match t.input with
            | .parse code _ => [s!"~ {parseSpec code (fieldOf rest "obs") ((fieldOf rest "adf").bind (parseAdfText ""))}"]
            | _ => []
          else []
        some ([l, s!"= {if exists_ then "written" else "nodoc"} {writeText h.detail w}"] ++ spec,
              { h1 with st := st', events := .done j n :: h.events })
    | _, _ => some ([l, "= bad-request"], h)
  | "dbcheck" :: uw :: _ =>
    let given := (l.drop 8).toString
    let mine := dumpText h.detail h.st.db
    let inv := checkUsersField ((uw.drop 6).toString)
    match inv with
    | some bad => some ([l, s!"~ violated {bad}"], h)
    | none =>
      if h.mode == "conc" || given == mine then some ([l, "~ ok"], h)
      else some ([l, s!"~ violated database differs from the model: {mine}"], h)
  | "isolation" :: items =>
    let items := items.filter (fun w => w != "-" && w != "")
    match items.find? (fun it => !checkIsoItem it) with
    | none => some ([l, "~ ok"], h)
    | some bad => some ([l, s!"~ violated {bad}"], h)
  | ["addrace", _name] =>
    -- specification (scenario of mode d14): of two overlapping adds of one (user, name) exactly one is accepted
    -- and exactly one document carries that key (what every sequential order of the two requests gives:
    -- C17.atomic_is_sequential_schedule; the interleaving that breaks it: C17.add_race_duplicate)
    some ([l, "~ accepted=1 documents=1 code-and-picture-agree=1"], h)
  | ["stored", _key] =>
    -- specification (scenario of mode d9c): an accepted solve of a problem that still exists yields a stored result
    some ([l, "~ Some"], h)
  | ["runcheck", task, lw] =>
    -- `running_cleared` at run time: the ended task is not among the running tasks shown
    if (splitOnNE lw ",").contains task then some ([l, "~ violated still-running"], h) else some ([l, "~ ok"], h)
  | "logins" :: items =>
    match checkLogins (items.filter (fun w => w != "-" && w != "")) with
    | none => some ([l, "~ ok"], h)
    | some bad => some ([l, s!"~ violated {bad}"], h)
  | ["alone", jw] =>
    match parseJar jw with
    | some j =>
      if disjointNames h j then
        let ds := (aloneRun h j).map fnv64
        some ([l, "~ " ++ (if ds.isEmpty then "-" else joinWith "," ds)], h)
      else some ([l, "~ n/a"], h)
    | none => some ([l, "~ bad-request"], h)
  | ["alone!", jw] =>
    match parseJar jw with
    | some j =>
      let ds := (aloneRun h j).map fnv64
      some ([l, "~ " ++ (if ds.isEmpty then "-" else joinWith "," ds)], h)
    | none => some ([l, "~ bad-request"], h)
  | ["result", key, cw, tw] =>
    match unhex cw, parseAdfText "" tw with
    | some code, some a =>
      let (res, h1) := h.res tw a key
      match res with
      | some r =>
        let eq := if h.mode == "d9b" then [] else ["= " ++ dashIfEmpty (joinWith ";" (sortStrs (r.map (fun x => showAc x.ac))))]
        let (sp, h2) := h1.spec cw code key
        some ([l] ++ eq ++ ["~ " ++ sp], h2)
      | none => some ([l, "= bad-request", "~ bad-request"], h1)
    | _, _ => some ([l, "= bad-request", "~ bad-request"], h)
  | ["graphcheck", key, cw, tw, acw, gw] =>
    match unhex cw, parseAdfText "" tw, parseNatList acw ",", parseGraphText gw with
    | some code, some a, some ac, some g =>
      let (res, h1) := h.res tw a key
      let mine := match res.bind (fun r => r.find? (fun x => x.ac == ac)) with
        | some x => fnv64 (graphText x.graph)
        | none => "no-such-model"
      let (c, h2) := h1.cond cw code
      some ([l] ++ (if h.mode == "d9b" then [] else ["= " ++ mine]) ++ ["~ " ++ graphOKC c a ac g], h2)
    | _, _, _, _ => some ([l, "= bad-request", "~ bad-request"], h)
  | _ => none

end Drv
