import AdfObdd.Drv.Common
import AdfObdd.Drv.DepsSet
import AdfObdd.Spec.TT
import AdfObdd.OpsModel
import AdfObdd.CountsDef
import AdfObdd.Cubes
import AdfObdd.WfCheckFast
import AdfObdd.MemoCheck
/-! protocol handler of the diagram-store family: the algorithmic model (`= …` answers) is the
    proved `Store`; the specification (`~ …` answers) is the truth-table layer `TT`. -/
namespace Drv

structure BddSt where
  s : Store := Store.init
  hist : Array Nat := #[0, 1]        -- history index ↦ model handle
  tts : Array Nat := #[0, 0]         -- history index ↦ specification truth table
  nv : Nat := 0
  exception : Bool := false          -- adhoccounting without adhoccountmodels
  /-- sampled mode (`newbig`): the specification follows the functions on the sub-cube in which
  the listed free variables range and every other variable has its bit of the base assignment -/
  big : Option (Nat × List Nat) := none

def BddSt.fresh (nv : Nat) (exc : Bool) : BddSt :=
  { s := Store.init, hist := #[0, 1], tts := #[0, TT.mask nv], nv := nv, exception := exc }

def BddSt.h (b : BddSt) (w : String) : Option Nat := do b.hist[← parseIdx w]?
def BddSt.tt (b : BddSt) (w : String) : Option Nat := do b.tts[← parseIdx w]?

/-- a request line as an operation of `OpsModel` (operands must be issued history positions) -/
def parseOp (len : Nat) (ws : List String) : Option Op :=
  let ix := fun (w : String) => (parseIdx w).bind (fun k => if k < len then some k else none)
  match ws with
  | ["var", v] => v.toNat?.map Op.var
  | ["const", c] => some (Op.const (c == "1"))
  | ["not", a] => (ix a).map Op.not
  | ["and", x, y] => do pure (Op.and (← ix x) (← ix y))
  | ["or", x, y] => do pure (Op.or (← ix x) (← ix y))
  | ["imp", x, y] => do pure (Op.imp (← ix x) (← ix y))
  | ["iff", x, y] => do pure (Op.iff (← ix x) (← ix y))
  | ["xor", x, y] => do pure (Op.xor (← ix x) (← ix y))
  | ["restrict", t, v, c] => do pure (Op.restrict (← ix t) (← v.toNat?) (c == "1"))
  | _ => none

/-- the specification side of an operation: `semOp` on truth tables -/
def ttOp (nv : Nat) (tts : Array Nat) : Op → Nat
  | .var v => TT.var nv v
  | .const c => TT.const nv c
  | .not a => TT.not nv (tts.getD a 0)
  | .and x y => TT.and (tts.getD x 0) (tts.getD y 0)
  | .or x y => TT.or (tts.getD x 0) (tts.getD y 0)
  | .imp x y => TT.imp nv (tts.getD x 0) (tts.getD y 0)
  | .iff x y => TT.iff nv (tts.getD x 0) (tts.getD y 0)
  | .xor x y => TT.xor (tts.getD x 0) (tts.getD y 0)
  | .restrict t v c => TT.restrict nv (tts.getD t 0) v c

/-- the specification side in sampled mode: the same Boolean semantics, read on the sub-cube
(`none`: the operation leaves the sub-cube; the generator never issues such a request) -/
def ttOpBig (base : Nat) (free : List Nat) (tts : Array Nat) : Op → Option Nat
  | .var v => some (match free.idxOf? v with
      | some j => TT.var free.length j
      | none => TT.const free.length (base.testBit v))
  | .restrict t v c => match free.idxOf? v with
      | some j => some (TT.restrict free.length (tts.getD t 0) j c)
      | none => if base.testBit v == c then some (tts.getD t 0) else none
  | op => some (ttOp free.length tts op)

/-- one diagram-building operation: the proved `stepOp` on the model store, `ttOp` on the specification -/
def bddOp (b : BddSt) (ws : List String) : Option (Op × Nat) :=
  match parseOp b.hist.size ws with
  | none => none
  | some op =>
    (match b.big with
      | some (base, free) => ttOpBig base free b.tts op
      | none => some (ttOp b.nv b.tts op)).map (fun tt => (op, tt))

/-- a diagram-building request. The store is taken OUT of the state before the operation runs, so
that the compiled driver updates its tables in place (a shared store is copied on every insertion). -/
def bddOpStep (b : BddSt) (l : String) (ws : List String) : List String × BddSt :=
  match bddOp b ws with
  | none => ([l, "= bad-request", "~ bad-request"], { b with hist := b.hist.push 0, tts := b.tts.push 0 })
  | some (op, tt) =>
    let hist := b.hist.toList
    let s0 := b.s
    let b := { b with s := Store.init }
    let r := stepOp s0 hist op
    ([l, s!"= {r.2}", s!"~ {tt}"], { b with s := r.1, hist := b.hist.push r.2, tts := b.tts.push tt })

def showDeps (xs : List Nat) : String := "[" ++ showNats "," (sortDedup xs) ++ "]"
/-- `showDeps (depsOf s t)`; `depsSorted` is compiled to the memoised dependency set -/
def showDepsOf (s : Store) (t : Nat) : String := "[" ++ showNats "," (depsSorted s t) ++ "]"
theorem showDepsOf_eq (s : Store) (t : Nat) : showDepsOf s t = showDeps (depsOf s t) := rfl

def bddQuery (b : BddSt) (w : String) : Option (String × String) := do
  let t ← b.h w
  let tt ← b.tt w
  let p := paths b.s t
  let c := countF b.s (t + 1) t
  let mm := if b.exception then "- -" else s!"{c.1} {c.2.1}"
  let deps := showDepsOf b.s t
  let eq := s!"paths {p.1} {p.2} pathsmemo {p.1} {p.2} models {c.1} {c.2.1} modelsmemo {mm} depth {c.2.2} deps {deps} more {boolBit (decide (c.2.1 ≥ c.1))}"
  -- sampled mode: no full truth tables (`nv` may be huge), the counts are compared with the model only
  if b.big.isSome then pure (eq, "skipped") else
  let sp := TT.paths b.nv tt
  let sat := TT.sat b.nv tt
  let unsat := TT.unsat b.nv tt
  let satmemo := if b.exception then "- -" else s!"{unsat} {sat}"
  let spec := s!"sat {unsat} {sat} satmemo {satmemo} pathsmemo {sp.1} {sp.2} paths {sp.1} {sp.2} depth {TT.depth b.nv tt} deps {showDeps (TT.deps b.nv tt)} more {boolBit (decide (sat ≥ unsat))}"
  pure (eq, spec)

def showCube (c : PCube) : String := showNats "," c.1 ++ "/" ++ showNats "," c.2
def parseCube (w : String) : Option PCube :=
  match w.splitOn "/" with
  | [n, p] => do pure (← parseNatList n ",", ← parseNatList p ",")
  | _ => none

/-- every memo / bookkeeping entry of the implementation, audited against the Boolean
    functions of the implementation's own node table -/
def memoCheck (nv : Nat) (exc : Bool) (table : Array Node) (ws : List String) : String := Id.run do
  -- truth table of every node of the given table, children first
  let mut tt : Array Nat := #[]
  for i in [0:table.size] do
    let n := table.getD i ⟨0, 0, 0⟩
    if i == 0 then tt := tt.push 0
    else if i == 1 then tt := tt.push (TT.mask nv)
    else tt := tt.push (TT.ite nv (TT.var nv n.var) (tt.getD n.hi 0) (tt.getD n.lo 0))
  let field := fun (k : String) => (ws.find? (fun w => w.startsWith (k ++ "="))).map (fun w => (w.drop (k.length + 1)).toString)
  let rows := fun (k : String) => ((field k).map (fun f => splitOnNE f ";")).getD []
  let nums := fun (r : String) => (r.splitOn ",").map (fun x => x.toNat?.getD 0)
  -- unique table: exact
  let u := rows "uniq"
  if u.length + 2 != table.size then return s!"bad uniq-size {u.length} {table.size}"
  for r in u do
    match nums r with
    | [v, lo, hi, t] =>
      if t < 2 || table[t]? != some ⟨v, lo, hi⟩ then return s!"bad uniq {r}"
    | _ => return s!"bad uniq-row {r}"
  for r in rows "ite" do
    match nums r with
    | [i, t, e, x] =>
      if i ≥ table.size || t ≥ table.size || e ≥ table.size || x ≥ table.size then return s!"bad ite-range {r}"
      if tt[x]! != TT.ite nv tt[i]! tt[t]! tt[e]! then return s!"bad ite {r}"
    | _ => return s!"bad ite-row {r}"
  for r in rows "res" do
    match nums r with
    | [t, v, b, x] =>
      if t ≥ table.size || x ≥ table.size then return s!"bad res-range {r}"
      if tt[x]! != TT.restrict nv tt[t]! v (b == 1) then return s!"bad res {r}"
    | _ => return s!"bad res-row {r}"
  for r in rows "cnt" do
    match nums r with
    | [t, cm, m, pcm, pm, d] =>
      if t ≥ table.size then return s!"bad cnt-range {r}"
      let f := tt[t]!
      if (pcm, pm) != TT.paths nv f then return s!"bad cnt-paths {r}"
      if d != TT.depth nv f then return s!"bad cnt-depth {r}"
      if !exc then
        if d > nv then return s!"bad cnt-depth-range {r}"
        if m * 2 ^ (nv - d) != TT.sat nv f || cm * 2 ^ (nv - d) != TT.unsat nv f then return s!"bad cnt-models {r}"
    | _ => return s!"bad cnt-row {r}"
  match field "deps" with
  | some "off" => pure ()
  | some f =>
    let ds := if f == "-" then [] else f.splitOn ";"
    if ds.length != table.size then return s!"bad deps-size {ds.length} {table.size}"
    for (d, i) in ds.zipIdx do
      let got := (parseNatList d ",").getD []
      if got != TT.deps nv tt[i]! then return s!"bad deps {i} {d}"
  | none => return "bad deps-missing"
  return "ok"

/-- returns the lines to print and the new state, or `none` if the request is not of this family -/
def bddStep (b : BddSt) (l : String) (ws : List String) : Option (List String × BddSt) :=
  match ws with
  | ["new", nv] => some ([l], BddSt.fresh (nv.toNat?.getD 0) b.exception)
  | ["newbig", nv, base, free] =>
    match nv.toNat?, base.toNat?, parseNatList free "," with
    | some nv, some base, some free =>
      if free.length ≤ 7 && free.Nodup && free.all (· < nv) then
        -- (not via `BddSt.fresh nv`: the full truth-table mask of `nv` variables is astronomically large here)
        some ([l], { s := Store.init, hist := #[0, 1], tts := #[0, TT.mask free.length], nv := nv,
                     exception := b.exception, big := some (base, free) })
      else some ([l, "= bad-request"], b)
    | _, _, _ => some ([l, "= bad-request"], b)
  | "var" :: _ | "const" :: _ | "not" :: _ | "and" :: _ | "or" :: _ | "imp" :: _ | "iff" :: _ | "xor" :: _
  | "restrict" :: _ =>
    some (bddOpStep b l ws)
  | ["q", w] =>
    match bddQuery b w with
    | some (e, s) => some ([l, s!"= {e}", if b.big.isSome then "~ skipped" else s!"~ {s}"], b)
    | none => some ([l, "= bad-request", "~ bad-request"], b)
  | ["cubes", w, g, gv] =>
    match b.h w, gv.toNat? with
    | some t, some gv =>
      let cs := cubesF b.s (t + 1) t (g == "1") gv [] []
      let r := if cs.isEmpty then "-" else joinWith ";" (cs.map showCube)
      some ([l, s!"= {r}"], b)
    | _, _ => some ([l, "= bad-request"], b)
  | ["cubecheck", w, g, gv, cs] =>
    match b.tt w, gv.toNat?, (splitOnNE cs ";").mapM parseCube with
    | some tt, some gv, some cubes =>
      some ([l, if TT.cubesOK b.nv tt (g == "1") gv cubes then "~ ok" else "~ violated"], b)
    | _, _, _ => some ([l, "~ bad-request"], b)
  | "impact" :: v :: ts =>
    match v.toNat?, ts.mapM b.h, ts.mapM b.tt with
    | some v, some hs, some tts =>
      let p := passive b.s v hs
      let a := active b.s v hs
      let sp := (tts.filter (fun t => TT.essential b.nv t v)).length
      let sa := ((List.range tts.length).filter (fun i => TT.essential b.nv (tts.getD v 0) i)).length
      some ([l, s!"= {p} {a}", s!"~ {sp} {sa}"], b)
    | _, _, _ => some ([l, "= bad-request", "~ bad-request"], b)
  -- conjunction of k variables: one model, 2^k - 1 counter-models, k paths to ⊥, one to ⊤, depth k
  | ["qdeep", k] =>
    match k.toNat? with
    | some k =>
      -- near tie: `x0 ∧ ¬(x1 ∧ … ∧ x_{k-1})` has 2^(k-1) - 1 models (fewer than counter-models) for k ≥ 2,
      -- its negation 2^(k-1) + 1 (more); for k = 2 the first function is x0 ∧ ¬x1: 1 model, 3 counter-models
      let nt := if 2 ≤ k && k ≤ 64 then "0 1" else "- -"
      some ([l, s!"~ models {2 ^ k - 1} 1 paths {k} 1 depth {k} neartie-more {nt}"], b)
    | none => some ([l, "~ bad-request"], b)
  | ["dump"] => some ([l, s!"= {dumpTable b.s.nodes}"], b)
  | ["wfcheck", t] =>
    match parseTable t with
    | some ns => some ([l, s!"~ {wfCheckFast ns}"], b)
    | none => some ([l, "~ bad-request"], b)
  | ["alltt"] => some ([l, "~ " ++ showNats "," b.tts.toList], b)
  | ["classes"] =>
    some ([l, "~ " ++ joinWith "|" ((TT.classes b.tts.toList).map (showNats ","))], b)
  | "memocheck" :: t :: rest =>
    match parseTable t with
    -- the verdict comes from the VERIFIED checker (C11.memo_audit_sound); the older function only words a negative verdict
    | some ns => some ([l, s!"= audit {MemoCheck.verdict b.nv b.exception ns rest (fun _ => memoCheck b.nv b.exception ns rest)}"], b)
    | none => some ([l, "= bad-request"], b)
  | _ => none

/-- `bddStep` that always hands the state back (so that the caller need not keep a second reference) -/
def bddStepL (b : BddSt) (l : String) (ws : List String) : Option (List String) × BddSt :=
  match ws with
  | "var" :: _ | "const" :: _ | "not" :: _ | "and" :: _ | "or" :: _ | "imp" :: _ | "iff" :: _ | "xor" :: _
  | "restrict" :: _ => let r := bddOpStep b l ws; (some r.1, r.2)
  | _ =>
    match bddStep b l ws with
    | some (out, b') => (some out, b')
    | none => (none, b)

end Drv
