import AdfObdd.Drv.Common
import AdfObdd.NgStore
import AdfObdd.Spec.Ng
import AdfObdd.Spec.NgWide
/-! protocol handler of the nogood-store family (C18).

    requests                          answers
    `ngnew N`                         —
    `ngmode None|Equiv|Subsume`       —
    `ngadd <vec>`                     `= ok`
    `ngconcl <vec>`                   `= conflict` | `= <vec> <update flag>`
    `ngchain <vec>`                   `= <answer 1> ; <answer 2> ; …` — `conclusions` fed with the OBJECT it
                                      returned, at most 3 steps, until conflict / nothing new; answers as for `ngconcl`
    `ngclosure <vec>`                 `= inconsistent` | `= noupdate` | `= update <vec>`
    `ngdump`                          `= [bucket0|bucket1|…]` (nogoods of a bucket separated by `,`)
    `ngfinish`                        —
    `nogoodcheck store <dump>`        `~ ok` | `~ violated <clauses>`
    `nogoodcheck concl <vec> <answer of the implementation>`      likewise
    `nogoodcheck closure <vec> <answer of the implementation>`    likewise

    `<vec>` = one of `T`, `F`, `u` per variable, `-` for the vector of width 0.
    `= …` comes from the algorithmic model (`NgStore`: the three-mode `add_ng`, the line-by-line
    `conclusions` and `conclusion_closure`); `~ …` from the executable specification `NgSpec`,
    which only knows the flat list of added nogoods and judges the IMPLEMENTATION's answer that
    the harness put into the `nogoodcheck` request. Stores of up to 10 variables are judged by the
    brute-force specification (`Spec/Ng.lean`, all `2^n` total assignments), wider ones (up to 160
    variables) by the search-based one (`Spec/NgWide.lean`), proved to give the same verdicts
    (`NgWideFacts.lean`). -/
namespace Drv

structure NgStoreSt where
  n : Nat := 0
  st : NgStore := NgStore.new 0
  added : List PA := []            -- all the specification knows

def ngParseVec (w : String) : Option PA :=
  if w == "-" then some [] else
  w.toList.mapM (fun c => if c == 'T' then some (some true) else if c == 'F' then some (some false)
                          else if c == 'u' then some none else none)

def ngShowVec (p : PA) : String :=
  if p.isEmpty then "-" else
  String.ofList (p.map (fun x => match x with | some true => 'T' | some false => 'F' | none => 'u'))

def ngParseMode (w : String) : Option DupMode :=
  if w == "None" then some .none else if w == "Equiv" then some .equiv
  else if w == "Subsume" then some .subsume else none

def ngShowDump (bs : List (List PA)) : String :=
  "[" ++ joinWith "|" (bs.map (fun b => joinWith "," (b.map ngShowVec))) ++ "]"

def ngParseDump (w : String) : Option (List (List PA)) :=
  if !(w.startsWith "[" && w.endsWith "]") then none else
  let inner := ((w.drop 1).dropEnd 1).toString
  (inner.splitOn "|").mapM (fun b => if b.isEmpty then some [] else (b.splitOn ",").mapM ngParseVec)

def ngShowViolations (vs : List String) : String :=
  if vs.isEmpty then "~ ok" else "~ violated " ++ joinWith "," vs

/-- clauses that belong to the closure's contract with the nogood SEARCH (C05: unit flip, progress,
flag) rather than to property C18 as stated; they are reported on the correspondence channel -/
def ngContractClauses : List String :=
  ["missed-unit-flip", "update-without-progress", "result-matches-a-nogood", "wrong-update-flag"]

/-- two answer lines: `~` = the clauses of C18, `=` = the search contract -/
def ngVerdictLines (vs : List String) : List String :=
  let prop := vs.filter (fun v => !ngContractClauses.contains v)
  let extra := vs.filter (fun v => ngContractClauses.contains v)
  [ngShowViolations prop, if extra.isEmpty then "= contract ok" else "= contract violated " ++ joinWith "," extra]

/-- the vector of width `n`, if the word is one -/
def NgStoreSt.vec (s : NgStoreSt) (w : String) : Option PA :=
  (ngParseVec w).bind (fun v => if v.length == s.n then some v else none)

/-- widest store the brute-force specification is used for -/
def ngBruteMax : Nat := 10

def NgStoreSt.conclViolations (s : NgStoreSt) (a : PA) (x : Option PA) : List String :=
  if s.n ≤ ngBruteMax then NgSpec.conclViolations s.n s.added a x else NgSpec.conclViolationsW s.n s.added a x

def NgStoreSt.closureViolations (s : NgStoreSt) (a : PA) (x : NgSpec.ClosureAns) : List String :=
  if s.n ≤ ngBruteMax then NgSpec.closureViolations s.n s.added a x else NgSpec.closureViolationsW s.n s.added a x

def NgStoreSt.storeViolations (s : NgStoreSt) (stored : List PA) : List String :=
  if s.n ≤ ngBruteMax then NgSpec.storeViolations s.n s.added stored else NgSpec.storeViolationsW s.n s.added stored

/-- `ngchain`: `conclusions` applied to the interpretation and then to the object it returned, at
most `k` times, until a conflict or an answer that decides nothing new -/
def ngChain (st : NgStore) : Nat → PA → List String
  | 0, _ => []
  | k+1, a =>
    match st.conclusions a with
    | none => ["conflict"]
    | some r =>
      let u := updateVec r a
      s!"{ngShowVec u.1} {boolBit u.2}" :: (if u.2 then ngChain st k r else [])

def ngStep (s : NgStoreSt) (l : String) (ws : List String) : Option (List String × NgStoreSt) :=
  match ws with
  | ["ngnew", n] =>
    match n.toNat? with
    | some n => if n ≤ 160 then some ([l], { n := n, st := NgStore.new n, added := [] })
                else some ([l, "= bad-request"], s)
    | none => some ([l, "= bad-request"], s)
  | ["ngmode", m] =>
    match ngParseMode m with
    | some m => some ([l], { s with st := s.st.setMode m })
    | none => some ([l, "= bad-request"], s)
  | ["ngadd", v] =>
    match s.vec v with
    | some g => some ([l, "= ok"], { s with st := s.st.addNg g, added := s.added ++ [g] })
    | none => some ([l, "= bad-request"], s)
  | ["ngconcl", v] =>
    match s.vec v with
    | some a =>
      match s.st.conclusions a with
      | none => some ([l, "= conflict"], s)
      | some r =>
        let u := updateVec r a
        some ([l, s!"= {ngShowVec u.1} {boolBit u.2}"], s)
    | none => some ([l, "= bad-request"], s)
  | ["ngchain", v] =>
    match s.vec v with
    | some a => some ([l, "= " ++ joinWith " ; " (ngChain s.st 3 a)], s)
    | none => some ([l, "= bad-request"], s)
  | ["ngclosure", v] =>
    match s.vec v with
    | some a =>
      match s.st.closure a with
      | Closure.inconsistent => some ([l, "= inconsistent"], s)
      | Closure.noUpdate => some ([l, "= noupdate"], s)
      | Closure.update r => some ([l, s!"= update {ngShowVec r}"], s)
    | none => some ([l, "= bad-request"], s)
  | ["ngdump"] => some ([l, "= " ++ ngShowDump s.st.buckets], s)
  | ["ngfinish"] => some ([l], s)
  | ["nogoodcheck", "store", d] =>
    match ngParseDump d with
    | some bs =>
      if bs.all (fun b => b.all (fun g => g.length == s.n)) then
        some ([l, ngShowViolations (s.storeViolations bs.flatten)], s)
      else some ([l, "~ violated nogood-mentions-variable-beyond-size"], s)
    | none => some ([l, "~ violated " ++ (if d == "panic" then "panic" else "unreadable-dump")], s)
  | "nogoodcheck" :: "concl" :: v :: ans =>
    match s.vec v with
    | some a =>
      let verdict : Option (Option PA × List String) :=
        match ans with
        | ["conflict"] => some (none, [])
        | [r, flag] =>
          -- `update_term_vec`: the flag says whether an undecided position became decided
          (s.vec r).map (fun r => (some r, NgSpec.clause (flag == boolBit (r != a)) "wrong-update-flag"))
        | _ => none
      match verdict with
      | some (x, extra) => some (l :: ngVerdictLines (s.conclViolations a x ++ extra), s)
      | none => some ([l, "~ violated " ++ (if ans == ["panic"] then "panic" else "unreadable-answer")], s)
    | none => some ([l, "~ bad-request"], s)
  | "nogoodcheck" :: "closure" :: v :: ans =>
    match s.vec v with
    | some a =>
      let verdict : Option NgSpec.ClosureAns :=
        match ans with
        | ["inconsistent"] => some .inconsistent
        | ["noupdate"] => some .noUpdate
        | ["update", r] => (s.vec r).map NgSpec.ClosureAns.update
        | _ => none
      match verdict with
      | some x => some (l :: ngVerdictLines (s.closureViolations a x), s)
      | none => some ([l, "~ violated " ++ (if ans == ["panic"] then "panic" else "unreadable-answer")], s)
    | none => some ([l, "~ bad-request"], s)
  | _ => none

end Drv
