import AdfObdd.Drv.Bdd
import AdfObdd.StreamFull
/-! protocol handler of the streaming family (C19).  The model is `StreamF.pstep` (the proved
    event semantics with the proved `Store` as producer).

    snew                      three fresh stores: producer → relay → receiver
    screate <op>              the producer starts a diagram operation (operands `#k` = history
                              positions); its new nodes become pending messages, in creation order
    sdeliver K                = delivered <n>     n = min(K, pending) messages reach the relay's channel
    srelaypoll T | spoll T | sprodpoll T
                              T = absolute handle, `+d` (table length + d) or `-d`
                              = found|notfound t=<T> len=<table length afterwards>
                              ~ prefix=<0|1> foundiff=<0|1>   mirror is a prefix of the producer's
                                                             table / answer ↔ handle present
    sdroprecv                 the final receiver (its store and channel end) is dropped; the relay must keep
                              mirroring; `spoll` is a bad request afterwards, `sdump` shows `V gone`, `recveq=-`
    sjoin                     = hist <all issued handles>
    sdump                     = P <table> R <table> V <table>
                              ~ drained=<0|1> relayeq=<0|1> recveq=<0|1>
    ssoak SEED <ops>          two-thread run of a whole program (`;` between ops, `,` between words)
                              = <final table of all three stores>   ~ soak ok -/
namespace Drv
open StreamF

structure StreamSt where
  p : PSys := PSys.init
  bad : Bool := false
  /-- `sdroprecv`: the final receiver (store and channel end) was dropped; the relay keeps mirroring -/
  recvGone : Bool := false

def resolveTarget (w : String) (len : Nat) : Option Nat :=
  if w.startsWith "+" then (w.drop 1).toString.toNat?.map (len + ·)
  else if w.startsWith "-" then (w.drop 1).toString.toNat?.map (len - ·)
  else w.toNat?

def pollLine (found : Bool) (t len : Nat) : String :=
  s!"= {if found then "found" else "notfound"} t={t} len={len}"

def monitorLine (tbl prod : List Node) (k t : Nat) (found : Bool) : String :=
  s!"~ prefix={boolBit (decide (tbl = prod.take (2 + k)))} foundiff={boolBit (found == decide (t < tbl.length))}"

def streamStep (st : StreamSt) (l : String) (ws : List String) : Option (List String × StreamSt) :=
  match ws with
  | ["snew"] => some ([l], {})
  | "screate" :: opws =>
    match parseOp st.p.hist.length opws with
    | some o => some ([l], { st with p := (pstep st.p (.op o)).1 })
    | none => some ([l], { p := { st.p with hist := st.p.hist ++ [0] }, bad := true })
  | ["sdeliver", k] =>
    match k.toNat? with
    | some k =>
      let n := min k st.p.sys.pend.length
      some ([l, s!"= delivered {n}"], { st with p := (pstep st.p (.ev (.deliver k))).1 })
    | none => some ([l, "= bad-request"], st)
  | ["srelaypoll", t] =>
    match resolveTarget t st.p.sys.relay.length with
    | some t =>
      let r := pstep st.p (.ev (.relayPoll t))
      let s := r.1.sys
      some ([l, pollLine (r.2 == some true) t s.relay.length,
             monitorLine s.relay s.prod s.k1 t (r.2 == some true)], { st with p := r.1 })
    | none => some ([l, "= bad-request", "~ bad-request"], st)
  | ["sdroprecv"] => some ([l], { st with recvGone := true })
  | ["spoll", t] =>
    if st.recvGone then some ([l, "= bad-request", "~ bad-request"], st) else
    match resolveTarget t st.p.sys.recv.length with
    | some t =>
      let r := pstep st.p (.ev (.recvPoll t))
      let s := r.1.sys
      some ([l, pollLine (r.2 == some true) t s.recv.length,
             monitorLine s.recv s.prod s.k2 t (r.2 == some true)], { st with p := r.1 })
    | none => some ([l, "= bad-request", "~ bad-request"], st)
  | ["sprodpoll", t] =>
    match resolveTarget t st.p.sys.prod.length with
    | some t =>
      let r := pstep st.p (.ev (.prodPoll t))
      let s := r.1.sys
      some ([l, pollLine (r.2 == some true) t s.prod.length,
             s!"~ prefix=1 foundiff={boolBit ((r.2 == some true) == decide (t < s.prod.length))}"], { st with p := r.1 })
    | none => some ([l, "= bad-request", "~ bad-request"], st)
  | ["sjoin"] =>
    if st.bad then some ([l, "= bad-request"], st)
    else some ([l, "= hist " ++ showNats " " st.p.hist], st)
  | ["sdump"] =>
    if st.bad then some ([l, "= bad-request", "~ bad-request"], st) else
    let s := st.p.sys
    let drained := s.pend.isEmpty && s.q1.isEmpty && (st.recvGone || s.q2.isEmpty)
    let v := if st.recvGone then "gone" else dumpTable s.recv.toArray
    let recveq := if st.recvGone then "-" else boolBit (decide (s.recv = st.p.st.nodes.toList))
    some ([l, s!"= P {dumpTable st.p.st.nodes} R {dumpTable s.relay.toArray} V {v}",
           s!"~ drained={boolBit drained} relayeq={boolBit (decide (s.relay = st.p.st.nodes.toList))} recveq={recveq}"], st)
  | ["ssoak", _seed, prog] =>
    -- the whole program on a fresh producer; after draining all three tables are this one
    let ops := (splitOnNE prog ";").map (fun o => o.splitOn ",")
    let r := ops.foldl (fun (acc : Option PSys) opws =>
      acc.bind (fun p => (parseOp p.hist.length opws).map (fun o => (pstep p (.op o)).1))) (some PSys.init)
    match r with
    | some p => some ([l, s!"= {dumpTable p.st.nodes}", "~ soak ok"], st)
    | none => some ([l, "= bad-request", "~ bad-request"], st)
  | _ => none

end Drv
