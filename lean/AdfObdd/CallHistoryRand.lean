import AdfObdd.CallHistoryMemoFull
/-! # `Heuristic::Rand` and `Adf::seed` over an ABSTRACT deterministic generator (C11, "same seed")

`lib/src/adf.rs:39-40,159-167`: the object owns `rng : RefCell<StdRng>`, created from entropy
(`StdRng::from_entropy()`: without a call of `seed` two objects built the same way answer Rand searches
differently) and replaced by `seed(&mut self, seed)`; `heu_rand` (`heuristics.rs:80-95`) draws twice per call
(`next_u64() % possible.len()`, then `gen_bool(0.5)`), `possible` being non-empty whenever the loop asks
(`choice` is only set for a vector that is not two-valued).  The generator state therefore advances by two
per heuristic call and persists across searches on the object.

`StdRng` itself (ChaCha12) is NOT modelled.  The model takes an arbitrary function
`G : seed → index of the draw → raw output` (as `SM.Heu.script` does with splitmix) and threads the number of
draws made so far through the object: `RState`.  "Same seed, same call sequence ⇒ same answers in the same
order" is then a statement about every such `G`; the non-trivial content proved here is that the answers do
not depend on the memo contents of the two objects either (`same_seed_same_answers`), i.e. the only inputs
are the node table, `n`, `ac`, the seed and the calls. -/
namespace CallH
open NConc

/-- `heu_rand` over the generator `G`, for an object whose generator was seeded with `seed` and has made
`ctr` draws before this search; `time` = number of earlier heuristic calls of this search -/
def randHeu (G : Nat → Nat → Nat) (seed ctr : Nat) : CHeu := fun _ v time =>
  let u := SM.undecided v
  match u[(G seed (ctr + 2 * time)) % u.length]? with
  | some (i, _) => some (i, (G seed (ctr + 2 * time + 1)) % 2)
  | none => none

/-- it always proposes an undecided statement with a truth value, for every generator -/
theorem randHeu_ok (G : Nat → Nat → Nat) (seed ctr : Nat) : HeuOK (randHeu G seed ctr) := by
  constructor
  · intro s v time i t hc
    simp only [randHeu] at hc
    split at hc
    · rename_i j x hget
      simp only [Option.some.injEq, Prod.mk.injEq] at hc
      obtain ⟨hi, ht⟩ := hc
      subst hi
      have := mem_undecided (List.mem_of_getElem? hget)
      exact ⟨by omega, this.1, x, this.2⟩
    · cases hc
  · intro s v time hc
    apply undecided_nil
    simp only [randHeu] at hc
    split at hc
    · cases hc
    · rename_i hget
      false_or_by_contra
      rename_i hne
      have hpos : 0 < (SM.undecided v).length := List.length_pos_iff.mpr hne
      have hlt := Nat.mod_lt (G seed (ctr + 2 * time)) hpos
      rw [List.getElem?_eq_getElem hlt] at hget; cases hget

/-- the object with its generator: seed and number of draws made -/
structure RState where
  st : AdfState
  seed : Nat
  ctr : Nat

inductive RCall where
  | plain (c : Call)                        -- every call of `Call`
  | seed (k : Nat)                          -- `Adf::seed`
  | rand (fuel : Nat) (stable : Bool)       -- `stable_nogood(Rand)` / `two_val_nogood(Rand)`

def runRCall (G : Nat → Nat → Nat) (r : RState) : RCall → RState × Answer
  | .plain c => ({ r with st := (runCall r.st c).1 }, (runCall r.st c).2)
  | .seed k => ({ r with seed := k, ctr := 0 }, .handles [])
  | .rand fuel stable =>
    let x := cRun (randHeu G r.seed r.ctr) r.st.n r.st.ac stable fuel (initC r.st.s r.st.n r.st.ac)
    ({ st := { r.st with s := x.s }, seed := r.seed, ctr := r.ctr + 2 * x.time },
     if x.done then .ng x.out x.trace else .fuelExhausted)

def runRCalls (G : Nat → Nat → Nat) : RState → List RCall → RState × List Answer
  | r, [] => (r, [])
  | r, c :: cs => let x := runRCall G r c; let xs := runRCalls G x.1 cs; (xs.1, x.2 :: xs.2)

/-- two objects equal up to memo contents, with the same generator state -/
structure REq (r r' : RState) : Prop where
  memo : MemoEq r.st r'.st
  seed : r'.seed = r.seed
  ctr : r'.ctr = r.ctr

/-- the Rand search in lock step on two stores with the same node table -/
theorem randSearch_lock (G : Nat → Nat → Nat) (seed ctr fuel : Nat) (s s' : Store) (n : Nat) (ac : List Nat)
    (stable : Bool) (h : Lk s s') (hv : ∀ a ∈ ac, a < s.nodes.size) :
    let x := cRun (randHeu G seed ctr) n ac stable fuel (initC s n ac)
    let x' := cRun (randHeu G seed ctr) n ac stable fuel (initC s' n ac)
    Lk x.s x'.s ∧ x'.out = x.out ∧ x'.trace = x.trace ∧ x'.done = x.done ∧ x'.time = x.time := by
  intro x x'
  have ⟨a1, e1, v1, d1⟩ := groundedLoop_lock (n + 1) s s' ac h hv
  have hi : initC s' n ac = wS (initC s n ac) (groundedLoop StoreRA (n + 1) s' ac).1 := by
    simp only [initC, d1]
  have hv0 : NV ac (initC s n ac) :=
    ⟨v1, (fun _ hh => by cases hh), fun t ht => Nat.lt_of_lt_of_le (hv t ht) e1.1⟩
  have ⟨r1, r2, _⟩ := cRun_lock (randHeu_ok G seed ctr) (fun _ _ _ _ _ => rfl)
    n ac stable fuel (initC s n ac) _ a1 hv0
  show Lk (cRun (randHeu G seed ctr) n ac stable fuel (initC s n ac)).s
      (cRun (randHeu G seed ctr) n ac stable fuel (initC s' n ac)).s ∧
    (cRun (randHeu G seed ctr) n ac stable fuel (initC s' n ac)).out = _ ∧
    (cRun (randHeu G seed ctr) n ac stable fuel (initC s' n ac)).trace = _ ∧
    (cRun (randHeu G seed ctr) n ac stable fuel (initC s' n ac)).done = _ ∧
    (cRun (randHeu G seed ctr) n ac stable fuel (initC s' n ac)).time = _
  rw [hi]
  generalize cRun (randHeu G seed ctr) n ac stable fuel (wS (initC s n ac) (groundedLoop StoreRA (n + 1) s' ac).1) = y at r1 r2
  refine ⟨r2, ?_, ?_, ?_, ?_⟩ <;> (rw [r1])

theorem runRCall_lock (G : Nat → Nat → Nat) (r r' : RState) (c : RCall) (hi : Inv r.st) (h : REq r r') :
    (runRCall G r' c).2 = (runRCall G r c).2 ∧ REq (runRCall G r c).1 (runRCall G r' c).1 ∧
    Inv (runRCall G r c).1.st := by
  obtain ⟨st, sd, ct⟩ := r
  obtain ⟨st', sd', ct'⟩ := r'
  obtain ⟨hm, hs, hc⟩ := h
  simp only at hm hs hc hi
  subst hs hc
  cases c with
  | plain c =>
    have ⟨a, m⟩ := memo_independent st st' c hi hm
    exact ⟨a, ⟨m, rfl, rfl⟩, (runCall_step st c hi).1⟩
  | seed k => exact ⟨rfl, ⟨hm, rfl, rfl⟩, hi⟩
  | rand fuel stable =>
    obtain ⟨s, n, ac, iss⟩ := st
    obtain ⟨s', n', ac', iss'⟩ := st'
    obtain ⟨lk, hn, hac, his⟩ := hm
    simp only at lk hn hac his
    subst hn hac his
    have ⟨l, o, t, d, tm⟩ := randSearch_lock G sd' ct' fuel s s' n' ac' stable lk hi.ac
    have hst := cState_store (randHeu G sd' ct') (randHeu_ok G sd' ct') s n' ac' stable hi.wf hi.ac hi.len fuel
    refine ⟨?_, ⟨memoEq_store _ _ _ l, rfl, ?_⟩, ?_⟩
    · simp only [runRCall]; rw [o, t, d]
    · simp only [runRCall]; rw [tm]
    · exact (inv_store hi hst.1 hst.2.1).1

/-- **same seed, same call sequence ⇒ same answers in the same order**, for every deterministic generator `G`:
two objects that agree on node table, `n`, `ac`, issued handles (memo contents arbitrary), seed and number of
draws made answer every sequence of calls - `seed`, Rand searches in both modes, and all calls of `Call` -
identically, and end in such a pair again -/
theorem same_seed_same_answers (G : Nat → Nat → Nat) : ∀ (h : List RCall) (r r' : RState), Inv r.st → REq r r' →
    (runRCalls G r' h).2 = (runRCalls G r h).2 ∧ REq (runRCalls G r h).1 (runRCalls G r' h).1 := by
  intro h
  induction h with
  | nil => intro r r' _ hm; exact ⟨rfl, hm⟩
  | cons c cs ih =>
    intro r r' hi hm
    have ⟨a1, m1, i1⟩ := runRCall_lock G r r' c hi hm
    have ⟨a2, m2⟩ := ih _ _ i1 m1
    simp only [runRCalls]
    exact ⟨by rw [a1, a2], m2⟩

/-- every Rand search answers exactly the stable / two-valued models, whatever the generator produces
(`NConc.search_exact_any_heuristic` with `randHeu_ok`) -/
theorem rand_search_exact (G : Nat → Nat → Nat) (seed ctr : Nat) (s : Store) (n : Nat) (ac : List Nat) (stable : Bool)
    (w : WF s) (hn : ac.length = n) (hv : ∀ t ∈ ac, t < s.nodes.size)
    (hsup : stable = false → ∀ t ∈ ac, ∀ σ τ : Asg, (∀ i, i < n → σ i = τ i) → eval s t σ = eval s t τ) :
    ∃ fuel, (cSearch (randHeu G seed ctr) fuel s n ac stable).2.2.2 = true ∧
      (dec (cSearch (randHeu G seed ctr) fuel s n ac stable).2.1).Nodup ∧
      ∀ v : I3, v ∈ dec (cSearch (randHeu G seed ctr) fuel s n ac stable).2.1 ↔ ModelSpec (ac.map (eval s)) n stable v :=
  search_exact_any_heuristic (randHeu G seed ctr) (randHeu_ok G seed ctr) s n ac stable w hn hv hsup

end CallH
