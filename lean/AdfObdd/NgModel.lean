import AdfObdd.AdfModel
import AdfObdd.ClosureFacts
/-! concrete executable model of `Adf::nogood_internal` (heuristic Simple) for the spike -/

def toPA (v : List Nat) : PA := v.map storeIsConst

/-- `update_term_vec` on handles -/
def updateTerms (val : PA) (v : List Nat) : List Nat × Bool :=
  ((List.range v.length).map (fun i => match pget val i with | some b => (if b then 1 else 0) | none => v.getD i 0),
   (List.range v.length).any (fun i => (pget val i).isSome && !isTV (v.getD i 0)))

inductive ClosT where
  | update (v : List Nat) | noUpdate | inconsistent
deriving Inhabited

partial def closureLoopT (buckets : List (List PA)) (r : List Nat) : ClosT :=
  match conclusions buckets (toPA r) with
  | none => ClosT.inconsistent
  | some val =>
    let u := updateTerms val r
    if u.2 then closureLoopT buckets u.1 else ClosT.update u.1

def conclusionClosureT (buckets : List (List PA)) (interp : List Nat) : ClosT :=
  match conclusions buckets (toPA interp) with
  | none => ClosT.inconsistent
  | some val =>
    let u := updateTerms val interp
    if !u.2 then ClosT.noUpdate else closureLoopT buckets u.1

/-- `add_ng` in `Equiv` mode (repaired indexing: bucket `k` holds the nogoods of size `k`, the
empty nogood is stored in bucket 0; `NgStore.addNg` is the three-mode model, `C18.search_addNg_eq`
the tie between the two) -/
def addNg (buckets : List (List PA)) (g : PA) : List (List PA) :=
  let k := size g
  buckets.mapIdx (fun i b => if i == k then (if b.contains g then b else b ++ [g]) else b)

/-- `apply_interpretation(ac, interp)` -/
def applyInterp (s : Store) (interp : List Nat) : List Nat → Store × List Nat
  | [] => (s, [])
  | a :: acs => let r := restrictBy StoreRA s a 0 interp; let m := applyInterp r.1 interp acs; (m.1, r.2 :: m.2)

def stabilityCheck (s : Store) (n : Nat) (ac cand : List Nat) : Store × Bool :=
  let red := mapFalse s cand ac
  let grd := groundedLoop StoreRA (n + 1) red.1 red.2
  (grd.1, (grd.2.zip cand).all (fun (a, b) => sameInfo a b))

def heuSimple (v : List Nat) : Option (Nat × Nat) :=
  (v.zipIdx.find? (fun (t, _) => !isTV t)).map (fun (_, i) => (i, 1))

instance : Inhabited Store := ⟨Store.init⟩

structure NgSt where
  s : Store
  cur : List Nat
  buckets : List (List PA)
  stack : List (Bool × PA)
  hist : List (List Nat)
  backtrack : Bool
  choice : Bool
  out : List (List Nat)
  trace : List (List Nat)
deriving Inhabited

partial def ngLoop (n : Nat) (ac : List Nat) (stable : Bool) (st : NgSt) : NgSt :=
  -- 1. choice
  let st := if st.choice then
      match heuSimple st.cur with
      | some (v, t) =>
        let cur' := st.cur.set v t
        { st with choice := false, hist := st.cur :: st.hist, cur := cur', stack := (true, toPA cur') :: st.stack,
                  trace := st.trace ++ [st.cur] }
      | none => { st with choice := false, backtrack := true }
    else st
  -- 3. backtrack
  if st.backtrack && st.stack.isEmpty then st else
  let st := if st.backtrack then Id.run do
      let mut buckets := st.buckets
      let mut stack := st.stack
      let mut cur := st.cur
      let mut hist := st.hist
      let mut go := true
      while go do
        match stack with
        | [] => go := false
        | (ch, g) :: rest =>
          stack := rest
          buckets := addNg buckets g
          if ch then
            cur := hist.headD cur
            hist := hist.tail
            go := false
      pure { st with backtrack := false, buckets := buckets, stack := stack, cur := cur, hist := hist }
    else st
  -- 4. closure
  match conclusionClosureT st.buckets st.cur with
  | ClosT.inconsistent => ngLoop n ac stable { st with backtrack := true }
  | cl =>
    let (st, updNg) := match cl with
      | ClosT.update r => ({ st with cur := r, stack := (false, toPA r) :: st.stack }, true)
      | _ => (st, false)
    -- 5. consistency with the acceptance conditions
    let acr := applyInterp st.s st.cur ac
    let st := { st with s := acr.1 }
    let bad := (st.cur.zip acr.2).any (fun (c, a) => isTV c && isTV a && (c != a))
    if bad then ngLoop n ac stable { st with backtrack := true } else
    -- 6. one propagation step
    let upd := applyInterp st.s st.cur st.cur
    let st := { st with s := upd.1 }
    let updFp := upd.2 != st.cur
    let st := { st with cur := upd.2 }
    if updFp then ngLoop n ac stable st
    else if updNg then ngLoop n ac stable st
    else if !(st.cur.all isTV) then ngLoop n ac stable { st with choice := true }
    else
      let chk := if stable then stabilityCheck st.s n ac st.cur else (st.s, true)
      let st := { st with s := chk.1 }
      if chk.2 then
        ngLoop n ac stable { st with stack := (false, toPA st.cur) :: st.stack, out := st.out ++ [st.cur], backtrack := true }
      else
        ngLoop n ac stable { st with stack := (false, toPA st.cur) :: st.stack, backtrack := true }

/-- `stable_nogood(Heuristic::Simple)` / `two_val_nogood_channel(Simple)` -/
def ngAll (s : Store) (n : Nat) (ac : List Nat) (stable : Bool) : Store × List (List Nat) × List (List Nat) :=
  let g := groundedLoop StoreRA (n + 1) s ac
  let r := ngLoop n ac stable { s := g.1, cur := g.2, buckets := List.replicate (n + 1) [], stack := [], hist := [],
                                backtrack := false, choice := false, out := [], trace := [] }
  (r.s, r.out, r.trace)
