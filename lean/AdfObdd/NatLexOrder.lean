import AdfObdd.CliWorld
import AdfObdd.SortProofs
/-! # The order `--an` sorts by: `CliM.NatLex.le` (the model of `natural_lexical_cmp`, crate
    `lexical-sort` 0.3.1) is a total, transitive, antisymmetric comparison on ALL labels

The loop `cmpGo` advances both streams in lock step, so it is the three-way lexicographic comparison
of a sort KEY (`key`, a list of naturals): a maximal run of ASCII digits becomes `runMark, length,
value` (a longer run is greater whatever its leading zeros, `007 > 10`; equal length: the value
decides), a non-alphanumeric character its code point (below `runMark`), an alphanumeric non-digit
`runMark + 1 +` its code point (`ret_ordering`: non-alphanumeric before alphanumeric, then code
points; every alphanumeric non-digit is above `9`); a proper prefix is smaller (`cmpGo_key`). Hence
`le` is the lexicographic order on (key, bytes) (`le_iff`), and insertion sort with it leaves a
sorted permutation (`anSort_sorted`).

Outside U+0000-U+00FF the model's tables (`translit`, `isAlnumU`) do not follow the crates:
`any_ascii` transliterates EVERY alphanumeric code point (e.g. `ā` ↦ `a`, `Ω` ↦ `O`), the model keeps
code points above U+00FF as they are (and treats those above U+024F as non-alphanumeric). Example
found by review 2: on `s("ā").s(b).s("Ω").s(z)` with `--an` the binary prints the order `ā b Ω z`,
the model `Ω b z ā`. So the agreement of `--an` between model and binary is limited to labels within
Latin-1 - in the correspondence runs: to the harness's label pool, which is ASCII.
A second limit (third review): the crate accumulates digit runs in a wrapping `u64`, the model in `Nat`; labels with
a run of 20 or more digits can be ordered differently by the release binary (observed: `18446744073709551616` before
`10000000000000000000`).

(The theorems of this file are about the MODEL's comparison and hold for all labels; only the
agreement with the binary is limited as said.) Proof file: not imported by the driver. -/

namespace CliM.NatLex
open ParserM SortModel

/-! ## (A) insertion sort sorts on a class of labels on which the comparison is a total preorder -/

theorem insertBy_sorted_on (le : Label → Label → Bool) (P : Label → Prop)
    (total : ∀ a b, P a → P b → le a b = true ∨ le b a = true)
    (trans : ∀ a b c, P a → P b → P c → le a b = true → le b c = true → le a c = true)
    (x : Label) (hx : P x) :
    ∀ ys, (∀ y ∈ ys, P y) → ys.Pairwise (fun a b => le a b = true) →
      (insertBy le x ys).Pairwise (fun a b => le a b = true) := by
  intro ys
  induction ys with
  | nil => intro _ _; simp [insertBy]
  | cons y ys ih =>
    intro hP h
    have ⟨h1, h2⟩ := List.pairwise_cons.mp h
    have hy : P y := hP y (List.mem_cons_self ..)
    have hys : ∀ z ∈ ys, P z := fun z hz => hP z (List.mem_cons_of_mem _ hz)
    simp only [insertBy]
    by_cases e : le x y = true
    · rw [if_pos e]
      refine List.pairwise_cons.mpr ⟨?_, h⟩
      intro z hz
      rcases List.mem_cons.mp hz with rfl | hz
      · exact e
      · exact trans _ _ _ hx hy (hys z hz) e (h1 z hz)
    · rw [if_neg e]
      have hyx : le y x = true := (total x y hx hy).resolve_left e
      refine List.pairwise_cons.mpr ⟨?_, ih hys h2⟩
      intro z hz
      rcases List.mem_cons.mp ((insertBy_perm le x ys).mem_iff.mp hz) with rfl | hz
      · exact hyx
      · exact h1 z hz

theorem isort_sorted_on (le : Label → Label → Bool) (P : Label → Prop)
    (total : ∀ a b, P a → P b → le a b = true ∨ le b a = true)
    (trans : ∀ a b c, P a → P b → P c → le a b = true → le b c = true → le a c = true) :
    ∀ xs, (∀ x ∈ xs, P x) → (SortModel.isort le xs).Pairwise (fun a b => le a b = true) := by
  intro xs
  induction xs with
  | nil => intro _; simp [isort]
  | cons x xs ih =>
    intro h
    exact insertBy_sorted_on le P total trans x (h x (List.mem_cons_self ..)) _
      (fun y hy => h y (List.mem_cons_of_mem _ ((isort_perm le xs).mem_iff.mp hy)))
      (ih fun y hy => h y (List.mem_cons_of_mem _ hy))

/-! ## the sort key -/

def runMark : Nat := 0x110000

def code (c : Char) : Nat := if isAlnumU c then runMark + 1 + c.toNat else c.toNat

def keyGo : Option (Nat × Nat) → List Char → List Nat
  | none, [] => []
  | some (l, v), [] => [runMark, l, v]
  | none, c :: cs => if c.isDigit then keyGo (some (1, digitVal c)) cs else code c :: keyGo none cs
  | some (l, v), c :: cs =>
    if c.isDigit then keyGo (some (l + 1, v * 10 + digitVal c)) cs
    else runMark :: l :: v :: code c :: keyGo none cs

def key (l : Label) : List Nat := keyGo none (lexical l)

def cmp3 (x y : List Nat) : Option Ordering :=
  if lexLt x y then some .lt else if lexLt y x then some .gt else none

theorem cmp3_nil_nil : cmp3 [] [] = none := by simp [cmp3, lexLt]
theorem cmp3_cons_nil (x : Nat) (X : List Nat) : cmp3 (x :: X) [] = some .gt := by simp [cmp3, lexLt]
theorem cmp3_nil_cons (x : Nat) (X : List Nat) : cmp3 [] (x :: X) = some .lt := by simp [cmp3, lexLt]
theorem cmp3_cons_same (x : Nat) (X Y : List Nat) : cmp3 (x :: X) (x :: Y) = cmp3 X Y := by
  simp [cmp3, lexLt]
theorem cmp3_cons_lt (x y : Nat) (X Y : List Nat) (h : x < y) : cmp3 (x :: X) (y :: Y) = some .lt := by
  simp [cmp3, lexLt, h]
theorem cmp3_cons_gt (x y : Nat) (X Y : List Nat) (h : y < x) : cmp3 (x :: X) (y :: Y) = some .gt := by
  have h1 : ¬ x < y := by omega
  have h2 : ¬ x = y := by omega
  simp [cmp3, lexLt, h, h1, h2]

/-! ### facts on characters -/

theorem isDigit_iff (c : Char) : c.isDigit = true ↔ 48 ≤ c.toNat ∧ c.toNat ≤ 57 := by
  simp [Char.isDigit, UInt32.le_iff_toNat_le]

theorem isAlpha_ge (c : Char) (h : c.isAlpha = true) : 65 ≤ c.toNat := by
  simp [Char.isAlpha, Char.isUpper, Char.isLower, UInt32.le_iff_toNat_le] at h
  omega

theorem isAlnumU_of_isDigit (c : Char) (h : c.isDigit = true) : isAlnumU c = true := by
  have h' := (isDigit_iff c).mp h
  have : c.toNat < 128 := by omega
  simp [isAlnumU, this, Char.isAlphanum, h]

theorem gt_of_isAlnumU_nondigit (c : Char) (h : isAlnumU c = true) (hd : c.isDigit = false) : 57 < c.toNat := by
  by_cases h128 : c.toNat < 128
  · simp [isAlnumU, h128, Char.isAlphanum, hd] at h
    have := isAlpha_ge c h
    omega
  · omega

theorem toNat_lt_runMark (c : Char) : c.toNat < runMark := char_toNat_lt c

/-- `ret_ordering` is the comparison of the codes -/
theorem retOrdering_ne (a b : Char) (hne : a ≠ b) :
    (code a < code b ∧ retOrdering a b = .lt) ∨ (code b < code a ∧ retOrdering a b = .gt) := by
  have ha := toNat_lt_runMark a
  have hb := toNat_lt_runMark b
  have hn : a.toNat ≠ b.toNat := fun h => hne (Char.toNat_inj.mp h)
  unfold retOrdering code
  cases ea : isAlnumU a <;> cases eb : isAlnumU b <;> simp [Nat.compare_eq_lt, Nat.compare_eq_gt] <;> omega

/-- a digit against a non-digit: the code of the other character is on the same side of `runMark` -/
theorem retOrdering_digit_left (a b : Char) (ha : a.isDigit = true) (hb : b.isDigit = false) :
    (runMark < code b ∧ retOrdering a b = .lt) ∨ (code b < runMark ∧ retOrdering a b = .gt) := by
  have hb' := toNat_lt_runMark b
  have h1 := isAlnumU_of_isDigit a ha
  have h2 := (isDigit_iff a).mp ha
  unfold retOrdering code
  cases eb : isAlnumU b
  · right; simp [h1]; omega
  · left
    have := gt_of_isAlnumU_nondigit b eb hb
    simp [h1, Nat.compare_eq_lt]; omega

theorem retOrdering_digit_right (a b : Char) (ha : a.isDigit = false) (hb : b.isDigit = true) :
    (runMark < code a ∧ retOrdering a b = .gt) ∨ (code a < runMark ∧ retOrdering a b = .lt) := by
  have ha' := toNat_lt_runMark a
  have h1 := isAlnumU_of_isDigit b hb
  have h2 := (isDigit_iff b).mp hb
  unfold retOrdering code
  cases ea : isAlnumU a
  · right; simp [h1]; omega
  · left
    have := gt_of_isAlnumU_nondigit a ea ha
    simp [h1, Nat.compare_eq_gt]; omega

/-! ### shape of the key inside a digit run -/

def noDigitHead (as : List Char) : Prop := as.head?.filter Char.isDigit = none

theorem keyGo_some_nodigit (l v : Nat) (as : List Char) (h : noDigitHead as) :
    keyGo (some (l, v)) as = runMark :: l :: v :: keyGo none as := by
  cases as with
  | nil => rfl
  | cons c cs =>
    have hc : c.isDigit = false := by
      cases e : c.isDigit
      · rfl
      · simp [noDigitHead, Option.filter, e] at h
    simp [keyGo, hc]

theorem keyGo_some_shape : ∀ (as : List Char) (l v : Nat),
    ∃ l' v' r, keyGo (some (l, v)) as = runMark :: l' :: v' :: r ∧ l ≤ l' := by
  intro as
  induction as with
  | nil => intro l v; exact ⟨l, v, [], rfl, Nat.le_refl _⟩
  | cons c cs ih =>
    intro l v
    cases e : c.isDigit
    · exact ⟨l, v, code c :: keyGo none cs, by simp [keyGo, e], Nat.le_refl _⟩
    · obtain ⟨l', v', r, h1, h2⟩ := ih (l + 1) (v * 10 + digitVal c)
      exact ⟨l', v', r, by simp [keyGo, e, h1], by omega⟩

theorem head_cases (as : List Char) :
    (∃ a as', as = a :: as' ∧ a.isDigit = true) ∨ noDigitHead as := by
  cases as with
  | nil => right; rfl
  | cons a as' =>
    cases e : a.isDigit
    · right; simp [noDigitHead, Option.filter, e]
    · left; exact ⟨a, as', rfl, e⟩

theorem head_digit (a : Char) (as : List Char) (h : a.isDigit = true) :
    (a :: as).head?.filter Char.isDigit = some a := by simp [Option.filter, h]

theorem keyGo_none_cons_ne_nil (a : Char) (as : List Char) : ∃ x X, keyGo none (a :: as) = x :: X := by
  cases e : a.isDigit
  · exact ⟨code a, keyGo none as, by simp [keyGo, e]⟩
  · obtain ⟨l', v', r, h1, _⟩ := keyGo_some_shape as 1 (digitVal a)
    exact ⟨runMark, l' :: v' :: r, by simp [keyGo, e, h1]⟩

/-- the loop is the three-way lexicographic comparison of the keys -/
theorem cmpGo_key : ∀ fuel,
    (∀ as bs, 2 * as.length + 2 * bs.length + 1 ≤ fuel →
      cmpGo fuel none as bs = cmp3 (keyGo none as) (keyGo none bs)) ∧
    (∀ l n1 n2 as bs, 2 * as.length + 2 * bs.length + 2 ≤ fuel →
      cmpGo fuel (some (n1, n2)) as bs = cmp3 (keyGo (some (l, n1)) as) (keyGo (some (l, n2)) bs)) := by
  intro fuel
  induction fuel with
  | zero => constructor <;> intros <;> omega
  | succ f ih =>
    obtain ⟨ihN, ihD⟩ := ih
    constructor
    · intro as bs hf
      match as, bs with
      | [], [] => simp [cmpGo, keyGo, cmp3_nil_nil]
      | a :: as, [] =>
        obtain ⟨x, X, hx⟩ := keyGo_none_cons_ne_nil a as
        rw [hx]; simp [cmpGo, keyGo, cmp3_cons_nil]
      | [], b :: bs =>
        obtain ⟨x, X, hx⟩ := keyGo_none_cons_ne_nil b bs
        rw [hx]; simp [cmpGo, keyGo, cmp3_nil_cons]
      | a :: as, b :: bs =>
        simp only [List.length_cons] at hf
        cases ha : a.isDigit <;> cases hb : b.isDigit
        · -- two non-digits
          by_cases e : a = b
          · subst e
            simp only [cmpGo, keyGo, ha, Bool.false_and, bne_self_eq_false, if_false, Bool.false_eq_true]
            rw [cmp3_cons_same]
            exact ihN as bs (by omega)
          · have e' : (a != b) = true := by simp [e]
            simp only [cmpGo, keyGo, ha, hb, e', Bool.false_and, if_false, if_true, Bool.false_eq_true]
            rcases retOrdering_ne a b e with ⟨h1, h2⟩ | ⟨h1, h2⟩
            · rw [h2, cmp3_cons_lt _ _ _ _ h1]
            · rw [h2, cmp3_cons_gt _ _ _ _ h1]
        · -- non-digit against digit
          have e' : (a != b) = true := by
            simp only [bne_iff_ne, ne_eq]; intro h; rw [h, hb] at ha; cases ha
          obtain ⟨l', v', r, h1, _⟩ := keyGo_some_shape bs 1 (digitVal b)
          simp only [cmpGo, keyGo, ha, hb, e', Bool.false_and, if_false, if_true, Bool.false_eq_true, h1]
          rcases retOrdering_digit_right a b ha hb with ⟨h1, h2⟩ | ⟨h1, h2⟩
          · rw [h2, cmp3_cons_gt _ _ _ _ h1]
          · rw [h2, cmp3_cons_lt _ _ _ _ h1]
        · have e' : (a != b) = true := by
            simp only [bne_iff_ne, ne_eq]; intro h; rw [h, hb] at ha; cases ha
          obtain ⟨l', v', r, h1, _⟩ := keyGo_some_shape as 1 (digitVal a)
          simp only [cmpGo, keyGo, ha, hb, e', Bool.and_false, if_false, if_true, Bool.false_eq_true, h1]
          rcases retOrdering_digit_left a b ha hb with ⟨h1, h2⟩ | ⟨h1, h2⟩
          · rw [h2, cmp3_cons_lt _ _ _ _ h1]
          · rw [h2, cmp3_cons_gt _ _ _ _ h1]
        · simp only [cmpGo, keyGo, ha, hb, Bool.and_self, if_true]
          exact ihD 1 _ _ as bs (by omega)
    · intro l n1 n2 as bs hf
      rcases head_cases as with ⟨a, as', rfl, ha⟩ | hA <;> rcases head_cases bs with ⟨b, bs', rfl, hb⟩ | hB
      · simp only [List.length_cons] at hf
        simp only [cmpGo, head_digit _ _ ha, head_digit _ _ hb, List.tail_cons, keyGo, ha, hb, if_true]
        exact ihD (l + 1) _ _ as' bs' (by omega)
      · obtain ⟨l', v', r, h1, h2⟩ := keyGo_some_shape as' (l + 1) (n1 * 10 + digitVal a)
        simp only [noDigitHead] at hB
        simp only [cmpGo, head_digit _ _ ha, hB]
        rw [keyGo_some_nodigit l n2 bs hB]
        simp only [keyGo, ha, if_true, h1]
        rw [cmp3_cons_same, cmp3_cons_gt _ _ _ _ (by omega)]
      · obtain ⟨l', v', r, h1, h2⟩ := keyGo_some_shape bs' (l + 1) (n2 * 10 + digitVal b)
        simp only [noDigitHead] at hA
        simp only [cmpGo, head_digit _ _ hb, hA]
        rw [keyGo_some_nodigit l n1 as hA]
        simp only [keyGo, hb, if_true, h1]
        rw [cmp3_cons_same, cmp3_cons_lt _ _ _ _ (by omega)]
      · have hA' := hA
        have hB' := hB
        simp only [noDigitHead] at hA' hB'
        simp only [cmpGo, hA', hB']
        rw [keyGo_some_nodigit l n1 as hA, keyGo_some_nodigit l n2 bs hB, cmp3_cons_same, cmp3_cons_same]
        by_cases e : n1 = n2
        · subst e
          simp only [bne_self_eq_false, if_false, Bool.false_eq_true, cmp3_cons_same]
          exact ihN as bs (by omega)
        · have e' : (n1 != n2) = true := by simp [e]
          simp only [e', if_true]
          rcases Nat.lt_or_gt_of_ne e with h | h
          · rw [cmp3_cons_lt _ _ _ _ h, Nat.compare_eq_lt.mpr h]
          · rw [cmp3_cons_gt _ _ _ _ h, Nat.compare_eq_gt.mpr h]

/-! ## `le` is the lexicographic order on (key, bytes) -/

theorem le_eq_key (a b : Label) :
    le a b = (match cmp3 (key a) (key b) with
      | some o => o != .gt
      | none => byteLe a b) := by
  unfold le key
  rw [(cmpGo_key _).1 (lexical a) (lexical b) (by omega)]
  rfl

theorem cmp3_none_iff (x y : List Nat) : cmp3 x y = none ↔ x = y := by
  constructor
  · intro h
    unfold cmp3 at h
    cases h1 : lexLt x y <;> cases h2 : lexLt y x <;> simp [h1, h2] at h
    exact lexLt_trichotomy x y h1 h2
  · rintro rfl
    simp [cmp3, lexLt_irrefl]

theorem le_iff (a b : Label) :
    le a b = true ↔ lexLt (key a) (key b) = true ∨ (key a = key b ∧ byteLe a b = true) := by
  rw [le_eq_key]
  cases h1 : lexLt (key a) (key b)
  · cases h2 : lexLt (key b) (key a)
    · have e := lexLt_trichotomy _ _ h1 h2
      have : cmp3 (key a) (key b) = none := (cmp3_none_iff _ _).mpr e
      rw [this]; simp [e]
    · have hne : key a ≠ key b := by
        intro e; rw [e, lexLt_irrefl] at h2; cases h2
      simp [cmp3, h1, h2, hne]
  · simp [cmp3, h1]

/-- (B) the model's comparison is total on ALL labels -/
theorem le_total (a b : Label) : le a b = true ∨ le b a = true := by
  rw [le_iff, le_iff]
  cases h1 : lexLt (key a) (key b)
  · cases h2 : lexLt (key b) (key a)
    · have e := lexLt_trichotomy _ _ h1 h2
      rcases byteLe_total a b with h | h
      · exact .inl (.inr ⟨e, h⟩)
      · exact .inr (.inr ⟨e.symm, h⟩)
    · exact .inr (.inl rfl)
  · exact .inl (.inl rfl)

/-- (C) the model's comparison is transitive on ALL labels -/
theorem le_trans (a b c : Label) : le a b = true → le b c = true → le a c = true := by
  rw [le_iff, le_iff, le_iff]
  rintro (h1 | ⟨e1, h1⟩) (h2 | ⟨e2, h2⟩)
  · exact .inl (lexLt_trans _ _ _ h1 h2)
  · rw [← e2]; exact .inl h1
  · rw [e1]; exact .inl h2
  · exact .inr ⟨e1.trans e2, byteLe_trans a b c h1 h2⟩

/-- labels of ASCII letters and digits (the harness's label pool is inside this class) -/
def Plain (l : Label) : Prop := ∀ c ∈ l, c.toNat < 128 ∧ c.isAlphanum = true

/-- the general statement of (C) restricted to `Plain`; proved below (`le_trans_plain`), in fact
without using `Plain` (`le_trans`) -/
def le_trans_plain_statement : Prop :=
  ∀ a b c, Plain a → Plain b → Plain c → le a b = true → le b c = true → le a c = true

theorem le_trans_plain (a b c : Label) (_ha : Plain a) (_hb : Plain b) (_hc : Plain c) :
    le a b = true → le b c = true → le a c = true := le_trans a b c

theorem le_trans_plain_statement_holds : le_trans_plain_statement := le_trans_plain

/-- on ASCII labels the transliterated stream is the lower-cased label -/
theorem lexical_plain (l : Label) (h : ∀ c ∈ l, c.toNat < 128) : lexical l = l.map lower := by
  induction l with
  | nil => rfl
  | cons c cs ih =>
    have hc : c.toNat < 128 := h c (List.mem_cons_self ..)
    have := ih fun d hd => h d (List.mem_cons_of_mem _ hd)
    simp only [lexical, List.flatMap_cons, List.map_cons] at this ⊢
    rw [this]
    simp [lexChar, hc]

/-! ## (D) the order `--an` leaves the name list in -/

/-- for every name list: a permutation, ascending with respect to the (total, transitive) comparison -/
theorem anSort_sorted_all (ns : List Label) :
    (anSort ns).Perm ns ∧ (anSort ns).Pairwise (fun a b => le a b = true) :=
  ⟨isort_perm le ns, isort_sorted le le_total le_trans ns⟩

theorem anSort_sorted (ns : List Label) (_h : ∀ l ∈ ns, Plain l) :
    (anSort ns).Perm ns ∧ (anSort ns).Pairwise (fun a b => le a b = true) :=
  anSort_sorted_all ns

/-- the conditional version through (A): transitivity is only needed on the members of `ns` -/
theorem anSort_sorted_of_trans (ns : List Label)
    (trans : ∀ a b c, a ∈ ns → b ∈ ns → c ∈ ns → le a b = true → le b c = true → le a c = true) :
    (anSort ns).Perm ns ∧ (anSort ns).Pairwise (fun a b => le a b = true) :=
  ⟨isort_perm le ns,
    isort_sorted_on le (· ∈ ns) (fun a b _ _ => le_total a b) trans ns (fun _ h => h)⟩

/-- `le` is antisymmetric: equal keys and `byteLe` both ways force equality; so the sorted
permutation of a duplicate-free name list is unique and STRICTLY ascending -/
theorem le_antisymm (a b : Label) (h1 : le a b = true) (h2 : le b a = true) : a = b := by
  rw [le_iff] at h1 h2
  rcases h1 with h1 | ⟨e1, h1⟩ <;> rcases h2 with h2 | ⟨e2, h2⟩
  · rw [lexLt_asymm _ _ h1] at h2; cases h2
  · rw [e2, lexLt_irrefl] at h1; cases h1
  · rw [e1, lexLt_irrefl] at h2; cases h2
  · unfold byteLe at h1 h2
    simp only [Bool.not_eq_true'] at h1 h2
    exact byteLt_trichotomy a b h2 h1

/-- natural order, not byte order: `2 < 02 < B < a2 < a9 < a10` (byte order: `02 2 B a10 a2 a9`) -/
example : anSort [['a','1','0'], ['a','9'], ['a','2'], ['B'], ['0','2'], ['2']]
    = [['2'], ['0','2'], ['a','2'], ['a','9'], ['a','1','0'], ['B']] := by decide

/-- the harness's pool: `argument1 < argument2 < argument10`, `neg < neg1 < negative`, case folded
(`B` between `a…` and `c`), `True`/`true` tie on the key and fall back to the byte order -/
example : anSort [['a','r','g','1','0'], ['t','r','u','e'], ['n','e','g','a','t','i','v','e'], ['a','r','g','2'],
      ['c'], ['n','e','g','1'], ['T','r','u','e'], ['B'], ['a','r','g','1'], ['n','e','g']]
    = [['a','r','g','1'], ['a','r','g','2'], ['a','r','g','1','0'], ['B'], ['c'], ['n','e','g'], ['n','e','g','1'],
       ['n','e','g','a','t','i','v','e'], ['T','r','u','e'], ['t','r','u','e']] := by decide

/-- on a duplicate-free name list (as `namelist` is) the result is STRICTLY ascending, hence the only
sorted permutation: any sorting algorithm with this comparison returns `anSort ns` -/
theorem anSort_strict (ns : List Label) (nd : ns.Nodup) :
    (anSort ns).Pairwise (fun a b => le a b = true ∧ le b a = false) := by
  have h1 := (anSort_sorted_all ns).2
  have h2 : (anSort ns).Nodup := (anSort_sorted_all ns).1.nodup_iff.mpr nd
  refine (h1.and h2).imp ?_
  rintro a b ⟨h, hne⟩
  refine ⟨h, ?_⟩
  cases e : le b a
  · rfl
  · exact absurd (le_antisymm a b h e) hne

end CliM.NatLex

#print axioms CliM.NatLex.isort_sorted_on
#print axioms CliM.NatLex.cmpGo_key
#print axioms CliM.NatLex.le_total
#print axioms CliM.NatLex.le_trans
#print axioms CliM.NatLex.le_trans_plain
#print axioms CliM.NatLex.le_antisymm
#print axioms CliM.NatLex.anSort_sorted
#print axioms CliM.NatLex.anSort_sorted_of_trans
#print axioms CliM.NatLex.anSort_strict
