import AdfObdd.Parser6
import AdfObdd.AdfPipeline
/-! `Adf::from_parser` on the parser object as it is (`lib/src/adf.rs`), not only for files whose
    conditions come in declaration order:

    * `ac = vec![Term(0); dict_size]`, variables `0 .. dict_size` are created,
    * `formula_order()` is computed as a whole (panics on a condition for an undeclared label),
    * then for every `(insert_order, new_order)`: `ac[new_order] = term(ac_at(insert_order))`, in FILE
      order on the running store; `term` resolves atoms through the dictionary (panics on an
      undeclared atom).

    Consequences (proved in `FromParserProofs`): a statement without a condition keeps `Term(0)`, of
    several conditions for one statement the last one wins (all of them are compiled and leave
    their nodes in the store). Definitions only (the driver imports this file). -/
namespace FromParser
open ParserM

/-- `Adf::term`, the label part: atoms are looked up in the dictionary
(`ordering.variable(val).expect(..)`; `none` = that panic), connectives are mapped one to one. -/
def resolveFml (d : Label → Option Nat) : Fml → Option Fm
  | .top => some .top
  | .bot => some .bot
  | .atom l => (d l).map Fm.atom
  | .not f => (resolveFml d f).map Fm.not
  | .and a b => match resolveFml d a, resolveFml d b with | some x, some y => some (.and x y) | _, _ => none
  | .or a b => match resolveFml d a, resolveFml d b with | some x, some y => some (.or x y) | _, _ => none
  | .imp a b => match resolveFml d a, resolveFml d b with | some x, some y => some (.imp x y) | _, _ => none
  | .xor a b => match resolveFml d a, resolveFml d b with | some x, some y => some (.xor x y) | _, _ => none
  | .iff a b => match resolveFml d a, resolveFml d b with | some x, some y => some (.iff x y) | _, _ => none

/-- the loop `ac[new_order] = term(formula)`: every condition is compiled on the running store, in
the order of the list, and its handle written at the given position (a position outside the vector
is not written; `fromParser` excludes it beforehand, where Rust would panic) -/
def placeCompile (s : Store) (acc : List Nat) : List (Nat × Fm) → Store × List Nat
  | [] => (s, acc)
  | pf :: r => let c := compile s pf.2; placeCompile c.1 (acc.set pf.1 c.2) r

/-- `dict.len()` of the `HashMap` modelled by the association list (most recent entry wins):
the number of distinct keys -/
def dictSize : List (Label × Nat) → Nat
  | [] => 0
  | (k, _) :: d => if (dictGet d k).isSome then dictSize d else dictSize d + 1

/-- `dict_size()` -/
def dictSizeOf (st : PState) : Nat := dictSize st.dict

/-- the work list of the loop: position and index-level formula of every condition, in file order;
`none` where `from_parser` panics:
1. `formula_order()`: a condition for an undeclared label,
2. `ac_at(insert_order).expect(..)`: fewer formulas than formula names (no parser run produces that),
3. `ac[new_order]` out of bounds (no parser run produces that),
4. `term`: an undeclared atom in one of the conditions that are compiled. -/
def workList (st : PState) : Option (List (Nat × Fm)) :=
  match st.formulaOrder with
  | none => none
  | some ord =>
    if st.formulae.length < ord.length then none
    else if ord.any (fun p => decide (dictSizeOf st ≤ p)) then none
    else match (st.formulae.take ord.length).mapM (resolveFml (dictGet st.dict)) with
      | none => none
      | some fms => some (ord.zip fms)

/-- `Adf::from_parser`: (store, `ac`); `none` = panic -/
def fromParser (st : PState) : Option (Store × List Nat) :=
  (workList st).map fun items =>
    placeCompile (buildVars (dictSizeOf st) Store.init) (List.replicate (dictSizeOf st) 0) items

end FromParser
