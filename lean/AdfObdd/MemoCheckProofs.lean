import AdfObdd.MemoCheck
import AdfObdd.TTDepthPaths
import AdfObdd.WfCheck
import AdfObdd.Props.C13
/-! Soundness of the audit `MemoCheck.memoCheckF` of the implementation's dumped private tables:
    on a structurally well-formed node table (`TableWF`, decided by `wfCheck`)
    `memoCheckF nv exc table rows = true → MemoSound nv exc s rows` for every store `s` with that
    node table.

    Steps: (1) a structurally well-formed table is the node table of a store satisfying the full
    invariant `WF` (`exists_WF`: rebuild the unique table, leave the memo tables empty), so the
    theorems stated under `WF` (`counts_vs_truth_table`, `deps_exact`) apply; `eval`, `countF`,
    `pathsF`, `depsF` look at the node table only (`*_congr`). (2) The table the checker
    computes bottom-up for node `i` represents `eval s i` (`tt_of_node_rep`). (3) Functions of
    the first `nv` variables with equal tables are equal (`TT.rep_inj`), which turns the
    checker's table comparisons for the ite and restrict rows into statements `∀ σ`; the count
    rows go through `TT.depth_eq`, `TT.paths_eq` (`TTDepthPaths.lean`) and
    `C13.counts_vs_truth_table`. -/
namespace MemoCheck

/-! ### (1) from the structural invariant to the full invariant -/

/-- the unique table of the first `k` nodes, rebuilt -/
def uniqUpTo (ns : Array Node) (k : Nat) : Std.HashMap Node Nat :=
  (List.range k).foldl (fun m i =>
    if 2 ≤ i then (match ns[i]? with | some n => m.insert n i | none => m) else m) ∅

theorem uniqUpTo_succ (ns : Array Node) (k : Nat) :
    uniqUpTo ns (k+1) =
      if 2 ≤ k then (match ns[k]? with | some n => (uniqUpTo ns k).insert n k | none => uniqUpTo ns k)
      else uniqUpTo ns k := by
  unfold uniqUpTo
  rw [List.range_succ, List.foldl_append]
  rfl

theorem uniqUpTo_spec (ns : Array Node) (h : TableWF ns) : ∀ k, k ≤ ns.size → ∀ n t,
    (uniqUpTo ns k)[n]? = some t ↔ (2 ≤ t ∧ t < k ∧ ns[t]? = some n) := by
  intro k
  induction k with
  | zero =>
    intro _ n t
    have : uniqUpTo ns 0 = ∅ := rfl
    rw [this, Std.HashMap.getElem?_empty]
    constructor
    · intro hh; cases hh
    · intro ⟨_, hh, _⟩; omega
  | succ k ih =>
    intro hk n t
    have ih' := ih (by omega) n t
    rw [uniqUpTo_succ]
    by_cases hk2 : 2 ≤ k
    · rw [if_pos hk2]
      obtain ⟨nk, hnk⟩ := get_of_lt (ns := ns) (i := k) (by omega)
      simp only [hnk]
      rw [Std.HashMap.getElem?_insert]
      by_cases he : nk = n
      · subst he
        simp only [beq_self_eq_true, if_true, Option.some.injEq]
        constructor
        · intro e; subst e; exact ⟨hk2, by omega, hnk⟩
        · intro ⟨a, _, c⟩
          exact h.nodup k t nk hk2 a hnk c
      · have hb : (nk == n) = false := by simpa using he
        simp only [hb, Bool.false_eq_true, if_false]
        rw [ih']
        constructor
        · intro ⟨a, b, c⟩; exact ⟨a, by omega, c⟩
        · intro ⟨a, b, c⟩
          refine ⟨a, ?_, c⟩
          rcases Nat.lt_or_ge t k with hlt | hge
          · exact hlt
          · have : t = k := by omega
            subst this
            rw [hnk] at c
            exact absurd (Option.some.inj c) he
    · rw [if_neg hk2, ih']
      constructor
      · intro ⟨a, b, c⟩; exact ⟨a, by omega, c⟩
      · intro ⟨a, b, c⟩; omega

/-- a structurally well-formed table is the node table of a store with the full invariant -/
theorem exists_WF (ns : Array Node) (h : TableWF ns) : ∃ s : Store, WF s ∧ s.nodes = ns := by
  refine ⟨⟨ns, uniqUpTo ns ns.size, ∅, ∅⟩, ?_, rfl⟩
  refine ⟨h.len, h.bot, h.top, h.inner, ?_, ?_, ?_⟩
  · intro n t
    show (uniqUpTo ns ns.size)[n]? = some t ↔ _
    rw [uniqUpTo_spec ns h ns.size (Nat.le_refl _) n t]
    constructor
    · intro ⟨a, _, c⟩; exact ⟨a, c⟩
    · intro ⟨a, c⟩; exact ⟨a, lt_of_get c, c⟩
  · intro t v b r hh
    have : (∅ : Std.HashMap (Nat × Nat × Bool) Nat)[(t, v, b)]? = none := Std.HashMap.getElem?_empty
    rw [this] at hh; cases hh
  · intro i t e r hh
    have : (∅ : Std.HashMap (Nat × Nat × Nat) Nat)[(i, t, e)]? = none := Std.HashMap.getElem?_empty
    rw [this] at hh; cases hh

/-! the queries look at the node table only -/

theorem eval_congr {s s' : Store} (hn : s'.nodes = s.nodes) (t : Nat) (σ : Asg) : eval s' t σ = eval s t σ := by
  unfold eval; rw [hn]

theorem countF_congr {s s' : Store} (hn : s'.nodes = s.nodes) : ∀ f t, countF s' f t = countF s f t := by
  intro f
  induction f with
  | zero => intro t; rfl
  | succ f ih => intro t; unfold countF; simp only [hn, ih]

theorem pathsF_congr {s s' : Store} (hn : s'.nodes = s.nodes) : ∀ f t, pathsF s' f t = pathsF s f t := by
  intro f
  induction f with
  | zero => intro t; rfl
  | succ f ih => intro t; unfold pathsF; simp only [hn, ih]

theorem depsF_congr {s s' : Store} (hn : s'.nodes = s.nodes) : ∀ f t, depsF s' f t = depsF s f t := by
  intro f
  induction f with
  | zero => intro t; rfl
  | succ f ih => intro t; unfold depsF; simp only [hn, ih]

theorem MemoSound.congr {nv : Nat} {exc : Bool} {s s' : Store} {r : Rows} (hn : s'.nodes = s.nodes)
    (m : MemoSound nv exc s' r) : MemoSound nv exc s r := by
  have he : eval s' = eval s := by funext t σ; exact eval_congr hn t σ
  constructor
  · intro v lo hi t hm; have := m.uniq_sound v lo hi t hm; rw [hn] at this; exact this
  · intro t n ht hg; exact m.uniq_complete t n ht (by rw [hn]; exact hg)
  · intro i t e x hm; have := m.ite_sound i t e x hm; rw [hn, he] at this; exact this
  · intro t v b x hm; have := m.res_sound t v b x hm; rw [hn, he] at this; exact this
  · intro t cm mm pcm pm d hm
    have := m.cnt_sound t cm mm pcm pm d hm
    rw [hn, pathsF_congr hn, countF_congr hn] at this; exact this
  · intro ds hd
    have ⟨a, b⟩ := m.deps_sound ds hd
    rw [hn] at a b
    refine ⟨a, ?_⟩
    intro i hi
    obtain ⟨d, h1, h2⟩ := b i hi
    exact ⟨d, h1, fun x => by rw [h2 x, depsF_congr hn]⟩

/-! ### (2) the computed table of a node represents the node's function -/

theorem getD_push_lt (a : Array Nat) (x i : Nat) (hi : i < a.size) : (a.push x).getD i 0 = a.getD i 0 := by
  rw [Array.getD_eq_getD_getElem?, Array.getD_eq_getD_getElem?, Array.getElem?_push, if_neg (by omega)]

theorem getD_push_eq (a : Array Nat) (x : Nat) : (a.push x).getD a.size 0 = x := by
  rw [Array.getD_eq_getD_getElem?, Array.getElem?_push, if_pos rfl]; rfl

theorem size_ttStep (nv : Nat) (table : Array Node) (tt : Array Nat) (i : Nat) :
    (ttStep nv table tt i).size = tt.size + 1 := by
  unfold ttStep
  split
  · exact Array.size_push _
  · split <;> exact Array.size_push _

/-- all inner nodes test variables below `nv` -/
def VarsBelow (nv : Nat) (ns : Array Node) : Prop := ∀ i n, 2 ≤ i → ns[i]? = some n → n.var < nv

theorem varsOK_sound (nv : Nat) (ns : Array Node) (h : varsOK nv ns = true) : VarsBelow nv ns := by
  intro i n hi hn
  have := List.all_eq_true.mp h i (List.mem_range.mpr (lt_of_get hn))
  simp only [Bool.or_eq_true, decide_eq_true_eq] at this
  rcases this with h' | h'
  · omega
  · rw [Array.getD_eq_getD_getElem?, hn] at h'; exact h'

theorem tt_prefix (s : Store) (h : TableWF s.nodes) (nv : Nat) :
    ∀ k, k ≤ s.nodes.size →
      ((List.range k).foldl (ttStep nv s.nodes) #[]).size = k ∧
      ∀ i, i < k → TT.Rep nv (((List.range k).foldl (ttStep nv s.nodes) #[]).getD i 0) (eval s i) := by
  intro k
  induction k with
  | zero => intro _; exact ⟨rfl, fun i hi => by omega⟩
  | succ k ih =>
    intro hk
    have ⟨hsz, hrep⟩ := ih (by omega)
    rw [List.range_succ, List.foldl_append]
    generalize (List.range k).foldl (ttStep nv s.nodes) #[] = a at hsz hrep
    simp only [List.foldl_cons, List.foldl_nil]
    refine ⟨by rw [size_ttStep, hsz], ?_⟩
    -- the entry pushed at position `k`
    have hnew : ∃ x, ttStep nv s.nodes a k = a.push x ∧ TT.Rep nv x (eval s k) := by
      unfold ttStep
      by_cases h0 : k = 0
      · subst h0
        refine ⟨0, by simp, ?_⟩
        have : eval s 0 = fun _ => false := by funext σ; exact eval_zero s σ
        rw [this]; exact TT.rep_const nv false
      by_cases h1 : k = 1
      · subst h1
        refine ⟨TT.mask nv, by simp, ?_⟩
        have : eval s 1 = fun _ => true := by funext σ; exact eval_one s σ
        rw [this]; exact TT.rep_const nv true
      obtain ⟨n, hn⟩ := get_of_lt (ns := s.nodes) (i := k) (by omega)
      have ⟨_, hlo, hhi, _, _, _⟩ := h.inner k n (by omega) hn
      have hg : s.nodes.getD k ⟨0, 0, 0⟩ = n := by rw [Array.getD_eq_getD_getElem?, hn]; rfl
      refine ⟨_, by rw [if_neg h0, if_neg h1], ?_⟩
      simp only [hg]
      have := TT.rep_ite (TT.rep_var nv n.var) (hrep n.hi hhi) (hrep n.lo hlo)
      have e : eval s k = fun σ => if σ n.var = true then eval s n.hi σ else eval s n.lo σ := by
        funext σ; exact Tab.eval_node s h k n (by omega) hn σ
      rw [e]; exact this
    obtain ⟨x, hx, hxr⟩ := hnew
    rw [hx]
    intro i hi
    rcases Nat.lt_or_ge i k with hlt | hge
    · rw [getD_push_lt a x i (by omega)]; exact hrep i hlt
    · have : i = a.size := by omega
      subst this
      rw [getD_push_eq, hsz]; exact hxr

/-- **the checker's table of node `i` represents the function of node `i`** (on the coded
assignments; that this determines the function needs the variables to be below `nv`, `detBy_node`) -/
theorem tt_of_node_rep (s : Store) (h : TableWF s.nodes) (nv : Nat)
    (i : Nat) (hi : i < s.nodes.size) : TT.Rep nv ((ttOf nv s.nodes).getD i 0) (eval s i) :=
  (tt_prefix s h nv s.nodes.size (Nat.le_refl _)).2 i hi

/-! ### (3) the variables of every diagram are below `nv`, hence its function looks at them only -/

theorem depsF_is_var (s : Store) : ∀ (f t x : Nat), x ∈ depsF s f t →
    ∃ i n, 2 ≤ i ∧ s.nodes[i]? = some n ∧ n.var = x := by
  intro f
  induction f with
  | zero => intro t x hx; simp [depsF] at hx
  | succ f ih =>
    intro t x hx
    unfold depsF at hx
    by_cases h2 : t < 2
    · rw [if_pos h2] at hx; cases hx
    · rw [if_neg h2] at hx
      cases hn : s.nodes[t]? with
      | none => simp only [hn] at hx; cases hx
      | some n =>
        simp only [hn] at hx
        rcases List.mem_cons.mp hx with e | hx
        · exact ⟨t, n, by omega, hn, e.symm⟩
        · rcases List.mem_append.mp hx with h' | h'
          · exact ih n.lo x h'
          · exact ih n.hi x h'

theorem depsF_below (s : Store) (nv : Nat) (hv : VarsBelow nv s.nodes) (f t x : Nat) (hx : x ∈ depsF s f t) :
    x < nv := by
  obtain ⟨i, n, hi, hn, e⟩ := depsF_is_var s f t x hx
  rw [← e]; exact hv i n hi hn

theorem detBy_node (s : Store) (h : TableWF s.nodes) (nv : Nat) (hv : VarsBelow nv s.nodes)
    (t : Nat) (ht : t < s.nodes.size) : TT.DetBy nv (eval s t) :=
  TT.detBy_eval s h t nv ht (fun x hx => depsF_below s nv hv _ _ x hx)

/-! ### the marks -/

theorem marks_mem (ts : List Nat) : ∀ (m : Array Bool) (i : Nat),
    (ts.foldl (fun m t => m.setIfInBounds t true) m).getD i false = true → m.getD i false = true ∨ i ∈ ts := by
  induction ts with
  | nil => intro m i hh; exact Or.inl hh
  | cons t ts ih =>
    intro m i hh
    rw [List.foldl_cons] at hh
    rcases ih _ i hh with h' | h'
    · by_cases e : t = i
      · exact Or.inr (e ▸ List.mem_cons_self ..)
      · left
        rw [Array.getD_eq_getD_getElem?, Array.getElem?_setIfInBounds, if_neg e] at h'
        rw [Array.getD_eq_getD_getElem?]; exact h'
    · exact Or.inr (List.mem_cons_of_mem _ h')

theorem marks_sound (size : Nat) (ts : List Nat) (i : Nat) (hh : (marks size ts).getD i false = true) : i ∈ ts := by
  rcases marks_mem ts _ i hh with h' | h'
  · rw [Array.getD_eq_getD_getElem?, Array.getElem?_replicate] at h'
    split at h' <;> simp at h'
  · exact h'

/-! ### soundness under the full invariant -/

theorem pow_split (m M nv d X : Nat) (hd : d ≤ nv) (h1 : m * 2 ^ (nv - d) = X) (h2 : M * 2 ^ nv = X * 2 ^ d) :
    m = M := by
  have e : 2 ^ nv = 2 ^ (nv - d) * 2 ^ d := by rw [← Nat.pow_add]; congr 1; omega
  apply Nat.eq_of_mul_eq_mul_right (Nat.two_pow_pos nv)
  rw [h2, ← h1, e, Nat.mul_assoc]

theorem sound_WF (nv : Nat) (exc : Bool) (s : Store) (r : Rows) (w : WF s)
    (hc : memoCheckF nv exc s.nodes r = true) : MemoSound nv exc s r := by
  have h := w.table
  unfold memoCheckF at hc
  simp only [Bool.and_eq_true] at hc
  obtain ⟨⟨⟨⟨⟨hvars, hu⟩, hite⟩, hres⟩, hcnt⟩, hdeps⟩ := hc
  have hv := varsOK_sound nv s.nodes hvars
  have rep := tt_of_node_rep s h nv
  have det := detBy_node s h nv hv
  have below : ∀ t, ∀ x ∈ depsF s (t+1) t, x < nv := fun t x hx => depsF_below s nv hv _ _ x hx
  generalize ttOf nv s.nodes = tt at *
  constructor
  · -- unique table, rows
    intro v lo hi t hm
    unfold uniqOK at hu
    simp only [Bool.and_eq_true] at hu
    have := List.all_eq_true.mp hu.1.2 (v, lo, hi, t) hm
    simp only [Bool.and_eq_true, decide_eq_true_eq] at this
    exact this
  · -- unique table, coverage
    intro t n ht hn
    unfold uniqOK at hu
    simp only [Bool.and_eq_true] at hu
    have hrow := List.all_eq_true.mp hu.1.2
    have := List.all_eq_true.mp hu.2 t (List.mem_range.mpr (lt_of_get hn))
    simp only [Bool.or_eq_true, decide_eq_true_eq] at this
    rcases this with h' | h'
    · omega
    · have hmem := marks_sound _ _ _ h'
      obtain ⟨⟨v, lo, hi, t'⟩, hr, e⟩ := List.mem_map.mp hmem
      simp only at e
      subst e
      have := hrow _ hr
      simp only [Bool.and_eq_true, decide_eq_true_eq] at this
      rw [hn] at this
      have e := Option.some.inj this.2
      subst e
      exact hr
  · -- ite rows
    intro i t e x hm
    have := List.all_eq_true.mp hite (i, t, e, x) hm
    simp only [Bool.and_eq_true, decide_eq_true_eq] at this
    obtain ⟨⟨⟨⟨hi, ht⟩, he⟩, hx⟩, heq⟩ := this
    refine ⟨hi, ht, he, hx, ?_⟩
    have r1 := rep x hx
    have r2 := TT.rep_ite (rep i hi) (rep t ht) (rep e he)
    rw [← heq] at r2
    have d2 : TT.DetBy nv (fun σ => if eval s i σ = true then eval s t σ else eval s e σ) := by
      intro σ σ' hag
      simp only [det i hi σ σ' hag, det t ht σ σ' hag, det e he σ σ' hag]
    exact fun σ => TT.rep_inj r1 r2 (det x hx) d2 σ
  · -- restrict rows
    intro t v b x hm
    have := List.all_eq_true.mp hres (t, v, b, x) hm
    simp only [Bool.and_eq_true, decide_eq_true_eq] at this
    obtain ⟨⟨ht, hx⟩, heq⟩ := this
    refine ⟨ht, hx, ?_⟩
    have r1 := rep x hx
    by_cases hvn : v < nv
    · rw [if_pos hvn] at heq
      have r2 := TT.rep_restrict (rep t ht) v b hvn
      rw [← heq] at r2
      have d2 : TT.DetBy nv (fun σ => eval s t (upd σ v b)) := by
        intro σ σ' hag
        apply det t ht
        intro y hy
        simp only [upd]
        split
        · rfl
        · exact hag y hy
      exact fun σ => TT.rep_inj r1 r2 (det x hx) d2 σ
    · rw [if_neg hvn] at heq
      have r2 := rep t ht
      rw [← heq] at r2
      intro σ
      rw [TT.rep_inj r1 r2 (det x hx) (det t ht) σ]
      apply det t ht
      intro y hy
      have : y ≠ v := by omega
      simp [upd, this]
  · -- count rows
    intro t cm m pcm pm d hm
    have := List.all_eq_true.mp hcnt (t, cm, m, pcm, pm, d) hm
    simp only [Bool.and_eq_true, Bool.or_eq_true, decide_eq_true_eq] at this
    obtain ⟨⟨⟨ht, hp⟩, hd⟩, hmod⟩ := this
    have hD := TT.depth_eq s h t ht nv _ (rep t ht) (below t)
    have hP := TT.paths_eq s h t ht nv _ (rep t ht) (below t)
    refine ⟨ht, by rw [hp, hP], by rw [hd, hD], ?_⟩
    intro hexc
    rcases hmod with h' | ⟨⟨hle, hm1⟩, hm2⟩
    · rw [hexc] at h'; cases h'
    · have ⟨c1, c2, _⟩ := C13.counts_vs_truth_table s w t ht nv _ (rep t ht) (below t)
      rw [← hD, ← hd] at c1 c2
      exact ⟨pow_split cm _ nv d _ hle hm2 c2, pow_split m _ nv d _ hle hm1 c1⟩
  · -- dependency lists
    intro ds hds
    rw [hds] at hdeps
    unfold depsOK at hdeps
    simp only [Bool.and_eq_true, decide_eq_true_eq] at hdeps
    refine ⟨hdeps.1, ?_⟩
    intro i hi
    have := List.all_eq_true.mp hdeps.2 i (List.mem_range.mpr hi)
    simp only [decide_eq_true_eq] at this
    refine ⟨_, this, ?_⟩
    intro x
    have ⟨_, _, c3⟩ := C13.counts_vs_truth_table s w i hi nv _ (rep i hi) (below i)
    exact (c3 x).symm

/-! ### the theorem -/

/-- **soundness of the audit**: if the dumped node table is structurally well formed, a positive
verdict of `memoCheckF` on the dumped private tables means `MemoSound` — for every store with
that node table -/
theorem memoCheckF_sound (nv : Nat) (exc : Bool) (s : Store) (r : Rows) (h : TableWF s.nodes)
    (hc : memoCheckF nv exc s.nodes r = true) : MemoSound nv exc s r := by
  obtain ⟨s', w', hn⟩ := exists_WF s.nodes h
  exact MemoSound.congr hn (sound_WF nv exc s' r w' (by rw [hn]; exact hc))

/-- … with both hypotheses in the form the test driver establishes them: `wfCheck` and
`memoCheckF` answer `true` on the dumped tables -/
theorem memoCheckF_sound_of_checks (nv : Nat) (exc : Bool) (table : Array Node) (r : Rows)
    (h : wfCheck table = true) (hc : memoCheckF nv exc table r = true) :
    MemoSound nv exc ⟨table, ∅, ∅, ∅⟩ r :=
  memoCheckF_sound nv exc ⟨table, ∅, ∅, ∅⟩ r (wfCheck_sound table h) hc

end MemoCheck

#print axioms MemoCheck.exists_WF
#print axioms MemoCheck.tt_of_node_rep
#print axioms MemoCheck.memoCheckF_sound
#print axioms MemoCheck.memoCheckF_sound_of_checks
