import AdfObdd.Cubes
import AdfObdd.CountsDef
import AdfObdd.CountsMore
import AdfObdd.PathsDepth
/-! helper lemmas for the combined C13 statements: the goal variable never occurs in an enumerated
cube with the non-goal value; impact counts against `Essential`; the arithmetic behind
`more_models` -/

/-- the goal variable never enters a cube on the side opposite to the goal -/
theorem cubes_goal_consistent (s : Store) : ∀ (fuel t : Nat) (goal : Bool) (gv : Nat) (neg pos : List Nat)
    (c : PCube), c ∈ cubesF s fuel t goal gv neg pos →
    (goal = true → gv ∉ neg → gv ∉ c.1) ∧ (goal = false → gv ∉ pos → gv ∉ c.2) := by
  intro fuel
  induction fuel with
  | zero => intro t goal gv neg pos c h; simp [cubesF] at h
  | succ f ih =>
    intro t goal gv neg pos c hc
    unfold cubesF at hc
    by_cases h2 : t < 2
    · rw [if_pos h2] at hc; cases hc
    · rw [if_neg h2] at hc
      cases hn : s.nodes[t]? with
      | none => simp only [hn] at hc; cases hc
      | some n =>
        simp only [hn] at hc
        rcases List.mem_append.mp hc with hc | hc
        · split at hc
          · rename_i hcond
            split at hc
            · split at hc
              · rw [List.mem_singleton.mp hc]
                refine ⟨fun _ h => h, fun hg hp => ?_⟩
                simp only [List.mem_append, List.mem_singleton, not_or]
                refine ⟨hp, ?_⟩
                rcases hcond with h | h
                · exact h
                · rw [hg] at h; cases h
              · cases hc
            · have ⟨a, b⟩ := ih n.hi goal gv neg (pos ++ [n.var]) c hc
              refine ⟨a, fun hg hp => b hg ?_⟩
              simp only [List.mem_append, List.mem_singleton, not_or]
              refine ⟨hp, ?_⟩
              rcases hcond with h | h
              · exact h
              · rw [hg] at h; cases h
          · cases hc
        · split at hc
          · rename_i hcond
            split at hc
            · split at hc
              · rw [List.mem_singleton.mp hc]
                refine ⟨fun hg hp => ?_, fun _ h => h⟩
                simp only [List.mem_append, List.mem_singleton, not_or]
                refine ⟨hp, ?_⟩
                rcases hcond with h | h
                · exact h
                · rw [hg] at h; cases h
              · cases hc
            · have ⟨a, b⟩ := ih n.lo goal gv (neg ++ [n.var]) pos c hc
              refine ⟨fun hg hp => a hg ?_, b⟩
              simp only [List.mem_append, List.mem_singleton, not_or]
              refine ⟨hp, ?_⟩
              rcases hcond with h | h
              · exact h
              · rw [hg] at h; cases h
          · cases hc

/-- an assignment inside an enumerated cube can be moved to the goal value at the goal variable
without leaving the cube -/
theorem cube_allows_goal (s : Store) (t : Nat) (goal : Bool) (gv : Nat) (c : PCube)
    (hc : c ∈ cubesF s (t+1) t goal gv [] []) (σ : Asg) (hin : InPC c σ) : InPC c (upd σ gv goal) := by
  have ⟨a, b⟩ := cubes_goal_consistent s (t+1) t goal gv [] [] c hc
  constructor
  · intro x hx
    by_cases e : x = gv
    · subst e
      cases goal with
      | true => exact absurd hx (a rfl (by simp))
      | false => simp [upd]
    · simp only [upd, if_neg e]; exact hin.1 x hx
  · intro x hx
    by_cases e : x = gv
    · subst e
      cases goal with
      | false => exact absurd hx (b rfl (by simp))
      | true => simp [upd]
    · simp only [upd, if_neg e]; exact hin.2 x hx

open Classical in
/-- passive impact against the independent notion `Essential` -/
theorem passive_eq_countP (s : Store) (w : WF s) (v : Nat) (ts : List Nat)
    (hts : ∀ t ∈ ts, t < s.nodes.size) :
    passive s v ts = ts.countP (fun t => decide (Essential (eval s t) v)) := by
  unfold passive
  rw [← List.countP_eq_length_filter]
  apply List.countP_congr
  intro t ht
  simp only [List.contains_iff_mem, decide_eq_true_eq]
  exact deps_exact s w t v (hts t ht)

open Classical in
/-- active impact against the independent notion `Essential` -/
theorem active_eq_countP (s : Store) (w : WF s) (v : Nat) (ts : List Nat) (hv : v < ts.length)
    (ht : ts[v] < s.nodes.size) :
    active s v ts = (List.range ts.length).countP (fun i => decide (Essential (eval s ts[v]) i)) := by
  unfold active
  rw [← List.countP_eq_length_filter]
  have e : ts.getD v 0 = ts[v] := by simp [List.getD, hv]
  rw [e]
  apply List.countP_congr
  intro i _
  simp only [List.contains_iff_mem, decide_eq_true_eq]
  exact deps_exact s w ts[v] i ht

/-- the arithmetic behind `more_models`: two pairs in the same positive ratio compare alike -/
theorem ratio_ge_iff (m cm a b p q : Nat) (hp : 0 < p) (hq : 0 < q)
    (h1 : m * p = a * q) (h2 : cm * p = b * q) : m ≥ cm ↔ a ≥ b := by
  constructor
  · intro h
    have : cm * p ≤ m * p := Nat.mul_le_mul_right p h
    rw [h1, h2] at this
    exact Nat.le_of_mul_le_mul_right this hq
  · intro h
    have : b * q ≤ a * q := Nat.mul_le_mul_right q h
    rw [← h1, ← h2] at this
    exact Nat.le_of_mul_le_mul_right this hp
