import AdfObdd.CliModesProofs
/-! # The fuel hypothesis of the text-level CLI model, hybrid arm and monotonicity (review 2, item 4)

`CliM.haltedParsed W fuel i st` ("no nogood-learning search of the invocation hit the bound") is a
hypothesis of `C15.cli_text_faithful`. `CliMP.halted_naive_eventually` discharged it for the naive arm
from some bound on. Here:

* `fuel_mono`: the hypothesis is MONOTONE in the bound and a halted run does not depend on it - if it
  holds for `fuel` it holds for every `fuel' ≥ fuel`, and `runParsed` / `runText` return the same
  value for both. So "from some bound on" is one threshold `F0`: below it the model prints a
  prefix, from `F0` on the output is constant (purely structural, no hypothesis about the world);
* `halted_hybrid_eventually`: the HYBRID arm - the default of the binary and the only one that wires
  `--twoval` - has such a threshold for every invocation on a well-formed framework (same hypotheses
  as `runParsed_faithful`: labels acceptable to the library, no duplicate condition with `--stmrew`,
  the dump law);
* `halted_eventually`: all three arms.

RELATION TO THE DRIVER'S BOUND 1 000 000 (Drv/Cli.lean): none is proved. C05's termination proof is a
well-founded measure without an explicit number; the theorems say that a threshold exists, and by
monotonicity `haltedParsed W 1000000 i st = true` holds iff that threshold is ≤ 10^6. Whether it is,
for the runs of the correspondence check, is decided by EVALUATION (the driver computes the same
Boolean - a run that hit the bound would print a prefix and differ from the binary), not by the
kernel. -/
namespace CliMP
open CliM ParserM FromParser Cli SortModel

/-! ## monotonicity in the bound -/

theorem secHalts_mono (heu : SM.Heu) (n : Nat) (ac : List Nat) (sec : Section) (s : Store) {a b : Nat}
    (ha : secHalts a heu n ac sec s = true) (hab : a ≤ b) : secHalts b heu n ac sec s = true := by
  cases sec with
  | twoval => exact CliF.ngSearch_done_mono heu s n ac false ha hab
  | stmng => exact CliF.ngSearch_done_mono heu s n ac true ha hab
  | _ => rfl

theorem secNaive_stable (heu : SM.Heu) (n : Nat) (ac : List Nat) (sec : Section) (s : Store) {a b : Nat}
    (ha : secHalts a heu n ac sec s = true) (hb : secHalts b heu n ac sec s = true) :
    secNaive a heu n ac sec s = secNaive b heu n ac sec s := by
  rw [secNaive_eq_F, secNaive_eq_F]
  rw [secHalts_eq_F] at ha hb
  exact CliF.runSectionF_stable heu sec s n ac ha hb

theorem secHybrid_stable (heu : SM.Heu) (cands : List (List Nat)) (n : Nat) (ac : List Nat) (sec : Section)
    (s : Store) {a b : Nat}
    (ha : secHalts a heu n ac sec s = true) (hb : secHalts b heu n ac sec s = true) :
    secHybrid a heu cands n ac sec s = secHybrid b heu cands n ac sec s := by
  by_cases hsec : sec = .stmrew
  · subst hsec; rfl
  · rw [secHybrid_ne a heu cands ac sec s hsec, secHybrid_ne b heu cands ac sec s hsec]
    rw [secHalts_eq_F] at ha hb
    exact CliF.runSectionF_stable heu sec s n ac ha hb

/-- a halted sequence of sections stays halted under a larger bound and computes the same blocks -/
theorem haltsWith_mono (heu : SM.Heu) (n : Nat) (ac : List Nat) (R : Nat → Section → Store → Store × List (List Nat))
    (hR : ∀ (sec : Section) (s : Store) (a b : Nat), secHalts a heu n ac sec s = true →
      secHalts b heu n ac sec s = true → R a sec s = R b sec s) {a b : Nat} (hab : a ≤ b) :
    ∀ (l : List Section) (acc : Store × List Block),
      haltsWith (secHalts a heu n ac) (R a) l acc.1 = true →
      haltsWith (secHalts b heu n ac) (R b) l acc.1 = true ∧ runWith (R b) l acc = runWith (R a) l acc := by
  intro l
  induction l with
  | nil => intro acc _; exact ⟨rfl, rfl⟩
  | cons x xs ih =>
    intro acc h
    simp only [haltsWith, Bool.and_eq_true] at h
    have hb := secHalts_mono heu n ac x acc.1 h.1 hab
    have e := hR x acc.1 a b h.1 hb
    simp only [haltsWith, Bool.and_eq_true, runWith]
    rw [← e]
    have := ih ((R a x acc.1).1, acc.2 ++ [(x, (R a x acc.1).2)]) h.2
    exact ⟨⟨hb, this.1⟩, this.2⟩

/-- **fuel monotonicity**: if no search of the invocation hit the bound `fuel`, none hits a larger
bound, and the blocks are the same -/
theorem haltedParsed_mono {T : Type} (W : World T) (i : Inv) (st : PState) {fuel fuel' : Nat}
    (h : haltedParsed W fuel i st = true) (hf : fuel ≤ fuel') :
    haltedParsed W fuel' i st = true ∧ runParsed W fuel' i st = runParsed W fuel i st := by
  obtain ⟨mode, f, so, heu⟩ := i
  cases mode with
  | biodivine => exact ⟨rfl, rfl⟩
  | naive =>
    simp only [haltedParsed, runParsed, runNaive] at h ⊢
    cases hfp : fromParser st with
    | none => simp
    | some b =>
      simp only [hfp, Option.map_some] at h ⊢
      have := haltsWith_mono heu (dictSizeOf st) b.2 (fun k => secNaive k heu (dictSizeOf st) b.2)
        (fun sec s a b' ha hb => secNaive_stable heu _ _ sec s ha hb) hf (sections .naive f) (b.1, []) h
      exact ⟨this.1, by rw [this.2]⟩
  | hybrid =>
    simp only [haltedParsed, runParsed, runHybrid] at h ⊢
    cases hb : bioBuild (W.lib (dictSizeOf st)) st f.stmrew with
    | none => simp
    | some b =>
      simp only [hb, Option.map_some] at h ⊢
      have := haltsWith_mono heu (dictSizeOf st) (hybridStep (W.lib (dictSizeOf st)) W.dump b.1).2
        (fun k => secHybrid k heu (Bio.stableModelCandidates (W.lib (dictSizeOf st)) b.2 b.1) (dictSizeOf st)
          (hybridStep (W.lib (dictSizeOf st)) W.dump b.1).2)
        (fun sec s a b' ha hb => secHybrid_stable heu _ _ _ sec s ha hb) hf (sections .hybrid f)
        ((hybridStep (W.lib (dictSizeOf st)) W.dump b.1).1, []) h
      exact ⟨this.1, by rw [this.2]⟩

/-- the same for the whole run: exit status and stdout do not depend on the bound once it is large
enough for the invocation -/
theorem runText_fuel_irrelevant {T : Type} (W : World T) (i : Inv) (t : List Char) (st : PState)
    (hp : parsed W i t = some st) {fuel fuel' : Nat}
    (h : haltedParsed W fuel i st = true) (hf : fuel ≤ fuel') :
    runText W fuel' i t = runText W fuel i t := by
  unfold runText
  rw [hp]
  simp only [(haltedParsed_mono W i st h hf).2]

/-! ## the hybrid arm halts from some bound on -/

section hybridhalts
variable {n : Nat} {tts : List Nat} {D D' : List BoolFn}

/-- the sections of the hybrid arm, threading the store: from some bound on no search hits it -/
theorem haltsWith_hybrid_eventually (R : SpecSound.Reps n tts D) (hD : D.length = n) (hs : CliF.Same n D D')
    (cands : List (List Nat)) (hc : GoodCands n D cands)
    (heu : SM.Heu) (s1 : Store) (ac : List Nat) (w1 : WF s1) (hn : ac.length = n)
    (hv : ∀ t ∈ ac, t < s1.nodes.size) (hden : ac.map (eval s1) = D') :
    ∀ (l : List Section) (s : Store), WF s → Ext s1 s →
      ∃ F0, ∀ F, F0 ≤ F →
        haltsWith (secHalts F heu n ac) (secHybrid F heu cands n ac) l s = true := by
  intro l
  induction l with
  | nil => intro s _ _; exact ⟨0, fun _ _ => rfl⟩
  | cons x xs ih =>
    intro s ws es
    have hva : ∀ t ∈ ac, t < s.nodes.size := fun t ht => Nat.lt_of_lt_of_le (hv t ht) es.1
    have hd : ac.map (eval s) = D' := by rw [CI.map_eval_ext w1 es hv]; exact hden
    obtain ⟨F1, h1⟩ := CliF.section_halts hs heu x s ac ws hn hva hd
    have h1' : ∀ F, F1 ≤ F → secHalts F heu n ac x s = true := fun F hF => by
      rw [secHalts_eq_F]; exact h1 F hF
    have ⟨w2, e2, _⟩ := secHybrid_exact R hD hs cands hc F1 heu x s ac ws hn hva hd (h1' F1 (Nat.le_refl _))
    obtain ⟨F2, h2⟩ := ih _ w2 (Ext.trans es e2)
    refine ⟨max F1 F2, ?_⟩
    intro F hF
    have hF1 : F1 ≤ F := Nat.le_trans (Nat.le_max_left _ _) hF
    have hF2 : F2 ≤ F := Nat.le_trans (Nat.le_max_right _ _) hF
    simp only [haltsWith, Bool.and_eq_true]
    refine ⟨h1' F hF1, ?_⟩
    rw [secHybrid_stable heu cands n ac x s (h1' F hF1) (h1' F1 (Nat.le_refl _))]
    exact h2 F hF2

end hybridhalts

/-- **the hybrid arm, any flags (in particular `--twoval`, `--stmng`): from some bound on no search
hits it.** Hypotheses as in `runParsed_faithful`. -/
theorem halted_hybrid_eventually {T : Type} (W : World T) (ok : WorldOK W) (i : Inv) (hm : i.mode = .hybrid)
    {st : PState} {names : List Label} {acs : List (Label × Fml)}
    (h : Pres st names acs) (hwf : WfOn names acs) (hn : names.length ≤ VBOT)
    (hnames : names.all bioNameOK = true)
    (hone : i.flags.stmrew = true → (acs.map (·.1)).Nodup)
    (hdump : DumpOKW W ok) :
    ∃ F0, ∀ fuel, F0 ≤ fuel → haltedParsed W fuel i st = true := by
  have R := reps_condsOn names acs
  have hD := condsOn_length names acs
  have hdet := condsOn_det names acs
  obtain ⟨mode, f, so, heu⟩ := i
  cases hm
  have hsz : dictSizeOf st = names.length := h.p.size
  obtain ⟨items, hw, hlt, hb, hl, hv, hden⟩ := bioBuild_facts (ok.law names.length hn) h hwf hn hnames f.stmrew
  have hg : Bio.GoodRewrite (ok.law names.length hn)
      (Bio.acOf (W.lib names.length) names.length (items.map (·.1)) (items.map fun pf => fmToBExpr pf.2))
      (if f.stmrew = true then some (Bio.stmRewriting (W.lib names.length) (items.map (·.1))
        (items.map fun pf => fmToBExpr pf.2)) else none) := by
    by_cases hr : f.stmrew = true
    · rw [if_pos hr]
      have hi : omap (itemOf names) acs = some items := by rw [← workList_presents h.p]; exact hw
      exact Bio.stmRewriting_good (ok.law names.length hn) _ _
        (by intro φ hφ
            obtain ⟨pf, hpf, rfl⟩ := List.mem_map.mp hφ
            exact fmToBExpr_closed _ _ (hlt pf hpf))
        (items_order_lt names acs items hi) (items_order_nodup names acs items hi (hone hr))
        (by simp)
    · rw [if_neg hr]; trivial
  have ⟨w1, v1, l1, g, hlfp, hpre⟩ := hybridStep_spec (ok.law names.length hn) (hdump names.length hn) _ hv hl
  rw [hden] at hlfp hpre
  have hs := CliF.Same.pre hD hdet hlfp
  have hc : GoodCands names.length (condsOn names acs) (Bio.stableModelCandidates (W.lib names.length)
      (if f.stmrew = true then some (Bio.stmRewriting (W.lib names.length) (items.map (·.1))
        (items.map fun pf => fmToBExpr pf.2)) else none)
      (Bio.acOf (W.lib names.length) names.length (items.map (·.1)) (items.map fun pf => fmToBExpr pf.2))) := by
    obtain ⟨R0, vals, hR, hse, he⟩ := Bio.candidates_enum (ok.law names.length hn) _ _ hv hl hg
    rw [hden] at hR
    exact ⟨R0, vals, hR, hse, he⟩
  obtain ⟨F0, h0⟩ := haltsWith_hybrid_eventually R hD hs _ hc heu _ _ w1 l1 v1 hpre (sections .hybrid f) _ w1
    (Ext.refl _)
  refine ⟨F0, fun fuel hf => ?_⟩
  simp only [haltedParsed, hsz, hb]
  exact h0 fuel hf

/-- **every arm**: the fuel hypothesis of `cli_text_faithful` holds from some bound on (and, by
`haltedParsed_mono`, that bound is a threshold) -/
theorem halted_eventually {T : Type} (W : World T) (ok : WorldOK W) (i : Inv)
    {st : PState} {names : List Label} {acs : List (Label × Fml)}
    (h : Pres st names acs) (hwf : WfOn names acs) (hn : names.length ≤ VBOT)
    (hnames : i.mode = .hybrid → names.all bioNameOK = true)
    (hone : i.mode = .hybrid → i.flags.stmrew = true → (acs.map (·.1)).Nodup)
    (hdump : i.mode = .hybrid → DumpOKW W ok) :
    ∃ F0, ∀ fuel, F0 ≤ fuel → haltedParsed W fuel i st = true := by
  cases hm : i.mode with
  | naive => exact halted_naive_eventually W i hm h hwf hn
  | biodivine => exact ⟨0, fun fuel _ => halted_of_no_search W fuel i st (Or.inl hm)⟩
  | hybrid => exact halted_hybrid_eventually W ok i hm h hwf hn (hnames hm) (hone hm) (hdump hm)

/-- the same in terms of the written facts (the form `runText_faithful` takes its hypothesis in) -/
theorem halted_text_eventually {T : Type} (W : World T) (ok : WorldOK W) (i : Inv)
    (fs : List Fact) (hwf : WellFormedAdf fs) (hn : (namesOf fs).length ≤ VBOT)
    (hnames : i.mode = .hybrid → (namesOf fs).all bioNameOK = true)
    (hone : i.mode = .hybrid → i.flags.stmrew = true → ((acsOf fs).map (·.1)).Nodup)
    (hdump : i.mode = .hybrid → DumpOKW W ok) :
    ∃ F0, ∀ fuel, F0 ≤ fuel →
      haltedParsed W fuel i (sortState W.anSort i.sort (PState.ofFacts fs)) = true := by
  have pres := pres_sortState W.anSort ok.an i.sort (pres_ofFacts fs)
  have hperm := sortedNames_perm W.anSort ok.an i.sort (namesOf fs)
  have hwf' : WfOn (sortedNames W.anSort i.sort (namesOf fs)) (acsOf fs) := wfOn_perm hperm hwf
  exact halted_eventually W ok i pres hwf' (by rw [hperm.length_eq]; exact hn)
    (fun hm => by
      have := hnames hm
      rw [List.all_eq_true] at this ⊢
      exact fun x hx => this x (hperm.mem_iff.mp hx))
    hone hdump

end CliMP
#print axioms CliMP.haltedParsed_mono
#print axioms CliMP.halted_hybrid_eventually
#print axioms CliMP.halted_eventually
