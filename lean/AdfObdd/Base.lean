abbrev Asg := Nat → Bool
abbrev BoolFn := Asg → Bool
def upd (σ : Asg) (v : Nat) (b : Bool) : Asg := fun x => if x = v then b else σ x
