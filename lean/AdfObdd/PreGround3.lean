import AdfObdd.PreGround2
/-! prototype 40: pre-grounding does not change the stability test (C03, pre-grounded hybrid
    pipeline): for a total `v` above the grounded interpretation `g`, the reduct of the
    pre-grounded conditions has exactly the fixpoints of the reduct of the original ones -/

theorem over_comm (σ : Asg) (g v : I3) (hgv : Le3 g v) :
    over (over σ 0 (falsePart v)) 0 g = over (over σ 0 g) 0 (falsePart v) := by
  funext x
  rw [over_apply, over_apply, over_apply, over_apply]
  simp only [Nat.zero_le, if_true, Nat.sub_zero]
  rw [falsePart_get]
  cases hgx : g[x]? with
  | none => rfl
  | some o =>
    cases o with
    | none => rfl
    | some b =>
      have := hgv x b hgx
      rw [this]
      cases b <;> simp

theorem redu_pre (D : List BoolFn) (g v : I3) (hgv : Le3 g v) : redu (pre D g) v = pre (redu D v) g := by
  simp only [redu, pre, List.map_map]
  apply List.map_congr_left
  intro f _
  funext σ
  simp only [Function.comp]
  rw [over_comm σ g v hgv]

theorem selfForced_redu {D : List BoolFn} {g v : I3} (sf : SelfForced D g) (hgv : Le3 g v) :
    SelfForced (redu D v) g := by
  intro i b f hg hf σ
  simp only [redu, List.getElem?_map] at hf
  cases hd : D[i]? with
  | none => simp [hd] at hf
  | some f0 =>
    simp only [hd, Option.map_some, Option.some.injEq] at hf
    subst hf
    simp only
    rw [← over_comm σ g v hgv]
    exact sf i b f0 hg hd _

/-- C03, pre-grounded pipeline: same fixpoints of the reduct's operator, hence the same least
fixpoint, hence (with `stable_check_iff`) the same verdict of the stability test -/
theorem pre_reduct_fix_iff (D : List BoolFn) (g v w : I3) (hg : IsLfp D g) (hgv : Le3 g v) :
    Gam (redu (pre D g) v) w = w ↔ Gam (redu D v) w = w := by
  have hl : g.length ≤ (redu D v).length := by
    have := congrArg List.length hg.1; rw [Gam_length] at this; simp [redu]; omega
  rw [redu_pre D g v hgv, pre_fix_iff (redu D v) g w hl (selfForced_redu (selfForced_of_fix hg.1) hgv)]
  exact ⟨fun x => x.1, fun x => ⟨x, lfp_le_reduct_fix D g v w hg hgv x⟩⟩

theorem pre_reduct_lfp_iff (D : List BoolFn) (g v L : I3) (hg : IsLfp D g) (hgv : Le3 g v) :
    IsLfp (redu (pre D g) v) L ↔ IsLfp (redu D v) L := by
  unfold IsLfp
  constructor
  · intro ⟨h1, h2⟩
    exact ⟨(pre_reduct_fix_iff D g v L hg hgv).mp h1, fun w' hw' => h2 w' ((pre_reduct_fix_iff D g v w' hg hgv).mpr hw')⟩
  · intro ⟨h1, h2⟩
    exact ⟨(pre_reduct_fix_iff D g v L hg hgv).mpr h1, fun w' hw' => h2 w' ((pre_reduct_fix_iff D g v w' hg hgv).mp hw')⟩
#print axioms pre_reduct_lfp_iff
