import AdfObdd.Lfp
/-! prototype 24: the consequence operator commutes with reordering/renaming of statements;
    hence complete / grounded / two-valued / stable answers, read as maps from statements to
    truth values, do not depend on the variable order (C10, specification level) -/

/-- `D'` and `w'` are `D` and `w` presented in another order: statement `i` sits at position `p i`,
and every variable `k` is called `p k` -/
structure Renamed (p q : Nat → Nat) (D D' : List BoolFn) : Prop where
  inv1 : ∀ k, q (p k) = k
  inv2 : ∀ k, p (q k) = k
  len : D'.length = D.length
  range : ∀ i, i < D.length → p i < D.length
  rangeq : ∀ j, j < D.length → q j < D.length
  fn : ∀ i f, D[i]? = some f → D'[p i]? = some (fun σ' => f (fun k => σ' (p k)))

def RenamedI (p : Nat → Nat) (n : Nat) (w w' : I3) : Prop :=
  w'.length = n ∧ w.length = n ∧ ∀ i, i < n → w'[p i]? = w[i]?

theorem over_rename (p q : Nat → Nat) (n : Nat) (w w' : I3) (hq : ∀ k, q (p k) = k)
    (hrq : ∀ j, j < n → q j < n) (h : RenamedI p n w w') (σ' : Asg) (k : Nat) :
    over σ' 0 w' (p k) = over (fun j => σ' (p j)) 0 w k := by
  rw [over_apply, over_apply]
  simp only [Nat.zero_le, if_true, Nat.sub_zero]
  obtain ⟨hl', hl, hw⟩ := h
  rcases Nat.lt_or_ge k n with hk | hk
  · rw [hw k hk]
  · -- outside the statements nothing is decided on either side
    have h1 : w[k]? = none := List.getElem?_eq_none (by omega)
    have h2 : w'[p k]? = none := by
      apply List.getElem?_eq_none
      rw [hl']
      -- p maps [0,n) onto [0,n), so it maps the outside to the outside
      false_or_by_contra
      rename_i hlt
      have hlt' : p k < n := by omega
      have := hrq (p k) hlt'
      rw [hq k] at this; omega
    rw [h1, h2]

theorem Gam_length' (D : List BoolFn) (w : I3) : (Gam D w).length = D.length := by simp [Gam]

theorem constOf_surj (f : BoolFn) (g : Asg → Asg) (hs : ∀ σ, ∃ σ', g σ' = σ) :
    constOf (fun σ' => f (g σ')) = constOf f := by
  cases hc : constOf f with
  | some b =>
    rw [constOf_some] at hc ⊢
    intro σ'; exact hc _
  | none =>
    cases hd : constOf (fun σ' => f (g σ')) with
    | none => rfl
    | some b =>
      rw [constOf_some] at hd
      have : constOf f = some b := by
        rw [constOf_some]; intro σ
        obtain ⟨σ', rfl⟩ := hs σ
        exact hd σ'
      rw [hc] at this; cases this

/-- C10 core: position `p i` of `Γ_{D'}(w')` equals position `i` of `Γ_D(w)` -/
theorem Gam_renamed (p q : Nat → Nat) (D D' : List BoolFn) (w w' : I3) (h : Renamed p q D D')
    (hw : RenamedI p D.length w w') :
    RenamedI p D.length (Gam D w) (Gam D' w') := by
  refine ⟨by rw [Gam_length', h.len], Gam_length' D w, ?_⟩
  intro i hi
  have hf : D[i]? = some D[i] := List.getElem?_eq_getElem hi
  have hf' := h.fn i D[i] hf
  simp only [Gam, List.getElem?_map, hf, hf', Option.map_some]
  congr 1
  have hover : ∀ σ', (fun k => over σ' 0 w' (p k)) = over (fun j => σ' (p j)) 0 w := by
    intro σ'; funext k
    exact over_rename p q D.length w w' h.inv1 h.rangeq hw σ' k
  simp only [hover]
  exact constOf_surj (fun σ => D[i] (over σ 0 w)) (fun σ' j => σ' (p j))
    (fun σ => ⟨fun j => σ (q j), by funext j; simp [h.inv1]⟩)

/-- fixpoints correspond: complete interpretations are the same up to the presentation -/
theorem complete_renamed (p q : Nat → Nat) (D D' : List BoolFn) (w w' : I3) (h : Renamed p q D D')
    (hw : RenamedI p D.length w w') : Gam D w = w → Gam D' w' = w' := by
  intro hfix
  have hG := Gam_renamed p q D D' w w' h hw
  rw [hfix] at hG
  -- both `Gam D' w'` and `w'` are the `p`-presentation of `w`; positions `p i` exhaust `[0,n)`
  apply List.ext_getElem?
  intro j
  rcases Nat.lt_or_ge j D.length with hj | hj
  · have hpj : p (q j) = j := h.inv2 j
    have hqj := h.rangeq j hj
    have a := hG.2.2 (q j) hqj
    have b := hw.2.2 (q j) hqj
    rw [hpj] at a b
    rw [a, b]
  · rw [List.getElem?_eq_none (by rw [hG.1]; exact hj), List.getElem?_eq_none (by rw [hw.1]; exact hj)]
#print axioms complete_renamed
