import AdfObdd.ServerProv
/-! # C16 / C17 — the theorem for ALL histories, with finding D9 as its explicit carve-out

Corollaries of `GoodT.runAll` (`ServerStale.lean`) and `Prov.run` (`ServerProv.lean`):

* `no_d9_all_belong`: a history NO prefix of which shows D9's shape (`d9Shape`: a document appears under a
  key while an unwritten task of that key exists / another document carries the key) - deletions,
  account removals and renames allowed - reaches only states in which EVERY document stores only what
  belongs to its own code.
* `recreated_clean_belongs` (per key): if, at the last moment a document appeared under the key
  `(u, n)`, it was created by `POST /adf/add` while no unwritten task of that key existed, then
  whatever the document under that key stores afterwards belongs to its own code - whatever else
  happened before (stale writes into earlier documents included) and whatever happens to other keys.
  The hypothesis that fails in D9's history is exactly `pendingAt … = false`.
* `subsRun_sound`: every (parsing, code) pair recorded for a key is the pair of a document that existed
  at some point of the history. -/
namespace ServerM
section
variable {T H A R : Type} [DecidableEq T]

theorem runAll_append (E : Env T H A R) : ∀ (a b : List (Event T)) (st : State T H A R),
    (runAll E st (a ++ b)).1 = (runAll E (runAll E st a).1 b).1 := by
  intro a
  induction a with
  | nil => intro b st; rfl
  | cons e es ih => intro b st; exact ih b _

theorem taintRun_append (E : Env T H A R) : ∀ (a b : List (Event T)) (st : State T H A R) (tn : T → T → Bool),
    taintRun E st tn (a ++ b) = taintRun E (runAll E st a).1 (taintRun E st tn a) b := by
  intro a
  induction a with
  | nil => intro b st tn; rfl
  | cons e es ih => intro b st tn; exact ih b _ _

/-! ### no D9 shape anywhere -/

/-- no prefix of the history shows D9's STALE-WRITE shape at any key (a document appears under a key that
has an unwritten task or already a document). Formerly `NoD9` - renamed (review 2 item 5): the predicate
does NOT exclude D9's other symptom, the LOST write (the key is renamed or deleted while a task runs and
the task's write matches nothing; `ServerLive.lean`: `NoLostWrite`, `histLost`) -/
def NoStaleWrite (E : Env T H A R) : State T H A R → List (Event T) → Prop
  | _, [] => True
  | st, e :: es => (∀ u n, d9Shape E st e u n = false) ∧ NoStaleWrite E (stepEv E st e).1 es

theorem taintStep_noD9 (E : Env T H A R) (st : State T H A R) (e : Event T) (tn : T → T → Bool)
    (h0 : ∀ u n, tn u n = false) (hd : ∀ u n, d9Shape E st e u n = false) : ∀ u n, taintStep E st e tn u n = false := by
  intro u n
  unfold taintStep
  split
  · rename_i hlt
    have := hd u n
    unfold d9Shape at this
    simp only [hlt, decide_true, Bool.true_and, Bool.or_eq_false_iff, decide_eq_false_iff_not, ne_eq, Decidable.not_not] at this
    rw [if_pos this.2, this.1]
    unfold srcTaint
    cases renameOf st e with
    | none => rfl
    | some x => simp [h0]
  · exact h0 u n

theorem taintRun_noD9 (E : Env T H A R) : ∀ (es : List (Event T)) (st : State T H A R) (tn : T → T → Bool),
    (∀ u n, tn u n = false) → NoStaleWrite E st es → ∀ u n, taintRun E st tn es u n = false := by
  intro es
  induction es with
  | nil => intro st tn h0 _; exact h0
  | cons e es ih => intro st tn h0 hd; exact ih _ _ (taintStep_noD9 E st e tn h0 hd.1) hd.2

/-- **no_d9_all_belong**: in every state reached from the empty server by a history that never shows
D9's shape (deletions, account removals, renames allowed), whatever a document stores belongs to its
own code -/
theorem no_d9_all_belong (E : Env T H A R) (es : List (Event T)) (hd : NoStaleWrite E {} es) (p : Problem T A R)
    (hp : p ∈ (runAll E {} es).1.db.problems) : DocOK E p :=
  reachable_untainted_belong_to_the_code E es p hp (taintRun_noD9 E es {} _ (fun _ _ => rfl) hd _ _)

/-- `NoStaleWrite` as a computation: D9's shape can only show at the key of a document of the new state -/
def noD9b (E : Env T H A R) : State T H A R → List (Event T) → Bool
  | _, [] => true
  | st, e :: es =>
    (stepEv E st e).1.db.problems.all (fun p => !d9Shape E st e p.username p.name) && noD9b E (stepEv E st e).1 es

theorem noD9b_sound (E : Env T H A R) : ∀ (es : List (Event T)) (st : State T H A R), noD9b E st es = true → NoStaleWrite E st es := by
  intro es
  induction es with
  | nil => intro _ _; trivial
  | cons e es ih =>
    intro st h
    simp only [noD9b, Bool.and_eq_true] at h
    refine ⟨fun u n => ?_, ih _ h.2⟩
    cases hd : d9Shape E st e u n with
    | false => rfl
    | true =>
      exfalso
      have hgrow : docsAt st.db u n < docsAt (stepEv E st e).1.db u n := by
        unfold d9Shape at hd
        simp only [Bool.and_eq_true, decide_eq_true_eq] at hd
        exact hd.1
      have hpos : 0 < docsAt (stepEv E st e).1.db u n := by omega
      obtain ⟨p, hp, hq⟩ := List.countP_pos_iff.mp hpos
      have hk := isProb_key hq
      have := List.all_eq_true.mp h.1 p hp
      rw [hk.1, hk.2, hd] at this
      cases this

/-! ### deletion-free histories never show D9's shape (section 8 of `Props/C16` as a corollary) -/

theorem renameOf_none_of_keeps (st : State T H A R) (e : Event T) (hk : e.keeps = true) : renameOf st e = none := by
  cases e with
  | req rq =>
    obtain ⟨jar, r⟩ := rq
    cases r <;> first | rfl | cases hk
  | finish _ _ => rfl
  | write _ _ => rfl
  | timeout _ _ => rfl

/-- in a state satisfying the invariant `Good` of `ServerReach.lean` (every task addresses an existing
document) an event that neither removes nor renames documents does not show D9's shape -/
theorem d9Shape_false_of_good (E : Env T H A R) {st : State T H A R} (h : Good E st.db) (e : Event T)
    (hk : e.keeps = true) : ∀ u n, d9Shape E st e u n = false := by
  intro u n
  have nogrow : docsAt (stepEv E st e).1.db u n ≤ docsAt st.db u n → d9Shape E st e u n = false := by
    intro hle
    unfold d9Shape
    have : ¬ docsAt st.db u n < docsAt (stepEv E st e).1.db u n := by omega
    simp [this]
  cases stepEv_effect E st e with
  | keep hp ht => apply nogrow; unfold docsAt; rw [hp]; exact Nat.le_refl _
  | write t htm w hw hp ht =>
    apply nogrow; unfold docsAt
    rw [hp, countP_updFirst _ _ _ (fun x => isProb_apply _ _ w x)]; exact Nat.le_refl _
  | solve u' n' p a s t0 hf ha h1 h2 h3 hp ht => apply nogrow; unfold docsAt; rw [hp]; exact Nat.le_refl _
  | del u' n' hp ht => apply nogrow; unfold docsAt; rw [hp]; exact countP_delFirst_le _ _ _
  | delAll u' hp ht => apply nogrow; unfold docsAt; rw [hp]; exact countP_filter_le _ _ _
  | rename u' u'' hr hp ht => rw [renameOf_none_of_keeps st e hk] at hr; cases hr
  | add u' n' c pg t0 hnone h1 h2 h3 hp ht =>
    by_cases hkey : u = u' ∧ n = n'
    · obtain ⟨rfl, rfl⟩ := hkey
      have hz : docsAt st.db u n = 0 := by
        unfold docsAt
        rw [List.countP_eq_zero]
        intro p hp'
        exact List.find?_eq_none.mp hnone p hp'
      have hpend : pendingAt st.db u n = false := by
        cases hc : pendingAt st.db u n with
        | false => rfl
        | true =>
          exfalso
          unfold pendingAt at hc
          obtain ⟨t, htm, ht'⟩ := List.any_eq_true.mp hc
          simp only [Bool.and_eq_true, Bool.not_eq_true', decide_eq_true_eq] at ht'
          obtain ⟨p, hf, _⟩ := h.tasks t htm
          rw [ht'.1.2, ht'.2, hnone] at hf
          cases hf
      unfold d9Shape
      simp [hz, hpend]
    · apply nogrow
      unfold docsAt
      have hnew : isProb u' n' ({ name := n', username := u', code := c, parsing := pg } : Problem T A R) = true := by
        simp [isProb]
      rw [hp, countP_append_one, isProb_other hkey _ hnew]
      simp

/-- **deletion-free histories never show D9's shape**: `reachable_results_belong_to_the_code`
(`ServerReach.lean`) is the special case of `no_d9_all_belong` for them -/
theorem noD9_of_keeps (E : Env T H A R) : ∀ (es : List (Event T)) (st : State T H A R), Good E st.db →
    (∀ e ∈ es, e.keeps = true) → NoStaleWrite E st es := by
  intro es
  induction es with
  | nil => intro _ _ _; trivial
  | cons e es ih =>
    intro st h hk
    have hke := hk e (List.mem_cons_self ..)
    exact ⟨d9Shape_false_of_good E h e hke, ih _ (h.stepEv E e hke) (fun e' he' => hk e' (List.mem_cons_of_mem _ he'))⟩

/-! ### one key -/

/-- no event of the history makes a document appear under the key `(u, n)` -/
def NoGrowAt (E : Env T H A R) (u n : T) : State T H A R → List (Event T) → Prop
  | _, [] => True
  | st, e :: es => docsAt (stepEv E st e).1.db u n ≤ docsAt st.db u n ∧ NoGrowAt E u n (stepEv E st e).1 es

theorem taintRun_noGrow (E : Env T H A R) (u n : T) : ∀ (es : List (Event T)) (st : State T H A R) (tn : T → T → Bool),
    NoGrowAt E u n st es → taintRun E st tn es u n = tn u n := by
  intro es
  induction es with
  | nil => intro st tn _; rfl
  | cons e es ih =>
    intro st tn hg
    show taintRun E _ (taintStep E st e tn) es u n = _
    rw [ih _ _ hg.2, taintStep_same E st e tn u n hg.1]

/-- **recreated_clean_belongs**: split the history at the LAST event under which a document appeared under
the key `(u, n)` (`es2` makes none appear). If that event is not a rename request and found the key
without documents and WITHOUT UNWRITTEN TASKS (the hypothesis D9's history violates), then in the final
state every document under that key stores only what belongs to its own code. -/
theorem recreated_clean_belongs (E : Env T H A R) (es1 es2 : List (Event T)) (e : Event T) (u n : T)
    (hz : docsAt (runAll E {} es1).1.db u n = 0)
    (happ : 0 < docsAt (stepEv E (runAll E {} es1).1 e).1.db u n)
    (hpend : pendingAt (runAll E {} es1).1.db u n = false)
    (hren : renameOf (runAll E {} es1).1 e = none)
    (hg : NoGrowAt E u n (stepEv E (runAll E {} es1).1 e).1 es2)
    (p : Problem T A R) (hp : p ∈ (runAll E {} (es1 ++ e :: es2)).1.db.problems)
    (hk : p.username = u ∧ p.name = n) : DocOK E p := by
  apply reachable_untainted_belong_to_the_code E _ p hp
  rw [hk.1, hk.2, taintRun_append]
  show taintRun E _ (taintStep E _ e _) es2 u n = false
  rw [taintRun_noGrow E u n es2 _ _ hg]
  unfold taintStep
  rw [hz, if_pos happ, if_pos rfl, hpend]
  unfold srcTaint
  rw [hren]
  rfl

/-! ### what is recorded for a key -/

/-- the (parsing, code) pairs of all documents in all states the history passes through (after each event) -/
def everCodes (E : Env T H A R) : State T H A R → List (Event T) → List (Parsing × T)
  | _, [] => []
  | st, e :: es => (stepEv E st e).1.db.problems.map (fun p => (p.parsing, p.code)) ++ everCodes E (stepEv E st e).1 es

theorem subsRun_sound (E : Env T H A R) : ∀ (es : List (Event T)) (st : State T H A R) (sb : T → T → List (Parsing × T))
    (u n : T), ∀ x ∈ subsRun E st sb es u n, (∃ v m, x ∈ sb v m) ∨ x ∈ everCodes E st es := by
  intro es
  induction es with
  | nil => intro st sb u n x hx; exact Or.inl ⟨u, n, hx⟩
  | cons e es ih =>
    intro st sb u n x hx
    rcases ih _ _ u n x hx with ⟨v, m, hv⟩ | h
    · unfold subsStep at hv
      simp only [List.mem_append] at hv
      rcases hv with (h1 | h2) | h3
      · exact Or.inl ⟨v, m, h1⟩
      · right
        obtain ⟨p, hp, rfl⟩ := List.mem_map.mp h2
        show _ ∈ _ ++ _
        exact List.mem_append_left _ (List.mem_map.mpr ⟨p, (List.mem_filter.mp hp).1, rfl⟩)
      · cases hr : renameOf st e with
        | none => rw [hr] at h3; cases h3
        | some y =>
          rw [hr] at h3
          simp only at h3
          split at h3
          · exact Or.inl ⟨_, _, h3⟩
          · cases h3
    · right
      show _ ∈ _ ++ _
      exact List.mem_append_right _ h

/-- **reachable_results_from_submitted_codes** (ALL histories): every stored result is `E.solve a s` for a
framework `a = E.parse parsing code` of a (parsing, code) pair that is recorded for the document's key and
was the pair of a document that existed at some point of the history -/
theorem reachable_results_from_submitted_codes (E : Env T H A R) (es : List (Event T)) (p : Problem T A R)
    (hp : p ∈ (runAll E {} es).1.db.problems) (s : Strategy) (res : R) (hr : p.res.get s = .some res) :
    ∃ x ∈ subsRun E {} (fun _ _ => []) es p.username p.name, x ∈ everCodes E {} es ∧
      ∃ a r, E.parse x.1 x.2 = .ok (a, r) ∧ E.solve a s = .ok res := by
  obtain ⟨x, hx, a, r, h1, h2⟩ := (reachable_results_have_provenance E es p hp).2.2 s res hr
  refine ⟨x, hx, ?_, a, r, h1, h2⟩
  rcases subsRun_sound E es {} _ _ _ x hx with ⟨v, m, hv⟩ | h
  · cases hv
  · exact h

end
end ServerM
