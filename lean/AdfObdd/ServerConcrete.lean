import AdfObdd.ServerModel
import AdfObdd.ServerAdf
/-! # The web-service model instantiated with the concrete library models (C16)

`ServerM` is generic in its environment `Env` (string type, password hash, `parse`, `solve`). This
file is THE instance with the executable library models of `ServerAdf` (`parseNaive` = parser +
`Adf::from_parser` + graph, `solveAdf` = rebuild of the stored `SimplifiedAdf` + strategy + graphs).
Both the compiled driver (`Drv/Http.lean`, which runs it against the real server) and the theorems of
`Props/C16.lean` (`ServerConcreteProofs.lean`) use this one definition.

* `detail = true` (the C16 runs): outcomes are computed by the executable ADF models, except the node
  table of HYBRID parsing (`BdAdf::from_parser(..).hybrid_step_opt(false)`, biodivine's diagrams
  converted to the library's), which has no executable model here: it is adopted from the
  implementation (`Oracle.hyb`) after the specification check `storedAdfOK'` (`ServerAdf.lean`), which
  IMPLIES `SrvA.Denotes` (`ServerHybrid.lean`: `storedAdfOK'_denotes`); the same file models the arm
  itself (`parseHybrid` over a lawful biodivine library, `SrvC.hybEnv`) and proves `Denotes` for it.
* `detail = false` (the C17 runs): outcomes are opaque classes taken from the oracle.

Core + Std only (the driver links this file). -/
namespace SrvC
open ServerM ServerAdf

def lookupS {α : Type} (k : String) : List (String × α) → Option α
  | [] => none
  | (a, b) :: r => if a == k then some b else lookupS k r

abbrev SHash := Nat × String
abbrev SState := State String SHash SAdf SRes
abbrev SResp := Resp String SRes

/-- outcome classes reported by `taskdone … obs=` (opaque mode) or adopted tables (hybrid parsing) -/
structure Oracle where
  cls : List (String × Option Err) := []       -- key ↦ ok / error class
  hyb : List (String × SAdf) := []             -- hybrid parse: the stored ADF as observed (validated by `~`)

def parseKey (p : Parsing) (code : String) : String := (if p == .naive then "N|" else "H|") ++ code
def stratName : Strategy → String
  | .ground => "Ground" | .complete => "Complete" | .stable => "Stable"
  | .stableCountingA => "StableCountingA" | .stableCountingB => "StableCountingB" | .stableNogood => "StableNogood"
def solveKey (a : SAdf) (s : Strategy) : String := stratName s ++ "|" ++ a.key

/-- the library as the model sees it.  `detail = false` (C17 runs): outcomes are opaque and taken from
the oracle; `detail = true` (C16 runs): computed by the executable ADF models, except the node table of
hybrid parsing, which is adopted from the implementation after the specification check. -/
def mkEnv (detail : Bool) (o : Oracle) : Env String SHash SAdf SRes where
  emp := ""
  hash := fun salt pw => (salt, pw)
  verify := fun h pw => h.2 == pw
  parse := fun p code =>
    if detail then
      match p with
      | .naive => parseNaive (parseKey p code) code
      | .hybrid =>
        match parseOutcome code with
        | .error e => .error e
        | .ok _ =>
          match lookupS (parseKey p code) o.hyb with
          | some a => .ok (a, [⟨a.ac, graphOf a.names a.nodes a.ac⟩])
          | none => .error .panic
    else
      match lookupS (parseKey p code) o.cls with
      | some none => .ok ({ key := parseKey p code }, [])
      | some (some e) => .error e
      | none => .error .timeout
  solve := fun a s =>
    if detail then solveAdf a s
    else
      match lookupS (solveKey a s) o.cls with
      | some none => .ok []
      | some (some e) => .error e
      | none => .error .timeout

/-- **the concrete service**: the library computed by the executable models (`detail = true`) -/
abbrev libEnv (o : Oracle) : Env String SHash SAdf SRes := mkEnv true o

end SrvC
