import AdfObdd.Channel
/-! # Fair schedules end a two-party system: the generic argument

`Chan.fair_finishes` (Channel.lean) is proved for the concrete `Chan.step`.  The same argument is needed for
the rendezvous channel (`ChannelZero.lean`); it only uses five facts about the two step functions, collected
in `Sys.Laws`: the invariant is preserved, a step is a no-op or decreases the measure, the system is not
deadlocked before the end, the end is stable, and the measure is positive before the end. -/
namespace Chan

/-- a producer and a consumer acting on configurations `C` -/
structure Sys (C : Type) where
  prod : C → C
  cons : C → C
  inv : C → Prop
  fin : C → Bool
  meas : C → Nat

namespace Sys
variable {C : Type} (S : Sys C)

def step (c : C) : Ev → C
  | .prod => S.prod c
  | .cons => S.cons c

def run (sched : List Ev) (c : C) : C := sched.foldl S.step c

theorem run_append (a b : List Ev) (c : C) : S.run (a ++ b) c = S.run b (S.run a c) := by
  simp [run, List.foldl_append]

structure Laws : Prop where
  inv_step : ∀ c e, S.inv c → S.inv (S.step c e)
  progress : ∀ c e, S.inv c → S.step c e = c ∨ S.meas (S.step c e) < S.meas c
  nodead : ∀ c, S.inv c → S.fin c = false → S.prod c ≠ c ∨ S.cons c ≠ c
  fin_stays : ∀ c e, S.fin c = true → S.fin (S.step c e) = true
  pos : ∀ c, S.fin c = false → 0 < S.meas c

variable {S}

theorem run_inv (L : S.Laws) (sched : List Ev) : ∀ c, S.inv c → S.inv (S.run sched c) := by
  induction sched with
  | nil => intro c h; exact h
  | cons e es ih => intro c h; exact ih _ (L.inv_step c e h)

theorem run_meas_le (L : S.Laws) (sched : List Ev) : ∀ c, S.inv c → S.meas (S.run sched c) ≤ S.meas c := by
  induction sched with
  | nil => intro c _; exact Nat.le_refl _
  | cons e es ih =>
    intro c h
    have h1 := ih _ (L.inv_step c e h)
    show S.meas (S.run es (S.step c e)) ≤ _
    rcases L.progress c e h with h2 | h2
    · rw [h2] at h1 ⊢; exact h1
    · omega

theorem fin_run (L : S.Laws) (sched : List Ev) : ∀ c, S.fin c = true → S.fin (S.run sched c) = true := by
  induction sched with
  | nil => intro c h; exact h
  | cons e es ih => intro c h; exact ih _ (L.fin_stays c e h)

/-- a non-empty block of events of one kind whose first step moves decreases the measure -/
theorem block_moves (L : S.Laws) (x : Ev) (es : List Ev) (hall : ∀ e ∈ es, e = x) (hx : x ∈ es) (c : C)
    (hi : S.inv c) (hm : S.step c x ≠ c) : S.meas (S.run es c) < S.meas c := by
  cases es with
  | nil => cases hx
  | cons y ys =>
    have hy : y = x := hall y (List.mem_cons_self ..)
    subst hy
    show S.meas (S.run ys (S.step c y)) < _
    have h3 := run_meas_le L ys _ (L.inv_step c y hi)
    rcases L.progress c y hi with h4 | h4
    · exact absurd h4 hm
    · omega

theorem round_progress (L : S.Laws) (b : List Ev) (hp : Ev.prod ∈ b) (hc : Ev.cons ∈ b) :
    ∀ c, S.inv c → S.fin c = false → S.meas (S.run b c) < S.meas c := by
  induction b with
  | nil => cases hp
  | cons e es ih =>
    intro c hi hf
    show S.meas (S.run es (S.step c e)) < _
    rcases L.progress c e hi with h2 | h2
    · rw [h2]
      by_cases hp' : Ev.prod ∈ es
      · by_cases hc' : Ev.cons ∈ es
        · exact ih hp' hc' c hi hf
        · have he : e = Ev.cons := by
            rcases List.mem_cons.mp hc with x | x
            · exact x.symm
            · exact absurd x hc'
          subst he
          have hpm : S.step c .prod ≠ c := by
            rcases L.nodead c hi hf with x | x
            · exact x
            · exact absurd h2 x
          refine block_moves L .prod es ?_ hp' c hi hpm
          intro e' he'
          cases e' with
          | prod => rfl
          | cons => exact absurd he' hc'
      · have he : e = Ev.prod := by
          rcases List.mem_cons.mp hp with x | x
          · exact x.symm
          · exact absurd x hp'
        subst he
        have hc' : Ev.cons ∈ es := by
          rcases List.mem_cons.mp hc with x | x
          · cases x
          · exact x
        have hcm : S.step c .cons ≠ c := by
          rcases L.nodead c hi hf with x | x
          · exact absurd h2 x
          · exact x
        refine block_moves L .cons es ?_ hc' c hi hcm
        intro e' he'
        cases e' with
        | cons => rfl
        | prod => exact absurd he' hp'
    · have := run_meas_le L es _ (L.inv_step c e hi)
      omega

/-- every schedule with at least `meas` fair rounds reaches the end -/
theorem fair_finishes (L : S.Laws) : ∀ (m : Nat) (sched : List Ev), Fair m sched →
    ∀ c, S.inv c → S.meas c ≤ m → S.fin (S.run sched c) = true := by
  intro m sched hf
  induction hf with
  | zero l =>
    intro c _ hle
    have : S.fin c = true := by
      cases hcd : S.fin c with
      | true => rfl
      | false => have := L.pos c hcd; omega
    exact fin_run L l c this
  | round b rest hp hc _ ih =>
    intro c h hle
    rw [run_append]
    cases hcd : S.fin c with
    | true => exact fin_run L rest _ (fin_run L b c hcd)
    | false =>
      have := round_progress L b hp hc c h hcd
      exact ih _ (run_inv L b c h) (by omega)

end Sys
end Chan
