import AdfObdd.HybridProofs
import AdfObdd.CountExact
import AdfObdd.NgEndToEnd
/-! # The hybrid back-end, proofs (part 2): every semantics on the hybrid-built native object

`Bio.hybridStep L dump opt ac` = `hybrid_step_opt(opt)` (HybridModel.lean). Hypotheses everywhere:
`W : Bio.Lawful L n` (the assumption about biodivine's operations, BioModel.lean), `hd : Bio.DumpSpec W
dump` (the assumption about its dump), `ac` valid diagrams, `ac.length = n`. The ORIGINAL framework is
`D := ac.map W.den`. Each theorem runs the native algorithm on the store/handles built by
`hybridStep` and characterises the answer by `D` - for BOTH values of `opt`. -/

/-- the functions handed to the native store: `D` itself or `D` with its grounded interpretation
substituted - in both cases the same least fixpoint, fixpoints and stable models as `D` -/
theorem hyb_transfer {D D' : List BoolFn} {g : I3} (opt : Bool) (hg : IsLfp D g)
    (e : D' = if opt then pre D g else D) :
    (∀ x, IsLfp D' x ↔ IsLfp D x) ∧ (∀ w, Gam D' w = w ↔ Gam D w = w) ∧
    (∀ v, StableExact.StableI D' v ↔ StableExact.StableI D v) := by
  cases opt with
  | false => simp only [Bool.false_eq_true, if_false] at e; subst e; exact ⟨fun _ => Iff.rfl, fun _ => Iff.rfl, fun _ => Iff.rfl⟩
  | true =>
    simp only [if_true] at e; subst e
    exact ⟨fun x => pre_isLfp_iff D g x hg, fun w => pre_complete_iff D g w hg, fun v => pre_stableI_iff D g v hg⟩

theorem pre_detBy {n : Nat} {f : BoolFn} (g : I3) (h : TT.DetBy n f) : TT.DetBy n (fun σ => f (over σ 0 g)) := by
  intro σ τ hst
  apply h
  intro x hx
  rw [over_apply, over_apply]
  simp only [Nat.zero_le, if_true, Nat.sub_zero]
  cases hgx : g[x]? with
  | none => exact hst x hx
  | some o => cases o with
    | none => exact hst x hx
    | some b => rfl

namespace Bio
section hybrid
variable {T : Type} {L : Lib T} {n : Nat} (W : Lawful L n) {dump : T → List Node} (hd : DumpSpec W dump)
include hd

/-- **grounded**: `Adf::grounded` on the hybrid-built object is the least fixpoint of Γ for the original
framework, and it is the vector the biodivine back-end itself reports -/
theorem hybrid_grounded (opt : Bool) (ac : List T) (hv : ∀ a ∈ ac, W.Valid a) (hn : ac.length = n) :
    let r := hybridStep L dump opt ac
    let out := (groundedLoop StoreRA (n + 1) r.1 r.2).2.map storeIsConst
    IsLfp (ac.map W.den) out ∧ out = (bioGrounded L ac).map storeIsConst := by
  intro r out
  obtain ⟨w, hl, hlt, g, hg, eg, e⟩ := hybridStep_spec W hd opt ac hv hn
  have h := grounded_native (n + 1) r.1 r.2 w hlt (Nat.lt_succ_of_le (Nat.le_of_eq hl))
  have h' : IsLfp (ac.map W.den) out := ((hyb_transfer opt hg e).1 out).mp h
  exact ⟨h', by rw [← eg]; exact isLfp_unique h' hg⟩

/-- **complete**: `Adf::complete` on the hybrid-built object lists, without duplicates and the grounded
interpretation first, exactly the fixpoints of Γ of the original framework -/
theorem hybrid_complete (opt : Bool) (ac : List T) (hv : ∀ a ∈ ac, W.Valid a) (hn : ac.length = n) :
    let r := hybridStep L dump opt ac
    let c := completeAll r.1 n r.2
    (c.2.2.map (fun v => v.map storeIsConst)).Nodup ∧
    (∀ w : I3, w ∈ c.2.2.map (fun v => v.map storeIsConst) ↔ (w.length = n ∧ Gam (ac.map W.den) w = w)) ∧
    c.2.2.head? = some c.2.1 ∧ IsLfp (ac.map W.den) (c.2.1.map storeIsConst) := by
  intro r c
  obtain ⟨w, hl, hlt, g, hg, eg, e⟩ := hybridStep_spec W hd opt ac hv hn
  have ⟨a, b, c'⟩ := CompleteExact.completeAll_exact r.1 n r.2 w hl hlt
  have st := (CompleteExact.completeAll_store r.1 n r.2 w hl hlt).2.2
  refine ⟨a, fun x => ?_, c', ?_⟩
  · rw [b x, (hyb_transfer opt hg e).2.1 x]
  · show IsLfp _ ((completeAll r.1 n r.2).2.1.map storeIsConst)
    rw [st]
    exact (hybrid_grounded W hd opt ac hv hn).1

/-- **stable** (`Adf::stable` and `Adf::stable_with_prefilter`): on the hybrid-built object both list,
without duplicates, exactly the stable models of the original framework, and the same list -/
theorem hybrid_stable (opt : Bool) (ac : List T) (hv : ∀ a ∈ ac, W.Valid a) (hn : ac.length = n) :
    let r := hybridStep L dump opt ac
    let out := (stableAll r.1 n r.2).2.map (fun v => v.map storeIsConst)
    out.Nodup ∧ (∀ v : I3, v ∈ out ↔ (v.length = n ∧ StableExact.StableI (ac.map W.den) v)) ∧
    (Cli.stablePre r.1 n r.2).2 = (stableAll r.1 n r.2).2 := by
  intro r out
  obtain ⟨w, hl, hlt, g, hg, eg, e⟩ := hybridStep_spec W hd opt ac hv hn
  have ⟨_, e1⟩ := StableExact.stableAll_filter r.1 n r.2 w hl hlt
  have ⟨_, e2⟩ := StableExact.stablePre_filter r.1 n r.2 w hl hlt
  have h := StableExact.answers_exact r.1 n r.2 w hl hlt _ (StableExact.verdict_iff (r.2.map (eval r.1)))
  simp only at h
  refine ⟨?_, fun v => ?_, by rw [e1, e2]⟩
  · show ((stableAll r.1 n r.2).2.map _).Nodup
    rw [e1]; exact h.1
  · show v ∈ (stableAll r.1 n r.2).2.map _ ↔ _
    rw [e1, h.2 v, (hyb_transfer opt hg e).2.2 v]

/-- **counting search** (`stable_count_optimisation_heu_a/b`): exactly the stable models of the original
framework, each once -/
theorem hybrid_count (opt useA : Bool) (ac : List T) (hv : ∀ a ∈ ac, W.Valid a) (hn : ac.length = n) :
    let r := hybridStep L dump opt ac
    let out := (countAll r.1 n r.2 useA).2.map (fun v => v.map storeIsConst)
    out.Nodup ∧ ∀ v : I3, v ∈ out ↔ (v.length = n ∧ StableExact.StableI (ac.map W.den) v) := by
  intro r out
  obtain ⟨w, hl, hlt, g, hg, eg, e⟩ := hybridStep_spec W hd opt ac hv hn
  have ⟨a, b⟩ := CI.countAll_exact r.1 n r.2 useA w hl hlt
  refine ⟨a, fun v => ?_⟩
  show v ∈ (countAll r.1 n r.2 useA).2.map CI.d3 ↔ _
  rw [b v]
  have tr := (hyb_transfer opt hg e).2.2 v
  exact ⟨fun ⟨a, b⟩ => ⟨a, tr.mp b⟩, fun ⟨a, b⟩ => ⟨a, tr.mpr b⟩⟩

/-- **nogood-learning search** (`stable_nogood` / `two_valued` modes), any built-in heuristic: it halts
and emits, each once, exactly the stable models (`stable = true`) resp. the two-valued models
(`stable = false`) of the original framework. The two-valued mode needs what `C05.ng_search_exact`
needs: the conditions depend on the `n` statements only (`hsup`; true of every diagram
`eval_expression` builds over the `n` declared variables) -/
theorem hybrid_ng (h : SM.Heu) (opt stable : Bool) (ac : List T) (hv : ∀ a ∈ ac, W.Valid a) (hn : ac.length = n)
    (hsup : stable = false → ∀ a ∈ ac, TT.DetBy n (W.den a)) :
    let r := hybridStep L dump opt ac
    ∃ fuel, (SM.ngSearch h fuel r.1 n r.2 stable).2.2.2 = true ∧
      let D := ac.map W.den
      let out := (SM.ngSearch h fuel r.1 n r.2 stable).2.1.map (fun v => v.map storeIsConst)
      out.Nodup ∧ ∀ v : I3, v ∈ out ↔
        (v.length = n ∧ TotalI v ∧ Gam D v = v ∧
          (stable = true → ∀ w : I3, IsLfp (redu D v) w → ∀ i : Nat, v[i]? = some (some true) → w[i]? = some (some true))) := by
  intro r
  obtain ⟨w, hl, hlt, g, hg, eg, e⟩ := hybridStep_spec W hd opt ac hv hn
  have hs : stable = false → ∀ t ∈ r.2, ∀ σ τ : Asg, (∀ i, i < n → σ i = τ i) → eval r.1 t σ = eval r.1 t τ := by
    intro hst t ht σ τ hστ
    have hmem : eval r.1 t ∈ r.2.map (eval r.1) := List.mem_map_of_mem ht
    rw [e] at hmem
    have hdet : TT.DetBy n (eval r.1 t) := by
      cases opt with
      | false =>
        simp only [Bool.false_eq_true, if_false] at hmem
        obtain ⟨a, ha, he⟩ := List.mem_map.mp hmem
        rw [← he]; exact hsup hst a ha
      | true =>
        simp only [if_true, pre, List.map_map] at hmem
        obtain ⟨a, ha, he⟩ := List.mem_map.mp hmem
        rw [← he]; exact pre_detBy g (hsup hst a ha)
    exact hdet σ τ hστ
  obtain ⟨fuel, h1, h2, h3⟩ := NConc.ng_end_to_end h r.1 n r.2 stable w hl hlt hs
  refine ⟨fuel, h1, h2, fun v => ?_⟩
  rw [h3 v]
  have tr := hyb_transfer opt hg e
  by_cases hst : stable = true
  · -- stable mode: the four conjuncts are `StableI`
    have := tr.2.2 v
    unfold StableExact.StableI at this
    constructor
    · intro ⟨a, b, c, d⟩
      have := this.mp ⟨b, c, d hst⟩
      exact ⟨a, this.1, this.2.1, fun _ => this.2.2⟩
    · intro ⟨a, b, c, d⟩
      have := this.mpr ⟨b, c, d hst⟩
      exact ⟨a, this.1, this.2.1, fun _ => this.2.2⟩
  · constructor
    · intro ⟨a, b, c, _⟩
      exact ⟨a, b, (tr.2.1 v).mp c, fun x => absurd x hst⟩
    · intro ⟨a, b, c, _⟩
      exact ⟨a, b, (tr.2.1 v).mpr c, fun x => absurd x hst⟩

/-- **C09 for the hybrid import**: position by position, the handle stored for statement `i` is valid
and denotes that statement's acceptance condition (`opt = false`) resp. the condition with the grounded
interpretation - the least fixpoint, what `grounded` reports - substituted (`opt = true`) -/
theorem hybrid_handles (opt : Bool) (ac : List T) (hv : ∀ a ∈ ac, W.Valid a) (hn : ac.length = n) :
    let r := hybridStep L dump opt ac
    let g := (bioGrounded L ac).map storeIsConst
    WF r.1 ∧ r.2.length = n ∧ IsLfp (ac.map W.den) g ∧
    ∀ (i t : Nat) (a : T), r.2[i]? = some t → ac[i]? = some a →
      t < r.1.nodes.size ∧ ∀ σ, eval r.1 t σ = W.den a (if opt then over σ 0 g else σ) := by
  intro r g
  obtain ⟨w, hl, hlt, g', hg, eg, e⟩ := hybridStep_spec W hd opt ac hv hn
  subst eg
  refine ⟨w, hl, hg, ?_⟩
  intro i t a hi ha
  refine ⟨hlt t (List.mem_of_getElem? hi), fun σ => ?_⟩
  have h1 : (r.2.map (eval r.1))[i]? = some (eval r.1 t) := by simp [hi]
  rw [e] at h1
  cases opt with
  | false =>
    simp only [Bool.false_eq_true, if_false] at h1 ⊢
    simp only [List.getElem?_map, ha, Option.map_some, Option.some.injEq] at h1
    rw [← h1]
  | true =>
    simp only [if_true] at h1 ⊢
    rw [pre_get _ _ i (W.den a) (by simp [ha])] at h1
    simp only [Option.some.injEq] at h1
    rw [← h1]

end hybrid
end Bio
