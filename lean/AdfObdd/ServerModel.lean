/-! Small-step executable model of the request handlers of `adf-bdd-server`
    (`server/src/user.rs`, `server/src/adf.rs`, `server/src/config.rs`).

    * Every handler is a *program* (`Prog`) that issues one database / in-memory command at a
      time and continues with the command's result, in the order and with the case splits of
      the Rust code; `exec` is the meaning of one command on the server state `Db`
      (the `users` collection with its unique index on `username`, the `adf-problems`
      collection addressed by `(name, username)` filters with first-match semantics, the
      `currently_running` set and the spawned background tasks).
    * `run` executes a program atomically and records the commands it issued; `step` is one
      whole request of one cookie jar (identity = the user name in the jar's session cookie);
      `stepEv` adds the background-task events (blocking part ends, result is written,
      timeout).  `cstep` executes ONE command of one in-flight request, for the statements
      about arbitrary interleavings.
    * Everything the model does not look into is a parameter (`Env`): the string type `T`
      (names, passwords, codes) with its empty string, the salted password hash
      (`hash salt pw`, `verify`), and the library (`parse`, `solve`) producing opaque stored
      ADFs `A` and results `R`.  The driver instantiates it with `String` and the executable
      ADF models; the theorems hold for every instance.

    Core Lean only. -/
namespace ServerM

inductive Parsing where
  | naive | hybrid
deriving DecidableEq, Repr

inductive Strategy where
  | ground | complete | stable | stableCountingA | stableCountingB | stableNogood
deriving DecidableEq, Repr

inductive Task where
  | parse
  | solve (s : Strategy)
deriving DecidableEq, Repr

/-- the texts an `OptionWithError::Error` can carry -/
inductive Err where
  | parseError          -- "ADF could not be parsed, double check your input!"
  | panic               -- JoinError of a panicking blocking task
  | timeout             -- "deadline has elapsed"
deriving DecidableEq, Repr

/-- `OptionWithError<T>` -/
inductive OWE (α : Type) where
  | some (a : α)
  | error (e : Err)
  | none
deriving DecidableEq, Repr

def OWE.isSome {α : Type} : OWE α → Bool
  | .some _ => true
  | _ => false

/-- `AcsPerStrategy` without `parse_only` -/
structure Results (R : Type) where
  ground : OWE R := .none
  complete : OWE R := .none
  stable : OWE R := .none
  stableCountingA : OWE R := .none
  stableCountingB : OWE R := .none
  stableNogood : OWE R := .none
deriving DecidableEq, Repr

def Results.get {R : Type} (r : Results R) : Strategy → OWE R
  | .ground => r.ground | .complete => r.complete | .stable => r.stable
  | .stableCountingA => r.stableCountingA | .stableCountingB => r.stableCountingB
  | .stableNogood => r.stableNogood

def Results.set {R : Type} (r : Results R) (s : Strategy) (v : OWE R) : Results R :=
  match s with
  | .ground => { r with ground := v } | .complete => { r with complete := v }
  | .stable => { r with stable := v } | .stableCountingA => { r with stableCountingA := v }
  | .stableCountingB => { r with stableCountingB := v } | .stableNogood => { r with stableNogood := v }

/-- a document of the `users` collection; `password = none` marks a temporary account -/
structure User (T H : Type) where
  username : T
  password : Option H
deriving DecidableEq, Repr

/-- a document of the `adf-problems` collection (`AdfProblem`) -/
structure Problem (T A R : Type) where
  name : T
  username : T
  code : T
  parsing : Parsing
  adf : OWE A := .none
  parseOnly : OWE R := .none
  res : Results R := {}
deriving DecidableEq, Repr

/-- `RunningInfo` -/
structure RInfo (T : Type) where
  username : T
  name : T
  task : Task
deriving DecidableEq, Repr

/-- what a background task computes from -/
inductive TaskInput (T A : Type) where
  | parse (code : T) (parsing : Parsing)
  | solve (adf : A) (s : Strategy)
deriving DecidableEq, Repr

def TaskInput.task {T A : Type} : TaskInput T A → Task
  | .parse _ _ => .parse
  | .solve _ s => .solve s

/-- a spawned background task.  `jar` is a ghost tag (which client's request spawned it), used
only to name the task in events.  `blockingDone`: the `spawn_blocking` closure has returned or
panicked (its `RunningGuard` is dropped); `written`: the final `update_one` has been issued. -/
structure TaskRec (T A : Type) where
  jar : Nat
  username : T
  name : T
  input : TaskInput T A
  blockingDone : Bool := false
  written : Bool := false
deriving DecidableEq, Repr

def TaskRec.info {T A : Type} (t : TaskRec T A) : RInfo T := ⟨t.username, t.name, t.input.task⟩

/-- the `$set` document of the two background writes -/
inductive Write (A R : Type) where
  | parsed (adf : OWE A) (po : OWE R)      -- { "adf": …, "acs_per_strategy.parse_only": … }
  | solved (s : Strategy) (r : OWE R)      -- { "acs_per_strategy.<strategy>": … }
deriving DecidableEq, Repr

def Write.apply {T A R : Type} (w : Write A R) (p : Problem T A R) : Problem T A R :=
  match w with
  | .parsed a po => { p with adf := a, parseOnly := po }
  | .solved s r => { p with res := p.res.set s r }

/-- the server state: the two collections and the in-memory `AppState` -/
structure Db (T H A R : Type) where
  users : List (User T H) := []
  problems : List (Problem T A R) := []
  running : List (RInfo T) := []
  tasks : List (TaskRec T A) := []

/-! ### commands -/

/-- one database command (or one access to `currently_running` under its mutex) -/
inductive Cmd (T H A R : Type) where
  | uFind (n : T)                              -- users.find_one {username: n}
  | uInsert (u : User T H)                     -- users.insert_one (unique index on username)
  | uReplace (n : T) (u : User T H)            -- users.replace_one {username: n} u
  | uDelete (n : T)                            -- users.delete_one {username: n}
  | pFindOne (u n : T)                         -- adf-problems.find_one {name: n, username: u}
  | pFindAll (u : T)                           -- adf-problems.find {username: u}
  | pInsert (p : Problem T A R)                -- adf-problems.insert_one p
  | pSet (u n : T) (w : Write A R)             -- adf-problems.update_one {name: n, username: u} {$set: w}
  | pDeleteOne (u n : T)                       -- adf-problems.delete_one {name: n, username: u}
  | pDeleteAll (u : T)                         -- adf-problems.delete_many {username: u}
  | pRename (u u' : T)                         -- adf-problems.update_many {username: u} {$set: {username: u'}}
  | rContains (i : RInfo T)                    -- currently_running.contains(i)
  | rTasks (u n : T)                           -- tasks of currently_running with (username, adf_name) = (u, n)
  | spawn (t : TaskRec T A)                    -- spawn the background task (its guard enters currently_running)

/-- the result type of a command -/
@[reducible] def Cmd.Res {T H A R : Type} : Cmd T H A R → Type
  | .uFind _ => Option (User T H)
  | .uInsert _ => Bool                          -- false: duplicate key
  | .uReplace _ _ => Option Nat                 -- modified count; none: duplicate key
  | .uDelete _ => Nat                           -- deleted count
  | .pFindOne _ _ => Option (Problem T A R)
  | .pFindAll _ => List (Problem T A R)
  | .pInsert _ => Unit
  | .pSet _ _ _ => Nat                          -- matched count
  | .pDeleteOne _ _ => Nat
  | .pDeleteAll _ => Unit
  | .pRename _ _ => Unit
  | .rContains _ => Bool
  | .rTasks _ _ => List Task
  | .spawn _ => Unit

/-- first match only, like `update_one` / `replace_one` -/
def updFirst {α : Type} (p : α → Bool) (f : α → α) : List α → List α
  | [] => []
  | x :: xs => if p x then f x :: xs else x :: updFirst p f xs

/-- first match only, like `delete_one` -/
def delFirst {α : Type} (p : α → Bool) : List α → List α
  | [] => []
  | x :: xs => if p x then xs else x :: delFirst p xs

section
variable {T H A R : Type} [DecidableEq T]

def isUser (n : T) (u : User T H) : Bool := decide (u.username = n)
def isProb (u n : T) (p : Problem T A R) : Bool := decide (p.name = n) && decide (p.username = u)
def ownedP (u : T) (p : Problem T A R) : Bool := decide (p.username = u)
def isInfo (i : RInfo T) (x : RInfo T) : Bool :=
  decide (x.username = i.username) && decide (x.name = i.name) && decide (x.task = i.task)

/-- the meaning of one command -/
def exec (db : Db T H A R) : (c : Cmd T H A R) → Db T H A R × c.Res
  | .uFind n => (db, db.users.find? (isUser n))
  | .uInsert u =>
    if db.users.any (isUser u.username) then (db, false)
    else ({ db with users := db.users ++ [u] }, true)
  | .uReplace n u =>
    if decide (u.username ≠ n) && db.users.any (isUser u.username) then (db, none)
    else ({ db with users := updFirst (isUser n) (fun _ => u) db.users },
          some (if db.users.any (isUser n) then 1 else 0))
  | .uDelete n =>
    ({ db with users := delFirst (isUser n) db.users }, if db.users.any (isUser n) then 1 else 0)
  | .pFindOne u n => (db, db.problems.find? (isProb u n))
  | .pFindAll u => (db, db.problems.filter (ownedP u))
  | .pInsert p => ({ db with problems := db.problems ++ [p] }, ())
  | .pSet u n w =>
    ({ db with problems := updFirst (isProb u n) w.apply db.problems },
     if db.problems.any (isProb u n) then 1 else 0)
  | .pDeleteOne u n =>
    ({ db with problems := delFirst (isProb u n) db.problems },
     if db.problems.any (isProb u n) then 1 else 0)
  | .pDeleteAll u => ({ db with problems := db.problems.filter (fun p => !ownedP u p) }, ())
  | .pRename u u' =>
    ({ db with problems := db.problems.map (fun p => if ownedP u p then { p with username := u' } else p) }, ())
  | .rContains i => (db, db.running.any (isInfo i))
  | .rTasks u n =>
    (db, (db.running.filter (fun x => decide (x.name = n) && decide (x.username = u))).map (·.task))
  | .spawn t =>
    ({ db with tasks := db.tasks ++ [t],
               running := if db.running.any (isInfo t.info) then db.running else db.running ++ [t.info] }, ())

end

/-! ### programs -/

/-- a handler: issue a command, continue with its result -/
inductive Prog (T H A R : Type) (α : Type) where
  | ret (a : α)
  | cmd (c : Cmd T H A R) (k : c.Res → Prog T H A R α)

/-- atomic execution of a whole program: final state, result, commands issued (in order) -/
def run {T H A R α : Type} [DecidableEq T] : Prog T H A R α → Db T H A R → Db T H A R × α × List (Cmd T H A R)
  | .ret a, db => (db, a, [])
  | .cmd c k, db =>
    let r := exec db c
    let o := run (k r.2) r.1
    (o.1, o.2.1, c :: o.2.2)

/-! ### responses -/

/-- the fixed response texts of the handlers -/
inductive Msg (T : Type) where
  | registered | nameTaken | needUserPw | invalidEmailPw | invalidUserPw | noUser (u : T) | loginOk
  | notLoggedIn | tempNoLogout | logoutOk | needLoginInfo | userGone | accountNotUpdated
  | accountNotDeleted | accountDeleted | needCode | noGenName | problemExists | parsingStarted
  | needLoginAdd | needLoginGet | problemNotFound (n : T) | notParsedYet | couldNotParse (e : Err)
  | alreadySolved | solvingStarted | problemNotDeleted | problemDeleted | badPayload | dbError
deriving DecidableEq, Repr

/-- `AdfProblemInfo` -/
structure Info (T R : Type) where
  name : T
  code : T
  parsing : Parsing
  parseOnly : OWE R
  res : Results R
  running : List Task
deriving DecidableEq, Repr

inductive Body (T R : Type) where
  | msg (m : Msg T)
  | userInfo (username : T) (temp : Bool)
  | problem (i : Info T R)
  | problems (l : List (Info T R))
deriving DecidableEq, Repr

/-- what the response does to the session cookie -/
inductive Cookie (T : Type) where
  | keep
  | login (u : T)      -- `Identity::login`
  | logout             -- `Identity::logout`
deriving DecidableEq, Repr

structure Resp (T R : Type) where
  status : Nat
  cookie : Cookie T
  body : Body T R
deriving DecidableEq, Repr

def infoOf {T A R : Type} (p : Problem T A R) (tasks : List Task) : Info T R :=
  ⟨p.name, p.code, p.parsing, p.parseOnly, p.res, tasks⟩

/-! ### requests -/

inductive Req (T : Type) where
  | register (u p : T) (salt : Nat)                 -- POST /users/register
  | login (u p : T)                                 -- POST /users/login
  | logout                                          -- DELETE /users/logout
  | info                                            -- GET /users/info
  | update (u p : T) (salt : Nat)                   -- PUT /users/update
  | deleteAccount                                   -- DELETE /users/delete
  /-- POST /adf/add; `freshUser` / `freshProb` are the names the random generator proposes -/
  | add (name : T) (code file : Option T) (parsing : Parsing) (freshUser freshProb : T)
  | solve (name : T) (s : Strategy)                 -- PUT /adf/{name}/solve
  | get (name : T)                                  -- GET /adf/{name}
  | delete (name : T)                               -- DELETE /adf/{name}
  | list                                            -- GET /adf/
  | malformed                                       -- payload rejected by an extractor
deriving DecidableEq, Repr

/-- what the model does not look into -/
structure Env (T H A R : Type) where
  emp : T                                           -- the empty string
  hash : Nat → T → H                                -- argon2 with a salt
  verify : H → T → Bool
  parse : Parsing → T → Except Err (A × R)          -- parser + `from_parser` / hybrid step + graph
  solve : A → Strategy → Except Err R               -- rebuilt ADF, strategy, graphs

section
variable {T H A R : Type} [DecidableEq T]

abbrev P (T H A R : Type) := Prog T H A R (Resp T R)

def reply (status : Nat) (m : Msg T) : P T H A R := .ret ⟨status, .keep, .msg m⟩

/-- `register` (user.rs:56-96) -/
def hRegister (E : Env T H A R) (u p : T) (salt : Nat) : P T H A R :=
  if u = E.emp ∨ p = E.emp then reply 400 .needUserPw else
  .cmd (.uFind u) fun r => match r with
    | some _ => reply 409 .nameTaken
    | none => .cmd (.uInsert ⟨u, some (E.hash salt p)⟩) fun ok =>
      if ok then reply 200 .registered else reply 500 .dbError

/-- `login` (user.rs:155-200) -/
def hLogin (E : Env T H A R) (u p : T) : P T H A R :=
  if u = E.emp ∨ p = E.emp then reply 400 .needUserPw else
  .cmd (.uFind u) fun r => match r with
    | none => reply 404 (.noUser u)
    | some rec => match rec.password with
      | none => reply 400 .invalidUserPw
      | some h => if E.verify h p then .ret ⟨200, .login u, .msg .loginOk⟩ else reply 400 .invalidEmailPw

/-- `logout` (user.rs:202-235) -/
def hLogout (id : Option T) : P T H A R :=
  match id with
  | none => reply 401 .notLoggedIn
  | some u => .cmd (.uFind u) fun r => match r with
    | none => reply 404 (.noUser u)
    | some rec => match rec.password with
      | none => reply 400 .tempNoLogout
      | some _ => .ret ⟨200, .logout, .msg .logoutOk⟩

/-- `user_info` (user.rs:238-273) -/
def hInfo (id : Option T) : P T H A R :=
  match id with
  | none => reply 401 .needLoginInfo
  | some u => .cmd (.uFind u) fun r => match r with
    | some rec => .ret ⟨200, .keep, .userInfo rec.username rec.password.isNone⟩
    | none => .ret ⟨404, .logout, .msg .userGone⟩

/-- `update_user` (user.rs:276-365) -/
def hUpdate (E : Env T H A R) (id : Option T) (u' p' : T) (salt : Nat) : P T H A R :=
  if u' = E.emp ∨ p' = E.emp then reply 400 .needUserPw else
  match id with
  | none => reply 401 .needLoginInfo
  | some u =>
    let go : P T H A R :=
      .cmd (.uReplace u ⟨u', some (E.hash salt p')⟩) fun m => match m with
        | none => reply 500 .dbError
        | some 0 => reply 500 .accountNotUpdated
        | some _ => .cmd (.pRename u u') fun _ => .ret ⟨200, .login u', .userInfo u' false⟩
    if u' ≠ u then
      .cmd (.uFind u') fun r => match r with
        | some _ => reply 409 .nameTaken
        | none => go
    else go

/-- `delete_account` (user.rs:99-152) -/
def hDeleteAccount (id : Option T) : P T H A R :=
  match id with
  | none => reply 401 .notLoggedIn
  | some u => .cmd (.pDeleteAll u) fun _ => .cmd (.uDelete u) fun n =>
    if n = 0 then reply 500 .accountNotDeleted else .ret ⟨200, .logout, .msg .accountDeleted⟩

/-- the tail of `add_adf_problem` once user name and session effect are known -/
def addFor (jar : Nat) (ck : Cookie T) (u name code : T) (parsing : Parsing) (emp freshProb : T) : P T H A R :=
  let insert (n : T) : P T H A R :=
    .cmd (.pInsert { name := n, username := u, code := code, parsing := parsing }) fun _ =>
    .cmd (.spawn { jar := jar, username := u, name := n, input := .parse code parsing }) fun _ =>
    .ret ⟨200, ck, .msg .parsingStarted⟩
  if name ≠ emp then
    .cmd (.pFindOne u name) fun r => match r with
      | some _ => .ret ⟨409, ck, .msg .problemExists⟩
      | none => insert name
  else
    .cmd (.pFindOne u freshProb) fun r => match r with
      | some _ => .ret ⟨500, ck, .msg .noGenName⟩
      | none => insert freshProb

/-- `add_adf_problem` (adf.rs:309-497) -/
def hAdd (E : Env T H A R) (jar : Nat) (id : Option T) (name : T) (code file : Option T) (parsing : Parsing)
    (freshUser freshProb : T) : P T H A R :=
  match (match file with | some f => some f | none => code) with
  | none => reply 400 .needCode
  | some c =>
    if c = E.emp then reply 400 .needCode else
    match id with
    | some u => addFor jar .keep u name c parsing E.emp freshProb
    | none =>
      .cmd (.uFind freshUser) fun r => match r with
        | some _ => reply 500 .noGenName
        | none => .cmd (.uInsert ⟨freshUser, none⟩) fun ok =>
          if ok then addFor jar (.login freshUser) freshUser name c parsing E.emp freshProb
          else reply 500 .dbError

/-- `solve_adf_problem` (adf.rs:504-638) -/
def hSolve (jar : Nat) (id : Option T) (name : T) (s : Strategy) : P T H A R :=
  match id with
  | none => reply 401 .needLoginAdd
  | some u => .cmd (.pFindOne u name) fun r => match r with
    | none => reply 404 (.problemNotFound name)
    | some p => match p.adf with
      | .none => reply 400 .notParsedYet
      | .error e => reply 400 (.couldNotParse e)
      | .some a =>
        .cmd (.rContains ⟨u, name, .solve s⟩) fun busy =>
        if (p.res.get s).isSome || busy then reply 409 .alreadySolved else
        .cmd (.spawn { jar := jar, username := u, name := name, input := .solve a s }) fun _ =>
        reply 200 .solvingStarted

/-- `get_adf_problem` (adf.rs:640-676) -/
def hGet (id : Option T) (name : T) : P T H A R :=
  match id with
  | none => reply 401 .needLoginGet
  | some u => .cmd (.pFindOne u name) fun r => match r with
    | none => reply 404 (.problemNotFound name)
    | some p => .cmd (.rTasks p.username p.name) fun ts => .ret ⟨200, .keep, .problem (infoOf p ts)⟩

/-- `delete_adf_problem` (adf.rs:678-713) -/
def hDelete (id : Option T) (name : T) : P T H A R :=
  match id with
  | none => reply 401 .needLoginGet
  | some u => .cmd (.pDeleteOne u name) fun n =>
    if n = 0 then reply 500 .problemNotDeleted else reply 200 .problemDeleted

/-- the `map_ok` over the cursor of `get_adf_problems_for_user` -/
def listInfos (acc : List (Info T R)) : List (Problem T A R) → P T H A R
  | [] => .ret ⟨200, .keep, .problems acc⟩
  | p :: ps => .cmd (.rTasks p.username p.name) fun ts => listInfos (acc ++ [infoOf p ts]) ps

/-- `get_adf_problems_for_user` (adf.rs:715-753) -/
def hList (id : Option T) : P T H A R :=
  match id with
  | none => reply 401 .needLoginGet
  | some u => .cmd (.pFindAll u) fun ps => listInfos [] ps

/-- the program of one request of a client whose session cookie names `id` -/
def handler (E : Env T H A R) (jar : Nat) (id : Option T) : Req T → P T H A R
  | .register u p salt => hRegister E u p salt
  | .login u p => hLogin E u p
  | .logout => hLogout id
  | .info => hInfo id
  | .update u p salt => hUpdate E id u p salt
  | .deleteAccount => hDeleteAccount id
  | .add name code file parsing fu fp => hAdd E jar id name code file parsing fu fp
  | .solve name s => hSolve jar id name s
  | .get name => hGet id name
  | .delete name => hDelete id name
  | .list => hList id
  | .malformed => reply 400 .badPayload

/-! ### whole requests, task events -/

structure Request (T : Type) where
  jar : Nat
  req : Req T
deriving DecidableEq, Repr

/-- server state plus the clients' cookie jars -/
structure State (T H A R : Type) where
  db : Db T H A R := {}
  sess : Nat → Option T := fun _ => none

def applyCookie (s : Option T) : Cookie T → Option T
  | .keep => s
  | .login u => some u
  | .logout => none

/-- one whole request, executed atomically; also returns the commands issued -/
def stepT (E : Env T H A R) (st : State T H A R) (rq : Request T) :
    State T H A R × Resp T R × List (Cmd T H A R) :=
  let o := run (handler E rq.jar (st.sess rq.jar) rq.req) st.db
  ({ db := o.1, sess := fun j => if j = rq.jar then applyCookie (st.sess rq.jar) o.2.1.cookie else st.sess j },
   o.2.1, o.2.2)

def step (E : Env T H A R) (st : State T H A R) (rq : Request T) : State T H A R × Resp T R :=
  let o := stepT E st rq
  (o.1, o.2.1)

/-- the `n`-th task spawned by `jar` -/
def nthOf (jar : Nat) : Nat → List (TaskRec T A) → Option (TaskRec T A)
  | _, [] => none
  | n, t :: ts => if t.jar = jar then (match n with | 0 => some t | k+1 => nthOf jar k ts) else nthOf jar n ts

def updNth (jar : Nat) (f : TaskRec T A → TaskRec T A) : Nat → List (TaskRec T A) → List (TaskRec T A)
  | _, [] => []
  | n, t :: ts =>
    if t.jar = jar then (match n with | 0 => f t :: ts | k+1 => t :: updNth jar f k ts)
    else t :: updNth jar f n ts

/-- what the continuation after the blocking part writes -/
def taskWrite (E : Env T H A R) : TaskInput T A → Write A R
  | .parse code parsing =>
    match E.parse parsing code with
    | .ok (a, r) => .parsed (.some a) (.some r)
    | .error e => .parsed (.error e) (.error e)
  | .solve a s =>
    match E.solve a s with
    | .ok r => .solved s (.some r)
    | .error e => .solved s (.error e)

def timeoutWrite : TaskInput T A → Write A R
  | .parse _ _ => .parsed (.error .timeout) (.error .timeout)
  | .solve _ s => .solved s (.error .timeout)

inductive Event (T : Type) where
  | req (rq : Request T)
  | finish (jar n : Nat)        -- the blocking part of the task ends (returns or panics): guard dropped
  | write (jar n : Nat)         -- the continuation's `update_one`
  | timeout (jar n : Nat)       -- COMPUTE_TIME elapsed first: an error is written, the task keeps running
deriving DecidableEq, Repr

def Event.jar : Event T → Nat
  | .req rq => rq.jar
  | .finish j _ => j
  | .write j _ => j
  | .timeout j _ => j

def eraseInfo (i : RInfo T) (l : List (RInfo T)) : List (RInfo T) := l.filter (fun x => !isInfo i x)

def dbEv (E : Env T H A R) (db : Db T H A R) : Event T → Db T H A R
  | .req _ => db
  | .finish j n =>
    match nthOf j n db.tasks with
    | none => db
    | some t =>
      if t.blockingDone then db else
      { db with running := eraseInfo t.info db.running,
                tasks := updNth j (fun t => { t with blockingDone := true }) n db.tasks }
  | .write j n =>
    match nthOf j n db.tasks with
    | none => db
    | some t =>
      if t.blockingDone && !t.written then
        let db' := (exec db (.pSet t.username t.name (taskWrite E t.input))).1
        { db' with tasks := updNth j (fun t => { t with written := true }) n db'.tasks }
      else db
  | .timeout j n =>
    match nthOf j n db.tasks with
    | none => db
    | some t =>
      if !t.blockingDone && !t.written then
        let db' := (exec db (.pSet t.username t.name (timeoutWrite t.input))).1
        { db' with tasks := updNth j (fun t => { t with written := true }) n db'.tasks }
      else db

def stepEv (E : Env T H A R) (st : State T H A R) : Event T → State T H A R × Option (Resp T R)
  | .req rq => let o := step E st rq; (o.1, some o.2)
  | e => ({ st with db := dbEv E st.db e }, none)

/-- a whole history; the responses in order, tagged with the jar they went to -/
def runAll (E : Env T H A R) : State T H A R → List (Event T) → State T H A R × List (Nat × Resp T R)
  | st, [] => (st, [])
  | st, e :: es =>
    let o := stepEv E st e
    let rest := runAll E o.1 es
    (rest.1, (match o.2 with | some r => [(e.jar, r)] | none => []) ++ rest.2)

/-! ### command-granular interleavings -/

/-- a request in flight: ghost tag of the issuing identity set, remaining program -/
structure Thread (T H A R : Type) where
  prog : P T H A R

/-- thread `i` executes its next command (nothing happens if it has finished) -/
def cstep (db : Db T H A R) (ths : List (Thread T H A R)) (i : Nat) : Db T H A R × List (Thread T H A R) :=
  match ths[i]? with
  | none => (db, ths)
  | some th =>
    match th.prog with
    | .ret _ => (db, ths)
    | .cmd c k => let r := exec db c; (r.1, ths.set i ⟨k r.2⟩)

def crun (db : Db T H A R) (ths : List (Thread T H A R)) : List Nat → Db T H A R × List (Thread T H A R)
  | [] => (db, ths)
  | i :: is => let o := cstep db ths i; crun o.1 o.2 is

end
end ServerM
