import AdfObdd.NgGenHalt
/-! # An explicit iteration bound for the generic nogood-learning search

`NgGenHalt.bigstep` proves halting by strong induction on `d = n - mu` (number of statements not yet
decided) and only delivers `∃ j`. Here the same induction is redone with the number of iterations
counted: exploring the subtree below a state with `d` undecided statements and coming back with the
request to backtrack takes at most `stepsT d` iterations, where

    stepsT 0 = 2,   stepsT (d+1) = 2 * stepsT d + 6      (closed form: stepsT d + 6 = 8 * 2^d).

The recurrence is read off the proof of `bigstep`: a state that is not about to choose spends one
iteration (plus possibly one in which only the vector changes, `tail_two`) and then is dead, has
decided more (`stepsT (d-1)`) or is about to choose; a state about to choose spends one iteration for
the choice, explores the first branch (`1 + stepsT (d-1)`), one iteration for the backtrack/restore
(plus possibly a vector-only one), and explores the flipped branch (`stepsT (d-1)`), in which the
learned nogoods force the opposite value, so no second choice on that level happens.
From the initial state two more iterations are needed (`halts_within`): `stepsT n + 2 = 8 * 2^n - 4`. -/
namespace NGen

variable {V Sto : Type}

/-- iterations needed to explore the subtree below a state with `d` undecided statements -/
def stepsT : Nat → Nat
  | 0 => 2
  | d+1 => 2 * stepsT d + 6

theorem stepsT_pos {d : Nat} (h : 1 ≤ d) : stepsT d = 2 * stepsT (d - 1) + 6 := by
  cases d with
  | zero => omega
  | succ d => rfl

theorem stepsT_closed : ∀ d, stepsT d + 6 = 8 * 2 ^ d
  | 0 => rfl
  | d+1 => by
    have := stepsT_closed d
    rw [stepsT, Nat.pow_succ]; omega

theorem stepsT_ge_two : ∀ d, 2 ≤ stepsT d
  | 0 => Nat.le_refl _
  | d+1 => by rw [stepsT]; omega

theorem stepsT_mono {d e : Nat} (h : d ≤ e) : stepsT d ≤ stepsT e := by
  induction e with
  | zero => have : d = 0 := by omega
            subst this; exact Nat.le_refl _
  | succ e ih =>
    rcases Nat.lt_or_ge d (e + 1) with c | c
    · have := ih (by omega); rw [stepsT]; omega
    · have : d = e + 1 := by omega
      subst this; exact Nat.le_refl _

/-- `ReachB` within at most `J` iterations -/
def ReachBN (P : GParams V Sto) (J : Nat) (k : Nat) (s : St V Sto) (base : PA) (stk : List (Entry V)) (st0 : Sto) : Prop :=
  ∃ j s', j ≤ J ∧ iterN P k j s = some s' ∧ s'.backtrack = true ∧ s'.choice = false ∧
    (∃ extra, s'.stack = extra ++ stk ∧ Plain P base (P.dec s'.cur) extra) ∧
    (∀ g, P.Mem s'.store g → P.Mem st0 g ∨ PSub base g) ∧ PSub base (P.dec s'.cur) ∧
    P.OkS s'.store ∧ P.Ok s'.cur

variable {P : GParams V Sto} {n : Nat} {mu : PA → Nat}

theorem ReachBN.toReachB {J k : Nat} {s : St V Sto} {base : PA} {stk : List (Entry V)} {st0 : Sto}
    (h : ReachBN P J k s base stk st0) : ReachB P k s base stk st0 := by
  obtain ⟨j, s', _, rest⟩ := h
  exact ⟨j, s', rest⟩

theorem ReachBN.mono {J J' k : Nat} {s : St V Sto} {base : PA} {stk : List (Entry V)} {st0 : Sto}
    (h : ReachBN P J k s base stk st0) (hJ : J ≤ J') : ReachBN P J' k s base stk st0 := by
  obtain ⟨j, s', hj, rest⟩ := h
  exact ⟨j, s', Nat.le_trans hj hJ, rest⟩

theorem ReachBN.weaken {J k : Nat} {s : St V Sto} {base base' : PA} {stk stk' : List (Entry V)} {st0 st0' : Sto}
    (h : ReachBN P J k s base' stk' st0') (pl : List (Entry V)) (hstk : stk' = pl ++ stk) (hpl : Plain P base base' pl)
    (hb : PSub base base') (hst : ∀ g, P.Mem st0' g → P.Mem st0 g ∨ PSub base g) : ReachBN P J k s base stk st0 := by
  obtain ⟨j, s', hj, hk, b1, b2, ⟨extra, he, hp⟩, hs, hc, ho1, ho2⟩ := h
  refine ⟨j, s', hj, hk, b1, b2, ⟨extra ++ pl, by rw [he, hstk, List.append_assoc], ?_⟩, ?_, hb.trans hc, ho1, ho2⟩
  · intro e he'
    rcases List.mem_append.mp he' with h1 | h1
    · exact (hp.weaken hb) e h1
    · exact (hpl.top hc) e h1
  · intro g hg
    rcases hs g hg with h1 | h1
    · exact hst g h1
    · exact Or.inr (hb.trans h1)

theorem ReachBN.step {J k : Nat} {s s1 : St V Sto} {base : PA} {stk : List (Entry V)} {st0 : Sto}
    (hi : iter P k s = Res.cont s1) (h : ReachBN P J (k+1) s1 base stk st0) : ReachBN P (J + 1) k s base stk st0 := by
  obtain ⟨j, s', hj, hk, rest⟩ := h
  refine ⟨j + 1, s', by omega, ?_, rest⟩
  unfold iterN; rw [hi]; exact hk

theorem after_tailN (J : Nat) (k : Nat) (s s'' : St V Sto) (to : TailOut3 P mu s s'')
    (hw : ∀ g, P.Mem s.store g → Closed g (P.dec s.cur))
    (hoks : P.OkS s.store)
    (hG : ∀ k t, LInv P t → t.choice = false → mu (P.dec s.cur) < mu (P.dec t.cur) →
      ReachBN P J k t (P.dec t.cur) t.stack t.store)
    (hC : ∀ k t, LInv P t → t.choice = true → P.dec t.cur = P.dec s.cur → ReachBN P J k t (P.dec t.cur) t.stack t.store) :
    ReachBN P J k s'' (P.dec s.cur) s.stack s.store := by
  cases to with
  | dead pl b1 b2 hst hpl hstore hsub hok =>
    exact ⟨0, s'', Nat.zero_le _, rfl, b1, b2, ⟨pl, hst, hpl⟩, fun g hg => Or.inl (hstore ▸ hg), hsub, hstore ▸ hoks, hok⟩
  | grown pl b1 b2 hst hpl hstore hsub hmu _ hok =>
    have li : LInv P s'' :=
      ⟨b1, fun g hg => (hw g (hstore ▸ hg)).mono hsub, fun h => (by rw [b2] at h; cases h), hok, hstore ▸ hoks⟩
    exact (hG k s'' li b2 hmu).weaken pl hst hpl hsub (fun g hg => Or.inl (hstore ▸ hg))
  | choose b1 b2 hst hstore hcur htv _ hok =>
    have li : LInv P s'' :=
      ⟨b1, fun g hg => by rw [hcur]; exact hw g (hstore ▸ hg), fun _ => by rw [hcur]; exact htv, hok, hstore ▸ hoks⟩
    exact (hC k s'' li b2 hcur).weaken [] (by rw [hst]; rfl) (fun _ h => by cases h) (by rw [hcur]; exact PSub.refl _)
      (fun g hg => Or.inl (hstore ▸ hg))

theorem after_tail2N (hL : GLive P n mu) (J : Nat) (k : Nat) (s0 : St V Sto) (hb : s0.backtrack = false)
    (hc : s0.choice = false)
    (hok : P.Ok s0.cur) (hoks : P.OkS s0.store) (hw : ∀ g, P.Mem s0.store g → Closed g (P.dec s0.cur))
    (hG : ∀ k t, LInv P t → t.choice = false → mu (P.dec s0.cur) < mu (P.dec t.cur) →
      ReachBN P J k t (P.dec t.cur) t.stack t.store)
    (hC : ∀ k t, LInv P t → t.choice = true → P.dec t.cur = P.dec s0.cur → ReachBN P J k t (P.dec t.cur) t.stack t.store) :
    ReachBN P (J + 1) k (stepTail P s0) (P.dec s0.cur) s0.stack s0.store := by
  rcases tail_two hL s0 hb hc hok hoks with h | ⟨hi, h⟩
  · exact (after_tailN J k s0 _ h hw hoks hG hC).mono (Nat.le_succ _)
  · exact ReachBN.step (hi k) (after_tailN J (k+1) s0 _ h hw hoks hG hC)

/-- the big-step lemma with the iterations counted: exploring the subtree below a live state with at
most `d` undecided statements comes back within `stepsT d` iterations -/
theorem bigstepN (hL : GLive P n mu) : ∀ (d k : Nat) (s : St V Sto), LInv P s → n - mu (P.dec s.cur) ≤ d →
    ReachBN P (stepsT d) k s (P.dec s.cur) s.stack s.store := by
  intro d
  induction d using Nat.strongRecOn with
  | _ d ih =>
    -- states that are about to choose
    have Ccase : ∀ k s, LInv P s → s.choice = true → n - mu (P.dec s.cur) ≤ d →
        ReachBN P (stepsT d - 2) k s (P.dec s.cur) s.stack s.store := by
      intro k s li hc hd
      have ⟨hsome, hlt⟩ := hL.heu_total k s.cur li.okc (li.ch hc)
      cases hh : P.heu k s.cur with
      | none => rw [hh] at hsome; cases hsome
      | some vb =>
        obtain ⟨v, b⟩ := vb
        have ⟨hn, hgrow⟩ := hL.heu_valid k s.cur v b li.okc hh
        have hdset := hL.dec_set k s.cur v b li.okc hh
        have hokset := hL.ok_set k s.cur v b li.okc hh
        have hd1 : 1 ≤ d := by omega
        have hT := stepsT_pos hd1
        have hiter := iter_C (P := P) k s li.nb hc v b hh
        have hs1b : (afterChoice P s v b).backtrack = false := li.nb
        have hs1c : (afterChoice P s v b).choice = false := rfl
        have hs1cur : P.dec (afterChoice P s v b).cur = setAt (P.dec s.cur) v b := hdset
        have hs1stack : (afterChoice P s v b).stack =
            { choice := some (s.cur, v, b), ng := setAt (P.dec s.cur) v b } :: s.stack := by
          unfold afterChoice; simp only; rw [hdset]
        have hs1store : (afterChoice P s v b).store = s.store := rfl
        have hw1 : ∀ g, P.Mem (afterChoice P s v b).store g → Closed g (P.dec (afterChoice P s v b).cur) :=
          fun g hg => by rw [hs1cur]; exact (li.w g hg).mono (psub_setAt b hn)
        have r1 := after_tail2N hL (stepsT (d-1)) (k+1) (afterChoice P s v b) hs1b hs1c hokset li.oks hw1
          (fun k' t lt _ hm => ih (d-1) (by omega) k' t lt (by rw [hs1cur] at hm; omega))
          (fun k' t lt _ hcur => ih (d-1) (by omega) k' t lt (by rw [hcur, hs1cur]; omega))
        obtain ⟨j1, sB, hj1, hk1, bB, cB, ⟨extra, hstB, hplB⟩, hstoreB, hcurB, hoksB, hokB⟩ := r1
        rw [hs1stack] at hstB
        rw [hs1cur] at hplB hstoreB hcurB
        -- the backtracking iteration
        have hne : sB.stack ≠ [] := by rw [hstB]; simp
        have hokC : P.OkG (setAt (P.dec s.cur) v b) := by rw [← hdset]; exact hL.okg _ hokset
        have hpop := popLoop_to_choice hL extra s.cur v b (setAt (P.dec s.cur) v b) s.stack sB.store sB.cur
          (fun e he => ⟨(hplB e he).1, (hplB e he).2.2.2⟩) hokC hoksB
        rw [← hstB] at hpop
        obtain ⟨p1, p2, p3, p4⟩ := hpop
        have h3b : (step3 P sB).backtrack = false := by unfold step3; rw [if_pos bB]
        have h3c : (step3 P sB).choice = false := by unfold step3; rw [if_pos bB]; exact cB
        have h3stack : (step3 P sB).stack = s.stack := by unfold step3; rw [if_pos bB]; exact p1
        have h3cur : (step3 P sB).cur = s.cur := by unfold step3; rw [if_pos bB]; exact p2
        have h3oks : P.OkS (step3 P sB).store := by unfold step3; rw [if_pos bB]; exact p3
        have h3store : ∀ g, P.Mem (step3 P sB).store g ↔
            (g = setAt (P.dec s.cur) v b ∨ (∃ e ∈ extra, e.ng = g) ∨ P.Mem sB.store g) := by
          unfold step3; rw [if_pos bB]; exact p4
        -- classification of the stored nogoods w.r.t. the level being flipped
        have hclass : ∀ g, P.Mem (step3 P sB).store g → Closed g (P.dec s.cur) ∨ PSub (setAt (P.dec s.cur) v b) g := by
          intro g hg
          rcases (h3store g).mp hg with h | ⟨e, he, h⟩ | h
          · right; rw [h]; exact PSub.refl _
          · right; rw [← h]; exact (hplB e he).2.1
          · rcases hstoreB g h with h' | h'
            · left; exact li.w g h'
            · right; exact h'
        have hst0 : ∀ g, P.Mem (step3 P sB).store g → P.Mem s.store g ∨ PSub (P.dec s.cur) g := by
          intro g hg
          rcases (h3store g).mp hg with h | ⟨e, he, h⟩ | h
          · right; rw [h]; exact psub_setAt b hn
          · right; rw [← h]; exact (psub_setAt b hn).trans (hplB e he).2.1
          · rcases hstoreB g h with h' | h'
            · left; exact h'
            · right; exact (psub_setAt b hn).trans h'
        obtain ⟨R, hclR, hRv⟩ := hL.cl_flip (step3 P sB).store (P.dec s.cur) v b h3oks (hL.okg _ li.okc) hokC hn
          ((h3store _).mpr (Or.inl rfl)) hclass
        have h3ok : P.Ok (step3 P sB).cur := by rw [h3cur]; exact li.okc
        -- what follows the restore: one or two iterations
        have r2 : ∀ k', ReachBN P (stepsT (d-1) + 1) k' (stepTail P (step3 P sB)) (P.dec s.cur) s.stack s.store := by
          intro k'
          have fin : ∀ k'' t, TailOut3 P mu (step3 P sB) t →
              ReachBN P (stepsT (d-1)) k'' t (P.dec s.cur) s.stack s.store := by
            intro k'' t to2
            cases to2 with
            | dead pl b1 b2 hst hpl hstore hsub hok =>
              refine ⟨0, _, Nat.zero_le _, rfl, b1, b2, ⟨pl, by rw [hst, h3stack], by rw [← h3cur]; exact hpl⟩, ?_,
                by rw [← h3cur]; exact hsub, hstore ▸ h3oks, hok⟩
              intro g hg; exact hst0 g (hstore ▸ hg)
            | grown pl b1 b2 hst hpl hstore hsub hmu hR hok =>
              have hRt := hR R (by rw [h3cur]; exact hclR)
              have li2 : LInv P t := by
                refine ⟨b1, ?_, fun h => (by rw [b2] at h; cases h), hok, hstore ▸ h3oks⟩
                intro g hg
                rcases hclass g (hstore ▸ hg) with h | h
                · exact h.mono (by rw [← h3cur]; exact hsub)
                · refine ⟨v, b, h v b (by rw [pget_setAt]; simp), hRt v _ hRv⟩
              have := ih (d-1) (by omega) k'' _ li2 (by rw [h3cur] at hmu; omega)
              exact this.weaken pl (by rw [hst, h3stack]) (by rw [← h3cur]; exact hpl)
                (by rw [← h3cur]; exact hsub) (fun g hg => hst0 g (hstore ▸ hg))
            | choose _ _ _ _ _ _ hno _ =>
              rw [h3cur, hclR] at hno; cases hno
          rcases tail_two hL (step3 P sB) h3b h3c h3ok h3oks with h | ⟨hi, h⟩
          · exact (fin k' _ h).mono (Nat.le_succ _)
          · exact ReachBN.step (hi k') (fin (k'+1) _ h)
        -- put the pieces together
        have hiterB := iter_B (P := P) (k + 1 + j1) sB bB cB hne
        have rB : ReachBN P (stepsT (d-1) + 1 + 1) (k + 1 + j1) sB (P.dec s.cur) s.stack s.store :=
          ReachBN.step hiterB (r2 _)
        obtain ⟨j2, sF, hj2, hk2, rest⟩ := rB
        refine ⟨(j1 + j2) + 1, sF, by omega, ?_, rest⟩
        unfold iterN; rw [hiter]
        exact iterN_add P j1 j2 (k+1) _ sB sF hk1 hk2
    intro k s li hd
    have h2 := stepsT_ge_two d
    by_cases hc : s.choice = true
    · exact (Ccase k s li hc hd).mono (by omega)
    · have hc' : s.choice = false := by simpa using hc
      have hiter := iter_N (P := P) k s li.nb hc'
      have e : stepsT d = (stepsT d - 2 + 1) + 1 := by omega
      rw [e]
      apply ReachBN.step hiter
      apply after_tail2N hL (stepsT d - 2) (k+1) s li.nb hc' li.okc li.oks li.w
      · intro k' t lt _ hm
        have := hL.mu_le (P.dec t.cur) (hL.okg _ lt.okc)
        have hd1 : 1 ≤ d := by omega
        have hT := stepsT_pos hd1
        exact (ih (d-1) (by omega) k' t lt (by omega)).mono (by omega)
      · intro k' t lt htc hcur
        exact Ccase k' t lt htc (by rw [hcur]; exact hd)

/-- **liveness with an explicit bound**: from the initial state the loop halts within
`stepsT n + 2 = 8 * 2^n - 4` iterations, for every heuristic oracle satisfying the `GLive` laws -/
theorem halts_within (hL : GLive P n mu) (g : V) (st : Sto) (hok : P.Ok g) (hoks : P.OkS st) (hemp : ∀ x, ¬ P.Mem st x)
    (k : Nat) :
    ∃ fuel s', fuel ≤ stepsT n + 2 ∧
      run P k fuel { cur := g, store := st, stack := [], backtrack := false, choice := false, out := [] } = some s' := by
  have li : LInv P { cur := g, store := st, stack := [], backtrack := false, choice := false, out := [] } :=
    ⟨rfl, (fun x h => absurd h (hemp x)), (fun h => (by cases h)), hok, hoks⟩
  obtain ⟨j, sB, hj, hk, bB, cB, ⟨extra, hst, hpl⟩, _, _, hoksB, hokB⟩ := bigstepN hL (n - mu (P.dec g)) k _ li (Nat.le_refl _)
  have hj' : j ≤ stepsT n := Nat.le_trans hj (stepsT_mono (Nat.sub_le _ _))
  simp only [List.append_nil] at hst
  have hdoneAt : ∀ k' (t : St V Sto), t.backtrack = true → t.choice = false → t.stack = [] → iter P k' t = Res.done t := by
    intro k' t tb tc ts
    have h1 : step1 P k' t = t := by unfold step1; rw [if_neg (by simp [tc])]
    unfold iter; simp only [h1]; rw [if_pos ⟨tb, ts⟩]
  cases hex : extra with
  | nil =>
    refine ⟨j + 1, sB, by omega, ?_⟩
    rw [run_of_iterN j 1 k _ sB hk]
    unfold run; rw [hdoneAt _ sB bB cB (by rw [hst, hex])]
  | cons e rest =>
    have hne : sB.stack ≠ [] := by rw [hst, hex]; simp
    have hiterB := iter_B (P := P) (k + j) sB bB cB hne
    have ⟨p1, p2, p3, _, p5⟩ := popLoop_plain hL sB.stack sB.store sB.cur
      (by rw [hst]; exact fun x hx => ⟨(hpl x hx).1, (hpl x hx).2.2.2⟩) hoksB
    have hcl : P.closure (step3 P sB).store (P.dec (step3 P sB).cur) = Closure.inconsistent := by
      have e1 : (step3 P sB).store = (popLoop P sB.stack sB.store sB.cur).2.1 := by unfold step3; rw [if_pos bB]
      have e2 : (step3 P sB).cur = sB.cur := by unfold step3; rw [if_pos bB]; exact p2
      rw [e1, e2]
      apply hL.cl_direct _ _ p3 (hL.okg _ hokB)
      refine ⟨e.ng, p5 e (by rw [hst, hex]; exact List.mem_cons_self ..), ?_⟩
      exact (hpl e (by rw [hex]; exact List.mem_cons_self ..)).2.2.1
    have hfin : stepTail P (step3 P sB) = { step3 P sB with backtrack := true } := by
      unfold stepTail; rw [hcl]
    have hdone := hdoneAt (k + j + 1) { step3 P sB with backtrack := true } rfl
      (by unfold step3; rw [if_pos bB]; exact cB) (by unfold step3; rw [if_pos bB]; exact p1)
    refine ⟨j + 2, { step3 P sB with backtrack := true }, by omega, ?_⟩
    rw [run_of_iterN j 2 k _ sB hk]
    unfold run; rw [hiterB]; simp only
    unfold run; rw [hfin, hdone]

end NGen
#print axioms NGen.bigstepN
#print axioms NGen.halts_within
