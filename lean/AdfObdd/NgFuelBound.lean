import AdfObdd.NgEndToEnd
import AdfObdd.NgBound
/-! # An explicit fuel for `SM.ngSearch`

`NGen.halts_within` (file `NgBound`) bounds the number of iterations of the generic machine by
`stepsT n + 2 = 8 * 2^n - 4`. The simulation of `NgSimulation`/`NgEndToEnd` is lock-step (one concrete
iteration = one abstract iteration), so the same number bounds the concrete loop `SM.ngRun`:

    ngBound n = 2^(n+3)          (n = number of statements)

`ngSearch_halts_within`: for EVERY fuel `≥ ngBound n` the halting flag of `SM.ngSearch` is set, and
(`ngSearch_exact_within`) the result at that fuel is the exact one of `ng_end_to_end`. Halting needs no
support hypothesis (only exactness in two-valued mode does). `ngBound 16 = 524288 ≤ 10^6 < ngBound 17`:
the driver's bound of 10^6 iterations provably suffices for every framework with at most 16 statements. -/
namespace NSem
open NGen
variable {D : List BoolFn} {n : Nat} {stable : Bool}

/-- liveness of the semantic machine with the iterations counted -/
theorem sem_halts_within (raw : Nat → Option (Nat × Bool)) (V0 : List BoolFn) (hok : OkV D n stable V0) :
    ∃ fuel s', fuel ≤ stepsT n + 2 ∧ run (semP D n stable raw) 0 fuel (initSt V0 n) = some s' :=
  halts_within (sem_live raw) V0 _ hok (replicate_inv n) (replicate_not_stored n) 0

end NSem

namespace NConc
open NSem

/-- the explicit iteration bound of the nogood-learning search for `n` statements -/
def ngBound (n : Nat) : Nat := 2 ^ (n + 3)

theorem stepsT_le_ngBound (n : Nat) : NGen.stepsT n + 2 ≤ ngBound n := by
  have := NGen.stepsT_closed n
  unfold ngBound
  rw [Nat.pow_add]
  omega

theorem ngBound_mono {a b : Nat} (h : a ≤ b) : ngBound a ≤ ngBound b :=
  Nat.pow_le_pow_right (by omega) (by omega)

theorem ngBound_16 : ngBound 16 = 524288 := by decide
theorem ngBound_17 : ngBound 17 = 1048576 := by decide

/-- 16 is the largest number of statements for which the bound is below the driver's 10^6 -/
theorem ngBound_le_million_iff (n : Nat) : ngBound n ≤ 1000000 ↔ n ≤ 16 := by
  constructor
  · intro h
    rcases Nat.lt_or_ge 16 n with c | c
    · have := ngBound_mono (show 17 ≤ n by omega)
      rw [ngBound_17] at this; omega
    · exact c
  · intro h
    have := ngBound_mono h
    rw [ngBound_16] at this; omega

/-! ### a halted concrete run is not changed by more fuel -/

theorem cRun_mono (hc : CHeu) (n : Nat) (ac : List Nat) (stable : Bool) (m : Nat) (st : SM.NgS)
    (hd : (cRun hc n ac stable m st).done = true) : ∀ j, cRun hc n ac stable (m + j) st = cRun hc n ac stable m st := by
  intro j
  induction j with
  | zero => rfl
  | succ j ih =>
    have e : m + (j + 1) = (m + j) + 1 := by omega
    rw [e, cRun_succ, ih, if_pos hd]

theorem cSearch_mono (hc : CHeu) (F F' : Nat) (s : Store) (n : Nat) (ac : List Nat) (stable : Bool)
    (hh : (cSearch hc F s n ac stable).2.2.2 = true) (hF : F ≤ F') :
    cSearch hc F' s n ac stable = cSearch hc F s n ac stable := by
  obtain ⟨k, rfl⟩ := Nat.exists_eq_add_of_le hF
  unfold cSearch at hh ⊢
  rw [cRun_mono hc n ac stable F _ hh k]

/-! ### the simulation with the iterations counted -/

section run
variable (h : CHeu) (s : Store) (n : Nat) (ac : List Nat) (stable : Bool)

/-- `sim_run` with the count: a halting abstract run of `fuel` iterations from iteration `k` gives a
concrete run halted after at most `k + fuel` iterations -/
theorem sim_run_le (hok : HeuOK h) (w0 : WF s) (hac0 : ∀ t ∈ ac, t < s.nodes.size) (hn : ac.length = n) :
    ∀ (fuel k : Nat) (a a' : ASt), Rel (cState h s n ac stable k) a → CInv s n (cState h s n ac stable k) →
    NGen.run (PP s n ac stable (rawOf h s n ac stable)) k fuel a = some a' →
    ∃ m, m ≤ k + fuel ∧ (cState h s n ac stable m).done = true := by
  intro fuel
  induction fuel with
  | zero => intro k a a' _ _ hr; cases hr
  | succ f ih =>
    intro k a a' hr hi hrun
    have hnext : cState h s n ac stable (k + 1) = cIter h n ac stable (cState h s n ac stable k) := by
      have hnd : (cRun h n ac stable k (initC s n ac)).done = false := hi.nd
      unfold cState
      rw [cRun_succ, hnd]
      simp only [Bool.false_eq_true, if_false]
    have hsim := sim_iter ac stable (rawOf h s n ac stable) w0 hac0 hn hok k hr hi rfl
    unfold NGen.run at hrun
    cases hit : NGen.iter (PP s n ac stable (rawOf h s n ac stable)) k a with
    | done a1 =>
      rw [hit] at hsim
      exact ⟨k + 1, by omega, by rw [hnext]; exact hsim.1⟩
    | cont a1 =>
      rw [hit] at hrun hsim
      simp only at hrun hsim
      obtain ⟨m, hm, hd⟩ := ih (k + 1) a1 a' (by rw [hnext]; exact hsim.1) (by rw [hnext]; exact hsim.2) hrun
      exact ⟨m, by omega, hd⟩

end run

/-- **explicit fuel, any heuristic function**: the concrete loop run with ANY heuristic function that
always proposes an undecided statement with a truth value has halted after `ngBound n = 2^(n+3)`
iterations, hence for every larger fuel -/
theorem search_halts_within_any_heuristic (hc : CHeu) (hok : HeuOK hc) (s : Store) (n : Nat) (ac : List Nat)
    (stable : Bool) (w0 : WF s) (hn : ac.length = n) (hac0 : ∀ t ∈ ac, t < s.nodes.size) :
    ∀ fuel, ngBound n ≤ fuel → (cSearch hc fuel s n ac stable).2.2.2 = true := by
  intro fuel hf
  have ⟨hrel, hinv, hokv, _⟩ := init_facts s n ac stable w0 hac0 hn
  obtain ⟨f0, a', hf0, hrun⟩ := sem_halts_within (D := ac.map (eval s)) (stable := stable) (rawOf hc s n ac stable) _ hokv
  obtain ⟨m, hm, hdone⟩ := sim_run_le hc s n ac stable hok w0 hac0 hn f0 0 _ a' hrel hinv hrun
  have hb := stepsT_le_ngBound n
  have hd : (cSearch hc m s n ac stable).2.2.2 = true := hdone
  rw [cSearch_mono hc m fuel s n ac stable hd (by omega)]
  exact hd

/-- **explicit fuel for `SM.ngSearch`**: for every heuristic of `SM.Heu`, every well-formed store and every
valid vector of `n` conditions the loop has halted within `ngBound n = 2^(n+3)` iterations -/
theorem ngSearch_halts_within (h : SM.Heu) (s : Store) (n : Nat) (ac : List Nat) (stable : Bool)
    (w0 : WF s) (hn : ac.length = n) (hac0 : ∀ t ∈ ac, t < s.nodes.size) :
    ∀ fuel, ngBound n ≤ fuel → (SM.ngSearch h fuel s n ac stable).2.2.2 = true := by
  intro fuel hf
  rw [ngSearch_eq]
  exact search_halts_within_any_heuristic (SM.heuCall h) (heuOK_builtin h) s n ac stable w0 hn hac0 fuel hf

/-- `ng_end_to_end` at every fuel from the explicit bound on (two-valued mode: support hypothesis) -/
theorem ngSearch_exact_within (h : SM.Heu) (s : Store) (n : Nat) (ac : List Nat) (stable : Bool)
    (w0 : WF s) (hn : ac.length = n) (hac0 : ∀ t ∈ ac, t < s.nodes.size)
    (hsup : stable = false → ∀ t ∈ ac, ∀ σ τ : Asg, (∀ i, i < n → σ i = τ i) → eval s t σ = eval s t τ) :
    ∀ fuel, ngBound n ≤ fuel → (SM.ngSearch h fuel s n ac stable).2.2.2 = true ∧
      let D := ac.map (eval s)
      let out := (SM.ngSearch h fuel s n ac stable).2.1.map (fun v => v.map storeIsConst)
      out.Nodup ∧ ∀ v : I3, v ∈ out ↔
        (v.length = n ∧ TotalI v ∧ Gam D v = v ∧
          (stable = true → ∀ w : I3, IsLfp (redu D v) w → ∀ i : Nat, v[i]? = some (some true) → w[i]? = some (some true))) := by
  intro fuel hf
  have hhalt := ngSearch_halts_within h s n ac stable w0 hn hac0 fuel hf
  obtain ⟨f0, h0, hex⟩ := ng_end_to_end h s n ac stable w0 hn hac0 hsup
  have e : SM.ngSearch h fuel s n ac stable = SM.ngSearch h f0 s n ac stable := by
    rw [ngSearch_eq, ngSearch_eq] at *
    rcases Nat.le_total f0 fuel with c | c
    · exact cSearch_mono _ f0 fuel s n ac stable h0 c
    · exact (cSearch_mono _ fuel f0 s n ac stable hhalt c).symm
  rw [e]
  exact ⟨h0, hex⟩

/-- **from the written framework** (`from_parser` model + search): for every list of conditions whose
atoms are statements of the framework, every heuristic and both modes, at EVERY fuel `≥ 2^(n+3)` the
search has halted and has emitted exactly the two-valued resp. stable models of the written conditions -/
theorem ngSearch_exact_within_compiled (h : SM.Heu) (fms : List Fm) (stable : Bool) (hn : fms.length ≤ VBOT)
    (hv : ∀ f ∈ fms, atomsLt fms.length f) :
    ∀ fuel, ngBound fms.length ≤ fuel →
      (SM.ngSearch h fuel (buildNative fms.length fms).1 fms.length (buildNative fms.length fms).2 stable).2.2.2 = true ∧
      let D := fms.map Fm.sem
      let out := (SM.ngSearch h fuel (buildNative fms.length fms).1 fms.length (buildNative fms.length fms).2 stable).2.1.map
        (fun v => v.map storeIsConst)
      out.Nodup ∧ ∀ v : I3, v ∈ out ↔
        (v.length = fms.length ∧ TotalI v ∧ Gam D v = v ∧
          (stable = true → ∀ w : I3, IsLfp (redu D v) w → ∀ i : Nat, v[i]? = some (some true) → w[i]? = some (some true))) := by
  intro fuel hf
  have hhalt : (SM.ngSearch h fuel (buildNative fms.length fms).1 fms.length (buildNative fms.length fms).2 stable).2.2.2 = true := by
    have hok : ∀ f ∈ fms, f.atomsOK := fun f hf => atomsOK_of_lt hn f (hv f hf)
    have ⟨w, hl, hc⟩ := buildNative_correct fms.length fms hn hok
    have hvalid : ∀ t ∈ (buildNative fms.length fms).2, t < (buildNative fms.length fms).1.nodes.size := by
      intro t ht
      obtain ⟨i, hi, rfl⟩ := List.getElem_of_mem ht
      have hi' : i < fms.length := by omega
      exact (hc i _ _ (List.getElem?_eq_getElem hi) (List.getElem?_eq_getElem hi')).1
    exact ngSearch_halts_within h _ fms.length _ stable w hl hvalid fuel hf
  obtain ⟨f0, h0, hex⟩ := ng_end_to_end_compiled h fms stable hn hv
  have e : SM.ngSearch h fuel (buildNative fms.length fms).1 fms.length (buildNative fms.length fms).2 stable =
      SM.ngSearch h f0 (buildNative fms.length fms).1 fms.length (buildNative fms.length fms).2 stable := by
    rw [ngSearch_eq, ngSearch_eq] at *
    rcases Nat.le_total f0 fuel with c | c
    · exact cSearch_mono _ f0 fuel _ _ _ stable h0 c
    · exact (cSearch_mono _ fuel f0 _ _ _ stable hhalt c).symm
  rw [e]
  exact ⟨h0, hex⟩

end NConc
#print axioms NConc.ngSearch_halts_within
#print axioms NConc.ngSearch_exact_within
