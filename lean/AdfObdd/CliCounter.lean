import AdfObdd.CliModes
import AdfObdd.CountsDef
/-! # `--counter` of the `adf-bdd` binary (an addition to `CliM.runText`, which it leaves untouched)

`bin/src/main.rs`: after the construction of the framework (and before the first section) the naive
arm and the hybrid arm look at `--counter`:

* `nai`: `for c in adf.formulacounts(false) { print!("{:?} ", c) }; println!()`,
* `mem`: `for c in adf.formulacounts(true) { print!("{:?}", c) }; println!()` (no blank between the items),
* any other value, or none: nothing;
* the hybrid arm counts on a SEPARATE object, `adf.hybrid_step_opt(false)` (the bridge of the
  conditions themselves, not of the pre-grounded ones), and then goes on with `hybrid_step()`;
* the biodivine arm only logs an error ("Modelcounting not supported in biodivine mode").

`formulacounts(m)` is `bdd.models(ac, m)` for every condition: `modelcount_naive` resp.
`modelcount_memoization` (or the count cache with feature `adhoccountmodels`) — all of them return the
numbers of `countF` (C11–C13; as naturals: the Rust computes in `usize`, exact for diagrams of depth
≤ 64, `CountsWord.count_word_exact`) — EXCEPT `mem` under the default feature set, which prints zeros
(`zeroMemoLine`; found by running this model against the binary). `{:?}` of `ModelCounts` is the derived `Debug`.

`--import` and `--export` (naive arm only) are modelled separately in `CliIO.lean` (`CliM.runTextIO`: the
binary with a file-system snapshot); `--counter` is not combined with them there. -/
namespace CliM
open ParserM FromParser Cli

/-- the value of `--counter` -/
inductive Counter where | absent | nai | mem | other
deriving DecidableEq, Repr

/-- `{:?}` of a `ModelCounts` -/
def showCounts (cm m : Nat) : List Char :=
  "ModelCounts { cmodels: ".toList ++ (Nat.repr cm).toList ++ ", models: ".toList ++ (Nat.repr m).toList ++ " }".toList

/-- the items of the counter line (`sep` = the blank of the `nai` variant) -/
def counterLine (sep : List Char) (s : Store) (ac : List Nat) : List Char :=
  ac.flatMap fun t => let c := countF s (t + 1) t; showCounts c.1 c.2.1 ++ sep

/-- what `models(term, true)` returns when the crate is compiled with feature `adhoccounting` but
without `adhoccountmodels` — THE DEFAULT FEATURE SET of the library and of the binary: `Bdd::node`
enters every new node into `count_cache` with the model counts multiplied by `(lo_exp, hi_exp) = (0, 0)`
(`#[cfg(not(feature = "adhoccountmodels"))]`), and `modelcount_memoization` returns the cache entry:
`(0, 0)` for every inner node; the constants are answered before the cache is looked at -/
def zeroMemoLine (ac : List Nat) : List Char :=
  ac.flatMap fun t => if t = 1 then showCounts 0 1 else if t = 0 then showCounts 1 0 else showCounts 0 0

/-- the lines `--counter` adds on the object `(s, ac)`. `zeroMemo` = "compiled with `adhoccounting` and
without `adhoccountmodels`" (see `zeroMemoLine`; with any other feature set `mem` prints the numbers of
`nai`: without `adhoccounting` the cache is filled by the recursion itself, with `adhoccountmodels` it
holds the right products). -/
def counterOut (zeroMemo : Bool) : Counter → Store → List Nat → List (List Char)
  | .nai, s, ac => [counterLine [' '] s ac]
  | .mem, s, ac => [if zeroMemo then zeroMemoLine ac else counterLine [] s ac]
  | _, _, _ => []

/-- the lines `--counter` adds in front of the sections, per arm -/
def counterLines {T : Type} (W : World T) (zm : Bool) (i : Inv) (c : Counter) (st : PState) : List (List Char) :=
  match i.mode with
  | .biodivine => []
  | .naive =>
    match fromParser st with
    | none => []
    | some b => counterOut zm c b.1 b.2
  | .hybrid =>
    match bioBuild (W.lib (dictSizeOf st)) st i.flags.stmrew with
    | none => []
    | some b =>
      -- `hybrid_step_opt(false)`: the conditions themselves through the bridge, into a fresh store
      let h := bridgeAll (W.lib (dictSizeOf st)) W.dump b.1 Store.init []
      counterOut zm c h.1 h.2

/-- the binary on the text of the file, with `--counter` -/
def runTextC {T : Type} (W : World T) (zm : Bool) (fuel : Nat) (i : Inv) (c : Counter) (t : List Char) : Out :=
  match parsed W i t with
  | none => rejected
  | some st =>
    match runParsed W fuel i st with
    | none => rejected
    | some blocks => ⟨0, counterLines W zm i c st ++ blocks.flatMap fun b => b.2.map (render st.namelist)⟩


theorem counterLines_none {T : Type} (W : World T) (zm : Bool) (i : Inv) (c : Counter) (st : PState)
    (h : c = .absent ∨ c = .other ∨ i.mode = .biodivine) : counterLines W zm i c st = [] := by
  unfold counterLines
  cases hm : i.mode with
  | biodivine => rfl
  | naive =>
    simp only
    cases fromParser st with
    | none => rfl
    | some b => rcases h with rfl | rfl | h <;> first | rfl | (rw [hm] at h; cases h)
  | hybrid =>
    simp only
    cases bioBuild (W.lib (dictSizeOf st)) st i.flags.stmrew with
    | none => rfl
    | some b => rcases h with rfl | rfl | h <;> first | rfl | (rw [hm] at h; cases h)

/-- without `--counter` (or with a value other than `nai`/`mem`, or in the biodivine arm) the run is
`runText` -/
theorem runTextC_eq_runText {T : Type} (W : World T) (zm : Bool) (fuel : Nat) (i : Inv) (c : Counter) (t : List Char)
    (h : c = .absent ∨ c = .other ∨ i.mode = .biodivine) : runTextC W zm fuel i c t = runText W fuel i t := by
  unfold runTextC runText
  cases parsed W i t with
  | none => rfl
  | some st =>
    simp only
    cases runParsed W fuel i st with
    | none => rfl
    | some blocks => simp only [counterLines_none W zm i c st h, List.nil_append]

/-- `--counter` changes neither the exit status nor the interpretations printed: it puts at most one
line in front of them -/
theorem runTextC_stdout {T : Type} (W : World T) (zm : Bool) (fuel : Nat) (i : Inv) (c : Counter) (t : List Char) :
    (runTextC W zm fuel i c t).exit = (runText W fuel i t).exit ∧
    ∃ pre : List (List Char), pre.length ≤ 1 ∧
      (runTextC W zm fuel i c t).stdout = pre ++ (runText W fuel i t).stdout := by
  unfold runTextC runText
  cases parsed W i t with
  | none => exact ⟨rfl, [], by simp, rfl⟩
  | some st =>
    simp only
    cases runParsed W fuel i st with
    | none => exact ⟨rfl, [], by simp, rfl⟩
    | some blocks =>
      refine ⟨rfl, counterLines W zm i c st, ?_, rfl⟩
      unfold counterLines
      cases i.mode with
      | biodivine => simp
      | naive =>
        simp only
        cases fromParser st with
        | none => simp
        | some b => cases c <;> simp [counterOut]
      | hybrid =>
        simp only
        cases bioBuild (W.lib (dictSizeOf st)) st i.flags.stmrew with
        | none => simp
        | some b => cases c <;> simp [counterOut]

end CliM
