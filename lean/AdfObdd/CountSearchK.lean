import AdfObdd.Base
/-! The counting-guided search exactly as `two_val_model_counts_logic` runs it, as a generic machine
    (variant of `GS.search` of `CountSearchS.lean`, which is left intact). Differences to `GS`:

    * the leaf runs in the store too (`apply_interpretation` on the conditions) and returns a *list*
      of concrete outputs of an arbitrary type `O`;
    * cubes have an arbitrary type `K` (the code's pairs of negative / positive variable lists);
    * states and outputs are observed through *regions* `Reg c σ`, `RegO o σ` (sets of total
      assignments) and a measure `mu`, instead of through a partial assignment — this lets an instance
      restrict regions to assignments that are `false` outside the statement range;
    * outputs carry a predicate `Good` established at the leaves;
    * the laws of the cube step are only demanded for cubes of the enumerated list.

    The executable part (`CParams`, `search`) has no propositional fields, the view used by the
    proofs is a separate structure. Imports nothing but `Base`, so the driver can run it. -/
namespace GK

/-- the executable parameters -/
structure CParams (S C K O : Type) where
  pick : S → C → Option Nat
  goal : S → C → Nat → Bool
  cubes : S → C → Nat → Bool → List K
  cubeStep : S → C → Nat → Bool → K → S × Option C
  flipStep : S → C → Nat → Bool → S × Option C
  leaf : S → C → S × List O

variable {S C K O : Type}

def cubeLoop (P : CParams S C K O) (rec : S → C → S × List O) (c : C) (idx : Nat) (g : Bool) :
    List K → S → S × List O
  | [], s => (s, [])
  | cu :: cus, s =>
    let r := P.cubeStep s c idx g cu
    let here := match r.2 with
      | some c' => rec r.1 c'
      | none => (r.1, [])
    let rest := cubeLoop P rec c idx g cus here.1
    (rest.1, here.2 ++ rest.2)

def search (P : CParams S C K O) : Nat → S → C → S × List O
  | 0, s, _ => (s, [])
  | fuel+1, s, c =>
    match P.pick s c with
    | none => P.leaf s c
    | some idx =>
      let g := P.goal s c idx
      let r1 := cubeLoop P (fun s' c' => search P fuel s' c') c idx g (P.cubes s c idx g) s
      let f := P.flipStep r1.1 c idx g
      match f.2 with
      | some c' => let r2 := search P fuel f.1 c'; (r2.1, r1.2 ++ r2.2)
      | none => (f.1, r1.2)

/-- how the proofs look at states, cubes and outputs -/
structure View (S C K O : Type) where
  n : Nat
  mu : C → Nat
  Reg : C → Asg → Prop
  RegO : O → Asg → Prop
  InK : K → Asg → Prop
  Good : O → Prop
  Inv : S → C → Prop
  Le : S → S → Prop

def DisjO (V : View S C K O) (o o' : O) : Prop := ∀ σ, ¬ (V.RegO o σ ∧ V.RegO o' σ)

/-- what a (sub)search delivers -/
structure Spec (T : Asg → Prop) (V : View S C K O) (s : S) (c : C) (r : S × List O) : Prop where
  le : V.Le s r.1
  cover : ∀ σ, T σ → V.Reg c σ → ∃ o ∈ r.2, V.RegO o σ
  sound : ∀ o ∈ r.2, ∀ σ, V.RegO o σ → V.Reg c σ
  disj : r.2.Pairwise (DisjO V)
  good : ∀ o ∈ r.2, V.Good o

structure CSound (T : Asg → Prop) (P : CParams S C K O) (V : View S C K O) : Prop where
  le_refl : ∀ s, V.Le s s
  le_trans : ∀ s s' s'', V.Le s s' → V.Le s' s'' → V.Le s s''
  inv_mono : ∀ s s' c, V.Inv s c → V.Le s s' → V.Inv s' c
  bound : ∀ s c, V.Inv s c → P.pick s c ≠ none → V.mu c < V.n
  leaf_law : ∀ s c, V.Inv s c → P.pick s c = none → Spec T V s c (P.leaf s c)
  cube_cover : ∀ s c idx, V.Inv s c → P.pick s c = some idx → ∀ σ, T σ → V.Reg c σ →
      σ idx = P.goal s c idx → ∃ cu ∈ P.cubes s c idx (P.goal s c idx), V.InK cu σ
  cube_disj : ∀ s c idx, V.Inv s c → P.pick s c = some idx →
      (P.cubes s c idx (P.goal s c idx)).Pairwise (fun cu cu' => ∀ σ, ¬ (V.InK cu σ ∧ V.InK cu' σ))
  /-- a cube step taken later, in any extension `s` of the store `s0` in which the branching
  decision was made -/
  cube_step : ∀ s0 s c idx cu, V.Inv s0 c → P.pick s0 c = some idx → V.Le s0 s →
      cu ∈ P.cubes s0 c idx (P.goal s0 c idx) →
      V.Le s (P.cubeStep s c idx (P.goal s0 c idx) cu).1 ∧
      (∀ c', (P.cubeStep s c idx (P.goal s0 c idx) cu).2 = some c' →
        V.Inv (P.cubeStep s c idx (P.goal s0 c idx) cu).1 c' ∧ V.mu c < V.mu c' ∧
        (∀ σ, V.Reg c' σ → V.Reg c σ ∧ V.InK cu σ ∧ σ idx = P.goal s0 c idx) ∧
        (∀ σ, T σ → V.Reg c σ → V.InK cu σ → σ idx = P.goal s0 c idx → V.Reg c' σ)) ∧
      ((P.cubeStep s c idx (P.goal s0 c idx) cu).2 = none →
        ∀ σ, T σ → V.Reg c σ → V.InK cu σ → σ idx = P.goal s0 c idx → False)
  flip_step : ∀ s0 s c idx, V.Inv s0 c → P.pick s0 c = some idx → V.Le s0 s →
      V.Le s (P.flipStep s c idx (P.goal s0 c idx)).1 ∧
      (∀ c', (P.flipStep s c idx (P.goal s0 c idx)).2 = some c' →
        V.Inv (P.flipStep s c idx (P.goal s0 c idx)).1 c' ∧ V.mu c < V.mu c' ∧
        (∀ σ, V.Reg c' σ → V.Reg c σ ∧ σ idx = !P.goal s0 c idx) ∧
        (∀ σ, T σ → V.Reg c σ → σ idx = (!P.goal s0 c idx) → V.Reg c' σ)) ∧
      ((P.flipStep s c idx (P.goal s0 c idx)).2 = none →
        ∀ σ, T σ → V.Reg c σ → σ idx = (!P.goal s0 c idx) → False)

variable {T : Asg → Prop} {P : CParams S C K O} {V : View S C K O}

theorem cubeLoop_spec (hP : CSound T P V) (rec : S → C → S × List O) (s0 : S) (c : C) (idx : Nat)
    (hinv : V.Inv s0 c) (hp : P.pick s0 c = some idx)
    (hrec : ∀ s' c', V.Inv s' c' → V.mu c < V.mu c' → Spec T V s' c' (rec s' c')) :
    ∀ (l : List K) (s : S), V.Le s0 s → (∀ cu ∈ l, cu ∈ P.cubes s0 c idx (P.goal s0 c idx)) →
      l.Pairwise (fun cu cu' => ∀ σ, ¬ (V.InK cu σ ∧ V.InK cu' σ)) →
      let r := cubeLoop P rec c idx (P.goal s0 c idx) l s
      V.Le s r.1 ∧
      (∀ o ∈ r.2, ∃ cu ∈ l, ∀ σ, V.RegO o σ → V.Reg c σ ∧ V.InK cu σ ∧ σ idx = P.goal s0 c idx) ∧
      r.2.Pairwise (DisjO V) ∧
      (∀ cu ∈ l, ∀ σ, T σ → V.Reg c σ → V.InK cu σ → σ idx = P.goal s0 c idx → ∃ o ∈ r.2, V.RegO o σ) ∧
      (∀ o ∈ r.2, V.Good o) := by
  intro l
  induction l with
  | nil =>
    intro s _ _ _
    simp only [cubeLoop]
    exact ⟨hP.le_refl s, (fun o ho => by cases ho), List.Pairwise.nil, (fun cu hcu => by cases hcu),
      (fun o ho => by cases ho)⟩
  | cons cu cus ih =>
    intro s hle hmem hpw
    have ⟨hcu, hcus⟩ := List.pairwise_cons.mp hpw
    have ⟨st1, st2, st3⟩ := hP.cube_step s0 s c idx cu hinv hp hle (hmem cu (List.mem_cons_self ..))
    simp only [cubeLoop]
    -- the branch for this cube
    have hereF : ∃ here : S × List O,
        here = (match (P.cubeStep s c idx (P.goal s0 c idx) cu).2 with
                | some c' => rec (P.cubeStep s c idx (P.goal s0 c idx) cu).1 c'
                | none => ((P.cubeStep s c idx (P.goal s0 c idx) cu).1, [])) ∧
        V.Le s here.1 ∧
        (∀ o ∈ here.2, ∀ σ, V.RegO o σ → V.Reg c σ ∧ V.InK cu σ ∧ σ idx = P.goal s0 c idx) ∧
        here.2.Pairwise (DisjO V) ∧
        (∀ σ, T σ → V.Reg c σ → V.InK cu σ → σ idx = P.goal s0 c idx → ∃ o ∈ here.2, V.RegO o σ) ∧
        (∀ o ∈ here.2, V.Good o) := by
      cases hc : (P.cubeStep s c idx (P.goal s0 c idx) cu).2 with
      | none =>
        refine ⟨_, rfl, st1, (fun o ho => by cases ho), List.Pairwise.nil, ?_, (fun o ho => by cases ho)⟩
        intro σ t m ic hv; exact (st3 hc σ t m ic hv).elim
      | some c' =>
        have ⟨i1, i2, i3, i4⟩ := st2 c' hc
        have sp := hrec _ c' i1 i2
        refine ⟨_, rfl, hP.le_trans _ _ _ st1 sp.le, ?_, sp.disj, ?_, sp.good⟩
        · intro o ho σ m; exact i3 σ (sp.sound o ho σ m)
        · intro σ t m ic hv; exact sp.cover σ t (i4 σ t m ic hv)
    obtain ⟨here, hdef, h1, h2, h3, h4, h5⟩ := hereF
    rw [← hdef]
    have ⟨r1, r2, r3, r4, r5⟩ := ih here.1 (hP.le_trans _ _ _ hle h1)
      (fun cu' hcu' => hmem cu' (List.mem_cons_of_mem _ hcu')) hcus
    refine ⟨hP.le_trans _ _ _ h1 r1, ?_, ?_, ?_, ?_⟩
    · intro o ho
      rcases List.mem_append.mp ho with h | h
      · exact ⟨cu, List.mem_cons_self .., h2 o h⟩
      · obtain ⟨cu', hcu', hh⟩ := r2 o h
        exact ⟨cu', List.mem_cons_of_mem _ hcu', hh⟩
    · rw [List.pairwise_append]
      refine ⟨h3, r3, ?_⟩
      intro o ho o' ho' σ ⟨m, m'⟩
      obtain ⟨cu', hcu', hh⟩ := r2 o' ho'
      exact hcu cu' hcu' σ ⟨(h2 o ho σ m).2.1, (hh σ m').2.1⟩
    · intro cu' hcu' σ t m ic hv
      rcases List.mem_cons.mp hcu' with rfl | hmem'
      · obtain ⟨o, ho, mo⟩ := h4 σ t m ic hv
        exact ⟨o, List.mem_append_left _ ho, mo⟩
      · obtain ⟨o, ho, mo⟩ := r4 cu' hmem' σ t m ic hv
        exact ⟨o, List.mem_append_right _ ho, mo⟩
    · intro o ho
      rcases List.mem_append.mp ho with h | h
      · exact h5 o h
      · exact r5 o h

/-- C04 core on the machine of the code: store only extended, complete, sound, pairwise disjoint
outputs, every output good — for fuel above `n - mu c` -/
theorem search_spec (hP : CSound T P V) : ∀ (fuel : Nat) (s : S) (c : C), V.Inv s c →
    V.n - V.mu c < fuel → Spec T V s c (search P fuel s c) := by
  intro fuel
  induction fuel with
  | zero => intro s c _ h; omega
  | succ f ih =>
    intro s c hinv hf
    unfold search
    cases hp : P.pick s c with
    | none => simp only; exact hP.leaf_law s c hinv hp
    | some idx =>
      simp only
      have hb := hP.bound s c hinv (by rw [hp]; simp)
      have hrec : ∀ s' c', V.Inv s' c' → V.mu c < V.mu c' →
          Spec T V s' c' (search P f s' c') := fun s' c' hi hd => ih s' c' hi (by omega)
      have ⟨l1, l2, l3, l4, l5⟩ := cubeLoop_spec hP (fun s' c' => search P f s' c') s c idx hinv hp hrec
        (P.cubes s c idx (P.goal s c idx)) s (hP.le_refl s) (fun _ h => h) (hP.cube_disj s c idx hinv hp)
      have ⟨f1, f2, f3⟩ := hP.flip_step s _ c idx hinv hp l1
      cases hc : (P.flipStep (cubeLoop P (fun s' c' => search P f s' c') c idx (P.goal s c idx)
          (P.cubes s c idx (P.goal s c idx)) s).1 c idx (P.goal s c idx)).2 with
      | none =>
        simp only
        refine ⟨hP.le_trans _ _ _ l1 f1, ?_, ?_, l3, l5⟩
        · intro σ t m
          by_cases hv : σ idx = P.goal s c idx
          · obtain ⟨cu, hcu, ic⟩ := hP.cube_cover s c idx hinv hp σ t m hv
            exact l4 cu hcu σ t m ic hv
          · have hv' : σ idx = !P.goal s c idx := by
              cases h1 : σ idx <;> cases h2 : P.goal s c idx <;> simp_all
            exact (f3 hc σ t m hv').elim
        · intro o ho σ m
          obtain ⟨cu, _, hh⟩ := l2 o ho
          exact (hh σ m).1
      | some c' =>
        simp only
        have ⟨i1, i2, i3, i4⟩ := f2 c' hc
        have sp := hrec _ c' i1 i2
        refine ⟨hP.le_trans _ _ _ l1 (hP.le_trans _ _ _ f1 sp.le), ?_, ?_, ?_, ?_⟩
        · intro σ t m
          by_cases hv : σ idx = P.goal s c idx
          · obtain ⟨cu, hcu, ic⟩ := hP.cube_cover s c idx hinv hp σ t m hv
            obtain ⟨o, ho, mo⟩ := l4 cu hcu σ t m ic hv
            exact ⟨o, List.mem_append_left _ ho, mo⟩
          · have hv' : σ idx = !P.goal s c idx := by
              cases h1 : σ idx <;> cases h2 : P.goal s c idx <;> simp_all
            obtain ⟨o, ho, mo⟩ := sp.cover σ t (i4 σ t m hv')
            exact ⟨o, List.mem_append_right _ ho, mo⟩
        · intro o ho σ m
          rcases List.mem_append.mp ho with h | h
          · obtain ⟨cu, _, hh⟩ := l2 o h
            exact (hh σ m).1
          · exact (i3 σ (sp.sound o h σ m)).1
        · rw [List.pairwise_append]
          refine ⟨l3, sp.disj, ?_⟩
          intro o ho o' ho' σ ⟨m, m'⟩
          obtain ⟨cu, _, hh⟩ := l2 o ho
          have h1 := (hh σ m).2.2
          have h2 := (i3 σ (sp.sound o' ho' σ m')).2
          rw [h1] at h2
          cases hg : P.goal s c idx <;> simp [hg] at h2
        · intro o ho
          rcases List.mem_append.mp ho with h | h
          · exact l5 o h
          · exact sp.good o h
end GK
