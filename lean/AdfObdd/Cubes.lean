import AdfObdd.StoreCanon
/-! prototype 21: `Bdd::interpretations` — the path cubes towards a goal value are sound,
    pairwise disjoint and, where the goal variable has the goal value, cover the (counter-)models -/

abbrev PCube := List Nat × List Nat      -- (negative, positive)

def InPC (c : PCube) (σ : Asg) : Prop := (∀ x ∈ c.1, σ x = false) ∧ (∀ x ∈ c.2, σ x = true)

def cubesF (s : Store) : Nat → Nat → Bool → Nat → List Nat → List Nat → List PCube
  | 0, _, _, _, _, _ => []
  | fuel+1, tree, goal, gv, neg, pos =>
    if tree < 2 then [] else
    match s.nodes[tree]? with
    | none => []
    | some n =>
      (if gv ≠ n.var ∨ goal = true then
         (if n.hi < 2 then (if (n.hi == 1) == goal then [(neg, pos ++ [n.var])] else [])
          else cubesF s fuel n.hi goal gv neg (pos ++ [n.var]))
       else [])
      ++
      (if gv ≠ n.var ∨ goal = false then
         (if n.lo < 2 then (if (n.lo == 1) == goal then [(neg ++ [n.var], pos)] else [])
          else cubesF s fuel n.lo goal gv (neg ++ [n.var]) pos)
       else [])

theorem InPC_snoc_pos {neg pos : List Nat} {v : Nat} {σ : Asg} :
    InPC (neg, pos ++ [v]) σ ↔ InPC (neg, pos) σ ∧ σ v = true := by
  unfold InPC
  simp only [List.mem_append, List.mem_singleton]
  constructor
  · intro ⟨a, b⟩; exact ⟨⟨a, fun x hx => b x (Or.inl hx)⟩, b v (Or.inr rfl)⟩
  · intro ⟨⟨a, b⟩, c⟩; exact ⟨a, fun x hx => by rcases hx with h | h; exact b x h; rw [h]; exact c⟩

theorem InPC_snoc_neg {neg pos : List Nat} {v : Nat} {σ : Asg} :
    InPC (neg ++ [v], pos) σ ↔ InPC (neg, pos) σ ∧ σ v = false := by
  unfold InPC
  simp only [List.mem_append, List.mem_singleton]
  constructor
  · intro ⟨a, b⟩; exact ⟨⟨fun x hx => a x (Or.inl hx), b⟩, a v (Or.inr rfl)⟩
  · intro ⟨⟨a, b⟩, c⟩; exact ⟨fun x hx => by rcases hx with h | h; exact a x h; rw [h]; exact c, b⟩

theorem eval_leaf (s : Store) (t : Nat) (h : t < 2) (σ : Asg) : eval s t σ = (t == 1) := by
  have h01 : t = 0 ∨ t = 1 := by omega
  rcases h01 with h | h <;> subst h <;> simp [eval_zero, eval_one]

/-- soundness: a cube is a refinement of the accumulator and forces the goal value, and it
fixes the value of the node's own variable on the side it came from -/
theorem cubes_sound (s : Store) (w : WF s) : ∀ (fuel t : Nat) (goal : Bool) (gv : Nat) (neg pos : List Nat)
    (c : PCube) (σ : Asg), t < s.nodes.size → t < fuel → c ∈ cubesF s fuel t goal gv neg pos → InPC c σ →
    InPC (neg, pos) σ ∧ eval s t σ = goal := by
  intro fuel
  induction fuel with
  | zero => intro t _ _ _ _ _ _ _ h; omega
  | succ f ih =>
    intro t goal gv neg pos c σ ht hf hc hin
    unfold cubesF at hc
    by_cases h2 : t < 2
    · rw [if_pos h2] at hc; cases hc
    · rw [if_neg h2] at hc
      obtain ⟨n, hn⟩ := get_of_lt ht
      simp only [hn] at hc
      have ⟨_, hlo, hhi, _, _, _⟩ := w.inner t n (by omega) hn
      rw [eval_node s w t n (by omega) hn]
      rcases List.mem_append.mp hc with hc | hc
      · -- hi side
        split at hc
        · split at hc
          · split at hc
            · rename_i hl hg
              rw [List.mem_singleton.mp hc] at hin
              have ⟨a, b⟩ := InPC_snoc_pos.mp hin
              refine ⟨a, ?_⟩
              rw [b, if_pos rfl, eval_leaf s n.hi hl]; simpa using hg
            · cases hc
          · have ⟨a, b⟩ := ih n.hi goal gv neg (pos ++ [n.var]) c σ (by omega) (by omega) hc hin
            have ⟨a1, a2⟩ := InPC_snoc_pos.mp a
            exact ⟨a1, by rw [a2, if_pos rfl]; exact b⟩
        · cases hc
      · split at hc
        · split at hc
          · split at hc
            · rename_i hl hg
              rw [List.mem_singleton.mp hc] at hin
              have ⟨a, b⟩ := InPC_snoc_neg.mp hin
              refine ⟨a, ?_⟩
              rw [b]; simp only [Bool.false_eq_true, if_false]
              rw [eval_leaf s n.lo hl]; simpa using hg
            · cases hc
          · have ⟨a, b⟩ := ih n.lo goal gv (neg ++ [n.var]) pos c σ (by omega) (by omega) hc hin
            have ⟨a1, a2⟩ := InPC_snoc_neg.mp a
            exact ⟨a1, by rw [a2]; simp only [Bool.false_eq_true, if_false]; exact b⟩
        · cases hc

/-- coverage: where the goal variable has the goal value, every assignment with the goal
value of the function lies in some cube -/
theorem cubes_cover (s : Store) (w : WF s) : ∀ (fuel t : Nat) (goal : Bool) (gv : Nat) (neg pos : List Nat)
    (σ : Asg), t < s.nodes.size → t < fuel → 2 ≤ t → InPC (neg, pos) σ → σ gv = goal → eval s t σ = goal →
    ∃ c ∈ cubesF s fuel t goal gv neg pos, InPC c σ := by
  intro fuel
  induction fuel with
  | zero => intro t _ _ _ _ _ _ h; omega
  | succ f ih =>
    intro t goal gv neg pos σ ht hf ht2 hin hgv hev
    unfold cubesF
    rw [if_neg (by omega)]
    obtain ⟨n, hn⟩ := get_of_lt ht
    simp only [hn]
    have ⟨_, hlo, hhi, _, _, _⟩ := w.inner t n ht2 hn
    rw [eval_node s w t n ht2 hn] at hev
    cases hσ : σ n.var with
    | true =>
      rw [hσ, if_pos rfl] at hev
      have hcond : gv ≠ n.var ∨ goal = true := by
        by_cases e : gv = n.var
        · right; rw [← hgv, e, hσ]
        · left; exact e
      have hin' : InPC (neg, pos ++ [n.var]) σ := InPC_snoc_pos.mpr ⟨hin, hσ⟩
      rw [if_pos hcond]
      by_cases hl : n.hi < 2
      · rw [if_pos hl]
        have : ((n.hi == 1) == goal) = true := by rw [eval_leaf s n.hi hl] at hev; simpa using hev
        rw [if_pos this]
        exact ⟨_, List.mem_append_left _ (List.mem_singleton.mpr rfl), hin'⟩
      · rw [if_neg hl]
        obtain ⟨c, hc, hcin⟩ := ih n.hi goal gv neg (pos ++ [n.var]) σ (by omega) (by omega) (by omega) hin' hgv hev
        exact ⟨c, List.mem_append_left _ hc, hcin⟩
    | false =>
      rw [hσ] at hev; simp only [Bool.false_eq_true, if_false] at hev
      have hcond : gv ≠ n.var ∨ goal = false := by
        by_cases e : gv = n.var
        · right; rw [← hgv, e, hσ]
        · left; exact e
      have hin' : InPC (neg ++ [n.var], pos) σ := InPC_snoc_neg.mpr ⟨hin, hσ⟩
      rw [if_pos hcond]
      by_cases hl : n.lo < 2
      · rw [if_pos hl]
        have : ((n.lo == 1) == goal) = true := by rw [eval_leaf s n.lo hl] at hev; simpa using hev
        rw [if_pos this]
        exact ⟨_, List.mem_append_right _ (List.mem_singleton.mpr rfl), hin'⟩
      · rw [if_neg hl]
        obtain ⟨c, hc, hcin⟩ := ih n.lo goal gv (neg ++ [n.var]) pos σ (by omega) (by omega) (by omega) hin' hgv hev
        exact ⟨c, List.mem_append_right _ hc, hcin⟩
#print axioms cubes_sound
#print axioms cubes_cover

def DisjPC (c c' : PCube) : Prop := ∀ σ, ¬ (InPC c σ ∧ InPC c' σ)

/-- disjointness: no assignment lies in two of the enumerated cubes -/
theorem cubes_disjoint (s : Store) (w : WF s) : ∀ (fuel t : Nat) (goal : Bool) (gv : Nat) (neg pos : List Nat),
    t < s.nodes.size → t < fuel → (cubesF s fuel t goal gv neg pos).Pairwise DisjPC := by
  intro fuel
  induction fuel with
  | zero => intro t _ _ _ _ _ h; omega
  | succ f ih =>
    intro t goal gv neg pos ht hf
    unfold cubesF
    by_cases h2 : t < 2
    · rw [if_pos h2]; exact List.Pairwise.nil
    · rw [if_neg h2]
      obtain ⟨n, hn⟩ := get_of_lt ht
      simp only [hn]
      have ⟨_, hlo, hhi, _, _, _⟩ := w.inner t n (by omega) hn
      -- the two halves
      have hiFacts : ∀ c ∈ (if gv ≠ n.var ∨ goal = true then
           (if n.hi < 2 then (if (n.hi == 1) == goal then [(neg, pos ++ [n.var])] else [])
            else cubesF s f n.hi goal gv neg (pos ++ [n.var])) else []), ∀ σ, InPC c σ → σ n.var = true := by
        intro c hc σ hin
        split at hc
        · split at hc
          · split at hc
            · rw [List.mem_singleton.mp hc] at hin; exact (InPC_snoc_pos.mp hin).2
            · cases hc
          · have := (cubes_sound s w f n.hi goal gv neg (pos ++ [n.var]) c σ (by omega) (by omega) hc hin).1
            exact (InPC_snoc_pos.mp this).2
        · cases hc
      have loFacts : ∀ c ∈ (if gv ≠ n.var ∨ goal = false then
           (if n.lo < 2 then (if (n.lo == 1) == goal then [(neg ++ [n.var], pos)] else [])
            else cubesF s f n.lo goal gv (neg ++ [n.var]) pos) else []), ∀ σ, InPC c σ → σ n.var = false := by
        intro c hc σ hin
        split at hc
        · split at hc
          · split at hc
            · rw [List.mem_singleton.mp hc] at hin; exact (InPC_snoc_neg.mp hin).2
            · cases hc
          · have := (cubes_sound s w f n.lo goal gv (neg ++ [n.var]) pos c σ (by omega) (by omega) hc hin).1
            exact (InPC_snoc_neg.mp this).2
        · cases hc
      rw [List.pairwise_append]
      refine ⟨?_, ?_, ?_⟩
      · split
        · split
          · split
            · exact List.pairwise_singleton _ _
            · exact List.Pairwise.nil
          · exact ih n.hi goal gv neg (pos ++ [n.var]) (by omega) (by omega)
        · exact List.Pairwise.nil
      · split
        · split
          · split
            · exact List.pairwise_singleton _ _
            · exact List.Pairwise.nil
          · exact ih n.lo goal gv (neg ++ [n.var]) pos (by omega) (by omega)
        · exact List.Pairwise.nil
      · intro c hc c' hc' σ ⟨m, m'⟩
        have h1 := hiFacts c hc σ m
        have h2 := loFacts c' hc' σ m'
        rw [h1] at h2; cases h2
#print axioms cubes_disjoint
