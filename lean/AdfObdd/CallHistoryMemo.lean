import AdfObdd.CallHistoryProofs
/-! # Call histories: answers (with their ORDER) and node tables do not depend on memo contents

`MemoT.restrictF_lock` / `runOps_memo_transparent` (MemoTransparent.lean) say that a diagram
operation issues the same handle number and builds the same node table on two well-formed stores
with the same node table, whatever their memo tables hold. Here the same is lifted to the calls of
`runCall` that are compositions of `restrict`, constant tests and reads of the node table:
`grounded`, `complete`, `stable`, `stable_with_prefilter`, the queries and the extra formulas. The
two searches (`countAll`, `SM.ngSearch`) are built from the same primitives plus reads of the node
table (`countF`, `pathsF`, `depsOf`, `cubesF`); their lock-step lemmas are in `SearchLock.lean`, the
full statement `memo_independent_statement` is proved in `CallHistoryMemoFull.lean`
(`CallH.memo_independent`). -/
namespace CallH

/-- two well-formed stores with the same node table (memo tables arbitrary) -/
structure Lk (s s' : Store) : Prop where
  w : WF s
  w' : WF s'
  nodes : s'.nodes = s.nodes

theorem Lk.refl {s : Store} (w : WF s) : Lk s s := ⟨w, w, rfl⟩

/-- `fold restrict` -/
theorem restrictBy_lock : ∀ (cs : List Nat) (k : Nat) (s s' : Store) (t : Nat), Lk s s' → t < s.nodes.size →
    Lk (restrictBy StoreRA s t k cs).1 (restrictBy StoreRA s' t k cs).1 ∧ Ext s (restrictBy StoreRA s t k cs).1 ∧
    (restrictBy StoreRA s t k cs).2 < (restrictBy StoreRA s t k cs).1.nodes.size ∧
    (restrictBy StoreRA s' t k cs).2 = (restrictBy StoreRA s t k cs).2 := by
  intro cs
  induction cs with
  | nil => intro k s s' t h ht; exact ⟨h, Ext.refl _, ht, rfl⟩
  | cons c cs ih =>
    intro k s s' t h ht
    unfold restrictBy
    cases hc : StoreRA.isConst c with
    | none => simp only; exact ih (k + 1) s s' t h ht
    | some b =>
      simp only
      have ht' : t < s'.nodes.size := by rw [h.nodes]; exact ht
      have ⟨w1, e1, v1, _, _⟩ := restrictF_spec (t + 1) s t k b h.w ht (Nat.lt_succ_self _)
      have ⟨w1', _, _, _, _⟩ := restrictF_spec (t + 1) s' t k b h.w' ht' (Nat.lt_succ_self _)
      have ⟨n1, r1⟩ := MemoT.restrictF_lock (t + 1) s s' t k b h.w h.w' h.nodes ht (Nat.lt_succ_self _)
      show Lk (restrictBy StoreRA (restrictF (t + 1) s t k b).1 (restrictF (t + 1) s t k b).2 (k + 1) cs).1
            (restrictBy StoreRA (restrictF (t + 1) s' t k b).1 (restrictF (t + 1) s' t k b).2 (k + 1) cs).1 ∧
          Ext s (restrictBy StoreRA (restrictF (t + 1) s t k b).1 (restrictF (t + 1) s t k b).2 (k + 1) cs).1 ∧
          (restrictBy StoreRA (restrictF (t + 1) s t k b).1 (restrictF (t + 1) s t k b).2 (k + 1) cs).2 <
            (restrictBy StoreRA (restrictF (t + 1) s t k b).1 (restrictF (t + 1) s t k b).2 (k + 1) cs).1.nodes.size ∧
          (restrictBy StoreRA (restrictF (t + 1) s' t k b).1 (restrictF (t + 1) s' t k b).2 (k + 1) cs).2 =
            (restrictBy StoreRA (restrictF (t + 1) s t k b).1 (restrictF (t + 1) s t k b).2 (k + 1) cs).2
      rw [r1]
      have ⟨a, b', c', d⟩ := ih (k + 1) _ _ _ ⟨w1, w1', n1⟩ v1
      exact ⟨a, e1.trans b', c', d⟩

/-- one round of `grounded_internal` -/
theorem roundAux_lock (curr : List Nat) : ∀ (xs : List Nat) (s s' : Store), Lk s s' →
    (∀ x ∈ xs, x < s.nodes.size) →
    Lk (roundAux StoreRA s curr xs).1 (roundAux StoreRA s' curr xs).1 ∧ Ext s (roundAux StoreRA s curr xs).1 ∧
    (∀ x ∈ (roundAux StoreRA s curr xs).2, x < (roundAux StoreRA s curr xs).1.nodes.size) ∧
    (roundAux StoreRA s' curr xs).2 = (roundAux StoreRA s curr xs).2 := by
  intro xs
  induction xs with
  | nil => intro s s' h _; exact ⟨h, Ext.refl _, (fun _ hx => by cases hx), rfl⟩
  | cons x xs ih =>
    intro s s' h hv
    have hx : x < s.nodes.size := hv x (List.mem_cons_self ..)
    have hxs : ∀ y ∈ xs, y < s.nodes.size := fun y hy => hv y (List.mem_cons_of_mem _ hy)
    unfold roundAux
    cases hc : StoreRA.isConst x with
    | some b =>
      simp only
      have ⟨a, e, v, d⟩ := ih s s' h hxs
      refine ⟨a, e, ?_, by rw [d]⟩
      intro y hy
      rcases List.mem_cons.mp hy with hh | hh
      · rw [hh]; exact Nat.lt_of_lt_of_le hx e.1
      · exact v y hh
    | none =>
      simp only
      have ⟨a1, e1, v1, d1⟩ := restrictBy_lock curr 0 s s' x h hx
      have ⟨a2, e2, v2, d2⟩ := ih _ _ a1 (fun y hy => Nat.lt_of_lt_of_le (hxs y hy) e1.1)
      refine ⟨a2, e1.trans e2, ?_, by rw [d1, d2]⟩
      intro y hy
      rcases List.mem_cons.mp hy with hh | hh
      · rw [hh]; exact Nat.lt_of_lt_of_le v1 e2.1
      · exact v2 y hh

/-- `grounded_internal` -/
theorem groundedLoop_lock : ∀ (fuel : Nat) (s s' : Store) (v : List Nat), Lk s s' →
    (∀ x ∈ v, x < s.nodes.size) →
    Lk (groundedLoop StoreRA fuel s v).1 (groundedLoop StoreRA fuel s' v).1 ∧
    Ext s (groundedLoop StoreRA fuel s v).1 ∧
    (∀ x ∈ (groundedLoop StoreRA fuel s v).2, x < (groundedLoop StoreRA fuel s v).1.nodes.size) ∧
    (groundedLoop StoreRA fuel s' v).2 = (groundedLoop StoreRA fuel s v).2 := by
  intro fuel
  induction fuel with
  | zero => intro s s' v h hv; exact ⟨h, Ext.refl _, hv, rfl⟩
  | succ f ih =>
    intro s s' v h hv
    have ⟨a1, e1, v1, d1⟩ := roundAux_lock v v s s' h hv
    unfold groundedLoop
    simp only
    rw [d1]
    by_cases hc : countConst StoreRA (roundAux StoreRA s v v).2 = countConst StoreRA v
    · rw [if_pos hc, if_pos hc]; exact ⟨a1, e1, v1, d1⟩
    · rw [if_neg hc, if_neg hc]
      have ⟨a2, e2, v2, d2⟩ := ih _ _ _ a1 v1
      exact ⟨a2, e1.trans e2, v2, d2⟩

/-- the filter of `complete` / the pre-filter of `stable_with_prefilter` -/
theorem completeCheck_lock (v : List Nat) : ∀ (acs xs : List Nat) (s s' : Store), Lk s s' →
    (∀ a ∈ acs, a < s.nodes.size) →
    Lk (completeCheck StoreRA s v acs xs).1 (completeCheck StoreRA s' v acs xs).1 ∧
    Ext s (completeCheck StoreRA s v acs xs).1 ∧
    (completeCheck StoreRA s' v acs xs).2 = (completeCheck StoreRA s v acs xs).2 := by
  intro acs
  induction acs with
  | nil => intro xs s s' h _; unfold completeCheck; exact ⟨h, Ext.refl _, rfl⟩
  | cons a acs ih =>
    intro xs s s' h hv
    cases xs with
    | nil => unfold completeCheck; exact ⟨h, Ext.refl _, rfl⟩
    | cons x xs =>
      have ⟨a1, e1, _, d1⟩ := restrictBy_lock v 0 s s' a h (hv a (List.mem_cons_self ..))
      unfold completeCheck
      simp only
      rw [d1]
      by_cases hc : (StoreRA.isConst (restrictBy StoreRA s a 0 v).2 == StoreRA.isConst x) = true
      · rw [if_pos hc, if_pos hc]
        have ⟨a2, e2, d2⟩ := ih xs _ _ a1
          (fun y hy => Nat.lt_of_lt_of_le (hv y (List.mem_cons_of_mem _ hy)) e1.1)
        exact ⟨a2, e1.trans e2, d2⟩
      · rw [if_neg hc, if_neg hc]
        exact ⟨a1, e1, rfl⟩

theorem restrictFalse_lock : ∀ (cs : List Nat) (k : Nat) (s s' : Store) (t : Nat), Lk s s' → t < s.nodes.size →
    Lk (restrictFalse s t k cs).1 (restrictFalse s' t k cs).1 ∧ Ext s (restrictFalse s t k cs).1 ∧
    (restrictFalse s t k cs).2 < (restrictFalse s t k cs).1.nodes.size ∧
    (restrictFalse s' t k cs).2 = (restrictFalse s t k cs).2 := by
  intro cs
  induction cs with
  | nil => intro k s s' t h ht; exact ⟨h, Ext.refl _, ht, rfl⟩
  | cons c cs ih =>
    intro k s s' t h ht
    unfold restrictFalse
    by_cases hc : (c == 0) = true
    · rw [if_pos hc, if_pos hc]
      simp only
      have ht' : t < s'.nodes.size := by rw [h.nodes]; exact ht
      have ⟨w1, e1, v1, _, _⟩ := restrictF_spec (t + 1) s t k false h.w ht (Nat.lt_succ_self _)
      have ⟨w1', _, _, _, _⟩ := restrictF_spec (t + 1) s' t k false h.w' ht' (Nat.lt_succ_self _)
      have ⟨n1, r1⟩ := MemoT.restrictF_lock (t + 1) s s' t k false h.w h.w' h.nodes ht (Nat.lt_succ_self _)
      rw [r1]
      have ⟨a, b', c', d⟩ := ih (k + 1) _ _ _ ⟨w1, w1', n1⟩ v1
      exact ⟨a, e1.trans b', c', d⟩
    · rw [if_neg hc, if_neg hc]; exact ih (k + 1) s s' t h ht

theorem mapFalse_lock (cand : List Nat) : ∀ (acs : List Nat) (s s' : Store), Lk s s' →
    (∀ a ∈ acs, a < s.nodes.size) →
    Lk (mapFalse s cand acs).1 (mapFalse s' cand acs).1 ∧ Ext s (mapFalse s cand acs).1 ∧
    (∀ x ∈ (mapFalse s cand acs).2, x < (mapFalse s cand acs).1.nodes.size) ∧
    (mapFalse s' cand acs).2 = (mapFalse s cand acs).2 := by
  intro acs
  induction acs with
  | nil => intro s s' h _; exact ⟨h, Ext.refl _, (fun _ hx => by cases hx), rfl⟩
  | cons a acs ih =>
    intro s s' h hv
    have ⟨a1, e1, v1, d1⟩ := restrictFalse_lock cand 0 s s' a h (hv a (List.mem_cons_self ..))
    have ⟨a2, e2, v2, d2⟩ := ih _ _ a1
      (fun y hy => Nat.lt_of_lt_of_le (hv y (List.mem_cons_of_mem _ hy)) e1.1)
    unfold mapFalse
    simp only
    refine ⟨a2, e1.trans e2, ?_, by rw [d1, d2]⟩
    intro y hy
    rcases List.mem_cons.mp hy with hh | hh
    · rw [hh]; exact Nat.lt_of_lt_of_le v1 e2.1
    · exact v2 y hh

/-- folds whose step is in lock-step are in lock-step -/
theorem foldl_lock {α β : Type} (f : Store × β → α → Store × β) (s0 : Store)
    (hstep : ∀ (a a' : Store × β) (x : α), Lk a.1 a'.1 → Ext s0 a.1 → a'.2 = a.2 →
      Lk (f a x).1 (f a' x).1 ∧ Ext s0 (f a x).1 ∧ (f a' x).2 = (f a x).2) :
    ∀ (l : List α) (a a' : Store × β), Lk a.1 a'.1 → Ext s0 a.1 → a'.2 = a.2 →
      Lk (l.foldl f a).1 (l.foldl f a').1 ∧ Ext s0 (l.foldl f a).1 ∧ (l.foldl f a').2 = (l.foldl f a).2 := by
  intro l
  induction l with
  | nil => intro a a' h e d; exact ⟨h, e, d⟩
  | cons x xs ih =>
    intro a a' h e d
    have ⟨h1, e1, d1⟩ := hstep a a' x h e d
    exact ih _ _ h1 e1 d1

/-- `Adf::complete` -/
theorem completeAll_lock (s s' : Store) (n : Nat) (ac : List Nat) (h : Lk s s')
    (hv : ∀ a ∈ ac, a < s.nodes.size) :
    Lk (completeAll s n ac).1 (completeAll s' n ac).1 ∧ (completeAll s' n ac).2 = (completeAll s n ac).2 := by
  have ⟨a1, e1, _, d1⟩ := groundedLoop_lock (n + 1) s s' ac h hv
  unfold completeAll
  simp only
  rw [d1]
  have := foldl_lock (fun (acc : Store × List (List Nat)) v =>
      let c := completeCheck StoreRA acc.1 v ac v
      (c.1, if c.2 then acc.2 ++ [v] else acc.2)) s
    (by
      intro a a' x hl he hd
      have ⟨a2, e2, d2⟩ := completeCheck_lock x ac x a.1 a'.1 hl
        (fun y hy => Nat.lt_of_lt_of_le (hv y hy) he.1)
      exact ⟨a2, he.trans e2, by simp only [d2, hd]⟩)
    (threeValAll (groundedLoop StoreRA (n + 1) s ac).2)
    ((groundedLoop StoreRA (n + 1) s ac).1, []) ((groundedLoop StoreRA (n + 1) s' ac).1, []) a1 e1 rfl
  exact ⟨this.1, by rw [this.2.2]⟩

/-- the stability test on one candidate -/
theorem stableTest_lock (n : Nat) (ac cand : List Nat) (s0 s s' : Store) (h : Lk s s') (he : Ext s0 s)
    (hv : ∀ a ∈ ac, a < s0.nodes.size) :
    Lk (groundedLoop StoreRA (n + 1) (mapFalse s cand ac).1 (mapFalse s cand ac).2).1
       (groundedLoop StoreRA (n + 1) (mapFalse s' cand ac).1 (mapFalse s' cand ac).2).1 ∧
    Ext s0 (groundedLoop StoreRA (n + 1) (mapFalse s cand ac).1 (mapFalse s cand ac).2).1 ∧
    (groundedLoop StoreRA (n + 1) (mapFalse s' cand ac).1 (mapFalse s' cand ac).2).2 =
      (groundedLoop StoreRA (n + 1) (mapFalse s cand ac).1 (mapFalse s cand ac).2).2 := by
  have ⟨a1, e1, v1, d1⟩ := mapFalse_lock cand ac s s' h (fun y hy => Nat.lt_of_lt_of_le (hv y hy) he.1)
  rw [d1]
  have ⟨a2, e2, _, d2⟩ := groundedLoop_lock (n + 1) _ _ _ a1 v1
  exact ⟨a2, (he.trans e1).trans e2, d2⟩

/-- `Adf::stable` -/
theorem stableAll_lock (s s' : Store) (n : Nat) (ac : List Nat) (h : Lk s s')
    (hv : ∀ a ∈ ac, a < s.nodes.size) :
    Lk (stableAll s n ac).1 (stableAll s' n ac).1 ∧ (stableAll s' n ac).2 = (stableAll s n ac).2 := by
  have ⟨a1, e1, _, d1⟩ := groundedLoop_lock (n + 1) s s' ac h hv
  unfold stableAll
  simp only
  rw [d1]
  have := foldl_lock (fun (acc : Store × List (List Nat)) cand =>
      let red := mapFalse acc.1 cand ac
      let grd := groundedLoop StoreRA (n + 1) red.1 red.2
      let ok := (cand.zip grd.2).all (fun (a, b) => sameInfo a b)
      (grd.1, if ok then acc.2 ++ [cand] else acc.2)) s
    (by
      intro a a' x hl he hd
      have ⟨a2, e2, d2⟩ := stableTest_lock n ac x s a.1 a'.1 hl he hv
      exact ⟨a2, e2, by simp only [d2, hd]⟩)
    (twoValAll (groundedLoop StoreRA (n + 1) s ac).2)
    ((groundedLoop StoreRA (n + 1) s ac).1, []) ((groundedLoop StoreRA (n + 1) s' ac).1, []) a1 e1 rfl
  exact ⟨this.1, this.2.2⟩

/-- `Adf::stable_with_prefilter` -/
theorem stablePre_lock (s s' : Store) (n : Nat) (ac : List Nat) (h : Lk s s')
    (hv : ∀ a ∈ ac, a < s.nodes.size) :
    Lk (Cli.stablePre s n ac).1 (Cli.stablePre s' n ac).1 ∧ (Cli.stablePre s' n ac).2 = (Cli.stablePre s n ac).2 := by
  have ⟨a1, e1, _, d1⟩ := groundedLoop_lock (n + 1) s s' ac h hv
  unfold Cli.stablePre
  simp only
  rw [d1]
  have := foldl_lock (fun (acc : Store × List (List Nat)) cand =>
      let pre := completeCheck StoreRA acc.1 cand ac cand
      if pre.2 then
        let red := mapFalse pre.1 cand ac
        let grd := groundedLoop StoreRA (n + 1) red.1 red.2
        let ok := (cand.zip grd.2).all (fun (a, b) => sameInfo a b)
        (grd.1, if ok then acc.2 ++ [cand] else acc.2)
      else (pre.1, acc.2)) s
    (by
      intro a a' x hl he hd
      have ⟨a2, e2, d2⟩ := completeCheck_lock x ac x a.1 a'.1 hl
        (fun y hy => Nat.lt_of_lt_of_le (hv y hy) he.1)
      simp only [d2]
      by_cases hp : (completeCheck StoreRA a.1 x ac x).2 = true
      · simp only [hp, if_true]
        have ⟨a3, e3, d3⟩ := stableTest_lock n ac x s _ _ a2 (he.trans e2) hv
        exact ⟨a3, e3, by simp only [d3, hd]⟩
      · simp only [hp, if_false]
        exact ⟨a2, he.trans e2, hd⟩)
    (twoValAll (groundedLoop StoreRA (n + 1) s ac).2)
    ((groundedLoop StoreRA (n + 1) s ac).1, []) ((groundedLoop StoreRA (n + 1) s' ac).1, []) a1 e1 rfl
  exact ⟨this.1, this.2.2⟩

/-! ### the calls -/

/-- two objects that are equal up to the CONTENTS of the memo tables of their stores -/
structure MemoEq (st st' : AdfState) : Prop where
  lk : Lk st.s st'.s
  n : st'.n = st.n
  ac : st'.ac = st.ac
  issued : st'.issued = st.issued

theorem memoEq_store (n : Nat) (ac iss : List Nat) {r r' : Store} (h : Lk r r') :
    MemoEq ⟨r, n, ac, iss⟩ ⟨r', n, ac, iss⟩ := ⟨h, rfl, rfl, rfl⟩

/-- the two searches (their lock-step lemmas live in `SearchLock.lean`) -/
def _root_.Call.isSearch : Call → Prop
  | .count _ => True
  | .ng _ _ _ => True
  | _ => False

/-- full statement: the answer of every call — vectors, their ORDER, handle numbers — and the node
table afterwards do not depend on what the memo tables of the incoming store hold -/
def memo_independent_statement : Prop :=
  ∀ (st st' : AdfState) (c : Call), Inv st → MemoEq st st' →
    (runCall st' c).2 = (runCall st c).2 ∧ MemoEq (runCall st c).1 (runCall st' c).1

/-- every call kind except the two searches (`count`, `ng`); those are added by
`CallH.memo_independent` (CallHistoryMemoFull.lean), which uses this lemma for the other kinds -/
theorem memo_independent_partial (st st' : AdfState) (c : Call) (hi : Inv st) (h : MemoEq st st')
    (hc : ¬ c.isSearch) :
    (runCall st' c).2 = (runCall st c).2 ∧ MemoEq (runCall st c).1 (runCall st' c).1 := by
  obtain ⟨s, n, ac, iss⟩ := st
  obtain ⟨s', n', ac', iss'⟩ := st'
  obtain ⟨lk, hn, hac, his⟩ := h
  simp only at lk hn hac his
  subst hn hac his
  have hv : ∀ a ∈ ac', a < s.nodes.size := hi.ac
  cases c with
  | grounded =>
    have ⟨a, _, _, d⟩ := groundedLoop_lock (n' + 1) s s' ac' lk hv
    simp only [runCall]
    exact ⟨by rw [d], ⟨a, rfl, rfl, by rw [d]⟩⟩
  | complete =>
    have ⟨a, d⟩ := completeAll_lock s s' n' ac' lk hv
    simp only [runCall]
    exact ⟨by rw [d], memoEq_store _ _ _ a⟩
  | stable =>
    have ⟨a, d⟩ := stableAll_lock s s' n' ac' lk hv
    simp only [runCall]
    exact ⟨by rw [d], memoEq_store _ _ _ a⟩
  | stablePre =>
    have ⟨a, d⟩ := stablePre_lock s s' n' ac' lk hv
    simp only [runCall]
    exact ⟨by rw [d], memoEq_store _ _ _ a⟩
  | count useA => exact absurd trivial hc
  | ng h fuel stable => exact absurd trivial hc
  | query i q =>
    simp only [runCall]
    by_cases hlt : i < ac'.length
    · rw [if_pos hlt, if_pos hlt]
      have ht : ac'.getD i 0 < s.nodes.size := by
        apply hv
        rw [List.getD_eq_getElem?_getD, List.getElem?_eq_getElem hlt]
        exact List.getElem_mem hlt
      exact ⟨by rw [runQuery_ext lk.w (Ext_of_nodes lk.nodes) _ ht q], memoEq_store _ _ _ lk⟩
    · rw [if_neg hlt, if_neg hlt]; exact ⟨rfl, memoEq_store _ _ _ lk⟩
  | ops l =>
    simp only [runCall]
    rw [show AdfState.base ⟨s', n', ac', iss'⟩ = AdfState.base ⟨s, n', ac', iss'⟩ from rfl]
    generalize hB : AdfState.base ⟨s, n', ac', iss'⟩ = B
    have hb : ∀ k, k < B.length → hget B k < s.nodes.size := by rw [← hB]; exact base_valid hi
    by_cases hvl : opsValid l B.length
    · rw [if_pos hvl, if_pos hvl]
      have hb' : ∀ k, k < B.length → hget B k < s'.nodes.size := by
        rw [lk.nodes]; exact hb
      have ⟨r, nn⟩ := runOps_memo_transparent l s s' B lk.w lk.w' lk.nodes hb hvl
      have ⟨w1, _, _⟩ := runOps_refines l s B _ lk.w (MemoT.histOK_of_bounds s _ hb) hvl
      have ⟨w1', _, _⟩ := runOps_refines l s' B _ lk.w' (MemoT.histOK_of_bounds s' _ hb') hvl
      rw [r]
      exact ⟨rfl, memoEq_store _ _ _ ⟨w1, w1', nn⟩⟩
    · rw [if_neg hvl, if_neg hvl]; exact ⟨rfl, memoEq_store _ _ _ lk⟩

/-- histories without the two searches: same answers in the same order, same node table, same
issued handles, whatever the memo tables of the start store hold -/
theorem runCalls_memo_independent_partial : ∀ (h : List Call) (st st' : AdfState), Inv st → MemoEq st st' →
    (∀ c ∈ h, ¬ c.isSearch) →
    (runCalls st' h).2 = (runCalls st h).2 ∧ MemoEq (runCalls st h).1 (runCalls st' h).1 := by
  intro h
  induction h with
  | nil => intro st st' _ hm _; exact ⟨rfl, hm⟩
  | cons c cs ih =>
    intro st st' hi hm hc
    have ⟨a1, m1⟩ := memo_independent_partial st st' c hi hm (hc c (List.mem_cons_self ..))
    have ⟨a2, m2⟩ := ih _ _ (runCall_step st c hi).1 m1 (fun x hx => hc x (List.mem_cons_of_mem _ hx))
    simp only [runCalls]
    exact ⟨by rw [a1, a2], m2⟩

/-- the memo-dropped copy of an object -/
def dropMemo (st : AdfState) : AdfState := { st with s := { st.s with iteC := {}, resC := {} } }

theorem memoEq_drop (st : AdfState) (hi : Inv st) : MemoEq st (dropMemo st) :=
  ⟨⟨hi.wf, ⟨hi.wf.len, hi.wf.bot, hi.wf.top, hi.wf.inner, hi.wf.uniqOK,
      fun t v b r h => by simp [dropMemo] at h, fun i t e r h => by simp [dropMemo] at h⟩, rfl⟩, rfl, rfl, rfl⟩

/-- determinism as a pure model can state it: `runCalls` is a function (congruence) -/
theorem runCalls_deterministic (st st' : AdfState) (h h' : List Call) (e1 : st = st') (e2 : h = h') :
    runCalls st h = runCalls st' h' := by rw [e1, e2]

end CallH
