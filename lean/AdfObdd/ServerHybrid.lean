import AdfObdd.ServerConcreteProofs
import AdfObdd.HybridParser
import AdfObdd.ServerD9
import AdfObdd.CliModes
import AdfObdd.CliWorldProofs
import AdfObdd.ServerFuel
/-! # C16 — hybrid parsing in the service

Two repairs of "the theorems ASSUME `SrvA.Denotes` for tables stored by hybrid parsing":

* **the check** (`storedAdfChk`, the Boolean the driver's run-time check `storedAdfOK'` reports as `ok`):
  well-formed table, names as parsed, one root per statement, every root an index of the table, every
  inner node tests a declared statement, and every root evaluates like its condition under the `2^n`
  assignments of the declared statements. `storedAdfChk_denotes`: the check IMPLIES `SrvA.Denotes` (the
  old `storedAdfOK` did not: it neither bounded the roots nor the variables of the table).
* **the model** of the `Parsing::Hybrid` arm of the parse task (`server/src/adf.rs`:
  `BdAdf::from_parser(&parser)` then `hybrid_step_opt(false)`): `parseHybrid` runs the parser model,
  `Bio.acOf` (every `ac` fact in file order, later facts overwrite, `mk_false` without a fact) over a
  biodivine library `Lf n` for the `n` declared statements, and `Bio.hybridStep … false`.
  `parseHybrid_denotes`: over a lawful library whose dump satisfies `Bio.DumpSpec` the stored table
  denotes the conditions of the submitted text. `hybEnv` is the service environment with this arm in
  place of the adopted tables; `served_answer_for_code_any_parsing` is the final corollary for BOTH
  parsing strategies, with no `Denotes` hypothesis.
* **biodivine's limits** (`bioVarsOK`, review 2 item 2): `BdAdf::from_parser` creates the variable set with
  `BddVariableSetBuilder::make_variables(namelist)`, which PANICS on a name containing one of
  `! & | ^ = < > ( ) ? :` (`CliM.bioNameOK`, the check the CLI model has) and on the 65 535-th variable.
  The panic is inside the blocking task: the server stores `Error` for VALID code (finding D6 seen through
  the web service). `parseHybrid` answers `.error .panic` in exactly those cases
  (`parseHybrid_rejects_of_bad_names`); the theorems about a successful hybrid parse get the name condition
  for free (`parseHybrid_names_ok`), the ones that promise success carry it as a hypothesis.
* **the dump hypothesis** (review 2 item 1): `Bio.DumpSpec (W n) (dumpf n)` is demanded for `n ≤ VBOT` only
  (for `n = VBOT + 1` NO dump satisfies it: the variable `VBOT` is not a legal dump entry); instance:
  `tt_hyps` (`Bio.ttLib`, `Bio.ttDump`, `Bio.ttDump_spec`). -/
namespace ServerAdf
open ServerM

/-! ## (a) the check implies `Denotes` -/

theorem evalF_supp (ns : Array Node) (n : Nat) (hv : varsBelow ns n = true) :
    ∀ (fuel t : Nat) (σ τ : Asg), (∀ x, x < n → σ x = τ x) → evalF ns fuel t σ = evalF ns fuel t τ := by
  intro fuel
  induction fuel with
  | zero => intro t σ τ _; rfl
  | succ f ih =>
    intro t σ τ h
    unfold evalF
    by_cases h0 : t = 0
    · simp [h0]
    by_cases h1 : t = 1
    · simp [h1]
    simp only [h0, h1, if_false]
    cases hn : ns[t]? with
    | none => rfl
    | some nd =>
      simp only
      have hlt : t < ns.size := by
        rcases Nat.lt_or_ge t ns.size with h | h
        · exact h
        · rw [Array.getElem?_eq_none h] at hn; cases hn
      have := List.all_eq_true.mp hv t (List.mem_range.mpr hlt)
      simp only [Bool.or_eq_true, decide_eq_true_eq, hn] at this
      have hvar : nd.var < n := by
        rcases this with h | h
        · omega
        · exact h
      rw [h nd.var hvar, ih nd.hi σ τ h, ih nd.lo σ τ h]

theorem asgOf_numOf (n : Nat) (σ : Asg) : ∀ x, x < n → WebSem.asgOf (TT.numOf n σ) x = σ x := by
  intro x hx
  unfold WebSem.asgOf
  rw [TT.numOf_testBit]
  simp [hx]

/-- what `conditions` guarantees about an accepted text: one condition per declared statement, every
atom a declared statement -/
theorem conditions_facts (code : String) (names : List String) (fms : List Fm) (h : conditions code = .ok (names, fms)) :
    fms.length = names.length ∧ ∀ φ ∈ fms, NConc.atomsLt names.length φ := by
  unfold conditions at h
  cases hp : parseText code with
  | none => rw [hp] at h; cases h
  | some p =>
    rw [hp] at h
    simp only at h
    cases hr : resolve p with
    | error e => rw [hr] at h; cases h
    | ok l =>
      rw [hr] at h
      simp only [Except.ok.injEq, Prod.mk.injEq] at h
      obtain ⟨rfl, rfl⟩ := h
      refine ⟨by simp, ?_⟩
      exact SrvA.condsOf_atomsLt p.names.length l (SrvA.resolve_atomsLt p l hr)

/-- **the strengthened check implies `Denotes`** -/
theorem storedAdfChk_denotes (names : List String) (fms : List Fm) (a : SAdf)
    (hat : ∀ φ ∈ fms, NConc.atomsLt fms.length φ)
    (h : storedAdfChk (.ok (names, fms)) a = true) :
    a.names = names ∧ SrvA.Denotes a fms.length fms := by
  unfold storedAdfChk at h
  simp only [Bool.and_eq_true, beq_iff_eq] at h
  obtain ⟨⟨⟨⟨⟨hwf, hnames⟩, hlen⟩, hroots⟩, hvars⟩, hsem⟩ := h
  have w := wfCheck_sound a.nodes hwf
  refine ⟨hnames, w, hlen, rfl, hat, ?_⟩
  intro i t f hti hfi
  have hi : i < fms.length := (List.getElem?_eq_some_iff.mp hfi).1
  have htm : t ∈ a.ac := List.mem_of_getElem? hti
  have hts : t < a.nodes.size := by
    have := List.all_eq_true.mp hroots t htm
    simpa using this
  refine ⟨hts, fun σ => ?_⟩
  have hrow := List.all_eq_true.mp hsem i (List.mem_range.mpr hi)
  have hcell := List.all_eq_true.mp hrow (TT.numOf fms.length σ) (List.mem_range.mpr (TT.numOf_lt _ σ))
  have hgt : a.ac.getD i 0 = t := by simp [List.getD, hti]
  have hgf : fms.getD i Fm.bot = f := by simp [List.getD, hfi]
  rw [hgt, hgf, beq_iff_eq] at hcell
  have hag := asgOf_numOf fms.length σ
  have e1 : eval ⟨a.nodes, {}, {}, {}⟩ t σ = evalF a.nodes (a.nodes.size + 1) t σ := by
    unfold eval
    exact (Tab.evalF_fuel ⟨a.nodes, {}, {}, {}⟩ w t (a.nodes.size + 1) σ (by omega)).symm
  rw [e1, evalF_supp a.nodes fms.length hvars _ t σ (WebSem.asgOf (TT.numOf fms.length σ)) (fun x hx => (hag x hx).symm),
    hcell]
  exact NConc.sem_supp f (hat f (List.mem_of_getElem? hfi)) _ _ hag

/-- **… from the submitted text**: a stored ADF that passes the check for `code` denotes the
conditions `conditions code` reads off the text -/
theorem storedAdfChk_denotes_code (code : String) (a : SAdf) (h : storedAdfChk (conditions code) a = true) :
    ∃ fms, conditions code = .ok (a.names, fms) ∧ SrvA.Denotes a a.names.length fms := by
  cases hc : conditions code with
  | error e => rw [hc] at h; cases h
  | ok x =>
    obtain ⟨names, fms⟩ := x
    rw [hc] at h
    have ⟨hl, hat⟩ := conditions_facts code names fms hc
    have ⟨hn, hd⟩ := storedAdfChk_denotes names fms a (by rw [hl]; exact hat) h
    refine ⟨fms, by rw [hn], ?_⟩
    rw [hn, ← hl]; exact hd

/-- the driver's message is `ok` exactly when the Boolean check holds -/
theorem storedAdfOK'_ok_iff (code : String) (a : SAdf) :
    storedAdfOK' code a = "ok" ↔ storedAdfChk (conditions code) a = true := by
  unfold storedAdfOK'
  constructor
  · intro h
    by_cases hc : storedAdfChk (conditions code) a = true
    · exact hc
    · rw [if_neg hc] at h
      by_cases ho : (storedAdfOK code a != "ok") = true
      · rw [if_pos ho] at h
        simp only [bne_iff_ne, ne_eq] at ho
        exact absurd h ho
      · rw [if_neg ho] at h
        exact absurd h (by decide)
  · intro h; rw [if_pos h]

/-- on input the old check objects to, the new check reports the old message (the driver's output
changes only where the old check said `ok` and the table has an out-of-range root or variable) -/
theorem storedAdfOK'_old_message (code : String) (a : SAdf) (h : storedAdfOK code a ≠ "ok")
    (hc : storedAdfChk (conditions code) a = false) : storedAdfOK' code a = storedAdfOK code a := by
  unfold storedAdfOK'
  rw [hc]
  have : (storedAdfOK code a != "ok") = true := by simpa using h
  simp [this]

theorem storedAdfOK'_denotes (code : String) (a : SAdf) (h : storedAdfOK' code a = "ok") :
    ∃ fms, conditions code = .ok (a.names, fms) ∧ SrvA.Denotes a a.names.length fms :=
  storedAdfChk_denotes_code code a ((storedAdfOK'_ok_iff code a).mp h)

/-! ## (b) the model of the `Parsing::Hybrid` arm -/

section model
variable {T : Type}

/-- `BdAdf::from_parser`: `ac = vec![mk_false; n]`, then every `ac` fact in file order
`ac[formula_order[k]] = eval_expression(ac_at(k).to_boolean_expr())` -/
def bioAc (L : Bio.Lib T) (n : Nat) (l : List (Nat × Fm)) : List T :=
  Bio.acOf L n (l.map (·.1)) (l.map (fun x => x.2.toBExpr))

/-- what `BddVariableSetBuilder::make_variables(namelist)` (biodivine_lib_bdd 0.5.23,
`_impl_bdd_variable_set_builder.rs:21-37`) accepts without panicking: no name contains one of
`! & | ^ = < > ( ) ? :` (`CliM.bioNameOK`), and `new_variable_id < u16::MAX - 1` for every variable, i.e. at
most 65 534 names (the third panic, a repeated name, cannot occur: the parser's `namelist` is duplicate-free) -/
def bioVarsOK (names : List String) : Bool :=
  names.all (fun n => CliM.bioNameOK n.toList) && decide (names.length ≤ 65534)

/-- the blocking part of the parse task for `Parsing::Hybrid`: parser, `BdAdf::from_parser`,
`hybrid_step_opt(false)`, `SimplifiedAdf::from` and the parse-only graph. `Lf n` / `dumpf n`: the
biodivine library and its dump for a variable set of `n` declared statements. `.error .panic`: a panic
inside `spawn_blocking` (the `JoinError` is what the continuation stores): an `ac` for an undeclared
statement / an undeclared atom (`resolve`), or a statement name / count biodivine refuses (`bioVarsOK`;
`make_variables` runs first in the Rust, but both panics give the same stored error) -/
def parseHybrid (Lf : Nat → Bio.Lib T) (dumpf : Nat → T → List Node) (key code : String) : Except Err (SAdf × SRes) :=
  match parseText code with
  | none => .error .parseError
  | some p =>
    match resolve p with
    | .error e => .error e
    | .ok l =>
      if bioVarsOK p.names then
        let n := p.names.length
        let r := Bio.hybridStep (Lf n) (dumpf n) false (bioAc (Lf n) n l)
        let a : SAdf := { key := key, names := p.names, nodes := r.1.nodes, ac := r.2 }
        .ok (a, [⟨r.2, graphOf p.names r.1.nodes r.2⟩])
      else .error .panic

theorem bioAc_foldl (L : Bio.Lib T) (l : List (Nat × Fm)) : ∀ init : List T,
    ((l.map (·.1)).zip (l.map (fun x => x.2.toBExpr))).foldl (fun ac p => ac.set p.1 (L.evalExpr p.2)) init =
    l.foldl (fun ac x => ac.set x.1 (L.evalExpr x.2.toBExpr)) init := by
  induction l with
  | nil => intro init; rfl
  | cons x xs ih => intro init; simp only [List.map_cons, List.zip_cons_cons, List.foldl_cons]; exact ih _

/-- invariant of `from_parser`'s loop over the `ac` facts -/
structure BAInv {L : Bio.Lib T} {n : Nat} (W : Bio.Lawful L n) (done : List (Nat × Fm)) (ac : List T) : Prop where
  len : ac.length = n
  ok : ∀ (i : Nat) (t : T), ac[i]? = some t → W.Valid t ∧ W.den t = (SrvA.lastOf done i).sem

theorem bioAc_loop {L : Bio.Lib T} {n : Nat} (W : Bio.Lawful L n) : ∀ (l done : List (Nat × Fm)) (ac : List T),
    BAInv W done ac → (∀ x ∈ l, NConc.atomsLt n x.2) →
    BAInv W (done ++ l) (l.foldl (fun ac x => ac.set x.1 (L.evalExpr x.2.toBExpr)) ac) := by
  intro l
  induction l with
  | nil => intro done ac h _; simpa using h
  | cons x xs ih =>
    intro done ac h hok
    have g := W.evalExpr_spec x.2.toBExpr (Fm.toBExpr_closed x.2 (hok x (List.mem_cons_self ..)))
    have h' : BAInv W (done ++ [x]) (ac.set x.1 (L.evalExpr x.2.toBExpr)) := by
      refine ⟨by rw [List.length_set]; exact h.len, ?_⟩
      intro i t ht
      by_cases hi : x.1 = i
      · subst hi
        rw [List.getElem?_set_self'] at ht
        cases hlt : decide (x.1 < ac.length) with
        | false =>
          have : ¬ x.1 < ac.length := by simpa using hlt
          simp [this] at ht
        | true =>
          have : x.1 < ac.length := by simpa using hlt
          simp [this] at ht
          subst ht
          rw [SrvA.lastOf_snoc_self, g.2, Fm.toBExpr_sem]
          exact ⟨g.1, rfl⟩
      · rw [List.getElem?_set_ne hi] at ht
        rw [SrvA.lastOf_snoc_ne _ _ _ hi]
        exact h.ok i t ht
    have := ih (done ++ [x]) _ h' (fun y hy => hok y (List.mem_cons_of_mem _ hy))
    simpa [List.foldl_cons, List.append_assoc] using this

/-- **`BdAdf::from_parser` as the parse task runs it**: `n` valid diagrams, the `i`-th denoting the
condition that counts for statement `i` (the last `ac` fact for it, falsum without one) -/
theorem bioAc_spec {L : Bio.Lib T} {n : Nat} (W : Bio.Lawful L n) (l : List (Nat × Fm))
    (ha : ∀ x ∈ l, NConc.atomsLt n x.2) :
    (bioAc L n l).length = n ∧ (∀ t ∈ bioAc L n l, W.Valid t) ∧
    (bioAc L n l).map W.den = (SrvA.condsOf n l).map Fm.sem := by
  have h0 : BAInv W [] (List.replicate n L.mkFalse) := by
    refine ⟨by simp, ?_⟩
    intro i t ht
    rw [List.getElem?_replicate] at ht
    split at ht
    · cases ht
      exact ⟨W.mkFalse_spec.1, by rw [W.mkFalse_spec.2]; rfl⟩
    · cases ht
  have h := bioAc_loop W l [] _ h0 ha
  rw [List.nil_append] at h
  have e : bioAc L n l = l.foldl (fun ac x => ac.set x.1 (L.evalExpr x.2.toBExpr)) (List.replicate n L.mkFalse) := by
    unfold bioAc Bio.acOf
    exact bioAc_foldl L l _
  rw [e]
  refine ⟨h.len, fun t ht => ?_, ?_⟩
  · obtain ⟨i, hi, rfl⟩ := List.getElem_of_mem ht
    exact (h.ok i _ (List.getElem?_eq_getElem hi)).1
  · apply List.ext_getElem
    · simp [h.len, SrvA.condsOf]
    · intro i h1 h2
      have hi : i < n := by simpa [SrvA.condsOf] using h2
      simp only [List.getElem_map, SrvA.condsOf, List.getElem_range]
      have hlt : i < (l.foldl (fun ac x => ac.set x.1 (L.evalExpr x.2.toBExpr)) (List.replicate n L.mkFalse)).length := by
        simpa using h1
      exact (h.ok i _ (List.getElem?_eq_getElem hlt)).2

/-- **the hybrid arm stores a table that denotes the code**: over a library that is lawful for the
`n` declared statements and whose dump satisfies `DumpSpec`, whatever `parseHybrid` stores denotes the
conditions `ServerAdf.conditions` reads off the submitted text (no bound on `n` is needed: the hybrid
arm creates no variable nodes of its own) -/
theorem parseHybrid_denotes (Lf : Nat → Bio.Lib T) (dumpf : Nat → T → List Node) (key code : String) (a : SAdf) (r : SRes)
    (h : parseHybrid Lf dumpf key code = .ok (a, r))
    (W : Bio.Lawful (Lf a.names.length) a.names.length) (hd : Bio.DumpSpec W (dumpf a.names.length)) :
    ∃ fms, conditions code = .ok (a.names, fms) ∧ SrvA.Denotes a a.names.length fms ∧
      r = [⟨a.ac, graphOf a.names a.nodes a.ac⟩] := by
  unfold parseHybrid at h
  cases hp : parseText code with
  | none => rw [hp] at h; cases h
  | some p =>
    rw [hp] at h
    simp only at h
    cases hr : resolve p with
    | error e => rw [hr] at h; cases h
    | ok l =>
      rw [hr] at h
      simp only at h
      by_cases hv : bioVarsOK p.names = true
      case neg => rw [if_neg hv] at h; cases h
      rw [if_pos hv] at h
      simp only [Except.ok.injEq, Prod.mk.injEq] at h
      obtain ⟨ha, hres⟩ := h
      subst ha
      simp only at W hd hres ⊢
      have hat := SrvA.resolve_atomsLt p l hr
      have ⟨bl, bv, bd⟩ := bioAc_spec W l hat
      have ⟨w, hl, hlt, g, _, _, e⟩ := Bio.hybridStep_spec W hd false (bioAc (Lf p.names.length) p.names.length l) bv bl
      simp only [Bool.false_eq_true, if_false] at e
      generalize Bio.hybridStep (Lf p.names.length) (dumpf p.names.length) false
        (bioAc (Lf p.names.length) p.names.length l) = R at hres w hl hlt e ⊢
      refine ⟨SrvA.condsOf p.names.length l, ?_, ⟨w.table, hl, by simp [SrvA.condsOf], SrvA.condsOf_atomsLt _ l hat, ?_⟩, hres.symm⟩
      · unfold conditions
        rw [hp]
        simp only [hr]
        rfl
      · intro i t f ht hf
        have ht' : R.2[i]? = some t := ht
        refine ⟨hlt t (List.mem_of_getElem? ht'), fun σ => ?_⟩
        have h1 : (R.2.map (eval R.1))[i]? = some (eval R.1 t) := by
          simp only [List.getElem?_map, ht', Option.map_some]
        rw [e, bd] at h1
        simp only [List.getElem?_map, hf, Option.map_some, Option.some.injEq] at h1
        rw [h1]; exact SrvA.eval_nodes rfl t σ

theorem parseHybrid_of_conditions_error (Lf : Nat → Bio.Lib T) (dumpf : Nat → T → List Node) (key code : String) (e : Err)
    (h : conditions code = .error e) : parseHybrid Lf dumpf key code = .error e := by
  unfold conditions at h
  unfold parseHybrid
  cases hp : parseText code with
  | none => rw [hp] at h; simpa using h
  | some p =>
    rw [hp] at h
    simp only at h ⊢
    cases hr : resolve p with
    | error e' => rw [hr] at h; simpa using h
    | ok l => rw [hr] at h; cases h

/-- a successful hybrid parse: the statement names passed biodivine's checks -/
theorem parseHybrid_names_ok (Lf : Nat → Bio.Lib T) (dumpf : Nat → T → List Node) (key code : String) (a : SAdf) (r : SRes)
    (h : parseHybrid Lf dumpf key code = .ok (a, r)) : bioVarsOK a.names = true := by
  unfold parseHybrid at h
  cases hp : parseText code with
  | none => rw [hp] at h; cases h
  | some p =>
    rw [hp] at h
    simp only at h
    cases hr : resolve p with
    | error e => rw [hr] at h; cases h
    | ok l =>
      rw [hr] at h
      simp only at h
      by_cases hv : bioVarsOK p.names = true
      · rw [if_pos hv] at h
        simp only [Except.ok.injEq, Prod.mk.injEq] at h
        rw [← h.1]; exact hv
      · rw [if_neg hv] at h; cases h

theorem bioVarsOK_length {names : List String} (h : bioVarsOK names = true) : names.length ≤ 65534 := by
  unfold bioVarsOK at h
  simp only [Bool.and_eq_true, decide_eq_true_eq] at h
  exact h.2

theorem bioVarsOK_le_vbot {names : List String} (h : bioVarsOK names = true) : names.length ≤ VBOT := by
  have := bioVarsOK_length h
  unfold VBOT; omega

/-- **finding D6 through the web service, model level**: valid code (`conditions code = .ok …`, so naive
parsing succeeds) with a statement name biodivine refuses - or more than 65 534 statements - makes the
hybrid arm panic: the stored outcome is `Error` -/
theorem parseHybrid_rejects_of_bad_names (Lf : Nat → Bio.Lib T) (dumpf : Nat → T → List Node) (key code : String)
    (x : List String × List Fm) (h : conditions code = .ok x) (hbad : bioVarsOK x.1 = false) :
    parseHybrid Lf dumpf key code = .error .panic := by
  unfold conditions at h
  unfold parseHybrid
  cases hp : parseText code with
  | none => rw [hp] at h; cases h
  | some p =>
    rw [hp] at h
    simp only at h ⊢
    cases hr : resolve p with
    | error e' => rw [hr] at h; cases h
    | ok l =>
      rw [hr] at h
      simp only [Except.ok.injEq] at h
      have : bioVarsOK p.names = false := by rw [← hbad, ← h]
      simp only [this, Bool.false_eq_true, if_false]

end model
end ServerAdf

namespace SrvC
open ServerM ServerAdf
section
variable {T : Type}

/-- **the concrete service with the MODEL of the hybrid arm** in place of the adopted tables: naive
parsing and solving as in `libEnv`, hybrid parsing by `parseHybrid` over the biodivine library `Lf` -/
def hybEnv (Lf : Nat → Bio.Lib T) (dumpf : Nat → T → List Node) : Env String SHash SAdf SRes where
  emp := ""
  hash := fun salt pw => (salt, pw)
  verify := fun h pw => h.2 == pw
  parse := fun p code =>
    match p with
    | .naive => parseNaive (parseKey p code) code
    | .hybrid => parseHybrid Lf dumpf (parseKey p code) code
  solve := solveAdf

theorem hybEnv_solve (Lf : Nat → Bio.Lib T) (dumpf : Nat → T → List Node) (a : SAdf) (s : Strategy) :
    (hybEnv Lf dumpf).solve a s = solveAdf a s := rfl

theorem parseHybrid_of_conditions_ok (Lf : Nat → Bio.Lib T) (dumpf : Nat → T → List Node) (key code : String)
    (x : List String × List Fm) (h : conditions code = .ok x) (hv : bioVarsOK x.1 = true) :
    ∃ a, parseHybrid Lf dumpf key code = .ok (a, [⟨a.ac, graphOf a.names a.nodes a.ac⟩]) ∧ a.names = x.1 := by
  unfold conditions at h
  unfold parseHybrid
  cases hp : parseText code with
  | none => rw [hp] at h; cases h
  | some p =>
    rw [hp] at h
    simp only at h ⊢
    cases hr : resolve p with
    | error e' => rw [hr] at h; cases h
    | ok l =>
      rw [hr] at h
      simp only [Except.ok.injEq] at h
      have hv' : bioVarsOK p.names = true := by rw [← hv, ← h]
      simp only [hv', if_true]
      exact ⟨_, rfl, by rw [← h]⟩

/-- what the driver's service does TODAY for valid code the implementation stored no table for (the only
way the real server gets there is a panic of the blocking task: finding D6's labels, or D12's stack
overflow): `parseOutcome` says `ok`, the lookup in the adopted tables fails, the model stores
`Error:panic` - the same stored error as the server's `JoinError` arm; the run-time monitor `parseSpec`
(`Drv/Http.lean`) prints `violated valid-code-not-stored` for such a task, which is how D6 would show in a
web run -/
theorem libEnv_parse_hybrid_unadopted (o : Oracle) (code : String) (x : List String × List Fm)
    (hacc : conditions code = .ok x) (hl : lookupS (parseKey .hybrid code) o.hyb = none) :
    (libEnv o).parse .hybrid code = .error .panic := by
  show (match parseOutcome code with
      | .error e => (.error e : Except Err (SAdf × SRes))
      | .ok _ =>
        match lookupS (parseKey .hybrid code) o.hyb with
        | some a => .ok (a, [⟨a.ac, graphOf a.names a.nodes a.ac⟩])
        | none => .error .panic) = _
  unfold parseOutcome; rw [hacc]; simp only; rw [hl]

/-- PER SUBMITTED CODE: the driver's service (`libEnv o`: hybrid tables adopted from the implementation) answers the
parse of `code` as this service does whenever the adopted table for `code` is the model's: the model's table if the
model parses `code` successfully (`h`), NO table if the model's hybrid arm panics on biodivine's name / size check
(`hbad`: the server stored an error, the harness adopted nothing) -/
theorem libEnv_eq_hybEnv_at (Lf : Nat → Bio.Lib T) (dumpf : Nat → T → List Node) (o : Oracle) (code : String)
    (h : ∀ a r, parseHybrid Lf dumpf (parseKey .hybrid code) code = .ok (a, r) →
      lookupS (parseKey .hybrid code) o.hyb = some a)
    (hbad : ∀ x, conditions code = .ok x → bioVarsOK x.1 = false →
      lookupS (parseKey .hybrid code) o.hyb = none) :
    ∀ p, (libEnv o).parse p code = (hybEnv Lf dumpf).parse p code := by
  intro p
  cases p with
  | naive => rfl
  | hybrid =>
    cases hc : conditions code with
    | error e =>
      rw [libEnv_parse_error_iff o code e hc]
      exact (parseHybrid_of_conditions_error Lf dumpf _ code e hc).symm
    | ok x =>
      cases hv : bioVarsOK x.1 with
      | true =>
        obtain ⟨a, ha, _⟩ := parseHybrid_of_conditions_ok Lf dumpf (parseKey .hybrid code) code x hc hv
        rw [libEnv_parse_hybrid_ok o code x a hc (h a _ ha)]
        exact ha.symm
      | false =>
        rw [libEnv_parse_hybrid_unadopted o code x hc (hbad x hc hv)]
        exact (parseHybrid_rejects_of_bad_names Lf dumpf _ code x hc hv).symm

/-- the form for ALL codes at once.  VACUOUS (third review): `o.hyb` is a finite association list and `parseKey` is
injective, but infinitely many codes parse successfully, so no oracle satisfies `h`; kept only as a corollary of
`libEnv_eq_hybEnv_at`, which is the usable statement -/
theorem libEnv_eq_hybEnv (Lf : Nat → Bio.Lib T) (dumpf : Nat → T → List Node) (o : Oracle)
    (h : ∀ code a r, parseHybrid Lf dumpf (parseKey .hybrid code) code = .ok (a, r) →
      lookupS (parseKey .hybrid code) o.hyb = some a)
    (hbad : ∀ code x, conditions code = .ok x → bioVarsOK x.1 = false →
      lookupS (parseKey .hybrid code) o.hyb = none) :
    ∀ p code, (libEnv o).parse p code = (hybEnv Lf dumpf).parse p code :=
  fun p code => libEnv_eq_hybEnv_at Lf dumpf o code (h code) (hbad code) p

/-- **whatever the service's parse function returns denotes the submitted text - BOTH parsing
strategies**. Naive parsing: fewer than 2^64 − 2 statements (`hn`); hybrid parsing: the biodivine
library is lawful for the declared statements and its dump satisfies `DumpSpec` - demanded only for at
most `VBOT` statements (a successful hybrid parse has at most 65 534: `parseHybrid_names_ok`) -/
theorem parse_denotes_any (Lf : Nat → Bio.Lib T) (dumpf : Nat → T → List Node) (pg : Parsing) (code : String)
    (a : SAdf) (r : SRes) (h : (hybEnv Lf dumpf).parse pg code = .ok (a, r))
    (hn : pg = .naive → a.names.length ≤ VBOT)
    (W : Bio.Lawful (Lf a.names.length) a.names.length)
    (hd : a.names.length ≤ VBOT → Bio.DumpSpec W (dumpf a.names.length)) :
    ∃ fms, conditions code = .ok (a.names, fms) ∧ SrvA.Denotes a a.names.length fms := by
  cases pg with
  | naive => exact SrvA.parseNaive_denotes _ code a r h (hn rfl)
  | hybrid =>
    have hv := bioVarsOK_le_vbot (parseHybrid_names_ok Lf dumpf _ code a r h)
    obtain ⟨fms, h1, h2, _⟩ := parseHybrid_denotes Lf dumpf _ code a r h W (hd hv)
    exact ⟨fms, h1, h2⟩

/-- `served_answer` for any environment that solves with the library model -/
theorem served_answer_env (E : Env String SHash SAdf SRes) (hE : ∀ a s, E.solve a s = solveAdf a s)
    (st : State String SHash SAdf SRes) (j n jar : Nat)
    (t : TaskRec String SAdf) (a : SAdf) (s : Strategy) (nn : Nat) (fms : List Fm)
    (ht : nthOf j n st.db.tasks = some t) (hin : t.input = .solve a s)
    (hlive : t.blockingDone = true ∧ t.written = false)
    (hd : SrvA.Denotes a nn fms) (hh : SrvA.strategyHalts 1000000 a s = true)
    (p : Problem String SAdf SRes) (hp : st.db.problems.find? (isProb t.username t.name) = some p)
    (hs : st.sess jar = some t.username) :
    ∃ (res : SRes) (i : Info String SRes),
      (step E (ServerM.stepEv E st (.write j n)).1 ⟨jar, .get t.name⟩).2 = ⟨200, .keep, .problem i⟩ ∧
      i.code = p.code ∧ i.parsing = p.parsing ∧
      i.res.get s = .some res ∧ (∀ s', s' ≠ s → i.res.get s' = p.res.get s') ∧
      E.solve a s = .ok res ∧
      SrvA.PropAnswer nn (fms.map Fm.sem) s (SrvA.storedI3 res) := by
  obtain ⟨res, h1, h2⟩ := SrvA.stored_answers_exact_any_table 1000000 a nn fms s hd hh
  rw [solveAdfF_bound] at h1
  have hsol : E.solve a s = .ok res := by rw [hE]; exact h1
  have ⟨_, R⟩ := SrvA.reps_of_atomsLt nn fms hd.atoms
  have hprop := SrvA.propAnswer_of_perm R (by simp [hd.flen]) s h2
  have hw := solve_success_stored E st.db j n t a s res ht hin hlive hsol p hp
  have hs' : (ServerM.stepEv E st (.write j n)).1.sess jar = some t.username := hs
  have hdb : (ServerM.stepEv E st (.write j n)).1.db = dbEv E st.db (.write j n) := rfl
  obtain ⟨ts, hget, _⟩ := get_returns_stored E (ServerM.stepEv E st (.write j n)).1 jar t.username t.name _ hs'
    (by rw [hdb]; exact hw)
  exact ⟨res, _, hget, rfl, rfl, Results.get_set_same _ _ _,
    fun s' h' => Results.get_set_other _ _ _ _ h', hsol, hprop⟩

/-- **the answer a user retrieves, for the submitted code, BOTH parsing strategies, no `Denotes`
hypothesis**: if the framework `a` the solve task was spawned with is what the service's parse function
(naive: parser + `Adf::from_parser`; hybrid: parser + `BdAdf::from_parser` + `hybrid_step_opt(false)`
over a lawful biodivine library) returns for `code`, then after the task's write `GET /adf/{name}` shows
under strategy `s` exactly the grounded / complete / stable models of the framework DENOTED BY THE TEXT -/
theorem served_answer_for_code_any_parsing (Lf : Nat → Bio.Lib T) (dumpf : Nat → T → List Node)
    (st : State String SHash SAdf SRes) (j n jar : Nat)
    (t : TaskRec String SAdf) (pg : Parsing) (code : String) (a : SAdf) (r : SRes) (s : Strategy)
    (ht : nthOf j n st.db.tasks = some t) (hin : t.input = .solve a s)
    (hlive : t.blockingDone = true ∧ t.written = false)
    (hparse : (hybEnv Lf dumpf).parse pg code = .ok (a, r)) (hn : pg = .naive → a.names.length ≤ VBOT)
    (W : Bio.Lawful (Lf a.names.length) a.names.length) (hdump : Bio.DumpSpec W (dumpf a.names.length))
    (hh : SrvA.strategyHalts 1000000 a s = true)
    (p : Problem String SAdf SRes) (hp : st.db.problems.find? (isProb t.username t.name) = some p)
    (hs : st.sess jar = some t.username) :
    ∃ (fms : List Fm) (res : SRes) (i : Info String SRes),
      conditions code = .ok (a.names, fms) ∧
      (step (hybEnv Lf dumpf) (ServerM.stepEv (hybEnv Lf dumpf) st (.write j n)).1 ⟨jar, .get t.name⟩).2 =
        ⟨200, .keep, .problem i⟩ ∧
      i.res.get s = .some res ∧ (∀ s', s' ≠ s → i.res.get s' = p.res.get s') ∧
      SrvA.PropAnswer a.names.length (fms.map Fm.sem) s (SrvA.storedI3 res) := by
  obtain ⟨fms, hc, hd⟩ := parse_denotes_any Lf dumpf pg code a r hparse hn W (fun _ => hdump)
  obtain ⟨res, i, h1, _, _, h4, h5, _, h7⟩ :=
    served_answer_env (hybEnv Lf dumpf) (fun _ _ => rfl) st j n jar t a s _ fms ht hin hlive hd hh p hp hs
  exact ⟨fms, res, i, hc, h1, h4, h5, h7⟩

/-- **… on the driver's service, from the run-time check**: for `libEnv o` (hybrid tables adopted from
the implementation) the same conclusion for a hybrid document whose adopted table passed the check
`storedAdfOK'` (the message the driver prints for every adopted table) - again no `Denotes` hypothesis -/
theorem served_answer_for_code_hybrid_checked (o : Oracle) (st : State String SHash SAdf SRes) (j n jar : Nat)
    (t : TaskRec String SAdf) (code : String) (a : SAdf) (r : SRes) (s : Strategy)
    (ht : nthOf j n st.db.tasks = some t) (hin : t.input = .solve a s)
    (hlive : t.blockingDone = true ∧ t.written = false)
    (hparse : (libEnv o).parse .hybrid code = .ok (a, r)) (hchk : storedAdfOK' code a = "ok")
    (hh : SrvA.strategyHalts 1000000 a s = true)
    (p : Problem String SAdf SRes) (hp : st.db.problems.find? (isProb t.username t.name) = some p)
    (hs : st.sess jar = some t.username) :
    ∃ (fms : List Fm) (res : SRes) (i : Info String SRes),
      conditions code = .ok (a.names, fms) ∧
      (step (libEnv o) (ServerM.stepEv (libEnv o) st (.write j n)).1 ⟨jar, .get t.name⟩).2 = ⟨200, .keep, .problem i⟩ ∧
      i.res.get s = .some res ∧ (∀ s', s' ≠ s → i.res.get s' = p.res.get s') ∧
      SrvA.PropAnswer a.names.length (fms.map Fm.sem) s (SrvA.storedI3 res) := by
  obtain ⟨fms, hc, hd⟩ := storedAdfOK'_denotes code a hchk
  obtain ⟨res, i, h1, _, _, _, _, h6, h7, _, h9⟩ := served_answer o st j n jar t a s _ fms ht hin hlive hd hh p hp hs
  exact ⟨fms, res, i, hc, h1, h6, h7, h9⟩

/-! ### the search bound (review 2 item 4)

`solveAdf` runs `StableNogood` through `SM.ngSearch .simple 1000000`; the Rust `loop` has NO bound. The
history-level theorems below are stated for the service `hybEnvF F` whose solve task runs the search with
the bound `F`, for EVERY `F ≥ F0` where `F0` is a bound within which the search halts
(`SrvA.strategyHalts F0 a s`; `rfl` for the five strategies without a search, and some `F0` always exists:
`SrvA.stored_answers_exact_every_large_bound`). By fuel monotonicity (`ServerFuel.lean`) the stored result
does not depend on `F`. The service the driver runs is the instance `F = 10^6` (`hybEnvF_bound`). -/

/-- the service with the modelled hybrid arm whose solve task bounds the nogood search by `F` -/
def hybEnvF (F : Nat) (Lf : Nat → Bio.Lib T) (dumpf : Nat → T → List Node) : Env String SHash SAdf SRes where
  emp := ""
  hash := fun salt pw => (salt, pw)
  verify := fun h pw => h.2 == pw
  parse := (hybEnv Lf dumpf).parse
  solve := SrvA.solveAdfF F

/-- the driver's bound is one instance -/
theorem hybEnvF_bound (Lf : Nat → Bio.Lib T) (dumpf : Nat → T → List Node) : hybEnvF 1000000 Lf dumpf = hybEnv Lf dumpf := by
  have : SrvA.solveAdfF 1000000 = solveAdf := by funext a s; exact solveAdfF_bound a s
  unfold hybEnvF hybEnv
  rw [this]

/-- from "the document stores only what belongs to its own code" to "GET shows the definitional answer
for the framework the code denotes" - any environment whose solve task is the library model with search
bound `F ≥ F0`, `F0` a bound within which the search halts, and whose parse results denote the text -/
theorem answer_of_belongs_bound (F0 F : Nat) (hF : F0 ≤ F) (E : Env String SHash SAdf SRes)
    (hsolve : ∀ a s, E.solve a s = SrvA.solveAdfF F a s)
    (st : State String SHash SAdf SRes) (jar : Nat) (u name : String) (p : Problem String SAdf SRes) (s : Strategy)
    (res : SRes) (hs : st.sess jar = some u) (hf : st.db.problems.find? (isProb u name) = some p)
    (hres : p.res.get s = .some res) (hdoc : DocOK E p)
    (hb : ∀ a r, E.parse p.parsing p.code = .ok (a, r) →
      (∃ fms, conditions p.code = .ok (a.names, fms) ∧ SrvA.Denotes a a.names.length fms) ∧
      SrvA.strategyHalts F0 a s = true) :
    ∃ (i : Info String SRes) (names : List String) (fms : List Fm),
      (step E st ⟨jar, .get name⟩).2 = ⟨200, .keep, .problem i⟩ ∧
      i.code = p.code ∧ i.res.get s = .some res ∧
      conditions p.code = .ok (names, fms) ∧
      SrvA.PropAnswer names.length (fms.map Fm.sem) s (SrvA.storedI3 res) := by
  obtain ⟨ts, hget, _⟩ := get_returns_stored E st jar u name p hs hf
  obtain ⟨a, r, hpar, hsol⟩ := hdoc.2 s res hres
  obtain ⟨⟨fms, hc, hd⟩, hh⟩ := hb a r hpar
  obtain ⟨res', h1, h2⟩ := SrvA.stored_answers_exact_from_bound F0 a _ fms s hd hh
  have hsol' : SrvA.solveAdfF F a s = .ok res := by rw [← hsolve]; exact hsol
  rw [(h1 F hF).1] at hsol'
  cases hsol'
  have ⟨_, R⟩ := SrvA.reps_of_atomsLt _ fms hd.atoms
  exact ⟨_, a.names, fms, hget, rfl, hres, hc, SrvA.propAnswer_of_perm R (by simp [hd.flen]) s h2⟩

/-- the instance at the driver's bound -/
theorem answer_of_belongs (E : Env String SHash SAdf SRes) (hsolve : ∀ a s, E.solve a s = solveAdf a s)
    (st : State String SHash SAdf SRes) (jar : Nat) (u name : String) (p : Problem String SAdf SRes) (s : Strategy)
    (res : SRes) (hs : st.sess jar = some u) (hf : st.db.problems.find? (isProb u name) = some p)
    (hres : p.res.get s = .some res) (hdoc : DocOK E p)
    (hb : ∀ a r, E.parse p.parsing p.code = .ok (a, r) →
      (∃ fms, conditions p.code = .ok (a.names, fms) ∧ SrvA.Denotes a a.names.length fms) ∧
      SrvA.strategyHalts 1000000 a s = true) :
    ∃ (i : Info String SRes) (names : List String) (fms : List Fm),
      (step E st ⟨jar, .get name⟩).2 = ⟨200, .keep, .problem i⟩ ∧
      i.code = p.code ∧ i.res.get s = .some res ∧
      conditions p.code = .ok (names, fms) ∧
      SrvA.PropAnswer names.length (fms.map Fm.sem) s (SrvA.storedI3 res) :=
  answer_of_belongs_bound 1000000 1000000 (Nat.le_refl _) E (fun a s => by rw [hsolve, solveAdfF_bound]) st jar u name p s res
    hs hf hres hdoc hb

/-- whatever the DRIVER's service (`libEnv o`, hybrid tables adopted) parses denotes the text, provided
every adopted table passed the printed check `storedAdfOK'` -/
theorem parse_denotes_checked (o : Oracle)
    (hchk : ∀ code a, lookupS (parseKey .hybrid code) o.hyb = some a → storedAdfOK' code a = "ok")
    (pg : Parsing) (code : String) (a : SAdf) (r : SRes) (h : (libEnv o).parse pg code = .ok (a, r))
    (hn : pg = .naive → a.names.length ≤ VBOT) :
    ∃ fms, conditions code = .ok (a.names, fms) ∧ SrvA.Denotes a a.names.length fms := by
  cases pg with
  | naive => exact SrvA.parseNaive_denotes _ code a r h (hn rfl)
  | hybrid =>
    obtain ⟨_, hl, _⟩ := libEnv_parse_hybrid o code a r h
    exact storedAdfOK'_denotes code a (hchk code a hl)

/-- **every reachable state of EVERY history, untainted key, BOTH parsing strategies, the driver's
service**: after any history from the empty server, if the key of the document `GET` finds is not
tainted (`taintRun`: D9's shape did not occur for it since it was last cleared), the result shown under
`s` is the definitional answer for the framework the document's OWN code denotes. Hypotheses: every
adopted hybrid table passed the printed check; fewer than 2^64 − 2 statements for naive parsing; the
halting hypothesis of `StableNogood`'s search (`rfl` for the other strategies) -/
theorem reachable_served_answer_checked (o : Oracle)
    (hchk : ∀ code a, lookupS (parseKey .hybrid code) o.hyb = some a → storedAdfOK' code a = "ok")
    (es : List (Event String)) (jar : Nat) (u name : String) (p : Problem String SAdf SRes) (s : Strategy) (res : SRes)
    (hs : (runAll (libEnv o) {} es).1.sess jar = some u)
    (hf : (runAll (libEnv o) {} es).1.db.problems.find? (isProb u name) = some p)
    (hclean : taintRun (libEnv o) {} (fun _ _ => false) es u name = false)
    (hres : p.res.get s = .some res)
    (hb : ∀ a r, (libEnv o).parse p.parsing p.code = .ok (a, r) →
      (p.parsing = .naive → a.names.length ≤ VBOT) ∧ SrvA.strategyHalts 1000000 a s = true) :
    ∃ (i : Info String SRes) (names : List String) (fms : List Fm),
      (step (libEnv o) (runAll (libEnv o) {} es).1 ⟨jar, .get name⟩).2 = ⟨200, .keep, .problem i⟩ ∧
      i.code = p.code ∧ i.res.get s = .some res ∧
      conditions p.code = .ok (names, fms) ∧
      SrvA.PropAnswer names.length (fms.map Fm.sem) s (SrvA.storedI3 res) := by
  have hk := isProb_key (List.find?_some hf)
  have hdoc := reachable_untainted_belong_to_the_code (libEnv o) es p (List.mem_of_find?_eq_some hf)
    (by rw [hk.1, hk.2]; exact hclean)
  exact answer_of_belongs (libEnv o) (fun _ _ => rfl) _ jar u name p s res hs hf hres hdoc
    (fun a r hpar => ⟨parse_denotes_checked o hchk p.parsing p.code a r hpar (hb a r hpar).1, (hb a r hpar).2⟩)

/-- **every reachable state of EVERY history, untainted key, BOTH parsing strategies, the service with the
MODEL of the hybrid arm (no check needed), every search bound `F ≥ F0`**. Hypotheses about the biodivine
library: lawful for every variable count, and its dump satisfies `DumpSpec` for every count `n ≤ VBOT`
(NOT for all `n`: that is unsatisfiable; instance `tt_hyps`). `hb`: fewer than 2^64 − 2 statements for naive
parsing; the nogood search of `StableNogood` halts within `F0` iterations on the document's framework -/
theorem reachable_served_answer_untainted_bound (F0 F : Nat) (hF : F0 ≤ F)
    (Lf : Nat → Bio.Lib T) (dumpf : Nat → T → List Node)
    (W : ∀ n, Bio.Lawful (Lf n) n) (hdump : ∀ n, n ≤ VBOT → Bio.DumpSpec (W n) (dumpf n))
    (es : List (Event String)) (jar : Nat) (u name : String) (p : Problem String SAdf SRes) (s : Strategy) (res : SRes)
    (hs : (runAll (hybEnvF F Lf dumpf) {} es).1.sess jar = some u)
    (hf : (runAll (hybEnvF F Lf dumpf) {} es).1.db.problems.find? (isProb u name) = some p)
    (hclean : taintRun (hybEnvF F Lf dumpf) {} (fun _ _ => false) es u name = false)
    (hres : p.res.get s = .some res)
    (hb : ∀ a r, (hybEnvF F Lf dumpf).parse p.parsing p.code = .ok (a, r) →
      (p.parsing = .naive → a.names.length ≤ VBOT) ∧ SrvA.strategyHalts F0 a s = true) :
    ∃ (i : Info String SRes) (names : List String) (fms : List Fm),
      (step (hybEnvF F Lf dumpf) (runAll (hybEnvF F Lf dumpf) {} es).1 ⟨jar, .get name⟩).2 = ⟨200, .keep, .problem i⟩ ∧
      i.code = p.code ∧ i.res.get s = .some res ∧
      conditions p.code = .ok (names, fms) ∧
      SrvA.PropAnswer names.length (fms.map Fm.sem) s (SrvA.storedI3 res) := by
  have hk := isProb_key (List.find?_some hf)
  have hdoc := reachable_untainted_belong_to_the_code (hybEnvF F Lf dumpf) es p (List.mem_of_find?_eq_some hf)
    (by rw [hk.1, hk.2]; exact hclean)
  exact answer_of_belongs_bound F0 F hF (hybEnvF F Lf dumpf) (fun _ _ => rfl) _ jar u name p s res hs hf hres hdoc
    (fun a r hpar => ⟨parse_denotes_any Lf dumpf p.parsing p.code a r hpar (hb a r hpar).1 (W _) (hdump _), (hb a r hpar).2⟩)

/-- … for histories no prefix of which shows D9's stale-write shape (deletions, account removals and
renames allowed): no key is ever tainted -/
theorem reachable_served_answer_all_bound (F0 F : Nat) (hF : F0 ≤ F)
    (Lf : Nat → Bio.Lib T) (dumpf : Nat → T → List Node)
    (W : ∀ n, Bio.Lawful (Lf n) n) (hdump : ∀ n, n ≤ VBOT → Bio.DumpSpec (W n) (dumpf n))
    (es : List (Event String)) (hd9 : NoStaleWrite (hybEnvF F Lf dumpf) {} es)
    (jar : Nat) (u name : String) (p : Problem String SAdf SRes) (s : Strategy) (res : SRes)
    (hs : (runAll (hybEnvF F Lf dumpf) {} es).1.sess jar = some u)
    (hf : (runAll (hybEnvF F Lf dumpf) {} es).1.db.problems.find? (isProb u name) = some p)
    (hres : p.res.get s = .some res)
    (hb : ∀ a r, (hybEnvF F Lf dumpf).parse p.parsing p.code = .ok (a, r) →
      (p.parsing = .naive → a.names.length ≤ VBOT) ∧ SrvA.strategyHalts F0 a s = true) :
    ∃ (i : Info String SRes) (names : List String) (fms : List Fm),
      (step (hybEnvF F Lf dumpf) (runAll (hybEnvF F Lf dumpf) {} es).1 ⟨jar, .get name⟩).2 = ⟨200, .keep, .problem i⟩ ∧
      i.code = p.code ∧ i.res.get s = .some res ∧
      conditions p.code = .ok (names, fms) ∧
      SrvA.PropAnswer names.length (fms.map Fm.sem) s (SrvA.storedI3 res) :=
  reachable_served_answer_untainted_bound F0 F hF Lf dumpf W hdump es jar u name p s res hs hf
    (taintRun_noD9 (hybEnvF F Lf dumpf) es {} (fun _ _ => false) (fun _ _ => rfl) hd9 u name) hres hb

/-- the instance at the driver's bound 10^6 (`hybEnv = hybEnvF 1000000`) -/
theorem reachable_served_answer_untainted (Lf : Nat → Bio.Lib T) (dumpf : Nat → T → List Node)
    (W : ∀ n, Bio.Lawful (Lf n) n) (hdump : ∀ n, n ≤ VBOT → Bio.DumpSpec (W n) (dumpf n))
    (es : List (Event String)) (jar : Nat) (u name : String) (p : Problem String SAdf SRes) (s : Strategy) (res : SRes)
    (hs : (runAll (hybEnv Lf dumpf) {} es).1.sess jar = some u)
    (hf : (runAll (hybEnv Lf dumpf) {} es).1.db.problems.find? (isProb u name) = some p)
    (hclean : taintRun (hybEnv Lf dumpf) {} (fun _ _ => false) es u name = false)
    (hres : p.res.get s = .some res)
    (hb : ∀ a r, (hybEnv Lf dumpf).parse p.parsing p.code = .ok (a, r) →
      (p.parsing = .naive → a.names.length ≤ VBOT) ∧ SrvA.strategyHalts 1000000 a s = true) :
    ∃ (i : Info String SRes) (names : List String) (fms : List Fm),
      (step (hybEnv Lf dumpf) (runAll (hybEnv Lf dumpf) {} es).1 ⟨jar, .get name⟩).2 = ⟨200, .keep, .problem i⟩ ∧
      i.code = p.code ∧ i.res.get s = .some res ∧
      conditions p.code = .ok (names, fms) ∧
      SrvA.PropAnswer names.length (fms.map Fm.sem) s (SrvA.storedI3 res) := by
  have h := reachable_served_answer_untainted_bound 1000000 1000000 (Nat.le_refl _) Lf dumpf W hdump es jar u name p s res
  rw [hybEnvF_bound] at h
  exact h hs hf hclean hres hb

theorem reachable_served_answer_all (Lf : Nat → Bio.Lib T) (dumpf : Nat → T → List Node)
    (W : ∀ n, Bio.Lawful (Lf n) n) (hdump : ∀ n, n ≤ VBOT → Bio.DumpSpec (W n) (dumpf n))
    (es : List (Event String)) (hd9 : NoStaleWrite (hybEnv Lf dumpf) {} es)
    (jar : Nat) (u name : String) (p : Problem String SAdf SRes) (s : Strategy) (res : SRes)
    (hs : (runAll (hybEnv Lf dumpf) {} es).1.sess jar = some u)
    (hf : (runAll (hybEnv Lf dumpf) {} es).1.db.problems.find? (isProb u name) = some p)
    (hres : p.res.get s = .some res)
    (hb : ∀ a r, (hybEnv Lf dumpf).parse p.parsing p.code = .ok (a, r) →
      (p.parsing = .naive → a.names.length ≤ VBOT) ∧ SrvA.strategyHalts 1000000 a s = true) :
    ∃ (i : Info String SRes) (names : List String) (fms : List Fm),
      (step (hybEnv Lf dumpf) (runAll (hybEnv Lf dumpf) {} es).1 ⟨jar, .get name⟩).2 = ⟨200, .keep, .problem i⟩ ∧
      i.code = p.code ∧ i.res.get s = .some res ∧
      conditions p.code = .ok (names, fms) ∧
      SrvA.PropAnswer names.length (fms.map Fm.sem) s (SrvA.storedI3 res) := by
  have h := reachable_served_answer_all_bound 1000000 1000000 (Nat.le_refl _) Lf dumpf W hdump es
  rw [hybEnvF_bound] at h
  exact h hd9 jar u name p s res hs hf hres hb

end

/-! ### the repaired hypotheses have an instance: the generic truth-table library with its generic dump -/

/-- `Bio.ttLib n` (truth tables over `n` variables) is lawful for every `n`, and the decision-tree dump
`Bio.ttDump n` satisfies `DumpSpec` for every `n ≤ VBOT` (`Bio.ttDump_spec`, CliWorldProofs.lean) -/
theorem tt_hyps : ∃ W : ∀ n, Bio.Lawful (Bio.ttLib n) n, ∀ n, n ≤ VBOT → Bio.DumpSpec (W n) (Bio.ttDump n) :=
  ⟨Bio.ttLawful, Bio.ttDump_spec⟩

/-- **the history theorem on an executable arm, no hypothesis about an external library left**: the service
`hybEnvF F Bio.ttLib Bio.ttDump` (naive parsing, the modelled hybrid arm over truth tables, the solve task
with search bound `F`), every history, untainted key, every `F ≥ F0` -/
theorem reachable_served_answer_tt (F0 F : Nat) (hF : F0 ≤ F)
    (es : List (Event String)) (jar : Nat) (u name : String) (p : Problem String SAdf SRes) (s : Strategy) (res : SRes)
    (hs : (runAll (hybEnvF F Bio.ttLib Bio.ttDump) {} es).1.sess jar = some u)
    (hf : (runAll (hybEnvF F Bio.ttLib Bio.ttDump) {} es).1.db.problems.find? (isProb u name) = some p)
    (hclean : taintRun (hybEnvF F Bio.ttLib Bio.ttDump) {} (fun _ _ => false) es u name = false)
    (hres : p.res.get s = .some res)
    (hb : ∀ a r, (hybEnvF F Bio.ttLib Bio.ttDump).parse p.parsing p.code = .ok (a, r) →
      (p.parsing = .naive → a.names.length ≤ VBOT) ∧ SrvA.strategyHalts F0 a s = true) :
    ∃ (i : Info String SRes) (names : List String) (fms : List Fm),
      (step (hybEnvF F Bio.ttLib Bio.ttDump) (runAll (hybEnvF F Bio.ttLib Bio.ttDump) {} es).1 ⟨jar, .get name⟩).2 =
        ⟨200, .keep, .problem i⟩ ∧
      i.code = p.code ∧ i.res.get s = .some res ∧
      conditions p.code = .ok (names, fms) ∧
      SrvA.PropAnswer names.length (fms.map Fm.sem) s (SrvA.storedI3 res) :=
  reachable_served_answer_untainted_bound F0 F hF Bio.ttLib Bio.ttDump Bio.ttLawful Bio.ttDump_spec es jar u name p s res
    hs hf hclean hres hb

/-- what the modelled hybrid arm over truth tables stores denotes the text - nothing assumed -/
theorem parseHybrid_tt_denotes (key code : String) (a : SAdf) (r : SRes)
    (h : parseHybrid Bio.ttLib Bio.ttDump key code = .ok (a, r)) :
    ∃ fms, conditions code = .ok (a.names, fms) ∧ SrvA.Denotes a a.names.length fms ∧
      r = [⟨a.ac, graphOf a.names a.nodes a.ac⟩] :=
  parseHybrid_denotes Bio.ttLib Bio.ttDump key code a r h (Bio.ttLawful _)
    (Bio.ttDump_spec _ (bioVarsOK_le_vbot (parseHybrid_names_ok _ _ key code a r h)))

end SrvC
