/-! # A producer loop that sends its results into a channel, and a consumer that iterates over it

Generic model behind the channel clause of C05 (`Adf::stable_nogood_channel`,
`Adf::two_val_nogood_channel`, `Adf::stable_nogood`):

* the PRODUCER is a deterministic loop (`iter`, `done`, `out`): one producer step is one loop
  iteration, or - if the iteration just made has appended a result to `out` that is not yet in the
  channel - the `s.send(v)` of that result, or - once the loop has ended and everything is sent - the
  return of the function, which drops the sender it was given (`closed := true`);
* the CHANNEL is a FIFO list `buf` plus the flag `closed` ("all senders dropped": the function was
  handed the only sender); `cap = none` is `crossbeam_channel::unbounded`, `cap = some k` (k ≥ 1) is
  `bounded(k)`: a `send` into a full channel blocks, i.e. the producer step is a no-op;
* the CONSUMER is `for v in receiver.iter()`: a consumer step takes the front message; on an empty
  channel it blocks (no-op) unless the channel is closed, in which case the iteration ends
  (`consDone := true`);
* a SCHEDULE is an arbitrary list of `Ev.prod` / `Ev.cons`; `run` executes it.  The ghost field `log`
  records what happens at the sending end (`send v` / `close`), `iters` counts loop iterations.

Results (all for every schedule): `Inv` (conservation: received ++ queued = sent so far = prefix of the
emitted list; closed only after the last result was sent; the log is `send`s followed by at most one
final `close`), `measure_step`/`not_deadlocked`/`fair_finishes` (every fair schedule ends the
consumer's iteration), `finished_exact` (whenever the consumer's iteration has ended it has received
exactly the emitted list, in order).

Limits of THIS model (second review, item 10), and where they are lifted: `closed` is "the one sender this
producer was handed is dropped", which is "the channel is disconnected" only if no clone of the sender exists -
several producers on clones of one sender: `ChannelClones.lean` (explicit sender count); `cap = some 0` makes every
`send` block forever here, whereas crossbeam's `bounded(0)` is a rendezvous channel: `ChannelZero.lean`; the
receiver dropped before the end, over whole schedules: `ChannelDrop.lean`. -/
namespace Chan

inductive Ev where
  | prod
  | cons
deriving DecidableEq, Repr

/-- what happens at the sending end of the channel -/
inductive ChEv (α : Type) where
  | send (v : α)
  | close
deriving DecidableEq, Repr

/-- the producer loop: `out` is the list of results emitted so far -/
structure Producer (σ α : Type) where
  iter : σ → σ
  done : σ → Bool
  out : σ → List α

structure Cfg (σ α : Type) where
  p : σ                    -- state of the producer loop
  iters : Nat              -- ghost: loop iterations made
  sent : Nat               -- how many of `out p` have been handed to the channel
  buf : List α             -- the channel
  closed : Bool            -- the sender has been dropped
  got : List α             -- what the consumer has received, in order
  consDone : Bool          -- the consumer's `for … in r.iter()` has ended
  log : List (ChEv α)      -- ghost: events at the sending end
deriving DecidableEq

variable {σ α : Type}

def full (cap : Option Nat) (buf : List α) : Bool :=
  match cap with
  | none => false
  | some k => decide (k ≤ buf.length)

def prodStep (P : Producer σ α) (cap : Option Nat) (c : Cfg σ α) : Cfg σ α :=
  if c.closed then c else
  match (P.out c.p)[c.sent]? with
  | some v =>
    if full cap c.buf then c
    else { c with sent := c.sent + 1, buf := c.buf ++ [v], log := c.log ++ [ChEv.send v] }
  | none =>
    if P.done c.p then { c with closed := true, log := c.log ++ [ChEv.close] }
    else { c with p := P.iter c.p, iters := c.iters + 1 }

def consStep (c : Cfg σ α) : Cfg σ α :=
  if c.consDone then c else
  match c.buf with
  | v :: rest => { c with buf := rest, got := c.got ++ [v] }
  | [] => if c.closed then { c with consDone := true } else c

def step (P : Producer σ α) (cap : Option Nat) (c : Cfg σ α) : Ev → Cfg σ α
  | .prod => prodStep P cap c
  | .cons => consStep c

def run (P : Producer σ α) (cap : Option Nat) (sched : List Ev) (c : Cfg σ α) : Cfg σ α :=
  sched.foldl (step P cap) c

def init (p0 : σ) : Cfg σ α :=
  { p := p0, iters := 0, sent := 0, buf := [], closed := false, got := [], consDone := false, log := [] }

theorem run_append (P : Producer σ α) (cap : Option Nat) (a b : List Ev) (c : Cfg σ α) :
    run P cap (a ++ b) c = run P cap b (run P cap a c) := by
  simp [run, List.foldl_append]

/-- the loop run for `k` iterations (stops at `done`) -/
def runG (P : Producer σ α) : Nat → σ → σ
  | 0, p => p
  | k+1, p => if P.done (runG P k p) then runG P k p else P.iter (runG P k p)

/-- the loop only ever appends to its output -/
def Mono (P : Producer σ α) : Prop := ∀ p, P.out p <+: P.out (P.iter p)

section facts
variable {P : Producer σ α} (hm : Mono P) {p0 : σ}
include hm

theorem runG_out_succ (k : Nat) : P.out (runG P k p0) <+: P.out (runG P (k + 1) p0) := by
  show _ <+: P.out (if P.done (runG P k p0) then runG P k p0 else P.iter (runG P k p0))
  by_cases h : P.done (runG P k p0) = true
  · rw [if_pos h]; exact List.prefix_refl _
  · rw [if_neg h]; exact hm _

theorem runG_out_le {j k : Nat} (h : j ≤ k) : P.out (runG P j p0) <+: P.out (runG P k p0) := by
  induction k with
  | zero => have : j = 0 := by omega
            subst this; exact List.prefix_refl _
  | succ k ih =>
    rcases Nat.lt_or_ge j (k + 1) with hlt | hge
    · exact List.IsPrefix.trans (ih (by omega)) (runG_out_succ hm k)
    · have : j = k + 1 := by omega
      subst this; exact List.prefix_refl _

omit hm in
theorem runG_stable {j : Nat} (hd : P.done (runG P j p0) = true) : ∀ k, j ≤ k → runG P k p0 = runG P j p0 := by
  intro k
  induction k with
  | zero => intro h; have : j = 0 := by omega
            subst this; rfl
  | succ k ih =>
    intro h
    rcases Nat.lt_or_ge j (k + 1) with hlt | hge
    · have e := ih (by omega)
      show (if P.done (runG P k p0) then runG P k p0 else P.iter (runG P k p0)) = _
      rw [e, if_pos hd]
    · have : j = k + 1 := by omega
      subst this; rfl

/-- every intermediate output is a prefix of the final one -/
theorem out_prefix_final {N : Nat} (hN : P.done (runG P N p0) = true) (j : Nat) :
    P.out (runG P j p0) <+: P.out (runG P N p0) := by
  rcases Nat.le_total j N with h | h
  · exact runG_out_le hm h
  · rw [runG_stable hN j h]; exact List.prefix_refl _

omit hm in
/-- a state in which the loop has ended carries the final output -/
theorem done_final {N : Nat} (hN : P.done (runG P N p0) = true) {j : Nat} (hj : P.done (runG P j p0) = true) :
    runG P j p0 = runG P N p0 := by
  rcases Nat.le_total j N with h | h
  · exact (runG_stable hj N h).symm
  · exact runG_stable hN j h

omit hm in
theorem not_done_lt {N : Nat} (hN : P.done (runG P N p0) = true) {j : Nat} (hj : P.done (runG P j p0) = false) :
    j < N := by
  rcases Nat.lt_or_ge j N with h | h
  · exact h
  · rw [runG_stable hN j h, hN] at hj; cases hj

end facts

/-! ## the invariant -/

structure Inv (P : Producer σ α) (cap : Option Nat) (p0 : σ) (c : Cfg σ α) : Prop where
  hp : c.p = runG P c.iters p0
  hs : c.sent ≤ (P.out c.p).length
  hq : c.got ++ c.buf = (P.out c.p).take c.sent
  hc : c.closed = true → P.done c.p = true ∧ c.sent = (P.out c.p).length
  hd : c.consDone = true → c.closed = true ∧ c.buf = []
  hcap : ∀ k, cap = some k → 1 ≤ k → c.buf.length ≤ k
  hlog : c.log = ((P.out c.p).take c.sent).map ChEv.send ++ (if c.closed then [ChEv.close] else [])

theorem Inv.init (P : Producer σ α) (cap : Option Nat) (p0 : σ) : Inv P cap p0 (init p0 : Cfg σ α) :=
  ⟨rfl, Nat.zero_le _, by simp [Chan.init], by simp [Chan.init], by simp [Chan.init], by simp [Chan.init],
    by simp [Chan.init]⟩

theorem take_succ_of_get {l : List α} {i : Nat} {v : α} (h : l[i]? = some v) : l.take (i + 1) = l.take i ++ [v] := by
  rw [List.take_add_one, h]; rfl

theorem prodStep_inv {P : Producer σ α} (hm : Mono P) {cap : Option Nat} {p0 : σ} {c : Cfg σ α}
    (h : Inv P cap p0 c) : Inv P cap p0 (prodStep P cap c) := by
  unfold prodStep
  by_cases hcl : c.closed = true
  · rw [if_pos hcl]; exact h
  · rw [if_neg hcl]
    have hcl' : c.closed = false := by simpa using hcl
    cases hg : (P.out c.p)[c.sent]? with
    | some v =>
      simp only
      by_cases hf : full cap c.buf = true
      · rw [if_pos hf]; exact h
      · rw [if_neg hf]
        have hlt : c.sent < (P.out c.p).length := by
          rcases Nat.lt_or_ge c.sent (P.out c.p).length with x | x
          · exact x
          · rw [List.getElem?_eq_none x] at hg; cases hg
        refine ⟨h.hp, hlt, ?_, ?_, ?_, ?_, ?_⟩
        · show c.got ++ (c.buf ++ [v]) = (P.out c.p).take (c.sent + 1)
          rw [take_succ_of_get hg, ← List.append_assoc, h.hq]
        · intro hc; exact absurd hc hcl
        · intro hc; have := (h.hd hc).1; exact absurd this hcl
        · intro k hk h1
          show (c.buf ++ [v]).length ≤ k
          have : ¬ k ≤ c.buf.length := by simpa [full, hk] using hf
          simp; omega
        · show c.log ++ [ChEv.send v] = ((P.out c.p).take (c.sent + 1)).map ChEv.send ++ (if c.closed then [ChEv.close] else [])
          rw [h.hlog, take_succ_of_get hg, hcl']; simp
    | none =>
      simp only
      have hge : (P.out c.p).length ≤ c.sent := by
        rcases Nat.lt_or_ge c.sent (P.out c.p).length with x | x
        · rw [List.getElem?_eq_getElem x] at hg; cases hg
        · exact x
      have heq : c.sent = (P.out c.p).length := Nat.le_antisymm h.hs hge
      by_cases hdn : P.done c.p = true
      · rw [if_pos hdn]
        refine ⟨h.hp, h.hs, h.hq, fun _ => ⟨hdn, heq⟩, ?_, h.hcap, ?_⟩
        · intro hc; have := (h.hd hc).1; exact absurd this hcl
        · show c.log ++ [ChEv.close] = _
          rw [h.hlog, hcl']; simp
      · rw [if_neg hdn]
        have hpre := hm c.p
        have hle : (P.out c.p).length ≤ (P.out (P.iter c.p)).length := hpre.length_le
        have htk : (P.out (P.iter c.p)).take c.sent = (P.out c.p).take c.sent := by
          obtain ⟨t, ht⟩ := hpre
          rw [← ht, heq]; simp
        refine ⟨?_, ?_, ?_, ?_, ?_, h.hcap, ?_⟩
        · show P.iter c.p = runG P (c.iters + 1) p0
          show _ = (if P.done (runG P c.iters p0) then runG P c.iters p0 else P.iter (runG P c.iters p0))
          rw [← h.hp, if_neg hdn]
        · show c.sent ≤ (P.out (P.iter c.p)).length
          omega
        · show c.got ++ c.buf = (P.out (P.iter c.p)).take c.sent
          rw [htk]; exact h.hq
        · intro hc; exact absurd hc hcl
        · intro hc; exact h.hd hc
        · show c.log = ((P.out (P.iter c.p)).take c.sent).map ChEv.send ++ (if c.closed then [ChEv.close] else [])
          rw [htk]; exact h.hlog

theorem consStep_inv {P : Producer σ α} {cap : Option Nat} {p0 : σ} {c : Cfg σ α}
    (h : Inv P cap p0 c) : Inv P cap p0 (consStep c) := by
  unfold consStep
  by_cases hcd : c.consDone = true
  · rw [if_pos hcd]; exact h
  · rw [if_neg hcd]
    cases hb : c.buf with
    | cons v rest =>
      simp only
      refine ⟨h.hp, h.hs, ?_, h.hc, ?_, ?_, h.hlog⟩
      · show c.got ++ [v] ++ rest = _
        rw [← h.hq, hb]; simp
      · intro hc; exact absurd hc hcd
      · intro k hk h1
        have := h.hcap k hk h1
        rw [hb] at this
        show rest.length ≤ k
        simp at this; omega
    | nil =>
      simp only
      by_cases hcl : c.closed = true
      · rw [if_pos hcl]
        refine ⟨h.hp, h.hs, ?_, h.hc, fun _ => ⟨hcl, rfl⟩, ?_, h.hlog⟩
        · show c.got ++ [] = _
          rw [← hb]; exact h.hq
        · intro k hk h1; exact Nat.zero_le _
      · rw [if_neg hcl]; exact h

theorem step_inv {P : Producer σ α} (hm : Mono P) {cap : Option Nat} {p0 : σ} {c : Cfg σ α}
    (h : Inv P cap p0 c) (e : Ev) : Inv P cap p0 (step P cap c e) := by
  cases e
  · exact prodStep_inv hm h
  · exact consStep_inv h

theorem run_inv {P : Producer σ α} (hm : Mono P) {cap : Option Nat} {p0 : σ} (sched : List Ev) :
    ∀ c : Cfg σ α, Inv P cap p0 c → Inv P cap p0 (run P cap sched c) := by
  induction sched with
  | nil => intro c h; exact h
  | cons e es ih => intro c h; exact ih _ (step_inv hm h e)

/-! ## what the invariant says -/

section consequences
variable {P : Producer σ α} (hm : Mono P) {cap : Option Nat} {p0 : σ} {N : Nat}
  (hN : P.done (runG P N p0) = true) {c : Cfg σ α} (h : Inv P cap p0 c)
include hm hN h

/-- SAFETY: at every moment, what the consumer has received followed by what is queued is a prefix of
the final output of the loop -/
theorem got_buf_prefix : c.got ++ c.buf <+: P.out (runG P N p0) := by
  rw [h.hq]
  refine List.IsPrefix.trans (List.take_prefix _ _) ?_
  rw [h.hp]; exact out_prefix_final hm hN _

theorem got_prefix : c.got <+: P.out (runG P N p0) :=
  List.IsPrefix.trans (List.prefix_append _ _) (got_buf_prefix hm hN h)

omit hm in
/-- the channel is closed only after the last result was sent: then received ++ queued is the whole
final output -/
theorem closed_all_sent (hc : c.closed = true) : c.got ++ c.buf = P.out (runG P N p0) := by
  have ⟨hd, hs⟩ := h.hc hc
  rw [h.hq, hs, List.take_length]
  rw [h.hp] at hd ⊢
  rw [done_final hN hd]

omit hm in
/-- the log at the sending end once closed: one `send` per result, in order, then `close`, nothing after -/
theorem closed_log (hc : c.closed = true) : c.log = (P.out (runG P N p0)).map ChEv.send ++ [ChEv.close] := by
  have ⟨hd, hs⟩ := h.hc hc
  rw [h.hlog, hc, hs, List.take_length]
  rw [h.hp] at hd ⊢
  rw [done_final hN hd]; rfl

omit hm hN in
/-- before closing the log consists of `send`s only -/
theorem open_log (hc : c.closed = false) : ∀ e ∈ c.log, e ≠ ChEv.close := by
  intro e he
  rw [h.hlog, hc] at he
  simp only [Bool.false_eq_true, if_false, List.append_nil, List.mem_map] at he
  obtain ⟨v, _, rfl⟩ := he
  intro x; cases x

omit hm in
/-- COMPLETION: whenever the consumer's iteration has ended, it has received exactly the final output
of the loop, in order, the channel is closed and empty -/
theorem finished_exact (hc : c.consDone = true) :
    c.got = P.out (runG P N p0) ∧ c.closed = true ∧ c.buf = [] := by
  have ⟨h1, h2⟩ := h.hd hc
  have := closed_all_sent hN h h1
  rw [h2, List.append_nil] at this
  exact ⟨this, h1, h2⟩

end consequences

/-- nothing is sent after closing: a closed configuration keeps `got ++ buf`, `closed` and the log under
every further schedule -/
theorem closed_frozen (P : Producer σ α) (cap : Option Nat) (sched : List Ev) :
    ∀ c : Cfg σ α, c.closed = true →
      (run P cap sched c).closed = true ∧ (run P cap sched c).log = c.log ∧
      (run P cap sched c).got ++ (run P cap sched c).buf = c.got ++ c.buf := by
  induction sched with
  | nil => intro c h; exact ⟨h, rfl, rfl⟩
  | cons e es ih =>
    intro c h
    have key : (step P cap c e).closed = true ∧ (step P cap c e).log = c.log ∧
        (step P cap c e).got ++ (step P cap c e).buf = c.got ++ c.buf := by
      cases e with
      | prod => simp [step, prodStep, h]
      | cons =>
        simp only [step, consStep]
        by_cases hcd : c.consDone = true
        · rw [if_pos hcd]; exact ⟨h, rfl, rfl⟩
        · rw [if_neg hcd]
          cases hb : c.buf with
          | cons v rest => simp [h]
          | nil => simp [h]
    have ⟨a, b, d⟩ := ih _ key.1
    exact ⟨a, b.trans key.2.1, d.trans key.2.2⟩

/-! ## liveness -/

/-- work left: loop iterations, sends, the close, receptions, the end of the consumer's iteration -/
def measure (N L : Nat) (c : Cfg σ α) : Nat :=
  (N - c.iters) + (L - c.sent) + (if c.closed then 0 else 1) + (L - c.got.length) + (if c.consDone then 0 else 1)

section live
variable {P : Producer σ α} (hm : Mono P) {cap : Option Nat} {p0 : σ} {N : Nat}
  (hN : P.done (runG P N p0) = true)
include hm hN

theorem sent_le_final {c : Cfg σ α} (h : Inv P cap p0 c) : (P.out c.p).length ≤ (P.out (runG P N p0)).length := by
  rw [h.hp]; exact (out_prefix_final hm hN _).length_le

/-- a producer step either does nothing (blocked on a full channel, or already returned) or does one unit of work -/
theorem prod_progress {c : Cfg σ α} (h : Inv P cap p0 c) :
    prodStep P cap c = c ∨
    measure N (P.out (runG P N p0)).length (prodStep P cap c) + 1 = measure N (P.out (runG P N p0)).length c := by
  have hfin := sent_le_final hm hN h
  unfold prodStep
  by_cases hcl : c.closed = true
  · left; rw [if_pos hcl]
  · rw [if_neg hcl]
    have hcl' : c.closed = false := by simpa using hcl
    cases hg : (P.out c.p)[c.sent]? with
    | some v =>
      simp only
      by_cases hf : full cap c.buf = true
      · left; rw [if_pos hf]
      · right; rw [if_neg hf]
        have hlt : c.sent < (P.out c.p).length := by
          rcases Nat.lt_or_ge c.sent (P.out c.p).length with x | x
          · exact x
          · rw [List.getElem?_eq_none x] at hg; cases hg
        simp only [measure]
        omega
    | none =>
      simp only
      right
      by_cases hdn : P.done c.p = true
      · rw [if_pos hdn]
        simp only [measure, hcl']
        simp
        omega
      · rw [if_neg hdn]
        have : c.iters < N := by
          apply not_done_lt hN
          rw [← h.hp]; simpa using hdn
        simp only [measure]
        omega

theorem cons_progress {c : Cfg σ α} (h : Inv P cap p0 c) :
    consStep c = c ∨
    measure N (P.out (runG P N p0)).length (consStep c) + 1 = measure N (P.out (runG P N p0)).length c := by
  have hfin := sent_le_final hm hN h
  unfold consStep
  by_cases hcd : c.consDone = true
  · left; rw [if_pos hcd]
  · rw [if_neg hcd]
    have hcd' : c.consDone = false := by simpa using hcd
    cases hb : c.buf with
    | cons v rest =>
      right
      simp only
      have hl := congrArg List.length h.hq
      rw [hb] at hl
      simp at hl
      have := h.hs
      simp only [measure, List.length_append, List.length_cons, List.length_nil]
      omega
    | nil =>
      simp only
      by_cases hcl : c.closed = true
      · right; rw [if_pos hcl]
        simp only [measure, hcd']
        simp
      · left; rw [if_neg hcl]

theorem step_progress {c : Cfg σ α} (h : Inv P cap p0 c) (e : Ev) :
    step P cap c e = c ∨
    measure N (P.out (runG P N p0)).length (step P cap c e) + 1 = measure N (P.out (runG P N p0)).length c := by
  cases e
  · exact prod_progress hm hN h
  · exact cons_progress hm hN h

omit hm hN in
/-- NO DEADLOCK (channels of capacity ≥ 1): as long as the consumer's iteration has not ended, the
producer or the consumer can move -/
theorem not_deadlocked {c : Cfg σ α} (hcap : ∀ k, cap = some k → 1 ≤ k)
    (hcd : c.consDone = false) : prodStep P cap c ≠ c ∨ consStep c ≠ c := by
  cases hb : c.buf with
  | cons v rest =>
    right
    unfold consStep
    rw [hcd]; simp only [Bool.false_eq_true, if_false, hb]
    intro e
    have := congrArg (fun x => x.buf.length) e
    simp [hb] at this
  | nil =>
    by_cases hcl : c.closed = true
    · right
      unfold consStep
      rw [hcd]; simp only [Bool.false_eq_true, if_false, hb, hcl, if_true]
      intro e
      have := congrArg (fun x => x.consDone) e
      simp [hcd] at this
    · left
      unfold prodStep
      rw [if_neg hcl]
      have hnf : full cap c.buf = false := by
        unfold full
        cases hk : cap with
        | none => rfl
        | some k => have := hcap k hk; simp [hb]; omega
      cases hg : (P.out c.p)[c.sent]? with
      | some v =>
        simp only [hnf, Bool.false_eq_true, if_false]
        intro e
        have := congrArg (fun x => x.sent) e
        simp at this
      | none =>
        simp only
        by_cases hdn : P.done c.p = true
        · rw [if_pos hdn]
          intro e
          have := congrArg (fun x => x.closed) e
          simp at this; exact hcl this
        · rw [if_neg hdn]
          intro e
          have := congrArg (fun x => x.iters) e
          simp at this

end live

/-- a schedule made of `m` rounds, each of which lets the producer and the consumer move at least once
(in any order, with anything in between) -/
inductive Fair : Nat → List Ev → Prop
  | zero (l : List Ev) : Fair 0 l
  | round {m : Nat} (b rest : List Ev) : Ev.prod ∈ b → Ev.cons ∈ b → Fair m rest → Fair (m + 1) (b ++ rest)

/-- a block of events none of which changes the configuration leaves it as it is -/
theorem run_all_blocked (P : Producer σ α) (cap : Option Nat) (b : List Ev) (c : Cfg σ α)
    (h : ∀ e ∈ b, step P cap c e = c) : run P cap b c = c := by
  induction b with
  | nil => rfl
  | cons e es ih =>
    show run P cap es (step P cap c e) = c
    rw [h e (List.mem_cons_self ..)]
    exact ih (fun e' he' => h e' (List.mem_cons_of_mem _ he'))

section live2
variable {P : Producer σ α} (hm : Mono P) {cap : Option Nat} {p0 : σ} {N : Nat}
  (hN : P.done (runG P N p0) = true)
include hm hN

theorem run_measure_le (sched : List Ev) : ∀ c : Cfg σ α, Inv P cap p0 c →
    measure N (P.out (runG P N p0)).length (run P cap sched c) ≤ measure N (P.out (runG P N p0)).length c := by
  induction sched with
  | nil => intro c _; exact Nat.le_refl _
  | cons e es ih =>
    intro c h
    have h1 := ih _ (step_inv hm h e)
    have h2 := step_progress hm hN h e
    show measure N _ (run P cap es (step P cap c e)) ≤ _
    rcases h2 with h2 | h2
    · rw [h2] at h1 ⊢; exact h1
    · omega

omit hm hN in
theorem consDone_stays (sched : List Ev) : ∀ c : Cfg σ α, c.consDone = true → (run P cap sched c).consDone = true := by
  induction sched with
  | nil => intro c h; exact h
  | cons e es ih =>
    intro c h
    apply ih
    cases e with
    | prod =>
      simp only [step, prodStep]
      split
      · exact h
      · split
        · split
          · exact h
          · exact h
        · split
          · exact h
          · exact h
    | cons => simp only [step, consStep, h, if_true]

/-- a round in which the producer and the consumer both get a turn does at least one unit of work, unless
the consumer's iteration has already ended -/
theorem round_progress (hcap : ∀ k, cap = some k → 1 ≤ k) (b : List Ev) (hp : Ev.prod ∈ b) (hc : Ev.cons ∈ b) :
    ∀ c : Cfg σ α, Inv P cap p0 c → c.consDone = false →
    measure N (P.out (runG P N p0)).length (run P cap b c) + 1 ≤ measure N (P.out (runG P N p0)).length c := by
  induction b with
  | nil => cases hp
  | cons e es ih =>
    intro c h hcd
    rcases step_progress hm hN h e with h2 | h2
    · -- this event is blocked: the configuration is unchanged
      show measure N _ (run P cap es (step P cap c e)) + 1 ≤ _
      rw [h2]
      by_cases hp' : Ev.prod ∈ es
      · by_cases hc' : Ev.cons ∈ es
        · exact ih hp' hc' c h hcd
        · -- `e` is the only `cons`: then `prod` must be able to move somewhere in `es`
          have he : e = Ev.cons := by
            rcases List.mem_cons.mp hc with x | x
            · exact x.symm
            · exact absurd x hc'
          have hnd := not_deadlocked (P := P) hcap hcd
          have hcb : consStep c = c := by rw [he] at h2; exact h2
          have hpm : prodStep P cap c ≠ c := by
            rcases hnd with x | x
            · exact x
            · exact absurd hcb x
          -- all events in `es` are `prod`
          clear ih
          have hall : ∀ e' ∈ es, e' = Ev.prod := by
            intro e' he'
            cases e' with
            | prod => rfl
            | cons => exact absurd he' hc'
          obtain ⟨es', rfl⟩ : ∃ es', es = Ev.prod :: es' := by
            cases es with
            | nil => cases hp'
            | cons x xs => exact ⟨xs, by rw [hall x (List.mem_cons_self ..)]⟩
          show measure N _ (run P cap es' (prodStep P cap c)) + 1 ≤ _
          have h3 := run_measure_le hm hN es' _ (prodStep_inv hm h)
          rcases prod_progress hm hN h with h4 | h4
          · exact absurd h4 hpm
          · omega
      · have he : e = Ev.prod := by
          rcases List.mem_cons.mp hp with x | x
          · exact x.symm
          · exact absurd x hp'
        have hnd := not_deadlocked (P := P) hcap hcd
        have hpb : prodStep P cap c = c := by rw [he] at h2; exact h2
        have hcm : consStep c ≠ c := by
          rcases hnd with x | x
          · exact absurd hpb x
          · exact x
        clear ih
        have hall : ∀ e' ∈ es, e' = Ev.cons := by
          intro e' he'
          cases e' with
          | cons => rfl
          | prod => exact absurd he' hp'
        have hc' : Ev.cons ∈ es := by
          rcases List.mem_cons.mp hc with x | x
          · rw [he] at x; cases x
          · exact x
        obtain ⟨es', rfl⟩ : ∃ es', es = Ev.cons :: es' := by
          cases es with
          | nil => cases hc'
          | cons x xs => exact ⟨xs, by rw [hall x (List.mem_cons_self ..)]⟩
        show measure N _ (run P cap es' (consStep c)) + 1 ≤ _
        have h3 := run_measure_le hm hN es' _ (consStep_inv h)
        rcases cons_progress hm hN h with h4 | h4
        · exact absurd h4 hcm
        · omega
    · have h3 := run_measure_le hm hN es _ (step_inv hm h e)
      show measure N _ (run P cap es (step P cap c e)) + 1 ≤ _
      omega

/-- LIVENESS: every schedule with at least `measure` fair rounds ends the consumer's iteration -/
theorem fair_finishes (hcap : ∀ k, cap = some k → 1 ≤ k) : ∀ (m : Nat) (sched : List Ev), Fair m sched →
    ∀ c : Cfg σ α, Inv P cap p0 c → measure N (P.out (runG P N p0)).length c ≤ m →
    (run P cap sched c).consDone = true := by
  intro m sched hf
  induction hf with
  | zero l =>
    intro c _ hle
    have : c.consDone = true := by
      cases hcd : c.consDone with
      | true => rfl
      | false => simp [measure, hcd] at hle
    exact consDone_stays l c this
  | round b rest hp hc _ ih =>
    intro c h hle
    rw [run_append]
    cases hcd : c.consDone with
    | true => exact consDone_stays rest _ (consDone_stays b c hcd)
    | false =>
      have := round_progress hm hN hcap b hp hc c h hcd
      exact ih _ (run_inv hm b c h) (by omega)

end live2

theorem measure_init (N L : Nat) (p0 : σ) : measure N L (init p0 : Cfg σ α) = N + L + 1 + L + 1 := by
  simp [measure, init]

/-- the alternating schedule is fair -/
theorem fair_alternating (m : Nat) : Fair m (List.flatten (List.replicate m [Ev.prod, Ev.cons])) := by
  induction m with
  | zero => exact Fair.zero _
  | succ m ih =>
    rw [List.replicate_succ, List.flatten_cons]
    exact Fair.round _ _ (by simp) (by simp) ih

/-! ## the sequential schedule of `stable_nogood`: the whole search first, then `r.iter().collect()` -/

def measureP (N L : Nat) (c : Cfg σ α) : Nat := (N - c.iters) + (L - c.sent) + (if c.closed then 0 else 1)

theorem closed_stays_prod (P : Producer σ α) (cap : Option Nat) (a : Nat) :
    ∀ c : Cfg σ α, c.closed = true → (run P cap (List.replicate a Ev.prod) c).closed = true := by
  intro c h; exact (closed_frozen P cap _ c h).1

/-- with an unbounded channel the producer is never blocked: `N + L + 1` producer steps run the loop to
its end, send everything and drop the sender -/
theorem unbounded_producer_finishes {P : Producer σ α} (hm : Mono P) {p0 : σ} {N : Nat}
    (hN : P.done (runG P N p0) = true) : ∀ (a : Nat) (c : Cfg σ α), Inv P none p0 c →
    measureP N (P.out (runG P N p0)).length c ≤ a → (run P none (List.replicate a Ev.prod) c).closed = true := by
  intro a
  induction a with
  | zero =>
    intro c _ hle
    cases hcl : c.closed with
    | true => exact hcl
    | false => simp [measureP, hcl] at hle
  | succ a ih =>
    intro c h hle
    cases hcl : c.closed with
    | true => exact closed_stays_prod P none _ c hcl
    | false =>
      show (run P none (List.replicate a Ev.prod) (prodStep P none c)).closed = true
      apply ih _ (prodStep_inv hm h)
      have hfin := sent_le_final hm hN h
      unfold prodStep
      rw [hcl]; simp only [Bool.false_eq_true, if_false]
      cases hg : (P.out c.p)[c.sent]? with
      | some v =>
        have hlt : c.sent < (P.out c.p).length := by
          rcases Nat.lt_or_ge c.sent (P.out c.p).length with x | x
          · exact x
          · rw [List.getElem?_eq_none x] at hg; cases hg
        simp only [full, Bool.false_eq_true, if_false, measureP, hcl] at hle ⊢
        omega
      | none =>
        simp only
        by_cases hdn : P.done c.p = true
        · rw [if_pos hdn]; simp only [measureP, hcl] at hle ⊢; simp at hle ⊢; exact hle
        · rw [if_neg hdn]
          have : c.iters < N := by
            apply not_done_lt hN
            rw [← h.hp]; simpa using hdn
          simp only [measureP, hcl] at hle ⊢
          omega

/-- on a closed channel `buf.length + 1` consumer steps end the iteration -/
theorem closed_consumer_finishes (P : Producer σ α) (cap : Option Nat) : ∀ (b : Nat) (c : Cfg σ α),
    c.closed = true → c.buf.length + 1 ≤ b → (run P cap (List.replicate b Ev.cons) c).consDone = true := by
  intro b
  induction b with
  | zero => intro c _ h; omega
  | succ b ih =>
    intro c hcl hle
    show (run P cap (List.replicate b Ev.cons) (consStep c)).consDone = true
    cases hcd : c.consDone with
    | true =>
      have : consStep c = c := by unfold consStep; rw [if_pos hcd]
      rw [this]
      exact consDone_stays _ c hcd
    | false =>
      unfold consStep
      rw [hcd]; simp only [Bool.false_eq_true, if_false]
      cases hb : c.buf with
      | nil =>
        simp only [hcl, if_true]
        exact consDone_stays _ _ rfl
      | cons v rest =>
        simp only
        apply ih
        · exact hcl
        · rw [hb] at hle
          simp at hle ⊢; omega

/-- **the iterator variant**: unbounded channel, first `a` producer steps (the whole call of
`nogood_internal`, sender dropped at its end), then `b` consumer steps (`r.iter().collect()`): the
collection ends and is exactly the final output -/
theorem sequential_exact {P : Producer σ α} (hm : Mono P) {p0 : σ} {N : Nat}
    (hN : P.done (runG P N p0) = true) (a b : Nat)
    (ha : N + (P.out (runG P N p0)).length + 1 ≤ a) (hb : (P.out (runG P N p0)).length + 1 ≤ b) :
    let c := run P none (List.replicate a Ev.prod ++ List.replicate b Ev.cons) (init p0)
    c.consDone = true ∧ c.got = P.out (runG P N p0) := by
  intro c
  have hi0 : Inv P none p0 (init p0 : Cfg σ α) := Inv.init P none p0
  have h1 := run_inv hm (List.replicate a Ev.prod) _ hi0
  have hcl := unbounded_producer_finishes hm hN a _ hi0 (by simp [measureP, Chan.init]; omega)
  have hlen : (run P none (List.replicate a Ev.prod) (init p0)).buf.length ≤ (P.out (runG P N p0)).length := by
    have := congrArg List.length (closed_all_sent hN h1 hcl)
    simp at this; omega
  have hcd : c.consDone = true := by
    show (run P none (List.replicate a Ev.prod ++ List.replicate b Ev.cons) (init p0)).consDone = true
    rw [run_append]
    exact closed_consumer_finishes P none b _ hcl (by omega)
  have hinv : Inv P none p0 c := run_inv hm _ _ hi0
  exact ⟨hcd, (finished_exact hN hinv hcd).1⟩

/-! ## the receiver is dropped before the producer is done

`s.send(cur_interpr.clone()).expect("Sender should accept results")` (`adf.rs:922`): `send` fails once every
receiver is gone (also when it was blocked on a full bounded channel), and the `expect` panics; unwinding
drops the sender.  The theorems above are about schedules in which the consumer keeps its receiver (it only
takes messages); `DCfg` adds the event `dropRecv` and shows that this is the only difference. -/

inductive DEv where
  | prod
  | cons
  | dropRecv
deriving DecidableEq, Repr

structure DCfg (σ α : Type) where
  base : Cfg σ α
  recvGone : Bool      -- the consumer has dropped the receiver
  panicked : Bool      -- the producer thread has panicked in `expect`

def dstep (P : Producer σ α) (cap : Option Nat) (c : DCfg σ α) : DEv → DCfg σ α
  | .prod =>
    if c.panicked then c
    else if c.recvGone && !c.base.closed && ((P.out c.base.p)[c.base.sent]?).isSome then
      { c with panicked := true, base := { c.base with closed := true, log := c.base.log ++ [ChEv.close] } }
    else { c with base := prodStep P cap c.base }
  | .cons => if c.recvGone then c else { c with base := consStep c.base }
  | .dropRecv => { c with recvGone := true }

def drun (P : Producer σ α) (cap : Option Nat) (sched : List DEv) (c : DCfg σ α) : DCfg σ α :=
  sched.foldl (dstep P cap) c

def Ev.toD : Ev → DEv
  | .prod => .prod
  | .cons => .cons

/-- as long as the receiver is not dropped the extended model is the model above -/
theorem drun_no_drop (P : Producer σ α) (cap : Option Nat) : ∀ (sched : List Ev) (c : Cfg σ α),
    drun P cap (sched.map Ev.toD) { base := c, recvGone := false, panicked := false } =
      { base := run P cap sched c, recvGone := false, panicked := false } := by
  intro sched
  induction sched with
  | nil => intro c; rfl
  | cons e es ih =>
    intro c
    show drun P cap (es.map Ev.toD) (dstep P cap _ e.toD) = _
    cases e with
    | prod => simp only [Ev.toD, dstep, Bool.false_eq_true, if_false, Bool.false_and]; exact ih _
    | cons => simp only [Ev.toD, dstep, Bool.false_eq_true, if_false]; exact ih _

/-- a model that is still to be sent when the receiver is gone makes the producer panic (and the unwinding
drops the sender) -/
theorem send_after_drop_panics (P : Producer σ α) (cap : Option Nat) (c : DCfg σ α) (v : α)
    (hg : c.recvGone = true) (hp : c.panicked = false) (hc : c.base.closed = false)
    (hv : (P.out c.base.p)[c.base.sent]? = some v) :
    (dstep P cap c .prod).panicked = true ∧ (dstep P cap c .prod).base.closed = true ∧
    (dstep P cap c .prod).base.got = c.base.got ∧ (dstep P cap c .prod).base.buf = c.base.buf := by
  simp [dstep, hg, hp, hc, hv]

/-- with nothing to send the producer goes on searching (or returns normally) although the receiver is gone -/
theorem no_pending_no_panic (P : Producer σ α) (cap : Option Nat) (c : DCfg σ α)
    (hp : c.panicked = false) (hv : (P.out c.base.p)[c.base.sent]? = none) :
    dstep P cap c .prod = { c with base := prodStep P cap c.base } := by
  simp [dstep, hp, hv]

/-! ## a toy instance (kernel-evaluated): three results through a `bounded(1)` channel -/

/-- a loop of three iterations emitting `0, 10, 20` -/
def toy : Producer Nat Nat :=
  { iter := (· + 1), done := fun p => decide (3 ≤ p), out := fun p => (List.range p).map (· * 10) }

theorem toy_mono : Mono toy := by
  intro p
  show (List.range p).map (· * 10) <+: (List.range (p + 1)).map (· * 10)
  rw [List.range_succ, List.map_append]; exact List.prefix_append _ _

/-- the fourth producer step is a `send` into the full channel: blocked -/
example : (run toy (some 1) [.prod, .prod, .prod, .prod] (init 0)).buf = [0] ∧
          (run toy (some 1) [.prod, .prod, .prod, .prod] (init 0)).sent = 1 ∧
          run toy (some 1) [.prod, .prod, .prod, .prod] (init 0) = run toy (some 1) [.prod, .prod, .prod] (init 0) := by
  decide

example :
    let c := run toy (some 1) [.prod, .prod, .cons, .cons, .prod, .prod, .prod, .cons, .prod, .prod, .prod, .cons, .prod, .cons, .cons] (init 0)
    c.got = [0, 10, 20] ∧ c.consDone = true ∧ c.buf = [] ∧
    c.log = [ChEv.send 0, ChEv.send 10, ChEv.send 20, ChEv.close] := by decide

/-- dropping the receiver while `10` is still to be sent: the producer panics -/
example : (drun toy (some 1) [.prod, .prod, .cons, .prod, .dropRecv, .prod] ⟨init 0, false, false⟩).panicked = true := by decide

end Chan
