import AdfObdd.Rebuild
import AdfObdd.CountsDef
import AdfObdd.OpsProofs
/-! C14: persistence round trips.

    * `PBdd` is `Bdd` with the serde-skipped bookkeeping made explicit: `deps` = `var_deps`
      (feature `variablelist`), `cnt` = `count_cache`; `st.uniq` = `cache`, `st.resC` / `st.iteC` =
      `restrict_cache` / `ite_cache`.  Sets of variables are lists (only membership is used).
    * `exportB` / `importB`: what the serde derives of `obdd.rs` write and read — `nodes` and the
      unique table as a vector of pairs (`obdd/vectorize.rs`); every `#[serde(skip)]` field comes
      back as its `Default` (empty), the channel ends as `None`.
    * `fixImport` = `Bdd::fix_import`: `generate_var_dependencies` (PUSHES one set per node onto
      whatever `var_deps` already holds) and, with `adhoccounting`, the refill of `count_cache` through
      `modelcount_memoization(Term(i))` for every `i`.
    * `rebuildP` = `impl From<Vec<BddNode>> for Bdd` with the bookkeeping `Bdd::node` maintains.
    * `PAdf` = `Adf` (`ordering`, `bdd`, `ac`); the web service's DTO strings (`SimplifiedAdf`) are
      decimal renderings, parsed back with `str::parse` — modelled by `Nat.repr` / `String.toNat?`. -/
namespace Persist
open Std

/-- (counter-models, models, counter-model paths, model paths, depth) -/
abbrev CountNode := Nat × Nat × Nat × Nat × Nat

structure PBdd where
  st : Store
  deps : Array (List Nat)
  cnt : HashMap Nat CountNode

/-- what `serde` writes for a `Bdd` -/
structure Exported where
  nodes : Array Node
  cache : List (Node × Nat)

def exportB (b : PBdd) : Exported := { nodes := b.st.nodes, cache := b.st.uniq.toList }

def importB (e : Exported) : PBdd :=
  { st := { nodes := e.nodes, uniq := HashMap.ofList e.cache, resC := {}, iteC := {} },
    deps := #[], cnt := {} }

/-! ## `generate_var_dependencies` -/

/-- one closure call of `generate_var_dependencies`: push the set of the node being visited -/
def depStep (d : Array (List Nat)) (n : Node) : Array (List Nat) :=
  if n.var ≥ VBOT then d.push []
  else d.push (n.var :: (d.getD n.lo [] ++ d.getD n.hi []))

def genDeps (nodes : Array Node) (d : Array (List Nat)) : Array (List Nat) := nodes.toList.foldl depStep d

/-! ## refill of `count_cache` -/

def cntTop : CountNode := (0, 1, 0, 1, 0)
def cntBot : CountNode := (1, 0, 1, 0, 0)

/-- the arithmetic shared by `modelcount_naive`, `modelcount_memoization` -/
def cntCombine (l h : CountNode) : CountNode :=
  let dl := l.2.2.2.2
  let dh := h.2.2.2.2
  let D := max dl dh
  (l.1 * 2 ^ (D - dl) + h.1 * 2 ^ (D - dh), l.2.1 * 2 ^ (D - dl) + h.2.1 * 2 ^ (D - dh),
   l.2.2.1 + h.2.2.1, l.2.2.2.1 + h.2.2.2.1, D + 1)

/-- `modelcount_memoization` -/
def countMemo : Nat → Array Node → HashMap Nat CountNode → Nat → HashMap Nat CountNode × CountNode
  | 0, _, c, _ => (c, (0, 0, 0, 0, 0))
  | fuel+1, ns, c, t =>
    if t = 1 then (c, cntTop) else if t = 0 then (c, cntBot) else
    match c[t]? with
    | some r => (c, r)
    | none =>
      match ns[t]? with
      | none => (c, (0, 0, 0, 0, 0))
      | some n =>
        let l := countMemo fuel ns c n.lo
        let h := countMemo fuel ns l.1 n.hi
        let r := cntCombine l.2 h.2
        (h.1.insert t r, r)

/-- the `adhoccounting` part of `fix_import` -/
def cntFix (ns : Array Node) (c : HashMap Nat CountNode) : HashMap Nat CountNode :=
  (List.range ns.size).foldl (fun c i => (countMemo (i + 1) ns c i).1) ((c.insert 1 cntTop).insert 0 cntBot)

/-- `Bdd::fix_import` -/
def fixImport (b : PBdd) : PBdd :=
  { b with deps := genDeps b.st.nodes b.deps, cnt := cntFix b.st.nodes b.cnt }

/-! ## what "sound bookkeeping" means -/

/-- the on-demand value the count cache stands for -/
def cntOf (s : Store) (t : Nat) : CountNode :=
  let c := countF s (t + 1) t
  let p := pathsF s (t + 1) t
  (c.1, c.2.1, p.1, p.2, c.2.2)

/-- `var_deps` is aligned with the node table and holds, per node, the variables of its diagram -/
structure DepsOK (s : Store) (d : Array (List Nat)) : Prop where
  size : d.size = s.nodes.size
  val : ∀ t, t < s.nodes.size → d[t]? = some (depsOf s t)

/-- every cached count is the true one -/
def CntSound (s : Store) (c : HashMap Nat CountNode) : Prop :=
  ∀ t r, c[t]? = some r → t < s.nodes.size ∧ r = cntOf s t

/-- … and, as `adhoccounting` needs it, every handle has an entry -/
def CntFull (s : Store) (c : HashMap Nat CountNode) : Prop :=
  CntSound s c ∧ ∀ t, t < s.nodes.size → c[t]? = some (cntOf s t)

/-! ## the unique table survives `vectorize` -/

theorem ofList_toList_get (m : HashMap Node Nat) (k : Node) : (HashMap.ofList m.toList)[k]? = m[k]? := by
  cases h : m[k]? with
  | some v =>
    exact HashMap.getElem?_ofList_of_mem (BEq.rfl) HashMap.distinct_keys_toList
      (HashMap.mem_toList_iff_getElem?_eq_some.mpr h)
  | none =>
    apply HashMap.getElem?_ofList_of_contains_eq_false
    rw [HashMap.map_fst_toList_eq_keys, HashMap.contains_keys, HashMap.contains_eq_isSome_getElem?, h]
    rfl

/-! ## fuel irrelevance of the on-demand functions -/

theorem depsF_fuel (s : Store) (w : TableWF s.nodes) : ∀ (f g t : Nat), t < s.nodes.size → t < f → t < g →
    depsF s f t = depsF s g t := by
  intro f
  induction f with
  | zero => intro g t _ h; omega
  | succ f ih =>
    intro g t ht hf hg
    cases g with
    | zero => omega
    | succ g =>
      unfold depsF
      by_cases h2 : t < 2
      · rw [if_pos h2, if_pos h2]
      · rw [if_neg h2, if_neg h2]
        obtain ⟨n, hn⟩ := get_of_lt ht
        simp only [hn]
        have ⟨_, hlo, hhi, _, _, _⟩ := w.inner t n (by omega) hn
        rw [ih g n.lo (by omega) (by omega) (by omega), ih g n.hi (by omega) (by omega) (by omega)]

theorem countF_fuel (s : Store) (w : TableWF s.nodes) : ∀ (f g t : Nat), t < s.nodes.size → t < f → t < g →
    countF s f t = countF s g t := by
  intro f
  induction f with
  | zero => intro g t _ h; omega
  | succ f ih =>
    intro g t ht hf hg
    cases g with
    | zero => omega
    | succ g =>
      unfold countF
      by_cases h1 : t = 1
      · rw [if_pos h1, if_pos h1]
      · rw [if_neg h1, if_neg h1]
        by_cases h0 : t = 0
        · rw [if_pos h0, if_pos h0]
        · rw [if_neg h0, if_neg h0]
          obtain ⟨n, hn⟩ := get_of_lt ht
          simp only [hn]
          have ⟨_, hlo, hhi, _, _, _⟩ := w.inner t n (by omega) hn
          rw [ih g n.lo (by omega) (by omega) (by omega), ih g n.hi (by omega) (by omega) (by omega)]

theorem pathsF_fuel (s : Store) (w : TableWF s.nodes) : ∀ (f g t : Nat), t < s.nodes.size → t < f → t < g →
    pathsF s f t = pathsF s g t := by
  intro f
  induction f with
  | zero => intro g t _ h; omega
  | succ f ih =>
    intro g t ht hf hg
    cases g with
    | zero => omega
    | succ g =>
      unfold pathsF
      by_cases h1 : t = 1
      · rw [if_pos h1, if_pos h1]
      · rw [if_neg h1, if_neg h1]
        by_cases h0 : t = 0
        · rw [if_pos h0, if_pos h0]
        · rw [if_neg h0, if_neg h0]
          obtain ⟨n, hn⟩ := get_of_lt ht
          simp only [hn]
          have ⟨_, hlo, hhi, _, _, _⟩ := w.inner t n (by omega) hn
          rw [ih g n.lo (by omega) (by omega) (by omega), ih g n.hi (by omega) (by omega) (by omega)]

/-- the set pushed for an inner node is the set of its diagram -/
theorem depsOf_node (s : Store) (w : TableWF s.nodes) (t : Nat) (n : Node) (ht2 : 2 ≤ t) (hn : s.nodes[t]? = some n) :
    depsOf s t = n.var :: (depsOf s n.lo ++ depsOf s n.hi) := by
  have ht := lt_of_get hn
  have ⟨_, hlo, hhi, _, _, _⟩ := w.inner t n ht2 hn
  unfold depsOf
  conv => lhs; unfold depsF
  rw [if_neg (by omega)]
  simp only [hn]
  rw [depsF_fuel s w t (n.lo + 1) n.lo (by omega) hlo (by omega),
      depsF_fuel s w t (n.hi + 1) n.hi (by omega) hhi (by omega)]

theorem depsOf_const (s : Store) (t : Nat) (h : t < 2) : depsOf s t = [] := by
  unfold depsOf depsF; rw [if_pos h]

/-! ## `generate_var_dependencies` from an empty `var_deps` is sound -/

theorem foldl_take_succ {α β : Type} (f : β → α → β) (b : β) (l : List α) (k : Nat) (h : k < l.length) :
    (l.take (k + 1)).foldl f b = f ((l.take k).foldl f b) l[k] := by
  rw [List.take_succ_eq_append_getElem h, List.foldl_append]; rfl

theorem genDeps_prefix (s : Store) (w : TableWF s.nodes) : ∀ k, k ≤ s.nodes.size →
    let d := (s.nodes.toList.take k).foldl depStep #[]
    d.size = k ∧ ∀ t, t < k → d[t]? = some (depsOf s t) := by
  intro k
  induction k with
  | zero => intro _; exact ⟨rfl, fun t h => by omega⟩
  | succ k ih =>
    intro hk
    have hk' : k < s.nodes.size := by omega
    have ⟨hsz, hval⟩ := ih (by omega)
    have hkl : k < s.nodes.toList.length := by simpa using hk'
    simp only
    rw [foldl_take_succ depStep #[] _ k hkl]
    have hnode : s.nodes.toList[k] = s.nodes[k] := by simp
    rw [hnode]
    have hget : s.nodes[k]? = some s.nodes[k] := Array.getElem?_eq_getElem hk'
    -- value pushed for node k
    generalize (s.nodes.toList.take k).foldl depStep #[] = d at hsz hval ⊢
    have hpush : ∃ x, depStep d s.nodes[k] = d.push x ∧ x = depsOf s k := by
      by_cases hk2 : k < 2
      · have hv : s.nodes[k].var ≥ VBOT := by
          have h01 : k = 0 ∨ k = 1 := by omega
          rcases h01 with h | h <;> subst h
          · have e := Option.some.inj (hget.symm.trans w.bot)
            rw [e]; exact Nat.le_refl _
          · have e := Option.some.inj (hget.symm.trans w.top)
            rw [e]; simp [VBOT, VTOP]
        exact ⟨[], by unfold depStep; rw [if_pos hv], (depsOf_const s k hk2).symm⟩
      · have ⟨hv, hlo, hhi, _, _, _⟩ := w.inner k _ (by omega) hget
        refine ⟨s.nodes[k].var :: (d.getD s.nodes[k].lo [] ++ d.getD s.nodes[k].hi []),
                by unfold depStep; rw [if_neg (by omega)], ?_⟩
        rw [depsOf_node s w k _ (by omega) hget]
        have e1 := hval s.nodes[k].lo hlo
        have e2 := hval s.nodes[k].hi hhi
        rw [Array.getD_eq_getD_getElem?, Array.getD_eq_getD_getElem?, e1, e2]
        rfl
    obtain ⟨x, hx, hxv⟩ := hpush
    rw [hx]
    refine ⟨by simp [hsz], ?_⟩
    intro t ht
    rw [Array.getElem?_push, hsz]
    by_cases htk : t = k
    · subst htk; rw [if_pos rfl, hxv]
    · rw [if_neg htk]; exact hval t (by omega)

theorem genDeps_ok (s : Store) (w : TableWF s.nodes) : DepsOK s (genDeps s.nodes #[]) := by
  have h := genDeps_prefix s w s.nodes.size (Nat.le_refl _)
  have e : s.nodes.toList.take s.nodes.size = s.nodes.toList := by
    apply List.take_of_length_le; simp
  simp only [e] at h
  exact ⟨h.1, h.2⟩

/-! ## the refill of `count_cache` is sound and total -/

theorem cntOf_one (s : Store) : cntOf s 1 = cntTop := by
  simp [cntOf, countF, pathsF, cntTop]
theorem cntOf_zero (s : Store) : cntOf s 0 = cntBot := by
  simp [cntOf, countF, pathsF, cntBot]

theorem cntOf_node (s : Store) (w : TableWF s.nodes) (t : Nat) (n : Node) (ht2 : 2 ≤ t) (hn : s.nodes[t]? = some n) :
    cntOf s t = cntCombine (cntOf s n.lo) (cntOf s n.hi) := by
  have ht := lt_of_get hn
  have ⟨_, hlo, hhi, _, _, _⟩ := w.inner t n ht2 hn
  have hc : countF s (t + 1) t =
      (let l := countF s (n.lo + 1) n.lo
       let h := countF s (n.hi + 1) n.hi
       let D := max l.2.2 h.2.2
       (l.1 * 2 ^ (D - l.2.2) + h.1 * 2 ^ (D - h.2.2), l.2.1 * 2 ^ (D - l.2.2) + h.2.1 * 2 ^ (D - h.2.2), D + 1)) := by
    conv => lhs; unfold countF
    rw [if_neg (by omega), if_neg (by omega)]
    simp only [hn]
    rw [countF_fuel s w t (n.lo + 1) n.lo (by omega) hlo (by omega),
        countF_fuel s w t (n.hi + 1) n.hi (by omega) hhi (by omega)]
  have hp : pathsF s (t + 1) t =
      ((pathsF s (n.lo + 1) n.lo).1 + (pathsF s (n.hi + 1) n.hi).1,
       (pathsF s (n.lo + 1) n.lo).2 + (pathsF s (n.hi + 1) n.hi).2) := by
    conv => lhs; unfold pathsF
    rw [if_neg (by omega), if_neg (by omega)]
    simp only [hn]
    rw [pathsF_fuel s w t (n.lo + 1) n.lo (by omega) hlo (by omega),
        pathsF_fuel s w t (n.hi + 1) n.hi (by omega) hhi (by omega)]
  unfold cntOf
  rw [hc, hp]
  rfl

theorem countMemo_spec (s : Store) (w : TableWF s.nodes) : ∀ (fuel : Nat) (c : HashMap Nat CountNode) (t : Nat),
    CntSound s c → t < s.nodes.size → t < fuel →
    CntSound s (countMemo fuel s.nodes c t).1 ∧ (countMemo fuel s.nodes c t).2 = cntOf s t ∧
    (∀ (k : Nat) (v : CountNode), c[k]? = some v → (countMemo fuel s.nodes c t).1[k]? = some v) ∧
    (2 ≤ t → (countMemo fuel s.nodes c t).1[t]? = some (cntOf s t)) := by
  intro fuel
  induction fuel with
  | zero => intro c t _ _ h; omega
  | succ f ih =>
    intro c t hs ht hf
    unfold countMemo
    by_cases h1 : t = 1
    · rw [if_pos h1]; subst h1
      exact ⟨hs, (cntOf_one s).symm, fun _ _ h => h, fun h => by omega⟩
    rw [if_neg h1]
    by_cases h0 : t = 0
    · rw [if_pos h0]; subst h0
      exact ⟨hs, (cntOf_zero s).symm, fun _ _ h => h, fun h => by omega⟩
    rw [if_neg h0]
    cases hc : c[t]? with
    | some r =>
      simp only
      have := (hs t r hc).2
      exact ⟨hs, this, fun _ _ h => h, fun _ => by rw [hc, this]⟩
    | none =>
      simp only
      obtain ⟨n, hn⟩ := get_of_lt ht
      simp only [hn]
      have ⟨_, hlo, hhi, _, _, _⟩ := w.inner t n (by omega) hn
      have ⟨s1, v1, p1, _⟩ := ih c n.lo hs (by omega) (by omega)
      have ⟨s2, v2, p2, _⟩ := ih (countMemo f s.nodes c n.lo).1 n.hi s1 (by omega) (by omega)
      have hval : cntCombine (countMemo f s.nodes c n.lo).2 (countMemo f s.nodes (countMemo f s.nodes c n.lo).1 n.hi).2 = cntOf s t := by
        rw [v1, v2, cntOf_node s w t n (by omega) hn]
      refine ⟨?_, hval, ?_, ?_⟩
      · intro k r hk
        rw [HashMap.getElem?_insert] at hk
        by_cases hkt : (t == k) = true
        · rw [if_pos hkt] at hk
          have : t = k := by simpa using hkt
          subst this
          exact ⟨ht, by rw [← hval]; exact (Option.some.inj hk).symm⟩
        · rw [if_neg hkt] at hk; exact s2 k r hk
      · intro k v hk
        rw [HashMap.getElem?_insert]
        by_cases hkt : (t == k) = true
        · have : t = k := by simpa using hkt
          subst this; rw [hc] at hk; cases hk
        · rw [if_neg hkt]; exact p2 k v (p1 k v hk)
      · intro _
        rw [HashMap.getElem?_insert, if_pos (by simp), hval]

theorem cntFix_prefix (s : Store) (w : TableWF s.nodes) (c0 : HashMap Nat CountNode) (h0 : CntSound s c0)
    (e0 : c0[0]? = some (cntOf s 0)) (e1 : c0[1]? = some (cntOf s 1)) : ∀ k, k ≤ s.nodes.size →
    let c := (List.range k).foldl (fun c i => (countMemo (i + 1) s.nodes c i).1) c0
    CntSound s c ∧ c[0]? = some (cntOf s 0) ∧ c[1]? = some (cntOf s 1) ∧ ∀ t, t < k → c[t]? = some (cntOf s t) := by
  intro k
  induction k with
  | zero => intro _; exact ⟨h0, e0, e1, fun t h => by omega⟩
  | succ k ih =>
    intro hk
    have ⟨a, b0, b1, d⟩ := ih (by omega)
    simp only [List.range_succ, List.foldl_append, List.foldl_cons, List.foldl_nil]
    generalize (List.range k).foldl (fun c i => (countMemo (i + 1) s.nodes c i).1) c0 = c at a b0 b1 d
    have ⟨x, _, y, z⟩ := countMemo_spec s w (k + 1) c k a (by omega) (Nat.lt_succ_self _)
    refine ⟨x, y _ _ b0, y _ _ b1, ?_⟩
    intro t ht
    by_cases htk : t = k
    · subst htk
      by_cases h2 : 2 ≤ t
      · exact z h2
      · have h01 : t = 0 ∨ t = 1 := by omega
        rcases h01 with h | h <;> subst h
        · exact y _ _ b0
        · exact y _ _ b1
    · exact y _ _ (d t (by omega))

theorem cntFix_full (s : Store) (w : TableWF s.nodes) (c : HashMap Nat CountNode) (h : CntSound s c) :
    CntFull s (cntFix s.nodes c) := by
  have hl := w.len
  have hs0 : CntSound s ((c.insert 1 cntTop).insert 0 cntBot) := by
    intro t r ht
    rw [HashMap.getElem?_insert] at ht
    by_cases h0 : (0 == t) = true
    · rw [if_pos h0] at ht
      have : 0 = t := by simpa using h0
      subst this
      exact ⟨by omega, by rw [cntOf_zero]; exact (Option.some.inj ht).symm⟩
    · rw [if_neg h0, HashMap.getElem?_insert] at ht
      by_cases h1 : (1 == t) = true
      · rw [if_pos h1] at ht
        have : 1 = t := by simpa using h1
        subst this
        exact ⟨by omega, by rw [cntOf_one]; exact (Option.some.inj ht).symm⟩
      · rw [if_neg h1] at ht; exact h t r ht
  have e0 : ((c.insert 1 cntTop).insert 0 cntBot)[0]? = some (cntOf s 0) := by
    rw [HashMap.getElem?_insert, if_pos (by simp), cntOf_zero]
  have e1 : ((c.insert 1 cntTop).insert 0 cntBot)[1]? = some (cntOf s 1) := by
    rw [HashMap.getElem?_insert, if_neg (by simp), HashMap.getElem?_insert, if_pos (by simp), cntOf_one]
  have ⟨a, _, _, d⟩ := cntFix_prefix s w _ hs0 e0 e1 s.nodes.size (Nat.le_refl _)
  exact ⟨a, d⟩

/-! ## queries read the node table only -/

theorem depsF_congr {s s' : Store} (h : s'.nodes = s.nodes) : ∀ (f t : Nat), depsF s' f t = depsF s f t := by
  intro f
  induction f with
  | zero => intro t; rfl
  | succ f ih => intro t; unfold depsF; simp only [h, ih]

theorem countF_congr {s s' : Store} (h : s'.nodes = s.nodes) : ∀ (f t : Nat), countF s' f t = countF s f t := by
  intro f
  induction f with
  | zero => intro t; rfl
  | succ f ih => intro t; unfold countF; simp only [h, ih]

theorem pathsF_congr {s s' : Store} (h : s'.nodes = s.nodes) : ∀ (f t : Nat), pathsF s' f t = pathsF s f t := by
  intro f
  induction f with
  | zero => intro t; rfl
  | succ f ih => intro t; unfold pathsF; simp only [h, ih]

theorem depsOf_congr {s s' : Store} (h : s'.nodes = s.nodes) (t : Nat) : depsOf s' t = depsOf s t :=
  depsF_congr h _ _
theorem cntOf_congr {s s' : Store} (h : s'.nodes = s.nodes) (t : Nat) : cntOf s' t = cntOf s t := by
  unfold cntOf; rw [countF_congr h, pathsF_congr h]

theorem DepsOK.congr {s s' : Store} (h : s'.nodes = s.nodes) {d : Array (List Nat)} (o : DepsOK s d) : DepsOK s' d :=
  ⟨by rw [h]; exact o.size, fun t ht => by rw [depsOf_congr h]; exact o.val t (h ▸ ht)⟩

theorem CntFull.congr {s s' : Store} (h : s'.nodes = s.nodes) {c : HashMap Nat CountNode} (o : CntFull s c) : CntFull s' c :=
  ⟨fun t r hr => by rw [h, cntOf_congr h]; exact o.1 t r hr, fun t ht => by rw [cntOf_congr h]; exact o.2 t (h ▸ ht)⟩

/-- sound variable lists are unique: recomputed = original -/
theorem DepsOK.unique {s : Store} {d d' : Array (List Nat)} (o : DepsOK s d) (o' : DepsOK s d') : d = d' := by
  apply Array.ext_getElem?
  intro i
  by_cases hi : i < s.nodes.size
  · rw [o.val i hi, o'.val i hi]
  · rw [Array.getElem?_eq_none (by rw [o.size]; omega), Array.getElem?_eq_none (by rw [o'.size]; omega)]

/-- sound total count caches agree entry by entry -/
theorem CntFull.unique {s : Store} {c c' : HashMap Nat CountNode} (o : CntFull s c) (o' : CntFull s c') (t : Nat) :
    c[t]? = c'[t]? := by
  by_cases ht : t < s.nodes.size
  · rw [o.2 t ht, o'.2 t ht]
  · have a : c[t]? = none := by
      cases h : c[t]? with
      | none => rfl
      | some r => exact absurd (o.1 t r h).1 ht
    have b : c'[t]? = none := by
      cases h : c'[t]? with
      | none => rfl
      | some r => exact absurd (o'.1 t r h).1 ht
    rw [a, b]

/-! ## export → import → fix_import -/

/-- a healthy object: canonical store, aligned sound variable lists, total sound count cache -/
structure Healthy (b : PBdd) : Prop where
  wf : WF b.st
  deps : DepsOK b.st b.deps
  cnt : CntFull b.st b.cnt

theorem import_nodes (b : PBdd) : (importB (exportB b)).st.nodes = b.st.nodes := rfl
theorem import_uniq (b : PBdd) (n : Node) : (importB (exportB b)).st.uniq[n]? = b.st.uniq[n]? :=
  ofList_toList_get b.st.uniq n
theorem import_skipped (b : PBdd) :
    (importB (exportB b)).deps = #[] ∧ (∀ k : Nat, (importB (exportB b)).cnt[k]? = none) ∧
    (∀ k : Nat × Nat × Bool, (importB (exportB b)).st.resC[k]? = none) ∧
    (∀ k : Nat × Nat × Nat, (importB (exportB b)).st.iteC[k]? = none) :=
  ⟨rfl, fun _ => HashMap.getElem?_empty, fun _ => HashMap.getElem?_empty, fun _ => HashMap.getElem?_empty⟩

/-- a store with the same node table, an equivalent unique table and empty memo tables is well formed -/
theorem WF_of_same (s s' : Store) (w : WF s) (hn : s'.nodes = s.nodes) (hu : ∀ n : Node, s'.uniq[n]? = s.uniq[n]?)
    (hr : ∀ k : Nat × Nat × Bool, s'.resC[k]? = none) (hi : ∀ k : Nat × Nat × Nat, s'.iteC[k]? = none) : WF s' := by
  refine ⟨by rw [hn]; exact w.len, by rw [hn]; exact w.bot, by rw [hn]; exact w.top, ?_, ?_, ?_, ?_⟩
  · intro i n h2 hg; rw [hn] at hg ⊢; exact w.inner i n h2 hg
  · intro n t; rw [hu, hn]; exact w.uniqOK n t
  · intro t v b r h; rw [hr] at h; cases h
  · intro i t e r h; rw [hi] at h; cases h

theorem fixImport_st (b : PBdd) : (fixImport b).st = b.st := rfl

/-- **import_fix** -/
theorem import_fix (b : PBdd) (w : WF b.st) :
    let r := fixImport (importB (exportB b))
    r.st.nodes = b.st.nodes ∧ (∀ n : Node, r.st.uniq[n]? = b.st.uniq[n]?) ∧ Healthy r := by
  intro r
  have hn : r.st.nodes = b.st.nodes := rfl
  have hu : ∀ n : Node, r.st.uniq[n]? = b.st.uniq[n]? := import_uniq b
  have wr : WF r.st := WF_of_same b.st r.st w hn hu (import_skipped b).2.2.1 (import_skipped b).2.2.2
  refine ⟨hn, hu, wr, ?_, ?_⟩
  · exact genDeps_ok r.st wr.table
  · exact cntFix_full r.st wr.table _ (fun t r h => by rw [(import_skipped b).2.1] at h; cases h)

/-! ## `fix_import` must run exactly once, on `var_deps = []` -/

theorem genDeps_size (nodes : Array Node) (d : Array (List Nat)) : (genDeps nodes d).size = d.size + nodes.size := by
  unfold genDeps
  have : ∀ (l : List Node) (d : Array (List Nat)), (l.foldl depStep d).size = d.size + l.length := by
    intro l
    induction l with
    | nil => intro d; rfl
    | cons n l ih =>
      intro d
      rw [List.foldl_cons, ih]
      unfold depStep
      split <;> simp <;> omega
  rw [this]; simp

/-- precondition lemma: on anything but an empty `var_deps` the result is misaligned (too long);
so `fix_import` is right exactly after an import and wrong on a live object or when run twice -/
theorem fixImport_needs_empty_deps (b : PBdd) (h : b.deps.size ≠ 0) : ¬ DepsOK (fixImport b).st (fixImport b).deps := by
  intro o
  have := o.size
  rw [fixImport_st] at this
  have e : (fixImport b).deps = genDeps b.st.nodes b.deps := rfl
  rw [e, genDeps_size] at this
  omega

/-! ## rebuild from the plain node list, with the bookkeeping `Bdd::node` maintains -/

/-- `Bdd::new()` (feature `adhoccounting`: the two constants are counted at once) -/
def PBdd.new : PBdd :=
  { st := Store.init, deps := #[[], []],
    cnt := ((∅ : HashMap Nat CountNode).insert 1 cntTop).insert 0 cntBot }

/-- `Bdd::node` with `variablelist` and `adhoccounting` + `adhoccountmodels` (with plain
`adhoccounting` the two model-count components are not meaningful — documented exception) -/
def mkNodeP (b : PBdd) (v lo hi : Nat) : PBdd × Nat :=
  if lo = hi then (b, lo) else
  match b.st.uniq[(⟨v, lo, hi⟩ : Node)]? with
  | some t => (b, t)
  | none =>
    ({ st := { b.st with nodes := b.st.nodes.push ⟨v, lo, hi⟩, uniq := b.st.uniq.insert ⟨v, lo, hi⟩ b.st.nodes.size },
       deps := b.deps.push (v :: (b.deps.getD lo [] ++ b.deps.getD hi [])),
       cnt := b.cnt.insert b.st.nodes.size
                (cntCombine (b.cnt.getD lo (0, 0, 0, 0, 0)) (b.cnt.getD hi (0, 0, 0, 0, 0))) },
     b.st.nodes.size)

def rebuildPL (nodes : List Node) (b : PBdd) : PBdd := nodes.foldl (fun b n => (mkNodeP b n.var n.lo n.hi).1) b

/-- `impl From<Vec<BddNode>> for Bdd` -/
def rebuildP (nodes : Array Node) : PBdd := rebuildPL nodes.toList PBdd.new

theorem mkNodeP_st (b : PBdd) (v lo hi : Nat) : (mkNodeP b v lo hi).1.st = (mkNode b.st v lo hi).1 := by
  unfold mkNodeP mkNode
  by_cases h : lo = hi
  · rw [if_pos h, if_pos h]
  · rw [if_neg h, if_neg h]
    cases b.st.uniq[(⟨v, lo, hi⟩ : Node)]? <;> rfl

theorem rebuildPL_st : ∀ (l : List Node) (b : PBdd), (rebuildPL l b).st = rebuildL l b.st := by
  intro l
  induction l with
  | nil => intro b; rfl
  | cons n l ih =>
    intro b
    unfold rebuildPL rebuildL
    rw [List.foldl_cons, List.foldl_cons]
    have := ih (mkNodeP b n.var n.lo n.hi).1
    unfold rebuildPL rebuildL at this
    rw [this, mkNodeP_st]

theorem rebuildL_memo : ∀ (l : List Node) (s : Store), (rebuildL l s).resC = s.resC ∧ (rebuildL l s).iteC = s.iteC := by
  intro l
  induction l with
  | nil => intro s; exact ⟨rfl, rfl⟩
  | cons n l ih =>
    intro s
    unfold rebuildL
    rw [List.foldl_cons]
    have := ih (mkNode s n.var n.lo n.hi).1
    unfold rebuildL at this
    rw [this.1, this.2]
    unfold mkNode
    by_cases h : n.lo = n.hi
    · rw [if_pos h]; exact ⟨rfl, rfl⟩
    · rw [if_neg h]; cases s.uniq[(⟨n.var, n.lo, n.hi⟩ : Node)]? <;> exact ⟨rfl, rfl⟩

/-- the next node of a well-formed table is fresh in the store rebuilt so far -/
theorem prefix_fresh (orig : Store) (w : WF orig) (k : Nat) (hk2 : 2 ≤ k) (hk : k < orig.nodes.size)
    (s : Store) (p : Prefix orig k s) :
    orig.nodes[k].lo ≠ orig.nodes[k].hi ∧
    s.uniq[(⟨orig.nodes[k].var, orig.nodes[k].lo, orig.nodes[k].hi⟩ : Node)]? = none := by
  have hget : orig.nodes[k]? = some orig.nodes[k] := Array.getElem?_eq_getElem hk
  have ⟨_, _, _, hne, _, _⟩ := w.inner k _ hk2 hget
  refine ⟨hne, ?_⟩
  cases hu : s.uniq[(⟨orig.nodes[k].var, orig.nodes[k].lo, orig.nodes[k].hi⟩ : Node)]? with
  | none => rfl
  | some t =>
    have ⟨ht2, htk, hgt⟩ := (p.uniq _ t).mp hu
    have : t = k := w.nodup t k _ ht2 hk2 hgt hget
    omega

/-- bookkeeping of the object rebuilt from the first `k` nodes -/
structure BK (orig : Store) (k : Nat) (b : PBdd) : Prop where
  deps : b.deps = (orig.nodes.toList.take k).foldl depStep #[]
  sound : CntSound orig b.cnt
  full : ∀ t, t < k → b.cnt[t]? = some (cntOf orig t)

theorem bk_step (orig : Store) (w : WF orig) (k : Nat) (hk2 : 2 ≤ k) (hk : k < orig.nodes.size)
    (b : PBdd) (p : Prefix orig k b.st) (q : BK orig k b) :
    BK orig (k + 1) (mkNodeP b orig.nodes[k].var orig.nodes[k].lo orig.nodes[k].hi).1 := by
  have hget : orig.nodes[k]? = some orig.nodes[k] := Array.getElem?_eq_getElem hk
  have ⟨hv, hlo, hhi, _, _, _⟩ := w.inner k _ hk2 hget
  have ⟨hne, hfresh⟩ := prefix_fresh orig w k hk2 hk b.st p
  have hsz : b.st.nodes.size = k := p.size
  have hkl : k < orig.nodes.toList.length := by simpa using hk
  have hval : cntCombine (b.cnt.getD orig.nodes[k].lo (0, 0, 0, 0, 0)) (b.cnt.getD orig.nodes[k].hi (0, 0, 0, 0, 0)) =
      cntOf orig k := by
    rw [HashMap.getD_eq_getD_getElem?, HashMap.getD_eq_getD_getElem?, q.full _ hlo, q.full _ hhi,
        cntOf_node orig w.table k _ hk2 hget]
    rfl
  unfold mkNodeP
  rw [if_neg hne, hfresh]
  simp only
  constructor
  · show b.deps.push _ = _
    rw [foldl_take_succ depStep #[] _ k hkl, ← q.deps]
    have hnode : orig.nodes.toList[k] = orig.nodes[k] := by simp
    rw [hnode]
    unfold depStep
    rw [if_neg (by omega)]
  · intro t r ht
    show t < orig.nodes.size ∧ r = cntOf orig t
    have ht' : (b.cnt.insert b.st.nodes.size (cntCombine (b.cnt.getD orig.nodes[k].lo (0, 0, 0, 0, 0))
        (b.cnt.getD orig.nodes[k].hi (0, 0, 0, 0, 0))))[t]? = some r := ht
    rw [HashMap.getElem?_insert, hsz, hval] at ht'
    by_cases hkt : (k == t) = true
    · rw [if_pos hkt] at ht'
      have : k = t := by simpa using hkt
      subst this
      exact ⟨hk, (Option.some.inj ht').symm⟩
    · rw [if_neg hkt] at ht'; exact q.sound t r ht'
  · intro t ht
    show (b.cnt.insert b.st.nodes.size (cntCombine (b.cnt.getD orig.nodes[k].lo (0, 0, 0, 0, 0))
        (b.cnt.getD orig.nodes[k].hi (0, 0, 0, 0, 0))))[t]? = some (cntOf orig t)
    rw [HashMap.getElem?_insert, hsz, hval]
    by_cases hkt : (k == t) = true
    · rw [if_pos hkt]
      have : k = t := by simpa using hkt
      subst this; rfl
    · rw [if_neg hkt]
      have : k ≠ t := by simpa using hkt
      exact q.full t (by omega)

theorem rebuildP_from (orig : Store) (w : WF orig) : ∀ (m k : Nat) (b : PBdd), 2 ≤ k → k + m = orig.nodes.size →
    Prefix orig k b.st → BK orig k b →
    Prefix orig orig.nodes.size (rebuildPL (orig.nodes.toList.drop k) b).st ∧
    BK orig orig.nodes.size (rebuildPL (orig.nodes.toList.drop k) b) := by
  intro m
  induction m with
  | zero =>
    intro k b _ hkm p q
    have : k = orig.nodes.size := by omega
    subst this
    have hd : orig.nodes.toList.drop orig.nodes.size = [] := by
      apply List.drop_eq_nil_of_le; simp
    rw [hd]; exact ⟨p, q⟩
  | succ m ih =>
    intro k b hk2 hkm p q
    have hk : k < orig.nodes.size := by omega
    have hdrop : orig.nodes.toList.drop k = orig.nodes[k] :: orig.nodes.toList.drop (k+1) := by
      rw [List.drop_eq_getElem_cons (by simpa using hk)]; simp
    rw [hdrop]
    simp only [rebuildPL, List.foldl_cons]
    have p' : Prefix orig (k+1) (mkNodeP b orig.nodes[k].var orig.nodes[k].lo orig.nodes[k].hi).1.st := by
      rw [mkNodeP_st]; exact prefix_step orig w k hk2 hk b.st p
    exact ih (k+1) _ (by omega) (by omega) p' (bk_step orig w k hk2 hk b p q)

theorem take_two (orig : Store) (w : WF orig) : orig.nodes.toList.take 2 = [⟨VBOT, 0, 0⟩, ⟨VTOP, 1, 1⟩] := by
  have hl := w.len
  have e0 : orig.nodes[0]'(by omega) = ⟨VBOT, 0, 0⟩ :=
    Option.some.inj ((Array.getElem?_eq_getElem (xs := orig.nodes) (i := 0) (by omega)).symm.trans w.bot)
  have e1 : orig.nodes[1]'(by omega) = ⟨VTOP, 1, 1⟩ :=
    Option.some.inj ((Array.getElem?_eq_getElem (xs := orig.nodes) (i := 1) (by omega)).symm.trans w.top)
  apply List.ext_getElem
  · simp; omega
  · intro i hi1 hi2
    have : i < 2 := by simp at hi2; omega
    rcases Nat.lt_or_ge i 1 with h | h
    · have : i = 0 := by omega
      subst this; simp [e0]
    · have : i = 1 := by omega
      subst this; simp [e1]

theorem bk_init (orig : Store) (w : WF orig) : BK orig 2 PBdd.new := by
  have hl := w.len
  refine ⟨?_, ?_, ?_⟩
  · rw [take_two orig w]
    simp [PBdd.new, depStep, VBOT, VTOP]
  · intro t r ht
    have ht' : (((∅ : HashMap Nat CountNode).insert 1 cntTop).insert 0 cntBot)[t]? = some r := ht
    rw [HashMap.getElem?_insert] at ht'
    by_cases h0 : (0 == t) = true
    · rw [if_pos h0] at ht'
      have : 0 = t := by simpa using h0
      subst this
      exact ⟨by omega, by rw [cntOf_zero]; exact (Option.some.inj ht').symm⟩
    · rw [if_neg h0, HashMap.getElem?_insert] at ht'
      by_cases h1 : (1 == t) = true
      · rw [if_pos h1] at ht'
        have : 1 = t := by simpa using h1
        subst this
        exact ⟨by omega, by rw [cntOf_one]; exact (Option.some.inj ht').symm⟩
      · rw [if_neg h1, HashMap.getElem?_empty] at ht'; cases ht'
  · intro t ht
    show (((∅ : HashMap Nat CountNode).insert 1 cntTop).insert 0 cntBot)[t]? = some (cntOf orig t)
    have h01 : t = 0 ∨ t = 1 := by omega
    rcases h01 with h | h <;> subst h
    · rw [HashMap.getElem?_insert, if_pos (by simp), cntOf_zero]
    · rw [HashMap.getElem?_insert, if_neg (by simp), HashMap.getElem?_insert, if_pos (by simp), cntOf_one]

/-- **rebuild with bookkeeping**: same node table (same numbering), exact unique table, empty memo
tables, well formed, aligned sound variable lists and a total sound count cache -/
theorem rebuildP_ok (orig : Store) (w : WF orig) :
    (rebuildP orig.nodes).st = rebuild orig.nodes ∧ (rebuildP orig.nodes).st.nodes = orig.nodes ∧
    (∀ n : Node, (rebuildP orig.nodes).st.uniq[n]? = orig.uniq[n]?) ∧ Healthy (rebuildP orig.nodes) := by
  have hst : (rebuildP orig.nodes).st = rebuild orig.nodes := rebuildPL_st _ _
  have ⟨hn, hu⟩ := rebuild_id orig w
  have hu' : ∀ n : Node, (rebuild orig.nodes).uniq[n]? = orig.uniq[n]? := by
    intro n
    cases h : orig.uniq[n]? with
    | some t => exact (hu n t).mpr ((w.uniqOK n t).mp h)
    | none =>
      cases h' : (rebuild orig.nodes).uniq[n]? with
      | none => rfl
      | some t => rw [(w.uniqOK n t).mpr ((hu n t).mp h')] at h; cases h
  have hmemo := rebuildL_memo orig.nodes.toList Store.init
  have wr : WF (rebuild orig.nodes) := by
    apply WF_of_same orig _ w hn hu'
    · intro k; unfold rebuild; rw [hmemo.1]; exact HashMap.getElem?_empty
    · intro k; unfold rebuild; rw [hmemo.2]; exact HashMap.getElem?_empty
  -- bookkeeping
  have hsplit : orig.nodes.toList = orig.nodes.toList.take 2 ++ orig.nodes.toList.drop 2 := by simp
  have h2 : rebuildPL (orig.nodes.toList.take 2) PBdd.new = PBdd.new := by
    rw [take_two orig w]; simp [rebuildPL, mkNodeP]
  have hfold : rebuildP orig.nodes = rebuildPL (orig.nodes.toList.drop 2) PBdd.new := by
    unfold rebuildP
    conv => lhs; rw [hsplit]
    unfold rebuildPL
    rw [List.foldl_append]
    have := h2; unfold rebuildPL at this; rw [this]
  have p2 : Prefix orig 2 PBdd.new.st := by
    have h := init_after_two orig w
    have e : rebuildL (orig.nodes.toList.take 2) Store.init = PBdd.new.st := by
      have := rebuildPL_st (orig.nodes.toList.take 2) PBdd.new
      rw [h2] at this; exact this.symm
    rw [e] at h; exact h
  have ⟨_, q⟩ := rebuildP_from orig w (orig.nodes.size - 2) 2 PBdd.new (Nat.le_refl _) (by have := w.len; omega)
    p2 (bk_init orig w)
  rw [← hfold] at q
  have hnP : (rebuildP orig.nodes).st.nodes = orig.nodes := by rw [hst]; exact hn
  refine ⟨hst, hnP, by rw [hst]; exact hu', by rw [hst]; exact wr, ?_, ?_⟩
  · have e : orig.nodes.toList.take orig.nodes.size = orig.nodes.toList := by
      apply List.take_of_length_le; simp
    have : (rebuildP orig.nodes).deps = genDeps orig.nodes #[] := by rw [q.deps, e]; rfl
    rw [this]
    exact (genDeps_ok orig w.table).congr hnP
  · exact CntFull.congr hnP ⟨q.sound, q.full⟩

/-! ## `fix_import` twice: the concrete misuse -/

theorem fixImport_twice_misaligned (b : PBdd) (h : b.st.nodes.size ≠ 0) :
    ¬ DepsOK (fixImport (fixImport b)).st (fixImport (fixImport b)).deps := by
  apply fixImport_needs_empty_deps
  have e : (fixImport b).deps = genDeps b.st.nodes b.deps := rfl
  rw [e, genDeps_size]; omega

/-- the table after `variable(Var(0))` -/
def nodes3 : Array Node := #[⟨VBOT, 0, 0⟩, ⟨VTOP, 1, 1⟩, ⟨0, 0, 1⟩]

/-- what `Bdd::node` pushes onto `var_deps` for a fresh node -/
def nodeDeps (d : Array (List Nat)) (n : Node) : Array (List Nat) := d.push (n.var :: (d.getD n.lo [] ++ d.getD n.hi []))

theorem mkNodeP_deps_fresh (b : PBdd) (v lo hi : Nat) (hne : lo ≠ hi) (hf : b.st.uniq[(⟨v, lo, hi⟩ : Node)]? = none) :
    (mkNodeP b v lo hi).1.deps = nodeDeps b.deps ⟨v, lo, hi⟩ := by
  unfold mkNodeP; rw [if_neg hne, hf]; rfl

/-! ## the ADF and the web service's DTO -/

structure PAdf where
  names : List String       -- `ordering` (`VarContainer.names`; `mapping` is its inverse)
  bdd : PBdd
  ac : List Nat

structure ExportedAdf where
  names : List String
  bdd : Exported
  ac : List Nat

def exportA (a : PAdf) : ExportedAdf := { names := a.names, bdd := exportB a.bdd, ac := a.ac }
def importA (e : ExportedAdf) : PAdf := { names := e.names, bdd := importB e.bdd, ac := e.ac }
/-- `Adf::fix_import` -/
def fixImportA (a : PAdf) : PAdf := { a with bdd := fixImport a.bdd }

/-- decimal rendering and parsing of `usize` (`to_string` / `str::parse`), as an assumption -/
structure Codec where
  enc : Nat → String
  dec : String → Option Nat
  ok : ∀ n, dec (enc n) = some n

/-- `SimplifiedAdf`: everything is a string in the database -/
structure Simplified where
  names : List String
  bdd : List (String × String × String)
  ac : List String

/-- `impl From<Adf> for SimplifiedAdf` -/
def toSimplified (c : Codec) (a : PAdf) : Simplified :=
  { names := a.names,
    bdd := a.bdd.st.nodes.toList.map (fun n => (c.enc n.var, c.enc n.lo, c.enc n.hi)),
    ac := a.ac.map c.enc }

def decNode (c : Codec) (x : String × String × String) : Option Node := do
  let v ← c.dec x.1
  let l ← c.dec x.2.1
  let h ← c.dec x.2.2
  pure ⟨v, l, h⟩

/-- `impl From<SimplifiedAdf> for Adf`: parse, `Bdd::from(nodes)`, `Adf::from((ordering, bdd, ac))`;
`none` is the panic of `unwrap` on a string that does not parse -/
def fromSimplified (c : Codec) (d : Simplified) : Option PAdf := do
  let nodes ← d.bdd.mapM (decNode c)
  let ac ← d.ac.mapM c.dec
  pure { names := d.names, bdd := rebuildP nodes.toArray, ac := ac }

theorem mapM_map_some {α β : Type} (f : α → β) (g : β → Option α) (h : ∀ x, g (f x) = some x) :
    ∀ l : List α, (l.map f).mapM g = some l := by
  intro l
  induction l with
  | nil => rfl
  | cons x l ih => simp [List.mapM_cons, h, ih]

theorem simplified_roundtrip (c : Codec) (a : PAdf) :
    fromSimplified c (toSimplified c a) = some { names := a.names, bdd := rebuildP a.bdd.st.nodes, ac := a.ac } := by
  unfold fromSimplified toSimplified
  have h1 : (a.bdd.st.nodes.toList.map (fun n => (c.enc n.var, c.enc n.lo, c.enc n.hi))).mapM (decNode c) =
      some a.bdd.st.nodes.toList :=
    mapM_map_some _ _ (fun n => by simp [decNode, c.ok]) _
  have h2 : (a.ac.map c.enc).mapM c.dec = some a.ac := mapM_map_some _ _ c.ok _
  simp only [h1, h2]
  rfl

/-! ## the Boolean functions of the acceptance conditions: what every semantics is a function of -/

def acFns (s : Store) (ac : List Nat) : List BoolFn := ac.map (eval s)

theorem acFns_same {s s' : Store} (h : s'.nodes = s.nodes) (ac : List Nat) : acFns s' ac = acFns s ac := by
  unfold acFns
  apply List.map_congr_left
  intro t _
  funext σ
  exact eval_congr h t σ

/-! ## CLI `--export` -/

inductive ExportAct where
  | skip    -- the path exists: log an error, write nothing
  | write   -- create the file and write the JSON
deriving DecidableEq, Repr

def exportAction (pathExists : Bool) : ExportAct := if pathExists then .skip else .write

/-- the file system as far as `--export PATH` is concerned -/
def cliExport (fs : String → Option String) (path content : String) : String → Option String :=
  match exportAction (fs path).isSome with
  | .skip => fs
  | .write => fun p => if p = path then some content else fs p

end Persist
