import AdfObdd.Spec.TT
import AdfObdd.CountsMore
/-! The executable truth-table specification `Spec/TT.lean` means what it says: a table `t`
    over `nv` variables *represents* a Boolean function `f` (`TT.Rep nv t f`: bit `a` of `t` is
    `f` at the assignment whose variable `x` is bit `x` of `a`, and no bit ≥ `2^nv` is set);
    the table operations represent the corresponding operations on functions, `TT.restrict` is
    the cofactor, `TT.essential` decides `Essential`, `TT.sat` / `TT.unsat` are the Shannon
    counts `sat` of `Counts.lean` over the variables `0 … nv-1` in any order.
    (`TT.depth` / `TT.paths`, which describe the reduced ordered diagram of the function, are
    not covered here.) -/
namespace TT

/-- the assignment coded by the number `a` -/
def bitsAsg (a : Nat) : Asg := fun x => a.testBit x

/-- `f` looks at the variables `0 … nv-1` only -/
def DetBy (nv : Nat) (f : BoolFn) : Prop := ∀ σ σ' : Asg, (∀ x, x < nv → σ x = σ' x) → f σ = f σ'

/-- table `t` represents function `f` over `nv` variables -/
def Rep (nv t : Nat) (f : BoolFn) : Prop := ∀ a, t.testBit a = (decide (a < 2 ^ nv) && f (bitsAsg a))

/-! ### `ofFn` -/

theorem foldl_setbits (f : Nat → Bool) : ∀ (l : List Nat) (acc a : Nat),
    (l.foldl (fun acc a => if f a then acc ||| (1 <<< a) else acc) acc).testBit a =
      (acc.testBit a || (decide (a ∈ l) && f a)) := by
  intro l
  induction l with
  | nil => intro acc a; simp
  | cons x l ih =>
    intro acc a
    rw [List.foldl_cons, ih]
    by_cases hax : a = x
    · subst hax
      by_cases hf : f a = true
      · simp [hf, Nat.testBit_or, Nat.one_shiftLeft]
      · simp [hf]
    · have hxa : ¬ x = a := fun h => hax h.symm
      by_cases hf : f x = true
      · simp [hf, Nat.testBit_or, Nat.one_shiftLeft, hax, hxa]
      · simp [hf, hax]

/-- bit `a` of `ofFn nv f` is `f a`, for `a < 2^nv`, and nothing else is set -/
theorem ofFn_testBit (nv : Nat) (f : Nat → Bool) (a : Nat) :
    (ofFn nv f).testBit a = (decide (a < 2 ^ nv) && f a) := by
  unfold ofFn size
  rw [foldl_setbits]
  simp [List.mem_range]

theorem rep_ofFn (nv : Nat) (f : BoolFn) : Rep nv (ofFn nv (fun a => f (bitsAsg a))) f :=
  fun a => ofFn_testBit nv _ a

/-- a function has one table -/
theorem rep_unique {nv t t' : Nat} {f f' : BoolFn} (h : Rep nv t f) (h' : Rep nv t' f')
    (hff : ∀ a, a < 2 ^ nv → f (bitsAsg a) = f' (bitsAsg a)) : t = t' := by
  apply Nat.eq_of_testBit_eq
  intro a
  rw [h a, h' a]
  by_cases ha : a < 2 ^ nv
  · simp [ha, hff a ha]
  · simp [ha]

/-! ### the connectives -/

theorem mask_testBit (nv a : Nat) : (mask nv).testBit a = decide (a < 2 ^ nv) :=
  Nat.testBit_two_pow_sub_one _ _

theorem rep_var (nv v : Nat) : Rep nv (var nv v) (fun σ => σ v) := fun a => ofFn_testBit nv _ a

theorem rep_const (nv : Nat) (b : Bool) : Rep nv (const nv b) (fun _ => b) := by
  intro a
  cases b
  · simp [const]
  · simp [const, mask_testBit]

theorem rep_not {nv t : Nat} {f : BoolFn} (h : Rep nv t f) : Rep nv (not nv t) (fun σ => !f σ) := by
  intro a
  simp only [not, Nat.testBit_xor, mask_testBit, h a]
  cases decide (a < 2 ^ nv) <;> cases f (bitsAsg a) <;> rfl

theorem rep_and {nv t u : Nat} {f g : BoolFn} (h : Rep nv t f) (k : Rep nv u g) :
    Rep nv (and t u) (fun σ => f σ && g σ) := by
  intro a
  simp only [and, Nat.testBit_and, h a, k a]
  cases decide (a < 2 ^ nv) <;> cases f (bitsAsg a) <;> cases g (bitsAsg a) <;> rfl

theorem rep_or {nv t u : Nat} {f g : BoolFn} (h : Rep nv t f) (k : Rep nv u g) :
    Rep nv (or t u) (fun σ => f σ || g σ) := by
  intro a
  simp only [or, Nat.testBit_or, h a, k a]
  cases decide (a < 2 ^ nv) <;> cases f (bitsAsg a) <;> cases g (bitsAsg a) <;> rfl

theorem rep_xor {nv t u : Nat} {f g : BoolFn} (h : Rep nv t f) (k : Rep nv u g) :
    Rep nv (xor t u) (fun σ => f σ != g σ) := by
  intro a
  simp only [xor, Nat.testBit_xor, h a, k a]
  cases decide (a < 2 ^ nv) <;> cases f (bitsAsg a) <;> cases g (bitsAsg a) <;> rfl

theorem rep_imp {nv t u : Nat} {f g : BoolFn} (h : Rep nv t f) (k : Rep nv u g) :
    Rep nv (imp nv t u) (fun σ => !f σ || g σ) := rep_or (rep_not h) k

theorem rep_iff {nv t u : Nat} {f g : BoolFn} (h : Rep nv t f) (k : Rep nv u g) :
    Rep nv (iff nv t u) (fun σ => f σ == g σ) := by
  intro a
  have := rep_not (rep_xor h k) a
  simp only [iff]
  rw [show TT.not nv (t ^^^ u) = TT.not nv (TT.xor t u) from rfl, this]
  dsimp only
  cases decide (a < 2 ^ nv) <;> cases f (bitsAsg a) <;> cases g (bitsAsg a) <;> rfl

theorem rep_ite {nv i t e : Nat} {fi ft fe : BoolFn} (hi : Rep nv i fi) (ht : Rep nv t ft) (he : Rep nv e fe) :
    Rep nv (ite nv i t e) (fun σ => if fi σ then ft σ else fe σ) := by
  intro a
  have := rep_or (rep_and hi ht) (rep_and (rep_not hi) he) a
  simp only [ite]
  rw [show (i &&& t) ||| (TT.not nv i &&& e) = TT.or (TT.and i t) (TT.and (TT.not nv i) e) from rfl, this]
  dsimp only
  cases decide (a < 2 ^ nv) <;> cases fi (bitsAsg a) <;> cases ft (bitsAsg a) <;> cases fe (bitsAsg a) <;> rfl

/-! ### `restrict` is the cofactor -/

/-- clearing a set bit by subtraction -/
theorem testBit_sub_two_pow (a v : Nat) (hv : a.testBit v = true) (j : Nat) :
    (a - 2 ^ v).testBit j = (if j = v then false else a.testBit j) := by
  have hdm := Nat.div_add_mod a (2 ^ (v+1))
  generalize hq : a / 2 ^ (v+1) = q at hdm
  have hlo_lt : a % 2 ^ (v+1) < 2 ^ (v+1) := Nat.mod_lt _ (Nat.pow_pos (by decide))
  have hlo_bit : (a % 2 ^ (v+1)).testBit v = true := by
    rw [Nat.testBit_mod_two_pow]; simp [hv]
  generalize hl : a % 2 ^ (v+1) = lo at *
  have hp : 2 ^ (v+1) = 2 * 2 ^ v := by rw [Nat.pow_succ]; omega
  have hge : 2 ^ v ≤ lo := by
    rcases Nat.lt_or_ge lo (2 ^ v) with h | h
    · rw [Nat.testBit_lt_two_pow h] at hlo_bit; cases hlo_bit
    · exact h
  have hr_lt : lo - 2 ^ v < 2 ^ v := by omega
  have e1 : a - 2 ^ v = 2 ^ (v+1) * q + (lo - 2 ^ v) := by omega
  have e2 : a = 2 ^ (v+1) * q + lo := hdm.symm
  have hr_lt' : lo - 2 ^ v < 2 ^ (v+1) := by omega
  rw [e1, Nat.testBit_two_pow_mul_add q hr_lt' j]
  conv => rhs; rw [e2, Nat.testBit_two_pow_mul_add q hlo_lt j]
  by_cases hjv : j = v
  · subst hjv
    rw [if_pos (Nat.lt_succ_self _), if_pos rfl]
    exact Nat.testBit_lt_two_pow hr_lt
  · rw [if_neg hjv]
    by_cases hlt : j < v + 1
    · rw [if_pos hlt, if_pos hlt]
      have hjlt : j < v := by omega
      have : lo = 2 ^ v + (lo - 2 ^ v) := by omega
      conv => rhs; rw [this, Nat.testBit_two_pow_add_gt hjlt]
    · rw [if_neg hlt, if_neg hlt]

/-- the index `restrict` reads: `a` with bit `v` forced to `b` -/
def forceBit (a v : Nat) (b : Bool) : Nat :=
  if b then a ||| (1 <<< v) else (if a.testBit v then a - (1 <<< v) else a)

theorem forceBit_testBit (a v : Nat) (b : Bool) (j : Nat) :
    (forceBit a v b).testBit j = (if j = v then b else a.testBit j) := by
  unfold forceBit
  cases b with
  | true =>
    simp only [if_true, Nat.testBit_or, Nat.one_shiftLeft, Nat.testBit_two_pow]
    by_cases hjv : j = v
    · subst hjv; simp
    · have : ¬ v = j := fun h => hjv h.symm
      simp [hjv, this]
  | false =>
    simp only [Bool.false_eq_true, if_false]
    by_cases hb : a.testBit v = true
    · rw [if_pos hb, Nat.one_shiftLeft, testBit_sub_two_pow a v hb j]
    · rw [if_neg hb]
      by_cases hjv : j = v
      · subst hjv; simp only [if_true]; simpa using hb
      · rw [if_neg hjv]

theorem bitsAsg_forceBit (a v : Nat) (b : Bool) : bitsAsg (forceBit a v b) = upd (bitsAsg a) v b := by
  funext x
  simp only [bitsAsg, upd, forceBit_testBit]

theorem forceBit_lt {nv a v : Nat} (b : Bool) (ha : a < 2 ^ nv) (hv : v < nv) : forceBit a v b < 2 ^ nv := by
  apply Nat.lt_pow_two_of_testBit
  intro i hi
  rw [forceBit_testBit, if_neg (by omega)]
  exact Nat.testBit_lt_two_pow (Nat.lt_of_lt_of_le ha (Nat.pow_le_pow_right (by decide) hi))

/-- `TT.restrict` is the cofactor -/
theorem rep_restrict {nv t : Nat} {f : BoolFn} (h : Rep nv t f) (v : Nat) (b : Bool) (hv : v < nv) :
    Rep nv (restrict nv t v b) (fun σ => f (upd σ v b)) := by
  intro a
  have : restrict nv t v b = ofFn nv (fun a => t.testBit (forceBit a v b)) := rfl
  rw [this, ofFn_testBit]
  by_cases ha : a < 2 ^ nv
  · simp only [ha, decide_true, Bool.true_and]
    rw [h (forceBit a v b), bitsAsg_forceBit]
    simp [forceBit_lt b ha hv]
  · simp [ha]

/-! ### numbers for assignments -/

/-- the number whose bits `0 … nv-1` are the values of `σ` -/
def numOf (nv : Nat) (σ : Asg) : Nat :=
  (List.range nv).foldl (fun acc x => if σ x then acc ||| (1 <<< x) else acc) 0

theorem numOf_testBit (nv : Nat) (σ : Asg) (x : Nat) : (numOf nv σ).testBit x = (decide (x < nv) && σ x) := by
  unfold numOf
  rw [foldl_setbits]
  simp [List.mem_range]

theorem numOf_lt (nv : Nat) (σ : Asg) : numOf nv σ < 2 ^ nv := by
  apply Nat.lt_pow_two_of_testBit
  intro i hi
  rw [numOf_testBit]
  have : ¬ i < nv := by omega
  simp [this]

theorem bitsAsg_numOf (nv : Nat) (σ : Asg) (x : Nat) (hx : x < nv) : bitsAsg (numOf nv σ) x = σ x := by
  simp [bitsAsg, numOf_testBit, hx]

/-! ### `essential` decides `Essential` -/

theorem essential_iff {nv t : Nat} {f : BoolFn} (h : Rep nv t f) (hd : DetBy nv f) (v : Nat) :
    essential nv t v = true ↔ Essential f v := by
  unfold essential
  constructor
  · intro he
    simp only [Bool.and_eq_true, decide_eq_true_eq, bne_iff_ne, ne_eq] at he
    obtain ⟨hv, hne⟩ := he
    false_or_by_contra
    rename_i hcon
    apply hne
    apply rep_unique (rep_restrict h v true hv) (rep_restrict h v false hv)
    intro a _
    false_or_by_contra
    rename_i hd'
    exact hcon ⟨bitsAsg a, hd'⟩
  · intro ⟨σ, hσ⟩
    have hv : v < nv := by
      false_or_by_contra
      rename_i hge
      apply hσ
      apply hd
      intro x hx
      have : x ≠ v := by omega
      simp [upd, this]
    simp only [Bool.and_eq_true, decide_eq_true_eq, bne_iff_ne, ne_eq]
    refine ⟨hv, ?_⟩
    intro heq
    apply hσ
    have h1 := rep_restrict h v true hv (numOf nv σ)
    have h2 := rep_restrict h v false hv (numOf nv σ)
    rw [heq, h2] at h1
    simp only [numOf_lt, decide_true, Bool.true_and] at h1
    have agree : ∀ b, f (upd σ v b) = f (upd (bitsAsg (numOf nv σ)) v b) := by
      intro b
      apply hd
      intro x hx
      simp only [upd]
      split
      · rfl
      · exact (bitsAsg_numOf nv σ x hx).symm
    rw [agree true, agree false]
    exact h1.symm

/-- `TT.deps` lists exactly the essential variables -/
theorem mem_deps_iff {nv t : Nat} {f : BoolFn} (h : Rep nv t f) (hd : DetBy nv f) (v : Nat) :
    v ∈ deps nv t ↔ Essential f v := by
  unfold deps
  rw [List.mem_filter, essential_iff h hd]
  constructor
  · exact fun h => h.2
  · intro he
    refine ⟨?_, he⟩
    have := (essential_iff h hd v).mpr he
    simp only [essential, Bool.and_eq_true, decide_eq_true_eq] at this
    exact List.mem_range.mpr this.1

/-! ### `sat` is the Shannon count -/

/-- assignment with the bits of `a` on the variables `< n` and `base` elsewhere -/
def merge (base : Asg) (a n : Nat) : Asg := fun x => if x < n then a.testBit x else base x

theorem count_split (n : Nat) (g : Nat → Bool) :
    ((List.range (2 ^ (n+1))).filter g).length =
      ((List.range (2 ^ n)).filter g).length + ((List.range (2 ^ n)).filter (fun a => g (2 ^ n + a))).length := by
  have : 2 ^ (n+1) = 2 ^ n + 2 ^ n := by rw [Nat.pow_succ]; omega
  rw [this, List.range_add, List.filter_append, List.length_append, List.filter_map, List.length_map]
  rfl

theorem count_eq_sat : ∀ (n : Nat) (g : Nat → Bool) (f : BoolFn) (base : Asg),
    (∀ a, a < 2 ^ n → g a = f (merge base a n)) →
    ((List.range (2 ^ n)).filter g).length = _root_.sat f base (List.range n).reverse := by
  intro n
  induction n with
  | zero =>
    intro g f base hg
    have h0 := hg 0 (by simp)
    have : merge base 0 0 = base := by funext x; simp [merge]
    rw [this] at h0
    simp only [Nat.pow_zero, List.range_one, List.range_zero, List.reverse_nil, _root_.sat]
    by_cases hb : f base = true
    · simp [List.filter, h0, hb]
    · simp [List.filter, h0, hb]
  | succ n ih =>
    intro g f base hg
    rw [count_split, List.range_succ, List.reverse_append, List.reverse_singleton, List.singleton_append]
    simp only [_root_.sat]
    have hlow : ((List.range (2 ^ n)).filter g).length = _root_.sat f (upd base n false) (List.range n).reverse := by
      apply ih
      intro a ha
      rw [hg a (by rw [Nat.pow_succ]; omega)]
      congr 1
      funext x
      simp only [merge, upd]
      by_cases hx : x < n
      · simp [hx, Nat.lt_succ_of_lt hx]
      · by_cases hxn : x = n
        · subst hxn; simp [Nat.testBit_lt_two_pow ha]
        · have : ¬ x < n + 1 := by omega
          simp [hx, hxn, this]
    have hhigh : ((List.range (2 ^ n)).filter (fun a => g (2 ^ n + a))).length =
        _root_.sat f (upd base n true) (List.range n).reverse := by
      apply ih
      intro a ha
      rw [hg (2 ^ n + a) (by rw [Nat.pow_succ]; omega)]
      congr 1
      funext x
      simp only [merge, upd]
      by_cases hx : x < n
      · simp [hx, Nat.lt_succ_of_lt hx, Nat.testBit_two_pow_add_gt hx]
      · by_cases hxn : x = n
        · subst hxn; simp [Nat.testBit_two_pow_add_eq, Nat.testBit_lt_two_pow ha]
        · have : ¬ x < n + 1 := by omega
          simp [hx, hxn, this]
    rw [hlow, hhigh]; omega

/-- the Shannon count does not depend on the order of the variables -/
theorem sat_perm (f : BoolFn) : ∀ {l l' : List Nat}, l.Perm l' → ∀ base, _root_.sat f base l = _root_.sat f base l' := by
  intro l l' hp
  induction hp with
  | nil => intro _; rfl
  | cons x _ ih => intro base; simp only [_root_.sat, ih]
  | swap x y l =>
    intro base
    simp only [_root_.sat]
    by_cases hxy : x = y
    · subst hxy; omega
    · rw [upd_comm' base hxy true true, upd_comm' base hxy true false, upd_comm' base hxy false true,
          upd_comm' base hxy false false]
      omega
  | trans _ _ ih1 ih2 => intro base; rw [ih1, ih2]

/-- `TT.sat` is the number of satisfying assignments to the variables `0 … nv-1`, in any order -/
theorem sat_eq {nv t : Nat} {f : BoolFn} (h : Rep nv t f) (hd : DetBy nv f) (vs : List Nat)
    (hvs : vs.Perm (List.range nv)) (base : Asg) : TT.sat nv t = _root_.sat f base vs := by
  rw [sat_perm f (hvs.trans (List.reverse_perm _).symm) base]
  unfold TT.sat size
  apply count_eq_sat
  intro a ha
  rw [h a]
  simp only [ha, decide_true, Bool.true_and]
  apply hd
  intro x hx
  simp [bitsAsg, merge, hx]

theorem sat_le {nv t : Nat} {f : BoolFn} (h : Rep nv t f) (hd : DetBy nv f) : TT.sat nv t ≤ 2 ^ nv := by
  have := sat_eq h hd (List.range nv) (List.Perm.refl _) (fun _ => false)
  have hc := sat_compl f (List.range nv) (fun _ => false)
  rw [List.length_range] at hc
  omega

/-- `TT.unsat` is the number of falsifying assignments -/
theorem unsat_eq {nv t : Nat} {f : BoolFn} (h : Rep nv t f) (hd : DetBy nv f) (vs : List Nat)
    (hvs : vs.Perm (List.range nv)) (base : Asg) : TT.unsat nv t = _root_.sat (fun σ => !f σ) base vs := by
  have hs := sat_eq h hd vs hvs base
  have hc := sat_compl f vs base
  have hl : vs.length = nv := by rw [hvs.length_eq, List.length_range]
  unfold TT.unsat size
  rw [hl] at hc
  omega

/-- non-vacuity: the table of x0 ∧ ¬x1 over two variables represents that function, which looks at
the first two variables only; its table is 0b0010 -/
example : Rep 2 (and (var 2 0) (not 2 (var 2 1))) (fun σ => σ 0 && !σ 1) ∧
    DetBy 2 (fun σ => σ 0 && !σ 1) ∧ and (var 2 0) (not 2 (var 2 1)) = 2 := by
  refine ⟨rep_and (rep_var 2 0) (rep_not (rep_var 2 1)), ?_, by decide⟩
  intro σ σ' hag
  simp only [hag 0 (by decide), hag 1 (by decide)]

end TT

#print axioms TT.ofFn_testBit
#print axioms TT.rep_restrict
#print axioms TT.essential_iff
#print axioms TT.mem_deps_iff
#print axioms TT.sat_eq
#print axioms TT.unsat_eq
