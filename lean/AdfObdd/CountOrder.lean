import AdfObdd.CountExact
import AdfObdd.NgOrder
import AdfObdd.CubesCanon
import AdfObdd.CountSearchRel
/-! # The counting searches list their models in an order that depends on the FUNCTIONS only

Two well-formed stores `s`, `s'` with condition vectors `ac`, `ac'` that denote the same functions (different node
tables, different handle numbers - e.g. after an arbitrary call history vs. freshly built).  `countAll` (both
heuristics) emits the same decided parts IN THE SAME ORDER on both (`countAll_order`).

Proof: the two runs of `GK.search (countParams ..)` are in lock step (`GK.search_rel`) for the relation
"the interpretation vectors are valid and denote the same functions, the `will_be` vectors have the same decided
parts": the pick reads positions, decidedness, path counts and dependency sets (functions of the denotations:
`paths_den`, `deps_exact`); the goal reads path counts; the cube list is canonical (`CubesCanon.cubesF_den`); the
cube step, the flip step and the leaf compute restrictions (denotation-level specifications `mapS_spec`) and test
decided parts.  The stability filter afterwards tests `Chk`, a predicate of the conditions' functions and of the
candidate's decided part. -/
namespace CI.Rel
open CI NConc.Ord

/-! ## related handles and vectors -/

def HR (s s' : Store) (t t' : Nat) : Prop := t < s.nodes.size ∧ t' < s'.nodes.size ∧ eval s t = eval s' t'

def VR (s s' : Store) (v v' : List Nat) : Prop := AllLt s v ∧ AllLt s' v' ∧ v.map (eval s) = v'.map (eval s')

variable {s s' : Store}

theorem HR.sic (w : WF s) (w' : WF s') {t t' : Nat} (h : HR s s' t t') : storeIsConst t = storeIsConst t' := by
  rw [sic_constOf w h.1, sic_constOf w' h.2.1, h.2.2]

theorem HR.const (w : WF s) (w' : WF s') {t : Nat} (ht : t < 2) : HR s s' t t := by
  refine ⟨by have := w.len; omega, by have := w'.len; omega, ?_⟩
  funext σ
  rw [CubesCanon.eval_lt2 s t ht, CubesCanon.eval_lt2 s' t ht]

theorem VR.length {v v' : List Nat} (h : VR s s' v v') : v.length = v'.length := by
  simpa using congrArg List.length h.2.2

theorem VR.getD (w : WF s) (w' : WF s') {v v' : List Nat} (h : VR s s' v v') (i : Nat) :
    HR s s' (v.getD i 0) (v'.getD i 0) := by
  have e := congrArg (·[i]?) h.2.2
  simp only [List.getElem?_map] at e
  rw [List.getD_eq_getElem?_getD, List.getD_eq_getElem?_getD]
  cases hi : v[i]? with
  | none =>
    cases hi' : v'[i]? with
    | none => exact HR.const w w' (by show (0:Nat) < 2; omega)
    | some b => rw [hi, hi'] at e; cases e
  | some a =>
    cases hi' : v'[i]? with
    | none => rw [hi, hi'] at e; cases e
    | some b =>
      rw [hi, hi'] at e
      exact ⟨h.1 a (List.mem_of_getElem? hi), h.2.1 b (List.mem_of_getElem? hi'), Option.some.inj e⟩

theorem d3_den (w : WF s) {v : List Nat} (hv : AllLt s v) : d3 v = (v.map (eval s)).map constOf := by
  rw [d3_eq_asg3, asg3_eq StoreRA w hv]; rfl

theorem VR.d3 (w : WF s) (w' : WF s') {v v' : List Nat} (h : VR s s' v v') : d3 v = d3 v' := by
  rw [d3_den w h.1, d3_den w' h.2.1, h.2.2]

theorem VR.set {v v' : List Nat} (h : VR s s' v v') {a a' : Nat} (ha : HR s s' a a') (i : Nat) :
    VR s s' (v.set i a) (v'.set i a') := by
  refine ⟨?_, ?_, ?_⟩
  · intro t ht
    rcases List.mem_or_eq_of_mem_set ht with h1 | h1
    · exact h.1 t h1
    · rw [h1]; exact ha.1
  · intro t ht
    rcases List.mem_or_eq_of_mem_set ht with h1 | h1
    · exact h.2.1 t h1
    · rw [h1]; exact ha.2.1
  · rw [List.map_set, List.map_set, h.2.2, ha.2.2]

theorem VR.mono (w : WF s) (w' : WF s') {v v' : List Nat} (h : VR s s' v v') {s1 s1' : Store} (e : Ext s s1)
    (e' : Ext s' s1') : VR s1 s1' v v' :=
  ⟨h.1.mono e, h.2.1.mono e', by rw [map_eval_ext w e h.1, map_eval_ext w' e' h.2.1, h.2.2]⟩

/-! ## the store-threading maps -/

theorem mapS_den {f : Store → Nat → Store × Nat} {φ : Asg → Asg} (hf : Computes f φ) (xs : List Nat) (s : Store)
    (w : WF s) (hv : AllLt s xs) :
    WF (mapS f s xs).1 ∧ Ext s (mapS f s xs).1 ∧ AllLt (mapS f s xs).1 (mapS f s xs).2 ∧
    (mapS f s xs).2.map (eval (mapS f s xs).1) = (xs.map (eval s)).map (fun h σ => h (φ σ)) := by
  have ⟨w1, e1, l1, d1⟩ := mapS_spec hf xs s w hv
  generalize mapS f s xs = red at *
  refine ⟨w1, e1, ?_, ?_⟩
  · intro t ht
    obtain ⟨j, hj⟩ := List.mem_iff_getElem?.mp ht
    have hjl : j < xs.length := by rw [← l1]; exact get_lt hj
    obtain ⟨t', h1, h2, _⟩ := d1 j xs[j] (List.getElem?_eq_getElem hjl)
    rw [h1] at hj; cases hj; exact h2
  · apply List.ext_getElem?
    intro j
    simp only [List.getElem?_map]
    cases hj : xs[j]? with
    | none =>
      have : red.2[j]? = none := by
        apply List.getElem?_eq_none
        rw [l1]
        rcases Nat.lt_or_ge j xs.length with h' | h'
        · rw [List.getElem?_eq_getElem h'] at hj; cases hj
        · exact h'
      simp [this]
    | some t =>
      obtain ⟨t', h1, _, h3⟩ := d1 j t hj
      simp only [h1, Option.map_some, Option.some.injEq]
      funext σ; exact h3 σ

/-- what a related pair of map results satisfies -/
structure MapOut (s s' : Store) (r r' : Store × List Nat) : Prop where
  wf : WF r.1
  wf' : WF r'.1
  ext : Ext s r.1
  ext' : Ext s' r'.1
  vr : VR r.1 r'.1 r.2 r'.2

theorem mapS_rel {f f' : Store → Nat → Store × Nat} {φ : Asg → Asg} (hf : Computes f φ) (hf' : Computes f' φ)
    (w : WF s) (w' : WF s') {xs xs' : List Nat} (h : VR s s' xs xs') :
    MapOut s s' (mapS f s xs) (mapS f' s' xs') := by
  have ⟨a1, a2, a3, a4⟩ := mapS_den hf xs s w h.1
  have ⟨b1, b2, b3, b4⟩ := mapS_den hf' xs' s' w' h.2.1
  exact ⟨a1, b1, a2, b2, a3, b3, by rw [a4, b4, h.2.2]⟩

theorem applyVec_rel (w : WF s) (w' : WF s') {interp interp' xs xs' : List Nat} (hd : d3 interp = d3 interp')
    (h : VR s s' xs xs') : MapOut s s' (applyVec s interp xs) (applyVec s' interp' xs') := by
  rw [applyVec_eq, applyVec_eq]
  have c' := computes_restrictBy interp'
  rw [← hd] at c'
  exact mapS_rel (computes_restrictBy interp) c' w w' h

theorem mapRestrict_rel (w : WF s) (w' : WF s') (v : Nat) (b : Bool) {xs xs' : List Nat}
    (h : VR s s' xs xs') : MapOut s s' (mapRestrict s v b xs) (mapRestrict s' v b xs') := by
  rw [mapRestrict_eq, mapRestrict_eq]
  exact mapS_rel (computes_restrictF v b) (computes_restrictF v b) w w' h

/-! ## decided parts -/

theorem beq_one (t : Nat) : (t == 1) = (storeIsConst t == some true) := by
  unfold storeIsConst
  by_cases h0 : t = 0
  · subst h0; rfl
  · by_cases h1 : t = 1
    · subst h1; rfl
    · simp [h0, h1]

theorem beq_zero (t : Nat) : (t == 0) = (storeIsConst t == some false) := by
  unfold storeIsConst
  by_cases h0 : t = 0
  · subst h0; rfl
  · by_cases h1 : t = 1
    · subst h1; rfl
    · simp [h0, h1]

theorem sic_getD2 (wb : List Nat) (i : Nat) : storeIsConst (wb.getD i 2) = ((d3 wb)[i]?).getD none := by
  rw [d3_get, List.getD_eq_getElem?_getD]
  cases wb[i]? <;> rfl

theorem d3_getD2 {wb wb' : List Nat} (h : d3 wb = d3 wb') (i : Nat) :
    storeIsConst (wb.getD i 2) = storeIsConst (wb'.getD i 2) := by
  rw [sic_getD2, sic_getD2, h]

theorem d3_set (v : List Nat) (i a : Nat) : d3 (v.set i a) = (d3 v).set i (storeIsConst a) := by
  simp [d3, List.map_set]

theorem consistent_d3 (v wb : List Nat) :
    consistentWith v wb = ((d3 v).zip (d3 wb)).all (fun p => (p.2 == p.1) || !p.2.isSome) := by
  unfold consistentWith d3
  rw [List.zip_map, List.all_map]
  congr 1
  funext ⟨a, b⟩
  simp only [Function.comp, Prod.map, noInfIncons, sameInfo, isTV_sic]

theorem consistent_rel {v v' wb wb' : List Nat} (h1 : d3 v = d3 v') (h2 : d3 wb = d3 wb') :
    consistentWith v wb = consistentWith v' wb' := by
  rw [consistent_d3, consistent_d3, h1, h2]

theorem noInf_rel {a a' b b' : Nat} (ha : storeIsConst a = storeIsConst a') (hb : storeIsConst b = storeIsConst b') :
    noInfIncons a b = noInfIncons a' b' := by
  simp only [noInfIncons, sameInfo, isTV_sic, ha, hb]

/-! ## the cube closure -/

def OR (s s' : Store) : Option (List Nat) → Option (List Nat) → Prop
  | none, none => True
  | some a, some a' => VR s s' a a'
  | _, _ => False

theorem negLoop_rel (w : WF s) (w' : WF s') {wb wb' : List Nat} (hwb : d3 wb = d3 wb') :
    ∀ (vs ni ni' : List Nat), VR s s' ni ni' → OR s s' (negLoop wb vs ni) (negLoop wb' vs ni') := by
  intro vs
  induction vs with
  | nil => intro ni ni' h; exact h
  | cons v vs ih =>
    intro ni ni' h
    simp only [negLoop]
    have c : (ni.getD v 0 == 1 || wb.getD v 2 == 1) = (ni'.getD v 0 == 1 || wb'.getD v 2 == 1) := by
      rw [beq_one, beq_one (wb.getD v 2), beq_one (ni'.getD v 0), beq_one (wb'.getD v 2),
        (h.getD w w' v).sic w w', d3_getD2 hwb v]
    rw [c]
    split
    · trivial
    · exact ih _ _ (h.set (HR.const w w' (by omega)) v)

theorem posLoop_rel (w : WF s) (w' : WF s') {wb wb' : List Nat} (hwb : d3 wb = d3 wb') :
    ∀ (vs ni ni' : List Nat), VR s s' ni ni' → OR s s' (posLoop wb vs ni) (posLoop wb' vs ni') := by
  intro vs
  induction vs with
  | nil => intro ni ni' h; exact h
  | cons v vs ih =>
    intro ni ni' h
    simp only [posLoop]
    have c : ((isTV (ni.getD v 0) && ni.getD v 0 != 1) || wb.getD v 2 == 0) =
        ((isTV (ni'.getD v 0) && ni'.getD v 0 != 1) || wb'.getD v 2 == 0) := by
      simp only [bne, isTV_sic]
      rw [beq_one, beq_zero (wb.getD v 2), beq_one (ni'.getD v 0), beq_zero (wb'.getD v 2),
        (h.getD w w' v).sic w w', d3_getD2 hwb v]
    rw [c]
    split
    · trivial
    · exact ih _ _ (h.set (HR.const w w' (by omega)) v)

theorem applyCube_rel (w : WF s) (w' : WF s') {wb wb' ni ni' : List Nat} (hwb : d3 wb = d3 wb') (h : VR s s' ni ni')
    (cu : PCube) : OR s s' (applyCube ni wb cu) (applyCube ni' wb' cu) := by
  unfold applyCube
  have h1 := negLoop_rel w w' hwb cu.1 ni ni' h
  cases e : negLoop wb cu.1 ni with
  | none =>
    cases e' : negLoop wb' cu.1 ni' with
    | none => trivial
    | some b => rw [e, e'] at h1; exact h1.elim
  | some a =>
    cases e' : negLoop wb' cu.1 ni' with
    | none => rw [e, e'] at h1; exact h1.elim
    | some b =>
      rw [e, e'] at h1
      exact posLoop_rel w w' hwb cu.2 a b h1

/-! ## the pick is a function of the denotations and of the decided part of `will_be` -/

open Classical in
noncomputable def activeK (v : Nat) (fs : List BoolFn) : Nat :=
  ((List.range fs.length).filter (fun i => decide (Essential (fs.getD v (fun _ => false)) i))).length

theorem active_den (w : WF s) {interp : List Nat} (hv : AllLt s interp) (v : Nat) :
    active s v interp = activeK v (interp.map (eval s)) := by
  have hh : interp.getD v 0 < s.nodes.size ∧
      (interp.map (eval s)).getD v (fun _ => false) = eval s (interp.getD v 0) := by
    rw [List.getD_eq_getElem?_getD, List.getD_eq_getElem?_getD, List.getElem?_map]
    cases hi : interp[v]? with
    | none =>
      refine ⟨by have := w.len; show 0 < _; omega, ?_⟩
      funext σ; show false = eval s 0 σ; rw [eval_zero]
    | some a => exact ⟨hv a (List.mem_of_getElem? hi), rfl⟩
  unfold active activeK
  rw [List.length_map]
  congr 1
  apply List.filter_congr
  intro i _
  rw [Bool.eq_iff_iff]
  simp only [List.contains_iff_mem, decide_eq_true_eq]
  rw [hh.2]
  exact deps_exact s w _ i hh.1

noncomputable def cmpKA (fs : List BoolFn) (l r : KP) : Ordering :=
  match compare (passiveK r.1 fs) (passiveK l.1 fs) with
  | .eq => match compare (activeK l.1 fs) (activeK r.1 fs) with
    | .eq => compare (minPathsK l.2) (minPathsK r.2)
    | o => o
  | o => o

noncomputable def cmpKB (fs : List BoolFn) (l r : KP) : Ordering :=
  match compare (minPathsK l.2) (minPathsK r.2) with
  | .eq => compare (passiveK r.1 fs) (passiveK l.1 fs)
  | o => o

noncomputable def candK (fs : List BoolFn) (wd : I3) : List KP :=
  (fs.zipIdx.filter (fun (p : BoolFn × Nat) => !((constOf p.1).isSome || ((wd[p.2]?).getD none).isSome))).map
    (fun p => (p.2, p.1))

theorem candidates_key (w : WF s) {c : CState} (hv : AllLt s c.1) :
    (candidates c).map (keyOf s) = candK (c.1.map (eval s)) (d3 c.2) := by
  unfold candidates candK
  rw [List.zipIdx_map, List.filter_map, List.map_map, List.map_map]
  have hf : c.1.zipIdx.filter (fun (x : Nat × Nat) => match x with | (t, i) => !(isTV t || isTV (c.2.getD i 2))) =
      c.1.zipIdx.filter ((fun (p : BoolFn × Nat) => !((constOf p.1).isSome || (((d3 c.2)[p.2]?).getD none).isSome)) ∘
        Prod.map (eval s) id) := by
    apply List.filter_congr
    intro x hx
    obtain ⟨t, i⟩ := x
    have hm := List.mem_zipIdx hx
    simp only [Nat.zero_add, Nat.zero_le, true_and, Nat.sub_zero] at hm
    have htv : t ∈ c.1 := by rw [hm.2]; exact List.getElem_mem hm.1
    simp only [Function.comp, Prod.map, id]
    rw [isTV_sic, isTV_sic, sic_constOf w (hv t htv), sic_getD2]
  rw [hf]
  apply List.map_congr_left
  intro x _
  obtain ⟨t, i⟩ := x
  rfl

/-- `pick` through the denotations -/
noncomputable def pickK (useA : Bool) (fs : List BoolFn) (wd : I3) : Option Nat :=
  (minByG (if useA then cmpKA fs else cmpKB fs) (candK fs wd)).map (·.1)

theorem pick_key (w : WF s) (ac : List Nat) (useA u : Bool) {c : CState} (hv : AllLt s c.1) :
    (countParams ac useA u).pick s c = pickK useA (c.1.map (eval s)) (d3 c.2) := by
  have hval : ∀ p ∈ candidates c, p.2 < s.nodes.size := by
    intro p hp
    obtain ⟨i, t⟩ := p
    exact hv t (List.mem_of_getElem? (candidates_mem.mp hp).1)
  have hmp : ∀ p ∈ candidates c, minPaths s p.2 = minPathsK (eval s p.2) := by
    intro p hp
    simp only [minPaths, minPathsK, paths_fn w (hval p hp)]
  have ⟨m1, _⟩ := minBy_map (keyOf s) (if useA then heuA s c.1 else heuB s c.1)
    (if useA then cmpKA (c.1.map (eval s)) else cmpKB (c.1.map (eval s))) (candidates c) (by
      intro p hp q hq
      cases useA with
      | true =>
        simp only [if_true, heuA, cmpKA, keyOf, hmp p hp, hmp q hq, passive_den w hv, active_den w hv]
        rfl
      | false =>
        simp only [Bool.false_eq_true, if_false, heuB, cmpKB, keyOf, hmp p hp, hmp q hq, passive_den w hv]
        rfl)
  show (minBy (if useA then heuA s c.1 else heuB s c.1) (candidates c)).map (·.1) = _
  unfold pickK
  rw [← candidates_key w hv, ← m1, Option.map_map]
  cases minBy (if useA then heuA s c.1 else heuB s c.1) (candidates c) <;> rfl

/-! ## the relation of the lock step and its laws -/

/-- related points of the two runs: well-formed stores, valid interpretation vectors and condition vectors that
denote the same functions, `will_be` vectors with the same decided parts -/
structure R (ac ac' : List Nat) (s : Store) (c : CState) (s' : Store) (c' : CState) : Prop where
  wf : WF s
  wf' : WF s'
  vr : VR s s' c.1 c'.1
  wb : d3 c.2 = d3 c'.2
  ac : VR s s' ac ac'

theorem R.mono {ac ac' : List Nat} {c c' : CState} {s1 s1' : Store} (h : R ac ac' s c s' c') (l : SLe s s1)
    (l' : SLe s' s1') : R ac ac' s1 c s1' c' :=
  ⟨l.2 h.wf, l'.2 h.wf', h.vr.mono h.wf h.wf' l.1 l'.1, h.wb, h.ac.mono h.wf h.wf' l.1 l'.1⟩

theorem sle_of {s s1 : Store} (e : Ext s s1) (w1 : WF s1) : SLe s s1 := ⟨e, fun _ => w1⟩

theorem concluded_d3 (c : CState) :
    d3 (c.1.zipIdx.map (fun (x : Nat × Nat) => match x with | (t, i) => if !isTV t then c.2.getD i 2 else t)) =
    (d3 c.1).zipIdx.map (fun (p : Option Bool × Nat) => if !p.1.isSome then ((d3 c.2)[p.2]?).getD none else p.1) := by
  unfold d3
  rw [List.zipIdx_map, List.map_map, List.map_map]
  apply List.map_congr_left
  intro x _
  obtain ⟨t, i⟩ := x
  simp only [Function.comp, Prod.map, id, isTV_sic]
  split
  · rw [sic_getD2]; rfl
  · rfl

/-- the tail of `flipStep` after the two store computations -/
def flipOut (u1 : Store) (u2 : List Nat) (nidx idx : Nat) (g : Bool) (wb : List Nat) : Store × Option CState :=
  if noInfIncons nidx (u2.getD idx 0) then
    if noInfIncons nidx (if g then 0 else 1) then (u1, some (u2.set idx (if g then 0 else 1), wb.set idx nidx))
    else (u1, none)
  else (u1, none)

theorem flipOut_fst (u1 : Store) (u2 : List Nat) (nidx idx : Nat) (g : Bool) (wb : List Nat) :
    (flipOut u1 u2 nidx idx g wb).1 = u1 := by
  unfold flipOut
  simp only [apply_ite Prod.fst, ite_self]

theorem relLaws (ac ac' : List Nat) (useA u : Bool) :
    GK.RelLaws (countParams ac useA u) (countParams ac' useA u) (R ac ac') SLe SLe d3 d3 where
  le_refl := SLe.refl
  le_refl' := SLe.refl
  le_trans := fun _ _ _ => SLe.trans
  le_trans' := fun _ _ _ => SLe.trans
  mono := fun _ _ _ _ _ _ h l l' => h.mono l l'
  pick := by
    intro s c s' c' h
    rw [pick_key h.wf ac useA u h.vr.1, pick_key h.wf' ac' useA u h.vr.2.1, h.vr.2.2, h.wb]
  goal := by
    intro s c s' c' idx h _
    have hr := h.vr.getD h.wf h.wf' idx
    show (!moreModels (paths s (c.1.getD idx 0))) = !moreModels (paths s' (c'.1.getD idx 0))
    rw [paths_den h.wf h.wf' hr.1 hr.2.1 hr.2.2]
  cubes := by
    intro s c s' c' idx h _
    have hr := h.vr.getD h.wf h.wf' idx
    have hc : ∀ g, cubesOf s (c.1.getD idx 0) g idx = cubesOf s' (c'.1.getD idx 0) g idx := fun g =>
      CubesCanon.cubesF_den s s' h.wf h.wf' _ _ hr.1 hr.2.1 hr.2.2 g idx [] []
    have ha : ∀ cu, (applyCube c.1 c.2 cu).isSome = (applyCube c'.1 c'.2 cu).isSome := by
      intro cu
      have := applyCube_rel h.wf h.wf' h.wb h.vr cu
      cases e : applyCube c.1 c.2 cu <;> cases e' : applyCube c'.1 c'.2 cu <;> rw [e, e'] at this <;>
        first | rfl | exact this.elim
    show (if u = true then (cubesOf s (c.1.getD idx 0) _ idx).takeWhile _ else cubesOf s (c.1.getD idx 0) _ idx) =
      (if u = true then (cubesOf s' (c'.1.getD idx 0) _ idx).takeWhile _ else cubesOf s' (c'.1.getD idx 0) _ idx)
    rw [hc]
    simp only [ha]
  cubeStep := by
    intro s c s' c' idx g cu h
    have hcu := applyCube_rel h.wf h.wf' h.wb h.vr cu
    show SLe s (match applyCube c.1 c.2 cu with
        | none => (s, none)
        | some ni => ((applyVec s (ni.set idx (if g then 1 else 0)) (ni.set idx (if g then 1 else 0))).1,
            if consistentWith (applyVec s (ni.set idx (if g then 1 else 0)) (ni.set idx (if g then 1 else 0))).2 c.2
            then some ((applyVec s (ni.set idx (if g then 1 else 0)) (ni.set idx (if g then 1 else 0))).2, c.2)
            else none)).1 ∧ _
    show _ ∧ SLe s' (match applyCube c'.1 c'.2 cu with
        | none => (s', none)
        | some ni => ((applyVec s' (ni.set idx (if g then 1 else 0)) (ni.set idx (if g then 1 else 0))).1,
            if consistentWith (applyVec s' (ni.set idx (if g then 1 else 0)) (ni.set idx (if g then 1 else 0))).2 c'.2
            then some ((applyVec s' (ni.set idx (if g then 1 else 0)) (ni.set idx (if g then 1 else 0))).2, c'.2)
            else none)).1 ∧ _
    cases e : applyCube c.1 c.2 cu with
    | none =>
      cases e' : applyCube c'.1 c'.2 cu with
      | none => exact ⟨SLe.refl s, SLe.refl s', Or.inl ⟨by simp only [countParams, e], by simp only [countParams, e']⟩⟩
      | some b => rw [e, e'] at hcu; exact hcu.elim
    | some a =>
      cases e' : applyCube c'.1 c'.2 cu with
      | none => rw [e, e'] at hcu; exact hcu.elim
      | some b =>
        rw [e, e'] at hcu
        have hset : VR s s' (a.set idx (if g then 1 else 0)) (b.set idx (if g then 1 else 0)) :=
          hcu.set (HR.const h.wf h.wf' (gT_lt g)) idx
        have m := applyVec_rel h.wf h.wf' (hset.d3 h.wf h.wf') hset
        have hcons := consistent_rel (m.vr.d3 m.wf m.wf') h.wb
        simp only
        refine ⟨sle_of m.ext m.wf, sle_of m.ext' m.wf', ?_⟩
        simp only [countParams, e, e']
        rw [hcons]
        cases hk : consistentWith (applyVec s' (b.set idx (if g then 1 else 0)) (b.set idx (if g then 1 else 0))).2 c'.2 with
        | true =>
          simp only [if_true]
          exact Or.inr ⟨_, _, rfl, rfl, ⟨m.wf, m.wf', m.vr, h.wb, h.ac.mono h.wf h.wf' m.ext m.ext'⟩⟩
        | false =>
          simp only [Bool.false_eq_true, if_false]
          exact Or.inl ⟨trivial, trivial⟩
  flipStep := by
    intro s c s' c' idx g h
    have m1 := mapRestrict_rel h.wf h.wf' idx (!g) h.vr
    have m2 := applyVec_rel m1.wf m1.wf' (m1.vr.d3 m1.wf m1.wf') m1.vr
    have e1 := Ext.trans m1.ext m2.ext
    have e1' := Ext.trans m1.ext' m2.ext'
    have hn := (m1.vr.getD m1.wf m1.wf' idx).sic m1.wf m1.wf'
    have hu := (m2.vr.getD m2.wf m2.wf' idx).sic m2.wf m2.wf'
    have hac := h.ac.mono h.wf h.wf' e1 e1'
    have hwb : d3 (c.2.set idx ((mapRestrict s idx (!g) c.1).2.getD idx 0)) =
        d3 (c'.2.set idx ((mapRestrict s' idx (!g) c'.1).2.getD idx 0)) := by
      rw [d3_set, d3_set, h.wb, hn]
    show SLe s (flipOut _ _ _ idx g c.2).1 ∧ SLe s' (flipOut _ _ _ idx g c'.2).1 ∧ _
    rw [flipOut_fst, flipOut_fst]
    refine ⟨sle_of e1 m2.wf, sle_of e1' m2.wf', ?_⟩
    show ((flipOut _ _ _ idx g c.2).2 = none ∧ (flipOut _ _ _ idx g c'.2).2 = none) ∨
      ∃ d d', (flipOut _ _ _ idx g c.2).2 = some d ∧ (flipOut _ _ _ idx g c'.2).2 = some d' ∧
        R ac ac' (flipOut _ _ _ idx g c.2).1 d (flipOut _ _ _ idx g c'.2).1 d'
    rw [flipOut_fst, flipOut_fst]
    generalize (applyVec (mapRestrict s idx (!g) c.1).1 (mapRestrict s idx (!g) c.1).2 (mapRestrict s idx (!g) c.1).2) = U
      at *
    generalize (applyVec (mapRestrict s' idx (!g) c'.1).1 (mapRestrict s' idx (!g) c'.1).2 (mapRestrict s' idx (!g) c'.1).2) = U'
      at *
    generalize (mapRestrict s idx (!g) c.1).2.getD idx 0 = x at *
    generalize (mapRestrict s' idx (!g) c'.1).2.getD idx 0 = x' at *
    have c1 := noInf_rel hn hu
    have c2 := noInf_rel hn (rfl : storeIsConst (if g then 0 else 1) = _)
    unfold flipOut
    rw [c1, c2]
    cases k1 : noInfIncons x' (U'.2.getD idx 0) with
    | false => left; simp
    | true =>
      cases k2 : noInfIncons x' (if g then 0 else 1) with
      | false => left; simp
      | true =>
        right
        simp only [if_true]
        exact ⟨_, _, rfl, rfl, ⟨m2.wf, m2.wf', m2.vr.set (HR.const m2.wf m2.wf' (other_lt g)) idx, hwb, hac⟩⟩
  leaf := by
    intro s c s' c' h
    have hd : d3 (c.1.zipIdx.map (fun (x : Nat × Nat) => match x with | (t, i) => if !isTV t then c.2.getD i 2 else t)) =
        d3 (c'.1.zipIdx.map (fun (x : Nat × Nat) => match x with | (t, i) => if !isTV t then c'.2.getD i 2 else t)) := by
      rw [concluded_d3, concluded_d3, h.vr.d3 h.wf h.wf', h.wb]
    have m := applyVec_rel h.wf h.wf' hd h.ac
    have hcons := consistent_rel (m.vr.d3 m.wf m.wf') hd
    simp only [countParams]
    rw [hcons]
    split
    · exact ⟨sle_of m.ext m.wf, sle_of m.ext' m.wf', by simp only [List.map_cons, List.map_nil, m.vr.d3 m.wf m.wf']⟩
    · exact ⟨sle_of m.ext m.wf, sle_of m.ext' m.wf', by simp only [List.map_cons, List.map_nil, h.vr.d3 h.wf h.wf']⟩

/-! ## the stability filter and the whole call -/

theorem chk_d3 (D : List BoolFn) {v v' : List Nat} (h : d3 v = d3 v') : Chk D v ↔ Chk D v' := by
  unfold Chk; rw [h]

theorem stableFilter_rel {s0 s0' : Store} (n : Nat) (ac ac' : List Nat) (w0 : WF s0) (w0' : WF s0')
    (hn : ac.length = n) (hn' : ac'.length = n) (hac : VR s0 s0' ac ac') :
    ∀ (cands cands' : List (List Nat)) (acc acc' : Store × List (List Nat)), WF acc.1 → WF acc'.1 →
      Ext s0 acc.1 → Ext s0' acc'.1 → cands.map d3 = cands'.map d3 →
      (∀ v ∈ cands, v.length = n) → (∀ v ∈ cands', v.length = n) → acc.2.map d3 = acc'.2.map d3 →
      ((cands.foldl (fun (acc : Store × List (List Nat)) v =>
          let chk := stabilityCheckC acc.1 n ac v
          (chk.1, if chk.2 then acc.2 ++ [v] else acc.2)) acc).2).map d3 =
      ((cands'.foldl (fun (acc : Store × List (List Nat)) v =>
          let chk := stabilityCheckC acc.1 n ac' v
          (chk.1, if chk.2 then acc.2 ++ [v] else acc.2)) acc').2).map d3 := by
  intro cands
  induction cands with
  | nil =>
    intro cands' acc acc' _ _ _ _ hc _ _ ha
    cases cands' with
    | nil => exact ha
    | cons _ _ => simp at hc
  | cons c cs ih =>
    intro cands' acc acc' wa wa' ea ea' hc hl hl' ha
    cases cands' with
    | nil => simp at hc
    | cons c' cs' =>
      simp only [List.map_cons, List.cons.injEq] at hc
      have hva : ∀ t ∈ ac, t < acc.1.nodes.size := fun t ht => Nat.lt_of_lt_of_le (hac.1 t ht) ea.1
      have hva' : ∀ t ∈ ac', t < acc'.1.nodes.size := fun t ht => Nat.lt_of_lt_of_le (hac.2.1 t ht) ea'.1
      have ⟨w1, e1, h1⟩ := stabilityCheckC_spec acc.1 n ac c wa hn hva (hl c (List.mem_cons_self ..))
      have ⟨w1', e1', h1'⟩ := stabilityCheckC_spec acc'.1 n ac' c' wa' hn' hva' (hl' c' (List.mem_cons_self ..))
      rw [map_eval_ext w0 ea hac.1] at h1
      rw [map_eval_ext w0' ea' hac.2.1, ← hac.2.2, ← chk_d3 _ hc.1] at h1'
      have hb : (stabilityCheckC acc.1 n ac c).2 = (stabilityCheckC acc'.1 n ac' c').2 := by
        rw [Bool.eq_iff_iff, h1, h1']
      simp only [List.foldl_cons]
      apply ih cs' _ _ w1 w1' (Ext.trans ea e1) (Ext.trans ea' e1') hc.2
        (fun v hv' => hl v (List.mem_cons_of_mem _ hv')) (fun v hv' => hl' v (List.mem_cons_of_mem _ hv'))
      show (if (stabilityCheckC acc.1 n ac c).2 = true then acc.2 ++ [c] else acc.2).map d3 =
        (if (stabilityCheckC acc'.1 n ac' c').2 = true then acc'.2 ++ [c'] else acc'.2).map d3
      rw [hb]
      split
      · rw [List.map_append, List.map_append, ha, List.map_cons, List.map_cons, hc.1]
      · exact ha

/-- the search proper: the candidates (before the stability filter) have the same decided parts in the same order -/
theorem search_order (u : Bool) (s s' : Store) (n : Nat) (ac ac' : List Nat) (useA : Bool) (w : WF s) (w' : WF s')
    (hl : ac.length = n) (hl' : ac'.length = n)
    (hv : ∀ t ∈ ac, t < s.nodes.size) (hv' : ∀ t ∈ ac', t < s'.nodes.size)
    (hsame : ac.map (eval s) = ac'.map (eval s')) :
    (GK.search (countParams ac useA u) (n + 1) (groundedLoop StoreRA (n + 1) s ac).1
      ((groundedLoop StoreRA (n + 1) s ac).2, List.replicate n 2)).2.map d3 =
    (GK.search (countParams ac' useA u) (n + 1) (groundedLoop StoreRA (n + 1) s' ac').1
      ((groundedLoop StoreRA (n + 1) s' ac').2, List.replicate n 2)).2.map d3 := by
  have ⟨hinv, e0⟩ := start_inv s n ac w hl hv
  have ⟨hinv', e0'⟩ := start_inv s' n ac' w' hl' hv'
  have ⟨_, _, _, d1⟩ := groundedLoop_sem StoreRA (n + 1) s ac w hv
  have ⟨_, _, _, d1'⟩ := groundedLoop_sem StoreRA (n + 1) s' ac' w' hv'
  have d1 : (groundedLoop StoreRA (n + 1) s ac).2.map (eval (groundedLoop StoreRA (n + 1) s ac).1) =
      semLoop (n + 1) (ac.map (eval s)) := d1
  have d1' : (groundedLoop StoreRA (n + 1) s' ac').2.map (eval (groundedLoop StoreRA (n + 1) s' ac').1) =
      semLoop (n + 1) (ac'.map (eval s')) := d1'
  have hR : R ac ac' (groundedLoop StoreRA (n + 1) s ac).1 ((groundedLoop StoreRA (n + 1) s ac).2, List.replicate n 2)
      (groundedLoop StoreRA (n + 1) s' ac').1 ((groundedLoop StoreRA (n + 1) s' ac').2, List.replicate n 2) :=
    ⟨hinv.wf, hinv'.wf, ⟨hinv.val, hinv'.val, by rw [d1, d1', hsame]⟩, rfl,
      VR.mono w w' ⟨hv, hv', hsame⟩ e0 e0'⟩
  exact (GK.search_rel (relLaws ac ac' useA u) (n + 1) _ _ _ _ hR).2.2

theorem countLogic_order (s s' : Store) (n : Nat) (ac ac' : List Nat) (useA : Bool) (w : WF s) (w' : WF s')
    (hl : ac.length = n) (hl' : ac'.length = n)
    (hv : ∀ t ∈ ac, t < s.nodes.size) (hv' : ∀ t ∈ ac', t < s'.nodes.size)
    (hsame : ac.map (eval s) = ac'.map (eval s')) :
    (countLogic ac useA (n + 1) (groundedLoop StoreRA (n + 1) s ac).1 (groundedLoop StoreRA (n + 1) s ac).2
      (List.replicate n 2)).2.map d3 =
    (countLogic ac' useA (n + 1) (groundedLoop StoreRA (n + 1) s' ac').1 (groundedLoop StoreRA (n + 1) s' ac').2
      (List.replicate n 2)).2.map d3 :=
  search_order false s s' n ac ac' useA w w' hl hl' hv hv' hsame

/-- **`stable_count_optimisation_heu_a/b` list the same decided parts in the same order on every object whose
conditions denote the same functions** -/
theorem countAll_order (s s' : Store) (n : Nat) (ac ac' : List Nat) (useA : Bool) (w : WF s) (w' : WF s')
    (hl : ac.length = n) (hl' : ac'.length = n)
    (hv : ∀ t ∈ ac, t < s.nodes.size) (hv' : ∀ t ∈ ac', t < s'.nodes.size)
    (hsame : ac.map (eval s) = ac'.map (eval s')) :
    (countAll s n ac useA).2.map d3 = (countAll s' n ac' useA).2.map d3 := by
  have ⟨hinv, e0⟩ := start_inv s n ac w hl hv
  have ⟨hinv', e0'⟩ := start_inv s' n ac' w' hl' hv'
  have sp := countLogic_spec useA hinv
  have sp' := countLogic_spec useA hinv'
  have ho := countLogic_order s s' n ac ac' useA w w' hl hl' hv hv' hsame
  unfold countAll stableFilter
  simp only
  generalize groundedLoop StoreRA (n + 1) s ac = g at *
  generalize groundedLoop StoreRA (n + 1) s' ac' = g' at *
  generalize countLogic ac useA (n + 1) g.1 g.2 (List.replicate n 2) = c at *
  generalize countLogic ac' useA (n + 1) g'.1 g'.2 (List.replicate n 2) = c' at *
  have hle : SLe g.1 c.1 := sp.le
  have hle' : SLe g'.1 c'.1 := sp'.le
  have hgood : ∀ o ∈ c.2, GoodO n o := sp.good
  have hgood' : ∀ o ∈ c'.2, GoodO n o := sp'.good
  exact stableFilter_rel n ac ac' w w' hl hl' ⟨hv, hv', hsame⟩ c.2 c'.2 (c.1, []) (c'.1, [])
    (hle.2 hinv.wf) (hle'.2 hinv'.wf) (Ext.trans e0 hle.1) (Ext.trans e0' hle'.1) ho
    (fun v hv' => (hgood v hv').1) (fun v hv' => (hgood' v hv').1) rfl

end CI.Rel

#print axioms CI.Rel.countAll_order
#print axioms CI.Rel.countLogic_order
