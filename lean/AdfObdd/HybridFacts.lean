import AdfObdd.CliModesProofs
import AdfObdd.HybridEndToEnd
/-! # The library-side `from_parser` on a file with the facts in ANY order (review 2, C01 row 2)

`C01/C02/C03.hybrid_*_from_formulas` start from `Bio.fromFormulas` (one condition per statement, in
declaration order). `CliM.bioBuild` (CliModes.lean) is `adfbiodivine::Adf::from_parser` on the parser
object: variables from `namelist`, every condition of the file in FILE order written at
`formula_order[k]`. For a well-formed file it yields one valid diagram per statement and they denote
`condFns fs` - the same functions the native `from_parser` yields (`C09.from_parser_any_order_correct`). -/
namespace Bio
open ParserM FromParser CliM CliMP

theorem bioBuild_from_facts {T : Type} (L : Lib T) (fs : List Fact) (W : Lawful L (namesOf fs).length)
    (hwf : WellFormedAdf fs) (hn : (namesOf fs).length ≤ VBOT)
    (hnames : (namesOf fs).all bioNameOK = true) (rew : Bool) :
    ∃ (acB : List T) (rw : Option T), bioBuild L (PState.ofFacts fs) rew = some (acB, rw) ∧
      acB.length = (namesOf fs).length ∧ (∀ x ∈ acB, W.Valid x) ∧ acB.map W.den = condFns fs := by
  obtain ⟨items, _, _, hb, hl, hv, hden⟩ := bioBuild_facts W (pres_ofFacts fs) hwf hn hnames rew
  exact ⟨_, _, hb, hl, hv, hden⟩

end Bio
