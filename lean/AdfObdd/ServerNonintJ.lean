import AdfObdd.ServerNonint
/-! # C17 — noninterference for a user with SEVERAL cookie jars (sessions)

`ServerNonint.lean` treats a user as ONE cookie jar `j`. Here a user is any SET `J` of cookie jars
(`J : Nat → Bool`): all the browsers / sessions of one person, logged in to the same account or to
several accounts of his. The unwinding argument is the same, with "`e.jar = j`" replaced by
"`J e.jar`": the view is the accounts in the name space `S`, the tasks spawned by jars in `J` and the
sessions of the jars in `J`; the observation is the sequence of (jar, response) pairs of the jars in `J`.
The one-jar statements are the instance `J = fun k => decide (k = j)`. Core Lean only. -/
namespace ServerM
section
variable {T H A R : Type} [DecidableEq T]

/-! ### tasks of a set of jars -/

theorem nthOf_filterJ (J : Nat → Bool) (k : Nat) (hk : J k = true) : ∀ (n : Nat) (l : List (TaskRec T A)),
    nthOf k n (l.filter (fun t => J t.jar)) = nthOf k n l := by
  intro n l
  induction l generalizing n with
  | nil => rfl
  | cons t ts ih =>
    by_cases hJ : J t.jar = true
    · simp only [List.filter_cons, hJ, if_true, nthOf]
      by_cases h : t.jar = k
      · simp only [h, if_true]
        cases n with
        | zero => rfl
        | succ m => exact ih m
      · simp only [h, if_false]; exact ih n
    · have h : t.jar ≠ k := by intro e; rw [e] at hJ; exact hJ hk
      simp only [List.filter_cons, hJ, Bool.false_eq_true, if_false, nthOf, h]
      exact ih n

theorem updNth_filter_inJ (J : Nat → Bool) (k : Nat) (hk : J k = true) (f : TaskRec T A → TaskRec T A)
    (hf : ∀ t, (f t).jar = t.jar) : ∀ (n : Nat) (l : List (TaskRec T A)),
    (updNth k f n l).filter (fun t => J t.jar) = updNth k f n (l.filter (fun t => J t.jar)) := by
  intro n l
  induction l generalizing n with
  | nil => rfl
  | cons t ts ih =>
    by_cases h : t.jar = k
    · have hJ : J t.jar = true := by rw [h]; exact hk
      cases n with
      | zero => simp [updNth, List.filter_cons, h, hf, hk]
      | succ m => simp [updNth, List.filter_cons, h, hk, ih m]
    · by_cases hJ : J t.jar = true
      · simp [updNth, List.filter_cons, h, hJ, ih n]
      · simp [updNth, List.filter_cons, h, hJ, ih n]

theorem updNth_filter_outJ (J : Nat → Bool) (k : Nat) (hk : J k = false) (f : TaskRec T A → TaskRec T A)
    (hf : ∀ t, (f t).jar = t.jar) : ∀ (n : Nat) (l : List (TaskRec T A)),
    (updNth k f n l).filter (fun t => J t.jar) = l.filter (fun t => J t.jar) := by
  intro n l
  induction l generalizing n with
  | nil => rfl
  | cons t ts ih =>
    by_cases h : t.jar = k
    · cases n with
      | zero => simp [updNth, List.filter_cons, h, hf, hk]
      | succ m => simp [updNth, List.filter_cons, h, hk, ih m]
    · simp only [updNth, h, if_false, List.filter_cons]
      rw [ih n]

/-! ### views -/

/-- the view of the jars in `J` with name space `S` agrees between the full state `s` and the alone state `a` -/
structure SimJ (S : T → Bool) (J : Nat → Bool) (s a : State T H A R) : Prop where
  db : DbSim S J s.db a.db
  sess : ∀ k, J k = true → s.sess k = a.sess k

/-- the name-space discipline: sessions and live tasks of the jars in `J` lie inside `S`, everybody else's outside -/
structure NsInvJ (S : T → Bool) (J : Nat → Bool) (s : State T H A R) : Prop where
  mine : ∀ k, J k = true → ∀ u, s.sess k = some u → S u = true
  others : ∀ k, J k = false → ∀ u, s.sess k = some u → S u = false
  tasks : ∀ t ∈ s.db.tasks, live t = true → S t.username = J t.jar

def TasksTaggedJ (S : T → Bool) (J : Nat → Bool) (db : Db T H A R) : Prop :=
  ∀ t ∈ db.tasks, live t = true → S t.username = J t.jar

theorem exec_tagged_inJ {S : T → Bool} {J : Nat → Bool} (db : Db T H A R) (c : Cmd T H A R)
    (hc : CmdIn S J c) (h : TasksTaggedJ S J db) : TasksTaggedJ S J (exec db c).1 := by
  cases c with
  | spawn t =>
    intro x hx _
    simp only [exec, List.mem_append, List.mem_singleton] at hx
    rcases hx with hx | hx
    · exact h x hx ‹_›
    · subst hx
      rw [hc.1, hc.2]
  | uInsert u => simp only [exec]; split <;> exact h
  | uReplace n u => simp only [exec]; split <;> exact h
  | _ => exact h

theorem exec_tagged_outJ {S : T → Bool} {J : Nat → Bool} (db : Db T H A R) (c : Cmd T H A R)
    (hc : CmdIn (fun x => !S x) (fun k => !J k) c) (h : TasksTaggedJ S J db) :
    TasksTaggedJ S J (exec db c).1 := by
  cases c with
  | spawn t =>
    intro x hx _
    simp only [exec, List.mem_append, List.mem_singleton] at hx
    rcases hx with hx | hx
    · exact h x hx ‹_›
    · subst hx
      have h1 : S x.username = false := by have := hc.1; cases hS : S x.username <;> simp_all
      have h2 : J x.jar = false := by have := hc.2; cases hd : J x.jar <;> simp_all
      rw [h1, h2]
  | uInsert u => simp only [exec]; split <;> exact h
  | uReplace n u => simp only [exec]; split <;> exact h
  | _ => exact h

/-! ### requests -/

/-- a request of a jar in `J` whose names lie in `S`: same response, views stay related -/
theorem step_mineJ (E : Env T H A R) {S : T → Bool} {J : Nat → Bool} {s a : State T H A R} (rq : Request T)
    (hj : J rq.jar = true)
    (sim : SimJ S J s a) (is : NsInvJ S J s) (ia : NsInvJ S J a) (hn : ∀ n ∈ reqNames rq.req, S n = true) :
    (step E s rq).2 = (step E a rq).2 ∧ SimJ S J (step E s rq).1 (step E a rq).1 ∧
    NsInvJ S J (step E s rq).1 ∧ NsInvJ S J (step E a rq).1 := by
  have hsess := sim.sess rq.jar hj
  have hown := handler_owned E rq.jar (s.sess rq.jar) rq.req
  have hU : ∀ u, actor (s.sess rq.jar) rq.req = some u → S u = true := by
    intro u hu
    cases hq : rq.req with
    | add name code file parsing fu fp =>
      rw [hq] at hu hn
      simp only [actor, Option.some.injEq] at hu
      cases hs : s.sess rq.jar with
      | none => rw [hs] at hu; simp only [addUser] at hu; subst hu; exact hn _ (by simp [reqNames])
      | some v => rw [hs] at hu; simp only [addUser] at hu; subst hu; exact is.mine _ hj _ hs
    | _ => rw [hq] at hu; exact is.mine _ hj u hu
  have hin := hown.mono (Q' := CmdIn S J) (P' := RetShape (s.sess rq.jar) rq.req)
    (Owned.cmdIn hU hn hj) (fun _ h => h)
  have hrun := run_in hin s.db a.db sim.db
  have hret := run_ret hown s.db
  have key : run (handler E rq.jar (a.sess rq.jar) rq.req) a.db = run (handler E rq.jar (s.sess rq.jar) rq.req) a.db := by
    rw [hsess]
  refine ⟨?_, ⟨?_, ?_⟩, ⟨?_, ?_, ?_⟩, ⟨?_, ?_, ?_⟩⟩
  · simp only [step, stepT]; rw [key]; exact hrun.1
  · simp only [step, stepT]; rw [key]; exact hrun.2
  · intro k hk
    simp only [step, stepT]
    by_cases hkr : k = rq.jar
    · rw [if_pos hkr, if_pos hkr, key, hrun.1, hsess]
    · rw [if_neg hkr, if_neg hkr]; exact sim.sess k hk
  · intro k hk u hu
    simp only [step, stepT] at hu
    by_cases hkr : k = rq.jar
    · rw [if_pos hkr] at hu
      exact applyCookie_in _ _ _ (is.mine _ hj) hn hret.2 u hu
    · rw [if_neg hkr] at hu; exact is.mine k hk u hu
  · intro k hk u hu
    have hkr : k ≠ rq.jar := by intro e; rw [e, hj] at hk; cases hk
    simp only [step, stepT, if_neg hkr] at hu
    exact is.others k hk u hu
  · simp only [step, stepT]
    exact run_inv (TasksTaggedJ S J) (fun db c hc h => exec_tagged_inJ db c hc h) hin s.db is.tasks
  · intro k hk u hu
    simp only [step, stepT] at hu
    by_cases hkr : k = rq.jar
    · rw [if_pos hkr] at hu
      rw [key, ← hrun.1, ← hsess] at hu
      exact applyCookie_in _ _ _ (is.mine _ hj) hn hret.2 u hu
    · rw [if_neg hkr] at hu; exact ia.mine k hk u hu
  · intro k hk u hu
    have hkr : k ≠ rq.jar := by intro e; rw [e, hj] at hk; cases hk
    simp only [step, stepT, if_neg hkr] at hu
    exact ia.others k hk u hu
  · simp only [step, stepT]
    rw [key]
    exact run_inv (TasksTaggedJ S J) (fun db c hc h => exec_tagged_inJ db c hc h) hin a.db ia.tasks

/-- a request of a jar outside `J` whose names lie outside `S` does not change the view -/
theorem step_otherJ (E : Env T H A R) {S : T → Bool} {J : Nat → Bool} {s a : State T H A R} (rq : Request T)
    (hj : J rq.jar = false)
    (sim : SimJ S J s a) (is : NsInvJ S J s) (hn : ∀ n ∈ reqNames rq.req, S n = false) :
    SimJ S J (step E s rq).1 a ∧ NsInvJ S J (step E s rq).1 := by
  have hown := handler_owned E rq.jar (s.sess rq.jar) rq.req
  have hU : ∀ u, actor (s.sess rq.jar) rq.req = some u → (!S u) = true := by
    intro u hu
    have : S u = false := by
      cases hq : rq.req with
      | add name code file parsing fu fp =>
        rw [hq] at hu hn
        simp only [actor, Option.some.injEq] at hu
        cases hs : s.sess rq.jar with
        | none => rw [hs] at hu; simp only [addUser] at hu; subst hu; exact hn _ (by simp [reqNames])
        | some v => rw [hs] at hu; simp only [addUser] at hu; subst hu; exact is.others _ hj _ hs
      | _ => rw [hq] at hu; exact is.others _ hj u hu
    simp [this]
  have hout := hown.mono (Q' := CmdIn (fun x => !S x) (fun k => !J k)) (P' := fun _ => True)
    (Owned.cmdIn hU (by intro n hn'; simp [hn n hn']) (by simp [hj])) (fun _ _ => trivial)
  have hret := run_ret hown s.db
  have hne : ∀ k, J k = true → k ≠ rq.jar := by intro k hk e; rw [e, hj] at hk; cases hk
  refine ⟨⟨?_, ?_⟩, ⟨?_, ?_, ?_⟩⟩
  · simp only [step, stepT]
    exact (run_out hout s.db).trans sim.db
  · intro k hk
    simp only [step, stepT, if_neg (hne k hk)]
    exact sim.sess k hk
  · intro k hk u hu
    simp only [step, stepT, if_neg (hne k hk)] at hu
    exact is.mine k hk u hu
  · intro k hk u hu
    simp only [step, stepT] at hu
    by_cases hkr : k = rq.jar
    · rw [if_pos hkr] at hu
      cases hc : (run (handler E rq.jar (s.sess rq.jar) rq.req) s.db).2.1.cookie with
      | keep => rw [hc] at hu; simp only [applyCookie] at hu; exact is.others _ hj u hu
      | login x =>
        rw [hc] at hu; simp only [applyCookie, Option.some.injEq] at hu; subst hu
        exact hn _ (hret.2 _ hc)
      | logout => rw [hc] at hu; simp [applyCookie] at hu
    · rw [if_neg hkr] at hu
      exact is.others k hk u hu
  · simp only [step, stepT]
    exact run_inv (TasksTaggedJ S J) (fun db c hc h => exec_tagged_outJ db c hc h) hout s.db is.tasks

/-! ### task events -/

theorem tagged_updNthJ {S : T → Bool} {J : Nat → Bool} (jar n : Nat) (f : TaskRec T A → TaskRec T A)
    (hf : ∀ t, (f t).jar = t.jar ∧ (f t).username = t.username ∧ (live (f t) = true → live t = true)) (l : List (TaskRec T A))
    (h : ∀ t ∈ l, live t = true → S t.username = J t.jar) :
    ∀ t ∈ updNth jar f n l, live t = true → S t.username = J t.jar := by
  intro t ht hl
  rcases mem_updNth jar f n l t ht with h' | ⟨y, hy, h'⟩
  · exact h t h' hl
  · subst h'; rw [(hf y).1, (hf y).2.1]; exact h y hy ((hf y).2.2 hl)

theorem live_flag_done (t : TaskRec T A) : live ({ t with blockingDone := true } : TaskRec T A) = true → live t = true := by
  cases hb : t.blockingDone <;> cases hw : t.written <;> simp [live, hb, hw]

theorem live_flag_written (t : TaskRec T A) : live ({ t with written := true } : TaskRec T A) = true → live t = true := by
  cases hb : t.blockingDone <;> cases hw : t.written <;> simp [live, hb, hw]

/-- the database part of a task event of a jar in `J` -/
theorem dbEv_mineJ (E : Env T H A R) {S : T → Bool} {J : Nat → Bool} {d a : Db T H A R} (e : Event T) (hj : J e.jar = true)
    (hreq : ∀ rq, e ≠ .req rq)
    (sim : DbSim S J d a) (td : TasksTaggedJ S J d) (ta : TasksTaggedJ S J a) :
    DbSim S J (dbEv E d e) (dbEv E a e) ∧ TasksTaggedJ S J (dbEv E d e) ∧ TasksTaggedJ S J (dbEv E a e) := by
  have hnth : ∀ k, J k = true → ∀ n, nthOf k n d.tasks = nthOf k n a.tasks := by
    intro k hk n; rw [← nthOf_filterJ J k hk n d.tasks, ← nthOf_filterJ J k hk n a.tasks, sim.tasks]
  have hSt : ∀ k, J k = true → ∀ n t, nthOf k n d.tasks = some t → live t = true → S t.username = true := by
    intro k hk n t ht hl
    have := nthOf_mem k n d.tasks t ht
    rw [td t this.1 hl, this.2]; exact hk
  cases e with
  | req rq => exact absurd rfl (hreq rq)
  | finish k n =>
    simp only [Event.jar] at hj
    simp only [dbEv]
    rw [← hnth k hj n]
    cases ht : nthOf k n d.tasks with
    | none => exact ⟨sim, td, ta⟩
    | some t =>
      simp only
      split
      · exact ⟨sim, td, ta⟩
      · refine ⟨⟨sim.users, sim.probs, ?_, ?_⟩, ?_, ?_⟩
        · simp only; rw [filter_erase_in, filter_erase_in, sim.running]
        · simp only
          rw [updNth_filter_inJ J k hj (fun t => { t with blockingDone := true }) (fun _ => rfl),
            updNth_filter_inJ J k hj (fun t => { t with blockingDone := true }) (fun _ => rfl), sim.tasks]
        · exact tagged_updNthJ k n (fun t => { t with blockingDone := true }) (fun t => ⟨rfl, rfl, live_flag_done t⟩) d.tasks td
        · exact tagged_updNthJ k n (fun t => { t with blockingDone := true }) (fun t => ⟨rfl, rfl, live_flag_done t⟩) a.tasks ta
  | write k n =>
    simp only [Event.jar] at hj
    simp only [dbEv]
    rw [← hnth k hj n]
    cases ht : nthOf k n d.tasks with
    | none => exact ⟨sim, td, ta⟩
    | some t =>
      simp only
      split
      · have hc : CmdIn S J (.pSet t.username t.name (taskWrite E t.input) : Cmd T H A R) :=
          hSt k hj n t ht (by cases hb : t.blockingDone <;> cases hw : t.written <;> simp_all [live])
        have hx := (exec_in sim _ hc).2
        refine ⟨⟨hx.users, hx.probs, hx.running, ?_⟩, ?_, ?_⟩
        · simp only
          rw [updNth_filter_inJ J k hj (fun t => { t with written := true }) (fun _ => rfl),
            updNth_filter_inJ J k hj (fun t => { t with written := true }) (fun _ => rfl)]
          exact congrArg _ hx.tasks
        · exact tagged_updNthJ k n (fun t => { t with written := true }) (fun t => ⟨rfl, rfl, live_flag_written t⟩) _ td
        · exact tagged_updNthJ k n (fun t => { t with written := true }) (fun t => ⟨rfl, rfl, live_flag_written t⟩) _ ta
      · exact ⟨sim, td, ta⟩
  | timeout k n =>
    simp only [Event.jar] at hj
    simp only [dbEv]
    rw [← hnth k hj n]
    cases ht : nthOf k n d.tasks with
    | none => exact ⟨sim, td, ta⟩
    | some t =>
      simp only
      split
      · have hc : CmdIn S J (.pSet t.username t.name (timeoutWrite t.input) : Cmd T H A R) :=
          hSt k hj n t ht (by cases hb : t.blockingDone <;> cases hw : t.written <;> simp_all [live])
        have hx := (exec_in sim _ hc).2
        refine ⟨⟨hx.users, hx.probs, hx.running, ?_⟩, ?_, ?_⟩
        · simp only
          rw [updNth_filter_inJ J k hj (fun t => { t with written := true }) (fun _ => rfl),
            updNth_filter_inJ J k hj (fun t => { t with written := true }) (fun _ => rfl)]
          exact congrArg _ hx.tasks
        · exact tagged_updNthJ k n (fun t => { t with written := true }) (fun t => ⟨rfl, rfl, live_flag_written t⟩) _ td
        · exact tagged_updNthJ k n (fun t => { t with written := true }) (fun t => ⟨rfl, rfl, live_flag_written t⟩) _ ta
      · exact ⟨sim, td, ta⟩

/-- the database part of a task event of a jar outside `J` -/
theorem dbEv_otherJ (E : Env T H A R) {S : T → Bool} {J : Nat → Bool} {d : Db T H A R} (e : Event T) (hj : J e.jar = false)
    (hreq : ∀ rq, e ≠ .req rq) (td : TasksTaggedJ S J d) :
    DbSim S J (dbEv E d e) d ∧ TasksTaggedJ S J (dbEv E d e) := by
  have hSt : ∀ k n t, J k = false → nthOf k n d.tasks = some t → live t = true → S t.username = false := by
    intro k n t hk ht hl
    have := nthOf_mem k n d.tasks t ht
    rw [td t this.1 hl, this.2]; exact hk
  cases e with
  | req rq => exact absurd rfl (hreq rq)
  | finish k n =>
    simp only [Event.jar] at hj
    simp only [dbEv]
    cases ht : nthOf k n d.tasks with
    | none => exact ⟨DbSim.refl .., td⟩
    | some t =>
      simp only
      split
      · exact ⟨DbSim.refl .., td⟩
      · refine ⟨⟨rfl, rfl, ?_, ?_⟩, ?_⟩
        · exact filter_erase_out S t.info (hSt k n t hj ht (by cases hb : t.blockingDone <;> cases hw : t.written <;> simp_all [live])) d.running
        · exact updNth_filter_outJ J k hj (fun t => { t with blockingDone := true }) (fun _ => rfl) n d.tasks
        · exact tagged_updNthJ k n (fun t => { t with blockingDone := true }) (fun t => ⟨rfl, rfl, live_flag_done t⟩) d.tasks td
  | write k n =>
    simp only [Event.jar] at hj
    simp only [dbEv]
    cases ht : nthOf k n d.tasks with
    | none => exact ⟨DbSim.refl .., td⟩
    | some t =>
      simp only
      split
      · have hc : CmdIn (fun x => !S x) (fun x => !J x)
            (.pSet t.username t.name (taskWrite E t.input) : Cmd T H A R) := by
          simp [CmdIn, hSt k n t hj ht (by cases hb : t.blockingDone <;> cases hw : t.written <;> simp_all [live])]
        have hx := exec_out (S := S) (J := J) d _ hc
        refine ⟨⟨hx.users, hx.probs, hx.running, ?_⟩, ?_⟩
        · simp only
          rw [updNth_filter_outJ J k hj (fun t => { t with written := true }) (fun _ => rfl)]
          exact hx.tasks
        · exact tagged_updNthJ k n (fun t => { t with written := true }) (fun t => ⟨rfl, rfl, live_flag_written t⟩) _ td
      · exact ⟨DbSim.refl .., td⟩
  | timeout k n =>
    simp only [Event.jar] at hj
    simp only [dbEv]
    cases ht : nthOf k n d.tasks with
    | none => exact ⟨DbSim.refl .., td⟩
    | some t =>
      simp only
      split
      · have hc : CmdIn (fun x => !S x) (fun x => !J x)
            (.pSet t.username t.name (timeoutWrite t.input) : Cmd T H A R) := by
          simp [CmdIn, hSt k n t hj ht (by cases hb : t.blockingDone <;> cases hw : t.written <;> simp_all [live])]
        have hx := exec_out (S := S) (J := J) d _ hc
        refine ⟨⟨hx.users, hx.probs, hx.running, ?_⟩, ?_⟩
        · simp only
          rw [updNth_filter_outJ J k hj (fun t => { t with written := true }) (fun _ => rfl)]
          exact hx.tasks
        · exact tagged_updNthJ k n (fun t => { t with written := true }) (fun t => ⟨rfl, rfl, live_flag_written t⟩) _ td
      · exact ⟨DbSim.refl .., td⟩

theorem stepEv_mineJ (E : Env T H A R) {S : T → Bool} {J : Nat → Bool} {s a : State T H A R} (e : Event T)
    (hj : J e.jar = true)
    (sim : SimJ S J s a) (is : NsInvJ S J s) (ia : NsInvJ S J a) (hn : e.namesIn S) :
    (stepEv E s e).2 = (stepEv E a e).2 ∧ SimJ S J (stepEv E s e).1 (stepEv E a e).1 ∧
    NsInvJ S J (stepEv E s e).1 ∧ NsInvJ S J (stepEv E a e).1 := by
  cases he : e with
  | req rq =>
    subst he
    have h := step_mineJ E rq hj sim is ia hn
    simp only [stepEv]
    exact ⟨by rw [h.1], h.2.1, h.2.2.1, h.2.2.2⟩
  | finish k n =>
    have h := dbEv_mineJ E e hj (by intro rq; rw [he]; simp) sim.db is.tasks ia.tasks
    rw [he] at h
    exact ⟨rfl, ⟨h.1, sim.sess⟩, ⟨is.mine, is.others, h.2.1⟩, ⟨ia.mine, ia.others, h.2.2⟩⟩
  | write k n =>
    have h := dbEv_mineJ E e hj (by intro rq; rw [he]; simp) sim.db is.tasks ia.tasks
    rw [he] at h
    exact ⟨rfl, ⟨h.1, sim.sess⟩, ⟨is.mine, is.others, h.2.1⟩, ⟨ia.mine, ia.others, h.2.2⟩⟩
  | timeout k n =>
    have h := dbEv_mineJ E e hj (by intro rq; rw [he]; simp) sim.db is.tasks ia.tasks
    rw [he] at h
    exact ⟨rfl, ⟨h.1, sim.sess⟩, ⟨is.mine, is.others, h.2.1⟩, ⟨ia.mine, ia.others, h.2.2⟩⟩

theorem stepEv_otherJ (E : Env T H A R) {S : T → Bool} {J : Nat → Bool} {s a : State T H A R} (e : Event T)
    (hj : J e.jar = false)
    (sim : SimJ S J s a) (is : NsInvJ S J s) (hn : e.namesIn (fun x => !S x)) :
    SimJ S J (stepEv E s e).1 a ∧ NsInvJ S J (stepEv E s e).1 := by
  cases he : e with
  | req rq =>
    subst he
    have hn' : ∀ n ∈ reqNames rq.req, S n = false := by
      intro n hn'; have := hn n hn'; cases hS : S n <;> simp_all
    exact step_otherJ E rq hj sim is hn'
  | finish k n =>
    have h := dbEv_otherJ E e hj (by intro rq; rw [he]; simp) is.tasks
    rw [he] at h
    exact ⟨⟨h.1.trans sim.db, sim.sess⟩, ⟨is.mine, is.others, h.2⟩⟩
  | write k n =>
    have h := dbEv_otherJ E e hj (by intro rq; rw [he]; simp) is.tasks
    rw [he] at h
    exact ⟨⟨h.1.trans sim.db, sim.sess⟩, ⟨is.mine, is.others, h.2⟩⟩
  | timeout k n =>
    have h := dbEv_otherJ E e hj (by intro rq; rw [he]; simp) is.tasks
    rw [he] at h
    exact ⟨⟨h.1.trans sim.db, sim.sess⟩, ⟨is.mine, is.others, h.2⟩⟩

/-- what the user with the jars `J` observes: the responses to the requests of these jars, in order,
each with the jar it went to -/
def obsJ (J : Nat → Bool) (out : List (Nat × Resp T R)) : List (Nat × Resp T R) := out.filter (fun x => J x.1)

theorem obsJ_append (J : Nat → Bool) (x y : List (Nat × Resp T R)) : obsJ J (x ++ y) = obsJ J x ++ obsJ J y := by
  simp [obsJ, List.filter_append]

/-- the unwinding argument over a whole history, static name space -/
theorem nonint_runJ (E : Env T H A R) (S : T → Bool) (J : Nat → Bool) : ∀ (es : List (Event T)) (s a : State T H A R),
    SimJ S J s a → NsInvJ S J s → NsInvJ S J a →
    (∀ e ∈ es, (J e.jar = true → e.namesIn S) ∧ (J e.jar = false → e.namesIn (fun x => !S x))) →
    obsJ J (runAll E s es).2 = obsJ J (runAll E a (es.filter (fun e => J e.jar))).2 := by
  intro es
  induction es with
  | nil => intro s a _ _ _ _; rfl
  | cons e es ih =>
    intro s a sim is ia h
    have he := h e (List.mem_cons_self ..)
    have hrest : ∀ e' ∈ es, (J e'.jar = true → e'.namesIn S) ∧ (J e'.jar = false → e'.namesIn (fun x => !S x)) :=
      fun e' he' => h e' (List.mem_cons_of_mem _ he')
    by_cases hj : J e.jar = true
    · have hm := stepEv_mineJ E e hj sim is ia (he.1 hj)
      simp only [List.filter_cons, hj, if_true, runAll, obsJ_append]
      rw [ih _ _ hm.2.1 hm.2.2.1 hm.2.2.2 hrest, hm.1]
    · have hj' : J e.jar = false := by simpa using hj
      have ho := stepEv_otherJ E e hj' sim is (he.2 hj')
      simp only [List.filter_cons, hj', Bool.false_eq_true, if_false, runAll, obsJ_append]
      rw [ih _ _ ho.1 ho.2 ia hrest]
      cases (stepEv E s e).2 with
      | none => simp [obsJ]
      | some r => simp [obsJ, hj']

/-! ### re-use of account names once nothing of the previous owner is left -/

/-- the alone state holds nothing but what belongs to the jars in `J` -/
structure WithinJ (S : T → Bool) (J : Nat → Bool) (a : State T H A R) : Prop where
  users : ∀ u ∈ a.db.users, S u.username = true
  probs : ∀ p ∈ a.db.problems, S p.username = true
  running : ∀ i ∈ a.db.running, S i.username = true
  sess : ∀ k, J k = false → a.sess k = none
  tasks : ∀ t ∈ a.db.tasks, J t.jar = true

def DbWithinJ (S : T → Bool) (J : Nat → Bool) (d : Db T H A R) : Prop :=
  (∀ u ∈ d.users, S u.username = true) ∧ (∀ p ∈ d.problems, S p.username = true) ∧
  (∀ i ∈ d.running, S i.username = true) ∧ (∀ t ∈ d.tasks, J t.jar = true)

theorem exec_withinJ {S : T → Bool} {J : Nat → Bool} (d : Db T H A R) (c : Cmd T H A R)
    (hc : CmdIn S J c) (h : DbWithinJ S J d) : DbWithinJ S J (exec d c).1 := by
  obtain ⟨hu, hp, hr, ht⟩ := h
  cases c with
  | uFind n => exact ⟨hu, hp, hr, ht⟩
  | uInsert u =>
    simp only [exec]
    split
    · exact ⟨hu, hp, hr, ht⟩
    · refine ⟨?_, hp, hr, ht⟩
      intro x hx
      rcases List.mem_append.mp hx with h | h
      · exact hu x h
      · simp only [List.mem_singleton] at h; subst h; exact hc
  | uReplace n u =>
    simp only [exec]
    split
    · exact ⟨hu, hp, hr, ht⟩
    · refine ⟨?_, hp, hr, ht⟩
      intro x hx
      rcases mem_updFirst _ _ _ x hx with h | ⟨y, _, _, h⟩
      · exact hu x h
      · subst h; exact hc.2
  | uDelete n => exact ⟨fun x hx => hu x (mem_delFirst _ _ x hx), hp, hr, ht⟩
  | pFindOne u n => exact ⟨hu, hp, hr, ht⟩
  | pFindAll u => exact ⟨hu, hp, hr, ht⟩
  | pInsert p =>
    refine ⟨hu, ?_, hr, ht⟩
    intro x hx
    simp only [exec] at hx
    rcases List.mem_append.mp hx with h | h
    · exact hp x h
    · simp only [List.mem_singleton] at h; subst h; exact hc
  | pSet u n w =>
    refine ⟨hu, ?_, hr, ht⟩
    intro x hx
    rcases mem_updFirst _ _ _ x hx with h | ⟨y, hy, _, h⟩
    · exact hp x h
    · subst h; rw [Write.apply_username]; exact hp y hy
  | pDeleteOne u n => exact ⟨hu, fun x hx => hp x (mem_delFirst _ _ x hx), hr, ht⟩
  | pDeleteAll u => exact ⟨hu, fun x hx => hp x (List.mem_filter.mp hx).1, hr, ht⟩
  | pRename u u' =>
    refine ⟨hu, ?_, hr, ht⟩
    intro x hx
    simp only [exec, List.mem_map] at hx
    obtain ⟨y, hy, rfl⟩ := hx
    split
    · exact hc.2
    · exact hp y hy
  | rContains i => exact ⟨hu, hp, hr, ht⟩
  | rTasks u n => exact ⟨hu, hp, hr, ht⟩
  | spawn t =>
    refine ⟨hu, hp, ?_, ?_⟩
    · intro x hx
      simp only [exec] at hx
      split at hx
      · exact hr x hx
      · rcases List.mem_append.mp hx with h | h
        · exact hr x h
        · simp only [List.mem_singleton] at h; subst h; exact hc.1
    · intro x hx
      simp only [exec] at hx
      rcases List.mem_append.mp hx with h | h
      · exact ht x h
      · simp only [List.mem_singleton] at h; subst h; exact hc.2

theorem within_updNthJ (J : Nat → Bool) (jar n : Nat) (f : TaskRec T A → TaskRec T A) (hf : ∀ t, (f t).jar = t.jar)
    (l : List (TaskRec T A)) (h : ∀ t ∈ l, J t.jar = true) : ∀ t ∈ updNth jar f n l, J t.jar = true := by
  intro t ht
  rcases mem_updNth jar f n l t ht with h' | ⟨y, hy, h'⟩
  · exact h t h'
  · subst h'; rw [hf y]; exact h y hy

/-- the own events of the jars in `J` keep the alone state within `S` -/
theorem stepEv_withinJ (E : Env T H A R) {S : T → Bool} {J : Nat → Bool} {a : State T H A R} (e : Event T)
    (hj : J e.jar = true)
    (w : WithinJ S J a) (ia : NsInvJ S J a) (hn : e.namesIn S) : WithinJ S J (stepEv E a e).1 := by
  have hdb : DbWithinJ S J a.db := ⟨w.users, w.probs, w.running, w.tasks⟩
  cases he : e with
  | req rq =>
    subst he
    simp only [Event.jar] at hj
    have hown := handler_owned E rq.jar (a.sess rq.jar) rq.req
    have hU : ∀ u, actor (a.sess rq.jar) rq.req = some u → S u = true := by
      intro u hu
      cases hq : rq.req with
      | add name code file parsing fu fp =>
        rw [hq] at hu
        have hn' : ∀ n ∈ reqNames rq.req, S n = true := hn
        rw [hq] at hn'
        simp only [actor, Option.some.injEq] at hu
        cases hs : a.sess rq.jar with
        | none => rw [hs] at hu; simp only [addUser] at hu; subst hu; exact hn' _ (by simp [reqNames])
        | some v => rw [hs] at hu; simp only [addUser] at hu; subst hu; exact ia.mine _ hj _ hs
      | _ => rw [hq] at hu; exact ia.mine _ hj u hu
    have hin := hown.mono (Q' := CmdIn S J) (P' := fun _ => True)
      (Owned.cmdIn hU hn hj) (fun _ _ => trivial)
    have := run_inv (DbWithinJ S J) (fun db c hc h => exec_withinJ db c hc h) hin a.db hdb
    refine ⟨this.1, this.2.1, this.2.2.1, ?_, this.2.2.2⟩
    intro k hk
    have hkr : k ≠ rq.jar := by intro e; rw [e, hj] at hk; cases hk
    simp only [stepEv, step, stepT]
    rw [if_neg hkr]
    exact w.sess k hk
  | finish k n =>
    simp only [stepEv, dbEv]
    cases nthOf k n a.db.tasks with
    | none => exact w
    | some t =>
      simp only
      split
      · exact w
      · refine ⟨w.users, w.probs, ?_, w.sess, ?_⟩
        · intro i hi; exact w.running i (List.mem_filter.mp hi).1
        · exact within_updNthJ J k n (fun t => { t with blockingDone := true }) (fun _ => rfl) _ w.tasks
  | write k n =>
    simp only [stepEv, dbEv]
    cases nthOf k n a.db.tasks with
    | none => exact w
    | some t =>
      simp only
      split
      · refine ⟨w.users, ?_, w.running, w.sess, ?_⟩
        · intro x hx
          rcases mem_updFirst _ _ _ x hx with h | ⟨y, hy, _, h⟩
          · exact w.probs x h
          · subst h; rw [Write.apply_username]; exact w.probs y hy
        · exact within_updNthJ J k n (fun t => { t with written := true }) (fun _ => rfl) _ w.tasks
      · exact w
  | timeout k n =>
    simp only [stepEv, dbEv]
    cases nthOf k n a.db.tasks with
    | none => exact w
    | some t =>
      simp only
      split
      · refine ⟨w.users, ?_, w.running, w.sess, ?_⟩
        · intro x hx
          rcases mem_updFirst _ _ _ x hx with h | ⟨y, hy, _, h⟩
          · exact w.probs x h
          · subst h; rw [Write.apply_username]; exact w.probs y hy
        · exact within_updNthJ J k n (fun t => { t with written := true }) (fun _ => rfl) _ w.tasks
      · exact w

/-- **re-basing**: the name space may change at names of which nothing exists -/
theorem rebaseJ {S S' : T → Bool} {J : Nat → Bool} {s a : State T H A R} (sim : SimJ S J s a) (is : NsInvJ S J s)
    (ia : NsInvJ S J a) (w : WithinJ S J a) (hfree : ∀ n, S n ≠ S' n → Free n s) :
    SimJ S' J s a ∧ NsInvJ S' J s ∧ NsInvJ S' J a ∧ WithinJ S' J a := by
  have eqS : ∀ n, (¬ Free n s) → S n = S' n := by
    intro n hn
    cases hS : S n <;> cases hS' : S' n <;> first | rfl | exact absurd (hfree n (by simp [hS, hS'])) hn
  have su : ∀ u ∈ s.db.users, S u.username = S' u.username :=
    fun u hu => eqS _ (fun hf => hf.users u hu rfl)
  have sp : ∀ p ∈ s.db.problems, S p.username = S' p.username :=
    fun p hp => eqS _ (fun hf => hf.probs p hp rfl)
  have sr : ∀ i ∈ s.db.running, S i.username = S' i.username :=
    fun i hi => eqS _ (fun hf => hf.running i hi rfl)
  have au : ∀ u ∈ a.db.users, S u.username = S' u.username := by
    intro u hu
    have hSu := w.users u hu
    have : u ∈ s.db.users.filter (fun x => S x.username) := by
      rw [sim.db.users]; exact List.mem_filter.mpr ⟨hu, hSu⟩
    exact su u (List.mem_filter.mp this).1
  have ap : ∀ p ∈ a.db.problems, S p.username = S' p.username := by
    intro p hp
    have hSp := w.probs p hp
    have : p ∈ s.db.problems.filter (fun x => S x.username) := by
      rw [sim.db.probs]; exact List.mem_filter.mpr ⟨hp, hSp⟩
    exact sp p (List.mem_filter.mp this).1
  have ar : ∀ i ∈ a.db.running, S i.username = S' i.username := by
    intro i hi
    have hSi := w.running i hi
    have : i ∈ s.db.running.filter (fun x => S x.username) := by
      rw [sim.db.running]; exact List.mem_filter.mpr ⟨hi, hSi⟩
    exact sr i (List.mem_filter.mp this).1
  have sessS : ∀ k u, s.sess k = some u → S u = S' u := fun k u h => eqS _ (fun hf => hf.sess k h)
  have taskS : ∀ t ∈ s.db.tasks, live t = true → S t.username = S' t.username :=
    fun t ht hl => eqS _ (fun hf => hf.tasks t ht hl rfl)
  refine ⟨⟨⟨?_, ?_, ?_, sim.db.tasks⟩, sim.sess⟩, ⟨?_, ?_, ?_⟩, ⟨?_, ?_, ?_⟩, ⟨?_, ?_, ?_, w.sess, w.tasks⟩⟩
  · rw [← filter_congr_names S S' (fun u : User T H => u.username) _ su,
        ← filter_congr_names S S' (fun u : User T H => u.username) _ au]; exact sim.db.users
  · rw [← filter_congr_names S S' (fun p : Problem T A R => p.username) _ sp,
        ← filter_congr_names S S' (fun p : Problem T A R => p.username) _ ap]; exact sim.db.probs
  · rw [← filter_congr_names S S' (fun i : RInfo T => i.username) _ sr,
        ← filter_congr_names S S' (fun i : RInfo T => i.username) _ ar]; exact sim.db.running
  · intro k hk u hu; rw [← sessS k u hu]; exact is.mine k hk u hu
  · intro k hk u hu; rw [← sessS k u hu]; exact is.others k hk u hu
  · intro t ht hl; rw [← taskS t ht hl]; exact is.tasks t ht hl
  · intro k hk u hu; rw [← sessS k u ((sim.sess k hk) ▸ hu)]; exact ia.mine k hk u hu
  · intro k hk u hu; rw [w.sess k hk] at hu; cases hu
  · intro t ht hl
    have htj : J t.jar = true := w.tasks t ht
    have : t ∈ s.db.tasks.filter (fun x => J x.jar) := by
      rw [sim.db.tasks]; exact List.mem_filter.mpr ⟨ht, htj⟩
    rw [← taskS t (List.mem_filter.mp this).1 hl]; exact ia.tasks t ht hl
  · intro u hu; rw [← au u hu]; exact w.users u hu
  · intro p hp; rw [← ap p hp]; exact w.probs p hp
  · intro i hi; rw [← ar i hi]; exact w.running i hi

/-- a jar of the user claimed the name last -/
def ownedByJ (J : Nat → Bool) (o : Option Nat) : Bool := match o with | some k => J k | none => false

/-- **the discipline of account names, as far as the user with the jars `J` is concerned**: mentioning a
name claims it for the mentioning jar. A jar of `J` may mention a name only if a jar of `J` claimed it
last, or nothing of that name exists any more; a jar outside `J` may mention a name that a jar of `J`
claimed last only if nothing of that name exists any more. Among the jars of `J` - e.g. two browsers
logged in to the same account - and among the other jars nothing is restricted. -/
def DisciplinedJ (E : Env T H A R) (J : Nat → Bool) : (T → Option Nat) → State T H A R → List (Event T) → Prop
  | _, _, [] => True
  | own, st, e :: es =>
    (∀ n ∈ evNames e, (ownedByJ J (own n) = J e.jar) ∨ Free n st) ∧
    DisciplinedJ E J (fun n => if n ∈ evNames e then some e.jar else own n) (stepEv E st e).1 es

def spaceOfJ (own : T → Option Nat) (J : Nat → Bool) : T → Bool := fun n => ownedByJ J (own n)

theorem nonint_dynJ (E : Env T H A R) (J : Nat → Bool) : ∀ (es : List (Event T)) (own : T → Option Nat) (s a : State T H A R),
    SimJ (spaceOfJ own J) J s a → NsInvJ (spaceOfJ own J) J s → NsInvJ (spaceOfJ own J) J a → WithinJ (spaceOfJ own J) J a →
    DisciplinedJ E J own s es →
    obsJ J (runAll E s es).2 = obsJ J (runAll E a (es.filter (fun e => J e.jar))).2 := by
  intro es
  induction es with
  | nil => intro _ s a _ _ _ _ _; rfl
  | cons e es ih =>
    intro own s a sim is ia w hd
    obtain ⟨hnames, hrest⟩ := hd
    have hfree : ∀ n, spaceOfJ own J n ≠ spaceOfJ (fun n => if n ∈ evNames e then some e.jar else own n) J n → Free n s := by
      intro n hne
      by_cases hmem : n ∈ evNames e
      · rcases hnames n hmem with h | h
        · exfalso; apply hne
          simp only [spaceOfJ, hmem, if_true, ownedByJ]
          exact h
        · exact h
      · exfalso; apply hne; simp [spaceOfJ, hmem]
    obtain ⟨sim', is', ia', w'⟩ := rebaseJ sim is ia w hfree
    by_cases hj : J e.jar = true
    · have hn : e.namesIn (spaceOfJ (fun n => if n ∈ evNames e then some e.jar else own n) J) := by
        cases e with
        | req rq => intro n hn; simp [spaceOfJ, evNames, hn, ownedByJ]; exact hj
        | finish _ _ => trivial
        | write _ _ => trivial
        | timeout _ _ => trivial
      have hm := stepEv_mineJ E e hj sim' is' ia' hn
      have hw := stepEv_withinJ E e hj w' ia' hn
      simp only [List.filter_cons, hj, if_true, runAll, obsJ_append]
      rw [ih _ _ _ hm.2.1 hm.2.2.1 hm.2.2.2 hw hrest, hm.1]
    · have hj' : J e.jar = false := by simpa using hj
      have hn : e.namesIn (fun x => !spaceOfJ (fun n => if n ∈ evNames e then some e.jar else own n) J x) := by
        cases e with
        | req rq => intro n hn; simp [spaceOfJ, evNames, hn, ownedByJ]; exact hj'
        | finish _ _ => trivial
        | write _ _ => trivial
        | timeout _ _ => trivial
      have ho := stepEv_otherJ E e hj' sim' is' hn
      simp only [List.filter_cons, hj', Bool.false_eq_true, if_false, runAll, obsJ_append]
      rw [ih _ _ _ ho.1 ho.2 ia' w' hrest]
      cases (stepEv E s e).2 with
      | none => simp [obsJ]
      | some r => simp [obsJ, hj']

/-- a jar that issues no request keeps its session -/
theorem runAll_sess_untouched (E : Env T H A R) (k : Nat) : ∀ (es : List (Event T)) (st : State T H A R),
    (∀ e ∈ es, e.jar ≠ k) → (runAll E st es).1.sess k = st.sess k := by
  intro es
  induction es with
  | nil => intro st _; rfl
  | cons e es ih =>
    intro st h
    have hk := h e (List.mem_cons_self ..)
    show (runAll E (stepEv E st e).1 es).1.sess k = _
    rw [ih _ (fun e' he' => h e' (List.mem_cons_of_mem _ he'))]
    cases e with
    | req rq =>
      simp only [stepEv, step, stepT]
      rw [if_neg (fun e' => hk e'.symm)]
    | finish _ _ => rfl
    | write _ _ => rfl
    | timeout _ _ => rfl

end
end ServerM
