import AdfObdd.CountSearchK
/-! # Lock-step runs of the generic counting-guided machine `GK.search`

Two runs of `GK.search` from stores related by `R` (intended: same node table, memo tables
arbitrary) proceed in lock step when every step of the parameters does: same outputs in the same
ORDER, final stores related again. The validity needed by the steps is threaded through the
invariant `V.Inv` of the existing laws `GK.CSound` (which give its preservation). -/
namespace GK

variable {S C K O : Type}

/-- the steps of `P` cannot tell `R`-related stores apart -/
structure LockLaws (P : CParams S C K O) (V : View S C K O) (R : S → S → Prop) : Prop where
  pick : ∀ s s' c, R s s' → V.Inv s c → P.pick s' c = P.pick s c
  goal : ∀ s s' c idx, R s s' → V.Inv s c → P.goal s' c idx = P.goal s c idx
  cubes : ∀ s s' c idx g, R s s' → V.Inv s c → P.cubes s' c idx g = P.cubes s c idx g
  cubeStep : ∀ s s' c idx g cu, R s s' → V.Inv s c →
    R (P.cubeStep s c idx g cu).1 (P.cubeStep s' c idx g cu).1 ∧
    (P.cubeStep s' c idx g cu).2 = (P.cubeStep s c idx g cu).2
  flipStep : ∀ s s' c idx g, R s s' → V.Inv s c →
    R (P.flipStep s c idx g).1 (P.flipStep s' c idx g).1 ∧ (P.flipStep s' c idx g).2 = (P.flipStep s c idx g).2
  leaf : ∀ s s' c, R s s' → V.Inv s c → R (P.leaf s c).1 (P.leaf s' c).1 ∧ (P.leaf s' c).2 = (P.leaf s c).2

variable {T : Asg → Prop} {P : CParams S C K O} {V : View S C K O} {R : S → S → Prop}

theorem search_succ (P : CParams S C K O) (fuel : Nat) (s : S) (c : C) :
    search P (fuel + 1) s c =
      (match P.pick s c with
       | none => P.leaf s c
       | some idx =>
         let g := P.goal s c idx
         let r1 := cubeLoop P (fun s' c' => search P fuel s' c') c idx g (P.cubes s c idx g) s
         let f := P.flipStep r1.1 c idx g
         match f.2 with
         | some c' => let r2 := search P fuel f.1 c'; (r2.1, r1.2 ++ r2.2)
         | none => (f.1, r1.2)) := rfl

theorem cubeLoop_lock (hP : CSound T P V) (hL : LockLaws P V R) (rec : S → C → S × List O) (s0 : S) (c : C)
    (idx : Nat) (hinv : V.Inv s0 c) (hp : P.pick s0 c = some idx)
    (hrec : ∀ s' c', V.Inv s' c' → V.mu c < V.mu c' → Spec T V s' c' (rec s' c'))
    (hrecL : ∀ s1 s1' c', R s1 s1' → V.Inv s1 c' → V.mu c < V.mu c' →
      R (rec s1 c').1 (rec s1' c').1 ∧ (rec s1' c').2 = (rec s1 c').2) :
    ∀ (l : List K) (s s' : S), V.Le s0 s → R s s' → (∀ cu ∈ l, cu ∈ P.cubes s0 c idx (P.goal s0 c idx)) →
      R (cubeLoop P rec c idx (P.goal s0 c idx) l s).1 (cubeLoop P rec c idx (P.goal s0 c idx) l s').1 ∧
      (cubeLoop P rec c idx (P.goal s0 c idx) l s').2 = (cubeLoop P rec c idx (P.goal s0 c idx) l s).2 := by
  intro l
  induction l with
  | nil => intro s s' _ hr _; exact ⟨hr, rfl⟩
  | cons cu cus ih =>
    intro s s' hle hr hmem
    have ⟨st1, st2, _⟩ := hP.cube_step s0 s c idx cu hinv hp hle (hmem cu (List.mem_cons_self ..))
    have ⟨k1, k2⟩ := hL.cubeStep s s' c idx (P.goal s0 c idx) cu hr (hP.inv_mono _ _ _ hinv hle)
    simp only [cubeLoop]
    rw [k2]
    cases hc : (P.cubeStep s c idx (P.goal s0 c idx) cu).2 with
    | none =>
      simp only
      have ⟨a, b⟩ := ih _ _ (hP.le_trans _ _ _ hle st1) k1
        (fun cu' hcu' => hmem cu' (List.mem_cons_of_mem _ hcu'))
      exact ⟨a, by rw [b]⟩
    | some c' =>
      simp only
      have ⟨i1, i2, _, _⟩ := st2 c' hc
      have sp := hrec _ c' i1 i2
      have ⟨q1, q2⟩ := hrecL _ _ c' k1 i1 i2
      have ⟨a, b⟩ := ih _ _ (hP.le_trans _ _ _ hle (hP.le_trans _ _ _ st1 sp.le)) q1
        (fun cu' hcu' => hmem cu' (List.mem_cons_of_mem _ hcu'))
      exact ⟨a, by rw [b, q2]⟩

/-- **lock step**: two runs from `R`-related stores emit the same outputs in the same order and end
in `R`-related stores -/
theorem search_lock (hP : CSound T P V) (hL : LockLaws P V R) : ∀ (fuel : Nat) (s s' : S) (c : C),
    V.Inv s c → R s s' → V.n - V.mu c < fuel →
    R (search P fuel s c).1 (search P fuel s' c).1 ∧ (search P fuel s' c).2 = (search P fuel s c).2 := by
  intro fuel
  induction fuel with
  | zero => intro s s' c _ _ h; omega
  | succ f ih =>
    intro s s' c hinv hr hf
    rw [search_succ, search_succ, hL.pick s s' c hr hinv]
    cases hp : P.pick s c with
    | none => simp only; exact hL.leaf s s' c hr hinv
    | some idx =>
      simp only
      rw [hL.goal s s' c idx hr hinv, hL.cubes s s' c idx _ hr hinv]
      have hb := hP.bound s c hinv (by rw [hp]; simp)
      have hrec : ∀ s' c', V.Inv s' c' → V.mu c < V.mu c' →
          Spec T V s' c' (search P f s' c') := fun s' c' hi hd => search_spec hP f s' c' hi (by omega)
      have hrecL : ∀ s1 s1' c', R s1 s1' → V.Inv s1 c' → V.mu c < V.mu c' →
          R (search P f s1 c').1 (search P f s1' c').1 ∧ (search P f s1' c').2 = (search P f s1 c').2 :=
        fun s1 s1' c' h1 h2 h3 => ih s1 s1' c' h2 h1 (by omega)
      have ⟨l1, _⟩ := cubeLoop_spec hP (fun s' c' => search P f s' c') s c idx hinv hp hrec
        (P.cubes s c idx (P.goal s c idx)) s (hP.le_refl s) (fun _ h => h) (hP.cube_disj s c idx hinv hp)
      have ⟨c1, c2⟩ := cubeLoop_lock hP hL (fun s' c' => search P f s' c') s c idx hinv hp hrec hrecL
        (P.cubes s c idx (P.goal s c idx)) s s' (hP.le_refl s) hr (fun _ h => h)
      have ⟨f1, f2, _⟩ := hP.flip_step s _ c idx hinv hp l1
      have ⟨g1, g2⟩ := hL.flipStep _ _ c idx (P.goal s c idx) c1 (hP.inv_mono _ _ _ hinv l1)
      rw [g2, c2]
      cases hc : (P.flipStep (cubeLoop P (fun s' c' => search P f s' c') c idx (P.goal s c idx)
          (P.cubes s c idx (P.goal s c idx)) s).1 c idx (P.goal s c idx)).2 with
      | none => simp only; exact ⟨g1, trivial⟩
      | some c' =>
        simp only
        have ⟨i1, i2, _, _⟩ := f2 c' hc
        have ⟨q1, q2⟩ := hrecL _ _ c' g1 i1 i2
        exact ⟨q1, by rw [q2]⟩

end GK
