import AdfObdd.NgHalt
/-! the closure facts `cl_flip` / `cl_direct` for the concrete (bucketed, repaired: `n + 1`
    buckets indexed by size) `conclusions` on fixed-length vectors -/

/-- buckets by size, as the repaired `add_ng` builds them (membership view): `n + 1` buckets,
bucket `k` holds the nogoods of size `k` (the empty nogood sits in bucket 0) -/
def bucketsOf (n : Nat) (flat : List PA) : List (List PA) :=
  (List.range (n + 1)).map (fun k => flat.filter (fun g => size g == k))

theorem mem_bucketsOf {n : Nat} {flat : List PA} {b : List PA} (h : b ∈ bucketsOf n flat) :
    ∀ g ∈ b, g ∈ flat := by
  unfold bucketsOf at h
  rw [List.mem_map] at h
  obtain ⟨k, _, rfl⟩ := h
  intro g hg; exact (List.mem_filter.mp hg).1

/-! ### size lemmas on vectors -/

theorem size_cons (a : Option Bool) (l : PA) : size (a :: l) = (if a.isSome then 1 else 0) + size l := by
  cases a <;> simp [size] <;> omega

theorem pget_cons_zero (a : Option Bool) (l : PA) : pget (a :: l) 0 = a := by simp [pget]
theorem pget_cons_succ (a : Option Bool) (l : PA) (i : Nat) : pget (a :: l) (i+1) = pget l i := by simp [pget]

/-- S2: a sub-assignment has at most as many decided positions (same length) -/
theorem size_mono : ∀ (g A : PA), g.length = A.length → PSub g A → size g ≤ size A := by
  intro g
  induction g with
  | nil => intro A _ _; simp [size]
  | cons x g ih =>
    intro A hl hs
    cases A with
    | nil => simp at hl
    | cons y A =>
      have hs' : PSub g A := fun i b h => by
        have := hs (i+1) b (by rw [pget_cons_succ]; exact h)
        rwa [pget_cons_succ] at this
      have := ih A (by simpa using hl) hs'
      rw [size_cons, size_cons]
      cases x with
      | none => simp; omega
      | some b =>
        have := hs 0 b (by rw [pget_cons_zero])
        rw [pget_cons_zero] at this; subst this; simp; omega

/-- S1: deciding an undecided in-range position adds one -/
theorem size_setAt : ∀ (l : PA) (v : Nat) (b : Bool), v < l.length → pget l v = none →
    size (setAt l v b) = size l + 1 := by
  intro l v b hv hn
  have hset : setAt l v b = l.set v (some b) := by unfold setAt; rw [if_pos hv]
  rw [hset]
  clear hset
  induction l generalizing v with
  | nil => simp at hv
  | cons x l ih =>
    cases v with
    | zero =>
      rw [pget_cons_zero] at hn; subst hn
      simp [size_cons]; omega
    | succ v =>
      rw [pget_cons_succ] at hn
      simp only [List.set_cons_succ, size_cons]
      rw [ih v (by simpa using hv) hn]; omega

theorem setAt_length (l : PA) (v : Nat) (b : Bool) (hv : v < l.length) : (setAt l v b).length = l.length := by
  unfold setAt; rw [if_pos hv]; simp

/-! ### how `conclude` reacts to the two kinds of nogoods -/

theorem conclude_closed {g H : PA} (h : Closed g H) : conclude g H = none := by
  obtain ⟨i, c, hg, hH⟩ := h
  have hm : mismatch g H = true := by
    unfold mismatch
    rw [List.any_eq_true]
    refine ⟨i, List.mem_range.mpr (pget_lt hg), ?_⟩
    simp only [hg, hH]
    cases c <;> rfl
  unfold conclude
  cases implPos g H with
  | nil => rfl
  | cons p rest =>
    cases rest with
    | nil => simp [hm]
    | cons _ _ => rfl

theorem violating_closed {g H R : PA} (h : Closed g H) (hs : PSub H R) : violating g R = false := by
  obtain ⟨i, c, hg, hH⟩ := h
  cases hv : violating g R with
  | false => rfl
  | true =>
    have := (violating_iff g R).mp hv i c hg
    rw [hs i _ hH] at this
    cases c <;> simp at this

/-- a nogood that extends `C` and is not bigger is `C` (pointwise) -/
theorem pget_eq_of_sub_size : ∀ (C g : PA), C.length = g.length → PSub C g → size g ≤ size C →
    ∀ i, pget g i = pget C i := by
  intro C
  induction C with
  | nil =>
    intro g hl _ _ i
    have : g = [] := by cases g with | nil => rfl | cons _ _ => simp at hl
    subst this; rfl
  | cons x C ih =>
    intro g hl hs hsz i
    cases g with
    | nil => simp at hl
    | cons y g =>
      have hs' : PSub C g := fun j b h => by
        have := hs (j+1) b (by rw [pget_cons_succ]; exact h)
        rwa [pget_cons_succ] at this
      have hl' : C.length = g.length := by simpa using hl
      have hmono := size_mono C g hl' hs'
      rw [size_cons, size_cons] at hsz
      cases i with
      | zero =>
        rw [pget_cons_zero, pget_cons_zero]
        cases x with
        | some b =>
          have := hs 0 b (by rw [pget_cons_zero])
          rw [pget_cons_zero] at this; exact this
        | none =>
          cases y with
          | none => rfl
          | some _ => simp at hsz; omega
      | succ i =>
        rw [pget_cons_succ, pget_cons_succ]
        apply ih g hl' hs'
        cases x with
        | none => cases y <;> simp at hsz <;> omega
        | some b =>
          have h0 := hs 0 b (by rw [pget_cons_zero])
          rw [pget_cons_zero] at h0; subst h0
          simp at hsz; omega

theorem conclude_congr {g g' H : PA} (hl : g.length = g'.length) (h : ∀ i, pget g i = pget g' i) :
    conclude g H = conclude g' H := by
  have hi : implPos g H = implPos g' H := by
    unfold implPos; rw [hl]
    apply List.filter_congr; intro i _; rw [h i]
  have hm : mismatch g H = mismatch g' H := by
    unfold mismatch; rw [hl]
    congr 1; funext i; rw [h i]
  unfold conclude
  rw [hi, hm]
  cases implPos g' H with
  | nil => rfl
  | cons p rest =>
    cases rest with
    | nil => simp only [h p]
    | cons _ _ => rfl

theorem filter_range_single (n v : Nat) (hv : v < n) (p : Nat → Bool) (hp : ∀ i, i < n → (p i = true ↔ i = v)) :
    (List.range n).filter p = [v] := by
  induction n with
  | zero => omega
  | succ n ih =>
    rw [List.range_succ, List.filter_append]
    by_cases hvn : v = n
    · subst hvn
      have h1 : (List.range v).filter p = [] := by
        rw [List.filter_eq_nil_iff]
        intro i hi hpi
        have := (hp i (by have := List.mem_range.mp hi; omega)).mp hpi
        have := List.mem_range.mp hi; omega
      have h2 : [v].filter p = [v] := by
        have := (hp v (by omega)).mpr rfl
        simp [this]
      rw [h1, h2]; rfl
    · have h1 := ih (by omega) (fun i hi => hp i (by omega))
      have h2 : [n].filter p = [] := by
        have : p n = false := by
          cases hpn : p n with
          | false => rfl
          | true => exact absurd ((hp n (by omega)).mp hpn).symm hvn
        simp [this]
      rw [h1, h2]; rfl

/-- the freshly learned nogood concludes the flipped literal -/
theorem conclude_flip (H : PA) (v : Nat) (b : Bool) (hv : v < H.length) (hn : pget H v = none) :
    conclude (setAt H v b) H = some (v, !b) := by
  have hlen := setAt_length H v b hv
  have hi : implPos (setAt H v b) H = [v] := by
    unfold implPos; rw [hlen]
    apply filter_range_single _ _ hv
    intro i _
    rw [pget_setAt]
    by_cases e : i = v
    · subst e; simp [hn]
    · rw [if_neg e]
      constructor
      · intro h
        simp only [Bool.and_eq_true] at h
        cases hg : pget H i with
        | none => simp [hg] at h
        | some c => simp [hg] at h
      · intro h; exact absurd h e
  have hm : mismatch (setAt H v b) H = false := by
    unfold mismatch
    rw [List.any_eq_false]
    intro i _
    rw [pget_setAt]
    by_cases e : i = v
    · subst e; simp [hn]
    · rw [if_neg e]
      cases pget H i with
      | none => simp
      | some c => simp
  unfold conclude
  rw [hi, hm]
  simp [pget_setAt]

theorem size_le_length (l : PA) : size l ≤ l.length := by
  unfold size; exact List.length_filter_le _ _

theorem setAt_idem (H : PA) (v : Nat) (x : Bool) (hv : v < H.length) :
    setAt (setAt H v x) v x = setAt H v x := by
  have h1 : setAt H v x = H.set v (some x) := by unfold setAt; rw [if_pos hv]
  rw [h1]
  have h2 : v < (H.set v (some x)).length := by simpa using hv
  unfold setAt; rw [if_pos h2]; simp

section flip
variable (n : Nat) (flat : List PA) (H : PA) (v : Nat) (b : Bool)

/-- the premises under which the closure must flip the popped choice -/
structure FlipPre : Prop where
  hlen : H.length = n
  hv : v < n
  hn : pget H v = none
  glen : ∀ g ∈ flat, g.length = n
  cmem : setAt H v b ∈ flat
  cls : ∀ g ∈ flat, Closed g H ∨ PSub (setAt H v b) g

variable {n flat H v b}

theorem FlipPre.sizeC (h : FlipPre n flat H v b) : size (setAt H v b) = size H + 1 :=
  size_setAt H v b (by rw [h.hlen]; exact h.hv) h.hn

theorem FlipPre.sizeH (h : FlipPre n flat H v b) : size H < n := by
  have := size_le_length (setAt H v b)
  rw [setAt_length H v b (by rw [h.hlen]; exact h.hv), h.hlen, h.sizeC] at this
  omega

/-- members of the buckets `conclusions` looks at -/
theorem FlipPre.relevant_mem (h : FlipPre n flat H v b) {bk : List PA}
    (hb : bk ∈ relevant (bucketsOf n flat) H) {g : PA} (hg : g ∈ bk) : g ∈ flat ∧ size g ≤ size H + 1 := by
  unfold relevant bucketsOf at hb
  rw [← List.map_take, List.mem_map] at hb
  obtain ⟨k, hk, rfl⟩ := hb
  have hk' : k < size H + 2 := by
    have := List.mem_take_iff_getElem.mp hk
    obtain ⟨i, hi, rfl⟩ := this
    simp at hi ⊢; omega
  have ⟨hgf, hsz⟩ := List.mem_filter.mp hg
  have : size g = k := by simpa using hsz
  exact ⟨hgf, by omega⟩

theorem FlipPre.dich (h : FlipPre n flat H v b) {g : PA} (hg : g ∈ flat) (hsz : size g ≤ size H + 1) :
    (conclude g H = none ∨ conclude g H = some (v, !b)) ∧
    violating g (setAt H v (!b)) = false ∧ violating g H = false := by
  have hvH : v < H.length := by rw [h.hlen]; exact h.hv
  rcases h.cls g hg with hc | hs
  · exact ⟨Or.inl (conclude_closed hc), violating_closed hc (psub_setAt _ h.hn), violating_closed hc (PSub.refl _)⟩
  · have hl : (setAt H v b).length = g.length := by rw [setAt_length H v b hvH, h.hlen, h.glen g hg]
    have hpt := pget_eq_of_sub_size (setAt H v b) g hl hs (by rw [h.sizeC]; exact hsz)
    have hgv : pget g v = some b := by rw [hpt v, pget_setAt]; simp
    refine ⟨Or.inr ?_, ?_, ?_⟩
    · rw [conclude_congr hl.symm hpt, conclude_flip H v b hvH h.hn]
    · cases hvi : violating g (setAt H v (!b)) with
      | false => rfl
      | true =>
        have := (violating_iff g _).mp hvi v b hgv
        rw [pget_setAt] at this; simp at this
    · cases hvi : violating g H with
      | false => rfl
      | true =>
        have := (violating_iff g _).mp hvi v b hgv
        rw [h.hn] at this; cases this
end flip

section flip2
variable {n : Nat} {flat : List PA} {H : PA} {v : Nat} {b : Bool}

theorem mergePairs_flip (hvH : v < H.length) : ∀ (ps : List (Nat × Bool)) (acc : PA),
    (acc = H ∨ acc = setAt H v (!b)) → (∀ x ∈ ps, x = (v, !b)) → ps ≠ [] →
    mergePairs acc ps = setAt H v (!b) := by
  intro ps
  induction ps with
  | nil => intro _ _ _ h; exact absurd rfl h
  | cons x ps ih =>
    intro acc hacc hall _
    have hx := hall x (List.mem_cons_self ..)
    subst hx
    unfold mergePairs
    simp only [List.foldl_cons]
    have hstep : setAt acc v (!b) = setAt H v (!b) := by
      rcases hacc with rfl | rfl
      · rfl
      · exact setAt_idem H v (!b) hvH
    rw [hstep]
    cases ps with
    | nil => rfl
    | cons y ps' =>
      exact ih (setAt H v (!b)) (Or.inr rfl) (fun z hz => hall z (List.mem_cons_of_mem _ hz)) (by simp)

theorem bucketStep_flip (hvH : v < H.length) (hn : pget H v = none) (bk : List PA)
    (hd : ∀ g ∈ bk, conclude g H = none ∨ conclude g H = some (v, !b)) (acc : PA)
    (hacc : acc = H ∨ acc = setAt H v (!b)) :
    (bk.filterMap (fun g => conclude g H) = [] ∧ bucketStep H (some acc) bk = some acc) ∨
    (bk.filterMap (fun g => conclude g H) ≠ [] ∧ bucketStep H (some acc) bk = some (setAt H v (!b))) := by
  have hall : ∀ x ∈ bk.filterMap (fun g => conclude g H), x = (v, !b) := by
    intro x hx
    rw [List.mem_filterMap] at hx
    obtain ⟨g, hg, hc⟩ := hx
    rcases hd g hg with h | h
    · rw [h] at hc; cases hc
    · rw [h] at hc; cases hc; rfl
  unfold bucketStep
  simp only
  generalize bk.filterMap (fun g => conclude g H) = pairs at *
  cases hp : pairs with
  | nil => left; simp
  | cons x rest =>
    right
    refine ⟨by simp, ?_⟩
    rw [← hp]
    have hne : pairs ≠ [] := by rw [hp]; simp
    have hcons : consistentPairs pairs = true := by
      unfold consistentPairs
      rw [List.all_eq_true]; intro a ha
      rw [List.all_eq_true]; intro c hc
      rw [hall a ha, hall c hc]; simp
    have hemp : pairs.isEmpty = false := by rw [hp]; rfl
    rw [if_neg (by simp [hemp, hcons])]
    have hcontra : pairs.any (fun x => pget acc x.1 == some (!x.2)) = false := by
      rw [List.any_eq_false]; intro a ha
      rw [hall a ha]
      rcases hacc with rfl | rfl
      · simp [hn]
      · simp [pget_setAt]
    rw [if_neg (by simp [hcontra])]
    rw [mergePairs_flip hvH pairs acc hacc hall hne]

theorem fold_flip (hvH : v < H.length) (hn : pget H v = none) : ∀ (bs : List (List PA)) (acc : PA),
    (∀ bk ∈ bs, ∀ g ∈ bk, conclude g H = none ∨ conclude g H = some (v, !b)) →
    (acc = H ∨ acc = setAt H v (!b)) →
    (bs.foldl (bucketStep H) (some acc) = some (setAt H v (!b))) ∨
    (bs.foldl (bucketStep H) (some acc) = some acc ∧ ∀ bk ∈ bs, bk.filterMap (fun g => conclude g H) = []) := by
  intro bs
  induction bs with
  | nil => intro acc _ _; right; exact ⟨rfl, fun _ h => by cases h⟩
  | cons bk bs ih =>
    intro acc hd hacc
    simp only [List.foldl_cons]
    have hd' : ∀ bk' ∈ bs, ∀ g ∈ bk', conclude g H = none ∨ conclude g H = some (v, !b) :=
      fun bk' h => hd bk' (List.mem_cons_of_mem _ h)
    rcases bucketStep_flip hvH hn bk (hd bk (List.mem_cons_self ..)) acc hacc with ⟨he, hs⟩ | ⟨_, hs⟩
    · rw [hs]
      rcases ih acc hd' hacc with h | ⟨h1, h2⟩
      · left; exact h
      · right; refine ⟨h1, ?_⟩
        intro x hx
        rcases List.mem_cons.mp hx with rfl | hx
        · exact he
        · exact h2 x hx
    · rw [hs]
      rcases ih (setAt H v (!b)) hd' (Or.inr rfl) with h | ⟨h1, _⟩
      · left; exact h
      · left; exact h1

/-- `cl_flip` at the level of one `conclusions` call, for any bucket structure `bs` in which the
buckets looked at contain only nogoods of `flat` of size at most `size H + 1` and one of them
contains the fresh nogood -/
theorem conclusions_flip_gen {bs : List (List PA)} (h : FlipPre n flat H v b)
    (hmem : ∀ bk ∈ relevant bs H, ∀ g ∈ bk, g ∈ flat ∧ size g ≤ size H + 1)
    (hhas : ∃ bk ∈ relevant bs H, setAt H v b ∈ bk) :
    conclusions bs H = some (setAt H v (!b)) := by
  have hvH : v < H.length := by rw [h.hlen]; exact h.hv
  have hd : ∀ bk ∈ relevant bs H, ∀ g ∈ bk,
      conclude g H = none ∨ conclude g H = some (v, !b) := by
    intro bk hb g hg
    have ⟨hgf, hsz⟩ := hmem bk hb g hg
    exact (h.dich hgf hsz).1
  -- the bucket of the fresh nogood is looked at and concludes something
  obtain ⟨bkC, hbucket, hCin⟩ := hhas
  have hnonempty : bkC.filterMap (fun g => conclude g H) ≠ [] := by
    intro he
    have : (v, !b) ∈ bkC.filterMap (fun g => conclude g H) := by
      rw [List.mem_filterMap]; exact ⟨_, hCin, conclude_flip H v b hvH h.hn⟩
    rw [he] at this; cases this
  unfold conclusions
  rcases fold_flip hvH h.hn (relevant bs H) H hd (Or.inl rfl) with hf | ⟨_, hall⟩
  · rw [hf]
    simp only
    have hany : (relevant bs H).any
        (fun bk => bk.any (fun e => violating e (setAt H v (!b)) || violating e H)) = false := by
      rw [List.any_eq_false]; intro bk hb
      rw [Bool.not_eq_true, List.any_eq_false]; intro g hg
      have ⟨hgf, hsz⟩ := hmem bk hb g hg
      have ⟨_, h1, h2⟩ := h.dich hgf hsz
      simp [h1, h2]
    rw [if_neg (by simp [hany])]
  · exact absurd (hall _ hbucket) hnonempty

/-- `cl_flip` at the level of one `conclusions` call on the store re-bucketed from a flat list -/
theorem conclusions_flip (h : FlipPre n flat H v b) :
    conclusions (bucketsOf n flat) H = some (setAt H v (!b)) := by
  apply conclusions_flip_gen h (fun bk hb g hg => h.relevant_mem hb hg)
  refine ⟨flat.filter (fun g => size g == size H + 1), ?_, ?_⟩
  · unfold relevant bucketsOf
    rw [← List.map_take, List.mem_map]
    refine ⟨size H + 1, ?_, rfl⟩
    rw [List.mem_take_iff_getElem]
    have hsz := h.sizeH
    refine ⟨size H + 1, by simp; omega, by simp⟩
  · rw [List.mem_filter]; exact ⟨h.cmem, by simp [h.sizeC]⟩
#print axioms conclusions_flip
end flip2

/-! ### the closure loop (`conclusion_closure`) -/

/-- `update_term_vec`: positions decided in `val` overwrite `v`; the flag says whether an
undecided position of `v` became decided -/
def updateVec (val v : PA) : PA × Bool :=
  ((List.range v.length).map (fun i => match pget val i with | some b => some b | none => pget v i),
   (List.range v.length).any (fun i => (pget val i).isSome && (pget v i).isNone))

def closureLoop (buckets : List (List PA)) : Nat → PA → Closure
  | 0, r => Closure.update r
  | fuel+1, r =>
    match conclusions buckets r with
    | none => Closure.inconsistent
    | some val =>
      let u := updateVec val r
      if u.2 then closureLoop buckets fuel u.1 else Closure.update u.1

def conclusionClosure (buckets : List (List PA)) (interp : PA) : Closure :=
  match conclusions buckets interp with
  | none => Closure.inconsistent
  | some val =>
    let u := updateVec val interp
    if !u.2 then Closure.noUpdate else closureLoop buckets (interp.length + 1) u.1

theorem pget_updateVec (val v : PA) (i : Nat) (hi : i < v.length) :
    pget (updateVec val v).1 i = (match pget val i with | some b => some b | none => pget v i) := by
  unfold updateVec pget
  simp [hi]

theorem updateVec_length (val v : PA) : (updateVec val v).1.length = v.length := by
  simp [updateVec]

/-- one `conclusions` call: a stored nogood contained in the interpretation is reported (the
empty nogood included: it sits in bucket 0, which is always looked at) -/
theorem conclusions_direct (n : Nat) (flat : List PA) (A g : PA) (hg : g ∈ flat) (hl : g.length = A.length)
    (hs : PSub g A) (hn : size A ≤ n) :
    conclusions (bucketsOf n flat) A = none := by
  have hsize := size_mono g A hl hs
  have hviol : violating g A = true := (violating_iff g A).mpr hs
  have hbucket : flat.filter (fun x => size x == size g) ∈ relevant (bucketsOf n flat) A := by
    unfold relevant bucketsOf
    rw [← List.map_take, List.mem_map]
    refine ⟨size g, ?_, rfl⟩
    rw [List.mem_take_iff_getElem]
    refine ⟨size g, by simp; omega, by simp⟩
  have hgin : g ∈ flat.filter (fun x => size x == size g) := by
    rw [List.mem_filter]; exact ⟨hg, by simp⟩
  unfold conclusions
  cases hf : (relevant (bucketsOf n flat) A).foldl (bucketStep A) (some A) with
  | none => rfl
  | some result =>
    simp only
    rw [if_pos]
    rw [List.any_eq_true]
    refine ⟨_, hbucket, ?_⟩
    rw [List.any_eq_true]
    exact ⟨g, hgin, by simp [hviol]⟩

/-- `cl_direct` for the concrete closure: a stored nogood contained in the interpretation is
reported (no non-emptiness side condition after the D10 repair) -/
theorem closure_direct (n : Nat) (flat : List PA) (A g : PA) (hg : g ∈ flat) (hl : g.length = A.length)
    (hs : PSub g A) (hn : size A ≤ n) :
    conclusionClosure (bucketsOf n flat) A = Closure.inconsistent := by
  have hnone : conclusions (bucketsOf n flat) A = none := conclusions_direct n flat A g hg hl hs hn
  unfold conclusionClosure
  rw [hnone]
#print axioms closure_direct

/-- nothing to conclude and nothing violated when every nogood that is looked at has a literal
complemented in the interpretation -/
theorem conclusions_allclosed_gen (bs : List (List PA)) (A : PA)
    (h : ∀ bk ∈ relevant bs A, ∀ g ∈ bk, Closed g A) : conclusions bs A = some A := by
  have hstep : ∀ bk ∈ relevant bs A, bucketStep A (some A) bk = some A := by
    intro bk hb
    have : bk.filterMap (fun g => conclude g A) = [] := by
      rw [List.filterMap_eq_nil_iff]
      intro g hg; exact conclude_closed (h bk hb g hg)
    unfold bucketStep; simp [this]
  have hfold : ∀ (bs : List (List PA)), (∀ bk ∈ bs, bucketStep A (some A) bk = some A) →
      bs.foldl (bucketStep A) (some A) = some A := by
    intro bs
    induction bs with
    | nil => intro _; rfl
    | cons bk bs ih =>
      intro hb
      simp only [List.foldl_cons]
      rw [hb bk (List.mem_cons_self ..)]
      exact ih (fun x hx => hb x (List.mem_cons_of_mem _ hx))
  unfold conclusions
  rw [hfold _ hstep]
  simp only
  rw [if_neg]
  rw [Bool.not_eq_true, List.any_eq_false]; intro bk hb
  rw [Bool.not_eq_true, List.any_eq_false]; intro g hg
  have := violating_closed (h bk hb g hg) (PSub.refl A)
  simp [this]

theorem conclusions_allclosed (n : Nat) (flat : List PA) (A : PA) (h : ∀ g ∈ flat, Closed g A) :
    conclusions (bucketsOf n flat) A = some A :=
  conclusions_allclosed_gen _ A (fun bk hb g hg => h g (mem_bucketsOf (List.mem_of_mem_take hb) g hg))

theorem list_ext_pget {l l' : PA} (hl : l.length = l'.length) (h : ∀ i, i < l.length → pget l i = pget l' i) :
    l = l' := by
  apply List.ext_getElem hl
  intro i h1 h2
  have := h i h1
  unfold pget at this
  rw [List.getElem?_eq_getElem h1, List.getElem?_eq_getElem h2] at this
  simpa using this

theorem updateVec_self_of_sub {R A : PA} (hl : R.length = A.length) (hs : PSub A R) :
    (updateVec R A).1 = R := by
  apply list_ext_pget (by rw [updateVec_length, hl])
  intro i hi
  rw [updateVec_length] at hi
  rw [pget_updateVec R A i hi]
  cases hr : pget R i with
  | some b => rfl
  | none =>
    cases ha : pget A i with
    | none => rfl
    | some b => have := hs i b ha; rw [hr] at this; cases this

/-- `cl_flip` for the concrete closure on any bucket structure: all stored nogoods belong to
`flat`, the buckets looked at hold sizes `≤ size H + 1`, one of them holds the fresh nogood -/
theorem closure_flip_gen {n : Nat} {flat : List PA} {H : PA} {v : Nat} {b : Bool} {bs : List (List PA)}
    (h : FlipPre n flat H v b) (hall : ∀ bk ∈ bs, ∀ g ∈ bk, g ∈ flat)
    (hsz : ∀ bk ∈ relevant bs H, ∀ g ∈ bk, size g ≤ size H + 1)
    (hhas : ∃ bk ∈ relevant bs H, setAt H v b ∈ bk) :
    conclusionClosure bs H = Closure.update (setAt H v (!b)) := by
  have hvH : v < H.length := by rw [h.hlen]; exact h.hv
  have hRlen : (setAt H v (!b)).length = H.length := setAt_length H v (!b) hvH
  have hsub : PSub H (setAt H v (!b)) := psub_setAt _ h.hn
  have hu1 : (updateVec (setAt H v (!b)) H).1 = setAt H v (!b) := updateVec_self_of_sub hRlen hsub
  have hu2 : (updateVec (setAt H v (!b)) H).2 = true := by
    unfold updateVec
    simp only
    rw [List.any_eq_true]
    refine ⟨v, List.mem_range.mpr hvH, ?_⟩
    simp [pget_setAt, h.hn]
  -- after the flip every stored nogood is complemented
  have hclosed : ∀ g ∈ flat, Closed g (setAt H v (!b)) := by
    intro g hg
    rcases h.cls g hg with hc | hs
    · exact hc.mono hsub
    · exact ⟨v, b, hs v b (by rw [pget_setAt]; simp), by rw [pget_setAt]; simp⟩
  have h2 := conclusions_allclosed_gen bs (setAt H v (!b))
    (fun bk hb g hg => hclosed g (hall bk (relevant_sub hb) g hg))
  have hu3 : (updateVec (setAt H v (!b)) (setAt H v (!b))).1 = setAt H v (!b) :=
    updateVec_self_of_sub rfl (PSub.refl _)
  have hu4 : (updateVec (setAt H v (!b)) (setAt H v (!b))).2 = false := by
    unfold updateVec
    simp only
    rw [List.any_eq_false]
    intro i _
    cases pget (setAt H v (!b)) i <;> simp
  unfold conclusionClosure
  rw [conclusions_flip_gen h (fun bk hb g hg => ⟨hall bk (relevant_sub hb) g hg, hsz bk hb g hg⟩) hhas]
  simp only [hu1, hu2]
  unfold closureLoop
  rw [h2]
  simp only [hu3, hu4]
  rfl

/-- `cl_flip` for the concrete closure on the store re-bucketed from a flat list -/
theorem closure_flip {n : Nat} {flat : List PA} {H : PA} {v : Nat} {b : Bool} (h : FlipPre n flat H v b) :
    conclusionClosure (bucketsOf n flat) H = Closure.update (setAt H v (!b)) := by
  apply closure_flip_gen h (fun bk hb g hg => mem_bucketsOf hb g hg)
    (fun bk hb g hg => (h.relevant_mem hb hg).2)
  refine ⟨flat.filter (fun g => size g == size H + 1), ?_, ?_⟩
  · unfold relevant bucketsOf
    rw [← List.map_take, List.mem_map]
    refine ⟨size H + 1, ?_, rfl⟩
    rw [List.mem_take_iff_getElem]
    have hsz := h.sizeH
    refine ⟨size H + 1, by simp; omega, by simp⟩
  · rw [List.mem_filter]; exact ⟨h.cmem, by simp [h.sizeC]⟩
#print axioms closure_flip
