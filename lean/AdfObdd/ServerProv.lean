import AdfObdd.ServerStale
/-! # C16 / C17 — provenance of everything stored, for EVERY history (any environment)

`Effect`: the seven ways one event changes the problem collection and the task list (`stepEv_effect`:
every event has one of them). `Prov`: whatever the history - deletions, account removals and renames
included - every stored framework is the environment's parse result, and every stored strategy result
the environment's answer, for some (parsing, code) RECORDED FOR THE DOCUMENT'S KEY (user name, problem
name); recorded for a key are the codes of all documents that ever carried the key and, after a
rename `u → u'`, what was recorded for the old key (`subsStep` / `subsRun`). Core Lean only. -/
namespace ServerM
section
variable {T H A R : Type} [DecidableEq T]

/-- how one event changes problems and tasks -/
inductive Effect (E : Env T H A R) (st : State T H A R) (e : Event T) (db' : Db T H A R) : Prop where
  | keep (hp : db'.problems = st.db.problems) (ht : TasksFrom db'.tasks st.db.tasks)
  | write (t : TaskRec T A) (htm : t ∈ st.db.tasks) (w : Write A R)
      (hw : w = taskWrite E t.input ∨ w = timeoutWrite t.input)
      (hp : db'.problems = updFirst (isProb t.username t.name) w.apply st.db.problems)
      (ht : TasksFrom db'.tasks st.db.tasks)
  | add (u n c : T) (pg : Parsing) (t0 : TaskRec T A) (hnone : st.db.problems.find? (isProb u n) = none)
      (h1 : t0.username = u) (h2 : t0.name = n) (h3 : t0.input = .parse c pg)
      (hp : db'.problems = st.db.problems ++ [{ name := n, username := u, code := c, parsing := pg }])
      (ht : db'.tasks = st.db.tasks ++ [t0])
  | solve (u n : T) (p : Problem T A R) (a : A) (s : Strategy) (t0 : TaskRec T A)
      (hf : st.db.problems.find? (isProb u n) = some p) (ha : p.adf = .some a)
      (h1 : t0.username = u) (h2 : t0.name = n) (h3 : t0.input = .solve a s)
      (hp : db'.problems = st.db.problems) (ht : db'.tasks = st.db.tasks ++ [t0])
  | del (u n : T) (hp : db'.problems = delFirst (isProb u n) st.db.problems) (ht : db'.tasks = st.db.tasks)
  | delAll (u : T) (hp : db'.problems = st.db.problems.filter (fun p => !ownedP u p)) (ht : db'.tasks = st.db.tasks)
  | rename (u u' : T) (hr : renameOf st e = some (u, u'))
      (hp : db'.problems = st.db.problems.map (renameDoc u u')) (ht : db'.tasks = st.db.tasks)

theorem stepEv_effect (E : Env T H A R) (st : State T H A R) (e : Event T) : Effect E st e (stepEv E st e).1.db := by
  cases e with
  | finish j n =>
    have hdb : (stepEv E st (.finish j n)).1.db = dbEv E st.db (.finish j n) := rfl
    cases ht : nthOf j n st.db.tasks with
    | none =>
      apply Effect.keep <;> rw [hdb] <;> simp only [dbEv, ht]
      exact TasksFrom.refl _
    | some t =>
      by_cases hb : t.blockingDone = true
      · apply Effect.keep <;> rw [hdb] <;> simp only [dbEv, ht, hb, if_true]
        exact TasksFrom.refl _
      · apply Effect.keep <;> rw [hdb] <;> simp only [dbEv, ht, hb, Bool.false_eq_true, if_false]
        exact tasksFrom_updNth j n (fun t => { t with blockingDone := true }) (fun _ => ⟨rfl, rfl, rfl, id⟩) _
  | write j n =>
    have hdb : (stepEv E st (.write j n)).1.db = dbEv E st.db (.write j n) := rfl
    cases ht : nthOf j n st.db.tasks with
    | none =>
      apply Effect.keep <;> rw [hdb] <;> simp only [dbEv, ht]
      exact TasksFrom.refl _
    | some t =>
      by_cases hb : (t.blockingDone && !t.written) = true
      · have hpb : (dbEv E st.db (.write j n)).problems = updFirst (isProb t.username t.name) (taskWrite E t.input).apply st.db.problems := by
          simp only [dbEv, ht, hb, if_true, exec]
        have htb : (dbEv E st.db (.write j n)).tasks = updNth j (fun t => { t with written := true }) n st.db.tasks := by
          simp only [dbEv, ht, hb, if_true, exec]
        refine Effect.write t (nthOf_mem j n _ t ht).1 _ (Or.inl rfl) (by rw [hdb]; exact hpb) ?_
        rw [hdb, htb]
        exact tasksFrom_updNth j n (fun t => { t with written := true }) (fun _ => ⟨rfl, rfl, rfl, fun hh => by cases hh⟩) _
      · apply Effect.keep <;> rw [hdb] <;> simp only [dbEv, ht, hb, Bool.false_eq_true, if_false]
        exact TasksFrom.refl _
  | timeout j n =>
    have hdb : (stepEv E st (.timeout j n)).1.db = dbEv E st.db (.timeout j n) := rfl
    cases ht : nthOf j n st.db.tasks with
    | none =>
      apply Effect.keep <;> rw [hdb] <;> simp only [dbEv, ht]
      exact TasksFrom.refl _
    | some t =>
      by_cases hb : (!t.blockingDone && !t.written) = true
      · have hpb : (dbEv E st.db (.timeout j n)).problems = updFirst (isProb t.username t.name) (timeoutWrite t.input : Write A R).apply st.db.problems := by
          simp only [dbEv, ht, hb, if_true, exec]
        have htb : (dbEv E st.db (.timeout j n)).tasks = updNth j (fun t => { t with written := true }) n st.db.tasks := by
          simp only [dbEv, ht, hb, if_true, exec]
        refine Effect.write t (nthOf_mem j n _ t ht).1 _ (Or.inr rfl) (by rw [hdb]; exact hpb) ?_
        rw [hdb, htb]
        exact tasksFrom_updNth j n (fun t => { t with written := true }) (fun _ => ⟨rfl, rfl, rfl, fun hh => by cases hh⟩) _
      · apply Effect.keep <;> rw [hdb] <;> simp only [dbEv, ht, hb, Bool.false_eq_true, if_false]
        exact TasksFrom.refl _
  | req rq =>
    obtain ⟨jar, r⟩ := rq
    have keep : (run (handler E jar (st.sess jar) r) st.db).1.problems = st.db.problems →
        (run (handler E jar (st.sess jar) r) st.db).1.tasks = st.db.tasks →
        Effect E st (.req ⟨jar, r⟩) (stepEv E st (.req ⟨jar, r⟩)).1.db := by
      intro h1 h2
      refine Effect.keep h1 ?_
      rw [show (stepEv E st (.req ⟨jar, r⟩)).1.db.tasks = _ from h2]; exact TasksFrom.refl _
    have harmless : (∀ c, Shape E jar (st.sess jar) r c → Harmless c) →
        Effect E st (.req ⟨jar, r⟩) (stepEv E st (.req ⟨jar, r⟩)).1.db := by
      intro hQ
      have := run_harmless hQ (handler_shape E jar (st.sess jar) r) st.db
      exact keep this.1 this.2
    cases r with
    | register u p salt =>
      apply harmless; intro c hc
      rcases hc with rfl | rfl <;> trivial
    | login u p => apply harmless; intro c hc; cases hc; trivial
    | logout => apply harmless; intro c hc; obtain ⟨v, _, rfl⟩ := hc; trivial
    | info => apply harmless; intro c hc; obtain ⟨v, _, rfl⟩ := hc; trivial
    | get name =>
      apply harmless; intro c hc
      obtain ⟨v, _, rfl | ⟨n, rfl⟩⟩ := hc <;> trivial
    | list =>
      apply harmless; intro c hc
      obtain ⟨v, _, rfl | ⟨n, rfl⟩⟩ := hc <;> trivial
    | malformed => apply harmless; intro c hc; cases hc
    | add name code file parsing fu fp =>
      rcases hAdd_effect E jar (st.sess jar) name code file parsing fu fp st.db with ⟨h1, h2⟩ | ⟨u, n, c, hf, h1, h2⟩
      · exact keep h1 h2
      · exact Effect.add u n c parsing _ hf rfl rfl rfl h1 h2
    | solve name s =>
      obtain ⟨h1, h2 | ⟨u, p, a, hf, ha, h2⟩⟩ := hSolve_effect (H := H) jar (st.sess jar) name s st.db
      · exact keep h1 h2
      · exact Effect.solve u name p a s _ hf ha rfl rfl rfl h1 h2
    | delete name =>
      obtain ⟨h2, h1 | ⟨u, _, h1⟩⟩ := hDelete_effect (H := H) (st.sess jar) name st.db
      · exact keep h1 h2
      · exact Effect.del u name h1 h2
    | deleteAccount =>
      obtain ⟨h2, h1 | ⟨u, _, h1⟩⟩ := hDeleteAccount_effect (H := H) (A := A) (R := R) (st.sess jar) st.db
      · exact keep h1 h2
      · exact Effect.delAll u h1 h2
    | update u' p' salt =>
      obtain ⟨h2, h1 | ⟨u, hid, h1⟩⟩ := hUpdate_effect E (st.sess jar) u' p' salt st.db
      · exact keep h1 h2
      · exact Effect.rename u u' (by simp [renameOf, hid]) h1 h2

/-! ### provenance -/

/-- the framework `a` is the parse result of one of the recorded (parsing, code) pairs -/
def FromSubs (E : Env T H A R) (S : List (Parsing × T)) (a : A) : Prop := ∃ x ∈ S, ∃ r, E.parse x.1 x.2 = .ok (a, r)

/-- what a document stores comes from the recorded codes `S` -/
def DocP (E : Env T H A R) (S : List (Parsing × T)) (p : Problem T A R) : Prop :=
  (p.parsing, p.code) ∈ S ∧ (∀ a, p.adf = .some a → FromSubs E S a) ∧
  (∀ s res, p.res.get s = .some res → ∃ a, FromSubs E S a ∧ E.solve a s = .ok res)

def TaskP (E : Env T H A R) (S : List (Parsing × T)) : TaskInput T A → Prop
  | .parse c pg => (pg, c) ∈ S
  | .solve a _ => FromSubs E S a

theorem FromSubs.mono {E : Env T H A R} {S S' : List (Parsing × T)} (h : ∀ x ∈ S, x ∈ S') {a : A} (ha : FromSubs E S a) :
    FromSubs E S' a := by
  obtain ⟨x, hx, r⟩ := ha; exact ⟨x, h x hx, r⟩

theorem DocP.mono {E : Env T H A R} {S S' : List (Parsing × T)} (h : ∀ x ∈ S, x ∈ S') {p : Problem T A R} (hp : DocP E S p) :
    DocP E S' p :=
  ⟨h _ hp.1, fun a ha => (hp.2.1 a ha).mono h, fun s res hr => by
    obtain ⟨a, h1, h2⟩ := hp.2.2 s res hr; exact ⟨a, h1.mono h, h2⟩⟩

theorem TaskP.mono {E : Env T H A R} {S S' : List (Parsing × T)} (h : ∀ x ∈ S, x ∈ S') {i : TaskInput T A} (hp : TaskP E S i) :
    TaskP E S' i := by
  cases i with
  | parse c pg => exact h _ hp
  | solve a s => exact FromSubs.mono h hp

theorem docP_taskWrite (E : Env T H A R) (S : List (Parsing × T)) (i : TaskInput T A) (p : Problem T A R) (hd : DocP E S p)
    (hok : TaskP E S i) : DocP E S ((taskWrite E i).apply p) := by
  cases i with
  | parse code parsing =>
    simp only [taskWrite]
    cases hp : E.parse parsing code with
    | error e => exact ⟨hd.1, fun a ha => (by cases ha), hd.2.2⟩
    | ok x =>
      obtain ⟨a, r⟩ := x
      refine ⟨hd.1, fun a' ha' => ?_, hd.2.2⟩
      have : (OWE.some a : OWE A) = .some a' := ha'
      cases this
      exact ⟨(parsing, code), hok, r, hp⟩
  | solve a s =>
    simp only [taskWrite]
    cases hs : E.solve a s with
    | error e =>
      refine ⟨hd.1, hd.2.1, fun s' res hr => ?_⟩
      by_cases hss : s' = s
      · subst hss
        have : (p.res.set s' (.error e)).get s' = .some res := hr
        rw [Results.get_set_same] at this; cases this
      · have : (p.res.set s (.error e)).get s' = .some res := hr
        rw [Results.get_set_other _ _ _ _ hss] at this
        exact hd.2.2 s' res this
    | ok r =>
      refine ⟨hd.1, hd.2.1, fun s' res hr => ?_⟩
      by_cases hss : s' = s
      · subst hss
        have : (p.res.set s' (.some r)).get s' = .some res := hr
        rw [Results.get_set_same] at this
        cases this
        exact ⟨a, hok, hs⟩
      · have : (p.res.set s (.some r)).get s' = .some res := hr
        rw [Results.get_set_other _ _ _ _ hss] at this
        exact hd.2.2 s' res this

theorem docP_timeoutWrite (E : Env T H A R) (S : List (Parsing × T)) (i : TaskInput T A) (p : Problem T A R) (hd : DocP E S p) :
    DocP E S ((timeoutWrite i : Write A R).apply p) := by
  cases i with
  | parse code parsing => exact ⟨hd.1, fun a ha => (by cases ha), hd.2.2⟩
  | solve a s =>
    refine ⟨hd.1, hd.2.1, fun s' res hr => ?_⟩
    by_cases hss : s' = s
    · subst hss
      have : (p.res.set s' (.error .timeout)).get s' = .some res := hr
      rw [Results.get_set_same] at this; cases this
    · have : (p.res.set s (.error .timeout)).get s' = .some res := hr
      rw [Results.get_set_other _ _ _ _ hss] at this
      exact hd.2.2 s' res this

theorem docP_rename (E : Env T H A R) (S : List (Parsing × T)) (u u' : T) (p : Problem T A R) :
    DocP E S (renameDoc u u' p) ↔ DocP E S p := by
  unfold renameDoc
  split <;> exact Iff.rfl

/-- the (parsing, code) pairs recorded for the key `(u, n)` after one event: what was recorded before,
the codes of the documents that carry the key now, and - if the event is a rename request `v → u` - what
was recorded for `(v, n)` -/
def subsStep (E : Env T H A R) (st : State T H A R) (e : Event T) (sb : T → T → List (Parsing × T)) :
    T → T → List (Parsing × T) := fun u n =>
  sb u n ++ ((stepEv E st e).1.db.problems.filter (isProb u n)).map (fun p => (p.parsing, p.code)) ++
  (match renameOf st e with
   | some (v, v') => if v' = u then sb v n else []
   | none => [])

def subsRun (E : Env T H A R) : State T H A R → (T → T → List (Parsing × T)) → List (Event T) → T → T → List (Parsing × T)
  | _, sb, [] => sb
  | st, sb, e :: es => subsRun E (stepEv E st e).1 (subsStep E st e sb) es

theorem subsStep_old (E : Env T H A R) (st : State T H A R) (e : Event T) (sb : T → T → List (Parsing × T)) (u n : T) :
    ∀ x ∈ sb u n, x ∈ subsStep E st e sb u n := by
  intro x hx
  unfold subsStep
  simp only [List.mem_append]
  exact Or.inl (Or.inl hx)

theorem subsStep_doc (E : Env T H A R) (st : State T H A R) (e : Event T) (sb : T → T → List (Parsing × T))
    (p : Problem T A R) (hp : p ∈ (stepEv E st e).1.db.problems) :
    (p.parsing, p.code) ∈ subsStep E st e sb p.username p.name := by
  unfold subsStep
  simp only [List.mem_append]
  refine Or.inl (Or.inr ?_)
  exact List.mem_map.mpr ⟨p, List.mem_filter.mpr ⟨hp, isProb_self p⟩, rfl⟩

theorem subsStep_rename (E : Env T H A R) (st : State T H A R) (e : Event T) (sb : T → T → List (Parsing × T))
    (u u' n : T) (hr : renameOf st e = some (u, u')) : ∀ x ∈ sb u n, x ∈ subsStep E st e sb u' n := by
  intro x hx
  unfold subsStep
  simp only [List.mem_append, hr, if_true]
  exact Or.inr hx

structure Prov (E : Env T H A R) (db : Db T H A R) (sb : T → T → List (Parsing × T)) : Prop where
  docs : ∀ p ∈ db.problems, DocP E (sb p.username p.name) p
  tasks : ∀ t ∈ db.tasks, TaskP E (sb t.username t.name) t.input

theorem Prov.init (E : Env T H A R) (sb : T → T → List (Parsing × T)) : Prov E ({} : Db T H A R) sb :=
  ⟨fun p hp => (by cases hp), fun t ht => (by cases ht)⟩

theorem Prov.step (E : Env T H A R) {st : State T H A R} {sb : T → T → List (Parsing × T)} (h : Prov E st.db sb)
    (e : Event T) : Prov E (stepEv E st e).1.db (subsStep E st e sb) := by
  have old := subsStep_old E st e sb
  have tasksFrom : TasksFrom (stepEv E st e).1.db.tasks st.db.tasks →
      ∀ t ∈ (stepEv E st e).1.db.tasks, TaskP E (subsStep E st e sb t.username t.name) t.input := by
    intro ht t' ht'
    obtain ⟨t, htm, e1, e2, e3, _⟩ := ht t' ht'
    rw [e1, e2, e3]
    exact (h.tasks t htm).mono (old _ _)
  have docsSub : (∀ p ∈ (stepEv E st e).1.db.problems, p ∈ st.db.problems) →
      ∀ p ∈ (stepEv E st e).1.db.problems, DocP E (subsStep E st e sb p.username p.name) p :=
    fun hs p hp => (h.docs p (hs p hp)).mono (old _ _)
  cases stepEv_effect E st e with
  | keep hp ht => exact ⟨docsSub (fun p hp' => hp ▸ hp'), tasksFrom ht⟩
  | write t htm w hw hp ht =>
    refine ⟨fun p' hp' => ?_, tasksFrom ht⟩
    rw [hp] at hp'
    rcases mem_updFirst_r _ _ _ _ hp' with h1 | ⟨x, hx, rfl⟩
    · exact (h.docs p' h1).mono (old _ _)
    · have hk := isProb_key (List.find?_some hx)
      have hd := h.docs x (List.mem_of_find?_eq_some hx)
      rw [Write.apply_username, Write.apply_name]
      refine DocP.mono (old _ _) ?_
      rcases hw with rfl | rfl
      · refine docP_taskWrite E _ t.input x hd ?_
        rw [hk.1, hk.2]; exact h.tasks t htm
      · exact docP_timeoutWrite E _ t.input x hd
  | add u n c pg t0 hnone h1 h2 h3 hp ht =>
    refine ⟨fun p' hp' => ?_, fun t ht' => ?_⟩
    · have hin := subsStep_doc E st e sb p' hp'
      rw [hp, List.mem_append, List.mem_singleton] at hp'
      rcases hp' with h' | rfl
      · exact (h.docs p' h').mono (old _ _)
      · refine ⟨hin, fun a ha => (by cases ha), fun s res hr => ?_⟩
        have : (({} : Results R).get s) = .some res := hr
        rw [Results.get_empty] at this; cases this
    · rw [ht, List.mem_append, List.mem_singleton] at ht'
      rcases ht' with h' | rfl
      · exact (h.tasks t h').mono (old _ _)
      · rw [h1, h2, h3]
        have : ({ name := n, username := u, code := c, parsing := pg } : Problem T A R) ∈ (ServerM.stepEv E st e).1.db.problems := by
          rw [hp]; simp
        exact subsStep_doc E st e sb _ this
  | solve u n p a s t0 hf ha h1 h2 h3 hp ht =>
    refine ⟨docsSub (fun p hp' => hp ▸ hp'), fun t ht' => ?_⟩
    rw [ht, List.mem_append, List.mem_singleton] at ht'
    rcases ht' with h' | rfl
    · exact (h.tasks t h').mono (old _ _)
    · rw [h1, h2, h3]
      have hk := isProb_key (List.find?_some hf)
      have := (h.docs p (List.mem_of_find?_eq_some hf)).2.1 a ha
      rw [hk.1, hk.2] at this
      exact FromSubs.mono (old _ _) this
  | del u n hp ht =>
    exact ⟨docsSub (fun p hp' => mem_of_delFirst _ _ _ (hp ▸ hp')), tasksFrom (ht ▸ TasksFrom.refl _)⟩
  | delAll u hp ht =>
    exact ⟨docsSub (fun p hp' => (List.mem_filter.mp (hp ▸ hp')).1), tasksFrom (ht ▸ TasksFrom.refl _)⟩
  | rename u u' hr hp ht =>
    refine ⟨fun p' hp' => ?_, tasksFrom (ht ▸ TasksFrom.refl _)⟩
    rw [hp] at hp'
    obtain ⟨p, hpm, rfl⟩ := List.mem_map.mp hp'
    rw [docP_rename]
    have hd := h.docs p hpm
    by_cases ho : p.username = u
    · have hk : (renameDoc u u' p).username = u' ∧ (renameDoc u u' p).name = p.name := by
        unfold renameDoc; rw [if_pos (by simp [ownedP, ho])]; exact ⟨rfl, rfl⟩
      rw [hk.1, hk.2]
      rw [ho] at hd
      exact hd.mono (subsStep_rename E st e sb u u' p.name hr)
    · rw [renameDoc_fix u u' p ho]
      exact hd.mono (old _ _)

theorem Prov.run (E : Env T H A R) : ∀ (es : List (Event T)) (st : State T H A R) (sb : T → T → List (Parsing × T)),
    Prov E st.db sb → Prov E (runAll E st es).1.db (subsRun E st sb es) := by
  intro es
  induction es with
  | nil => intro st sb h; exact h
  | cons e es ih => intro st sb h; exact ih _ _ (h.step E e)

/-- **reachable_results_have_provenance** (ALL histories): in every state reached from the empty server,
every stored framework is the parse result, and every stored strategy result the environment's answer
`E.solve a s` for a framework `a = E.parse parsing code`, of a (parsing, code) pair recorded for the
document's key; the document's own (parsing, code) is among them -/
theorem reachable_results_have_provenance (E : Env T H A R) (es : List (Event T)) (p : Problem T A R)
    (hp : p ∈ (runAll E {} es).1.db.problems) :
    (p.parsing, p.code) ∈ subsRun E {} (fun _ _ => []) es p.username p.name ∧
    (∀ a, p.adf = .some a → ∃ x ∈ subsRun E {} (fun _ _ => []) es p.username p.name, ∃ r, E.parse x.1 x.2 = .ok (a, r)) ∧
    (∀ s res, p.res.get s = .some res → ∃ x ∈ subsRun E {} (fun _ _ => []) es p.username p.name,
      ∃ a r, E.parse x.1 x.2 = .ok (a, r) ∧ E.solve a s = .ok res) := by
  have h := (Prov.run E es {} (fun _ _ => []) (Prov.init E _)).docs p hp
  refine ⟨h.1, h.2.1, fun s res hr => ?_⟩
  obtain ⟨a, ⟨x, hx, r, hr'⟩, hs⟩ := h.2.2 s res hr
  exact ⟨x, hx, a, r, hr', hs⟩

end
end ServerM
