import AdfObdd.FeatureSemantics
import AdfObdd.StreamFull
/-! C12: predicates on the configured store that every primitive keeps (`Stable`), used as the
    `P` of `RelP c z P`:

    * `LogInv` — the `frontend` channel: with a sender attached the log is the list of the nodes
      created since, in creation order; without the feature or without a sender it does not grow;
    * `CntSplit` — the exception configuration after `fix_import`: entries of imported nodes keep
      their exact value, nodes created afterwards get model components 0;
    * `ExtFrom` — the node table only grows.

    Also: the operation sequences of `FeatureOps` keep `RelP`, and stores imported without
    `fix_import`. -/

theorem Stable.and {c : Cfg} {P Q : FStore → Prop} (p : Stable c P) (q : Stable c Q) :
    Stable c (fun fs => P fs ∧ Q fs) :=
  ⟨fun fs v lo hi h => ⟨p.node fs v lo hi h.1, q.node fs v lo hi h.2⟩,
   fun fs k r h => ⟨p.insRes fs k r h.1, q.insRes fs k r h.2⟩,
   fun fs k r h => ⟨p.insIte fs k r h.1, q.insIte fs k r h.2⟩,
   fun ha fs x h => ⟨p.cnt ha fs x h.1, q.cnt ha fs x h.2⟩⟩

/-! ### the `frontend` channel -/

/-- `Bdd::set_sender` -/
def FStore.setSender (fs : FStore) : FStore := { fs with sender := true }

/-- attaching a sender does not disturb the relation (no table is touched) -/
theorem Rel.setSender {c : Cfg} {z : Bool} {fs : FStore} {s : Store} (r : Rel c z fs s) : Rel c z fs.setSender s :=
  ⟨⟨r.inv.wf, r.inv.tab.deps, r.inv.tab.cnt, r.inv.tab.full, r.inv.tab.zero⟩, r.wf, r.nodes, r.ite⟩

/-- a sender was attached when the node table had `k` entries and the log was `L` -/
def LogInv (c : Cfg) (k : Nat) (L : List Node) (fs : FStore) : Prop :=
  k ≤ fs.base.nodes.size ∧
  fs.log = L ++ (if (c.frontend && fs.sender) = true then fs.base.nodes.toList.drop k else [])

theorem LogInv.stable (c : Cfg) (k : Nat) (L : List Node) : Stable c (LogInv c k L) where
  node := fun fs v lo hi h => by
    unfold nodeC
    split
    · exact h
    · split
      · exact h
      · obtain ⟨h1, h2⟩ := h
        refine ⟨by simp only [Array.size_push]; omega, ?_⟩
        simp only [Array.toList_push]
        by_cases ha : (c.frontend && fs.sender) = true
        · rw [if_pos ha] at h2
          rw [if_pos ha, if_pos ha, h2, List.drop_append_of_le_length (by simpa using h1), List.append_assoc]
        · rw [if_neg ha] at h2
          rw [if_neg ha, if_neg ha, h2]
  insRes := fun _ _ _ h => h
  insIte := fun _ _ _ h => h
  cnt := fun _ _ _ h => h

theorem LogInv.attach (c : Cfg) (fs : FStore) : LogInv c fs.base.nodes.size fs.log fs.setSender := by
  refine ⟨Nat.le_refl _, ?_⟩
  show fs.log = fs.log ++ (if (c.frontend && true) = true then fs.base.nodes.toList.drop fs.base.nodes.size else [])
  have : fs.base.nodes.toList.drop fs.base.nodes.size = [] := by
    apply List.drop_eq_nil_of_le; simp
  rw [this]; simp

/-- no sender (the state after `Bdd::new`), or the feature is off: the log stays what it was -/
theorem LogInv.idle (c : Cfg) (fs : FStore) (h : (c.frontend && fs.sender) = false) :
    LogInv c 0 fs.log fs := by
  refine ⟨Nat.zero_le _, ?_⟩
  rw [h]; simp

/-! ### the exception configuration after `fix_import` -/

/-- entries of the first `k` handles are the fixed tuples `old`; later entries have model components 0 -/
def CntSplit (k : Nat) (old : Nat → CN) (fs : FStore) : Prop :=
  k ≤ fs.base.nodes.size ∧ ∀ t r, fs.cnt[t]? = some r → (t < k → r = old t) ∧ (k ≤ t → r.cm = 0 ∧ r.m = 0)

theorem CntSplit.stable (c : Cfg) (he : c.exc = true) (k : Nat) (old : Nat → CN) : Stable c (CntSplit k old) := by
  have ha : c.adhoccounting = true := by
    simp only [Cfg.exc, Bool.and_eq_true, Bool.not_eq_true'] at he; exact he.1
  have hm : c.adhoccountmodels = false := by
    simp only [Cfg.exc, Bool.and_eq_true, Bool.not_eq_true'] at he; exact he.2
  refine ⟨?_, fun _ _ _ h => h, fun _ _ _ h => h, fun h' => by rw [ha] at h'; cases h'⟩
  intro fs v lo hi h
  unfold nodeC
  split
  · exact h
  · split
    · exact h
    · obtain ⟨h1, h2⟩ := h
      refine ⟨by simp only [Array.size_push]; omega, ?_⟩
      simp only [ha, if_true, hm]
      cases hl : fs.cnt[lo]? with
      | none => exact h2
      | some l =>
        cases hh : fs.cnt[hi]? with
        | none => exact h2
        | some hcn =>
          intro t r hr
          simp only at hr
          rw [Std.HashMap.getElem?_insert] at hr
          by_cases hk : (fs.base.nodes.size == t) = true
          · rw [if_pos hk] at hr
            have hts : fs.base.nodes.size = t := by simpa using hk
            cases hr
            exact ⟨fun hlt => by omega, fun _ => CN.adhoc_false_models l hcn⟩
          · rw [if_neg hk] at hr
            exact h2 t r hr

/-- memoised `models` in the exception configuration reads the entry -/
theorem modelsC_split (c : Cfg) (he : c.exc = true) (z : Bool) (fs : FStore) (inv : FInv c z fs) (k : Nat)
    (old : Nat → CN) (sp : CntSplit k old fs) (t : Nat) (ht2 : 2 ≤ t) (ht : t < fs.base.nodes.size) :
    (k ≤ t → (modelsC c fs t true).1 = (0, 0)) ∧ (t < k → (modelsC c fs t true).1 = ((old t).cm, (old t).m)) := by
  have ha : c.adhoccounting = true := by
    simp only [Cfg.exc, Bool.and_eq_true, Bool.not_eq_true'] at he; exact he.1
  have hm : c.adhoccountmodels = false := by
    simp only [Cfg.exc, Bool.and_eq_true, Bool.not_eq_true'] at he; exact he.2
  obtain ⟨r, hr⟩ := inv.tab.full ha t ht
  have hv : (modelsC c fs t true).1 = (r.cm, r.m) := by
    unfold modelsC
    rw [hm]
    simp only [Bool.false_eq_true, if_false, if_true]
    rw [memoCN, if_neg (by omega), if_neg (by omega), hr]
  have ⟨s1, s2⟩ := sp.2 t r hr
  rw [hv]
  exact ⟨fun h => by rw [(s2 h).1, (s2 h).2], fun h => by rw [s1 h]⟩

/-- `fix_import` establishes the split with `k` = number of imported nodes and `old` = their exact tuples -/
theorem CntSplit.import (c : Cfg) (nodes : Array Node) (uniq : Std.HashMap Node Nat) (w : WF ⟨nodes, uniq, ∅, ∅⟩) :
    CntSplit nodes.size (naive ⟨nodes, uniq, ∅, ∅⟩) (fixImportC c (importC nodes uniq)) := by
  have ⟨_, b⟩ := fixImportC_inv c (importC nodes uniq) w rfl (CntOK_empty _ _)
  refine ⟨Nat.le_refl _, ?_⟩
  intro t r hr
  have ⟨lt, ag⟩ := b t r hr
  exact ⟨fun _ => CN.agree_true ag, fun hk => by
    have : t < nodes.size := lt
    omega⟩

/-! ### the node table only grows -/

def ExtFrom (ns : Array Node) (fs : FStore) : Prop := ns.size ≤ fs.base.nodes.size ∧ ExtN ns fs.base.nodes

theorem ExtFrom.stable (c : Cfg) (ns : Array Node) : Stable c (ExtFrom ns) where
  node := fun fs v lo hi h => by
    unfold nodeC
    split
    · exact h
    · split
      · exact h
      · exact ⟨by simp only [Array.size_push]; have := h.1; omega,
          fun i n hn => ExtN_push _ _ i n (h.2 i n hn)⟩
  insRes := fun _ _ _ h => h
  insIte := fun _ _ _ h => h
  cnt := fun _ _ _ h => h

/-! ### operation sequences keep `RelP` -/

theorem stepOpC_pres {c : Cfg} {P : FStore → Prop} (st : Stable c P) (fs : FStore) (hist : List Nat) (op : Op)
    (h : P fs) : P (stepOpC c fs hist op).1 := by
  cases op with
  | var v => exact st.node _ _ _ _ h
  | const b => exact h
  | not a => exact iteCfg_pres st _ _ _ _ _ h
  | and a b => exact iteCfg_pres st _ _ _ _ _ h
  | or a b => exact iteCfg_pres st _ _ _ _ _ h
  | imp a b => exact iteCfg_pres st _ _ _ _ _ h
  | iff a b => exact iteCfg_pres st _ _ _ _ _ (iteCfg_pres st _ _ _ _ _ h)
  | xor a b => exact iteCfg_pres st _ _ _ _ _ (iteCfg_pres st _ _ _ _ _ h)
  | restrict a v b => exact restrictC_pres st _ _ _ _ _ h

theorem runOpsC_pres {c : Cfg} {P : FStore → Prop} (st : Stable c P) : ∀ (ops : List Op) (fs : FStore) (hist : List Nat),
    P fs → P (runOpsC c ops fs hist).1 := by
  intro ops
  induction ops with
  | nil => intro fs hist h; exact h
  | cons op ops ih => intro fs hist h; exact ih _ _ (stepOpC_pres st fs hist op h)

/-- `run_rel` with the extra predicate -/
theorem run_relP (c : Cfg) (z : Bool) {P : FStore → Prop} (st : Stable c P) (ops : List Op) (fs : FStore) (s : Store)
    (hist : List Nat) (fns : List BoolFn) (h : RelP c z P fs s) (hh : HistOK s hist fns) (hv : opsValid ops hist.length) :
    (runOpsC c ops fs hist).2 = (runOps ops s hist).2 ∧ RelP c z P (runOpsC c ops fs hist).1 (runOps ops s hist).1 :=
  have ⟨a, b⟩ := run_rel c z ops fs s hist fns h.1 hh hv
  ⟨a, b, runOpsC_pres st ops fs hist h.2⟩

/-- any list of valid handles is a history -/
theorem HistOK.of_valid (s : Store) (hist : List Nat) (h : ∀ t ∈ hist, t < s.nodes.size) :
    HistOK s hist (hist.map (eval s)) := by
  refine ⟨by simp, ?_⟩
  intro k hk
  have hg : hget hist k = hist[k] := by simp [hget, List.getD, hk]
  refine ⟨by rw [hg]; exact h _ (List.getElem_mem hk), ?_⟩
  intro σ
  simp [hget, fget, List.getD, hk]

/-! ### stores imported without `fix_import` -/

/-- without `variablelist` and without `adhoccounting` there is nothing to repair: the imported
store is related to the reference as it is -/
theorem import_unfixed_rel (c : Cfg) (hv : c.variablelist = false) (ha : c.adhoccounting = false)
    (nodes : Array Node) (uniq : Std.HashMap Node Nat) (w : WF ⟨nodes, uniq, ∅, ∅⟩) :
    Rel c false (importC nodes uniq) ⟨nodes, uniq, ∅, ∅⟩ := by
  refine ⟨⟨w, ?_, CntOK_empty _ _, ?_, ?_⟩, w, rfl, fun _ => rfl⟩
  · intro h; rw [hv] at h; cases h
  · intro h; rw [ha] at h; cases h
  · intro h; cases h

#print axioms LogInv.stable
#print axioms CntSplit.stable
#print axioms modelsC_split
