import AdfObdd.CliModel
import AdfObdd.Props.C02
import AdfObdd.Props.C03
import AdfObdd.Props.C04
import AdfObdd.Props.C05
import AdfObdd.SpecSound
/-! # C15 — every block the CLI model prints is the specification's answer for its section

Composition of C01–C05 for the concrete functions `Cli.run` is made of:

* `semLoop_pre`: the vector `grounded` returns denotes the PRE-GROUNDED conditions `pre D g` (every
  condition with the decided statements of the grounded interpretation `g` substituted) — what the
  hybrid arm hands to the native store;
* `Same.pre`: the pre-grounded conditions have the same grounded interpretation, the same complete
  interpretations / two-valued models, and for every model the same least fixpoint of the reduct;
* `section_exact`: one section, run in any well-formed store in which the handles denote conditions
  with the same answers as `D`, keeps the store well formed, only extends it and emits a permutation
  of `Cli.specSection`;
* `runFromF_faithful`: the sections of an invocation thread the store.

The two sections that run the nogood-learning search (`twoval`, `stmng`) do so with a bound on the
number of loop iterations (`Cli.runSection`: 1 000 000). C05 proves that the loop halts; it gives no
numeric bound, and for a framework with more than a million two-valued models the bounded model
necessarily emits fewer lines than the specification. The statement therefore carries the hypothesis
"no search of the invocation hit the bound" (`Halted`); `haltsFromF_eventually` shows that it holds
for every invocation once the bound is large enough, and it is `true` by evaluation for every
invocation without those two flags. The model is generalised over the bound (`runF fuel`,
`run = runF 1000000` by `rfl`). -/
namespace CliF
open Cli

/-! ### lists -/

theorem perm_of_nodup {l₁ l₂ : List I3} (d₁ : l₁.Nodup) (d₂ : l₂.Nodup) (h : ∀ a, a ∈ l₁ ↔ a ∈ l₂) :
    l₁.Perm l₂ := (List.perm_ext_iff_of_nodup d₁ d₂).mpr h

/-! ### the model, generalised over the iteration bound of the nogood-learning search -/

def runSectionF (fuel : Nat) (heu : SM.Heu) (sec : Section) (s : Store) (n : Nat) (ac : List Nat) :
    Store × List (List Nat) :=
  match sec with
  | .twoval => let r := SM.ngSearch heu fuel s n ac false; (r.1, r.2.1)
  | .stmng => let r := SM.ngSearch heu fuel s n ac true; (r.1, r.2.1)
  | sec => runSection heu sec s n ac

def runFromF (fuel : Nat) (heu : SM.Heu) (n : Nat) (ac : List Nat) :
    List Section → Store × List (Section × List (List Nat)) → Store × List (Section × List (List Nat))
  | [], acc => acc
  | sec :: rest, acc =>
    let r := runSectionF fuel heu sec acc.1 n ac
    runFromF fuel heu n ac rest (r.1, acc.2 ++ [(sec, r.2)])

def runF (fuel : Nat) (m : Mode) (f : Flags) (heu : SM.Heu) (s : Store) (n : Nat) (ac : List Nat) :
    List (Section × List (List Nat)) :=
  let start := startOf m s n ac
  (runFromF fuel heu n start.2 (sections m f) (start.1, [])).2

theorem runSectionF_eq (heu : SM.Heu) (sec : Section) (s : Store) (n : Nat) (ac : List Nat) :
    runSectionF 1000000 heu sec s n ac = runSection heu sec s n ac := by
  cases sec <;> rfl

theorem runFromF_eq (heu : SM.Heu) (n : Nat) (ac : List Nat) : ∀ (l : List Section)
    (acc : Store × List (Section × List (List Nat))), runFromF 1000000 heu n ac l acc = runFrom heu n ac l acc := by
  intro l
  induction l with
  | nil => intro acc; rfl
  | cons x xs ih => intro acc; simp only [runFromF, runFrom, runSectionF_eq]; exact ih _

/-- `Cli.run` is the generalised model at the bound the driver uses -/
theorem runF_eq (m : Mode) (f : Flags) (heu : SM.Heu) (s : Store) (n : Nat) (ac : List Nat) :
    runF 1000000 m f heu s n ac = Cli.run m f heu s n ac := by
  simp only [runF, Cli.run, runFromF_eq]

/-- did the section's search (if it runs one) halt within the bound? -/
def sectionHaltsF (fuel : Nat) (heu : SM.Heu) (sec : Section) (s : Store) (n : Nat) (ac : List Nat) : Bool :=
  match sec with
  | .twoval => (SM.ngSearch heu fuel s n ac false).2.2.2
  | .stmng => (SM.ngSearch heu fuel s n ac true).2.2.2
  | _ => true

def haltsFromF (fuel : Nat) (heu : SM.Heu) (n : Nat) (ac : List Nat) : List Section → Store → Bool
  | [], _ => true
  | sec :: rest, s =>
    sectionHaltsF fuel heu sec s n ac && haltsFromF fuel heu n ac rest (runSectionF fuel heu sec s n ac).1

/-- no nogood-learning search of the invocation hit the iteration bound -/
def HaltedF (fuel : Nat) (m : Mode) (f : Flags) (heu : SM.Heu) (s : Store) (n : Nat) (ac : List Nat) : Prop :=
  haltsFromF fuel heu n (startOf m s n ac).2 (sections m f) (startOf m s n ac).1 = true

/-- … for the bound of `Cli.run` -/
def Halted (m : Mode) (f : Flags) (heu : SM.Heu) (s : Store) (n : Nat) (ac : List Nat) : Prop :=
  HaltedF 1000000 m f heu s n ac

theorem haltsFromF_of_no_search (fuel : Nat) (heu : SM.Heu) (n : Nat) (ac : List Nat) :
    ∀ (l : List Section) (s : Store), Section.twoval ∉ l → Section.stmng ∉ l → haltsFromF fuel heu n ac l s = true := by
  intro l
  induction l with
  | nil => intro s _ _; rfl
  | cons x xs ih =>
    intro s h1 h2
    simp only [List.mem_cons, not_or] at h1 h2
    simp only [haltsFromF, Bool.and_eq_true]
    refine ⟨?_, ih _ h1.2 h2.2⟩
    cases x <;> first | rfl | exact absurd rfl h1.1 | exact absurd rfl h2.1

/-- invocations without `--twoval` and `--stmng` run no bounded search -/
theorem halted_of_no_search (fuel : Nat) (m : Mode) (f : Flags) (heu : SM.Heu) (s : Store) (n : Nat) (ac : List Nat)
    (h1 : f.twoval = false) (h2 : f.stmng = false) : HaltedF fuel m f heu s n ac := by
  apply haltsFromF_of_no_search
  · intro h
    have := (List.mem_filter.mp h).2
    simp [wanted, h1] at this
  · intro h
    have := (List.mem_filter.mp h).2
    simp [wanted, h2] at this

/-! ### the bounded nogood-learning search: a halted run does not depend on the bound -/

open NConc in
theorem cRun_done_add (hc : CHeu) (n : Nat) (ac : List Nat) (stable : Bool) (k : Nat) (st : SM.NgS)
    (hd : (cRun hc n ac stable k st).done = true) :
    ∀ j, cRun hc n ac stable (k + j) st = cRun hc n ac stable k st := by
  intro j
  induction j with
  | zero => rfl
  | succ j ih =>
    show cRun hc n ac stable (k + j + 1) st = _
    rw [cRun_succ, ih, if_pos hd]

open NConc in
theorem cRun_done_eq (hc : CHeu) (n : Nat) (ac : List Nat) (stable : Bool) (st : SM.NgS) {a b : Nat}
    (ha : (cRun hc n ac stable a st).done = true) (hb : (cRun hc n ac stable b st).done = true) :
    cRun hc n ac stable a st = cRun hc n ac stable b st := by
  rcases Nat.le_total a b with h | h
  · have := cRun_done_add hc n ac stable a st ha (b - a)
    rw [show a + (b - a) = b by omega] at this
    exact this.symm
  · have := cRun_done_add hc n ac stable b st hb (a - b)
    rw [show b + (a - b) = a by omega] at this
    exact this

open NConc in
/-- two halted runs of the search are the same run -/
theorem ngSearch_done_eq (h : SM.Heu) (s : Store) (n : Nat) (ac : List Nat) (stable : Bool) {a b : Nat}
    (ha : (SM.ngSearch h a s n ac stable).2.2.2 = true) (hb : (SM.ngSearch h b s n ac stable).2.2.2 = true) :
    SM.ngSearch h a s n ac stable = SM.ngSearch h b s n ac stable := by
  rw [ngSearch_eq] at ha hb ⊢
  rw [ngSearch_eq]
  unfold cSearch at ha hb ⊢
  rw [cRun_done_eq _ n ac stable _ ha hb]

open NConc in
theorem ngSearch_done_mono (h : SM.Heu) (s : Store) (n : Nat) (ac : List Nat) (stable : Bool) {a b : Nat}
    (ha : (SM.ngSearch h a s n ac stable).2.2.2 = true) (hab : a ≤ b) :
    (SM.ngSearch h b s n ac stable).2.2.2 = true := by
  rw [ngSearch_eq] at ha ⊢
  unfold cSearch at ha ⊢
  have := cRun_done_add _ n ac stable a _ ha (b - a)
  rw [show a + (b - a) = b by omega] at this
  simp only [this]
  exact ha

/-! ### the store of the nogood-learning search (C05 states the answers only) -/

section ngstore
open NConc NSem

/-- one iteration keeps the store well formed and only extends it -/
theorem iter_store {s0 : Store} {n : Nat} (ac : List Nat) (stable : Bool) (w0 : WF s0)
    (hac0 : ∀ t ∈ ac, t < s0.nodes.size) (hn : ac.length = n) {h : CHeu} (hok : HeuOK h)
    {c : SM.NgS} {a : ASt} (hr : Rel c a) (hi : CInv s0 n c) :
    WF (cIter h n ac stable c).s ∧ Ext s0 (cIter h n ac stable c).s := by
  have ⟨r1, i1⟩ := sim_choice (ac.map (eval s0)) stable (fun _ => conv (h c.s c.cur c.time)) hok 0 hr hi rfl
  unfold cIter
  simp only
  by_cases hd : ((cChoice h c).backtrack && (cChoice h c).stack.isEmpty) = true
  · rw [if_pos hd]; exact ⟨i1.wf, i1.ext⟩
  · rw [if_neg hd]
    have ⟨r3, i3⟩ := sim_back (ac.map (eval s0)) stable (fun _ => conv (h c.s c.cur c.time)) r1 i1
    have ⟨_, i4⟩ := sim_tail ac stable (fun _ => conv (h c.s c.cur c.time)) w0 hac0 hn r3 i3
    exact ⟨i4.wf, i4.ext⟩

/-- `NConc.sim_run` with the final store: a halting run of the semantic machine gives a halting
concrete run that ends in a well-formed extension of the start store -/
theorem sim_run_store (h : CHeu) (s : Store) (n : Nat) (ac : List Nat) (stable : Bool) (hok : HeuOK h) (w0 : WF s)
    (hac0 : ∀ t ∈ ac, t < s.nodes.size) (hn : ac.length = n) :
    ∀ (fuel k : Nat) (a a' : ASt), Rel (cState h s n ac stable k) a → CInv s n (cState h s n ac stable k) →
    NGen.run (PP s n ac stable (rawOf h s n ac stable)) k fuel a = some a' →
    ∃ m, (cState h s n ac stable m).done = true ∧ WF (cState h s n ac stable m).s ∧
      Ext s (cState h s n ac stable m).s := by
  intro fuel
  induction fuel with
  | zero => intro k a a' _ _ hr; cases hr
  | succ f ih =>
    intro k a a' hr hi hrun
    have hnext : cState h s n ac stable (k + 1) = cIter h n ac stable (cState h s n ac stable k) := by
      have hnd : (cRun h n ac stable k (initC s n ac)).done = false := hi.nd
      unfold cState
      rw [cRun_succ, hnd]
      simp only [Bool.false_eq_true, if_false]
    have hsim := sim_iter ac stable (rawOf h s n ac stable) w0 hac0 hn hok k hr hi rfl
    have hst := iter_store ac stable w0 hac0 hn hok hr hi
    unfold NGen.run at hrun
    cases hit : NGen.iter (PP s n ac stable (rawOf h s n ac stable)) k a with
    | done a1 =>
      rw [hit] at hsim
      exact ⟨k + 1, by rw [hnext]; exact hsim.1, by rw [hnext]; exact hst.1, by rw [hnext]; exact hst.2⟩
    | cont a1 =>
      rw [hit] at hrun hsim
      simp only at hrun hsim
      exact ih (k + 1) a1 a' (by rw [hnext]; exact hsim.1) (by rw [hnext]; exact hsim.2) hrun

/-- C05 with the store and for EVERY bound: the search halts from some bound on, and whenever it
halted within the bound, the store is a well-formed extension and the answers are exact -/
theorem ng_facts (h : SM.Heu) (s : Store) (n : Nat) (ac : List Nat) (stable : Bool) (w0 : WF s) (hn : ac.length = n)
    (hac0 : ∀ t ∈ ac, t < s.nodes.size)
    (hsup : stable = false → ∀ t ∈ ac, ∀ σ τ : Asg, (∀ i, i < n → σ i = τ i) → eval s t σ = eval s t τ) :
    (∃ F0, ∀ F, F0 ≤ F → (SM.ngSearch h F s n ac stable).2.2.2 = true) ∧
    ∀ F, (SM.ngSearch h F s n ac stable).2.2.2 = true →
      WF (SM.ngSearch h F s n ac stable).1 ∧ Ext s (SM.ngSearch h F s n ac stable).1 ∧
      ((SM.ngSearch h F s n ac stable).2.1.map (fun v => v.map storeIsConst)).Nodup ∧
      ∀ v : I3, v ∈ (SM.ngSearch h F s n ac stable).2.1.map (fun v => v.map storeIsConst) ↔
        (v.length = n ∧ TotalI v ∧ Gam (ac.map (eval s)) v = v ∧
          (stable = true → ∀ w : I3, IsLfp (redu (ac.map (eval s)) v) w →
            ∀ i : Nat, v[i]? = some (some true) → w[i]? = some (some true))) := by
  obtain ⟨f1, d1, ex1⟩ := C05.ng_search_exact h s n ac stable w0 hn hac0 hsup
  have ⟨hrel, hinv, hokv, _⟩ := init_facts s n ac stable w0 hac0 hn
  obtain ⟨fuel, a', hrun⟩ := sem_halts (D := ac.map (eval s)) (stable := stable)
    (rawOf (SM.heuCall h) s n ac stable) _ hokv
  obtain ⟨m, dm, wm, em⟩ := sim_run_store (SM.heuCall h) s n ac stable (heuOK_builtin h) w0 hac0 hn fuel 0 _ a'
    hrel hinv hrun
  have dm' : (SM.ngSearch h m s n ac stable).2.2.2 = true := by rw [ngSearch_eq]; exact dm
  have wm' : WF (SM.ngSearch h m s n ac stable).1 := by rw [ngSearch_eq]; exact wm
  have em' : Ext s (SM.ngSearch h m s n ac stable).1 := by rw [ngSearch_eq]; exact em
  refine ⟨⟨f1, fun F hF => ngSearch_done_mono h s n ac stable d1 hF⟩, ?_⟩
  intro F dF
  rw [ngSearch_done_eq h s n ac stable dF dm'] 
  refine ⟨wm', em', ?_⟩
  rw [ngSearch_done_eq h s n ac stable dm' d1]
  exact ex1

end ngstore

/-! ### the store of the counting-guided search (C04 states the answers only) -/

theorem stableFilter_store (s0 : Store) (n : Nat) (ac : List Nat) (hn : ac.length = n)
    (hv : ∀ t ∈ ac, t < s0.nodes.size) :
    ∀ (cands : List (List Nat)) (acc : Store × List (List Nat)), WF acc.1 → Ext s0 acc.1 →
      (∀ v ∈ cands, v.length = n) →
      WF (cands.foldl (fun (acc : Store × List (List Nat)) v =>
              let chk := stabilityCheckC acc.1 n ac v
              (chk.1, if chk.2 then acc.2 ++ [v] else acc.2)) acc).1 ∧
      Ext s0 (cands.foldl (fun (acc : Store × List (List Nat)) v =>
              let chk := stabilityCheckC acc.1 n ac v
              (chk.1, if chk.2 then acc.2 ++ [v] else acc.2)) acc).1 := by
  intro cands
  induction cands with
  | nil => intro acc wa ea _; exact ⟨wa, ea⟩
  | cons c cs ih =>
    intro acc wa ea hl
    have hva : ∀ t ∈ ac, t < acc.1.nodes.size := fun t ht => Nat.lt_of_lt_of_le (hv t ht) ea.1
    have ⟨w1, e1, _⟩ := CI.stabilityCheckC_spec acc.1 n ac c wa hn hva (hl c (List.mem_cons_self ..))
    simp only [List.foldl_cons]
    exact ih _ w1 (Ext.trans ea e1) (fun v hv' => hl v (List.mem_cons_of_mem _ hv'))

theorem countAll_store (s : Store) (n : Nat) (ac : List Nat) (useA : Bool) (w : WF s) (hn : ac.length = n)
    (hv : ∀ t ∈ ac, t < s.nodes.size) :
    WF (countAll s n ac useA).1 ∧ Ext s (countAll s n ac useA).1 := by
  have ⟨hinv, e0⟩ := CI.start_inv s n ac w hn hv
  have sp := CI.countLogic_spec useA hinv
  unfold countAll stableFilter
  simp only
  generalize groundedLoop StoreRA (n + 1) s ac = g at *
  generalize countLogic ac useA (n + 1) g.1 g.2 (List.replicate n 2) = c at *
  have hle : CI.SLe g.1 c.1 := sp.le
  have hgood : ∀ o ∈ c.2, CI.GoodO n o := sp.good
  exact stableFilter_store s n ac hn hv c.2 (c.1, []) (hle.2 hinv.wf) (Ext.trans e0 hle.1)
    (fun v hv' => (hgood v hv').1)

/-! ### pre-grounding: what the hybrid arm hands to the native store -/

/-- the loop of `grounded` ends with every entry restricted by the final decided part: the vector
it returns denotes the pre-grounded conditions -/
theorem semLoop_pre (D : List BoolFn) : ∀ (fuel : Nat) (V : List BoolFn), Reach D V →
    V.length - countSome (cv V) < fuel → semLoop fuel V = pre D (cv (semLoop fuel V)) := by
  intro fuel
  induction fuel with
  | zero => intro V _ h; omega
  | succ f ih =>
    intro V r hf
    have rr := reach_round r
    have hlen : (cv V).length = (cv (semRound V)).length := by simp [cv, semRound]
    have e : semLoop (f + 1) V = (if countSome ((semRound V).map constOf) = countSome (V.map constOf) then semRound V
              else semLoop f (semRound V)) := rfl
    by_cases hc : countSome ((semRound V).map constOf) = countSome (V.map constOf)
    · rw [e, if_pos hc]
      have hcv : cv (semRound V) = cv V := eq_of_le_count _ _ hlen (cv_le_round V) hc
      rw [hcv]
      apply List.ext_getElem?
      intro i
      rw [semRound_get]
      simp only [pre, List.getElem?_map]
      cases hg : D[i]? with
      | none =>
        have : V[i]? = none := by
          apply List.getElem?_eq_none
          rw [r.len]
          rcases Nat.lt_or_ge i D.length with h' | h'
          · simp [List.getElem?_eq_getElem h'] at hg
          · exact h'
        simp [this]
      | some g =>
        have hi : i < V.length := by
          rw [r.len]
          rcases Nat.lt_or_ge i D.length with h' | h'
          · exact h'
          · simp [List.getElem?_eq_none h'] at hg
        have hv : V[i]? = some V[i] := List.getElem?_eq_getElem hi
        simp only [hv, Option.map_some, Option.some.injEq]
        funext σ
        exact r.res i V[i] g hv hg _ (agree_over σ (cv V))
    · rw [e, if_neg hc]
      apply ih _ rr
      have h1 := countSome_mono _ _ hlen (cv_le_round V)
      have h2 := countSome_le_length (cv (semRound V))
      have h3 : (semRound V).length = V.length := by simp [semRound]
      simp only [cv, List.length_map] at *
      omega

/-- **`grounded` on the store returns the pre-grounded framework**: a well-formed extension of the
store, valid handles, and their functions are the conditions with the decided statements of the
grounded interpretation `g` (= the decided part of the vector, the least fixpoint of Γ) substituted -/
theorem grounded_is_pre (s : Store) (n : Nat) (ac : List Nat) (w : WF s) (hn : ac.length = n)
    (hv : ∀ t ∈ ac, t < s.nodes.size) :
    let r := groundedLoop StoreRA (n + 1) s ac
    WF r.1 ∧ Ext s r.1 ∧ (∀ t ∈ r.2, t < r.1.nodes.size) ∧ r.2.length = n ∧
    ∃ g : I3, IsLfp (ac.map (eval s)) g ∧ r.2.map (eval r.1) = pre (ac.map (eval s)) g := by
  intro r
  have ⟨w1, e1, v1, d1⟩ := groundedLoop_sem StoreRA (n + 1) s ac w hv
  have d1 : r.2.map (eval r.1) = semLoop (n + 1) (ac.map (eval s)) := d1
  have hr := CI.reach_semLoop (ac.map (eval s)) (n + 1) (by simp [hn])
  have r0 : Reach (ac.map (eval s)) (ac.map (eval s)) := by
    apply reach_init
    intro w' hw' i b h
    simp only [cv, List.getElem?_map] at h
    cases hd : ac[i]? with
    | none => simp [hd] at h
    | some f =>
      simp only [hd, Option.map_some, Option.some.injEq] at h
      rw [constOf_some] at h
      rw [← hw']
      simp only [Gam, List.getElem?_map, hd, Option.map_some, Option.some.injEq]
      rw [constOf_some]
      intro σ; exact h _
  have hpre := semLoop_pre (ac.map (eval s)) (n + 1) _ r0 (by simp [hn]; omega)
  refine ⟨w1, e1, v1, ?_, cv (semLoop (n + 1) (ac.map (eval s))), ?_, ?_⟩
  · have := congrArg List.length d1
    rw [List.length_map, hr.len, List.length_map, hn] at this
    exact this
  · exact grounded_sem _ (n + 1) (by simp [hn])
  · rw [d1]; exact hpre

/-! ### conditions with the same answers -/

/-- `D'` has the same answers as `D` in every semantics of the CLI, and looks at the statements only -/
structure Same (n : Nat) (D D' : List BoolFn) : Prop where
  len : D'.length = n
  lfp : ∀ g, IsLfp D' g ↔ IsLfp D g
  fix : ∀ w, Gam D' w = w ↔ Gam D w = w
  red : ∀ v, Gam D v = v → ∀ L, IsLfp (redu D' v) L ↔ IsLfp (redu D v) L
  det : ∀ f ∈ D', TT.DetBy n f

theorem Same.refl {n : Nat} {D : List BoolFn} (hl : D.length = n) (hd : ∀ f ∈ D, TT.DetBy n f) : Same n D D :=
  ⟨hl, fun _ => Iff.rfl, fun _ => Iff.rfl, fun _ _ _ => Iff.rfl, hd⟩

/-- pre-grounding (C01/C02/C03, hybrid pipeline) -/
theorem Same.pre {n : Nat} {D : List BoolFn} (hl : D.length = n) (hd : ∀ f ∈ D, TT.DetBy n f) {g : I3}
    (hg : IsLfp D g) : Same n D (pre D g) := by
  refine ⟨by simp [_root_.pre, hl], ?_, fun w => pre_complete_iff D g w hg, ?_, ?_⟩
  · intro g'
    have hp := pre_lfp D g hg
    constructor
    · intro h; rw [StableExact.lfp_unique _ _ _ h hp]; exact hg
    · intro h; rw [StableExact.lfp_unique _ _ _ h hg]; exact hp
  · intro v hv L
    exact pre_reduct_lfp_iff D g v L hg (hg.2 v hv)
  · intro f hf
    obtain ⟨f0, hf0, rfl⟩ := List.mem_map.mp hf
    intro σ σ' hag
    apply hd f0 hf0
    intro x hx
    rw [over_apply, over_apply, hag x hx]

/-! ### one section -/

section sections
variable {n : Nat} {tts : List Nat} {D D' : List BoolFn}

theorem stable_iff (hs : Same n D D') (v : I3) :
    (v.length = n ∧ TotalI v ∧ Gam D' v = v ∧
      ∀ w : I3, IsLfp (redu D' v) w → ∀ i : Nat, v[i]? = some (some true) → w[i]? = some (some true)) ↔
    (v.length = n ∧ TotalI v ∧ Gam D v = v ∧
      ∀ w : I3, IsLfp (redu D v) w → ∀ i : Nat, v[i]? = some (some true) → w[i]? = some (some true)) := by
  constructor
  · rintro ⟨a, b, c, d⟩
    have c' := (hs.fix v).mp c
    exact ⟨a, b, c', fun w hw => d w ((hs.red v c' w).mpr hw)⟩
  · rintro ⟨a, b, c, d⟩
    exact ⟨a, b, (hs.fix v).mpr c, fun w hw => d w ((hs.red v c w).mp hw)⟩

/-- a duplicate-free list of exactly the stable models of `D'` is a permutation of the specification's -/
theorem stable_perm (R : SpecSound.Reps n tts D) (hs : Same n D D') {out : List I3} (hnd : out.Nodup)
    (hm : ∀ v : I3, v ∈ out ↔ (v.length = n ∧ TotalI v ∧ Gam D' v = v ∧
      ∀ w : I3, IsLfp (redu D' v) w → ∀ i : Nat, v[i]? = some (some true) → w[i]? = some (some true))) :
    out.Perm (Spec.stableAll n tts) := by
  apply perm_of_nodup hnd (SpecSound.stableAll_nodup n tts)
  intro v
  rw [hm v, stable_iff hs v, SpecSound.stable_spec R v]

/-- **one section**, run in a well-formed store in which the handles `ac` denote conditions with the
same answers as `D`: the store stays well formed and is only extended, and the emitted vectors read
as three-valued interpretations are a permutation of the specification's answer — provided the
section's search (if it runs one) halted within the bound -/
theorem section_exact (R : SpecSound.Reps n tts D) (hD : D.length = n) (hs : Same n D D')
    (fuel : Nat) (heu : SM.Heu) (sec : Section) (s : Store) (ac : List Nat) (w : WF s)
    (hn : ac.length = n) (hv : ∀ t ∈ ac, t < s.nodes.size) (hden : ac.map (eval s) = D')
    (hh : sectionHaltsF fuel heu sec s n ac = true) :
    WF (runSectionF fuel heu sec s n ac).1 ∧ Ext s (runSectionF fuel heu sec s n ac).1 ∧
    ((runSectionF fuel heu sec s n ac).2.map (fun v => v.map storeIsConst)).Perm (specSection n tts sec) := by
  have hsup : ∀ t ∈ ac, ∀ σ τ : Asg, (∀ i, i < n → σ i = τ i) → eval s t σ = eval s t τ := by
    intro t ht σ τ hst
    exact hs.det (eval s t) (by rw [← hden]; exact List.mem_map_of_mem ht) σ τ hst
  cases sec with
  | grd =>
    have ⟨w1, e1, _, _⟩ := groundedLoop_sem StoreRA (n + 1) s ac w hv
    have hg : IsLfp (ac.map (eval s)) ((groundedLoop StoreRA (n + 1) s ac).2.map storeIsConst) :=
      grounded_native (n + 1) s ac w hv (by omega)
    rw [hden] at hg
    have := StableExact.lfp_unique _ _ _ ((hs.lfp _).mp hg) (SpecSound.grounded_spec R hD)
    rw [show runSectionF fuel heu .grd s n ac =
      ((groundedLoop StoreRA (n + 1) s ac).1, [(groundedLoop StoreRA (n + 1) s ac).2]) from rfl,
      show specSection n tts .grd = [Spec.grounded n tts] from rfl]
    dsimp only
    refine ⟨w1, e1, ?_⟩
    simp only [List.map_cons, List.map_nil, this]
    exact List.Perm.refl _
  | com =>
    have ⟨w1, e1, _⟩ := C02.complete_store s n ac w hn hv
    have ⟨nd, hm, _⟩ := C02.complete_exact s n ac w hn hv
    rw [show runSectionF fuel heu .com s n ac = ((completeAll s n ac).1, (completeAll s n ac).2.2) from rfl,
      show specSection n tts .com = Spec.completeAll n tts from rfl]
    dsimp only
    refine ⟨w1, e1, perm_of_nodup nd (SpecSound.completeAll_nodup n tts) ?_⟩
    intro v
    rw [hm v, hden, hs.fix v, SpecSound.completeAll_spec R v]
  | twoval =>
    have ⟨_, hf⟩ := ng_facts heu s n ac false w hn hv (fun _ => hsup)
    have ⟨w1, e1, nd, hm⟩ := hf fuel hh
    rw [show runSectionF fuel heu .twoval s n ac =
      ((SM.ngSearch heu fuel s n ac false).1, (SM.ngSearch heu fuel s n ac false).2.1) from rfl,
      show specSection n tts .twoval = Spec.models2 n tts from rfl]
    dsimp only
    refine ⟨w1, e1, perm_of_nodup nd (SpecSound.models2_nodup n tts) ?_⟩
    intro v
    rw [hm v, hden, hs.fix v, SpecSound.models2_spec R v]
    constructor
    · rintro ⟨a, b, c, _⟩; exact ⟨a, b, c⟩
    · rintro ⟨a, b, c⟩; exact ⟨a, b, c, fun h => by cases h⟩
  | stm =>
    have ⟨⟨w1, e1⟩, _⟩ := C03.stable_store s n ac w hn hv
    have ⟨nd, hm⟩ := C03.stable_exact s n ac w hn hv
    rw [hden] at hm
    rw [show runSectionF fuel heu .stm s n ac = stableAll s n ac from rfl,
      show specSection n tts .stm = Spec.stableAll n tts from rfl]
    exact ⟨w1, e1, stable_perm R hs nd hm⟩
  | stmrew =>
    have ⟨⟨w1, e1⟩, _⟩ := C03.stable_store s n ac w hn hv
    have ⟨nd, hm⟩ := C03.stable_exact s n ac w hn hv
    rw [hden] at hm
    rw [show runSectionF fuel heu .stmrew s n ac = stableAll s n ac from rfl,
      show specSection n tts .stmrew = Spec.stableAll n tts from rfl]
    exact ⟨w1, e1, stable_perm R hs nd hm⟩
  | stmca =>
    have ⟨w1, e1⟩ := countAll_store s n ac true w hn hv
    have ⟨nd, hm⟩ := C04.count_search_exact s n ac true w hn hv
    rw [hden] at hm
    rw [show runSectionF fuel heu .stmca s n ac = countAll s n ac true from rfl,
      show specSection n tts .stmca = Spec.stableAll n tts from rfl]
    exact ⟨w1, e1, stable_perm R hs nd hm⟩
  | stmcb =>
    have ⟨w1, e1⟩ := countAll_store s n ac false w hn hv
    have ⟨nd, hm⟩ := C04.count_search_exact s n ac false w hn hv
    rw [hden] at hm
    rw [show runSectionF fuel heu .stmcb s n ac = countAll s n ac false from rfl,
      show specSection n tts .stmcb = Spec.stableAll n tts from rfl]
    exact ⟨w1, e1, stable_perm R hs nd hm⟩
  | stmpre =>
    have ⟨_, ⟨w1, e1⟩⟩ := C03.stable_store s n ac w hn hv
    have ⟨nd, hm⟩ := C03.stablepre_exact s n ac w hn hv
    rw [hden] at hm
    rw [show runSectionF fuel heu .stmpre s n ac = stablePre s n ac from rfl,
      show specSection n tts .stmpre = Spec.stableAll n tts from rfl]
    exact ⟨w1, e1, stable_perm R hs nd hm⟩
  | stmng =>
    have ⟨_, hf⟩ := ng_facts heu s n ac true w hn hv (fun h => by cases h)
    have ⟨w1, e1, nd, hm⟩ := hf fuel hh
    rw [hden] at hm
    rw [show runSectionF fuel heu .stmng s n ac =
      ((SM.ngSearch heu fuel s n ac true).1, (SM.ngSearch heu fuel s n ac true).2.1) from rfl,
      show specSection n tts .stmng = Spec.stableAll n tts from rfl]
    dsimp only
    refine ⟨w1, e1, stable_perm R hs nd ?_⟩
    intro v
    rw [hm v]
    constructor
    · rintro ⟨a, b, c, d⟩; exact ⟨a, b, c, d rfl⟩
    · rintro ⟨a, b, c, d⟩; exact ⟨a, b, c, fun _ => d⟩

/-- every section's search halts from some bound on -/
theorem section_halts (hs : Same n D D') (heu : SM.Heu) (sec : Section) (s : Store) (ac : List Nat) (w : WF s)
    (hn : ac.length = n) (hv : ∀ t ∈ ac, t < s.nodes.size) (hden : ac.map (eval s) = D') :
    ∃ F0, ∀ F, F0 ≤ F → sectionHaltsF F heu sec s n ac = true := by
  have hsup : ∀ t ∈ ac, ∀ σ τ : Asg, (∀ i, i < n → σ i = τ i) → eval s t σ = eval s t τ := by
    intro t ht σ τ hst
    exact hs.det (eval s t) (by rw [← hden]; exact List.mem_map_of_mem ht) σ τ hst
  cases sec with
  | twoval => exact (ng_facts heu s n ac false w hn hv (fun _ => hsup)).1
  | stmng => exact (ng_facts heu s n ac true w hn hv (fun h => by cases h)).1
  | _ => exact ⟨0, fun _ _ => rfl⟩

end sections

/-! ### the sections of an invocation thread the store -/

section threading
variable {n : Nat} {tts : List Nat} {D D' : List BoolFn}

/-- a block is faithful: read as three-valued interpretations, its lines are a permutation of the
specification's answer for its section -/
def Faithful (n : Nat) (tts : List Nat) (blk : Section × List (List Nat)) : Prop :=
  (blk.2.map (fun v => v.map storeIsConst)).Perm (specSection n tts blk.1)

/-- store threading: every section runs from a well-formed extension of the start store, in which the
same handles denote the same conditions; so every block is faithful -/
theorem runFromF_faithful (R : SpecSound.Reps n tts D) (hD : D.length = n) (hs : Same n D D')
    (fuel : Nat) (heu : SM.Heu) (s1 : Store) (ac : List Nat) (w1 : WF s1) (hn : ac.length = n)
    (hv : ∀ t ∈ ac, t < s1.nodes.size) (hden : ac.map (eval s1) = D') :
    ∀ (l : List Section) (acc : Store × List (Section × List (List Nat))), WF acc.1 → Ext s1 acc.1 →
      haltsFromF fuel heu n ac l acc.1 = true → (∀ blk ∈ acc.2, Faithful n tts blk) →
      WF (runFromF fuel heu n ac l acc).1 ∧ Ext s1 (runFromF fuel heu n ac l acc).1 ∧
      ∀ blk ∈ (runFromF fuel heu n ac l acc).2, Faithful n tts blk := by
  intro l
  induction l with
  | nil => intro acc wa ea _ hacc; exact ⟨wa, ea, hacc⟩
  | cons x xs ih =>
    intro acc wa ea hh hacc
    simp only [haltsFromF, Bool.and_eq_true] at hh
    have hva : ∀ t ∈ ac, t < acc.1.nodes.size := fun t ht => Nat.lt_of_lt_of_le (hv t ht) ea.1
    have hd : ac.map (eval acc.1) = D' := by rw [CI.map_eval_ext w1 ea hv]; exact hden
    have ⟨w2, e2, pm⟩ := section_exact R hD hs fuel heu x acc.1 ac wa hn hva hd hh.1
    simp only [runFromF]
    apply ih _ w2 (Ext.trans ea e2) hh.2
    intro blk hb
    rcases List.mem_append.mp hb with h | h
    · exact hacc blk h
    · rw [List.mem_singleton] at h
      subst h
      exact pm

/-- a section whose search halted does not depend on the bound -/
theorem runSectionF_stable (heu : SM.Heu) (sec : Section) (s : Store) (n : Nat) (ac : List Nat) {a b : Nat}
    (ha : sectionHaltsF a heu sec s n ac = true) (hb : sectionHaltsF b heu sec s n ac = true) :
    runSectionF a heu sec s n ac = runSectionF b heu sec s n ac := by
  cases sec with
  | twoval =>
    show ((SM.ngSearch heu a s n ac false).1, (SM.ngSearch heu a s n ac false).2.1) = _
    rw [ngSearch_done_eq heu s n ac false ha hb]; rfl
  | stmng =>
    show ((SM.ngSearch heu a s n ac true).1, (SM.ngSearch heu a s n ac true).2.1) = _
    rw [ngSearch_done_eq heu s n ac true ha hb]; rfl
  | _ => rfl

/-- **termination of the invocation**: from some bound on, no search of the invocation hits it -/
theorem haltsFromF_eventually (R : SpecSound.Reps n tts D) (hD : D.length = n) (hs : Same n D D')
    (heu : SM.Heu) (s1 : Store) (ac : List Nat) (w1 : WF s1) (hn : ac.length = n)
    (hv : ∀ t ∈ ac, t < s1.nodes.size) (hden : ac.map (eval s1) = D') :
    ∀ (l : List Section) (s : Store), WF s → Ext s1 s →
      ∃ F0, ∀ F, F0 ≤ F → haltsFromF F heu n ac l s = true := by
  intro l
  induction l with
  | nil => intro s _ _; exact ⟨0, fun _ _ => rfl⟩
  | cons x xs ih =>
    intro s ws es
    have hva : ∀ t ∈ ac, t < s.nodes.size := fun t ht => Nat.lt_of_lt_of_le (hv t ht) es.1
    have hd : ac.map (eval s) = D' := by rw [CI.map_eval_ext w1 es hv]; exact hden
    obtain ⟨F1, h1⟩ := section_halts hs heu x s ac ws hn hva hd
    have ⟨w2, e2, _⟩ := section_exact R hD hs F1 heu x s ac ws hn hva hd (h1 F1 (Nat.le_refl _))
    obtain ⟨F2, h2⟩ := ih _ w2 (Ext.trans es e2)
    refine ⟨max F1 F2, ?_⟩
    intro F hF
    have hF1 : F1 ≤ F := Nat.le_trans (Nat.le_max_left _ _) hF
    have hF2 : F2 ≤ F := Nat.le_trans (Nat.le_max_right _ _) hF
    simp only [haltsFromF, Bool.and_eq_true]
    refine ⟨h1 F hF1, ?_⟩
    rw [runSectionF_stable heu x s n ac (h1 F hF1) (h1 F1 (Nat.le_refl _))]
    exact h2 F hF2

end threading

/-! ### the start of an arm -/

/-- the framework an arm works on: a well-formed store, valid handles, and conditions with the same
answers as the compiled ones — the compiled ones themselves (naive, biodivine) or the pre-grounded
ones (hybrid) -/
theorem start_facts (m : Mode) (s : Store) (n : Nat) (ac : List Nat) (w : WF s) (hn : ac.length = n)
    (hv : ∀ t ∈ ac, t < s.nodes.size) (hdet : ∀ f ∈ ac.map (eval s), TT.DetBy n f) :
    WF (startOf m s n ac).1 ∧ (∀ t ∈ (startOf m s n ac).2, t < (startOf m s n ac).1.nodes.size) ∧
    (startOf m s n ac).2.length = n ∧
    Same n (ac.map (eval s)) ((startOf m s n ac).2.map (eval (startOf m s n ac).1)) := by
  have hl : (ac.map (eval s)).length = n := by simp [hn]
  cases m with
  | naive => exact ⟨w, hv, hn, Same.refl hl hdet⟩
  | biodivine => exact ⟨w, hv, hn, Same.refl hl hdet⟩
  | hybrid =>
    have ⟨w1, _, v1, l1, g, hg, hp⟩ := grounded_is_pre s n ac w hn hv
    refine ⟨w1, v1, l1, ?_⟩
    show Same n _ ((groundedLoop StoreRA (n + 1) s ac).2.map (eval (groundedLoop StoreRA (n + 1) s ac).1))
    rw [hp]
    exact Same.pre hl hdet hg

/-! ### the theorems -/

/-- the truth tables handed to the specification: one table per written condition, over the `n`
statements -/
def tablesOf (n : Nat) (fms : List Fm) : List Nat :=
  fms.map (fun φ => TT.ofFn n (fun a => φ.sem (fun v => a.testBit v)))

/-- the compiled framework: facts used by both theorems -/
theorem built_facts (n : Nat) (fms : List Fm) (hl : fms.length = n) (hn : n ≤ VBOT)
    (ha : ∀ φ ∈ fms, NConc.atomsLt n φ) :
    WF (buildNative n fms).1 ∧ (buildNative n fms).2.length = n ∧
    (∀ t ∈ (buildNative n fms).2, t < (buildNative n fms).1.nodes.size) ∧
    (buildNative n fms).2.map (eval (buildNative n fms).1) = fms.map Fm.sem ∧
    (∀ f ∈ fms.map Fm.sem, TT.DetBy n f) ∧ SpecSound.Reps n (tablesOf n fms) (fms.map Fm.sem) := by
  have hok : ∀ f ∈ fms, f.atomsOK := fun f hf => NConc.atomsOK_of_lt hn f (ha f hf)
  have ⟨w, hlen, hc⟩ := buildNative_correct n fms hn hok
  have hvalid : ∀ t ∈ (buildNative n fms).2, t < (buildNative n fms).1.nodes.size := by
    intro t ht
    obtain ⟨i, hi, rfl⟩ := List.getElem_of_mem ht
    have hi' : i < fms.length := by omega
    exact (hc i _ _ (List.getElem?_eq_getElem hi) (List.getElem?_eq_getElem hi')).1
  have e : (buildNative n fms).2.map (eval (buildNative n fms).1) = fms.map Fm.sem :=
    map_eval_eq_sem _ _ fms hlen (fun i t f a c => (hc i t f a c).2)
  have hdet : ∀ f ∈ fms.map Fm.sem, TT.DetBy n f := by
    intro f hf
    obtain ⟨φ, hφ, rfl⟩ := List.mem_map.mp hf
    exact NConc.sem_supp φ (ha φ hφ)
  refine ⟨w, by rw [hlen, hl], hvalid, e, hdet, ?_⟩
  have := SpecSound.reps_ofFn n (fms.map Fm.sem) hdet
  rw [List.map_map] at this
  exact this

/-- **C15, every bound**: for EVERY library mode, flag set and heuristic, on the framework compiled
from the written conditions (every atom a statement of the framework): if no nogood-learning search
of the invocation hit the iteration bound, then EVERY block of the output is, as a multiset of
three-valued interpretations, the specification's answer for its section -/
theorem runF_faithful (fuel : Nat) (m : Mode) (f : Flags) (heu : SM.Heu) (n : Nat) (fms : List Fm)
    (hl : fms.length = n) (hn : n ≤ VBOT) (ha : ∀ φ ∈ fms, NConc.atomsLt n φ)
    (hh : HaltedF fuel m f heu (buildNative n fms).1 n (buildNative n fms).2) :
    ∀ blk ∈ runF fuel m f heu (buildNative n fms).1 n (buildNative n fms).2, Faithful n (tablesOf n fms) blk := by
  have ⟨w, hlen, hvalid, e, hdet, R⟩ := built_facts n fms hl hn ha
  have hD : (fms.map Fm.sem).length = n := by simp [hl]
  rw [← e] at hdet
  have ⟨w1, v1, l1, hs⟩ := start_facts m _ n _ w hlen hvalid hdet
  rw [e] at hs
  exact (runFromF_faithful R hD hs fuel heu _ _ w1 l1 v1 rfl (sections m f) (_, []) w1 (Ext.refl _) hh
    (fun _ h => by cases h)).2.2

/-- **C15, termination**: from some bound on, no search of the invocation hits it — so the hypothesis
of `runF_faithful` is satisfiable for every invocation, and the bounded model with that bound is
faithful outright -/
theorem runF_faithful_eventually (m : Mode) (f : Flags) (heu : SM.Heu) (n : Nat) (fms : List Fm)
    (hl : fms.length = n) (hn : n ≤ VBOT) (ha : ∀ φ ∈ fms, NConc.atomsLt n φ) :
    ∃ F0, ∀ fuel, F0 ≤ fuel →
      HaltedF fuel m f heu (buildNative n fms).1 n (buildNative n fms).2 ∧
      ∀ blk ∈ runF fuel m f heu (buildNative n fms).1 n (buildNative n fms).2, Faithful n (tablesOf n fms) blk := by
  have ⟨w, hlen, hvalid, e, hdet, R⟩ := built_facts n fms hl hn ha
  have hD : (fms.map Fm.sem).length = n := by simp [hl]
  rw [← e] at hdet
  have ⟨w1, v1, l1, hs⟩ := start_facts m _ n _ w hlen hvalid hdet
  rw [e] at hs
  obtain ⟨F0, h0⟩ := haltsFromF_eventually R hD hs heu _ _ w1 l1 v1 rfl (sections m f) _ w1 (Ext.refl _)
  exact ⟨F0, fun fuel hf => ⟨h0 fuel hf, runF_faithful fuel m f heu n fms hl hn ha (h0 fuel hf)⟩⟩

/-- **C15 for `Cli.run`** (the function the driver runs, bound 1 000 000) -/
theorem run_faithful (m : Mode) (f : Flags) (heu : SM.Heu) (n : Nat) (fms : List Fm)
    (hl : fms.length = n) (hn : n ≤ VBOT) (ha : ∀ φ ∈ fms, NConc.atomsLt n φ)
    (hh : Halted m f heu (buildNative n fms).1 n (buildNative n fms).2) :
    ∀ blk ∈ Cli.run m f heu (buildNative n fms).1 n (buildNative n fms).2, Faithful n (tablesOf n fms) blk := by
  rw [← runF_eq]
  exact runF_faithful 1000000 m f heu n fms hl hn ha hh

end CliF
#print axioms CliF.runF_faithful
#print axioms CliF.runF_faithful_eventually
#print axioms CliF.run_faithful
