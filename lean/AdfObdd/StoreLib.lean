import AdfObdd.HybridModel
import AdfObdd.Compile
import AdfObdd.StoreCanon
/-! # The project's own ROBDD store as an instance of the abstract BDD-library interface

`Bio.Lib` / `Bio.Lawful` (BioModel.lean) describe what is ASSUMED of the external crate
`biodivine_lib_bdd`; `Bio.DumpSpec` (HybridModel.lean) what is assumed of its dump. The two instances
of BioModel.lean (`fnLib`, `ttLib`) have dumps that are full decision trees. Here the verified native
store (`Store`, `mkNode`, `iteF`, `restrictF`) is shown to be a lawful library too (`storeLawful`),
and its node-table dump (`storeDump`) satisfies `DumpSpec` (`storeDump_spec`): the dumps are REDUCED,
SHARED diagrams with SKIPPED LEVELS - the shape biodivine writes. Mathlib-free. -/
namespace Bio

/-! ## stage 1: the dump of a diagram of a store -/

/-- the dump of a diagram = a pair (frozen node table, handle): the table's prefix up to the handle.
Entries 0 and 1 are the store's terminal nodes, children precede parents (`WF.inner`), the root is
last. -/
def storeDump (p : Store × Nat) : List Node := p.1.nodes.toList.take (p.2 + 1)

theorem storeDump_get (s : Store) (t j : Nat) :
    (storeDump (s, t))[j]? = if j < t + 1 then s.nodes[j]? else none := by
  simp only [storeDump, List.getElem?_take, Array.getElem?_toList]

theorem storeDump_get_le (s : Store) (t j : Nat) (h : j ≤ t) : (storeDump (s, t))[j]? = s.nodes[j]? := by
  rw [storeDump_get, if_pos (by omega)]

theorem storeDump_get_some (s : Store) (t j : Nat) (n : Node) (h : (storeDump (s, t))[j]? = some n) :
    j ≤ t ∧ s.nodes[j]? = some n := by
  rw [storeDump_get] at h
  by_cases hj : j < t + 1
  · rw [if_pos hj] at h; exact ⟨by omega, h⟩
  · rw [if_neg hj] at h; cases h

theorem storeDump_ok (s : Store) (w : WF s) (t : Nat) : DumpOK (storeDump (s, t)) := by
  intro j n hj hn
  have ⟨_, hn'⟩ := storeDump_get_some s t j n hn
  have ⟨hv, hlo, hhi, _, hvlo, hvhi⟩ := w.inner j n hj hn'
  refine ⟨hv, hlo, hhi, ?_, ?_⟩
  · intro m _ hm; exact hvlo m (storeDump_get_some s t _ m hm).2
  · intro m _ hm; exact hvhi m (storeDump_get_some s t _ m hm).2

theorem storeDump_len (s : Store) (t : Nat) (ht : t < s.nodes.size) :
    (storeDump (s, t)).length = t + 1 := by
  simp only [storeDump, List.length_take, Array.length_toList]
  omega

theorem storeDump_den (s : Store) (w : WF s) (t : Nat) (ht : t < s.nodes.size) :
    ∀ j, j ≤ t → Den (storeDump (s, t)) j (eval s j) := by
  intro j
  induction j using Nat.strongRecOn with
  | _ j ih =>
    intro hj
    by_cases h0 : j = 0
    · subst h0
      have : eval s 0 = fun _ => false := by funext σ; exact eval_zero s σ
      rw [this]; exact Den.bot
    by_cases h1 : j = 1
    · subst h1
      have : eval s 1 = fun _ => true := by funext σ; exact eval_one s σ
      rw [this]; exact Den.top
    have hj2 : 2 ≤ j := by omega
    obtain ⟨n, hn⟩ := get_of_lt (ns := s.nodes) (i := j) (by omega)
    have ⟨_, hlo, hhi, _, _, _⟩ := w.inner j n hj2 hn
    have : eval s j = fun σ => if σ n.var then eval s n.hi σ else eval s n.lo σ := by
      funext σ; exact eval_node s w j n hj2 hn σ
    rw [this]
    exact Den.inner j n _ _ hj2 (by rw [storeDump_get_le s t j hj]; exact hn)
      (ih n.lo hlo (by omega)) (ih n.hi hhi (by omega))

/-! ### a concrete dump with a shared node and a skipped level

`realDump` is the table of `(x0 ∧ x2) ∨ (x1 ∧ x2)` over three variables: node 2 (`x2`) is shared by
the nodes 3 and 4, and the `lo` edge of node 4 (`x0`) skips level 1. -/
def realDump : List Node := [⟨3, 0, 0⟩, ⟨3, 1, 1⟩, ⟨2, 0, 1⟩, ⟨1, 0, 2⟩, ⟨0, 3, 2⟩]

theorem realDump_ok : DumpOK realDump := by
  intro j n hj hget
  match j, hj, hget with
  | 2, _, hget =>
    simp only [realDump, List.getElem?_cons_succ, List.getElem?_cons_zero, Option.some.injEq] at hget
    subst hget
    exact ⟨by simp [VBOT], by show 0 < 2; omega, by show 1 < 2; omega,
      fun m h => by simp only at h; omega, fun m h => by simp only at h; omega⟩
  | 3, _, hget =>
    simp only [realDump, List.getElem?_cons_succ, List.getElem?_cons_zero, Option.some.injEq] at hget
    subst hget
    refine ⟨by simp [VBOT], by show 0 < 3; omega, by show 2 < 3; omega,
      fun m h => by simp only at h; omega, ?_⟩
    intro m _ hm
    simp only [realDump, List.getElem?_cons_succ, List.getElem?_cons_zero, Option.some.injEq] at hm
    subst hm; show 1 < 2; omega
  | 4, _, hget =>
    simp only [realDump, List.getElem?_cons_succ, List.getElem?_cons_zero, Option.some.injEq] at hget
    subst hget
    refine ⟨by simp [VBOT], by show 3 < 4; omega, by show 2 < 4; omega, ?_, ?_⟩
    · intro m _ hm
      simp only [realDump, List.getElem?_cons_succ, List.getElem?_cons_zero, Option.some.injEq] at hm
      subst hm; show 0 < 1; omega
    · intro m _ hm
      simp only [realDump, List.getElem?_cons_succ, List.getElem?_cons_zero, Option.some.injEq] at hm
      subst hm; show 0 < 2; omega
  | j + 5, _, hget => simp [realDump] at hget

/-- the last entry of `realDump` denotes `x0 ? x2 : (x1 ? x2 : ⊥)` = `(x0 ∧ x2) ∨ (x1 ∧ x2)` -/
theorem realDump_den : Den realDump (realDump.length - 1)
    (fun σ => if σ 0 then (if σ 2 then true else false) else (if σ 1 then (if σ 2 then true else false) else false)) := by
  have d2 : Den realDump 2 (fun σ => if σ 2 then true else false) :=
    Den.inner 2 ⟨2, 0, 1⟩ _ _ (by omega) rfl Den.bot Den.top
  have d3 : Den realDump 3 (fun σ => if σ 1 then (if σ 2 then true else false) else false) :=
    Den.inner 3 ⟨1, 0, 2⟩ _ _ (by omega) rfl Den.bot d2
  exact Den.inner 4 ⟨0, 3, 2⟩ _ _ (by omega) rfl d3 d2

theorem realDump_sem (σ : Asg) :
    (if σ 0 then (if σ 2 then true else false) else (if σ 1 then (if σ 2 then true else false) else false))
      = ((σ 0 && σ 2) || (σ 1 && σ 2)) := by
  cases σ 0 <;> cases σ 1 <;> cases σ 2 <;> rfl

/-! ## stage 2: the store as a library -/

theorem wfInit : WF Store.init := by
  constructor
  · simp [Store.init]
  · simp [Store.init]
  · simp [Store.init]
  · intro i n hi hn
    have : i < 2 := by have := lt_of_get hn; simpa [Store.init] using this
    omega
  · intro n t
    constructor
    · intro h; simp [Store.init] at h
    · intro ⟨h2, hn⟩
      have : t < 2 := by have := lt_of_get hn; simpa [Store.init] using this
      omega
  · intro t v b r h; simp [Store.init] at h
  · intro i t e r h; simp [Store.init] at h

/-- the library's expressions are the native formulas, constructor for constructor -/
def toFm : BExpr → Fm
  | .const true => .top
  | .const false => .bot
  | .var i => .atom i
  | .not a => .not (toFm a)
  | .and a b => .and (toFm a) (toFm b)
  | .or a b => .or (toFm a) (toFm b)
  | .xor a b => .xor (toFm a) (toFm b)
  | .imp a b => .imp (toFm a) (toFm b)
  | .iff a b => .iff (toFm a) (toFm b)

theorem toFm_sem (e : BExpr) : (toFm e).sem = e.sem := by
  induction e with
  | const b => cases b <;> rfl
  | var i => rfl
  | not a ih => funext σ; simp only [toFm, Fm.sem, BExpr.sem, ih]
  | and a b iha ihb => funext σ; simp only [toFm, Fm.sem, BExpr.sem, iha, ihb]
  | or a b iha ihb => funext σ; simp only [toFm, Fm.sem, BExpr.sem, iha, ihb]
  | xor a b iha ihb => funext σ; simp only [toFm, Fm.sem, BExpr.sem, iha, ihb]
  | imp a b iha ihb => funext σ; simp only [toFm, Fm.sem, BExpr.sem, iha, ihb]
  | iff a b iha ihb => funext σ; simp only [toFm, Fm.sem, BExpr.sem, iha, ihb]

theorem toFm_ok (e : BExpr) (nv : Nat) (h : e.closed nv = true) (hn : nv ≤ VBOT) : (toFm e).atomsOK := by
  induction e with
  | const b => cases b <;> exact trivial
  | var i =>
    have : i < nv := by simpa [BExpr.closed] using h
    exact Nat.lt_of_lt_of_le this hn
  | not a ih => exact ih h
  | and a b iha ihb =>
    simp only [BExpr.closed, Bool.and_eq_true] at h; exact ⟨iha h.1, ihb h.2⟩
  | or a b iha ihb =>
    simp only [BExpr.closed, Bool.and_eq_true] at h; exact ⟨iha h.1, ihb h.2⟩
  | xor a b iha ihb =>
    simp only [BExpr.closed, Bool.and_eq_true] at h; exact ⟨iha h.1, ihb h.2⟩
  | imp a b iha ihb =>
    simp only [BExpr.closed, Bool.and_eq_true] at h; exact ⟨iha h.1, ihb h.2⟩
  | iff a b iha ihb =>
    simp only [BExpr.closed, Bool.and_eq_true] at h; exact ⟨iha h.1, ihb h.2⟩

/-- import a diagram of another table into store `s` by replaying its dump through `mkNode`
(this IS the loop of `from_biodivine_vector`) -/
def importInto (s : Store) (p : Store × Nat) : Store × Nat :=
  if p.2 < 2 then (s, p.2)
  else
    let r := replayL ((storeDump p).drop 2) s [0, 1]
    (r.1, r.2.getD p.2 0)

theorem importInto_good (s : Store) (w : WF s) (p : Store × Nat) (wp : WF p.1)
    (hp : p.2 < p.1.nodes.size) :
    Good s (importInto s p).1 (importInto s p).2 (eval p.1 p.2) := by
  obtain ⟨ps, pt⟩ := p
  simp only at wp hp ⊢
  unfold importInto
  by_cases h2 : pt < 2
  · simp only [h2, if_true]
    refine ⟨w, Ext.refl _, by have := w.len; omega, ?_⟩
    intro σ
    have h01 : pt = 0 ∨ pt = 1 := by omega
    rcases h01 with h | h <;> subst h
    · rw [eval_zero, eval_zero]
    · rw [eval_one, eval_one]
  · simp only [h2, if_false]
    have hlen := storeDump_len ps pt hp
    have ⟨a, b, c, d⟩ := bridge_correct (storeDump (ps, pt)) (storeDump_ok ps wp pt) (by omega) s w
    have hget : (replayL ((storeDump (ps, pt)).drop 2) s [0, 1]).2[pt]? =
        some ((replayL ((storeDump (ps, pt)).drop 2) s [0, 1]).2[pt]'(by rw [c, hlen]; omega)) :=
      List.getElem?_eq_getElem _
    have ⟨e, f⟩ := d pt _ (eval ps pt) hget (storeDump_den ps wp pt hp pt (Nat.le_refl _))
    rw [getD_of_get hget]
    exact ⟨a, b, e, f⟩

theorem and_good (s : Store) (w : WF s) (a b : Nat) (ha : a < s.nodes.size) (hb : b < s.nodes.size) :
    Good s (opIte s a b 0).1 (opIte s a b 0).2 (fun σ => eval s a σ && eval s b σ) := by
  have g := opIte_good s w a b 0 ha hb (zero_lt s w)
  refine ⟨g.wf, g.ext, g.lt, ?_⟩
  intro σ; rw [g.ev σ, eval_zero]; cases eval s a σ <;> cases eval s b σ <;> rfl

theorem or_good (s : Store) (w : WF s) (a b : Nat) (ha : a < s.nodes.size) (hb : b < s.nodes.size) :
    Good s (opIte s a 1 b).1 (opIte s a 1 b).2 (fun σ => eval s a σ || eval s b σ) := by
  have g := opIte_good s w a 1 b ha (one_lt s w) hb
  refine ⟨g.wf, g.ext, g.lt, ?_⟩
  intro σ; rw [g.ev σ, eval_one]; cases eval s a σ <;> cases eval s b σ <;> rfl

theorem iff_good (s : Store) (w : WF s) (a b : Nat) (ha : a < s.nodes.size) (hb : b < s.nodes.size) :
    Good s (opIte (opNot s b).1 a b (opNot s b).2).1 (opIte (opNot s b).1 a b (opNot s b).2).2
      (fun σ => eval s a σ == eval s b σ) := by
  have gn := opNot_good s w b hb
  have la := Nat.lt_of_lt_of_le ha gn.ext.1
  have lb := Nat.lt_of_lt_of_le hb gn.ext.1
  have g := opIte_good _ gn.wf a b _ la lb gn.lt
  refine ⟨g.wf, gn.ext.trans g.ext, g.lt, ?_⟩
  intro σ
  rw [g.ev σ, eval_ext w gn.ext a σ ha, eval_ext w gn.ext b σ hb, gn.ev σ]
  cases eval s a σ <;> cases eval s b σ <;> rfl

/-- a diagram of the library: a well-formed store and a handle into it -/
def SValid (p : Store × Nat) : Prop := WF p.1 ∧ p.2 < p.1.nodes.size

/-- `Bdd::and`: the second operand is imported into the first one's table -/
def sAnd (a b : Store × Nat) : Store × Nat :=
  let r := importInto a.1 b; opIte r.1 a.2 r.2 0
def sIff (a b : Store × Nat) : Store × Nat :=
  let r := importInto a.1 b; let nb := opNot r.1 r.2; opIte nb.1 a.2 r.2 nb.2
/-- one literal of `restrict`: the native `restrict` with enough fuel -/
def resStep (acc : Store × Nat) (q : Nat × Bool) : Store × Nat :=
  restrictF (acc.2 + 1) acc.1 acc.2 q.1 q.2
/-- one literal of `select`: conjunction with the compiled literal -/
def selStep (acc : Store × Nat) (q : Nat × Bool) : Store × Nat :=
  let r := compile acc.1 (if q.2 then Fm.atom q.1 else Fm.not (Fm.atom q.1)); opIte r.1 acc.2 r.2 0
/-- one variable of `exists`: the disjunction of the two cofactors -/
def exStep (acc : Store × Nat) (v : Nat) : Store × Nat :=
  let r0 := restrictF (acc.2 + 1) acc.1 acc.2 v false
  let r1 := restrictF (acc.2 + 1) r0.1 acc.2 v true
  opIte r1.1 r0.2 1 r1.2

/-! compiled forms: the pair is taken apart FIRST, so that nothing else refers to the store while it is
updated (in-place updates of a uniquely referenced store instead of a copy of the node table and the
three hash maps per operation); proved equal and substituted by the compiler (`@[csimp]`), the theorems
keep speaking about the definitions above -/
def sAndL (a b : Store × Nat) : Store × Nat :=
  match a with
  | (s, t) => match importInto s b with
    | (s', tb) => opIte s' t tb 0
def sIffL (a b : Store × Nat) : Store × Nat :=
  match a with
  | (s, t) => match importInto s b with
    | (s', tb) => match opNot s' tb with
      | (s'', nb) => opIte s'' t tb nb
def resStepL (acc : Store × Nat) (q : Nat × Bool) : Store × Nat :=
  match acc with
  | (s, t) => restrictF (t + 1) s t q.1 q.2
def exStepL (acc : Store × Nat) (v : Nat) : Store × Nat :=
  match acc with
  | (s, t) => match restrictF (t + 1) s t v false with
    | (s0, t0) => match restrictF (t + 1) s0 t v true with
      | (s1, t1) => opIte s1 t0 1 t1
@[csimp] theorem sAnd_eq_sAndL : @sAnd = @sAndL := by funext a b; cases a; simp only [sAnd, sAndL]
@[csimp] theorem sIff_eq_sIffL : @sIff = @sIffL := by funext a b; cases a; simp only [sIff, sIffL]
@[csimp] theorem resStep_eq_resStepL : @resStep = @resStepL := by funext a q; cases a; simp only [resStep, resStepL]
@[csimp] theorem exStep_eq_exStepL : @exStep = @exStepL := by funext a v; cases a; simp only [exStep, exStepL]

theorem sAnd_spec (a b : Store × Nat) (va : SValid a) (vb : SValid b) :
    SValid (sAnd a b) ∧ (eval (sAnd a b).1 (sAnd a b).2 = fun σ => eval a.1 a.2 σ && eval b.1 b.2 σ) := by
  have g := importInto_good a.1 va.1 b vb.1 vb.2
  have la := Nat.lt_of_lt_of_le va.2 g.ext.1
  have go := and_good _ g.wf a.2 _ la g.lt
  refine ⟨⟨go.wf, go.lt⟩, ?_⟩
  funext σ
  show eval (opIte _ a.2 _ 0).1 (opIte _ a.2 _ 0).2 σ = _
  rw [go.ev σ, eval_ext va.1 g.ext a.2 σ va.2, g.ev σ]

theorem sIff_spec (a b : Store × Nat) (va : SValid a) (vb : SValid b) :
    SValid (sIff a b) ∧ (eval (sIff a b).1 (sIff a b).2 = fun σ => eval a.1 a.2 σ == eval b.1 b.2 σ) := by
  have g := importInto_good a.1 va.1 b vb.1 vb.2
  have la := Nat.lt_of_lt_of_le va.2 g.ext.1
  have go := iff_good _ g.wf a.2 _ la g.lt
  refine ⟨⟨go.wf, go.lt⟩, ?_⟩
  funext σ
  show eval (opIte (opNot _ _).1 a.2 _ (opNot _ _).2).1 (opIte (opNot _ _).1 a.2 _ (opNot _ _).2).2 σ = _
  rw [go.ev σ, eval_ext va.1 g.ext a.2 σ va.2, g.ev σ]

theorem resStep_spec (t : Store × Nat) (q : Nat × Bool) (vt : SValid t) :
    SValid (resStep t q) ∧ (eval (resStep t q).1 (resStep t q).2 = fun σ => eval t.1 t.2 (upd σ q.1 q.2)) := by
  have ⟨a, _, c, _, e⟩ := restrictF_spec (t.2 + 1) t.1 t.2 q.1 q.2 vt.1 vt.2 (Nat.lt_succ_self _)
  exact ⟨⟨a, c⟩, funext e⟩

theorem selStep_spec (t : Store × Nat) (q : Nat × Bool) (vt : SValid t) (hq : q.1 < VBOT) :
    SValid (selStep t q) ∧
    (eval (selStep t q).1 (selStep t q).2 = fun σ => eval t.1 t.2 σ && (σ q.1 == q.2)) := by
  have hok : (if q.2 then Fm.atom q.1 else Fm.not (Fm.atom q.1)).atomsOK := by
    cases q.2
    · exact hq
    · exact hq
  have g := compile_correct _ t.1 vt.1 hok
  have la := Nat.lt_of_lt_of_le vt.2 g.ext.1
  have go := and_good _ g.wf t.2 _ la g.lt
  refine ⟨⟨go.wf, go.lt⟩, ?_⟩
  funext σ
  show eval (opIte _ t.2 _ 0).1 (opIte _ t.2 _ 0).2 σ = _
  rw [go.ev σ, eval_ext vt.1 g.ext t.2 σ vt.2, g.ev σ]
  cases q.2 <;> simp [Fm.sem]

theorem exStep_spec (t : Store × Nat) (v : Nat) (vt : SValid t) :
    SValid (exStep t v) ∧ (eval (exStep t v).1 (exStep t v).2 = ex1 (eval t.1 t.2) v) := by
  have ⟨w0, e0, l0, _, ev0⟩ := restrictF_spec (t.2 + 1) t.1 t.2 v false vt.1 vt.2 (Nat.lt_succ_self _)
  have lt0 := Nat.lt_of_lt_of_le vt.2 e0.1
  have ⟨w1, e1, l1, _, ev1⟩ := restrictF_spec (t.2 + 1) _ t.2 v true w0 lt0 (Nat.lt_succ_self _)
  have l0' := Nat.lt_of_lt_of_le l0 e1.1
  have go := or_good _ w1 _ _ l0' l1
  refine ⟨⟨go.wf, go.lt⟩, ?_⟩
  funext σ
  show eval (opIte _ _ 1 _).1 (opIte _ _ 1 _).2 σ = _
  rw [go.ev σ, ev1 σ, eval_ext w0 e1 _ σ l0, ev0 σ, eval_ext vt.1 e0 t.2 _ vt.2]
  rfl

theorem sRestrict_spec : ∀ (l : List (Nat × Bool)) (t : Store × Nat), SValid t →
    SValid (l.foldl resStep t) ∧
    (eval (l.foldl resStep t).1 (l.foldl resStep t).2 = fun σ => eval t.1 t.2 (updL σ l)) := by
  intro l
  induction l with
  | nil => intro t vt; exact ⟨vt, rfl⟩
  | cons p l ih =>
    intro t vt
    have ⟨sv, sd⟩ := resStep_spec t p vt
    have ⟨a, b⟩ := ih _ sv
    simp only [List.foldl_cons]
    refine ⟨a, ?_⟩
    rw [b, sd]
    rfl

theorem sSelect_spec : ∀ (l : List (Nat × Bool)) (t : Store × Nat), SValid t → (∀ p ∈ l, p.1 < VBOT) →
    SValid (l.foldl selStep t) ∧
    (eval (l.foldl selStep t).1 (l.foldl selStep t).2 = sel (eval t.1 t.2) l) := by
  intro l
  induction l with
  | nil => intro t vt _; exact ⟨vt, by funext σ; simp [sel]⟩
  | cons p l ih =>
    intro t vt hl
    have ⟨sv, sd⟩ := selStep_spec t p vt (hl p (List.mem_cons_self ..))
    have ⟨a, b⟩ := ih _ sv (fun q hq => hl q (List.mem_cons_of_mem _ hq))
    simp only [List.foldl_cons]
    refine ⟨a, ?_⟩
    rw [b, sd]
    funext σ
    simp only [sel, List.all_cons, Bool.and_assoc]

theorem sExist_spec : ∀ (vs : List Nat) (t : Store × Nat), SValid t →
    SValid (vs.foldl exStep t) ∧
    (eval (vs.foldl exStep t).1 (vs.foldl exStep t).2 = exL (eval t.1 t.2) vs) := by
  intro vs
  induction vs with
  | nil => intro t vt; exact ⟨vt, rfl⟩
  | cons v vs ih =>
    intro t vt
    have ⟨sv, sd⟩ := exStep_spec t v vt
    have ⟨a, b⟩ := ih _ sv
    simp only [List.foldl_cons, exL] at a b ⊢
    refine ⟨a, ?_⟩
    rw [b, sd]

/-! ### `sat_valuations`, output-sensitive -/

/-- `sat_valuations` by walking the diagram: variable `k = 0 … nv-1` in order, branch false first;
a level the diagram skips doubles the valuations (computed once); pruned at the ⊥ terminal. The
first argument is the number of variables still to be decided. No enumeration of all valuations:
every recursive call on a handle other than ⊥ of a well-formed store yields at least one valuation
per call chain (reduced diagrams: only ⊥ is unsatisfiable). -/
def satGo (s : Store) : Nat → Nat → Nat → List (List Bool)
  | 0, _, t => if eval s t (fun _ => false) then [[]] else []
  | f + 1, k, t =>
    if t = 0 then [] else
    match s.nodes[t]? with
    | some n =>
      if 2 ≤ t ∧ n.var = k then
        (satGo s f (k + 1) n.lo).map (false :: ·) ++ (satGo s f (k + 1) n.hi).map (true :: ·)
      else
        let r := satGo s f (k + 1) t
        r.map (false :: ·) ++ r.map (true :: ·)
    | none => []

/-- the assignment a valuation `val` of the variables `k, k+1, …` stands for (everything
else false); for `k = 0` it is `asgOf val` -/
def asgFrom (k : Nat) (val : List Bool) : Asg := fun i => if i < k then false else val.getD (i - k) false

theorem asgFrom_zero (val : List Bool) : asgFrom 0 val = asgOf val := by
  funext i; simp [asgFrom, asgOf]

theorem asgFrom_nil (k : Nat) : asgFrom k [] = fun _ => false := by
  funext i; simp [asgFrom]

theorem asgFrom_cons (k : Nat) (b : Bool) (v : List Bool) :
    asgFrom k (b :: v) = upd (asgFrom (k + 1) v) k b := by
  funext i
  simp only [asgFrom, upd]
  by_cases h1 : i < k
  · have h2 : i ≠ k := by omega
    have h3 : i < k + 1 := by omega
    simp only [h1, h2, h3, if_true, if_false]
  · by_cases h2 : i = k
    · subst h2; simp
    · have h3 : ¬ i < k + 1 := by omega
      obtain ⟨d, hd⟩ : ∃ d, i - k = d + 1 := ⟨i - k - 1, by omega⟩
      have h4 : i - (k + 1) = d := by omega
      simp only [h1, h2, h3, if_false, hd, h4, List.getD_cons_succ]

theorem sat_step (s : Store) (t k f cl ch : Nat) (A B : List (List Bool))
    (hA : A.Nodup ∧ ∀ v, v ∈ A ↔ (v.length = f ∧ eval s cl (asgFrom (k + 1) v) = true))
    (hB : B.Nodup ∧ ∀ v, v ∈ B ↔ (v.length = f ∧ eval s ch (asgFrom (k + 1) v) = true))
    (el : ∀ σ, eval s t (upd σ k false) = eval s cl σ)
    (eh : ∀ σ, eval s t (upd σ k true) = eval s ch σ) :
    (A.map (false :: ·) ++ B.map (true :: ·)).Nodup ∧
    ∀ val, val ∈ A.map (false :: ·) ++ B.map (true :: ·) ↔
      (val.length = f + 1 ∧ eval s t (asgFrom k val) = true) := by
  constructor
  · unfold List.Nodup
    rw [List.pairwise_append]
    refine ⟨?_, ?_, ?_⟩
    · rw [List.pairwise_map]
      exact List.Pairwise.imp (fun h h' => h (List.cons.inj h').2) hA.1
    · rw [List.pairwise_map]
      exact List.Pairwise.imp (fun h h' => h (List.cons.inj h').2) hB.1
    · intro a ha b hb
      simp only [List.mem_map] at ha hb
      obtain ⟨u, _, rfl⟩ := ha
      obtain ⟨v, _, rfl⟩ := hb
      intro h; cases h
  · intro val
    simp only [List.mem_append, List.mem_map]
    constructor
    · rintro (⟨v, hv, rfl⟩ | ⟨v, hv, rfl⟩)
      · have h := (hA.2 v).mp hv
        refine ⟨by simp [h.1], ?_⟩
        rw [asgFrom_cons, el]; exact h.2
      · have h := (hB.2 v).mp hv
        refine ⟨by simp [h.1], ?_⟩
        rw [asgFrom_cons, eh]; exact h.2
    · intro ⟨hl, he⟩
      cases val with
      | nil => simp at hl
      | cons b v =>
        rw [asgFrom_cons] at he
        have hl' : v.length = f := by simpa using hl
        cases b with
        | false => left; exact ⟨v, (hA.2 v).mpr ⟨hl', by rw [← el]; exact he⟩, rfl⟩
        | true => right; exact ⟨v, (hB.2 v).mpr ⟨hl', by rw [← eh]; exact he⟩, rfl⟩

/-- `satGo` lists, without repetition, exactly the valuations of the `f` variables `k … k+f-1`
that satisfy the diagram (the variables below `k` do not occur in it: `k ≤ topVar s t`) -/
theorem satGo_spec (s : Store) (w : WF s) : ∀ (f k t : Nat), t < s.nodes.size → k ≤ topVar s t →
    k + f ≤ VBOT →
    (satGo s f k t).Nodup ∧
    ∀ val, val ∈ satGo s f k t ↔ (val.length = f ∧ eval s t (asgFrom k val) = true) := by
  intro f
  induction f with
  | zero =>
    intro k t _ _ _
    unfold satGo
    by_cases h : eval s t (fun _ => false) = true
    · rw [if_pos h]
      refine ⟨by simp, ?_⟩
      intro val
      constructor
      · intro hm
        have : val = [] := by simpa using hm
        subst this
        exact ⟨rfl, by rw [asgFrom_nil]; exact h⟩
      · intro ⟨hl, _⟩
        have : val = [] := List.eq_nil_of_length_eq_zero hl
        subst this; simp
    · rw [if_neg h]
      refine ⟨by simp, ?_⟩
      intro val
      constructor
      · intro hm; simp at hm
      · intro ⟨hl, he⟩
        have : val = [] := List.eq_nil_of_length_eq_zero hl
        subst this
        rw [asgFrom_nil] at he; exact absurd he h
  | succ f ih =>
    intro k t ht hk hkf
    by_cases t0 : t = 0
    · subst t0
      have : satGo s (f + 1) k 0 = [] := by simp [satGo]
      rw [this]
      refine ⟨by simp, ?_⟩
      intro val
      constructor
      · intro hm; simp at hm
      · intro ⟨_, he⟩; rw [eval_zero] at he; cases he
    obtain ⟨n, hn⟩ := get_of_lt ht
    by_cases hc : 2 ≤ t ∧ n.var = k
    · have heq : satGo s (f + 1) k t =
          (satGo s f (k + 1) n.lo).map (false :: ·) ++ (satGo s f (k + 1) n.hi).map (true :: ·) := by
        rw [satGo]; simp only [t0, if_false, hn, hc, and_self, if_true]
      rw [heq]
      have ⟨_, hlo, hhi, _, _, _⟩ := w.inner t n hc.1 hn
      have tl := topVar_child_lo w hc.1 hn
      have th := topVar_child_hi w hc.1 hn
      have hk' := hc.2
      exact sat_step s t k f n.lo n.hi _ _
        (ih (k + 1) n.lo (by omega) (by omega) (by omega))
        (ih (k + 1) n.hi (by omega) (by omega) (by omega))
        (fun σ => by rw [← hk']; exact (eval_lo s w t n hc.1 hn σ).symm)
        (fun σ => by rw [← hk']; exact (eval_hi s w t n hc.1 hn σ).symm)
    · have heq : satGo s (f + 1) k t =
          (satGo s f (k + 1) t).map (false :: ·) ++ (satGo s f (k + 1) t).map (true :: ·) := by
        rw [satGo]; simp only [t0, if_false, hn, hc]
      rw [heq]
      have hlt : k < topVar s t := by
        by_cases t2 : 2 ≤ t
        · have htv : topVar s t = n.var := by simp [topVar, hn]
          rw [htv] at hk ⊢
          have : n.var ≠ k := fun h => hc ⟨t2, h⟩
          omega
        · have t1 : t = 1 := by omega
          subst t1
          rw [topVar_one w]
          have : VBOT < VTOP := by simp [VBOT, VTOP]
          omega
      have r := ih (k + 1) t ht (by omega) (by omega)
      exact sat_step s t k f t t _ _ r r
        (fun σ => eval_upd_of_lt s w t ht k false hlt σ)
        (fun σ => eval_upd_of_lt s w t ht k true hlt σ)

/-- the native store as a BDD library over `nv` declared variables: a diagram is a pair
(node table, handle); every operation returns the extended table together with the new handle.
Binary operations first import the second operand into the first operand's table (`importInto`). -/
def storeLib (nv : Nat) : Lib (Store × Nat) where
  evalExpr e := compile Store.init (toFm e)
  mkFalse := (Store.init, 0)
  isTrue p := p.2 == 1
  isFalse p := p.2 == 0
  and := sAnd
  iff := sIff
  restrict t l := l.foldl resStep t
  select t l := l.foldl selStep t
  exist t vs := vs.foldl exStep t
  satVals p := satGo p.1 nv 0 p.2

/-- the native store is a lawful library (for at most `VBOT` declared variables: the variable
numbers `VBOT`, `VTOP` are the terminals' markers) -/
def storeLawful (nv : Nat) (hn : nv ≤ VBOT) : Lawful (storeLib nv) nv where
  Valid := SValid
  den p := eval p.1 p.2
  evalExpr_spec := fun e he => by
    have g := compile_correct (toFm e) Store.init wfInit (toFm_ok e nv he hn)
    refine ⟨⟨g.wf, g.lt⟩, ?_⟩
    rw [← toFm_sem]; exact funext g.ev
  mkFalse_spec := ⟨⟨wfInit, by simp [storeLib, Store.init]⟩, funext (eval_zero _)⟩
  isTrue_spec := fun p vp => by
    show (p.2 == 1) = true ↔ _
    rw [beq_iff_eq, ← canonical p.1 vp.1 p.2 1 vp.2 (one_lt _ vp.1)]
    constructor
    · intro h σ; rw [h σ, eval_one]
    · intro h σ; rw [h σ, eval_one]
  isFalse_spec := fun p vp => by
    show (p.2 == 0) = true ↔ _
    rw [beq_iff_eq, ← canonical p.1 vp.1 p.2 0 vp.2 (zero_lt _ vp.1)]
    constructor
    · intro h σ; rw [h σ, eval_zero]
    · intro h σ; rw [h σ, eval_zero]
  select_spec := fun t l vt hl =>
    sSelect_spec l t vt (fun p hp => Nat.lt_of_lt_of_le (hl p hp) hn)
  exist_spec := fun t vs vt _ => sExist_spec vs t vt
  restrict_spec := fun t l vt _ _ => sRestrict_spec l t vt
  and_spec := fun a b va vb => sAnd_spec a b va vb
  iff_spec := fun a b va vb => sIff_spec a b va vb
  sat_spec := fun p vp => by
    have h := satGo_spec p.1 vp.1 nv 0 p.2 vp.2 (Nat.zero_le _) (by omega)
    refine ⟨h.1, ?_⟩
    intro val
    have h2 := h.2 val
    rw [asgFrom_zero] at h2
    exact h2

/-! ## stage 3: the dump of the store library satisfies the assumption about biodivine's dump -/

theorem storeDump_spec (nv : Nat) (hn : nv ≤ VBOT) : DumpSpec (storeLawful nv hn) storeDump := by
  constructor
  intro p vp h1 h0
  obtain ⟨s, t⟩ := p
  have ht : 2 ≤ t := by
    have a : ¬ t = 1 := by simpa [storeLib] using h1
    have b : ¬ t = 0 := by simpa [storeLib] using h0
    omega
  have hlen := storeDump_len s t vp.2
  refine ⟨storeDump_ok s vp.1 t, by omega, ?_⟩
  rw [hlen]
  exact storeDump_den s vp.1 t vp.2 t (Nat.le_refl _)

/-- every non-constant diagram the store library builds from an expression has a dump that the
bridge can read, and the dump's last entry denotes the expression -/
theorem storeDump_evalExpr (nv : Nat) (hn : nv ≤ VBOT) (e : BExpr) (he : e.closed nv = true)
    (h1 : (storeLib nv).isTrue ((storeLib nv).evalExpr e) = false)
    (h0 : (storeLib nv).isFalse ((storeLib nv).evalExpr e) = false) :
    DumpOK (storeDump ((storeLib nv).evalExpr e)) ∧ 2 ≤ (storeDump ((storeLib nv).evalExpr e)).length ∧
    Den (storeDump ((storeLib nv).evalExpr e)) ((storeDump ((storeLib nv).evalExpr e)).length - 1) e.sem := by
  have v := (storeLawful nv hn).evalExpr_spec e he
  have h := (storeDump_spec nv hn).ok _ v.1 h1 h0
  rw [v.2] at h
  exact h

/-! ### a concrete VALID diagram of the store library whose dump is shared and skips a level

`Std.HashMap` does not reduce in the kernel, so the table is not computed by `decide`: the three
`mkNode` calls are followed by hand (`mkNode_fresh`: a node that is not in the table is pushed). -/

theorem mkNode_fresh (s : Store) (w : WF s) (v lo hi : Nat) (hne : lo ≠ hi)
    (hfresh : ∀ t, 2 ≤ t → s.nodes[t]? ≠ some ⟨v, lo, hi⟩) :
    (mkNode s v lo hi).1.nodes = s.nodes.push ⟨v, lo, hi⟩ ∧ (mkNode s v lo hi).2 = s.nodes.size := by
  unfold mkNode
  rw [if_neg hne]
  cases hl : s.uniq[(⟨v, lo, hi⟩ : Node)]? with
  | some t =>
    have ⟨ht2, hget⟩ := (w.uniqOK _ t).mp hl
    exact absurd hget (hfresh t ht2)
  | none => exact ⟨rfl, rfl⟩

/-- `x2`, then `x1 ∧ x2`, then `x0 ? x2 : (x1 ∧ x2)` = `(x0 ∧ x2) ∨ (x1 ∧ x2)` -/
def exStore : Store := (mkNode (mkNode (mkNode Store.init 2 0 1).1 1 0 2).1 0 3 2).1

theorem exStore_facts : WF exStore ∧
    exStore.nodes = #[⟨VBOT, 0, 0⟩, ⟨VTOP, 1, 1⟩, ⟨2, 0, 1⟩, ⟨1, 0, 2⟩, ⟨0, 3, 2⟩] := by
  have hB : (2 : Nat) < VBOT := by simp [VBOT]
  have hT : (2 : Nat) < VTOP := by simp [VTOP]
  -- first node: x2
  have w0 := wfInit
  have n0 : Store.init.nodes = #[⟨VBOT, 0, 0⟩, ⟨VTOP, 1, 1⟩] := rfl
  have ⟨w1, _, _, _, _⟩ := mkNode_spec Store.init w0 2 0 1 (by simp [n0]) (by simp [n0]) hB
    (by rw [topVar_zero w0]; exact hB) (by rw [topVar_one w0]; exact hT)
  have n1 : (mkNode Store.init 2 0 1).1.nodes = #[⟨VBOT, 0, 0⟩, ⟨VTOP, 1, 1⟩, ⟨2, 0, 1⟩] := by
    rw [(mkNode_fresh Store.init w0 2 0 1 (by omega) (by
      intro t ht; rw [n0]
      match t, ht with
      | t + 2, _ => simp)).1, n0]
    rfl
  -- second node: x1 ∧ x2
  have ⟨w2, _, _, _, _⟩ := mkNode_spec _ w1 1 0 2 (by simp [n1]) (by simp [n1]) (by simp [VBOT])
    (by rw [topVar_zero w1]; simp [VBOT]) (by simp [topVar, n1])
  have n2 : (mkNode (mkNode Store.init 2 0 1).1 1 0 2).1.nodes =
      #[⟨VBOT, 0, 0⟩, ⟨VTOP, 1, 1⟩, ⟨2, 0, 1⟩, ⟨1, 0, 2⟩] := by
    rw [(mkNode_fresh _ w1 1 0 2 (by omega) (by
      intro t ht; rw [n1]
      match t, ht with
      | 2, _ => simp
      | t + 3, _ => simp)).1, n1]
    rfl
  -- third node: x0 ? x2 : (x1 ∧ x2)
  have ⟨w3, _, _, _, _⟩ := mkNode_spec _ w2 0 3 2 (by simp [n2]) (by simp [n2]) (by simp [VBOT])
    (by simp [topVar, n2]) (by simp [topVar, n2])
  have n3 : (mkNode (mkNode (mkNode Store.init 2 0 1).1 1 0 2).1 0 3 2).1.nodes =
      #[⟨VBOT, 0, 0⟩, ⟨VTOP, 1, 1⟩, ⟨2, 0, 1⟩, ⟨1, 0, 2⟩, ⟨0, 3, 2⟩] := by
    rw [(mkNode_fresh _ w2 0 3 2 (by omega) (by
      intro t ht; rw [n2]
      match t, ht with
      | 2, _ => simp
      | 3, _ => simp
      | t + 4, _ => simp)).1, n2]
    rfl
  exact ⟨w3, n3⟩

theorem exStore_valid : (storeLawful 3 (by simp [VBOT])).Valid (exStore, 4) :=
  ⟨exStore_facts.1, by rw [exStore_facts.2]; simp⟩

/-- the dump of the diagram: 3 inner nodes for a function whose decision tree has 7; node 2 is
the `hi` child of both node 3 and node 4 (SHARED), and the `hi` edge of node 4 (variable 0) goes
to a node of variable 2 (level 1 SKIPPED) -/
theorem exStore_dump : storeDump (exStore, 4) =
    [⟨VBOT, 0, 0⟩, ⟨VTOP, 1, 1⟩, ⟨2, 0, 1⟩, ⟨1, 0, 2⟩, ⟨0, 3, 2⟩] := by
  simp only [storeDump, exStore_facts.2]
  rfl

/-- what the bridge reads of it (everything but the two terminal entries) is `realDump`'s -/
theorem exStore_dump_real : (storeDump (exStore, 4)).drop 2 = realDump.drop 2 := by
  rw [exStore_dump]; rfl

theorem exStore_den : (storeLawful 3 (by simp [VBOT])).den (exStore, 4) =
    fun σ => (σ 0 && σ 2) || (σ 1 && σ 2) := by
  have ⟨w, n⟩ := exStore_facts
  funext σ
  show eval exStore 4 σ = _
  rw [eval_node exStore w 4 ⟨0, 3, 2⟩ (by omega) (by rw [n]; rfl),
      eval_node exStore w 3 ⟨1, 0, 2⟩ (by omega) (by rw [n]; rfl),
      eval_node exStore w 2 ⟨2, 0, 1⟩ (by omega) (by rw [n]; rfl), eval_zero, eval_one]
  cases σ 0 <;> cases σ 1 <;> cases σ 2 <;> rfl

/-- `DumpSpec` instantiated at this diagram: the shared, level-skipping table is a dump the
hybrid theorems accept, and its last entry denotes `(x0 ∧ x2) ∨ (x1 ∧ x2)` -/
example : DumpOK (storeDump (exStore, 4)) ∧ 2 ≤ (storeDump (exStore, 4)).length ∧
    Den (storeDump (exStore, 4)) 4 (fun σ => (σ 0 && σ 2) || (σ 1 && σ 2)) := by
  have h := (storeDump_spec 3 (by simp [VBOT])).ok (exStore, 4) exStore_valid rfl rfl
  rw [exStore_den] at h
  have hl := storeDump_len exStore 4 exStore_valid.2
  refine ⟨h.1, h.2.1, ?_⟩
  have h3 := h.2.2
  rw [hl] at h3
  exact h3

/-! evaluator tests of `satGo` (order: variable 0 first, false before true) -/
#guard (storeLib 3).satVals ((storeLib 3).evalExpr (.and (.var 0) (.var 2))) ==
  [[true, false, true], [true, true, true]]
#guard satGo exStore 3 0 4 == [[false, true, true], [true, false, true], [true, true, true]]
#guard (storeLib 3).satVals (storeLib 3).mkFalse == []
#guard ((storeLib 2).satVals ((storeLib 2).evalExpr (.const true))).length == 4
-- 130 declared variables, 120 of them fixed: 2^10 valuations, nothing like 2^130 steps
#guard ((storeLib 130).satVals ((storeLib 130).evalExpr
  ((List.range 120).foldl (fun acc i => .and acc (.var i)) (.const true)))).length == 1024

#print axioms Bio.storeLawful
#print axioms Bio.storeDump_spec
#print axioms Bio.exStore_dump
#print axioms Bio.satGo_spec

end Bio
